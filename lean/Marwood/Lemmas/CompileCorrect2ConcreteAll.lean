import Marwood.Lemmas.CompileCorrect2ConcreteLaws
/-!
# T01.3 stage 2 — `Laws2` for the concrete heap model, assembled

`concrete_laws2`: for `concreteOps ext` with the representation `cD` every field of `Laws2` is proved, except the
behaviour of the builtin procedures (`call`), which is the hypothesis `hcall` — the builtins are parameters of
the concrete machine (`ExtOps`) and their agreement with `Spec.Eval` is what the differential correspondence
tests.
-/
namespace Marwood.Lemmas.CompileCorrect2.Conc
open Marwood Marwood.Vm Marwood.Vm.Concrete Marwood.Lemmas.CompileCorrect Marwood.Lemmas.CompileCorrect2
open Marwood.Spec.Eval (Val Cell evalN)

variable {ext : ExtOps} {E : AtomEnc} {named : Text → Prop} {slot : Text → Nat} {LM : Nat → Nat}
  {final : List LambdaM} {setG : Text → Prop}

theorem deref_imm {h : CHeap} {v : VCell} (hv : ∀ p, v ≠ .ptr p) : Concrete.deref h v = v := by
  cases v <;> first | rfl | exact absurd rfl (hv _)

/-- a closure as the dispatch sees it: a pointer to a closure cell, or the closure value itself -/
theorem callee_closure_inv {h : CHeap} {v : VCell} {l e : Nat} (x : Concrete.callee h v = .closure l e) :
    v = .closure l e ∨ ∃ p, v = .ptr p ∧ h.cells[p]? = some (CCell.val (.closure l e)) := by
  cases v with
  | ptr p =>
    right
    have x' : (match h.cells[p]? with | some c => calleeOfCell c | none => Callee.other) = .closure l e := x
    cases hc : h.cells[p]? with
    | none => rw [hc] at x'; cases x'
    | some cell =>
      rw [hc] at x'
      refine ⟨p, rfl, ?_⟩
      cases cell with
      | val v =>
        cases v with
        | closure l' e' =>
          have x'' : Callee.closure l' e' = .closure l e := x'
          injection x'' with e1 e2
          subst e1 e2; exact hc
        | _ => cases x'
      | lexEnv s => cases x'
      | vector s => cases x'
      | lambda s => cases x'
      | cont s => cases x'
  | closure l' e' =>
    left
    have x' : Callee.closure l' e' = .closure l e := x
    injection x' with e1 e2
    subst e1 e2; rfl
  | _ => cases x

theorem c_envPut_ok (h : CHeap) (S : Array Cell) (e k : Nat) (old u : VCell)
    (hsrx : (cD ext E named slot LM final setG).SRx h S)
    (hget : (concreteOps ext).envGet h e k = some old) (hold : isEnvPtr old = false) (hu : isEnvPtr u = false) :
    ∃ h', (concreteOps ext).envPut h e k u = some h' ∧ Ext2 (cD ext E named slot LM final setG) h S h' S ∧
      (cD ext E named slot LM final setG).SRx h' S ∧
      (∀ e' k', (concreteOps ext).envGet h' e' k' = if e' = e ∧ k' = k then some u else (concreteOps ext).envGet h e' k') ∧
      ∀ m, (concreteOps ext).globGet h' m = (concreteOps ext).globGet h m := by
  obtain ⟨inv, fi, hsl⟩ := hsrx
  obtain ⟨ss, he, hk⟩ := envGet_some hget
  have hlt : k < ss.length := by
    rcases Nat.lt_or_ge k ss.length with h1 | h1
    · exact h1
    · rw [List.getElem?_eq_none h1] at hk; cases hk
  have hcell := envAt_cell he
  have helt : e < h.cells.size := getElem?_lt hcell
  have hput : Concrete.envPut h e k u = some (cwrite h e (.lexEnv (ss.set k u))) := by
    unfold Concrete.envPut; rw [he]; simp [hlt]
  have hcells : ∀ i, (cwrite h e (.lexEnv (ss.set k u))).cells[i]? =
      if i = e then some (CCell.lexEnv (ss.set k u)) else h.cells[i]? := by
    intro i
    show (h.cells.setIfInBounds e _)[i]? = _
    by_cases hi : i = e
    · subst hi; simp [helt]
    · rw [Array.getElem?_setIfInBounds_ne (fun x => hi x.symm)]; simp [hi]
  have henvAt : ∀ e', envAt (cwrite h e (.lexEnv (ss.set k u))) e' =
      if e' = e then some (ss.set k u) else envAt h e' := by
    intro e'
    unfold Concrete.envAt
    rw [hcells]
    by_cases hi : e' = e
    · simp [hi]
    · simp [hi]
  have hgetAll : ∀ e' k', Concrete.envGet (cwrite h e (.lexEnv (ss.set k u))) e' k' =
      if e' = e ∧ k' = k then some u else Concrete.envGet h e' k' := by
    intro e' k'
    unfold Concrete.envGet
    rw [henvAt]
    by_cases hi : e' = e
    · subst hi
      simp only [if_true, true_and, he]
      by_cases hk' : k' = k
      · subst hk'; simp [hlt]
      · have : ¬ k = k' := fun x => hk' x.symm
        simp [hk', this]
    · simp [hi]
  have hkeeps : Keeps h (cwrite h e (.lexEnv (ss.set k u))) := by
    intro i c hc _
    rw [hcells]
    by_cases hi : i = e
    · subst hi
      rw [hcell] at hc; cases hc
      exact .inr ⟨ss, ss.set k u, rfl, by simp⟩
    · exact .inl (by simp [hi, hc])
  refine ⟨_, hput, ?_, ⟨?_, ?_, hsl⟩, hgetAll, fun _ => rfl⟩
  · refine ext2_of_keeps S hkeeps ?_ ?_
    · intro e' n a b x
      rw [hgetAll]
      by_cases hs : e' = e ∧ n = k
      · obtain ⟨rfl, rfl⟩ := hs
        have : Concrete.envGet h e' n = some old := hget
        rw [this] at x; cases x; cases hold
      · simp [hs, x]
    · intro e' n v x hv
      rw [hgetAll]
      by_cases hs : e' = e ∧ n = k
      · exact ⟨u, by simp [hs], hu⟩
      · exact ⟨v, by simp [hs, x], hv⟩
  · exact (envPut_grows inv hput).inv inv (fun c hc => hc.elim)
  · refine ⟨fun p hp => ?_, fi.nodup⟩
    have hpu := fi.undef p hp
    have hne : p ≠ e := by
      intro x; subst x
      rw [hcell] at hpu; cases hpu
    rw [hcells]; simp [hne, hpu]

theorem c_globPut_ext (h : CHeap) (S : Array Cell) (n : Nat) (u : VCell)
    (hsrx : (cD ext E named slot LM final setG).SRx h S) :
    Ext2 (cD ext E named slot LM final setG) h S ((concreteOps ext).globPut h n u) S ∧
      (cD ext E named slot LM final setG).SRx ((concreteOps ext).globPut h n u) S ∧
      ∀ e k, (concreteOps ext).envGet ((concreteOps ext).globPut h n u) e k = (concreteOps ext).envGet h e k := by
  obtain ⟨inv, fi, hsl⟩ := hsrx
  refine ⟨ext2_of_keeps S (fun _ _ hc _ => .inl hc) (fun _ _ _ _ x => x) (fun _ _ v x y => ⟨v, x, y⟩),
    ⟨?_, ⟨fi.undef, fi.nodup⟩, fun x hx => ?_⟩, fun _ _ => rfl⟩
  · exact (Grows.of_eq (P := NoCont) (h' := { h with globals := h.globals.setIfInBounds n u }) inv rfl rfl rfl
      rfl).inv inv (fun c hc => hc.elim)
  · show slot x < (h.globals.setIfInBounds n u).size
    rw [Array.size_setIfInBounds]; exact hsl x hx

/-- **`Laws2` on the concrete heap model**, the behaviour of builtins being the only assumption. -/
theorem concrete_laws2 (hinj : ∀ a b, named a → named b → slot a = slot b → a = b)
    (hcall : ∀ n W h (σ : SSt) vf p vs ws w (σ' : SSt), Inv2 (cD ext E named slot LM final setG) W h σ →
      (cD ext E named slot LM final setG).VR h σ.store vf (.prim p) →
      All2 (VR2 (cD ext E named slot LM final setG) W h σ.store) vs ws → (evalN n).apply (.prim p) ws σ = .ok w σ' →
      ∃ id h' r, (concreteOps ext).callee h vf = .builtin id ∧ (concreteOps ext).builtinKind h id = .generic ∧
        builtinResult (concreteOps ext) h id vs.reverse = .ok (h', r) ∧
        VR2 (cD ext E named slot LM final setG) W h' σ'.store r w ∧ Inv2 (cD ext E named slot LM final setG) W h' σ' ∧
        Ext2 (cD ext E named slot LM final setG) h σ.store h' σ'.store) :
    Laws2 (cD ext E named slot LM final setG) where
  slot_inj := hinj
  truth := by
    intro h S v w hv
    cases hv with
    | base hb =>
      obtain ⟨c, hc, hv⟩ := hb
      rcases hv with rfl | ⟨p, rfl, hg⟩
      · show Concrete.deref h v = _ ↔ _
        rw [deref_imm (cell_not_ptr hc)]; exact cell_false_iff hc
      · show Concrete.getAt h p = _ ↔ _
        have hg' : Concrete.getAt h p = c := hg
        rw [hg']; exact cell_false_iff hc
    | pair hs hd _ _ =>
      have hd' : (concreteOps ext).deref h v = .pair _ _ := hd
      rw [hd']
      exact ⟨(fun e => by cases e), (fun e => by cases e)⟩
    | vec hs hv' _ => cases hv'
  ne_undefined := by
    intro h S v w hv
    cases hv with
    | base hb =>
      obtain ⟨c, hc, hv⟩ := hb
      rcases hv with rfl | ⟨p, rfl, _⟩
      · exact cell_ne_undefined hc
      · intro e; cases e
    | pair hs hd _ _ =>
      intro e; subst e
      have hd' : Concrete.deref h .undefined = .pair _ _ := hd
      cases hd'
    | vec hs hv' _ => cases hv'
  not_envptr := by
    intro h S v w hv
    cases hv with
    | base hb =>
      obtain ⟨c, hc, hv⟩ := hb
      rcases hv with rfl | ⟨p, rfl, _⟩
      · cases w <;> simp [AtomEnc.cell] at hc <;> first
          | (subst hc; rfl)
          | (obtain ⟨a, _, rfl⟩ := hc; rfl)
      · rfl
    | pair hs hd _ _ =>
      cases v <;> first | rfl | (have hd' : Concrete.deref h (.lexEnvPtr _ _) = .pair _ _ := hd; cases hd')
    | vec hs hv' _ => cases hv'
  void := fun _ _ => .base ⟨.void, rfl, .inl rfl⟩
  clos_true := by
    intro h v l e hc
    rcases callee_closure_inv hc with rfl | ⟨p, rfl, hcell⟩
    · intro x; cases x
    · show Concrete.getAt h p ≠ _
      unfold Concrete.getAt; rw [hcell]
      intro x; cases x
  clos_ne_undefined := by
    intro h v l e hc
    rcases callee_closure_inv hc with rfl | ⟨p, rfl, _⟩ <;> (intro x; cases x)
  clos_not_envptr := by
    intro h v l e hc
    rcases callee_closure_inv hc with rfl | ⟨p, rfl, _⟩ <;> rfl
  vr_pair := fun _ _ _ _ _ _ _ _ hs hd h1 h2 => .pair hs hd h1 h2
  vr_vec := fun _ _ _ _ _ _ hs hv hall => .vec hs hv hall
  vr_store := fun _ _ _ _ _ hx x => (Keeps.refl _).vr hx.keep x
  srx_store := fun _ _ _ _ x => x
  glob_get_put := by
    intro h S x v m hsrx hn
    have hlt := hsrx.2.2 x hn
    show ({ h with globals := h.globals.setIfInBounds (slot x) v } : CHeap).globals[m]?.getD .undefined
      = if m = slot x then v else h.globals[m]?.getD .undefined
    simp only [Array.getElem?_setIfInBounds]
    by_cases hm : m = slot x
    · subst hm; simp [hlt]
    · have : ¬ slot x = m := fun e => hm e.symm
      simp [hm, this]
  globPut_ext := fun h S n u hsrx => c_globPut_ext h S n u hsrx
  envPut_ok := fun h S e k old u hsrx hget hold hu => c_envPut_ok h S e k old u hsrx hget hold hu
  closure_ok := fun h S lam ep bp st srcs hsrx _ hsrc h1 h2 => c_closure_ok h S lam ep bp st srcs hsrx hsrc h1 h2
  activation_ok := fun h S lam cenv bp st srcs nargs hsrx _ hsrc hinfo hok hslots hargs =>
    c_activation_ok h S lam cenv bp st srcs nargs hsrx hsrc hinfo hslots hargs hok
  call := hcall

end Marwood.Lemmas.CompileCorrect2.Conc
