import Marwood.Lemmas.EnvFitStepB
/-!
# The slot clause of T06.6 as an invariant (4b, continued): RET, CALL, TCALL

`fv_ret`, `fv_call`, `fv_tcall`. The closure / bare-lambda branch of TCALL rebuilds the frame with one of two copy loops
(`tcallCopySame_fv`, `tcallCopyDiff_fv`): the cells they move come from the argument block (values, so neither header
cell); the saved `ep` / `ip` cells the different-argc variant pushes back were adjacent in the live frame.
Mirrors `Lemmas/ProcInvStepA.lean` (`pv_ret`), `ProcInvStepC.lean` (`pv_call`), `ProcInvStepD.lean`, `ProcInvMain.lean`.
-/
namespace Marwood.Lemmas.Good
open Marwood Marwood.Vm Marwood.Vm.Verify Marwood.Vm.Concrete Marwood.Lemmas.Sim
open Marwood.Heap (GcState)
open StepC FB

section
variable {ext : ExtOps} {s0 s' : St CHeap} {b : Bool}

/-! ## RET -/

theorem fv_ret (g : GoodI s0) (sd : StackDisc s0) (f : FInv s0) (hop : opAt s0 .ret)
    (hnp : ∀ e l o, s0.stack.cells[s0.bp + 2]? = some (.envPtr e) → s0.stack.cells[s0.bp + 3]? = some (.instrPtr l o) →
       ¬ InPre s0.heap l o)
    (hx : exec (concreteOps ext) .ret (nx s0) = .ok (s', b)) : FInv s' := by
  unfold exec at hx
  obtain ⟨s1, h1, hx⟩ := bind_ok hx
  cases hx
  obtain ⟨l, hl, hop⟩ := hop
  have hfl : s0.bp + 4 ≤ s0.stack.sp := sd.frameLive l hl (.inl hop)
  unfold stepRet at h1
  obtain ⟨n, _, h1⟩ := bind_ok h1
  obtain ⟨sp, hsp, h1⟩ := bind_ok h1
  obtain ⟨ep, hep, h1⟩ := bind_ok h1
  obtain ⟨⟨l', o'⟩, hip, h1⟩ := bind_ok h1
  obtain ⟨bp, _, h1⟩ := bind_ok h1
  cases h1
  obtain ⟨_, e⟩ := usub_inv hsp
  have e' : sp = s0.bp - n := e
  obtain ⟨v1, hv1, hep⟩ := bind_ok hep
  obtain ⟨v2, hv2, hip⟩ := bind_ok hip
  have c1 : s0.stack.cells[s0.bp + 2]? = some v1 := get_inv hv1
  have c2 : s0.stack.cells[s0.bp + 3]? = some v2 := get_inv hv2
  cases v1 <;> simp only [asEp] at hep <;> cases hep
  cases v2 <;> simp only [asIp] at hip <;> cases hip
  refine ⟨f.hf, ?_, ?_, ?_⟩
  · refine f.stk.mono ?_
    show sp ≤ s0.stack.sp
    omega
  · intro hp; exact absurd hp (hnp _ _ _ c1 c2)
  · intro _; exact f.stk (s0.bp + 2) _ _ _ (by omega) c1 c2

end

/-! ## the copy loops of TCALL -/

/-- the copy loop of the equal-argc TCALL: argument values are written into the old frame -/
theorem tcallCopySame_fv {h : CHeap} {B n : Nat} :
    ∀ (k it bp : Nat) (st st' : Stack), tcallCopySame k it bp st = .ok st' → PairsOk h st.cells B → SA h st B →
      Blk st st.sp n → it + k ≤ n → PairsOk h st'.cells B ∧ SA h st' B ∧ st'.sp = st.sp := by
  intro k
  induction k with
  | zero =>
    intro it bp st st' hc x y _ _
    simp only [tcallCopySame] at hc
    cases hc
    exact ⟨x, y, rfl⟩
  | succ k ih =>
    intro it bp st st' hc x y z hk
    simp only [tcallCopySame] at hc
    obtain ⟨v, hv, hc⟩ := bind_ok hc
    obtain ⟨i, _, hc⟩ := bind_ok hc
    obtain ⟨st1, hs1, hc⟩ := bind_ok hc
    obtain ⟨r1, r2⟩ := StepB.getOffset_inv hv
    have hpg : plainGlob v = true := z _ v (by omega) (by omega) r2
    obtain ⟨x1, e1, _⟩ := x.set (NHdr.of_plainGlob hpg) hs1
    have y1 := y.set (.of_nhdr (NHdr.of_plainGlob hpg)) hs1
    have z1 : Blk st1 st1.sp n := by rw [e1]; exact z.set hpg hs1
    obtain ⟨a, b, c⟩ := ih (it + 1) bp st1 st' hc x1 y1 z1 (by omega)
    exact ⟨a, b, by omega⟩

/-- the push loop of the different-argc TCALL: argument values are pushed -/
theorem tcallCopyDiff_fv {h : CHeap} {B n : Nat} :
    ∀ (it savedSp : Nat) (st st' : Stack), tcallCopyDiff it savedSp st = .ok st' → PairsOk h st.cells st.sp →
      SA h st B → Blk st savedSp n → it ≤ n → PairsOk h st'.cells st'.sp ∧ SA h st' B := by
  intro it
  induction it with
  | zero =>
    intro savedSp st st' hc x y _ _
    simp only [tcallCopyDiff] at hc
    cases hc
    exact ⟨x, y⟩
  | succ it ih =>
    intro savedSp st st' hc x y z hk
    simp only [tcallCopyDiff] at hc
    obtain ⟨i, hi, hc⟩ := bind_ok hc
    obtain ⟨v, hv, hc⟩ := bind_ok hc
    obtain ⟨i1, e⟩ := usub_inv hi
    have hpg : plainGlob v = true := z i v (by omega) (by omega) (get_inv hv)
    exact ih savedSp (st.push v) st' hc (x.push (NHdr.of_plainGlob hpg).2) (y.push (.of_nhdr (NHdr.of_plainGlob hpg)))
      (z.push hpg) (by omega)

/-- pushing any cell on top of a cell that is not an `EnvironmentPointer` -/
theorem PairsOk.push_anyB {h : CHeap} {st : Stack} {v : VCell} (x : PairsOk h st.cells st.sp)
    (htop : ∀ e, st.cells[st.sp]? ≠ some (.envPtr e)) : PairsOk h (st.push v).cells (st.push v).sp := by
  by_cases hv : ∃ l o, v = .instrPtr l o
  · obtain ⟨l, o, rfl⟩ := hv
    exact x.push_ip (fun e he => absurd he (htop e))
  · exact x.push (fun l o he => hv ⟨l, o, he⟩)

/-- the closure / bare-lambda branch of TCALL: the stack is rebuilt, `ip := (lam, 0)` -/
theorem tcall_rest_fv {s s' : St CHeap} {lam : Nat} (g : GoodI s) (f : FInv s) (hfl : s.bp + 4 ≤ s.stack.sp)
    (hblk : ArgBlock s.stack s.stack.sp)
    (h : (do
      let argc ← (do let v ← s.stack.getOffset 0; asArgc v)
      let frameArgc ← (do let v ← s.stack.get (s.bp + 1); asArgc v)
      if argc = frameArgc then do
        let savedBp ← s.stack.get (s.bp + 4)
        let st ← tcallCopySame argc 0 s.bp s.stack
        let st := { st with sp := s.bp + 3 }
        let bp ← asBp savedBp
        (.ok { s with stack := st, bp := bp, ipL := lam, ipO := 0 } : Outcome (St CHeap))
      else do
        let savedSp := s.stack.sp
        let savedEp ← s.stack.get (s.bp + 2)
        let savedIp ← s.stack.get (s.bp + 3)
        let savedBp ← s.stack.get (s.bp + 4)
        let sp0 ← usub s.bp frameArgc "tcall: bp - frame_argc"
        let st := { s.stack with sp := sp0 }
        let st ← tcallCopyDiff argc savedSp st
        let st := ((st.push (.argc argc)).push savedEp).push savedIp
        let bp ← asBp savedBp
        .ok { s with stack := st, bp := bp, ipL := lam, ipO := 0 }) = .ok s') :
    PairsOk s.heap s'.stack.cells s'.stack.sp ∧ s'.heap = s.heap ∧ s'.acc = s.acc ∧ s'.ep = s.ep ∧ s'.ipL = lam ∧
      s'.ipO = 0 := by
  obtain ⟨argc, hargc, h⟩ := bind_ok h
  obtain ⟨frameArgc, _, h⟩ := bind_ok h
  -- the argument block
  obtain ⟨a, ha, hargc⟩ := bind_ok hargc
  obtain ⟨_, ha⟩ := StepB.getOffset_inv ha
  have ha' : s.stack.cells[s.stack.sp]? = some a := by simpa using ha
  cases a <;> simp only [asArgc] at hargc <;> cases hargc
  have blk : Blk s.stack s.stack.sp argc := hblk argc ha'
  have sa0 : SA s.heap s.stack s.stack.sp := .of_good g
  simp only at h
  split at h
  · obtain ⟨savedBp, _, h⟩ := bind_ok h
    obtain ⟨st, hst, h⟩ := bind_ok h
    obtain ⟨bp, _, h⟩ := bind_ok h
    cases h
    obtain ⟨r1, _, _⟩ := tcallCopySame_fv (h := s.heap) (B := s.stack.sp) (n := argc) argc 0 s.bp s.stack st hst f.stk
      sa0 blk (by omega)
    refine ⟨?_, rfl, rfl, rfl, rfl, rfl⟩
    refine r1.mono ?_
    show s.bp + 3 ≤ s.stack.sp
    omega
  · obtain ⟨savedEp, hep, h⟩ := bind_ok h
    obtain ⟨savedIp, hip, h⟩ := bind_ok h
    obtain ⟨savedBp, _, h⟩ := bind_ok h
    obtain ⟨sp0, hsp0, h⟩ := bind_ok h
    obtain ⟨st, hst, h⟩ := bind_ok h
    obtain ⟨bp, _, h⟩ := bind_ok h
    cases h
    obtain ⟨_, e0⟩ := usub_inv hsp0
    have c1 : s.stack.cells[s.bp + 2]? = some savedEp := get_inv hep
    have c2 : s.stack.cells[s.bp + 3]? = some savedIp := get_inv hip
    have pk0 : PairsOk s.heap ({ s.stack with sp := sp0 } : Stack).cells ({ s.stack with sp := sp0 } : Stack).sp := by
      refine f.stk.mono ?_
      show sp0 ≤ s.stack.sp
      omega
    have sa0' : SA s.heap { s.stack with sp := sp0 } s.stack.sp := sa0.resp rfl (.inl (by show sp0 ≤ s.stack.sp; omega))
    obtain ⟨pk1, _⟩ := tcallCopyDiff_fv (h := s.heap) (B := s.stack.sp) (n := argc) argc s.stack.sp _ st hst pk0 sa0'
      (blk.resp rfl) (Nat.le_refl _)
    have pk2 := pk1.push (v := .argc argc) (nhdr_argc argc).2
    have pk3 : PairsOk s.heap ((st.push (.argc argc)).push savedEp).cells ((st.push (.argc argc)).push savedEp).sp := by
      refine pk2.push_anyB ?_
      intro e he
      rw [push_sp, push_top] at he
      cases he
    refine ⟨?_, rfl, rfl, rfl, rfl, rfl⟩
    show PairsOk s.heap (((st.push (.argc argc)).push savedEp).push savedIp).cells
      (((st.push (.argc argc)).push savedEp).push savedIp).sp
    by_cases hv : ∃ l o, savedIp = .instrPtr l o
    · obtain ⟨l, o, rfl⟩ := hv
      refine pk3.push_ip ?_
      intro e he
      rw [push_sp, push_top] at he
      cases he
      exact f.stk (s.bp + 2) e l o (by omega) c1 c2
    · exact pk3.push (fun l o he => hv ⟨l, o, he⟩)

/-! ## CALL / TCALL -/

section
variable {ext : ExtOps} {s0 s' : St CHeap} {b : Bool}

theorem calleeLam_closure {h : CHeap} {a : VCell} {lam env : Nat} (hc : callee h a = .closure lam env) :
    calleeLam h a = some lam := by
  unfold calleeLam; rw [hc]

theorem calleeLam_lambda {h : CHeap} {p : Nat} (hc : callee h (.ptr p) = .lambda) : calleeLam h (.ptr p) = some p := by
  unfold calleeLam; rw [hc]

/-- the state CALL / TCALL produce when the callee is a closure or a bare lambda -/
theorem finv_enterCallee {s1 : St CHeap} {lam : Nat} (ci : CInvG IsValue s0.heap) (ok : CalleeOk s0) (f : FInv s0)
    (hcl : calleeLam s0.heap s0.acc = some lam) (hh : s1.heap = s0.heap) (ha : s1.acc = s0.acc) (hl : s1.ipL = lam)
    (ho : s1.ipO = 0) (hstk : PairsOk s0.heap s1.stack.cells s1.stack.sp) : FInv s1 := by
  have hpre : InPre s0.heap lam 0 := inPre_zero ci (procAt_of_calleeOk ok hcl)
  refine ⟨by rw [hh]; exact f.hf, by rw [hh]; exact hstk, ?_, ?_⟩
  · intro _; rw [hh, ha, hl]; exact Or.inr hcl
  · intro hn; rw [hh, hl, ho] at hn; exact absurd hpre hn

theorem fv_call (eg : ExtGood ext) (ef : ExtFit ext) (g : GoodI s0) (ci : CInvG IsValue s0.heap) (sd : StackDisc s0)
    (ok : CalleeOk s0) (sm' : Small s'.heap) (f : FInv s0) (hfit : Fit s0.heap s0.ep s0.ipL) (hop : opAt s0 .callAcc)
    (hnpR : ¬ InPre s0.heap s0.ipL s0.ipO) (hnpN : ¬ InPre s0.heap s0.ipL (s0.ipO + 1))
    (hcont : ∀ c, callee s0.heap s0.acc = .continuation c → ¬ InPre s0.heap c.ipL c.ipO)
    (hx : exec (concreteOps ext) .callAcc (nx s0) = .ok (s', b)) : FInv s' := by
  unfold exec at hx
  obtain ⟨s1, h1, hx⟩ := bind_ok hx
  cases hx
  have hblk : ArgBlock (nx s0).stack (nx s0).stack.sp := sd.call (.inl hop)
  have fnx : FInv (nx s0) := ⟨f.hf, f.stk, fun hp => absurd hp hnpN, fun _ => hfit⟩
  have hlam : ∃ lam, lambdaAt (nx s0).heap (nx s0).ipL = some lam := by
    obtain ⟨l, hl, _⟩ := hop; exact ⟨l, hl⟩
  unfold stepCall at h1
  cases hc : (concreteOps ext).callee (nx s0).heap (nx s0).acc with
  | builtin id =>
    rw [hc] at h1
    exact runBuiltin_fv eg ef g.nx hblk sm' fnx hfit hlam (fun _ => hnpR) hnpN h1
  | continuation c => rw [hc] at h1; exact invokeCont_fv g.nx fnx hc (hcont c hc) h1
  | other => rw [hc] at h1; cases h1
  | closure lam env =>
    rw [hc] at h1
    cases h1
    exact finv_enterCallee ci ok f (calleeLam_closure hc) rfl rfl rfl rfl (f.stk.push_frame hfit)
  | lambda =>
    rw [hc] at h1
    obtain ⟨lam, hlm, h1⟩ := bind_ok h1
    cases h1
    have hacc : s0.acc = .ptr lam := StepB.asPtr_inv hlm
    have hc' : callee s0.heap (.ptr lam) = .lambda := by rw [← hacc]; exact hc
    exact finv_enterCallee ci ok f (by rw [hacc]; exact calleeLam_lambda hc') rfl rfl rfl rfl (f.stk.push_frame hfit)

theorem fv_tcall (eg : ExtGood ext) (ef : ExtFit ext) (g : GoodI s0) (ci : CInvG IsValue s0.heap) (sd : StackDisc s0)
    (ok : CalleeOk s0) (sm' : Small s'.heap) (f : FInv s0) (hfit : Fit s0.heap s0.ep s0.ipL) (hop : opAt s0 .tcallAcc)
    (hnpR : ¬ InPre s0.heap s0.ipL s0.ipO) (hnpN : ¬ InPre s0.heap s0.ipL (s0.ipO + 1))
    (hcont : ∀ c, callee s0.heap s0.acc = .continuation c → ¬ InPre s0.heap c.ipL c.ipO)
    (hx : exec (concreteOps ext) .tcallAcc (nx s0) = .ok (s', b)) : FInv s' := by
  unfold exec at hx
  obtain ⟨s1, h1, hx⟩ := bind_ok hx
  cases hx
  have hblk : ArgBlock (nx s0).stack (nx s0).stack.sp := sd.call (.inr hop)
  have fnx : FInv (nx s0) := ⟨f.hf, f.stk, fun hp => absurd hp hnpN, fun _ => hfit⟩
  have hlam : ∃ lam, lambdaAt (nx s0).heap (nx s0).ipL = some lam := by
    obtain ⟨l, hl, _⟩ := hop; exact ⟨l, hl⟩
  have hfl : (nx s0).bp + 4 ≤ (nx s0).stack.sp := by
    obtain ⟨l, hl, hop'⟩ := hop
    exact sd.frameLive l hl (.inr hop')
  unfold stepTCall at h1
  cases hc : (concreteOps ext).callee (nx s0).heap (nx s0).acc with
  | builtin id =>
    rw [hc] at h1
    exact runBuiltin_fv eg ef g.nx hblk sm' fnx hfit hlam (fun _ => hnpR) hnpN h1
  | continuation c => rw [hc] at h1; exact invokeCont_fv g.nx fnx hc (hcont c hc) h1
  | other => rw [hc] at h1; cases h1
  | closure lam env =>
    rw [hc] at h1
    obtain ⟨lam', hlm, h1⟩ := bind_ok h1
    cases hlm
    obtain ⟨k1, k2, k3, _, k5, k6⟩ := tcall_rest_fv g.nx fnx hfl hblk h1
    exact finv_enterCallee ci ok f (calleeLam_closure hc) k2 k3 k5 k6 k1
  | lambda =>
    rw [hc] at h1
    obtain ⟨lam', hlm, h1⟩ := bind_ok h1
    have hacc : s0.acc = .ptr lam' := StepB.asPtr_inv hlm
    have hc' : callee s0.heap (.ptr lam') = .lambda := by rw [← hacc]; exact hc
    obtain ⟨k1, k2, k3, _, k5, k6⟩ := tcall_rest_fv g.nx fnx hfl hblk h1
    exact finv_enterCallee ci ok f (by rw [hacc]; exact calleeLam_lambda hc') k2 k3 k5 k6 k1

end

end Marwood.Lemmas.Good
