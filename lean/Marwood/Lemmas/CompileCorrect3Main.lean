import Marwood.Lemmas.CompileCorrect3Call
/-!
# T01.3 STAGE 3 — compiler correctness for `lambda`, closures and lexical variables (success case)

`compileExpr_correct3`: for `e` in the fragment `F3` (stage-1 forms in any binding context, references and
`set!` of lexical variables at any depth, `(lambda (x …) body …)` with fixed arity and no internal
definitions, application of primitive procedures and of closures in tail and non-tail position), if `Spec.Eval`
evaluates `e` in the environment `ρ` from `σ` to `w`, `σ'`, then from every machine state whose current lambda
holds the compiled code at `ip.1`, whose environment `ep` represents `ρ` through the binding context, and whose
heap represents `σ` (`Inv3`), the machine runs — CALL pushes `%ep` and the return address, ENTER builds the
activation environment, the body runs, RET restores — to a state with the same lambda, `bp`, `ep`, the same
live stack, `ip.1` behind the code, a representation of `w` in `acc` (a closure as a `(lambda, environment)` pair
whose captured slots are one-level pointers to the locations of the captured variables) and a heap
representing `σ'`, in a world that extends the old one (`Run3`). Code compiled with the tail flag may instead
end in a `TCALL` of a closure, which replaces the current frame; the run then ends in the state the `RET` of
the current activation would have left, in the caller (`Ret3`; `Out3` is the disjunction).

The induction is on the fuel of the SPECIFICATION (`ExprOK3 n ∧ CallOK3 n`): the body of a closure is not a
sub-term of the call.
-/
namespace Marwood.Lemmas.CompileCorrect3
open Marwood Marwood.Vm Marwood.Lemmas.CompileCorrect Marwood.Lemmas.CompileCorrect2
open Marwood.Spec.Eval (Val Prim Cell Env evalN evalStep applyStep evalArgs properList quoteVal kwOf insertG
  k_quote k_if_ k_setBang k_define k_lambda)

variable {H : Type} {ops : HeapOps H} {D : RepData2 ops}

/-- application: a primitive procedure (as in stage 1) or a closure; `CALL` in non-tail position, `TCALL` in
    tail position -/
theorem case3_app (L : Laws3 D) {n : Nat} (ih : ExprOK3 D n) (ihc : CallOK3 D n)
    {f : Nat} {cst cst' : CState} {c : Ctx} {base : Nat} {tail : Bool} {fn args : Datum} {code : List BC} {ρ : Env}
    {us : Text → Prop}
    (hh : AppHead fn) (hff : F3 D.setG f c (bound ρ) us false fn) (hfr : F3L D.setG f c (bound ρ) us args) (hcx : CtxOK c)
    (hcomp : compileExpr (f + 1) cst c base tail (.pair fn args) = .ok (cst', code))
    (hpre : cst'.lambdas <+: D.final) {σ σ' : SSt} {w : Val}
    (hev : evalStep (evalN n) (.pair fn args) ρ σ = .ok w σ')
    {W : World} {s : MSt H} {fr : Frame}
    (hc : CodeAt2 D c.envmap s.heap σ.store s.ipL base code) (hip : s.ipO = base)
    (hi : Inv3 D W s.heap σ) (her : EnvRep3 ops W s.heap c s.ep ρ us) (hw : SWF s.stack)
    (hfrm : tail = true → FrameAt s.stack s.bp fr) :
    ∃ W' s', W.le W' ∧ Out3 D W' s code.length σ σ' w tail fr s' := by
  obtain ⟨cst1, code1, k, pcode, hca, hcf, hcode⟩ := compile_app_inv2 hh hcomp
  subst hcode
  obtain ⟨es, ws, σ1, fv, σ2, hpl, hea, hef, hap⟩ := evalStep_app_inv hh hev
  subst hip
  have hcA := hc.left.left.left
  have hcP := hc.left.left.right
  have hcF := hc.left.right
  have hcC := hc.right
  have hpre1 : cst1.lambdas <+: D.final := ((monoOK3 _ f).1 _ _ _ _ _ _ _ _ _ hff hcf).trans hpre
  -- the operands
  obtain ⟨W1, s1, vs, hw1, r1, hk⟩ := args3_ok L ih es _ _ _ _ _ _ _ _ ρ us hfr hcx hca hpre1 hpl σ ws σ1 hea W s hcA rfl
    hi her hw
  subst hk
  have hcP1 : CodeAt2 D c.envmap s1.heap σ1.store s1.ipL s1.ipO [BC.op .pushImm, BC.argc vs.length] :=
    (r1.codeAfter hcP).cast r1.ipO.symm
  have hp := step_pushImm hcP1.1 (hcP1.op 0 rfl) (hcP1.argcCell 1 rfl) (by intro o h; cases h)
  -- the operator
  have hcF2 : CodeAt2 D c.envmap s1.heap σ1.store s1.ipL (s.ipO + code1.length + 2) pcode :=
    (r1.codeAfter hcF).cast (by simp only [List.length_append, List.length_cons, List.length_nil]; omega)
  have her1 : EnvRep3 ops W1 s1.heap c s1.ep ρ us := by rw [r1.ep]; exact her.ext r1.ext hw1
  obtain ⟨W3, s3, hw3, r3⟩ := ih _ _ _ _ _ _ _ _ _ hff hcx hcf hpre σ1 fv σ2 hef W1
    { s1 with stack := s1.stack.push (.argc vs.length), ipO := s1.ipO + 2 } hcF2
    (by show s1.ipO + 2 = _; rw [r1.ipO]) r1.inv her1 (push_swf _ _)
  have e13 : Ext3 D s.heap σ.store s3.heap σ2.store := r1.ext.trans r3.ext
  have hvals : All2 (VR3 D W3 s3.heap σ2.store) vs ws := All2.vr3_mono r1.vals r3.ext hw3
  have hst : LiveEq ((pushAll s.stack vs).push (.argc vs.length)) s3.stack :=
    (r1.stack.push (pushAll_swf _ _ hw) r1.swf (.argc vs.length)).trans r3.stack
  have hipL : s3.ipL = s.ipL := r3.ipL.trans r1.ipL
  have hipO : s3.ipO = s.ipO + code1.length + 2 + pcode.length := by
    have h3 : s3.ipO = s1.ipO + 2 + pcode.length := r3.ipO
    rw [h3, r1.ipO]
  have hcC3 : CodeAt2 D c.envmap s3.heap σ2.store s3.ipL s3.ipO
      [BC.op (if tail = true then .tcallAcc else .callAcc)] := by
    rw [hipL]
    exact (hcC.ext e13.toExt2).cast (by
      rw [hipO]; simp only [List.length_append, List.length_cons, List.length_nil]; omega)
  have hlen : (code1 ++ [BC.op .pushImm, BC.argc vs.length] ++ pcode
      ++ [BC.op (if tail = true then .tcallAcc else .callAcc)]).length = code1.length + 2 + pcode.length + 1 := by
    simp only [List.length_append, List.length_cons, List.length_nil]
  rw [hlen]
  have hbp : s3.bp = s.bp := r3.bp.trans r1.bp
  have hep : s3.ep = s.ep := r3.ep.trans r1.ep
  have hsteps : Steps ops s s3 := r1.steps.trans (.cons hp r3.steps)
  have hw13 : W.le W3 := World.le_trans hw1 hw3
  cases n with
  | zero => cases hap
  | succ m =>
    cases fv with
    | closure ps rest body ρc =>
      obtain ⟨lam, cenv, hcal, hok⟩ := VR3.closure_inv L r3.acc
      cases tail with
      | false =>
        have hcall := step_call_closure hcC3.1 (hcC3.op 0 rfl) hcal
        have hst4 : LiveEq (callFrame s.stack vs s3.ep s3.ipL (s3.ipO + 1))
            ((s3.stack.push (.envPtr s3.ep)).push (.instrPtr s3.ipL (s3.ipO + 1))) := by
          unfold callFrame
          exact ((hst.push (push_swf _ _) r3.swf _).push (push_swf _ _) (push_swf _ _) _)
        obtain ⟨W5, s5, hw5, st5, i1, i2, i3, i4, i5, i6, i7, i8, i9⟩ :=
          ihc ps rest body ρc ws σ2 w σ' hap W3
            { s3 with stack := (s3.stack.push (.envPtr s3.ep)).push (.instrPtr s3.ipL (s3.ipO + 1)),
                      ipL := lam, ipO := 0 }
            lam cenv vs s.stack s3.ep s3.ipL (s3.ipO + 1) hcal hok r3.inv hvals rfl rfl hst4 hw (push_swf _ _)
        exact ⟨W5, s5, World.le_trans hw13 hw5, .inl ⟨hsteps.trans (.cons hcall st5), i1.trans hipL,
          by rw [i2, hipO]; omega, i4.trans hbp, i3.trans hep, i5, i6, i7, i8, e13.trans i9⟩⟩
      | true =>
        -- the frame is replaced; the callee returns to the caller of the current activation
        have hfr0 := hfrm rfl
        obtain ⟨st4, htc, hst4, hw4⟩ := step_tcall_closure (fr := fr) hcC3.1 (hcC3.op 0 rfl) hcal
          (by rw [hbp]; exact hfr0) hw hst r3.swf
        obtain ⟨W5, s5, hw5, st5, i1, i2, i3, i4, i5, i6, i7, i8, i9⟩ :=
          ihc ps rest body ρc ws σ2 w σ' hap W3 { s3 with stack := st4, bp := fr.bpc, ipL := lam, ipO := 0 }
            lam cenv vs fr.st0 fr.epc fr.lc fr.oc hcal hok r3.inv hvals rfl rfl hst4 hfr0.swf0 hw4
        exact ⟨W5, s5, World.le_trans hw13 hw5, .inr ⟨rfl, ⟨hsteps.trans (.cons htc st5), i1, i2, i3, i4, i5, i6, i7,
          i8, e13.trans i9⟩⟩⟩
    | prim p =>
      have hvf : D.VR s3.heap σ2.store s3.acc (.prim p) := (VR3.prim_inv L r3.acc).1
      obtain ⟨id, h', r, hcal, hkind, hres, hvr, hinv, hext⟩ :=
        L.call (m + 1) W3 s3.heap σ2 s3.acc p vs ws w σ' r3.inv hvf hvals hap
      cases tail with
      | false =>
        obtain ⟨st', hstep, hl', hw'⟩ := step_call_builtin hcC3.1 (hcC3.op 0 rfl) hcal hkind hst hw r3.swf hres
        exact ⟨W3, _, hw13, .inl ⟨hsteps.trans (Steps.one hstep), hipL, by show s3.ipO + 1 = _; omega, hbp, hep, hl',
          hw', hvr, hinv, e13.trans hext⟩⟩
      | true =>
        obtain ⟨st', hstep, hl', hw'⟩ := step_tcall_builtin hcC3.1 (hcC3.op 0 rfl) hcal hkind hst hw r3.swf hres
        exact ⟨W3, _, hw13, .inl ⟨hsteps.trans (Steps.one hstep), hipL, by show s3.ipO + 1 = _; omega, hbp, hep, hl',
          hw', hvr, hinv, e13.trans hext⟩⟩
    | bool b => cases hap
    | char ch => cases hap
    | nil => cases hap
    | int i => cases hap
    | str t => cases hap
    | sym t => cases hap
    | void => cases hap
    | pair a => cases hap
    | vec a => cases hap
    | promise a => cases hap
    | undef => cases hap

theorem exprOKT3_succ (L : Laws3 D) {n : Nat} (iht : ExprOKT3 D n) (ihc : CallOK3 D n) : ExprOKT3 D (n + 1) := by
  have ih : ExprOK3 D n := iht.nontail
  intro f cst c base tail e cst' code ρ us hf hcx hcomp hpre σ w σ' hev W s fr hc hip hi her hw hfrm
  change evalStep (evalN n) e ρ σ = .ok w σ' at hev
  have wrap : (∃ W' s', W.le W' ∧ Run3 D W' s code.length σ σ' w s') →
      ∃ W' s', W.le W' ∧ Out3 D W' s code.length σ σ' w tail fr s' :=
    fun ⟨W', s', h1, h2⟩ => ⟨W', s', h1, .inl h2⟩
  cases hf with
  | bool b =>
    obtain ⟨rfl, _⟩ := compile_const_inv2 (.inl ⟨b, rfl⟩) hcomp
    subst hip
    obtain ⟨s', r⟩ := run3_quote L hev hc hi hw
    exact wrap ⟨W, s', World.le_refl _, r⟩
  | char ch =>
    obtain ⟨rfl, _⟩ := compile_const_inv2 (.inr (.inl ⟨ch, rfl⟩)) hcomp
    subst hip
    obtain ⟨s', r⟩ := run3_quote L hev hc hi hw
    exact wrap ⟨W, s', World.le_refl _, r⟩
  | num m =>
    obtain ⟨rfl, _⟩ := compile_const_inv2 (.inr (.inr (.inl ⟨m, rfl⟩))) hcomp
    subst hip
    obtain ⟨s', r⟩ := run3_quote L hev hc hi hw
    exact wrap ⟨W, s', World.le_refl _, r⟩
  | str t =>
    obtain ⟨rfl, _⟩ := compile_const_inv2 (.inr (.inr (.inr ⟨t, rfl⟩))) hcomp
    subst hip
    obtain ⟨s', r⟩ := run3_quote L hev hc hi hw
    exact wrap ⟨W, s', World.le_refl _, r⟩
  | quote d rest =>
    obtain ⟨rfl, _⟩ := compile_quote_inv2 hcomp
    subst hip
    rw [evalStep_quote] at hev
    obtain ⟨s', r⟩ := run3_quote L hev hc hi hw
    exact wrap ⟨W, s', World.le_refl _, r⟩
  | vecc e0 =>
    obtain ⟨rfl, _⟩ := compile_vec_inv2 hcomp
    subst hip
    obtain ⟨s', r⟩ := run3_quote L hev hc hi hw
    exact wrap ⟨W, s', World.le_refl _, r⟩
  | sym x hsc hus => exact wrap (case3_sym L hsc hus hcx hcomp hev hc hip hi her hw)
  | setBang x e hsc _ hfe => exact wrap (case3_setBang L ih hsc hfe hcx hcomp hpre hev hc hip hi her hw)
  | if2 t cn hft hfc => exact case3_if2 L ih iht hft hfc hcx hcomp hpre hev hc hip hi her hw hfrm
  | if3 t cn a hft hfc hfa => exact case3_if3 L ih iht hft hfc hfa hcx hcomp hpre hev hc hip hi her hw hfrm
  | app fn args hh hff hfr => exact case3_app L ih ihc hh hff hfr hcx hcomp hpre hev hc hip hi her hw hfrm
  | lambda formals body p ps rest ints caps h1 h2 h3 h4 h5 h6 h7 h8 =>
    exact wrap (case3_lambda L h1 h2 h3 h4 h5 h6 h7 h8 hcomp hpre hev hc hip hi her hw)

theorem both3_ok (L : Laws3 D) : ∀ n, ExprOKT3 D n ∧ CallOK3 D n
  | 0 => ⟨(by intro f cst c base tail e cst' code ρ us _ _ _ _ σ w σ' hev; cases hev),
          (by intro ps rest body ρc ws σ w σ' hap; cases hap)⟩
  | n + 1 =>
    have ih := both3_ok L n
    ⟨exprOKT3_succ L ih.1 ih.2, callOK3_succ L ih.1.nontail ih.1⟩

/-- **Compiler correctness, stage 2** (success case; closures, lexical variables, calls and tail calls). -/
theorem compileExpr_correct3 (L : Laws3 D) (f : Nat) (cst : CState) (c : Ctx) (base : Nat) (tail : Bool)
    (e : Datum) (cst' : CState) (code : List BC) (ρ : Env) (us : Text → Prop) (hf : F3 D.setG f c (bound ρ) us tail e)
    (hcx : CtxOK c)
    (hcomp : compileExpr f cst c base tail e = .ok (cst', code)) (hpre : cst'.lambdas <+: D.final)
    (n : Nat) (σ : SSt) (w : Val) (σ' : SSt) (hev : (evalN n).eval e ρ σ = .ok w σ')
    (W : World) (s : MSt H) (fr : Frame) (hc : CodeAt2 D c.envmap s.heap σ.store s.ipL base code)
    (hip : s.ipO = base) (hi : Inv3 D W s.heap σ) (her : EnvRep3 ops W s.heap c s.ep ρ us) (hw : SWF s.stack)
    (hfr : tail = true → FrameAt s.stack s.bp fr) :
    ∃ W' s', W.le W' ∧ Out3 D W' s code.length σ σ' w tail fr s' :=
  (both3_ok L n).1 f cst c base tail e cst' code ρ us hf hcx hcomp hpre σ w σ' hev W s fr hc hip hi her hw hfr

/-- … in non-tail position: control falls through behind the code -/
theorem compileExpr_correct3_nontail (L : Laws3 D) (f : Nat) (cst : CState) (c : Ctx) (base : Nat)
    (e : Datum) (cst' : CState) (code : List BC) (ρ : Env) (us : Text → Prop) (hf : F3 D.setG f c (bound ρ) us false e)
    (hcx : CtxOK c)
    (hcomp : compileExpr f cst c base false e = .ok (cst', code)) (hpre : cst'.lambdas <+: D.final)
    (n : Nat) (σ : SSt) (w : Val) (σ' : SSt) (hev : (evalN n).eval e ρ σ = .ok w σ')
    (W : World) (s : MSt H) (hc : CodeAt2 D c.envmap s.heap σ.store s.ipL base code)
    (hip : s.ipO = base) (hi : Inv3 D W s.heap σ) (her : EnvRep3 ops W s.heap c s.ep ρ us) (hw : SWF s.stack) :
    ∃ W' s', W.le W' ∧ Run3 D W' s code.length σ σ' w s' :=
  (both3_ok L n).1.nontail f cst c base e cst' code ρ us hf hcx hcomp hpre σ w σ' hev W s hc hip hi her hw

/-- the call of a closure value, from the state `CALL` (or `TCALL`) leaves to the state `RET` leaves -/
theorem closureCall_correct3 (L : Laws3 D) (n : Nat) : CallOK3 D n := (both3_ok L n).2

/-- at top level: no lexical environment, the empty world -/
theorem envRep3_top (W : World) (h : H) (ep : Nat) (us : Text → Prop) : EnvRep3 ops W h c0 ep [] us := by
  intro x j hj
  simp [slotIdx, c0] at hj


end Marwood.Lemmas.CompileCorrect3
