import Marwood.Lemmas.CompileCorrect3Main
/-!
# T01.3 stage 3 — the dispatch of `CALL` / `TCALL` on a represented procedure, as a statement of its own

`disp3_ok`: the machine is about to execute `CALL` (or `TCALL`) with a represented procedure in `acc`, the
represented operands and their number on the stack; the specification's `apply` returns. Then the machine runs to
the state behind the call (operands popped, result in `acc`), or — for `TCALL` of a closure — to the state the
`RET` of the current activation would have left. This is the second half of the application case of the main
theorem, isolated so that the `apply` re-dispatch (`CompileCorrect3Apply.lean`) can re-enter it.
-/
namespace Marwood.Lemmas.CompileCorrect3
open Marwood Marwood.Vm Marwood.Lemmas.CompileCorrect Marwood.Lemmas.CompileCorrect2
open Marwood.Spec.Eval (Val Prim Cell Env evalN evalStep applyStep evalArgs properList quoteVal kwOf insertG
  k_quote k_if_ k_setBang k_define k_lambda)

variable {H : Type} {ops : HeapOps H} {D : RepData2 ops}

/-- the call returned behind the instruction: operands popped (`stk0` is the stack before they were pushed) -/
structure CallRun3 (D : RepData2 ops) (W' : World) (s : MSt H) (stk0 : Stack) (σ σ' : SSt) (w : Val) (s' : MSt H) :
    Prop where
  steps : Steps ops s s'
  ipL : s'.ipL = s.ipL
  ipO : s'.ipO = s.ipO + 1
  bp : s'.bp = s.bp
  ep : s'.ep = s.ep
  stack : LiveEq stk0 s'.stack
  swf : SWF s'.stack
  acc : VR3 D W' s'.heap σ'.store s'.acc w
  inv : Inv3 D W' s'.heap σ'
  ext : Ext3 D s.heap σ.store s'.heap σ'.store

def DispOut (D : RepData2 ops) (W' : World) (s : MSt H) (stk0 : Stack) (σ σ' : SSt) (w : Val) (tail : Bool)
    (fr : Frame) (s' : MSt H) : Prop :=
  CallRun3 D W' s stk0 σ σ' w s' ∨ (tail = true ∧ Ret3 D W' s σ σ' w fr s')

theorem disp3_ok (L : Laws3 D) {n : Nat} (ihc : CallOK3 D n) {tail : Bool} {em : List (Text × Source)} {W : World}
    {s : MSt H} {fr : Frame} {stk0 : Stack} {σ σ' : SSt} {fv w : Val} {vs : List VCell} {ws : List Val}
    (hc : CodeAt2 D em s.heap σ.store s.ipL s.ipO [BC.op (if tail = true then .tcallAcc else .callAcc)])
    (hacc : VR3 D W s.heap σ.store s.acc fv) (hi : Inv3 D W s.heap σ)
    (hvals : All2 (VR3 D W s.heap σ.store) vs ws)
    (hst : LiveEq ((pushAll stk0 vs).push (.argc vs.length)) s.stack) (hw0 : SWF stk0) (hw : SWF s.stack)
    (hfrm : tail = true → FrameAt stk0 s.bp fr)
    (hap : (evalN n).apply fv ws σ = .ok w σ') :
    ∃ W' s', W.le W' ∧ DispOut D W' s stk0 σ σ' w tail fr s' := by
  cases n with
  | zero => cases hap
  | succ m =>
    cases fv with
    | closure ps rest body ρc =>
      obtain ⟨lam, cenv, hcal, hok⟩ := VR3.closure_inv L hacc
      cases tail with
      | false =>
        have hcall := step_call_closure hc.1 (hc.op 0 rfl) hcal
        have hst4 : LiveEq (callFrame stk0 vs s.ep s.ipL (s.ipO + 1))
            ((s.stack.push (.envPtr s.ep)).push (.instrPtr s.ipL (s.ipO + 1))) := by
          unfold callFrame
          exact ((hst.push (push_swf _ _) hw _).push (push_swf _ _) (push_swf _ _) _)
        obtain ⟨W5, s5, hw5, st5, i1, i2, i3, i4, i5, i6, i7, i8, i9⟩ :=
          ihc ps rest body ρc ws σ w σ' hap W
            { s with stack := (s.stack.push (.envPtr s.ep)).push (.instrPtr s.ipL (s.ipO + 1)),
                     ipL := lam, ipO := 0 }
            lam cenv vs stk0 s.ep s.ipL (s.ipO + 1) hcal hok hi hvals rfl rfl hst4 hw0 (push_swf _ _)
        exact ⟨W5, s5, hw5, .inl ⟨.cons hcall st5, i1, i2, i4, i3, i5, i6, i7, i8, i9⟩⟩
      | true =>
        have hfr0 := hfrm rfl
        obtain ⟨st4, htc, hst4, hw4⟩ := step_tcall_closure (fr := fr) hc.1 (hc.op 0 rfl) hcal hfr0 hw0 hst hw
        obtain ⟨W5, s5, hw5, st5, i1, i2, i3, i4, i5, i6, i7, i8, i9⟩ :=
          ihc ps rest body ρc ws σ w σ' hap W { s with stack := st4, bp := fr.bpc, ipL := lam, ipO := 0 }
            lam cenv vs fr.st0 fr.epc fr.lc fr.oc hcal hok hi hvals rfl rfl hst4 hfr0.swf0 hw4
        exact ⟨W5, s5, hw5, .inr ⟨rfl, ⟨.cons htc st5, i1, i2, i3, i4, i5, i6, i7, i8, i9⟩⟩⟩
    | prim p =>
      have hvf : D.VR s.heap σ.store s.acc (.prim p) := (VR3.prim_inv L hacc).1
      obtain ⟨id, h', r, hcal, hkind, hres, hvr, hinv, hext⟩ :=
        L.call (m + 1) W s.heap σ s.acc p vs ws w σ' hi hvf hvals hap
      cases tail with
      | false =>
        obtain ⟨st', hstep, hl', hw'⟩ := step_call_builtin hc.1 (hc.op 0 rfl) hcal hkind hst hw0 hw hres
        exact ⟨W, _, World.le_refl _, .inl ⟨Steps.one hstep, rfl, rfl, rfl, rfl, hl', hw', hvr, hinv, hext⟩⟩
      | true =>
        obtain ⟨st', hstep, hl', hw'⟩ := step_tcall_builtin hc.1 (hc.op 0 rfl) hcal hkind hst hw0 hw hres
        exact ⟨W, _, World.le_refl _, .inl ⟨Steps.one hstep, rfl, rfl, rfl, rfl, hl', hw', hvr, hinv, hext⟩⟩
    | bool b => cases hap
    | char ch => cases hap
    | nil => cases hap
    | int i => cases hap
    | str t => cases hap
    | sym t => cases hap
    | void => cases hap
    | pair a => cases hap
    | vec a => cases hap
    | promise a => cases hap
    | undef => cases hap

end Marwood.Lemmas.CompileCorrect3
