import Marwood.Lemmas.ContResumeCap
/-!
# How the heap of a successor state arises from the heap of a state (generic in the heap)

`HPath ops n h h'`: `h'` arises from `h` by a sequence of heap operations of `run_one` — the `HeapStep`s of
`Lemmas/StackWFLaws.lean` (put, maybe_put, global / environment slot writes, CLOSURE's and ENTER's environment
construction, vector push, a generic builtin, `eval`'s compiler), a `setAt` (MOV to a `Ptr` destination: not
emitted by the compiler, but part of the model) and the creation of a continuation object **whose stack copy has
at most `n` cells**. `step_hpath`: one successful instruction from `s` is such a path with
`n = s.stack.cells.length` — the only continuation `run_one` creates is `call/cc`'s `to_continuation` of the
current stack (`stack[0..=sp]`, never longer than the current capacity).

Used by `Lemmas/NoPanicDefs.lean`: a predicate on heaps that every heap operation preserves is preserved by
`step` (`HPath.closed`), in particular "every continuation cell fits a stack of `n` cells".
-/
namespace Marwood.Vm
open Verify Stack

variable {H : Type} {ops : HeapOps H}

inductive HPath (ops : HeapOps H) (n : Nat) : H → H → Prop
  | refl (h : H) : HPath ops n h h
  | step {h h1 h2 : H} : HPath ops n h h1 → HeapStep ops h1 h2 → HPath ops n h h2
  | setAt {h h1 : H} (p : Nat) (v : VCell) : HPath ops n h h1 → HPath ops n h (ops.setAt h1 p v)
  | newCont {h h1 : H} (c : Cont) : HPath ops n h h1 → c.stack.cells.length ≤ n →
      HPath ops n h (ops.newCont h1 c).1

theorem HPath.one {n : Nat} {h h' : H} (hs : HeapStep ops h h') : HPath ops n h h' := .step (.refl h) hs

theorem HPath.trans {n : Nat} {a b c : H} (x : HPath ops n a b) (y : HPath ops n b c) : HPath ops n a c := by
  induction y with
  | refl => exact x
  | step _ hs ih => exact .step ih hs
  | setAt p v _ ih => exact .setAt p v ih
  | newCont k _ hl ih => exact .newCont k ih hl

/-- a predicate every heap operation preserves is preserved along a path -/
theorem HPath.closed {n : Nat} {P : H → Prop}
    (hstep : ∀ h h', P h → HeapStep ops h h' → P h')
    (hset : ∀ h p v, P h → P (ops.setAt h p v))
    (hcont : ∀ h c, P h → c.stack.cells.length ≤ n → P (ops.newCont h c).1)
    {h h' : H} (hp : HPath ops n h h') (h0 : P h) : P h' := by
  induction hp with
  | refl => exact h0
  | step _ hs ih => exact hstep _ _ ih hs
  | setAt p v _ ih => exact hset _ p v ih
  | newCont k _ hl ih => exact hcont _ k ih hl

theorem storeOperand_hpath {n : Nat} {s s1 : St H} {v : VCell} (h : storeOperand ops s v = .ok s1) :
    HPath ops n s.heap s1.heap := by
  unfold storeOperand at h
  obtain ⟨⟨opnd, s2⟩, hro, h⟩ := bind_inv h
  have e2 := (readOperand_ok hro).2
  subst e2
  dsimp only at h
  cases opnd with
  | acc => cases h; exact .refl _
  | ptr p => cases h; exact .setAt p v (.refl _)
  | bpOffset off =>
    obtain ⟨st, _, h⟩ := bind_inv h
    cases h; exact .refl _
  | globSlot k => cases h; exact .one (.globPut _ k v)
  | lexEnvSlot k =>
    dsimp only at h
    cases he : ops.envGet s.heap s.ep k with
    | none => simp only [he] at h; cases h
    | some w =>
      simp only [he] at h
      cases w with
      | lexEnvPtr e k' =>
        dsimp only at h
        cases he2 : ops.envPut s.heap e k' v with
        | none => simp only [he2] at h; cases h
        | some h' => simp only [he2] at h; cases h; exact .one (.envPut he2)
      | _ =>
        dsimp only at h
        cases he2 : ops.envPut s.heap s.ep k v with
        | none => simp only [he2] at h; cases h
        | some h' => simp only [he2] at h; cases h; exact .one (.envPut he2)
  | _ => cases h

theorem accTail_hpath {n : Nat} {s s' : St H} {v : VCell} (h : accTail ops s v = .ok s') :
    HPath ops n s.heap s'.heap := by
  rcases (accTail_ok h).2.2.2.2.2 with e | e
  · rw [e]; exact .refl _
  · rw [e]; exact .one (.maybePut _ v)

theorem runBuiltin_hpath {s s' : St H} {id : Nat} (h : runBuiltin ops id s = .ok s') :
    HPath ops s.stack.cells.length s.heap s'.heap := by
  rw [runBuiltin_eq] at h
  obtain ⟨⟨s2, v⟩, hb, ht⟩ := bind_inv h
  dsimp only at ht hb
  refine HPath.trans ?_ (accTail_hpath ht)
  cases hk : ops.builtinKind s.heap id <;> rw [hk] at hb <;> dsimp only at hb
  · -- apply
    unfold builtinApply at hb
    obtain ⟨⟨a, st1⟩, hp1, hb⟩ := bind_inv hb
    dsimp only at hb
    obtain ⟨argc, _, hb⟩ := bind_inv hb
    split at hb
    · cases hb
    · obtain ⟨⟨top, st2⟩, hp2, hb⟩ := bind_inv hb
      dsimp only at hb
      replace hb := ite_err_inv hb
      obtain ⟨proc, _, hb⟩ := bind_inv hb
      obtain ⟨st3, hsh, hb⟩ := bind_inv hb
      obtain ⟨⟨x, st4⟩, hp4, hb⟩ := bind_inv hb
      dsimp only at hb
      obtain ⟨⟨k, st5⟩, hpl, hb⟩ := bind_inv hb
      dsimp only at hb
      obtain ⟨ipO, _, hb⟩ := bind_inv hb
      cases hb
      exact .refl _
  · -- eval
    unfold builtinEvalProc at hb
    obtain ⟨⟨a, st1⟩, hp1, hb⟩ := bind_inv hb
    dsimp only at hb
    obtain ⟨argc, _, hb⟩ := bind_inv hb
    split at hb
    · cases hb
    · obtain ⟨⟨e, st2⟩, hp2, hb⟩ := bind_inv hb
      dsimp only at hb
      obtain ⟨⟨h', lam⟩, hce, hb⟩ := bind_inv hb
      dsimp only at hb
      obtain ⟨ipO, _, hb⟩ := bind_inv hb
      cases hb
      exact .one (.compileEval hce)
  · -- call/cc
    unfold builtinCallcc at hb
    obtain ⟨⟨a, st1⟩, hp1, hb⟩ := bind_inv hb
    dsimp only at hb
    obtain ⟨argc, _, hb⟩ := bind_inv hb
    split at hb
    · cases hb
    · obtain ⟨⟨pr, st2⟩, hp2, hb⟩ := bind_inv hb
      dsimp only at hb
      split at hb
      · cases hb
      · obtain ⟨cst, hcap, hb⟩ := bind_inv hb
        obtain ⟨ipO, _, hb⟩ := bind_inv hb
        cases hb
        have l1 := (pop_ok hp1).2.1
        have l2 := (pop_ok hp2).2.1
        have hl : cst.cells.length ≤ s.stack.cells.length := by
          unfold Stack.capture at hcap
          split at hcap
          · cases hcap
            show (st2.cells.take (st2.sp + 1)).length ≤ _
            rw [List.length_take, l2, l1]
            exact Nat.min_le_right _ _
          · cases hcap
        exact .newCont { stack := cst, ep := s.ep, ipL := s.ipL, ipO := s.ipO, bp := s.bp } (.refl _) hl
  · -- generic
    unfold builtinGeneric at hb
    obtain ⟨⟨a, st1⟩, hp1, hb⟩ := bind_inv hb
    dsimp only at hb
    obtain ⟨argc, _, hb⟩ := bind_inv hb
    obtain ⟨⟨args, st2⟩, hpn, hb⟩ := bind_inv hb
    dsimp only at hb
    obtain ⟨⟨h', r⟩, hbe, hb⟩ := bind_inv hb
    cases hb
    exact .one (.builtinEval hbe)

theorem invokeCont_heap {s s' : St H} {c : Cont} (h : invokeCont s c = .ok s') : s'.heap = s.heap := by
  unfold invokeCont at h
  obtain ⟨⟨a, st1⟩, hp1, h⟩ := bind_inv h
  dsimp only at h
  obtain ⟨k, _, h⟩ := bind_inv h
  split at h
  · cases h
  · obtain ⟨⟨r, st2⟩, hp2, h⟩ := bind_inv h
    dsimp only at h
    obtain ⟨s3, hrc, h⟩ := bind_inv h
    cases h
    unfold restoreCont at hrc
    obtain ⟨st3, hre, hrc⟩ := bind_inv hrc
    cases hrc
    rfl

theorem tcallTail_heap {s s' : St H} {lam : Nat} (h : tcallTail s lam = .ok s') : s'.heap = s.heap := by
  unfold tcallTail at h
  obtain ⟨argc, _, h⟩ := bind_inv h
  obtain ⟨fargc, _, h⟩ := bind_inv h
  split at h
  · obtain ⟨sb, _, h⟩ := bind_inv h
    obtain ⟨st, hcp, h⟩ := bind_inv h
    obtain ⟨bp', _, h⟩ := bind_inv h
    cases h
    rfl
  · obtain ⟨se, _, h⟩ := bind_inv h
    obtain ⟨si, _, h⟩ := bind_inv h
    obtain ⟨sb, _, h⟩ := bind_inv h
    obtain ⟨sp0, _, h⟩ := bind_inv h
    obtain ⟨st, hcp, h⟩ := bind_inv h
    obtain ⟨bp', _, h⟩ := bind_inv h
    cases h
    rfl

theorem enterTail_hpath {n : Nat} {s s' : St H} {lam : Nat} {cenv : Option Nat}
    (h : enterTail ops s lam cenv = .ok s') : HPath ops n s.heap s'.heap := by
  unfold enterTail at h
  dsimp only at h
  split at h
  · cases h
  · obtain ⟨a, _, h⟩ := bind_inv h
    obtain ⟨k, _, h⟩ := bind_inv h
    split at h
    · cases h
    · obtain ⟨bp, _, h⟩ := bind_inv h
      cases cenv with
      | none => dsimp only at h; cases h; exact .refl _
      | some env =>
        dsimp only at h
        obtain ⟨⟨h', e⟩, hma, h⟩ := bind_inv h
        cases h
        exact .one (.makeActivation hma)

theorem varargCollect_hpath {n : Nat} : ∀ (k : Nat) (h : H) (acc : Nat) (a a' : Stack) (h' : H) (l : Nat),
    varargCollect ops k h acc a = .ok (h', l, a') → HPath ops n h h' := by
  intro k
  induction k with
  | zero => intro h acc a a' h' l hc; simp only [varargCollect] at hc; cases hc; exact .refl _
  | succ k ih =>
    intro h acc a a' h' l hc
    simp only [varargCollect] at hc
    obtain ⟨⟨v, a1⟩, hp, hc⟩ := bind_inv hc
    dsimp only at hc
    obtain ⟨pa, _, hc⟩ := bind_inv hc
    obtain ⟨pp, _, hc⟩ := bind_inv hc
    exact HPath.trans (.step (.one (.put h v)) (.put _ _)) (ih _ _ _ _ _ _ hc)

theorem stepVarArg_hpath {n : Nat} {s s' : St H} (h : stepVarArg ops s = .ok s') : HPath ops n s.heap s'.heap := by
  unfold stepVarArg at h
  dsimp only at h
  split at h
  · cases h
  · obtain ⟨req, _, h⟩ := bind_inv h
    obtain ⟨argc, _, h⟩ := bind_inv h
    split at h
    · cases h
    · split at h
      · obtain ⟨v3, _, h⟩ := bind_inv h
        obtain ⟨pa, _, h⟩ := bind_inv h
        obtain ⟨pn, _, h⟩ := bind_inv h
        obtain ⟨st1, hset, h⟩ := bind_inv h
        cases h
        exact .step (.step (.one (.put s.heap v3)) (.put _ _)) (.put _ _)
      · obtain ⟨⟨c1, st1⟩, hp1, h⟩ := bind_inv h
        dsimp only at h
        obtain ⟨⟨c2, st2⟩, hp2, h⟩ := bind_inv h
        dsimp only at h
        obtain ⟨⟨c3, st3⟩, hp3, h⟩ := bind_inv h
        dsimp only at h
        obtain ⟨pn, _, h⟩ := bind_inv h
        obtain ⟨⟨h2, lst, st4⟩, hcol, h⟩ := bind_inv h
        dsimp only at h
        cases h
        exact HPath.trans (.one (.put s.heap .nil)) (varargCollect_hpath _ _ _ _ _ _ _ hcol)

/-- **one successful instruction is a heap path**; the only continuation it can create copies at most the current
    capacity -/
theorem step_hpath {s r : St H} {bl : Bool} (hs : step ops s = .ok (r, bl)) :
    HPath ops s.stack.cells.length s.heap r.heap := by
  unfold step at hs
  obtain ⟨⟨op, s1⟩, hr, hs⟩ := bind_inv hs
  have e1 := (readOpcode_ok hr).2
  subst e1
  cases op <;> dsimp only at hs
  · -- cons
    obtain ⟨⟨d, st1⟩, hp1, hs⟩ := bind_inv hs
    dsimp only at hs
    obtain ⟨⟨a, st2⟩, hp2, hs⟩ := bind_inv hs
    dsimp only at hs
    obtain ⟨pa, _, hs⟩ := bind_inv hs
    obtain ⟨pd, _, hs⟩ := bind_inv hs
    cases hs
    exact .step (.step (.one (.put s.heap d)) (.put _ a)) (.put _ _)
  · -- jmp
    obtain ⟨⟨v, s2⟩, hro, hs⟩ := bind_inv hs
    obtain ⟨o, _, hs⟩ := bind_inv hs
    cases hs
    have e2 := (readOperand_ok hro).2
    subst e2
    exact .refl _
  · -- jnt
    obtain ⟨⟨v, s2⟩, hro, hs⟩ := bind_inv hs
    obtain ⟨o, _, hs⟩ := bind_inv hs
    have e2 := (readOperand_ok hro).2
    subst e2
    dsimp only at hs
    split at hs <;> (cases hs; exact .refl _)
  · -- mov
    obtain ⟨⟨v, s2⟩, hlo, hs⟩ := bind_inv hs
    obtain ⟨s3, hso, hs⟩ := bind_inv hs
    cases hs
    have e2 := loadOperand_ok hlo
    subst e2
    have l := storeOperand_hpath (n := s.stack.cells.length) hso
    exact l
  · -- movImm
    obtain ⟨⟨v, s2⟩, hro, hs⟩ := bind_inv hs
    obtain ⟨s3, hso, hs⟩ := bind_inv hs
    cases hs
    have e2 := (readOperand_ok hro).2
    subst e2
    have l := storeOperand_hpath (n := s.stack.cells.length) hso
    exact l
  · -- push
    obtain ⟨⟨v, s2⟩, hlo, hs⟩ := bind_inv hs
    cases hs
    have e2 := loadOperand_ok hlo
    subst e2
    exact .refl _
  · -- pushAcc
    cases hs
    exact .refl _
  · -- pushImm
    obtain ⟨⟨v, s2⟩, hro, hs⟩ := bind_inv hs
    cases hs
    have e2 := (readOperand_ok hro).2
    subst e2
    exact .refl _
  · -- halt
    cases hs
    exact .refl _
  · -- vpush
    obtain ⟨⟨d, st1⟩, hp1, hs⟩ := bind_inv hs
    dsimp only at hs
    obtain ⟨h', hvp, hs⟩ := bind_inv hs
    cases hs
    exact .one (.vectorPush hvp)
  · -- call
    obtain ⟨s2, he, hs⟩ := bind_inv hs
    cases hs
    unfold stepCall at he
    dsimp only at he
    cases hc : ops.callee s.heap s.acc <;> simp only [hc] at he
    · cases he
      exact .refl _
    · obtain ⟨lam, _, he⟩ := bind_inv he
      cases he
      exact .refl _
    · have l := runBuiltin_hpath he
      exact l
    · have l := invokeCont_heap he
      rw [l]; exact .refl _
    · cases he
  · -- closure
    obtain ⟨lam, _, hs⟩ := bind_inv hs
    obtain ⟨⟨h', c⟩, hmc, hs⟩ := bind_inv hs
    cases hs
    exact .one (.makeClosure hmc)
  · -- enter
    obtain ⟨s2, he, hs⟩ := bind_inv hs
    cases hs
    rw [stepEnter_eq] at he
    dsimp only at he
    cases hc : ops.callee s.heap s.acc <;> simp only [hc] at he <;> try (cases he; done)
    · have l := enterTail_hpath (n := s.stack.cells.length) he
      exact l
    · obtain ⟨p, _, he⟩ := bind_inv he
      have l := enterTail_hpath (n := s.stack.cells.length) he
      exact l
  · -- ret
    obtain ⟨s2, he, hs⟩ := bind_inv hs
    cases hs
    obtain ⟨_, _, _, _, _, _, _, _, _, _, r⟩ := stepRet_ok he
    subst r
    exact .refl _
  · -- tcall
    obtain ⟨s2, he, hs⟩ := bind_inv hs
    cases hs
    cases hc : ops.callee s.heap s.acc with
    | builtin id =>
      unfold stepTCall at he
      dsimp only at he
      simp only [hc] at he
      have l := runBuiltin_hpath he
      exact l
    | continuation c =>
      unfold stepTCall at he
      dsimp only at he
      simp only [hc] at he
      have l := invokeCont_heap he
      rw [l]; exact .refl _
    | other =>
      unfold stepTCall at he
      dsimp only at he
      simp only [hc] at he
      cases he
    | closure lam env =>
      rw [stepTCall_closure (s := { s with ipO := s.ipO + 1 }) hc] at he
      have l := tcallTail_heap he
      rw [l]; exact .refl _
    | lambda =>
      rw [stepTCall_lambda (s := { s with ipO := s.ipO + 1 }) hc] at he
      obtain ⟨lam, _, he⟩ := bind_inv he
      have l := tcallTail_heap he
      rw [l]; exact .refl _
  · -- vararg
    obtain ⟨s2, he, hs⟩ := bind_inv hs
    cases hs
    have l := stepVarArg_hpath (n := s.stack.cells.length) he
    exact l

end Marwood.Vm
