import Marwood.Heap.Invariant
import Marwood.Lemmas.GcSweep
/-!
# `grow`, `alloc`, `free`, `put`, `maybe_put` preserve heap well-formedness (T03.3 / T18.1, non-GC part)
-/
namespace Marwood.Lemmas.HeapOps
open Marwood Marwood.Heap Marwood.Lemmas.GcSweep

def Shape (h : Heap) : Prop := 0 < h.chunk ∧ h.chunk % 4 = 0 ∧ ∃ k, 0 < k ∧ h.cells.size = k * h.chunk

theorem grownSize_gt (chunk k : Nat) (hc : 0 < chunk) (hk : 0 < k) :
    k * chunk < Heap.grownSize chunk (k * chunk) := by
  unfold Heap.grownSize
  rw [Nat.mul_div_cancel _ hc]
  have : k + 1 ≤ (3 * k + 1) / 2 := by omega
  calc k * chunk < (k + 1) * chunk := by
        rw [Nat.add_mul]; omega
    _ ≤ (3 * k + 1) / 2 * chunk := Nat.mul_le_mul_right _ this

structure GrowSpec (h h' : Heap) : Prop where
  chunk : h'.chunk = h.chunk
  symtab : h'.symtab = h.symtab
  lt : h.cells.size < h'.cells.size
  csize : h'.cells.size = Heap.grownSize h.chunk h.cells.size
  cells : h'.cells = h.cells ++ Array.replicate (h'.cells.size - h.cells.size) VCell.undefined
  gc : h'.gc = h.gc ++ Array.replicate (h'.cells.size - h.cells.size) GcState.free
  free : h'.free = (List.range' h.cells.size (h'.cells.size - h.cells.size)).reverse ++ h.free

theorem grow_spec (h : Heap) (hsz : h.gc.size = h.cells.size) (hs : Shape h) :
    ∃ h', h.grow = .ok h' ∧ GrowSpec h h' ∧ Shape h' := by
  obtain ⟨hc, h4, k, hk, hsize⟩ := hs
  have hgt := grownSize_gt h.chunk k hc hk
  rw [← hsize] at hgt
  have hmod : Heap.grownSize h.chunk h.cells.size % 4 = 0 := by
    unfold Heap.grownSize
    rw [Nat.mul_mod, h4]; simp
  have hne : h.chunk ≠ 0 := by omega
  unfold Heap.grow
  simp only [hne, if_false, hmod, ne_eq, not_true_eq_false]
  have hle : h.cells.size ≤ Heap.grownSize h.chunk h.cells.size := by omega
  have hle' : h.gc.size ≤ Heap.grownSize h.chunk h.cells.size := by omega
  simp only [hle, hle', if_true]
  refine ⟨_, rfl, ⟨rfl, rfl, ?_, ?_, ?_, ?_, ?_⟩, ?_⟩
  · simp; omega
  · simp; omega
  · simp
  · simp [hsz]
  · simp
  · refine ⟨hc, h4, (3 * k + 1) / 2, by omega, ?_⟩
    simp
    have : h.cells.size + (Heap.grownSize h.chunk h.cells.size - h.cells.size) =
        Heap.grownSize h.chunk h.cells.size := by omega
    rw [this]
    unfold Heap.grownSize
    rw [hsize, Nat.mul_div_cancel _ hc]

end Marwood.Lemmas.HeapOps
