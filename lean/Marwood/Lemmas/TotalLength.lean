import Marwood.Lemmas.TotalListP
/-!
# T06.3 for the repaired `length`: the two-cursor walk terminates on every store (core Lean only)

`lengthCount` (Store/Prelude.lean) is the `letrec`-bound `count` of the prelude's `length` after the
repair. Along the cdr chain `C 0, C 1, …` of the (dereferenced) argument (`THL.cellAt`, shared with the
proof for `list?`) the state before iteration `m` is `fast = R (2m)`, `slow = R m`, `n = 2m`, where
`R 0` is the argument and `R (k+1)` the cdr reference of `C k`. Iteration `m` answers when `C (2m)` or
`C (2m+1)` is not a pair, or when `(eq? R(2m+2) R(m+1))` — the same address, or two pair cells with the
same contents (`compare.rs`) — holds (`MeetL`).

* cyclic chain: `THL.exists_meet` gives an odd `n = 2m+1 ≤ 2N+1` whose cell has the cdr reference of
  `C m`: iteration `m ≤ N` sees the same address at the latest — the answer is the error;
* acyclic chain: the first non-pair sits at `K ≤ N`; no earlier iteration can see `eq?` cursors (a hit
  makes the chain periodic, `THL.periodic_all_pairs`), iteration `K / 2` answers `K` or the error.
-/
namespace Marwood.Store
open Outcome

namespace LEN
open THL

variable {s : Store} {l c : VCell}

/-- `R k`: what a cursor holds after `k` steps: the argument itself, then cdr references -/
def refAt (s : Store) (l c : VCell) : Nat → VCell
  | 0 => l
  | k+1 => .ptr (cdrIx (cellAt s c k))

theorem get_refAt (hg : s.get l = .ok c) : ∀ k, (∀ j, j < k → (cellAt s c j).isPair = true ∧ InB s c j) →
    s.get (refAt s l c k) = .ok (cellAt s c k)
  | 0, _ => hg
  | k+1, h => get_next (h k (Nat.lt_succ_self k)).1 (h k (Nat.lt_succ_self k)).2

theorem isPair_inv {v : VCell} (h : v.isPair = true) : ∃ a d, v = .pair a d := by
  cases v <;> simp [VCell.isPair] at h
  exact ⟨_, _, rfl⟩

/-! ### one call of `count` -/

theorem cdrV_circular (s : Store) : cdrV s circularListSym = .err .pair := rfl

/-- `(eq? q p)` on two references, the second to a pair cell: the same address or the same contents -/
theorem eqv_ptrs {p q x y : Nat} {cq : VCell} (hp : s.get (.ptr p) = .ok (.pair x y)) (hq : s.get (.ptr q) = .ok cq) :
    ∃ b, eqv s (.ptr p) (.ptr q) = .ok b ∧ (b = true ↔ p = q ∨ cq = .pair x y) := by
  by_cases h : p = q
  · subst h
    exact ⟨true, by simp [eqv, VCell.isPtr], by simp⟩
  · have hb : (VCell.ptr p == VCell.ptr q) = false := by simp [h]
    simp only [eqv, VCell.isPtr, Bool.true_and, hb, Bool.false_eq_true, if_false, derefArg, hp, hq, bind_ok]
    cases cq with
    | pair x' y' =>
      refine ⟨x == x' && y == y', rfl, ?_⟩
      simp only [Bool.and_eq_true, beq_iff_eq, h, false_or, VCell.pair.injEq]
      constructor
      · rintro ⟨rfl, rfl⟩; exact ⟨rfl, rfl⟩
      · rintro ⟨rfl, rfl⟩; exact ⟨rfl, rfl⟩
    | _ => exact ⟨false, rfl, by simp [h]⟩

theorem count_stop1 {f : Nat} {fast slow n cf : VCell} (hg : s.get fast = .ok cf) (hp : cf.isPair = false) :
    lengthCount (f+1) s fast slow n = if cf.isNil then .ok n else .err .pair := by
  cases hc : cf.isNil with
  | true => simp [lengthCount, nullP, hg, hc]
  | false =>
    have hcd : cdrV s fast = .err .pair := by
      simp only [cdrV, cdr, hg, bind_ok]
      cases cf <;> first | rfl | simp [VCell.isPair] at hp
    simp [lengthCount, nullP, hg, hc, hcd]

theorem cdrV_pair {v : VCell} {a d : Nat} (hg : s.get v = .ok (.pair a d)) : cdrV s v = .ok (.ptr d) := by
  simp [cdrV, cdr, hg]

theorem count_stop2 {f : Nat} {fast slow n c1 : VCell} {a d : Nat} (hg : s.get fast = .ok (.pair a d))
    (hg1 : s.get (.ptr d) = .ok c1) (hp1 : c1.isPair = false) :
    lengthCount (f+1) s fast slow n = if c1.isNil then add1 s n else .err .pair := by
  have hpn : (VCell.pair a d).isNil = false := rfl
  cases hc : c1.isNil with
  | true => simp [lengthCount, nullP, hg, hpn, cdrV_pair hg, hg1, hc]
  | false =>
    have hcd : cdrV s (.ptr d) = .err .pair := by
      simp only [cdrV, cdr, hg1, bind_ok]
      cases c1 <;> first | rfl | simp [VCell.isPair] at hp1
    simp [lengthCount, nullP, hg, hpn, cdrV_pair hg, hg1, hc, hcd]

theorem count_step {f : Nat} {fast slow : VCell} {k : Int} {a d a1 d1 a0 d0 : Nat} {b : Bool}
    (hg : s.get fast = .ok (.pair a d)) (hg1 : s.get (.ptr d) = .ok (.pair a1 d1))
    (hg0 : s.get slow = .ok (.pair a0 d0)) (he : eqv s (.ptr d0) (.ptr d1) = .ok b) :
    lengthCount (f+1) s fast slow (.num k) =
      if b then .err .pair else lengthCount f s (.ptr d1) (.ptr d0) (.num (k + 2)) := by
  have hpn : (VCell.pair a d).isNil = false := rfl
  have hpn1 : (VCell.pair a1 d1).isNil = false := rfl
  have hadd : add2 s (.num k) = .ok (.num (k + 2)) := rfl
  cases b <;>
    simp [lengthCount, nullP, hg, hpn, hpn1, cdrV_pair hg, hg1, cdrV_pair hg1, cdrV_pair hg0, eqTest, he,
      cdrV_circular, hadd]

/-! ### the walk along the chain -/

/-- `count` in the state it has before iteration `m` -/
def runAt (f : Nat) (s : Store) (l c : VCell) (m : Nat) : Outcome VCell :=
  lengthCount f s (refAt s l c (2 * m)) (refAt s l c m) (.num ((2 * m : Nat) : Int))

/-- iteration `m` finds its advanced cursors `eq?`: the same address, or pair cells with the same contents -/
def MeetL (s : Store) (c : VCell) (m : Nat) : Prop :=
  cdrIx (cellAt s c m) = cdrIx (cellAt s c (2 * m + 1)) ∨ cellAt s c (2 * m + 2) = cellAt s c (m + 1)

/-- the facts about iteration `m` when the chain has pairs up to `C (2m+1)` -/
theorem iter_facts (hs : s.WF) (hcv : VCell.Valid s c) (hg : s.get l = .ok c) {m : Nat}
    (hpairs : ∀ j, j ≤ 2 * m + 1 → (cellAt s c j).isPair = true) :
    ∃ a d a1 d1 a0 d0 b, s.get (refAt s l c (2 * m)) = .ok (.pair a d) ∧ s.get (.ptr d) = .ok (.pair a1 d1) ∧
      s.get (refAt s l c m) = .ok (.pair a0 d0) ∧ eqv s (.ptr d0) (.ptr d1) = .ok b ∧
      (b = true ↔ MeetL s c m) ∧ refAt s l c (2 * (m + 1)) = .ptr d1 ∧ refAt s l c (m + 1) = .ptr d0 := by
  have hval := cellAt_valid hs hcv
  have hb : ∀ j, j ≤ 2 * m + 1 → InB s c j := fun j hj => inB_of_valid (hval j) (hpairs j hj)
  have hall : ∀ k, k ≤ 2 * m + 2 → ∀ j, j < k → (cellAt s c j).isPair = true ∧ InB s c j :=
    fun k hk j hj => ⟨hpairs j (by omega), hb j (by omega)⟩
  have g0 := get_refAt hg (2 * m) (hall _ (by omega))
  have g1 := get_refAt hg (2 * m + 1) (hall _ (by omega))
  have g2 := get_refAt hg (2 * m + 2) (hall _ (by omega))
  have gs0 := get_refAt hg m (hall _ (by omega))
  have gs1 := get_refAt hg (m + 1) (hall _ (by omega))
  obtain ⟨a, d, hC0⟩ := isPair_inv (hpairs (2 * m) (by omega))
  obtain ⟨a1, d1, hC1⟩ := isPair_inv (hpairs (2 * m + 1) (by omega))
  obtain ⟨a0, d0, hCs⟩ := isPair_inv (hpairs m (by omega))
  obtain ⟨x, y, hCs1⟩ := isPair_inv (hpairs (m + 1) (by omega))
  simp only [refAt, hC0, hC1, hCs, hCs1, cdrIx] at g1 g2 gs1
  obtain ⟨b, hb1, hb2⟩ := eqv_ptrs gs1 g2
  refine ⟨a, d, a1, d1, a0, d0, b, by rw [g0, hC0], g1, by rw [gs0, hCs], hb1, ?_, ?_, ?_⟩
  · rw [hb2]
    simp only [MeetL, hCs, hC1, hCs1, cdrIx]
  · rw [show 2 * (m + 1) = 2 * m + 1 + 1 from by omega]
    simp only [refAt, hC1, cdrIx]
  · simp only [refAt, hCs, cdrIx]

theorem runAt_adv (hs : s.WF) (hcv : VCell.Valid s c) (hg : s.get l = .ok c) {f m : Nat}
    (hpairs : ∀ j, j ≤ 2 * m + 1 → (cellAt s c j).isPair = true) (hnm : ¬ MeetL s c m) :
    runAt (f+1) s l c m = runAt f s l c (m+1) := by
  obtain ⟨a, d, a1, d1, a0, d0, b, h0, h1, hs0, he, hb, hr1, hr2⟩ := iter_facts hs hcv hg hpairs
  have hbf : b = false := by
    cases b with
    | false => rfl
    | true => exact absurd (hb.mp rfl) hnm
  subst hbf
  unfold runAt
  rw [count_step h0 h1 hs0 he, hr1, hr2]
  simp only [Bool.false_eq_true, if_false]
  congr 2 <;> (push_cast; omega)

theorem runAt_meet (hs : s.WF) (hcv : VCell.Valid s c) (hg : s.get l = .ok c) {f m : Nat}
    (hpairs : ∀ j, j ≤ 2 * m + 1 → (cellAt s c j).isPair = true) (hm : MeetL s c m) :
    runAt (f+1) s l c m = .err .pair := by
  obtain ⟨a, d, a1, d1, a0, d0, b, h0, h1, hs0, he, hb, _, _⟩ := iter_facts hs hcv hg hpairs
  have hbt : b = true := hb.mpr hm
  subst hbt
  unfold runAt
  rw [count_step h0 h1 hs0 he]
  simp

theorem runAt_stop1 (hs : s.WF) (hcv : VCell.Valid s c) (hg : s.get l = .ok c) {f m : Nat}
    (hpairs : ∀ j, j < 2 * m → (cellAt s c j).isPair = true) (hp : (cellAt s c (2 * m)).isPair = false) :
    runAt (f+1) s l c m =
      if (cellAt s c (2 * m)).isNil then .ok (.num ((2 * m : Nat) : Int)) else .err .pair := by
  have hval := cellAt_valid hs hcv
  have g0 := get_refAt hg (2 * m) (fun j hj => ⟨hpairs j hj, inB_of_valid (hval j) (hpairs j hj)⟩)
  unfold runAt
  rw [count_stop1 g0 hp]

theorem runAt_stop2 (hs : s.WF) (hcv : VCell.Valid s c) (hg : s.get l = .ok c) {f m : Nat}
    (hpairs : ∀ j, j ≤ 2 * m → (cellAt s c j).isPair = true) (hp : (cellAt s c (2 * m + 1)).isPair = false) :
    runAt (f+1) s l c m =
      if (cellAt s c (2 * m + 1)).isNil then .ok (.num ((2 * m + 1 : Nat) : Int)) else .err .pair := by
  have hval := cellAt_valid hs hcv
  have hall : ∀ k, k ≤ 2 * m + 1 → ∀ j, j < k → (cellAt s c j).isPair = true ∧ InB s c j :=
    fun k hk j hj => ⟨hpairs j (by omega), inB_of_valid (hval j) (hpairs j (by omega))⟩
  have g0 := get_refAt hg (2 * m) (hall _ (by omega))
  have g1 := get_refAt hg (2 * m + 1) (hall _ (by omega))
  obtain ⟨a, d, hC0⟩ := isPair_inv (hpairs (2 * m) (by omega))
  simp only [refAt, hC0, cdrIx] at g1
  rw [hC0] at g0
  unfold runAt
  rw [count_stop2 g0 g1 hp]
  split
  · simp [add1, Store.get]
  · rfl

/-- the walk runs undisturbed up to iteration `m0`, which answers `r` -/
theorem run_to {m0 : Nat} {r : Outcome VCell}
    (hadv : ∀ m, m < m0 → ∀ f, runAt (f+1) s l c m = runAt f s l c (m+1))
    (hend : ∀ f, runAt (f+1) s l c m0 = r) :
    ∀ j m, m + j = m0 → ∀ f, j < f → runAt f s l c m = r
  | 0, m, hm, f, hf => by
    obtain ⟨f', rfl⟩ : ∃ f', f = f' + 1 := ⟨f - 1, by omega⟩
    have : m = m0 := by omega
    subst this; exact hend f'
  | j+1, m, hm, f, hf => by
    obtain ⟨f', rfl⟩ : ∃ f', f = f' + 1 := ⟨f - 1, by omega⟩
    rw [hadv m (by omega)]
    exact run_to hadv hend j (m+1) (by omega) f' (by omega)

/-- a hit among pairs makes the chain periodic: pairs forever -/
theorem meet_all_pairs {m : Nat} (hpairs : ∀ j, j ≤ 2 * m + 1 → (cellAt s c j).isPair = true) (hm : MeetL s c m) :
    ∀ k, (cellAt s c k).isPair = true := by
  rcases hm with h | h
  · exact periodic_all_pairs (i := m) (j := 2 * m + 1) (by omega) hpairs h
  · refine periodic_all_pairs (i := m + 1) (j := 2 * m + 2) (by omega) ?_ (by rw [h])
    intro k hk
    by_cases hk' : k ≤ 2 * m + 1
    · exact hpairs k hk'
    · rw [show k = 2 * m + 2 from by omega, h]; exact hpairs (m + 1) (by omega)

/-- **cyclic chain**: the error, within `N + 1` calls of `count` -/
theorem count_cyclic (hs : s.WF) (hcv : VCell.Valid s c) (hg : s.get l = .ok c)
    (hcyc : ∀ k, (cellAt s c k).isPair = true) {f : Nat} (hf : s.cells.length + 1 ≤ f) :
    lengthCount f s l l (.num 0) = .err .pair := by
  have hval := cellAt_valid hs hcv
  have hb : ∀ k, InB s c k := fun k => inB_of_valid (hval k) (hcyc k)
  obtain ⟨n, hn, hodd, he⟩ := exists_meet hcyc hb
  have hex : ∃ m, MeetL s c m := ⟨n / 2, Or.inl (by rw [show 2 * (n / 2) + 1 = n from by omega]; exact he.symm)⟩
  obtain ⟨m0, hm0, hmin⟩ := exists_least hex
  have hle : m0 ≤ s.cells.length := by
    by_cases h : m0 ≤ n / 2
    · omega
    · exact absurd (Or.inl (by rw [show 2 * (n / 2) + 1 = n from by omega]; exact he.symm)) (hmin (n / 2) (by omega))
  have hstart : lengthCount f s l l (.num 0) = runAt f s l c 0 := rfl
  rw [hstart]
  exact run_to (m0 := m0) (fun m hm f => runAt_adv hs hcv hg (fun j _ => hcyc j) (hmin m hm))
    (fun f => runAt_meet hs hcv hg (fun j _ => hcyc j) hm0) m0 0 (by omega) f (by omega)

/-- **acyclic chain**: the first non-pair `C K` decides — `K` when it is `()`, the error otherwise —
    within `K / 2 + 1` calls of `count`, and `K ≤ N` -/
theorem count_acyclic (hs : s.WF) (hcv : VCell.Valid s c) (hg : s.get l = .ok c) {K : Nat}
    (hK : (cellAt s c K).isPair = false) (hmin : ∀ k, k < K → (cellAt s c k).isPair = true) :
    K ≤ s.cells.length ∧ ∀ f, K / 2 < f →
      lengthCount f s l l (.num 0) = if (cellAt s c K).isNil then .ok (.num (K : Int)) else .err .pair := by
  have hval := cellAt_valid hs hcv
  have hncyc : ¬ ∀ k, (cellAt s c k).isPair = true := fun h => by rw [h K] at hK; cases hK
  have hbK : ∀ k, k < K → InB s c k := fun k hk => inB_of_valid (hval k) (hmin k hk)
  constructor
  · by_cases hgt : K ≤ s.cells.length
    · exact hgt
    · obtain ⟨i, j, hij, hjN, he⟩ := pigeon s.cells.length (fun k => cdrIx (cellAt s c k))
        (fun k hk => hbK k (by omega))
      exact absurd (periodic_all_pairs hij (fun m hm' => hmin m (by omega)) he) hncyc
  · intro f hf
    have hstart : lengthCount f s l l (.num 0) = runAt f s l c 0 := rfl
    rw [hstart]
    have hadv : ∀ m, m < K / 2 → ∀ f, runAt (f+1) s l c m = runAt f s l c (m+1) := by
      intro m hm f
      have hp : ∀ j, j ≤ 2 * m + 1 → (cellAt s c j).isPair = true := fun j hj => hmin j (by omega)
      exact runAt_adv hs hcv hg hp (fun hmeet => hncyc (meet_all_pairs hp hmeet))
    refine run_to (m0 := K / 2) hadv ?_ (K / 2) 0 (by omega) f hf
    intro f
    rcases Nat.mod_two_eq_zero_or_one K with h0 | h1
    · have e : 2 * (K / 2) = K := by omega
      rw [runAt_stop1 hs hcv hg (fun j hj => hmin j (by omega)) (by rw [e]; exact hK), e]
    · have e : 2 * (K / 2) + 1 = K := by omega
      rw [runAt_stop2 hs hcv hg (fun j hj => hmin j (by omega)) (by rw [e]; exact hK), e]

end LEN

open THL in
/-- **T06.3 for `length` after the repair.** On every well-formed store — of any size, circular or not —
    and for every valid argument, `fuel ≥ |cells| + 2` suffices: the answer is the number of pairs when
    the cdr chain of the argument reaches `()` (`ProperList`), and the `expected pair` error when it
    does not (an improper list, a non-list, or a circular list); never `diverge`, never `panic`. -/
theorem length_total {s : Store} (hs : s.WF) {x : VCell} (hx : VCell.Valid s x) {fuel : Nat}
    (hf : s.cells.length + 2 ≤ fuel) :
    (ProperList s x ∧ ∃ n : Nat, length fuel s x = .ok (.num n)) ∨
    (¬ ProperList s x ∧ length fuel s x = .err .pair) := by
  obtain ⟨c, hc, hcv⟩ := get_valid hs hx
  obtain ⟨f, rfl⟩ : ∃ f, fuel = f + 1 := ⟨fuel - 1, by omega⟩
  have hprop : ProperList s x ↔ ∃ K, cellAt s c K = .nil :=
    ⟨fun h => properList_reaches h c hc, fun ⟨K, hK⟩ => reaches_properList hs K x c hc hcv hK⟩
  rw [length]
  by_cases hcyc : ∀ k, (cellAt s c k).isPair = true
  · refine .inr ⟨?_, LEN.count_cyclic hs hcv hc hcyc (by omega)⟩
    rw [hprop]
    rintro ⟨K, hK⟩
    have := hcyc K
    rw [hK] at this; cases this
  · have hex : ∃ k, (cellAt s c k).isPair = false := by
      apply Classical.byContradiction
      intro hne
      exact hcyc fun k => by
        cases h : (cellAt s c k).isPair with
        | true => rfl
        | false => exact absurd ⟨k, h⟩ hne
    obtain ⟨K0, hK0, hmin⟩ := exists_least hex
    have hpairs : ∀ k, k < K0 → (cellAt s c k).isPair = true := by
      intro k hk
      have := hmin k hk
      simpa using this
    obtain ⟨hle, hrun⟩ := LEN.count_acyclic hs hcv hc hK0 hpairs
    rw [hrun f (by omega)]
    cases hnil : (cellAt s c K0).isNil with
    | true =>
      refine .inl ⟨hprop.mpr ⟨K0, ?_⟩, K0, by simp⟩
      cases h' : cellAt s c K0 <;> rw [h'] at hnil <;> simp [VCell.isNil] at hnil
    | false =>
      refine .inr ⟨?_, by simp⟩
      rw [hprop]
      rintro ⟨K, hK⟩
      have hKn : (cellAt s c K).isPair = false := by rw [hK]; rfl
      have hle' : K0 ≤ K := by
        by_cases h : K0 ≤ K
        · exact h
        · exact absurd hKn (hmin K (by omega))
      have := cellAt_stable hK0 (K - K0)
      rw [Nat.add_sub_cancel' hle', hK] at this
      rw [← this] at hnil
      cases hnil

open THL in
/-- the cyclic case on its own (the new clause of C14): a chain of pairs for ever is answered by the
    error within `|cells| + 2` units of fuel -/
theorem length_cyclic_err {s : Store} (hs : s.WF) {x c : VCell} (hx : VCell.Valid s x) (hc : s.get x = .ok c)
    (hcyc : ∀ k, (cellAt s c k).isPair = true) {fuel : Nat} (hf : s.cells.length + 2 ≤ fuel) :
    length fuel s x = .err .pair := by
  obtain ⟨c', hc', hcv⟩ := get_valid hs hx
  rw [hc] at hc'; cases hc'
  obtain ⟨f, rfl⟩ : ∃ f, fuel = f + 1 := ⟨fuel - 1, by omega⟩
  rw [length]
  exact LEN.count_cyclic hs hcv hc hcyc (by omega)

end Marwood.Store
