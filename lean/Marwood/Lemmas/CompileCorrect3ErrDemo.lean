import Marwood.Lemmas.CompileCorrect3ErrTop
import Marwood.Lemmas.CompileCorrect3Demo
/-!
# T01.3 stage 3, ERROR case — the laws are satisfiable, and a worked failure inside an initialiser

`ErrLaws3` holds on the heap of `CompileCorrect3Toy.lean` (`errLaws3_toy`: no first-order primitive is a represented
value; immediates, and heap pairs, are no procedures for the dispatch). Every hypothesis of
`compileExpr_correct3_err` is discharged for `((lambda (x) (define y (x)) y) #t)`: CLOSURE, CALL, ENTER (the slot of
`y` `Undefined`), the lexical load of `x`, then `CALL` on `#t` fails with `InvalidProcedure` inside the initialiser of
the internal definition of `y`; nothing is stored; the heap at the failure represents the specification's failure
state (the variable cells of `x` — `#t` — and of `y` — still `#<undefined>`), the top-level stack is intact below
the frame.
-/
namespace Marwood.Lemmas.CompileCorrect3.Toy
open Marwood Marwood.Vm Marwood.Lemmas.CompileCorrect Marwood.Lemmas.CompileCorrect2
  Marwood.Lemmas.CompileCorrect3
open Marwood.Spec.Eval (Val Cell evalN k_lambda k_if_)

/-- a value that is seen (through one level of pointer) as neither a closure nor a builtin is no procedure -/
theorem tCallee_other_of_deref {h : THeap} {v c : VCell} (hd : tDeref h v = c) (hc : tCalleeCell c = .other)
    (hb : ∀ id, c ≠ .builtin id) : tCallee h v = .other := by
  cases v with
  | ptr p =>
    show tCalleeCell (tDeref h (.ptr p)) = .other
    rw [hd]; exact hc
  | builtin id => exact absurd hd.symm (hb id)
  | _ => rfl

/-- `ErrLaws3` on the toy heap -/
theorem errLaws3_toyg (g : Array VCell) (final : List LambdaM) : ErrLaws3 (tD3g g final) where
  call_err := by
    intro n W h σ vf p vs ws c σ' _ hvf
    cases hvf with
    | base hb => cases hb
  callee_other := by
    intro h S v w hv _
    show tCallee h v = .other
    cases hv with
    | base hb =>
      have hb' : tVR (tDeref h v) w := hb
      cases w <;> simp only [tVR] at hb' <;> first
        | exact tCallee_other_of_deref hb' rfl (by intro id e; cases e)
        | cases hb'
    | pair hs hd _ _ => exact tCallee_other_of_deref hd rfl (by intro id e; cases e)
    | vec hs hv' _ => cases hv'
  pair_other := by
    intro h v a d hd
    exact tCallee_other_of_deref hd rfl (by intro id e; cases e)

theorem errLaws3_toy (final : List LambdaM) : ErrLaws3 (tD3 final) := errLaws3_toyg #[] final

/-! ## a failure inside the initialiser of an internal definition: `((lambda (x) (define y (x)) y) #t)` -/

def callX : Datum := Datum.ofList [.sym kx]

def bodyE : Datum := .pair (defForm ky callX) (.pair (.sym ky) .nil)

def lamE : Datum := .pair (.sym k_lambda) (.pair (Datum.ofList [.sym kx]) bodyE)

def progE : Datum := Datum.ofList [lamE, .bool true]

def bodyCodeE : List BC :=
  [.op .pushImm, .argc 0, .op .mov, .envSlot kx, .acc, .op .callAcc,
   .op .mov, .acc, .envSlot ky, .op .movImm, .void, .acc,
   .op .mov, .envSlot ky, .acc]

def partsE : LambdaParts :=
  { formals := [kx], isVararg := false, ctx := lamCtxD, prologue := [.op .enter], body := bodyE }

def demoLamE : LambdaM := lamOf partsE bodyCodeE

theorem demoE_parts : lambdaParts 18 c0 lamE false = .ok partsE := by rfl

theorem demoE_compile : compileExpr 20 {} c0 0 false progE = .ok ({ lambdas := [demoLamE] }, progCodeD) :=
  CompileCorrect2.Toy.okIs_eq (by decide +kernel)

def cellsE0 : List VCell :=
  [.opcode .enter, .opcode .pushImm, .argc 0, .opcode .mov, .lexEnvSlot 0, .acc, .opcode .callAcc,
   .opcode .mov, .acc, .lexEnvSlot 1, .opcode .movImm, .void, .acc,
   .opcode .mov, .lexEnvSlot 1, .acc, .opcode .ret]

def demoHeapE : THeap :=
  { lams := [⟨cellsE0, 1, [.arg 0, .internal]⟩, ⟨cellsD1, 0, []⟩], envs := #[], cells := #[], globals := #[] }

def demoStateE : MSt THeap :=
  { heap := demoHeapE, stack := ⟨List.replicate 8 .undefined, 0⟩, acc := .undefined, ep := 0, ipL := 1, ipO := 0,
    bp := 0 }

/-- the specification's state at the failure: the cell of `x`, the cell of `y` (not yet defined) -/
def demoStE' : SSt := { globals := [], store := #[.var (.bool true), .var .undef], out := [] }

theorem demoE_eval : (evalN 8).eval progE [] demoSt = .err .notProcedure demoStE' := by rfl

abbrev demoDE : RepData2 tops := tD3 [demoLamE]

theorem demoE_frag : F3 (fun _ => False) 20 c0 (bound []) (fun _ => False) false progE := by
  have hx : inEnv lamCtxD kx = true := by decide
  have hy : inEnv lamCtxD ky = true := by decide
  refine F3.app lamE _ ⟨by decide, by intro x h; cases h⟩ ?_ (F3L.cons _ _ (F3.bool true) F3L.nil)
  refine F3.lambda (Datum.ofList [.sym kx]) _ partsE [kx] none [ky] [] demoE_parts (by rfl) rfl rfl (by decide) rfl
    (by intro q hq; cases hq) ?_
  refine F3B.defv ky callX _ _ [] hy (.inl (by decide)) (by rfl) ?_ ?_
  · exact F3.app _ _ ⟨by decide, by intro x h; cases h; decide⟩
      (F3.sym kx ⟨fun _ => .inl (by decide), fun _ => hx⟩ (by decide)) F3L.nil
  · exact F3B.last _ rfl (F3.sym ky ⟨fun _ => .inl (by decide), fun _ => hy⟩ (fun h => h.2 rfl))

theorem demoE_final_get {id : Nat} {lamM : LambdaM} (h : ([demoLamE] : List LambdaM)[id]? = some lamM) :
    id = 0 ∧ lamM = demoLamE := by
  match id, h with
  | 0, h => exact ⟨rfl, by injection h with e; exact e.symm⟩
  | n + 1, h => simp at h

theorem demoE_code0 (S : Array Cell) : CodeAt2 demoDE lamCtxD.envmap demoHeapE S 0 0 demoLamE.bc := by
  refine CompileCorrect2.Toy.CodeAt2.ofAll2 cellsE0 rfl (fun i _ => by rw [Nat.zero_add]; rfl) ?_
  have sx : Loads2 demoDE lamCtxD.envmap demoHeapE S (.envSlot kx) (.lexEnvSlot 0) := ⟨0, by decide, rfl⟩
  have sy : Loads2 demoDE lamCtxD.envmap demoHeapE S (.envSlot ky) (.lexEnvSlot 1) := ⟨1, by decide, rfl⟩
  exact .cons rfl (.cons rfl (.cons rfl (.cons rfl (.cons sx (.cons rfl (.cons rfl
    (.cons rfl (.cons rfl (.cons sy (.cons rfl (.cons rfl (.cons rfl
    (.cons rfl (.cons sy (.cons rfl (.cons rfl .nil))))))))))))))))

theorem demoE_code1 (S : Array Cell) : CodeAt2 demoDE c0.envmap demoHeapE S 1 0 progCodeD := by
  refine CompileCorrect2.Toy.CodeAt2.ofAll2 cellsD1 rfl (fun i _ => by rw [Nat.zero_add]; rfl) ?_
  have hb : Loads2 demoDE c0.envmap demoHeapE S (.datum (.bool true)) (.bool true) :=
    ⟨(by intro o e; cases e), .atom rfl (.base rfl)⟩
  have hlam : Loads2 demoDE c0.envmap demoHeapE S (.lambda 0) (.ptr 0) := by
    refine ⟨rfl, fun lamM hl => ?_⟩
    obtain ⟨_, rfl⟩ := demoE_final_get hl
    exact ⟨rfl, rfl⟩
  exact .cons rfl (.cons hb (.cons rfl (.cons rfl (.cons rfl (.cons rfl (.cons rfl (.cons hlam (.cons rfl
    (.cons rfl (.cons rfl .nil))))))))))

theorem demoE_inv : Inv3 demoDE W0 demoHeapE demoSt := by
  refine ⟨(by intro x w h; cases h), (by intro x h; cases h), ⟨keepB_nil _, fun _ h => absurd h List.not_mem_nil⟩,
    (by intro x h; cases h), ?_,
    (by intro e n l l' h; cases h),
    (by intro e n e' n' l h; cases h), (by intro e n l h; cases h), (by intro e n l h; cases h)⟩
  intro id lamM hid
  obtain ⟨rfl, rfl⟩ := demoE_final_get hid
  exact ⟨demoE_code0 _, rfl⟩

/-- **Non-vacuity of the error case of stage 3**: `((lambda (x) (define y (x)) y) #t)` fails with
    `InvalidProcedure` inside the initialiser of the internal definition of `y`, in the activation of the closure;
    the heap at the failure represents the specification's failure state, the start's stack is intact below. -/
theorem demo_define_init_fails :
    ∃ W' sf e', ErrRun3 demoDE W' demoStateE demoStateE.stack demoSt demoStE' .notProcedure sf e' ∧
      e' = .invalidProcedure := by
  obtain ⟨W', sf, e', _, r⟩ := compileExpr_correct3_err (laws3 [demoLamE]) (errLaws3_toy [demoLamE]) 20 {} c0 0 false
    progE _ progCodeD [] (fun _ => False) demoE_frag ctxOK_top demoE_compile (List.prefix_refl _) 8 demoSt
    .notProcedure demoStE' demoE_eval (by decide) W0 demoStateE ⟨0, 0, 0, 0, 0, demoStateE.stack⟩ (demoE_code1 _) rfl
    demoE_inv (envRep3_top _ _ _ _) (by show 0 < 8; omega) (by intro h; cases h)
  refine ⟨W', sf, e', r, ?_⟩
  have hc := r.cls
  cases e' <;> simp [machClass, specClass] at hc ⊢
  split at hc <;> cases hc

end Marwood.Lemmas.CompileCorrect3.Toy
