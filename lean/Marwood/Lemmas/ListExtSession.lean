import Marwood.Lemmas.PrepareHistory
import Marwood.Lemmas.ListExtC03
import Marwood.Lemmas.ListExtC13
import Marwood.Lemmas.ListExtC07
import Marwood.Lemmas.PrepareDemo

/-! Session forms of C03 (T03.5) and C13 (T13.3) at the real builtins `listExtWith` (see Lemmas/ListExtProps.lean for
the overview): for a WHOLE history of `eval` calls with `prepare_eval` as a step of its own (`HistInstalls`,
Lemmas/PrepareHistory.lean: accepted forms described by the loader relation `Installs`, rejected forms by
`InstallsGarbage`), the per-evaluation theorems `gc_unobservable_value_listExt` / `sliced_value_eq_uninterrupted_listExt`
/ `sliced_error_eq_uninterrupted_listExt` hold of EVERY accepted job — from the idle invariant `IdleOk` of the INITIAL
state and the physical size bounds `RecSized` only. `histInstalls_ok` supplies `VmOkP` (= `VmOk ∧ PInv`) of every state in
which a job starts; `RecSized (.ran p _)` is `EvalSizeBounded … p`, whose first field is the `SizeBounded` the
per-evaluation theorems ask. No hypothesis about builtins, none about any later state.

Non-vacuity (second half of the file): the one-job session of `Demo.demo_installs` (the form `#t` on the idle demo
machine) through both session theorems — `RecSized` of the job is proved by enumerating the 16 states the evaluation
can be in under any interleaving of collections, which here really collect —, and a form whose evaluation FAILS, `(#t)`,
through `failed_eval_equivalent_later_installs_listExt` (Lemmas/ListExtC07.lean). -/

namespace Marwood.Proofs.C03
open Marwood Marwood.Vm Marwood.Vm.Concrete Marwood.Lemmas.Sim Marwood.Lemmas.Good Marwood.Proofs.C13
  Marwood.Lemmas.PolicySessionOk

/-- every accepted job of a history starts in a state satisfying the hypotheses of the per-evaluation `_listExt`
    theorems: `VmOk`, `PInv`, `SizeBounded` -/
theorem session_jobs_hyps_listExt (eqTag : String → String → Bool) (force : Bool) {s0 sf : St CHeap}
    {recs : List EvRec} (hist : HistInstalls (listExtWith eqTag) force s0 recs sf) (i0 : IdleOk s0)
    (sz : ∀ rc ∈ recs, RecSized (listExtWith eqTag) force rc) :
    ∀ p r, EvRec.ran p r ∈ recs →
      VmOk (listExtWith eqTag) (listExtWith_codeLawsV eqTag) p ∧ PInv p ∧
        SizeBounded (machine (listExtWith eqTag) force) p := by
  intro p r hm
  obtain ⟨a, _, _⟩ := histInstalls_ok (ecl := listExtWith_codeLawsV eqTag) force (listExtWith_laws eqTag)
    (listExtWith_good eqTag) (listExtWith_proc eqTag) hist i0 sz
  have hv := (a p r hm).1
  have sb : EvalSizeBounded (listExtWith eqTag) force p := sz _ hm
  exact ⟨hv.1, hv.2, sb.run⟩

/-- **T03.5 for whole sessions at the real builtins, from the invariant of the INITIAL state only**: in every history
    of `eval` calls — each with its `prepare_eval` (`HistInstalls`) — started on an idle machine (`IdleOk`), the
    evaluation of EVERY accepted form returns the same value under every schedule of collections at instruction
    boundaries as the collection-free run. -/
theorem session_gc_unobservable_listExt (eqTag : String → String → Bool) (force : Bool) {s0 sf : St CHeap}
    {recs : List EvRec} (hist : HistInstalls (listExtWith eqTag) force s0 recs sf) (i0 : IdleOk s0)
    (sz : ∀ rc ∈ recs, RecSized (listExtWith eqTag) force rc) :
    ∀ p r, EvRec.ran p r ∈ recs → ∀ (sched : Nat → Bool) (n : Nat) (t' : St CHeap),
      pureN (machine (listExtWith eqTag) force) n p = .done t' →
      ∃ s', runSched (machine (listExtWith eqTag) force) sched n 0 p = .done s' ∧
        ∀ fuel, resultObs fuel s' = resultObs fuel t' := by
  intro p r hm sched n t' hk
  obtain ⟨h0, p0, sb⟩ := session_jobs_hyps_listExt eqTag force hist i0 sz p r hm
  exact gc_unobservable_value_listExt eqTag force sched n p t' h0 p0 sb hk

/-- … and every schedule ends with the same status in `Sim`-related states (failures included) -/
theorem session_gc_unobservable_rel_listExt (eqTag : String → String → Bool) (force : Bool) {s0 sf : St CHeap}
    {recs : List EvRec} (hist : HistInstalls (listExtWith eqTag) force s0 recs sf) (i0 : IdleOk s0)
    (sz : ∀ rc ∈ recs, RecSized (listExtWith eqTag) force rc) :
    ∀ p r, EvRec.ran p r ∈ recs → ∀ (sched : Nat → Bool) (n : Nat),
      ResRel (Lemmas.Sim.R (machine (listExtWith eqTag) force))
        (runSched (machine (listExtWith eqTag) force) sched n 0 p) (pureN (machine (listExtWith eqTag) force) n p) := by
  intro p r hm sched n
  obtain ⟨h0, p0, sb⟩ := session_jobs_hyps_listExt eqTag force hist i0 sz p r hm
  exact gc_unobservable_listExt eqTag force sched n p h0 p0 sb

end Marwood.Proofs.C03

namespace Marwood.Proofs.C13
open Marwood Marwood.Vm Marwood.Vm.Concrete Marwood.Lemmas.Sim Marwood.Lemmas.Good Marwood.Proofs.C03

/-- **T13.3 for whole sessions at the real builtins, from the invariant of the INITIAL state only**: in every history
    of `eval` calls — each with its `prepare_eval` (`HistInstalls`) — started on an idle machine (`IdleOk`), if the
    uninterrupted evaluation of an accepted form reaches HALT after `k` instructions, then for every sequence of
    positive budgets whose sum reaches `k` the sliced evaluation reaches HALT too and returns the same datum. -/
theorem session_sliced_eq_uninterrupted_listExt (eqTag : String → String → Bool) (force : Bool) {s0 sf : St CHeap}
    {recs : List EvRec} (hist : HistInstalls (listExtWith eqTag) force s0 recs sf) (i0 : IdleOk s0)
    (sz : ∀ rc ∈ recs, RecSized (listExtWith eqTag) force rc) :
    ∀ p r, EvRec.ran p r ∈ recs → ∀ (k : Nat) (t' : St CHeap),
      pureN (machine (listExtWith eqTag) force) k p = .done t' →
      ∀ (bs : List Nat), (∀ b ∈ bs, 1 ≤ b) → k ≤ bs.sum → ∀ fuel : Nat,
      ∃ s1 s2, run (machine (listExtWith eqTag) force) k p = .done s1 ∧
        runSliced (machine (listExtWith eqTag) force) bs p = .done s2 ∧ resultObs fuel s1 = resultObs fuel s2 := by
  intro p r hm k t' hk bs hpos hsum fuel
  obtain ⟨h0, p0, sb⟩ := session_jobs_hyps_listExt eqTag force hist i0 sz p r hm
  exact sliced_value_eq_uninterrupted_listExt eqTag force p h0 p0 sb k t' hk bs hpos hsum fuel

/-- … and for an accepted form whose evaluation fails: the same failure, `Sim`-related states -/
theorem session_sliced_error_eq_uninterrupted_listExt (eqTag : String → String → Bool) (force : Bool)
    {s0 sf : St CHeap} {recs : List EvRec} (hist : HistInstalls (listExtWith eqTag) force s0 recs sf) (i0 : IdleOk s0)
    (sz : ∀ rc ∈ recs, RecSized (listExtWith eqTag) force rc) :
    ∀ p r, EvRec.ran p r ∈ recs → ∀ (k : Nat) (e : Fault) (t' : St CHeap),
      pureN (machine (listExtWith eqTag) force) k p = .error e t' →
      ∀ (bs : List Nat), (∀ b ∈ bs, 1 ≤ b) → k ≤ bs.sum →
      ∃ s1 s2, run (machine (listExtWith eqTag) force) k p = .error e s1 ∧
        runSliced (machine (listExtWith eqTag) force) bs p = .error e s2 ∧
        R (machine (listExtWith eqTag) force) s1 t' ∧ R (machine (listExtWith eqTag) force) s2 t' := by
  intro p r hm k e t' hk bs hpos hsum
  obtain ⟨h0, p0, sb⟩ := session_jobs_hyps_listExt eqTag force hist i0 sz p r hm
  exact sliced_error_eq_uninterrupted_listExt eqTag force p h0 p0 sb k e t' hk bs hpos hsum

end Marwood.Proofs.C13

/-! ### non-vacuity: a session whose accepted form is evaluated (`Demo.demo_installs`) -/

namespace Marwood.Lemmas.Good.SDemo
open Marwood Marwood.Vm Marwood.Vm.Concrete Marwood.Lemmas.Sim Marwood.Lemmas.Good Marwood.Lemmas.Good.Demo
  Marwood.Lemmas.Good.LDemo Marwood.Lemmas.PolicySessionOk

def stepOf (s : St CHeap) : St CHeap :=
  match vmStep (concreteOps listExt) s with
  | .next s' => s' | .halt s' => s' | .fail _ s' => s'

/-- the state after `k` instructions of the collection-free run from `s0` -/
def ptOf (s0 : St CHeap) : Nat → St CHeap
  | 0 => s0
  | k+1 => stepOf (ptOf s0 k)

/-- a decision procedure for equality of concrete heaps / states (no global instance is declared) -/
def heapEq (a b : CHeap) : Bool :=
  decide (a.chunk = b.chunk) && decide (a.cells = b.cells) && decide (a.gc = b.gc) && decide (a.free = b.free) &&
    decide (a.symtab = b.symtab) && decide (a.globSyms = b.globSyms) && decide (a.globals = b.globals)

def stEq (a b : St CHeap) : Bool :=
  heapEq a.heap b.heap && decide (a.stack = b.stack) && decide (a.acc = b.acc) && decide (a.ep = b.ep) &&
    decide (a.ipL = b.ipL) && decide (a.ipO = b.ipO) && decide (a.bp = b.bp)

theorem heapEq_sound {a b : CHeap} (h : heapEq a b = true) : a = b := by
  cases a; cases b
  simp only [heapEq, Bool.and_eq_true, decide_eq_true_eq] at h
  obtain ⟨⟨⟨⟨⟨⟨h1, h2⟩, h3⟩, h4⟩, h5⟩, h6⟩, h7⟩ := h
  subst h1 h2 h3 h4 h5 h6 h7
  rfl

theorem stEq_sound {a b : St CHeap} (h : stEq a b = true) : a = b := by
  cases a; cases b
  simp only [stEq, Bool.and_eq_true, decide_eq_true_eq] at h
  obtain ⟨⟨⟨⟨⟨⟨h1, h2⟩, h3⟩, h4⟩, h5⟩, h6⟩, h7⟩ := h
  have h1' := heapEq_sound h1
  subst h1' h2 h3 h4 h5 h6 h7
  rfl

/-- the states of the first `n` instructions from `s0`, each also after a (utilisation-tested) collection -/
def statesOf (s0 : St CHeap) (n : Nat) : List (St CHeap) :=
  (List.range n).flatMap fun k => [ptOf s0 k, cgc false (ptOf s0 k)]

def small (h : CHeap) : Bool := decide (h.cells.size ≤ 4)

/-- `L` is closed under `run_one` and `run_gc`, and every heap of `L` — also after the success / error epilogue and
    its collection — has at most four cells -/
def closedB (L : List (St CHeap)) : Bool :=
  L.all fun s => L.any (stEq (stepOf s)) && L.any (stEq (cgc false s)) && small s.heap &&
    small (cgc false (onDone s)).heap && small (cgc false (onError s)).heap

theorem mem_of_any {L : List (St CHeap)} {s : St CHeap} (h : L.any (stEq s) = true) : s ∈ L := by
  obtain ⟨t, ht, e⟩ := List.any_eq_true.mp h
  rw [stEq_sound e]; exact ht

theorem closed_spec {L : List (St CHeap)} (hc : closedB L = true) {s : St CHeap} (h : s ∈ L) :
    stepOf s ∈ L ∧ cgc false s ∈ L ∧ s.heap.cells.size ≤ 4 ∧ (cgc false (onDone s)).heap.cells.size ≤ 4 ∧
      (cgc false (onError s)).heap.cells.size ≤ 4 := by
  have := List.all_eq_true.mp hc s h
  simp only [Bool.and_eq_true, small, decide_eq_true_eq] at this
  obtain ⟨⟨⟨⟨a, b⟩, c⟩, d⟩, e⟩ := this
  exact ⟨mem_of_any a, mem_of_any b, c, d, e⟩

theorem reaches_closed {L : List (St CHeap)} (hc : closedB L = true) {s0 s : St CHeap} (h0 : s0 ∈ L)
    (hr : Reaches (machine listExt false) s0 s) : s ∈ L := by
  induction hr with
  | refl => exact h0
  | @next s1 s2 _ e ih =>
    have e' : vmStep (concreteOps listExt) s1 = .next s2 := e
    have : stepOf s1 = s2 := by unfold stepOf; rw [e']
    rw [← this]; exact (closed_spec hc ih).1
  | @halt s1 s2 _ e ih =>
    have e' : vmStep (concreteOps listExt) s1 = .halt s2 := e
    have : stepOf s1 = s2 := by unfold stepOf; rw [e']
    rw [← this]; exact (closed_spec hc ih).1
  | @gc s1 _ ih => exact (closed_spec hc ih).2.1

/-- the physical size bounds of an evaluation all of whose states lie in a finite closed set of small states -/
theorem evalSizeBounded_of_closed {L : List (St CHeap)} (hc : closedB L = true) {s0 : St CHeap} (h0 : s0 ∈ L) :
    EvalSizeBounded listExt false s0 := by
  refine ⟨fun s hr => ?_, fun s hr => ?_, fun s hr => ?_⟩
  · have := (closed_spec hc (reaches_closed hc h0 hr)).2.2.1
    unfold Small; omega
  · have := (closed_spec hc (reaches_closed hc h0 hr)).2.2.2.1
    unfold Small; omega
  · have := (closed_spec hc (reaches_closed hc h0 hr)).2.2.2.2
    unfold Small; omega

/-- the state in which the evaluation of `#t` starts (`prepare_eval` of `Demo.demo_installs`) -/
def p0 : St CHeap := prepare sT 2

/-- the state after `k` instructions of the collection-free evaluation of `#t` -/
def pt (k : Nat) : St CHeap := ptOf p0 k

/-- every state the evaluation can be in, under any interleaving of (utilisation-tested) collections, lies in
    `statesOf p0 8`: three of the four cells are in use, so `run_gc` DOES collect — it reclaims cell 0, the `[HALT]`
    code object of the machine's previous evaluation -/
theorem states_closed : closedB (statesOf p0 8) = true := by decide +kernel

/-- the physical size bounds of the evaluation -/
theorem p0_evalSizeBounded : EvalSizeBounded listExt false p0 :=
  evalSizeBounded_of_closed states_closed (mem_of_any (by decide +kernel))

/-- six instructions continue (`PUSHIMM 0; MOVIMM l acc; CALL; ENTER; MOVIMM #t acc; RET`), the seventh is HALT -/
theorem pt_next : ∀ k, k < 6 → isNext (vmStep (concreteOps listExt) (pt k)) = true := by decide +kernel
theorem pt_halt : isHalt (vmStep (concreteOps listExt) (pt 6)) = true := by decide +kernel

theorem step_next {k : Nat} (hk : k < 6) : vmStep (concreteOps listExt) (pt k) = .next (pt (k + 1)) := by
  have h := pt_next k hk
  have e : pt (k + 1) = stepOf (pt k) := rfl
  cases hs : vmStep (concreteOps listExt) (pt k) with
  | next s => rw [e]; unfold stepOf; rw [hs]
  | halt s => rw [hs] at h; cases h
  | fail x s => rw [hs] at h; cases h

theorem step_halt : vmStep (concreteOps listExt) (pt 6) = .halt (pt 7) := by
  have h := pt_halt
  have e : pt 7 = stepOf (pt 6) := rfl
  cases hs : vmStep (concreteOps listExt) (pt 6) with
  | next s => rw [hs] at h; cases h
  | halt s => rw [e]; unfold stepOf; rw [hs]
  | fail x s => rw [hs] at h; cases h

/-- **the collection-free evaluation of `#t` reaches HALT after 7 instructions** -/
theorem pure_done (force : Bool) : pureN (machine listExt force) 7 p0 = .done (pt 7) := by
  have key : ∀ i, i ≤ 6 → pureN (machine listExt force) (i + 1) (pt (6 - i)) = .done (pt 7) := by
    intro i
    induction i with
    | zero =>
      intro _
      exact pureN_halt (m := machine listExt force) step_halt
    | succ i ih =>
      intro hi
      have hk : 6 - (i + 1) < 6 := by omega
      rw [pureN_next (m := machine listExt force) (step_next hk)]
      have e : 6 - (i + 1) + 1 = 6 - i := by omega
      rw [e]
      exact ih (by omega)
  exact key 6 (Nat.le_refl _)

/-- the value: `#t` -/
theorem pt7_result : resultObs 5 (pt 7) = .atom (.bool true) := by
  have ha : (pt 7).acc = .bool true := by decide +kernel
  unfold resultObs
  rw [ha]
  rfl

/-- the idle invariant of the machine before the session -/
theorem sHalt_idle : IdleOk (sHalt 0) :=
  (sHalt_vmOkP Marwood.Proofs.C13.failingExt Marwood.Proofs.C13.failingExt_codeLawsV).idleOk rfl (by decide)

/-- **a one-job session**: `prepare_eval` of `#t` on the idle demo machine (`Demo.demo_installs`), then its evaluation
    at the real builtins with any fuel -/
theorem demo_hist (fuel : Nat) : HistInstalls listExt false (sHalt 0)
    [.ran p0 (runEval (concreteOps listExt) (cgc false) none fuel p0)]
    (nextState (sHalt 0) (runEval (concreteOps listExt) (cgc false) none fuel p0)) :=
  HistInstalls.ran demo_installs (.nil _)

theorem demo_hist_sized (fuel : Nat) :
    ∀ rc ∈ [EvRec.ran p0 (runEval (concreteOps listExt) (cgc false) none fuel p0)], RecSized listExt false rc := by
  intro rc hrc
  have : rc = .ran p0 (runEval (concreteOps listExt) (cgc false) none fuel p0) := by simpa using hrc
  subst this
  exact p0_evalSizeBounded

end Marwood.Lemmas.Good.SDemo

namespace Marwood.Proofs.C03
open Marwood Marwood.Vm Marwood.Vm.Concrete Marwood.Lemmas.Sim Marwood.Lemmas.Good Marwood.Lemmas.Good.Demo
  Marwood.Lemmas.Good.SDemo

/-- every hypothesis of `session_gc_unobservable_listExt` holds of the one-job session of the demo, and through the
    theorem: the job `#t` (prepared by `Demo.demo_installs`) returns `#t` under EVERY schedule of collections — which
    here really collect (three of four cells in use) -/
theorem demo_session_every_schedule (sched : Nat → Bool) :
    ∃ s', runSched (machine listExt false) sched 7 0 (prepare sT 2) = .done s' ∧
      resultObs 5 s' = .atom (.bool true) := by
  obtain ⟨s', h1, h2⟩ := session_gc_unobservable_listExt _ false (demo_hist 10) sHalt_idle (demo_hist_sized 10)
    p0 _ (List.mem_cons_self ..) sched 7 (pt 7) (SDemo.pure_done false)
  exact ⟨s', h1, by rw [h2 5]; exact pt7_result⟩

end Marwood.Proofs.C03

namespace Marwood.Proofs.C13
open Marwood Marwood.Vm Marwood.Vm.Concrete Marwood.Lemmas.Sim Marwood.Lemmas.Good Marwood.Lemmas.Good.Demo
  Marwood.Lemmas.Good.SDemo

/-- … and of `session_sliced_eq_uninterrupted_listExt`: every slicing of the job's 7-instruction evaluation returns
    what the uninterrupted evaluation returns -/
theorem demo_session_every_slicing (bs : List Nat) (hpos : ∀ b ∈ bs, 1 ≤ b) (hsum : 7 ≤ bs.sum) :
    ∃ s1 s2, run (machine listExt false) 7 (prepare sT 2) = .done s1 ∧
      runSliced (machine listExt false) bs (prepare sT 2) = .done s2 ∧ resultObs 5 s1 = resultObs 5 s2 :=
  session_sliced_eq_uninterrupted_listExt _ false (demo_hist 10) sHalt_idle (demo_hist_sized 10)
    p0 _ (List.mem_cons_self ..) 7 (pt 7) (SDemo.pure_done false) bs hpos hsum 5

end Marwood.Proofs.C13

/-! ### non-vacuity of T07.4 with `prepare_eval` explicit: a form whose evaluation FAILS

`(#t)` — the application of a non-procedure — compiles (model: `compileRunnable`) to the top-level lambda
`[ENTER, PUSHIMM 0, MOVIMM #t acc, TCALL acc, RET]`; `sF` is the state a loader leaves on the idle demo machine
(`installsB … = true` by kernel evaluation, hence `Installs`), and the evaluation from `prepare sF 2` fails at the
TCALL with `InvalidProcedure`. -/

namespace Marwood.Lemmas.Good.SDemo
open Marwood Marwood.Vm Marwood.Vm.Concrete Marwood.Lemmas.Sim Marwood.Lemmas.Good Marwood.Lemmas.Good.Demo
  Marwood.Lemmas.PolicySessionOk

/-- the heap after `prepare_eval` of `(#t)` on `hHalt` -/
def hF : CHeap :=
  { chunk := 4
    cells := #[.lambda { bc := [.opcode .halt], args := [], envmap := [] },
      .lambda { bc := [.opcode .enter, .opcode .pushImm, .argc 0, .opcode .movImm, .bool true, .acc, .opcode .tcallAcc,
                       .opcode .ret], args := [], envmap := [] },
      .lambda { bc := [.opcode .pushImm, .argc 0, .opcode .movImm, .ptr 1, .acc, .opcode .callAcc, .opcode .halt],
                args := [], envmap := [] },
      .val .undefined]
    gc := #[.allocated, .allocated, .allocated, .free], free := [3], symtab := [], globSyms := [], globals := #[] }

def sF : St CHeap := { sHalt 0 with heap := hF }

/-- **`Installs` holds of the `prepare_eval` of the failing form** -/
theorem fail_installs : Installs (Datum.pair (.bool true) .nil) 20 (sHalt 0) sF 2 :=
  installsB_sound (by decide +kernel)

theorem fail_states_closed : closedB (statesOf (prepare sF 2) 7) = true := by decide +kernel

theorem fail_evalSizeBounded : EvalSizeBounded listExt false (prepare sF 2) :=
  evalSizeBounded_of_closed fail_states_closed (mem_of_any (by decide +kernel))

def failedSmall : EvalRes CHeap → Bool
  | .failed (.err .invalidProcedure) s => decide (s.heap.cells.size ≤ 4)
  | _ => false

/-- the evaluation fails: `#t` is not a procedure -/
theorem fail_eval : ∃ s1, runEval (concreteOps listExt) (cgc false) none 20 (prepare sF 2) =
    .failed (.err .invalidProcedure) s1 ∧ Small s1.heap := by
  have h : failedSmall (runEval (concreteOps listExt) (cgc false) none 20 (prepare sF 2)) = true := by decide +kernel
  cases hr : runEval (concreteOps listExt) (cgc false) none 20 (prepare sF 2) with
  | failed f s =>
    rw [hr] at h
    unfold failedSmall at h
    split at h
    · rename_i s' heq
      cases heq
      refine ⟨s, rfl, ?_⟩
      have := of_decide_eq_true h
      unfold Small; omega
    · cases h
  | value s => rw [hr] at h; cases h
  | paused s => rw [hr] at h; cases h
  | fuel => rw [hr] at h; cases h

end Marwood.Lemmas.Good.SDemo

namespace Marwood.Proofs.C07
open Marwood Marwood.Vm Marwood.Vm.Concrete Marwood.Lemmas.Sim Marwood.Lemmas.Good Marwood.Lemmas.Good.Demo
  Marwood.Lemmas.Good.SDemo Marwood.Proofs.C13

/-- every hypothesis of `failed_eval_equivalent_later_installs_listExt` holds of the failing evaluation of `(#t)` on
    the demo machine (for any compiler inside `prepare_eval` satisfying `CompLaws`), and through the theorem: the
    failed VM and its error-reset twin are `Sim`-equivalent idle machines, and every later form installed on both is
    evaluated alike -/
theorem demo_failed_installs_listExt (comp : CHeap → VCell → Outcome (CHeap × VCell)) (cl : CompLaws comp) :
    ∃ s1 sf, runEval (concreteOps listExt) (cgc false) none 20 (prepare sF 2) = .failed (.err .invalidProcedure) s1 ∧
      runLoop (machine listExt false) none 20 0 (prepare sF 2) = .error (.err .invalidProcedure) sf ∧
      s1 = cgc false (onError sf) ∧ (∃ ψ, Sim ψ s1 (onError sf)) ∧ IdleOk s1 ∧ IdleOk (onError sf) ∧
      ∀ (d : VCell) (s2 t2 : St CHeap) (e : Datum) (cf : Nat), addrFree d = true →
        prepareEval comp s1 d = .ok s2 → prepareEval comp (onError sf) d = .ok t2 →
        Installs e cf s1 { s1 with heap := s2.heap } s2.ipL →
        Installs e cf (onError sf) { onError sf with heap := t2.heap } t2.ipL →
        SizeBounded (machine listExt false) s2 → SizeBounded (machine listExt false) t2 →
        ∀ k : Nat, ∀ t', pureN (machine listExt false) k t2 = .done t' →
          ∃ s' t'', run (machine listExt false) k s2 = .done s' ∧ run (machine listExt false) k t2 = .done t'' ∧
            ∀ fl, resultObs fl s' = resultObs fl t'' := by
  obtain ⟨s1, hfail, sm1⟩ := fail_eval
  obtain ⟨sf, a, b, c, d, e, g⟩ := failed_eval_equivalent_later_installs_listExt _ false comp cl none 20 (sHalt 0) sF
    _ 20 2 _ s1 sHalt_idle fail_installs hfail fail_evalSizeBounded.run sm1
  exact ⟨s1, sf, hfail, a, b, c, d, e, fun d' s2 t2 e' cf hd h1 h2 i1 i2 b1 b2 k => (g d' s2 t2 e' cf hd h1 h2 i1 i2 b1 b2 k).1⟩

/-- the compiler law of that statement is satisfiable (the always-rejecting compiler) -/
example : CompLaws (fun _ _ => .err .invalidSyntax) := ⟨fun _ _ _ _ _ _ _ _ _ _ => .err⟩

end Marwood.Proofs.C07
