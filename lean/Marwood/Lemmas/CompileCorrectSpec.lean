import Marwood.Lemmas.CompileCorrectDefs
/-!
# T01.3 stage 1 — inversion of `Spec.Eval` on the forms of the fragment
-/
namespace Marwood.Lemmas.CompileCorrect
open Marwood
open Marwood.Spec.Eval

theorem bind_ok_inv {α β : Type} {m : M α} {f : α → M β} {σ σ' : SSt} {b : β}
    (h : (m >>= f) σ = .ok b σ') : ∃ a σ1, m σ = .ok a σ1 ∧ f a σ1 = .ok b σ' := by
  change M.bind' m f σ = _ at h
  unfold M.bind' at h
  cases hm : m σ with
  | ok a σ1 => rw [hm] at h; exact ⟨a, σ1, rfl, h⟩
  | err e σ1 => rw [hm] at h; cases h
  | timeout => rw [hm] at h; cases h

theorem pure_ok_inv {α : Type} {a b : α} {σ σ' : SSt} (h : (pure a : M α) σ = .ok b σ') : b = a ∧ σ' = σ := by
  change Res.ok a σ = _ at h
  injection h with h1 h2
  exact ⟨h1.symm, h2.symm⟩

theorem throw_ne_ok {α : Type} {e : ErrClass} {b : α} {σ σ' : SSt} : (throw e : M α) σ ≠ .ok b σ' := by
  intro h; cases h

/-- quoting an atom allocates nothing and returns its value -/
theorem quoteVal_atom {d : Datum} (hd : IsAtom d) {σ σ' : SSt} {w : Val} (h : quoteVal d σ = .ok w σ') :
    atomVal d = some w ∧ σ' = σ := by
  cases d with
  | num n =>
    unfold quoteVal at h
    unfold atomVal
    cases hn : intOfNum n with
    | none => rw [hn] at h; cases h
    | some i =>
      rw [hn] at h
      obtain ⟨h1, h2⟩ := pure_ok_inv h
      exact ⟨by simp only [hn, h1, Option.map], h2⟩
  | bool b => unfold quoteVal at h; obtain ⟨h1, h2⟩ := pure_ok_inv h; exact ⟨by simp [atomVal, h1], h2⟩
  | char c => unfold quoteVal at h; obtain ⟨h1, h2⟩ := pure_ok_inv h; exact ⟨by simp [atomVal, h1], h2⟩
  | nil => unfold quoteVal at h; obtain ⟨h1, h2⟩ := pure_ok_inv h; exact ⟨by simp [atomVal, h1], h2⟩
  | str s => unfold quoteVal at h; obtain ⟨h1, h2⟩ := pure_ok_inv h; exact ⟨by simp [atomVal, h1], h2⟩
  | sym s => unfold quoteVal at h; obtain ⟨h1, h2⟩ := pure_ok_inv h; exact ⟨by simp [atomVal, h1], h2⟩
  | pair a b => rcases hd with hd | ⟨n, hn⟩ <;> simp [atomVal] at *
  | vec e => rcases hd with hd | ⟨n, hn⟩ <;> simp [atomVal] at *
  | void => rcases hd with hd | ⟨n, hn⟩ <;> simp [atomVal] at *
  | undefined => rcases hd with hd | ⟨n, hn⟩ <;> simp [atomVal] at *
  | procedure p => rcases hd with hd | ⟨n, hn⟩ <;> simp [atomVal] at *
  | macro_ => rcases hd with hd | ⟨n, hn⟩ <;> simp [atomVal] at *
  | continuation => rcases hd with hd | ⟨n, hn⟩ <;> simp [atomVal] at *

variable {r : Rec}

/-- a global variable reference -/
theorem evalStep_sym_inv {s : Text} {σ σ' : SSt} {w : Val} (h : evalStep r (.sym s) [] σ = .ok w σ') :
    σ.globals.lookup s = some w ∧ σ' = σ := by
  change evalVar s [] σ = _ at h
  unfold evalVar at h
  split at h
  · exact absurd h throw_ne_ok
  · change getGlobal s σ = _ at h
    unfold getGlobal at h
    cases hl : σ.globals.lookup s with
    | none => rw [hl] at h; cases h
    | some v =>
      rw [hl] at h
      injection h with h1 h2
      exact ⟨by rw [h1], h2.symm⟩

theorem kwOf_quote : kwOf k_quote = some .quote := by decide
theorem kwOf_if : kwOf k_if_ = some .if_ := by decide
theorem kwOf_setBang : kwOf k_setBang = some .setBang := by decide

theorem evalStep_quote (d rest : Datum) (ρ : Env) :
    evalStep r (.pair (.sym k_quote) (.pair d rest)) ρ = quoteVal d := by
  simp only [evalStep, kwOf_quote, evalKw]

/-- `(set! x e)` at top level -/
theorem evalStep_setBang_inv {x : Text} {e : Datum} {σ σ' : SSt} {w : Val}
    (h : evalStep r (.pair (.sym k_setBang) (.pair (.sym x) (.pair e .nil))) [] σ = .ok w σ') :
    ∃ v σ1, r.eval e [] σ = .ok v σ1 ∧ (∃ old, σ1.globals.lookup x = some old) ∧
      σ' = { σ1 with globals := insertG x v σ1.globals } ∧ w = .void := by
  simp only [evalStep, kwOf_setBang, evalKw, properList, Option.map] at h
  split at h
  · exact absurd h throw_ne_ok
  · obtain ⟨v, σ1, h1, h2⟩ := bind_ok_inv h
    obtain ⟨u, σ2, h3, h4⟩ := bind_ok_inv h2
    obtain ⟨hw, hs⟩ := pure_ok_inv h4
    refine ⟨v, σ1, h1, ?_⟩
    simp only [assignVar, List.lookup] at h3
    unfold setGlobal at h3
    cases hl : σ1.globals.lookup x with
    | none => rw [hl] at h3; cases h3
    | some old =>
      rw [hl] at h3
      injection h3 with _ h5
      exact ⟨⟨old, rfl⟩, by rw [hs, ← h5], hw⟩

/-- `(if t c)` -/
theorem evalStep_if2_inv {t c : Datum} {ρ : Env} {σ σ' : SSt} {w : Val}
    (h : evalStep r (.pair (.sym k_if_) (.pair t (.pair c .nil))) ρ σ = .ok w σ') :
    ∃ v σ1, r.eval t ρ σ = .ok v σ1 ∧
      ((truthy v = true ∧ r.eval c ρ σ1 = .ok w σ') ∨ (v = .bool false ∧ w = .void ∧ σ' = σ1)) := by
  simp only [evalStep, kwOf_if, evalKw, properList, Option.map] at h
  obtain ⟨v, σ1, h1, h2⟩ := bind_ok_inv h
  refine ⟨v, σ1, h1, ?_⟩
  by_cases ht : truthy v = true
  · simp only [ht, if_true] at h2; exact .inl ⟨ht, h2⟩
  · simp only [ht] at h2
    obtain ⟨hw, hs⟩ := pure_ok_inv h2
    refine .inr ⟨?_, hw, hs⟩
    cases v <;> simp [truthy] at ht ⊢
    rename_i b; cases b <;> simp at ht ⊢

/-- `(if t c a)` -/
theorem evalStep_if3_inv {t c a : Datum} {ρ : Env} {σ σ' : SSt} {w : Val}
    (h : evalStep r (.pair (.sym k_if_) (.pair t (.pair c (.pair a .nil)))) ρ σ = .ok w σ') :
    ∃ v σ1, r.eval t ρ σ = .ok v σ1 ∧
      ((truthy v = true ∧ r.eval c ρ σ1 = .ok w σ') ∨ (v = .bool false ∧ r.eval a ρ σ1 = .ok w σ')) := by
  simp only [evalStep, kwOf_if, evalKw, properList, Option.map] at h
  obtain ⟨v, σ1, h1, h2⟩ := bind_ok_inv h
  refine ⟨v, σ1, h1, ?_⟩
  by_cases ht : truthy v = true
  · simp only [ht, if_true] at h2; exact .inl ⟨ht, h2⟩
  · simp only [ht] at h2
    refine .inr ⟨?_, h2⟩
    cases v <;> simp [truthy] at ht ⊢
    rename_i b; cases b <;> simp at ht ⊢

/-- application -/
theorem evalStep_app_inv {f rest : Datum} (hf : AppHead f) {ρ : Env} {σ σ' : SSt} {w : Val}
    (h : evalStep r (.pair f rest) ρ σ = .ok w σ') :
    ∃ es vs σ1 fv σ2, properList rest = some es ∧ evalArgs r ρ es σ = .ok vs σ1 ∧
      r.eval f ρ σ1 = .ok fv σ2 ∧ r.apply fv vs σ2 = .ok w σ' := by
  cases hp : properList rest with
  | none =>
    exfalso
    cases f with
    | sym s => have hk := hf.2 s rfl; simp only [evalStep, hk, hp] at h; exact throw_ne_ok h
    | _ => simp only [evalStep, hp] at h; exact throw_ne_ok h
  | some es =>
    have h' : (evalArgs r ρ es >>= fun vs => r.eval f ρ >>= fun fv => r.apply fv vs) σ = .ok w σ' := by
      cases f with
      | sym s => have hk := hf.2 s rfl; simp only [evalStep, hk, hp] at h; exact h
      | _ => simp only [evalStep, hp] at h; exact h
    obtain ⟨vs, σ1, h1, h2⟩ := bind_ok_inv h'
    obtain ⟨fv, σ2, h3, h4⟩ := bind_ok_inv h2
    exact ⟨es, vs, σ1, fv, σ2, rfl, h1, h3, h4⟩

theorem properList_pair_inv {a d : Datum} {es : List Datum} (h : properList (.pair a d) = some es) :
    ∃ es', properList d = some es' ∧ es = a :: es' := by
  simp only [properList] at h
  cases hd : properList d with
  | none => rw [hd] at h; cases h
  | some es' => rw [hd] at h; injection h with h; exact ⟨es', rfl, h.symm⟩

theorem evalArgs_cons_inv {e : Datum} {es : List Datum} {ρ : Env} {σ σ' : SSt} {ws : List Val}
    (h : evalArgs r ρ (e :: es) σ = .ok ws σ') :
    ∃ v σ1 vs, r.eval e ρ σ = .ok v σ1 ∧ evalArgs r ρ es σ1 = .ok vs σ' ∧ ws = v :: vs := by
  simp only [evalArgs] at h
  obtain ⟨v, σ1, h1, h2⟩ := bind_ok_inv h
  obtain ⟨vs, σ2, h3, h4⟩ := bind_ok_inv h2
  obtain ⟨hw, hs⟩ := pure_ok_inv h4
  exact ⟨v, σ1, vs, h1, hs ▸ h3, hw⟩

theorem evalArgs_nil_inv {ρ : Env} {σ σ' : SSt} {ws : List Val} (h : evalArgs r ρ [] σ = .ok ws σ') :
    ws = [] ∧ σ' = σ := by
  simp only [evalArgs] at h
  exact pure_ok_inv h

end Marwood.Lemmas.CompileCorrect
