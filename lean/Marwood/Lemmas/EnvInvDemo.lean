import Marwood.Lemmas.ListExtDemo
import Marwood.Lemmas.EnvInvMain
/-!
# `EnvInv` on the list-builtin demo state

`LDemo.sDemo` (`Lemmas/ListExtDemo.lean`: an 8-cell heap with the hand-assembled program
`(define p (cons 1 2)) (set-car! p 3) (car p)`, entry code with a top-level lambda) satisfies `EnvInv` — through the
executable check `stateEnvB`, evaluated by the kernel.
-/
namespace Marwood.Lemmas.Good.LDemo
open Marwood Marwood.Vm Marwood.Vm.Concrete

theorem sDemo_envInv : EnvInv sDemo := stateEnvB_sound (by decide +kernel)

end Marwood.Lemmas.Good.LDemo
