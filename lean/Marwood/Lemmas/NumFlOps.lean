import Marwood.Lemmas.NumRnd
/-!
# The standard model of rounding with gradual underflow, and the values of `Fl.add`, `Fl.neg`

* `rnd_err` — below the overflow threshold `rnd q` is finite and `|rnd q − q| ≤ 2⁻⁵³·|q| + 2⁻¹⁰⁷⁵`
  (no lower bound on `|q|`: in the subnormal range the error is at most half a subnormal spacing);
* `add_val` — `Fl.add` of two finite doubles is the rounded exact sum (an exact zero when the sum is
  zero); `neg_val` — `Fl.neg` negates the value.
-/
namespace Marwood.Fl
open Marwood Marwood.NumSpec

/-- 2⁻¹⁰⁷⁵: half the spacing of the subnormal doubles -/
def eta : ℚ := 2 ^ (-1075 : ℤ)
/-- 2⁻⁵³: the unit roundoff -/
def uro : ℚ := 2 ^ (-53 : ℤ)

theorem mag_err (n d : ℕ) (hn : 0 < n) (hd : 0 < d) (hhi : (n : ℚ) / d < 2 ^ (1023 : ℤ)) :
    patOf n d < infBits ∧
    |(mOf n d : ℚ) * 2 ^ (eOf n d) - (n : ℚ) / d| ≤ uro * ((n : ℚ) / d) + eta := by
  obtain ⟨lo, up⟩ := floorLog2_spec n d hn hd
  have f2 : floorLog2 n d ≤ 1022 := by
    have := two_zpow_lt_iff.mp (lt_of_le_of_lt lo hhi); omega
  have hege := eOf_ge n d
  have hE : EOf n d ≤ 2044 := by
    have := EOf_cast n d
    have : eOf n d = max (floorLog2 n d - 52) (-1074) := rfl
    omega
  have hm := mOf_le n d hn hd
  refine ⟨?_, ?_⟩
  · unfold patOf infBits twoP52
    unfold twoP53 at hm
    omega
  · set x : ℚ := (n : ℚ) / d with hx
    have hxpos : 0 < x := by positivity
    set e := eOf n d with hee
    have pe := two_zpow_pos e
    have hmq : ((mOf n d : ℕ) : ℚ) = ((RN (x / 2 ^ e) : ℤ) : ℚ) := by
      have := mOf_eq n d hd
      rw [← this]; simp
    have near := RN_near (x / 2 ^ e)
    have e1 : (mOf n d : ℚ) * 2 ^ e - x = ((RN (x / 2 ^ e) : ℚ) - x / 2 ^ e) * 2 ^ e := by
      rw [hmq]; field_simp
    rw [e1, abs_mul, abs_of_pos pe]
    have b1 : |(RN (x / 2 ^ e) : ℚ) - x / 2 ^ e| * 2 ^ e ≤ 1 / 2 * 2 ^ e :=
      mul_le_mul_of_nonneg_right near pe.le
    have half : (1 : ℚ) / 2 * 2 ^ e = 2 ^ (-1 + e) := by rw [two_zpow_add]; norm_num
    by_cases hc : e = floorLog2 n d - 52
    · have b2 : (1 : ℚ) / 2 * 2 ^ e = 2 ^ (-53 : ℤ) * 2 ^ (floorLog2 n d) := by
        rw [half, ← two_zpow_add]; congr 1; omega
      have b3 : (2 : ℚ) ^ (-53 : ℤ) * 2 ^ (floorLog2 n d) ≤ 2 ^ (-53 : ℤ) * x :=
        mul_le_mul_of_nonneg_left lo (two_zpow_pos _).le
      have : 0 < eta := two_zpow_pos _
      unfold uro; linarith
    · have he74 : e = -1074 := by
        have : e = max (floorLog2 n d - 52) (-1074) := rfl
        omega
      have b2 : (1 : ℚ) / 2 * 2 ^ e = eta := by rw [half, he74]; rfl
      have : 0 ≤ uro * x := mul_nonneg (two_zpow_pos _).le hxpos.le
      linarith

/-- the standard model with gradual underflow: below the overflow threshold `rnd q` is finite and
    `|rnd q − q| ≤ 2⁻⁵³·|q| + 2⁻¹⁰⁷⁵` -/
theorem rnd_err (q : ℚ) (hhi : |q| < 2 ^ (1023 : ℤ)) :
    ∃ v, toRat? (rnd q) = some v ∧ |v - q| ≤ uro * |q| + eta := by
  rcases lt_trichotomy q 0 with hneg | hz | hpos
  · have hp : 0 < -q := by linarith
    obtain ⟨hn, hd, hv⟩ := num_den_pos hp
    rw [abs_of_neg hneg] at hhi ⊢
    obtain ⟨hb, herr⟩ := mag_err _ _ hn hd (by rw [hv]; exact hhi)
    refine ⟨_, by rw [rnd_neg hneg]; exact (toRat_rndMag _ _ hn hd hb).2, ?_⟩
    rw [hv] at herr
    rw [show ∀ a : ℚ, -a - q = -(a - -q) by intro a; ring, abs_neg]
    exact herr
  · subst hz
    refine ⟨0, by rw [rnd_zero]; exact toRat_zero, ?_⟩
    have : 0 < eta := two_zpow_pos _
    simp; exact this.le
  · obtain ⟨hn, hd, hv⟩ := num_den_pos hpos
    rw [abs_of_pos hpos] at hhi ⊢
    obtain ⟨hb, herr⟩ := mag_err _ _ hn hd (by rw [hv]; exact hhi)
    refine ⟨_, by rw [rnd_pos hpos]; exact (toRat_rndMag _ _ hn hd hb).1, ?_⟩
    rw [hv] at herr
    exact herr

/-! ## values of the IEEE operations on finite doubles -/

theorem classify_of_toRat {f : F64} {v : ℚ} (h : toRat? f = some v) :
    classify f = .fin (signBit f) (magRat f) ∧ sgn (signBit f) (magRat f) = v := by
  have hfin : isFinite f = true := by
    unfold toRat? at h; split at h
    · assumption
    · cases h
  have he : expField f ≠ 2047 := by unfold isFinite at hfin; simpa using hfin
  have a : isNaN f = false := by unfold isNaN; simp [he]
  have b : isInf f = false := by unfold isInf; simp [he]
  refine ⟨by unfold classify; simp [a, b], ?_⟩
  unfold toRat? at h
  rw [if_pos hfin] at h
  simp only [Option.some.injEq] at h
  unfold sgn; exact h

theorem toRat_zero' (s : Bool) : toRat? (zero s) = some 0 := by
  cases s
  · exact toRat_zero
  · have h1 : expField (zero true) ≠ 2047 := by decide
    rw [toRat_of_fields h1, magRat_eq]
    have : sig (zero true) = 0 := by decide
    simp [this]

/-- `Fl.add` on finite doubles is the rounded exact sum -/
theorem add_val {f g : F64} {p r : ℚ} (hf : toRat? f = some p) (hg : toRat? g = some r)
    (hhi : |p + r| < 2 ^ (1023 : ℤ)) :
    ∃ v, toRat? (Fl.add f g) = some v ∧ |v - (p + r)| ≤ uro * |p + r| + eta := by
  obtain ⟨c1, v1⟩ := classify_of_toRat hf
  obtain ⟨c2, v2⟩ := classify_of_toRat hg
  unfold Fl.add
  rw [c1, c2]
  simp only [v1, v2]
  by_cases hz : (p + r).num = 0
  · have : p + r = 0 := Rat.num_eq_zero.mp hz
    simp only [hz, beq_self_eq_true, if_true]
    refine ⟨0, toRat_zero' _, ?_⟩
    rw [this]; simp; exact (two_zpow_pos _).le
  · have : ((p + r).num == 0) = false := by simpa using hz
    simp only [this, Bool.false_eq_true, if_false]
    exact rnd_err _ hhi

theorem neg_val {f : F64} {p : ℚ} (hb : f.bits < 2 ^ 64) (hf : toRat? f = some p) :
    toRat? (Fl.neg f) = some (-p) := by
  have hfin : isFinite f = true := by
    unfold toRat? at hf; split at hf
    · assumption
    · cases hf
  have he : expField f ≠ 2047 := by unfold isFinite at hfin; simpa using hfin
  have a : isNaN f = false := by unfold isNaN; simp [he]
  unfold toRat? at hf
  rw [if_pos hfin] at hf
  simp only [Option.some.injEq] at hf
  unfold Fl.neg
  rw [a, if_neg Bool.false_ne_true]
  cases hs : signBit f with
  | true =>
    rw [hs] at hf; simp only [if_true] at hf ⊢
    -- clearing the sign bit
    have hge : twoP63 ≤ f.bits := by
      unfold signBit at hs; simp only [beq_iff_eq] at hs
      unfold twoP63 at hs ⊢; omega
    obtain ⟨k, hk⟩ : ∃ k, f.bits = twoP63 + k := ⟨f.bits - twoP63, by omega⟩
    have hk63 : k < twoP63 := by unfold twoP63 at hk ⊢; omega
    have hf' : f = ⟨twoP63 + k⟩ := by cases f; simp_all
    obtain ⟨s1, s2, _⟩ := sign_fields k hk63
    have e1 : expField ⟨k⟩ ≠ 2047 := by rw [← s1, ← hf']; exact he
    have sk : signBit ⟨k⟩ = false := by
      unfold signBit; simp only [beq_eq_false_iff_ne]; unfold twoP63 at hk63 ⊢
      omega
    have : (⟨f.bits - twoP63⟩ : F64) = ⟨k⟩ := by rw [hk]; simp
    rw [this, toRat_of_fields e1, sk]
    simp only [Bool.false_eq_true, if_false]
    rw [← hf, hf', magRat_sign k hk63]; simp
  | false =>
    rw [hs] at hf; simp only [Bool.false_eq_true, if_false] at hf ⊢
    have hlt : f.bits < twoP63 := by
      unfold signBit at hs; simp only [beq_eq_false_iff_ne] at hs
      unfold twoP63 at hs ⊢; omega
    obtain ⟨s1, s2, s3⟩ := sign_fields f.bits hlt
    have e1 : expField ⟨twoP63 + f.bits⟩ ≠ 2047 := by rw [s1]; exact he
    have : (⟨f.bits + twoP63⟩ : F64) = ⟨twoP63 + f.bits⟩ := by rw [Nat.add_comm]
    rw [this, toRat_of_fields e1, s3]
    simp only [if_true]
    rw [magRat_sign _ hlt, ← hf]

end Marwood.Fl
