import Marwood.Lemmas.VerifyScan
/-!
# The forward pass only returns assignments that pass the local check

`infer` (Vm/Verify.lean) is an untrusted oracle for the soundness proof: `verify` runs `checkAll` on
whatever it returns. This file proves that the second pass never rejects: `infer bc entry = .ok (tm, h)`
implies `checkAll bc tm entry` (`infer_checkAll`), hence `verify` succeeds exactly when `infer` does
(`verify_of_infer`).

The proof is an invariant over the scan (`Inv`): every recorded offset satisfies the local rule of its
instruction (`edges`: the control-flow edges the rule demands) where an edge is *accepted* (`Flow`) when it
is already matched by the recorded state at its target, or is the current fall-through stack, or is still
pending. `infer` succeeds only with no fall-through stack and nothing pending, when `Flow` is `flowsTo`.
-/
namespace Marwood.Vm.Verify
open Marwood.Vm

/-! ## the local rule, as a list of control-flow edges -/

/-- the side conditions of the local rule (`none`: violated) and the edges `(target, stack)` it demands -/
def edges (bc : List VCell) (entry : Bool) (o : Nat) (st : AState) (op : Op) :
    Option (List (Nat × List ACell)) :=
  match op, st with
  | .jmp, .body x =>
    match (bc[o + 1]? : Option VCell) with
    | some (.ptr t) => some [(t, x)]
    | _ => none
  | .jnt, .body x =>
    match (bc[o + 1]? : Option VCell) with
    | some (.ptr t) => some [(t, x), (o + 2, x)]
    | _ => none
  | .mov, .body x => if srcOk bc[o + 1]? && dstOk bc[o + 2]? then some [(o + 3, x)] else none
  | .movImm, .body x => if immOk bc[o + 1]? && dstOk bc[o + 2]? then some [(o + 3, x)] else none
  | .push, .body x => some [(o + 2, .any :: x)]
  | .pushImm, .body x =>
    match (bc[o + 1]? : Option VCell) with
    | some v => some [(o + 2, cellTy v :: x)]
    | none => none
  | .pushAcc, .body x => some [(o + 1, .val :: x)]
  | .halt, .body x => if entry && x.isEmpty && decide (o + 1 = bc.length) then some [] else none
  | .cons, .body (c1 :: c2 :: x) => if c1.isV && c2.isV then some [(o + 1, x)] else none
  | .vpushAcc, .body (_ :: x) => some [(o + 1, x)]
  | .closureAcc, .body x => some [(o + 1, x)]
  | .callAcc, .call a => some [(o + 1, a)]
  | .tcallAcc, .call a => if !entry then some [(o + 1, a)] else none
  | .ret, .body _ => if !entry then some [] else none
  | _, _ => none

/-- the rule holds once every edge is accepted by the assignment -/
theorem checkOp_of_edges {bc : List VCell} {tm : TypeMap} {entry : Bool} {o : Nat} {st : AState} {op : Op}
    {es : List (Nat × List ACell)} (he : edges bc entry o st op = some es)
    (hf : ∀ p ∈ es, flowsTo p.2 (stateAt tm p.1) = true) : checkOp bc tm entry o st op = true := by
  unfold edges at he
  split at he
  all_goals (try (split at he))
  all_goals (first | cases he | skip)
  all_goals simp_all [checkOp]

/-- what `instrEffect` records accepts the incoming stack, and its successors are the edges of the rule -/
theorem instrEffect_edges {bc : List VCell} {entry : Bool} {o : Nat} {x : List ACell} {op : Op} {e : Effect}
    (h : instrEffect bc entry o x op = .ok e) :
    flowsTo x (some e.1) = true ∧
    ∃ es, edges bc entry o e.1 op = some es ∧
      ∀ p ∈ es, (p.1 = o + e.2.1 ∧ e.2.2.1 = some p.2) ∨ p ∈ e.2.2.2.1 := by
  cases op <;> simp only [instrEffect] at h <;> (repeat' split at h) <;> cases h <;>
    simp_all [edges, flowsTo] <;>
    (try (rintro a b (⟨rfl, rfl⟩ | ⟨rfl, rfl⟩) <;> simp))

/-! ## the type map under construction -/

theorem stateAt_append_left {l r : TypeMap} {o : Nat} (h : o < l.length) :
    stateAt (l ++ r) o = stateAt l o := by
  simp [stateAt, List.getElem?_append_left h]

theorem stateAt_append_right (l r : TypeMap) (i : Nat) : stateAt (l ++ r) (l.length + i) = stateAt r i := by
  simp only [stateAt]
  rw [List.getElem?_append_right (by omega), Nat.add_sub_cancel_left]

theorem stateAt_ge {l : TypeMap} {o : Nat} (h : l.length ≤ o) : stateAt l o = none := by
  simp [stateAt, List.getElem?_eq_none h]

theorem stateAt_rec_zero (st : AState) (n : Nat) : stateAt (some st :: List.replicate n none) 0 = some st := by
  simp [stateAt]

theorem stateAt_rec_succ (a : Option AState) (n i : Nat) : stateAt (a :: List.replicate n none) (i + 1) = none := by
  simp only [stateAt, List.getElem?_cons_succ, List.getElem?_replicate]
  split <;> simp_all

theorem reverse_emit (tm : TypeMap) (st : AState) (n : Nat) :
    (List.replicate n none ++ some st :: tm).reverse = tm.reverse ++ some st :: List.replicate n none := by
  simp

/-! ## accepted edges -/

/-- the edge into offset `t` carrying stack `y` is matched by the recorded state at `t`, or is the current
    fall-through stack, or is pending -/
def Flow (s : Scan) (y : List ACell) (t : Nat) : Prop :=
  (t < s.o ∧ flowsTo y (stateAt s.tm.reverse t) = true) ∨ (t = s.o ∧ s.cur = some y) ∨ (t, y) ∈ s.pend

/-- the offset `o`, recorded with state `st`, holds an instruction whose local rule is met by accepted edges -/
def Rec (bc : List VCell) (entry : Bool) (s : Scan) (o : Nat) (st : AState) : Prop :=
  ∃ op es, bc[o]? = some (.opcode op) ∧ bpSrcOk entry bc[o + 1]? = true ∧
    edges bc entry o st op = some es ∧ ∀ p ∈ es, Flow s p.2 p.1

theorem Rec.mono {bc : List VCell} {entry : Bool} {s s' : Scan} {o : Nat} {st : AState}
    (h : Rec bc entry s o st) (hf : ∀ y t, Flow s y t → Flow s' y t) : Rec bc entry s' o st := by
  obtain ⟨op, es, h1, h2, h3, h4⟩ := h
  exact ⟨op, es, h1, h2, h3, fun p hp => hf _ _ (h4 p hp)⟩

theorem incoming_of_cur {s : Scan} {y : List ACell} (h : s.cur = some y) : y ∈ incoming s := by
  simp [incoming, h]

theorem incoming_of_pend {s : Scan} {y : List ACell} (h : (s.o, y) ∈ s.pend) : y ∈ incoming s := by
  simp only [incoming, List.mem_append, List.mem_map, List.mem_filter]
  exact .inr ⟨(s.o, y), ⟨h, by simp⟩, rfl⟩

/-- edges stay accepted across a step -/
theorem flow_step {s s' : Scan} (ho : s.o < s'.o)
    (hold : ∀ t, t < s.o → stateAt s'.tm.reverse t = stateAt s.tm.reverse t)
    (hin : ∀ y ∈ incoming s, flowsTo y (stateAt s'.tm.reverse s.o) = true)
    (hp : ∀ p ∈ s.pend, p.1 ≠ s.o → p ∈ s'.pend) : ∀ y t, Flow s y t → Flow s' y t := by
  intro y t h
  rcases h with ⟨h1, h2⟩ | ⟨h1, h2⟩ | h
  · exact .inl ⟨by omega, by rw [hold t h1]; exact h2⟩
  · subst h1
    exact .inl ⟨ho, hin y (incoming_of_cur h2)⟩
  · by_cases ht : t = s.o
    · subst ht
      exact .inl ⟨ho, hin y (incoming_of_pend h)⟩
    · exact .inr (.inr (hp _ h ht))

/-! ## the invariant -/

/-- `s'` extends `s`: the type map grows, accepted edges stay accepted, every offset recorded in between
    meets its local rule -/
structure Ext (bc : List VCell) (entry : Bool) (s s' : Scan) : Prop where
  le : s.o ≤ s'.o
  len : s'.tm.length = s'.o
  old : ∀ t, t < s.o → stateAt s'.tm.reverse t = stateAt s.tm.reverse t
  flow : ∀ y t, Flow s y t → Flow s' y t
  new : ∀ t, s.o ≤ t → t < s'.o → ∀ st, stateAt s'.tm.reverse t = some st → Rec bc entry s' t st

theorem Ext.refl {bc : List VCell} {entry : Bool} {s : Scan} (hl : s.tm.length = s.o) : Ext bc entry s s :=
  ⟨Nat.le_refl _, hl, fun _ _ => rfl, fun _ _ h => h, fun t h1 h2 => by omega⟩

theorem Ext.trans {bc : List VCell} {entry : Bool} {a b c : Scan} (h1 : Ext bc entry a b)
    (h2 : Ext bc entry b c) : Ext bc entry a c := by
  refine ⟨Nat.le_trans h1.le h2.le, h2.len, ?_, fun y t h => h2.flow y t (h1.flow y t h), ?_⟩
  · intro t ht
    rw [h2.old t (Nat.lt_of_lt_of_le ht h1.le), h1.old t ht]
  · intro t hat htc st hst
    by_cases htb : t < b.o
    · rw [h2.old t htb] at hst
      exact (h1.new t hat htb st hst).mono h2.flow
    · exact h2.new t (by omega) htc st hst

/-- a step that appends `r` to the type map -/
theorem ext_of_append {bc : List VCell} {entry : Bool} {s s' : Scan} {r : TypeMap} (hl : s.tm.length = s.o)
    (htm : s'.tm.reverse = s.tm.reverse ++ r) (ho : s'.o = s.o + r.length) (hr : 0 < r.length)
    (hin : ∀ y ∈ incoming s, flowsTo y (stateAt r 0) = true)
    (hp : ∀ p ∈ s.pend, p.1 ≠ s.o → p ∈ s'.pend)
    (hnew : ∀ i st, stateAt r i = some st → Rec bc entry s' (s.o + i) st) : Ext bc entry s s' := by
  have hTl : s.tm.reverse.length = s.o := by rw [List.length_reverse, hl]
  have hold : ∀ t, t < s.o → stateAt s'.tm.reverse t = stateAt s.tm.reverse t := by
    intro t ht
    rw [htm, stateAt_append_left (by omega)]
  refine ⟨by omega, ?_, hold, ?_, ?_⟩
  · rw [← List.length_reverse, htm, List.length_append, hTl, ho]
  · refine flow_step (by omega) hold ?_ hp
    intro y hy
    have := stateAt_append_right s.tm.reverse r 0
    rw [hTl, Nat.add_zero] at this
    rw [htm, this]
    exact hin y hy
  · intro t h1 _ st hst
    obtain ⟨i, rfl⟩ : ∃ i, t = s.o + i := ⟨t - s.o, by omega⟩
    have := stateAt_append_right s.tm.reverse r i
    rw [hTl] at this
    rw [htm, this] at hst
    exact hnew i st hst

/-- one step of the scan -/
theorem scanOne_ext {bc : List VCell} {entry : Bool} {s s' : Scan} (hl : s.tm.length = s.o)
    (h : scanOne bc entry s = .ok s') : Ext bc entry s s' := by
  rw [scanOne_eq] at h
  unfold scanOne' at h
  split at h
  · rename_i hin
    cases h
    refine ext_of_append (r := [none]) hl (by simp) rfl (by simp) (by simp [hin]) (fun p hp _ => hp) ?_
    intro i st hst
    cases i <;> simp [stateAt] at hst
  · rename_i x others hin
    split at h
    · cases h
    rename_i hall
    split at h
    · rename_i op hop
      split at h
      · cases h
      rename_i hbp
      cases he : instrEffect bc entry s.o x op with
      | error r => rw [he] at h; cases h
      | ok e =>
        rw [he] at h
        cases h
        have hw := instrEffect_width he
        obtain ⟨hfl, es, hes, hsucc⟩ := instrEffect_edges he
        refine ext_of_append (r := some e.1 :: List.replicate (e.2.1 - 1) none) hl ?_ ?_ (by simp) ?_ ?_ ?_
        · rw [applyEffect_tm, reverse_emit]
        · rw [applyEffect_o, List.length_cons, List.length_replicate]; omega
        · intro y hy
          rw [stateAt_rec_zero]
          rw [hin] at hy
          have hyx : y = x := by
            rcases List.mem_cons.1 hy with rfl | hy
            · rfl
            · have hall' : ∀ z ∈ others, z = x := by simpa using hall
              exact hall' y hy
          rw [hyx]; exact hfl
        · intro p hp hne
          rw [applyEffect_pend]
          exact List.mem_append_right _ (List.mem_filter.2 ⟨hp, by simpa using hne⟩)
        · intro i st hst
          cases i with
          | succ i => rw [stateAt_rec_succ] at hst; cases hst
          | zero =>
            rw [stateAt_rec_zero] at hst
            cases hst
            refine ⟨op, es, hop, by simpa using hbp, hes, ?_⟩
            intro p hp
            rcases hsucc p hp with ⟨h1, h2⟩ | h1
            · exact .inr (.inl ⟨by rw [applyEffect_o]; exact h1, by rw [applyEffect_cur]; exact h2⟩)
            · refine .inr (.inr ?_)
              rw [applyEffect_pend]
              exact List.mem_append_left _ h1
    · cases h

theorem scanAll_ext {bc : List VCell} {entry : Bool} : ∀ (fuel : Nat) {s s' : Scan}, s.tm.length = s.o →
    scanAll bc entry fuel s = .ok s' → Ext bc entry s s'
  | 0, s, s', hl, h => by
    simp only [scanAll] at h
    cases h
    exact Ext.refl hl
  | fuel + 1, s, s', hl, h => by
    simp only [scanAll] at h
    split at h
    · cases h
      exact Ext.refl hl
    · split at h
      · rename_i s1 h1
        have e1 := scanOne_ext hl h1
        exact e1.trans (scanAll_ext fuel e1.len h)
      · cases h

/-! ## the end of the scan -/

/-- the shape of a successful forward pass -/
theorem infer_ok {bc : List VCell} {entry : Bool} {tm : TypeMap} {h : Nat} (hi : infer bc entry = .ok (tm, h)) :
    ∃ s0 sf, scanAll bc entry (bc.length + 1) s0 = .ok sf ∧ sf.cur = none ∧ sf.pend = [] ∧
      tm = sf.tm.reverse ∧
      ((entry = true ∧ s0 = ⟨0, some [], [], [], 0⟩) ∨
       (entry = false ∧ bc[0]? = some (.opcode .enter) ∧ s0 = ⟨1, some [], [], [some .pre], 0⟩) ∨
       (entry = false ∧ bc[0]? = some (.opcode .varArg) ∧ bc[1]? = some (.opcode .enter) ∧
          s0 = ⟨2, some [], [], [some .pre, some .pre], 0⟩)) := by
  unfold infer at hi
  simp only [] at hi
  split at hi
  · cases hi
  rename_i s0 hs0
  split at hi
  · cases hi
  rename_i sf hsf
  split at hi
  · cases hi
  · cases hi
  rename_i hc hp
  cases hi
  refine ⟨s0, sf, hsf, hc, hp, rfl, ?_⟩
  cases entry
  · simp only [Bool.false_eq_true, ↓reduceIte] at hs0
    split at hs0
    · rename_i h0
      cases hs0
      exact .inr (.inl ⟨rfl, h0, rfl⟩)
    · rename_i h0 h1
      cases hs0
      exact .inr (.inr ⟨rfl, h0, h1, rfl⟩)
    · cases hs0
  · simp only [↓reduceIte] at hs0
    cases hs0
    exact .inl ⟨rfl, rfl⟩

/-- at the end of a successful scan an accepted edge is matched by the assignment -/
theorem flow_final {s : Scan} (hc : s.cur = none) (hp : s.pend = []) {y : List ACell} {t : Nat}
    (h : Flow s y t) : t < s.o ∧ flowsTo y (stateAt s.tm.reverse t) = true := by
  rcases h with h | ⟨_, h⟩ | h
  · exact h
  · rw [hc] at h; cases h
  · rw [hp] at h; cases h

theorem checkAt_of_rec {bc : List VCell} {entry : Bool} {s : Scan} {o : Nat} {st : AState}
    (hc : s.cur = none) (hp : s.pend = []) (hst : stateAt s.tm.reverse o = some st)
    (h : Rec bc entry s o st) : checkAt bc s.tm.reverse entry o = true := by
  obtain ⟨op, es, h1, h2, h3, h4⟩ := h
  have := checkOp_of_edges (tm := s.tm.reverse) h3 (fun p hp' => (flow_final hc hp (h4 p hp')).2)
  simp [checkAt, hst, h1, h2, this]

theorem flowsTo_nil {st : Option AState} (h : flowsTo [] st = true) : st = some (.body []) := by
  cases st with
  | none => simp [flowsTo] at h
  | some a => cases a <;> simp [flowsTo] at h; rw [h]

/-- the local check of every offset, given the prologue offsets -/
theorem checkAll_of_ext {bc : List VCell} {entry : Bool} {s0 sf : Scan} (hx : Ext bc entry s0 sf)
    (hc : sf.cur = none) (hp : sf.pend = []) (h0 : stateAt sf.tm.reverse 0 = some (initState entry))
    (hpro : ∀ o, o < s0.o → checkAt bc sf.tm.reverse entry o = true) :
    checkAll bc sf.tm.reverse entry = true := by
  simp only [checkAll, h0, decide_true, Bool.true_and, List.all_eq_true, List.mem_range]
  intro o _
  by_cases h1 : o < s0.o
  · exact hpro o h1
  · cases hst : stateAt sf.tm.reverse o with
    | none => simp [checkAt, hst]
    | some st =>
      by_cases h2 : o < sf.o
      · exact checkAt_of_rec hc hp hst (hx.new o (by omega) h2 st hst)
      · rw [stateAt_ge (by rw [List.length_reverse, hx.len]; omega)] at hst
        cases hst

/-- ENTER at offset `k`, the scan starting behind it with the empty stack: its edge ends up accepted, and
    the cell behind it is an opcode -/
theorem enter_ok {bc : List VCell} {s0 sf : Scan} {k : Nat} (hx : Ext bc false s0 sf)
    (hc : sf.cur = none) (hp : sf.pend = []) (hk : s0.o = k + 1) (hcur : s0.cur = some []) :
    bpSrcOk false bc[k + 1]? = true ∧ flowsTo [] (stateAt sf.tm.reverse (k + 1)) = true := by
  have hf : Flow s0 [] (k + 1) := .inr (.inl ⟨hk.symm, hcur⟩)
  obtain ⟨hlt, hfl⟩ := flow_final hc hp (hx.flow _ _ hf)
  refine ⟨?_, hfl⟩
  obtain ⟨op, es, h1, _⟩ := hx.new (k + 1) (by omega) hlt _ (flowsTo_nil hfl)
  rw [h1]; rfl

/-- the forward pass only ever returns assignments that pass the local check -/
theorem infer_checkAll {bc : List VCell} {entry : Bool} {tm : TypeMap} {h : Nat}
    (hi : infer bc entry = .ok (tm, h)) : checkAll bc tm entry = true := by
  obtain ⟨s0, sf, hsf, hc, hp, rfl, hstart⟩ := infer_ok hi
  rcases hstart with ⟨rfl, rfl⟩ | ⟨rfl, hb0, rfl⟩ | ⟨rfl, hb0, hb1, rfl⟩
  · have hx := scanAll_ext _ rfl hsf
    refine checkAll_of_ext hx hc hp ?_ ?_
    · exact flowsTo_nil (flow_final hc hp (hx.flow [] 0 (.inr (.inl ⟨rfl, rfl⟩)))).2
    · intro o ho; cases ho
  · have hx := scanAll_ext _ rfl hsf
    have h0 : stateAt sf.tm.reverse 0 = some .pre := by rw [hx.old 0 (by decide)]; rfl
    obtain ⟨hb, hfl⟩ := enter_ok (k := 0) hx hc hp rfl rfl
    refine checkAll_of_ext hx hc hp h0 ?_
    intro o ho
    have : o = 0 := by change o < 1 at ho; omega
    subst this
    simp [checkAt, h0, hb0, checkOp, hb, hfl]
  · have hx := scanAll_ext _ rfl hsf
    have h0 : stateAt sf.tm.reverse 0 = some .pre := by rw [hx.old 0 (by decide)]; rfl
    have h1 : stateAt sf.tm.reverse 1 = some .pre := by rw [hx.old 1 (by decide)]; rfl
    obtain ⟨hb, hfl⟩ := enter_ok (k := 1) hx hc hp rfl rfl
    refine checkAll_of_ext hx hc hp h0 ?_
    intro o ho
    have : o = 0 ∨ o = 1 := by change o < 2 at ho; omega
    rcases this with rfl | rfl
    · simp [checkAt, h0, hb0, hb1, checkOp, h1, bpSrcOk]
    · simp [checkAt, h1, hb1, checkOp, hb, hfl]

/-- hence the verifier accepts exactly when the forward pass succeeds -/
theorem verify_of_infer {bc : List VCell} {tm : TypeMap} {h : Nat}
    (hi : infer bc (isEntryCode bc) = .ok (tm, h)) : verify bc = .ok (⟨isEntryCode bc, bc, tm⟩, h) := by
  simp [verify, hi, infer_checkAll hi]

end Marwood.Vm.Verify
