import Marwood.Lemmas.GoodMain
import Marwood.Lemmas.PolicyPlain
import Marwood.Lemmas.PolicyWF
import Marwood.Lemmas.StackWFLaws
/-!
# C12 at machine level: the per-snapshot hypotheses of T12.1 are consequences of the invariant `GoodI`

`Proofs/C12.lean` proves "allocated after `run_gc` ⇔ live" for the collector model under `plainHeap`,
`plainRoots`, and the size facts of `WFHeap`. For the erasure of a state of the concrete machine:

* every inline value is plain (`plainV_eraseV`: the erasure of a flat machine value is never an inline
  environment / vector / lambda / continuation), hence so are stacks, environment slots, vector elements, saved
  stacks of continuations, formals and environment-map symbols of code objects;
* a heap cell holding a flat value is plain by `Plain.cells` (no bare `LexicalEnvPtr` / `InstructionPointer`);
* a global slot is a pointer or address-free by `Plain.globals`;
* what is **not** part of `GoodI` is the decoding discipline of bytecode (`CodePlain`: an operand cell is never
  an opcode). Code objects are immutable and are produced only by the unmodelled compiler (`ExtOps.compileEval`,
  `prepare_eval`); it is kept as the one named hypothesis, checked per snapshot by the `policy-collect` stream.

  `codePlain_reaches` shows that it is an invariant too: no core instruction and no collection creates or changes
  a code object, so it holds in every reachable state if it holds initially and the unmodelled operations keep it
  (`ExtCodePlain`).

`step_rel` (first section, generic in the heap type): if a reflexive transitive relation on heaps is respected by every
state-changing field of `HeapOps`, it is respected by one instruction of `run_one`.

Also `forced_gc_collects`: on a well-formed heap a forced `run_gc` always collects (no panic, no fuel exhaustion).
-/

namespace Marwood.Vm
variable {H : Type} {ops : HeapOps H} {R : H → H → Prop}

structure OpsRel (ops : HeapOps H) (R : H → H → Prop) : Prop where
  refl : ∀ h, R h h
  trans : ∀ {a b c}, R a b → R b c → R a c
  put : ∀ h v, R h (ops.put h v).1
  maybePut : ∀ h v, R h (ops.maybePut h v).1
  setAt : ∀ h p v, R h (ops.setAt h p v)
  newCont : ∀ h c, R h (ops.newCont h c).1
  globPut : ∀ h n v, R h (ops.globPut h n v)
  envPut : ∀ {h e k v h'}, ops.envPut h e k v = some h' → R h h'
  makeClosure : ∀ {h lam ep bp st h' c}, ops.makeClosure h lam ep bp st = .ok (h', c) → R h h'
  makeActivation : ∀ {h lam env bp st h' e}, ops.makeActivation h lam env bp st = .ok (h', e) → R h h'
  vectorPush : ∀ {h vec v h'}, ops.vectorPush h vec v = .ok h' → R h h'
  builtinEval : ∀ {h id args h' v}, ops.builtinEval h id args = .ok (h', v) → R h h'
  compileEval : ∀ {h v h' lam}, ops.compileEval h v = .ok (h', lam) → R h h'

theorem OpsRel.put' (o : OpsRel ops R) {h h' : H} {v r : VCell} (e : ops.put h v = (h', r)) : R h h' := by
  have := o.put h v; rw [e] at this; exact this

theorem OpsRel.maybePut' (o : OpsRel ops R) {h h' : H} {v r : VCell} (e : ops.maybePut h v = (h', r)) : R h h' := by
  have := o.maybePut h v; rw [e] at this; exact this

theorem OpsRel.newCont' (o : OpsRel ops R) {h h' : H} {c : Cont} {r : VCell} (e : ops.newCont h c = (h', r)) :
    R h h' := by
  have := o.newCont h c; rw [e] at this; exact this

theorem storeOperand_rel (o : OpsRel ops R) {s s1 : St H} {v : VCell} (h : storeOperand ops s v = .ok s1) :
    R s.heap s1.heap := by
  unfold storeOperand at h
  obtain ⟨⟨opnd, s2⟩, hr, h⟩ := bind_inv h
  have e := (readOperand_ok hr).2
  subst e
  simp only at h
  split at h
  · cases h; exact o.refl _
  · cases h; exact o.setAt _ _ _
  · obtain ⟨st, _, h⟩ := bind_inv h; cases h; exact o.refl _
  · cases h; exact o.globPut _ _ _
  · split at h
    · cases h
    · split at h
      · cases h
      · cases h; exact o.envPut ‹_›
    · split at h
      · cases h
      · cases h; exact o.envPut ‹_›
  · cases h

theorem restoreCont_heap {s s' : St H} {c : Cont} (h : restoreCont s c = .ok s') : s'.heap = s.heap := by
  unfold restoreCont at h
  obtain ⟨st, _, h⟩ := bind_inv h
  cases h; rfl

theorem invokeCont_heap {s s' : St H} {c : Cont} (h : invokeCont s c = .ok s') : s'.heap = s.heap := by
  unfold invokeCont at h
  obtain ⟨⟨a, st⟩, _, h⟩ := bind_inv h
  obtain ⟨n, _, h⟩ := bind_inv h
  simp only at h
  split at h
  · cases h
  · obtain ⟨⟨r, st2⟩, _, h⟩ := bind_inv h
    obtain ⟨s2, hr, h⟩ := bind_inv h
    cases h
    have e := restoreCont_heap hr
    exact e

theorem builtinApply_heap {s s' : St H} {v : VCell} (h : builtinApply ops s = .ok (s', v)) : s'.heap = s.heap := by
  unfold builtinApply at h
  simp only [Bind.bind] at h
  repeat' split at h
  all_goals first | (cases h; done) | skip
  all_goals (cases h; rfl)

theorem builtinCallcc_rel (o : OpsRel ops R) {s s' : St H} {v : VCell} (h : builtinCallcc ops s = .ok (s', v)) :
    R s.heap s'.heap := by
  unfold builtinCallcc at h
  simp only [Bind.bind] at h
  repeat' split at h
  all_goals first | (cases h; done) | skip
  all_goals (cases h; exact o.newCont _ _)

theorem builtinEvalProc_rel (o : OpsRel ops R) {s s' : St H} {v : VCell} (h : builtinEvalProc ops s = .ok (s', v)) :
    R s.heap s'.heap := by
  unfold builtinEvalProc at h
  simp only [Bind.bind] at h
  repeat' split at h
  all_goals first | (cases h; done) | skip
  all_goals (cases h; exact o.compileEval ‹_›)

theorem builtinGeneric_rel (o : OpsRel ops R) {id : Nat} {s s' : St H} {v : VCell}
    (h : builtinGeneric ops id s = .ok (s', v)) : R s.heap s'.heap := by
  unfold builtinGeneric at h
  simp only [Bind.bind] at h
  repeat' split at h
  all_goals first | (cases h; done) | skip
  all_goals (cases h; exact o.builtinEval ‹_›)

/-- the tail of `runBuiltin`: what is done with the value a builtin returns -/
def builtinTailG (ops : HeapOps H) (s : St H) (v : VCell) : Outcome (St H) :=
  match v with
  | .ptr p => .ok { s with acc := .ptr p }
  | v => let (h, r) := ops.maybePut s.heap v; .ok { s with heap := h, acc := r }

theorem runBuiltin_eqG (ops : HeapOps H) (id : Nat) (s : St H) :
    runBuiltin ops id s =
      (match ops.builtinKind s.heap id with
        | .apply => builtinApply ops s
        | .callcc => builtinCallcc ops s
        | .eval => builtinEvalProc ops s
        | .generic => builtinGeneric ops id s) >>= fun p => builtinTailG ops p.1 p.2 := by
  unfold runBuiltin builtinTailG
  cases ops.builtinKind s.heap id <;> rfl

theorem runBuiltin_rel (o : OpsRel ops R) {id : Nat} {s s' : St H} (h : runBuiltin ops id s = .ok s') :
    R s.heap s'.heap := by
  rw [runBuiltin_eqG] at h
  obtain ⟨⟨s1, v⟩, h1, h⟩ := bind_inv h
  have r1 : R s.heap s1.heap := by
    split at h1
    · rw [builtinApply_heap h1]; exact o.refl _
    · exact builtinCallcc_rel o h1
    · exact builtinEvalProc_rel o h1
    · exact builtinGeneric_rel o h1
  simp only [builtinTailG] at h
  split at h
  · cases h; exact r1
  · cases h
    exact o.trans r1 (o.maybePut _ _)

theorem stepCall_rel (o : OpsRel ops R) {s s' : St H} (h : stepCall ops s = .ok s') : R s.heap s'.heap := by
  unfold stepCall at h
  split at h
  · exact runBuiltin_rel o h
  · rw [invokeCont_heap h]; exact o.refl _
  · cases h
  · cases h; exact o.refl _
  · obtain ⟨lam, _, h⟩ := bind_inv h
    cases h; exact o.refl _

theorem stepTCall_rel (o : OpsRel ops R) {s s' : St H} (h : stepTCall ops s = .ok s') : R s.heap s'.heap := by
  unfold stepTCall at h
  split at h
  · exact runBuiltin_rel o h
  · rw [invokeCont_heap h]; exact o.refl _
  · cases h
  · simp only [Bind.bind] at h
    repeat' split at h
    all_goals first | (cases h; done) | skip
    all_goals (cases h; exact o.refl _)

theorem stepEnter_rel (o : OpsRel ops R) {s s' : St H} (h : stepEnter ops s = .ok s') : R s.heap s'.heap := by
  unfold stepEnter at h
  simp only [Bind.bind] at h
  repeat' split at h
  all_goals first | (cases h; done) | skip
  · cases h; exact o.makeActivation ‹_›
  · cases h; exact o.refl _

theorem varargCollect_rel (o : OpsRel ops R) : ∀ (k : Nat) {h h' : H} {acc l : Nat} {st st' : Stack},
    varargCollect ops k h acc st = .ok (h', l, st') → R h h'
  | 0, h, h', acc, l, st, st', e => by
    simp only [varargCollect] at e
    cases e
    exact o.refl _
  | k+1, h, h', acc, l, st, st', e => by
    simp only [varargCollect, Bind.bind] at e
    repeat' split at e
    all_goals first | (cases e; done) | skip
    exact o.trans (o.trans (o.put _ _) (o.put _ _)) (varargCollect_rel o k e)

theorem stepVarArg_rel (o : OpsRel ops R) {s s' : St H} (h : stepVarArg ops s = .ok s') : R s.heap s'.heap := by
  unfold stepVarArg at h
  simp only [Bind.bind] at h
  repeat' split at h
  all_goals first | (cases h; done) | skip
  · cases h
    exact o.trans (o.trans (o.put _ _) (o.put _ _)) (o.put _ _)
  · cases h
    exact o.trans (o.put _ _) (varargCollect_rel o _ ‹_›)

/-- **one instruction respects every relation the heap operations respect** -/
theorem step_rel (o : OpsRel ops R) {s s' : St H} {b : Bool} (h : step ops s = .ok (s', b)) : R s.heap s'.heap := by
  unfold step at h
  obtain ⟨⟨op, s1⟩, hro, h⟩ := bind_inv h
  have e := (readOpcode_ok hro).2
  subst e
  cases op <;> simp only at h
  case cons =>
    simp only [Bind.bind] at h
    repeat' split at h
    all_goals first | (cases h; done) | skip
    all_goals (cases h; exact o.trans (o.trans (o.put _ _) (o.put _ _)) (o.put _ _))
  case jmp =>
    obtain ⟨⟨v, s2⟩, hr, h⟩ := bind_inv h
    have e := (readOperand_ok hr).2; subst e
    obtain ⟨_, _, h⟩ := bind_inv h
    cases h; exact o.refl _
  case jnt =>
    obtain ⟨⟨v, s2⟩, hr, h⟩ := bind_inv h
    have e := (readOperand_ok hr).2; subst e
    obtain ⟨_, _, h⟩ := bind_inv h
    simp only at h
    split at h <;> (cases h; exact o.refl _)
  case mov =>
    obtain ⟨⟨v, s2⟩, hl, h⟩ := bind_inv h
    have e := loadOperand_ok hl; subst e
    obtain ⟨s3, hs, h⟩ := bind_inv h
    cases h
    have r := storeOperand_rel o hs
    exact r
  case movImm =>
    obtain ⟨⟨v, s2⟩, hr, h⟩ := bind_inv h
    have e := (readOperand_ok hr).2; subst e
    obtain ⟨s3, hs, h⟩ := bind_inv h
    cases h
    have r := storeOperand_rel o hs
    exact r
  case push =>
    obtain ⟨⟨v, s2⟩, hl, h⟩ := bind_inv h
    have e := loadOperand_ok hl; subst e
    cases h; exact o.refl _
  case pushAcc => cases h; exact o.refl _
  case pushImm =>
    obtain ⟨⟨v, s2⟩, hr, h⟩ := bind_inv h
    have e := (readOperand_ok hr).2; subst e
    cases h; exact o.refl _
  case halt => cases h; exact o.refl _
  case vpushAcc =>
    simp only [Bind.bind] at h
    repeat' split at h
    all_goals first | (cases h; done) | skip
    all_goals (cases h; exact o.vectorPush ‹_›)
  case callAcc =>
    obtain ⟨s2, hc, h⟩ := bind_inv h
    cases h
    have r := stepCall_rel o hc
    exact r
  case closureAcc =>
    simp only [Bind.bind] at h
    repeat' split at h
    all_goals first | (cases h; done) | skip
    all_goals (cases h; exact o.makeClosure ‹_›)
  case enter =>
    obtain ⟨s2, hc, h⟩ := bind_inv h
    cases h
    have r := stepEnter_rel o hc
    exact r
  case ret =>
    obtain ⟨s2, hc, h⟩ := bind_inv h
    cases h
    obtain ⟨n, ep, l, o', bp', _, _, _, _, _, e⟩ := stepRet_ok hc
    rw [e]; exact o.refl _
  case tcallAcc =>
    obtain ⟨s2, hc, h⟩ := bind_inv h
    cases h
    have r := stepTCall_rel o hc
    exact r
  case varArg =>
    obtain ⟨s2, hc, h⟩ := bind_inv h
    cases h
    have r := stepVarArg_rel o hc
    exact r

end Marwood.Vm

namespace Marwood.Lemmas.MachineGarbage
open Marwood Marwood.Vm Marwood.Vm.Concrete Marwood.Lemmas.Sim Marwood.Lemmas.Good
open Marwood.Heap (GcState WFHeap RootsOk vrefs vrefsList crefs Roots)
open Marwood.Spec
open Marwood.Lemmas.GcSafety Marwood.Lemmas.HeapWF Marwood.Lemmas.HeapOps Marwood.Lemmas.PolicyWF

theorem plainV_eraseV (v : VCell) : plainV (eraseV v) = true := by
  cases v with
  | «opaque» tag => simp only [eraseV]; split <;> simp [plainV]
  | _ => simp [eraseV, plainV]

theorem plainVs_eraseV (l : List VCell) : plainVs (l.map eraseV) = true := by
  induction l with
  | nil => simp [plainVs]
  | cons v vs ih => simp [plainVs, plainV_eraseV, ih]

/-- the decoding discipline of code objects: an operand cell is never an opcode -/
def CodePlain (h : CHeap) : Prop :=
  ∀ (i : Nat) (l : CLambda), h.cells[i]? = some (CCell.lambda l) → plainBc 0 (l.bc.map eraseV) = true

theorem plainC_eraseV {v : VCell} (hp : plainVal v = true) : plainC (eraseV v) = true := by
  cases v with
  | «opaque» tag => simp only [eraseV]; split <;> simp [plainC, plainV]
  | lexEnvPtr _ _ | instrPtr _ _ => simp [plainVal] at hp
  | _ => simp [eraseV, plainC, plainV]

theorem plainC_eraseC {h : CHeap} (pl : Plain h) (cp : CodePlain h) {i : Nat} {c : CCell}
    (hc : h.cells[i]? = some c) : plainC (eraseC c) = true := by
  cases c with
  | val v => exact plainC_eraseV (pl.cells i v hc)
  | lexEnv ss => simp [eraseC, plainC, plainVs_eraseV]
  | vector es => simp [eraseC, plainC, plainV, plainVs_eraseV]
  | lambda l =>
    have h1 := cp i l hc
    have h2 := plainVs_eraseV l.args
    have h3 : plainVs (l.envmap.map fun p => eraseV p.1) = true := by
      have := plainVs_eraseV (l.envmap.map (·.1))
      rw [List.map_map] at this
      exact this
    simp [eraseC, plainC, plainV, h1, h2, h3]
  | cont k => simp [eraseC, plainC, plainV, plainVs_eraseV]

/-- `plainHeap` of the erasure follows from the invariant's `Plain` and the code clause -/
theorem plainHeap_toHeap {h : CHeap} (pl : Plain h) (cp : CodePlain h) : plainHeap (toHeap h) = true := by
  unfold plainHeap
  rw [List.all_eq_true]
  intro c hc
  have hm : c ∈ (toHeap h).cells := Array.mem_toList_iff.mp hc
  simp only [toHeap, Array.mem_map] at hm
  obtain ⟨c0, hc0, rfl⟩ := hm
  obtain ⟨i, hi, rfl⟩ := Array.mem_iff_getElem.mp hc0
  exact plainC_eraseC pl cp (i := i) (by simp [hi])

theorem srefs_addrFree {v : VCell} (hf : addrFree v = true) : srefs (eraseV v) = [] := by
  cases v with
  | «opaque» tag => simp only [eraseV]; split <;> simp [srefs]
  | pair _ _ | closure _ _ | lexEnvPtr _ _ | envPtr _ | instrPtr _ _ | ptr _ => simp [addrFree] at hf
  | _ => simp [eraseV, srefs]

theorem plainSlot_eraseV {v : VCell} (hp : plainGlob v = true) : plainSlot (eraseV v) = true := by
  rcases plainGlob_cases hp with ⟨a, rfl⟩ | hf
  · simp [eraseV, plainSlot]
  · have h0 := srefs_addrFree hf
    unfold plainSlot
    split
    · rfl
    · simp [h0]

/-- `plainRoots` of the machine's roots follows from `Plain` -/
theorem plainRoots_rootsOf {s : St CHeap} (pl : Plain s.heap) : plainRoots (rootsOf s) = true := by
  simp only [plainRoots, rootsOf, Bool.and_eq_true, plainVs_eraseV, plainV_eraseV, and_true]
  rw [List.all_eq_true]
  intro c hc
  obtain ⟨v, hv, rfl⟩ := List.mem_map.mp hc
  exact plainSlot_eraseV (pl.globals v hv)


/-! ## the decoding discipline is an invariant of the concrete machine -/

/-- every code object of `h'` is a code object of `h`, at the same address -/
def LamSub (h h' : CHeap) : Prop :=
  ∀ (i : Nat) (l : CLambda), h'.cells[i]? = some (CCell.lambda l) → h.cells[i]? = some (CCell.lambda l)

theorem LamSub.refl (h : CHeap) : LamSub h h := fun _ _ x => x

theorem LamSub.trans {a b c : CHeap} (x : LamSub a b) (y : LamSub b c) : LamSub a c :=
  fun i l hc => x i l (y i l hc)

theorem LamSub.of_cells {h h' : CHeap} (e : h'.cells = h.cells) : LamSub h h' := by
  intro i l hc; rw [e] at hc; exact hc

theorem LamSub.codePlain {h h' : CHeap} (x : LamSub h h') (cp : CodePlain h) : CodePlain h' :=
  fun i l hc => cp i l (x i l hc)

theorem cgrow_lamSub (h : CHeap) : LamSub h (cgrow h) := by
  intro i l hc
  simp only [cgrow] at hc
  by_cases hi : i < h.cells.size
  · rw [Array.getElem?_append_left hi] at hc; exact hc
  · rw [Array.getElem?_append_right (by omega)] at hc
    rw [Array.getElem?_replicate] at hc
    split at hc <;> cases hc

theorem calloc_lamSub (h : CHeap) : LamSub h (calloc h).1 := by
  unfold calloc
  split
  · exact .of_cells rfl
  · simp only
    split
    · exact (cgrow_lamSub h).trans (.of_cells rfl)
    · exact cgrow_lamSub h

theorem cwrite_lamSub (h : CHeap) (p : Nat) {c : CCell} (hc : ∀ l, c ≠ CCell.lambda l) : LamSub h (cwrite h p c) := by
  intro i l hl
  rw [cwrite_get] at hl
  split at hl
  · cases hl; exact absurd rfl (hc l)
  · exact hl

theorem cput_lamSub (h : CHeap) {c : CCell} (hc : ∀ l, c ≠ CCell.lambda l) : LamSub h (cput h c).1 := by
  unfold cput
  exact (calloc_lamSub h).trans (cwrite_lamSub _ _ hc)

theorem putNew_lamSub (h : CHeap) (v : VCell) : LamSub h (putNew h v).1 := by
  unfold putNew
  split
  · split
    · exact .refl h
    · exact (cput_lamSub h (c := .val v) (by intro l e; cases e)).trans (.of_cells rfl)
  · exact cput_lamSub h (c := .val v) (by intro l e; cases e)

theorem putV_lamSub (h : CHeap) (v : VCell) : LamSub h (putV h v).1 := by
  unfold putV; split
  · exact .refl h
  · exact putNew_lamSub h v

theorem maybePutV_lamSub (h : CHeap) (v : VCell) : LamSub h (maybePutV h v).1 := by
  unfold maybePutV; split
  · exact .refl h
  · exact putNew_lamSub h v

theorem envPut_lamSub {h h' : CHeap} {e k : Nat} {v : VCell} (hp : envPut h e k v = some h') : LamSub h h' := by
  unfold envPut at hp
  split at hp
  · split at hp
    · cases hp; exact cwrite_lamSub _ _ (by intro l e; cases e)
    · cases hp
  · cases hp

theorem makeClosure_lamSub {h h' : CHeap} {lam ep bp : Nat} {st : Stack} {c : VCell}
    (hm : makeClosure h lam ep bp st = .ok (h', c)) : LamSub h h' := by
  unfold makeClosure at hm
  split at hm
  · cases hm
  · obtain ⟨slots, _, hm⟩ := Marwood.Vm.bind_inv hm
    cases hm
    exact (cput_lamSub h (c := .lexEnv slots) (by intro l e; cases e)).trans
      (cput_lamSub _ (by intro l e; cases e))

theorem makeActivation_lamSub {h h' : CHeap} {lam env bp : Nat} {st : Stack} {e : Nat}
    (hm : makeActivation h lam env bp st = .ok (h', e)) : LamSub h h' := by
  unfold makeActivation at hm
  split at hm
  · cases hm
  · split at hm
    · cases hm
    · obtain ⟨slots, _, hm⟩ := Marwood.Vm.bind_inv hm
      cases hm
      exact cput_lamSub h (c := .lexEnv slots) (by intro l e; cases e)

/-- the law of the unmodelled operations for the decoding discipline: the generic builtins, `eval`'s compiler
    and VPUSH leave heaps whose code objects decode by arity that way (builtins never build code; the
    compiler's output is what the `policy-collect` stream checks `plainHeap` on) -/
structure ExtCodePlain (ext : ExtOps) : Prop where
  builtinEval : ∀ {h : CHeap} {id : Nat} {args : List VCell} {h' : CHeap} {v : VCell}, CodePlain h →
    ext.builtinEval h id args = .ok (h', v) → CodePlain h'
  compileEval : ∀ {h : CHeap} {v : VCell} {h' : CHeap} {lam : VCell}, CodePlain h →
    ext.compileEval h v = .ok (h', lam) → CodePlain h'
  vectorPush : ∀ {h : CHeap} {vec v : VCell} {h' : CHeap}, CodePlain h →
    ext.vectorPush h vec v = .ok h' → CodePlain h'

/-- every heap operation of `run_one` over the concrete heap keeps the decoding discipline -/
theorem concrete_opsRel {ext : ExtOps} (ecp : ExtCodePlain ext) :
    OpsRel (concreteOps ext) (fun h h' => CodePlain h → CodePlain h') where
  refl _ x := x
  trans x y z := y (x z)
  put h v := (putV_lamSub h v).codePlain
  maybePut h v := (maybePutV_lamSub h v).codePlain
  setAt h p v := (cwrite_lamSub h p (c := .val v) (by intro l e; cases e)).codePlain
  newCont h c := (cput_lamSub h (c := .cont c) (by intro l e; cases e)).codePlain
  globPut h n v := (LamSub.of_cells (h := h) (h' := { h with globals := h.globals.setIfInBounds n v }) rfl).codePlain
  envPut hp := (envPut_lamSub hp).codePlain
  makeClosure hm := (makeClosure_lamSub hm).codePlain
  makeActivation hm := (makeActivation_lamSub hm).codePlain
  vectorPush hv cp := ecp.vectorPush cp hv
  builtinEval hb cp := ecp.builtinEval cp hb
  compileEval hc cp := ecp.compileEval cp hc

/-- one instruction keeps the decoding discipline -/
theorem codePlain_step {ext : ExtOps} (ecp : ExtCodePlain ext) {s s' : St CHeap} {b : Bool}
    (cp : CodePlain s.heap) (hs : step (concreteOps ext) s = .ok (s', b)) : CodePlain s'.heap :=
  step_rel (concrete_opsRel ecp) hs cp

/-- a collection keeps it: a cell of the returned heap is `Undefined` or the old cell -/
theorem codePlain_gc (force : Bool) {s : St CHeap} (cp : CodePlain s.heap) : CodePlain (cgc force s).heap := by
  unfold cgc
  split
  · rename_i h' _
    intro i l hc
    refine cp i l ?_
    simp only at hc
    rw [liftGc_cells_get] at hc
    split at hc
    · simp only [Option.some.injEq] at hc
      split at hc
      · cases hc
      · cases hci : s.heap.cells[i]? with
        | none => rw [hci] at hc; cases hc
        | some c0 => rw [hci] at hc; simp only [Option.getD_some] at hc; rw [hc]
    · cases hc
  · exact cp

/-- **the decoding discipline holds in every reachable state** -/
theorem codePlain_reaches {ext : ExtOps} (force : Bool) (ecp : ExtCodePlain ext) {s0 : St CHeap}
    (cp0 : CodePlain s0.heap) : ∀ s', Reaches (machine ext force) s0 s' → CodePlain s'.heap := by
  intro s' hr
  induction hr with
  | refl => exact cp0
  | @next s1 s2 _ e ih =>
    have e' : vmStep (concreteOps ext) s1 = .next s2 := e
    unfold vmStep at e'
    cases hst : step (concreteOps ext) s1 with
    | ok r =>
      obtain ⟨s3, b⟩ := r
      rw [hst] at e'
      cases b <;> simp only at e'
      · cases e'; exact codePlain_step ecp ih hst
      · cases e'
    | err x => rw [hst] at e'; cases e'
    | panic x => rw [hst] at e'; cases e'
  | @halt s1 s2 _ e ih =>
    have e' : vmStep (concreteOps ext) s1 = .halt s2 := e
    unfold vmStep at e'
    cases hst : step (concreteOps ext) s1 with
    | ok r =>
      obtain ⟨s3, b⟩ := r
      rw [hst] at e'
      cases b <;> simp only at e'
      · cases e'
      · cases e'; exact codePlain_step ecp ih hst
    | err x => rw [hst] at e'; cases e'
    | panic x => rw [hst] at e'; cases e'
  | gc _ ih => exact codePlain_gc force ih

/-! ## a forced collection always collects -/

theorem usedSize_ok {fixed : Bool} {h : Heap.Heap} (wf : Heap.WFCore fixed h) :
    h.usedSize = .ok (h.capacity - h.freeSize) := by
  unfold Heap.Heap.usedSize
  rw [if_pos]
  exact wf_free_length_le fixed h wf

/-- on a well-formed heap whose roots are allocated, `run_gc` with the forcing hook always ends in `collected` -/
theorem forced_gc_collects (h : Heap.Heap) (r : Roots) (wf : WFHeap true h) (hr : RootsOk h (r.refs true)) :
    ∃ h', Heap.Heap.runGc true true h r = .ok (.collected h') := by
  obtain ⟨h1, h2, hm, hsw, cs⟩ := collect_spec true h (r.refs true) wf.sizes wf.no_used
  have wf2 := collect_wf true h (r.refs true) h2 wf hr cs
  obtain ⟨h3, hg, _, _⟩ := grow_spec h2 wf2.sizes wf2.shape
  unfold Heap.Heap.runGc
  simp only [usedSize_ok wf.toWFCore, bind, Except.bind, hm, hsw, usedSize_ok wf2.toWFCore, hg,
    Bool.not_true, Bool.false_and, Bool.false_eq_true, if_false]
  split
  · exact ⟨_, rfl⟩
  · exact ⟨_, rfl⟩

end Marwood.Lemmas.MachineGarbage
