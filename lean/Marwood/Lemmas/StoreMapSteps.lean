import Marwood.Lemmas.StoreMapDefs
/-!
# The pieces of `map-all` / `for-each-all`: `heap.put`, `cons`, the `VARARG` list, `any? null?`,
`(map1 car xss)`, `(map1 cdr xss)`, `(apply f args)`
-/
namespace Marwood.Store
open Outcome

/-! ## `heap.put`, `cons`, `list` with freshness -/

theorem put_boxed (s : Store) (v : VCell) :
    ∃ w, (s.put v).2 = .ptr w ∧ Extends s (s.put v).1 ∧ Boxed s.cells.length (s.put v).1 w v := by
  cases v with
  | ptr a => exact ⟨a, rfl, Extends.refl s, Or.inl rfl⟩
  | sym name =>
    simp only [Store.put]
    cases hf : s.findSym name with
    | some a =>
      exact ⟨a, rfl, Extends.refl s, Or.inr ⟨rfl, findSym_some hf, fun h => by cases h⟩⟩
    | none =>
      exact ⟨s.cells.length, rfl, alloc_extends s _, Or.inr ⟨rfl, alloc_cell s _, fun _ => Nat.le_refl _⟩⟩
  | bool b => exact ⟨s.cells.length, rfl, alloc_extends s _, Or.inr ⟨rfl, alloc_cell s _, fun _ => Nat.le_refl _⟩⟩
  | char b => exact ⟨s.cells.length, rfl, alloc_extends s _, Or.inr ⟨rfl, alloc_cell s _, fun _ => Nat.le_refl _⟩⟩
  | nil => exact ⟨s.cells.length, rfl, alloc_extends s _, Or.inr ⟨rfl, alloc_cell s _, fun _ => Nat.le_refl _⟩⟩
  | num b => exact ⟨s.cells.length, rfl, alloc_extends s _, Or.inr ⟨rfl, alloc_cell s _, fun _ => Nat.le_refl _⟩⟩
  | void => exact ⟨s.cells.length, rfl, alloc_extends s _, Or.inr ⟨rfl, alloc_cell s _, fun _ => Nat.le_refl _⟩⟩
  | undef => exact ⟨s.cells.length, rfl, alloc_extends s _, Or.inr ⟨rfl, alloc_cell s _, fun _ => Nat.le_refl _⟩⟩
  | pair a d => exact ⟨s.cells.length, rfl, alloc_extends s _, Or.inr ⟨rfl, alloc_cell s _, fun _ => Nat.le_refl _⟩⟩
  | str b => exact ⟨s.cells.length, rfl, alloc_extends s _, Or.inr ⟨rfl, alloc_cell s _, fun _ => Nat.le_refl _⟩⟩
  | vec b => exact ⟨s.cells.length, rfl, alloc_extends s _, Or.inr ⟨rfl, alloc_cell s _, fun _ => Nat.le_refl _⟩⟩
  | builtin b => exact ⟨s.cells.length, rfl, alloc_extends s _, Or.inr ⟨rfl, alloc_cell s _, fun _ => Nat.le_refl _⟩⟩

/-- `(cons a d)`: one new pair cell whose car / cdr references are what `heap.put` answered -/
theorem cons_boxed (s : Store) (a d : VCell) :
    ∃ s' p pa pd, cons s [a, d] = .ok (s', .ptr p) ∧ s'.cells[p]? = some (.pair pa pd) ∧
      Boxed s.cells.length s' pa a ∧ Boxed s.cells.length s' pd d ∧ Extends s s' ∧
      s.cells.length ≤ p := by
  obtain ⟨wd, hd1, hd2, hd3⟩ := put_boxed s d
  rcases hpd : s.put d with ⟨s1, dv⟩
  rw [hpd] at hd1 hd2 hd3
  simp only at hd1 hd2 hd3
  obtain ⟨wa, ha1, ha2, ha3⟩ := put_boxed s1 a
  rcases hpa : s1.put a with ⟨s2, av⟩
  rw [hpa] at ha1 ha2 ha3
  simp only at ha1 ha2 ha3
  subst hd1 ha1
  refine ⟨(s2.alloc (.pair wa wd)).1, s2.cells.length, wa, wd, ?_, alloc_cell s2 _,
    ha3.mono (alloc_extends s2 _) hd2.len,
    hd3.mono (ha2.trans (alloc_extends s2 _)) (Nat.le_refl _),
    (hd2.trans ha2).trans (alloc_extends s2 _), Nat.le_trans hd2.len ha2.len⟩
  simp only [cons, consRaw, hpd, hpa, VCell.asPtr_ptr, bind_ok]
  rfl

/-- a boxed list value is a heap-resident spine -/
theorem Boxed.spineOff {M : Nat → Prop} {n0 : Nat} (hM : ∀ i, M i → i < n0) {s s' : Store}
    {w : Nat} {v c : VCell} {as : List Nat} (hb : Boxed n0 s' w v) (he : Extends s s')
    (h : SpineOff M s v as c) : SpineOff M s' (.ptr w) as c := by
  rcases hb with hb | ⟨h1, h2, h3⟩
  · subst hb; exact h.mono he
  · cases h with
    | imm hv hp =>
      exact .done (fun hm => by have := hM _ hm; have := h3 hv; omega) h2 (isPair_of_isValue hv hp)
    | done _ _ _ => simp [VCell.isPtr] at h1
    | cons _ _ _ => simp [VCell.isPtr] at h1

/-- consing onto a fresh list gives a fresh list -/
theorem cons_fresh {n : Nat} {s : Store} (hn : n ≤ s.cells.length) (y : VCell) {r : VCell}
    {rs : List Nat} (hr : SpineOff (· < n) s r rs .nil) :
    ∃ s' p ay, cons s [y, r] = .ok (s', .ptr p) ∧ Extends s s' ∧ Boxed s.cells.length s' ay y ∧
      SpineOff (· < n) s' (.ptr p) (ay :: rs) .nil := by
  obtain ⟨s', p, pa, pd, h1, h2, h3, h4, h5, h6⟩ := cons_boxed s y r
  refine ⟨s', p, pa, h1, h5, h3, .cons (fun h => by omega) h2 ?_⟩
  exact h4.spineOff (M := (· < n)) (fun i hi => Nat.lt_of_lt_of_le hi hn) h5 hr

/-- the loop of the `VARARG` instruction: a fresh chain in front of the accumulator -/
theorem listLoop_fresh {n : Nat} : ∀ (xs : List VCell) (s : Store) (acc : Nat) (accAs : List Nat)
    (accVs : List VCell), n ≤ s.cells.length → SpineOff (· < n) s (.ptr acc) accAs .nil →
    BoxedAll n s accAs accVs →
    ∃ s' p as, listLoop s xs acc = .ok (s', p) ∧ SpineOff (· < n) s' (.ptr p) as .nil ∧
      BoxedAll n s' as (xs.reverse ++ accVs) ∧ Extends s s' := by
  intro xs
  induction xs with
  | nil =>
    intro s acc accAs accVs _ hl hf
    exact ⟨s, acc, accAs, rfl, hl, by simpa using hf, Extends.refl s⟩
  | cons x xs ih =>
    intro s acc accAs accVs hn hl hf
    obtain ⟨w, h1, h2, h3⟩ := put_boxed s x
    rcases hp : s.put x with ⟨s1, o⟩
    rw [hp] at h1 h2 h3
    simp only at h1 h2 h3
    subst h1
    have hext := alloc_extends s1 (.pair w acc)
    have hn1 : n ≤ s1.cells.length := Nat.le_trans hn h2.len
    have hl2 : SpineOff (· < n) (s1.alloc (.pair w acc)).1 (.ptr s1.cells.length) (w :: accAs) .nil :=
      .cons (fun h => by omega) (alloc_cell s1 _) ((hl.mono h2).mono hext)
    have hf2 : BoxedAll n (s1.alloc (.pair w acc)).1 (w :: accAs) (x :: accVs) :=
      .cons (h3.mono hext hn) (hf.mono (h2.trans hext) (Nat.le_refl _))
    obtain ⟨s', p, as, e1, e2, e3, e4⟩ := ih _ _ _ _ (by simp; omega) hl2 hf2
    refine ⟨s', p, as, ?_, e2, by simpa using e3, (h2.trans hext).trans e4⟩
    simp only [listLoop, hp, VCell.asPtr_ptr, bind_ok, put_pair]
    exact e1

/-- `(list x …)` / the rest-argument list: a fresh proper list of boxed arguments -/
theorem list_fresh (s : Store) (args : List VCell) :
    ∃ s' p as, list s args = .ok (s', .ptr p) ∧ SpineOff (· < s.cells.length) s' (.ptr p) as .nil ∧
      BoxedAll s.cells.length s' as args ∧ Extends s s' := by
  have hext := alloc_extends s .nil
  obtain ⟨s', p, as, e1, e2, e3, e4⟩ := listLoop_fresh (n := s.cells.length) args.reverse
    (s.alloc .nil).1 s.cells.length [] [] (by simp)
    (.done (fun h => Nat.lt_irrefl _ h) (alloc_cell s _) rfl) .nil
  refine ⟨s', p, as, ?_, e2, by simpa using e3, hext.trans e4⟩
  simp only [list, put_nil, VCell.asPtr_ptr, bind_ok]
  simp only [Store.alloc] at e1
  rw [e1]; rfl

/-! ## `(any? null? xss)` -/

theorem anyNull_spec {M : Nat → Prop} {s : Store} {xss : VCell} {ws : List Nat}
    (hx : SpineOff M s xss ws .nil) : ∀ {views : List (List Nat × VCell)} {fuel : Nat},
    HeadsOff M s ws views → ws.length < fuel → anyNull fuel s xss = .ok (views.any ended) := by
  generalize hc : VCell.nil = c at hx
  induction hx with
  | @imm v hv hp =>
    intro views fuel hh hf
    obtain ⟨f, rfl⟩ : ∃ f, fuel = f + 1 := ⟨fuel - 1, by omega⟩
    cases hh
    subst hc
    rfl
  | @done q c _ hcell hp =>
    intro views fuel hh hf
    obtain ⟨f, rfl⟩ : ∃ f, fuel = f + 1 := ⟨fuel - 1, by omega⟩
    cases hh
    simp only [anyNull, pairP_of_get (get_of_cell hcell), hp, bind_ok, Bool.not_false, if_true,
      List.any_nil]
  | @cons p a d as c _ hcell _ ih =>
    intro views fuel hh hf
    obtain ⟨f, rfl⟩ : ∃ f, fuel = f + 1 := ⟨fuel - 1, by omega⟩
    cases hh with
    | @cons _ v _ vs h1 h2 =>
      have hg := get_of_cell hcell
      simp only [anyNull, pairP_of_get hg, VCell.isPair_pair, bind_ok, Bool.not_true,
        Bool.false_eq_true, if_false, carV_ok hg, h1.nullP, cdrV_ok hg, List.any_cons]
      show (if (v.1.isEmpty && v.2.isNil) = true then _ else _) = Outcome.ok (ended v || _)
      unfold ended
      by_cases he : (v.1.isEmpty && v.2.isNil) = true
      · rw [if_pos he, he]; rfl
      · rw [if_neg he]
        have : (v.1.isEmpty && v.2.isNil) = false := by simpa using he
        rw [this, Bool.false_or]
        exact ih hc h2 (by simp at hf; omega)

/-! ## `(apply f args)`: the argument list is pushed as it is -/

theorem listElems_spec {s : Store} {l : VCell} {as : List Nat} (h : IsList s l as) :
    ∀ {fuel : Nat}, as.length < fuel → listElems fuel s l = .ok (as.map VCell.ptr) := by
  induction h with
  | nil hg =>
    intro fuel hf
    obtain ⟨f, rfl⟩ : ∃ f, fuel = f + 1 := ⟨fuel - 1, by omega⟩
    simp only [listElems, hg, bind_ok, List.map_nil]
  | cons hg _ ih =>
    intro fuel hf
    obtain ⟨f, rfl⟩ : ∃ f, fuel = f + 1 := ⟨fuel - 1, by omega⟩
    simp only [listElems, hg, bind_ok, ih (by simp at hf; omega), List.map_cons]

/-! ## `(map1 car xss)` and `(map1 cdr xss)` -/

/-- `h` applied to the reference `w` answers the reference `b` without touching the store, in every
    store that extends `s` -/
inductive ProjAll (h : Callee) (s : Store) : List Nat → List Nat → Prop
  | nil : ProjAll h s [] []
  | cons {w b : Nat} {ws bs : List Nat} :
      (∀ t, Extends s t → h t [.ptr w] = .ok (t, .ptr b)) → ProjAll h s ws bs →
      ProjAll h s (w :: ws) (b :: bs)

theorem map1_proj {h : Callee} {M : Nat → Prop} {s : Store} {xs : VCell} {ws : List Nat}
    (hx : SpineOff M s xs ws .nil) : ∀ {bs : List Nat} {fuel : Nat}, ProjAll h s ws bs →
    ws.length < fuel →
    ∃ s1 r, map1 h fuel s xs = .ok (s1, r) ∧ Extends s s1 ∧
      SpineOff (· < s.cells.length) s1 r bs .nil := by
  generalize hc : VCell.nil = c at hx
  induction hx with
  | @imm v hv hp =>
    intro bs fuel hh hf
    obtain ⟨f, rfl⟩ : ∃ f, fuel = f + 1 := ⟨fuel - 1, by omega⟩
    cases hh
    subst hc
    exact ⟨s, .nil, rfl, Extends.refl s, .imm rfl rfl⟩
  | @done q c _ hcell hp =>
    intro bs fuel hh hf
    obtain ⟨f, rfl⟩ : ∃ f, fuel = f + 1 := ⟨fuel - 1, by omega⟩
    cases hh
    subst hc
    refine ⟨s, .nil, ?_, Extends.refl s, .imm rfl rfl⟩
    simp only [map1, nullP_of_get (get_of_cell hcell), VCell.isNil_nil, bind_ok, if_true]
  | @cons p a d as c _ hcell _ ih =>
    intro bs fuel hh hf
    obtain ⟨f, rfl⟩ : ∃ f, fuel = f + 1 := ⟨fuel - 1, by omega⟩
    cases hh with
    | @cons _ b _ bs' h1 h2 =>
      have hg := get_of_cell hcell
      subst hc
      obtain ⟨s1, r, e1, e2, e3⟩ := ih rfl h2 (by simp at hf; omega)
      obtain ⟨s2, p2, ay, c1, c2, c3, c4⟩ := cons_fresh (n := s.cells.length) e2.len (.ptr b) e3
      have hay : ay = b := by
        rcases c3 with c3 | ⟨c3, _⟩
        · cases c3; rfl
        · simp [VCell.isPtr] at c3
      subst hay
      refine ⟨s2, .ptr p2, ?_, e2.trans c2, c4⟩
      simp only [map1, nullP_of_get hg, isNil_pair, bind_ok, Bool.false_eq_true, if_false,
        carV_ok hg, h1 s (Extends.refl s), cdrV_ok hg, e1]
      exact c1

/-- a list of lists one of which has no pair left: `(map1 car xss)` is the `expected pair` error -/
theorem map1_car_err {M : Nat → Prop} {s : Store} {xs : VCell} {ws : List Nat}
    (hx : SpineOff M s xs ws .nil) : ∀ {views : List (List Nat × VCell)} {fuel : Nat},
    HeadsOff M s ws views → views.any noPair = true → ws.length < fuel →
    map1 car fuel s xs = .err .pair := by
  generalize hc : VCell.nil = c at hx
  induction hx with
  | @imm v hv hp => intro views fuel hh ha; cases hh; simp at ha
  | @done q c _ hcell hp => intro views fuel hh ha; cases hh; simp at ha
  | @cons p a d as c _ hcell _ ih =>
    intro views fuel hh ha hf
    obtain ⟨f, rfl⟩ : ∃ f, fuel = f + 1 := ⟨fuel - 1, by omega⟩
    cases hh with
    | @cons _ v _ vs h1 h2 =>
      have hg := get_of_cell hcell
      simp only [map1, nullP_of_get hg, isNil_pair, bind_ok, Bool.false_eq_true, if_false,
        carV_ok hg]
      obtain ⟨as0, c0⟩ := v
      cases h1 with
      | imm _ hp' => simp [VCell.isPtr] at hp'
      | done _ hc1 hp1 =>
        rw [car_err (get_of_cell hc1) hp1]; rfl
      | @cons _ a1 d1 as1 _ _ hc1 _ =>
        have hv1 : noPair (a1 :: as1, c0) = false := rfl
        rw [List.any_cons, hv1, Bool.false_or] at ha
        rw [car_ok (get_of_cell hc1)]
        simp only [bind_ok, cdrV_ok hg]
        rw [ih hc h2 ha (by simp at hf; omega)]
        rfl

/-- when every list still has a pair: the heads are what `car` answers, the rests are what `cdr`
    answers, and the rests are the lists with views `tl` -/
theorem heads_step {M : Nat → Prop} {s : Store} {ws : List Nat} {views : List (List Nat × VCell)}
    (hh : HeadsOff M s ws views) (hne : views.any noPair = false) :
    ProjAll car s ws (views.map hd) ∧
      ∃ ds, ProjAll cdr s ws ds ∧ HeadsOff M s ds (views.map tl) := by
  induction hh with
  | nil => exact ⟨.nil, [], .nil, .nil⟩
  | @cons w v ws vs h1 _ ih =>
    rw [List.any_cons, Bool.or_eq_false_iff] at hne
    obtain ⟨i1, ds, i2, i3⟩ := ih hne.2
    obtain ⟨as, c⟩ := v
    cases h1 with
    | imm _ hp' => simp [VCell.isPtr] at hp'
    | done _ _ _ => simp [noPair] at hne
    | @cons _ a d as' _ _ hc1 ht =>
      refine ⟨.cons (fun t he => car_ok (get_of_cell (he.cell hc1))) i1, d :: ds,
        .cons (fun t he => cdr_ok (get_of_cell (he.cell hc1))) i2, .cons ht i3⟩

end Marwood.Store
