import Marwood.Lemmas.CompileEnvmap
/-!
# The induction on the fuel for `Lemmas/CompileEnvmap.lean`

`EnvOKF fuel`: each of the six compile functions extends the code-object table at its end, keeps it good
(`TblOK`), and emits code that is good (`EnvCode`) for the new table in the binding context it was called with.
Same case structure as `blkOK_succ` in `Lemmas/CompileBlk.lean`. End results: `compileTop_envCode`,
`entryLam_envmap`, `childOf_empty`.
-/
namespace Marwood.Vm
open Marwood Marwood.Vm.Verify

/-- the conclusion of each of the six statements: the table grows at its end, stays good, and the emitted code
    is good for the new table -/
abbrev EnvRes (st : CState) (c : Ctx) (st' : CState) (code : List BC) : Prop :=
  (∃ ext, st'.lambdas = st.lambdas ++ ext) ∧ TblOK st'.lambdas ∧ EnvCode (SiteP st'.lambdas c) code

theorem EnvRes.refl {st : CState} {c : Ctx} {code : List BC} (hs : TblOK st.lambdas)
    (h : EnvCode (SiteP st.lambdas c) code) : EnvRes st c st code := ⟨⟨[], by simp⟩, hs, h⟩

theorem EnvRes.map {st st1 : CState} {c : Ctx} {code1 code : List BC} (r1 : EnvRes st c st1 code1)
    (f : EnvCode (SiteP st1.lambdas c) code1 → EnvCode (SiteP st1.lambdas c) code) : EnvRes st c st1 code :=
  ⟨r1.1, r1.2.1, f r1.2.2⟩

theorem EnvRes.seq {st st1 st2 : CState} {c : Ctx} {code1 code2 code : List BC} (r1 : EnvRes st c st1 code1)
    (r2 : EnvRes st1 c st2 code2)
    (f : EnvCode (SiteP st2.lambdas c) code1 → EnvCode (SiteP st2.lambdas c) code2 →
      EnvCode (SiteP st2.lambdas c) code) : EnvRes st c st2 code :=
  ⟨ext_trans r1.1 r2.1, r2.2.1, f (r1.2.2.lift r2.1) r2.2.2⟩

theorem EnvCode.qvecHead {P : Nat → Prop} (g : Text) :
    EnvCode P [.op .pushImm, .argc 0, .op .mov, .global g, .acc, .op .callAcc] := by
  show EnvCode P ([BC.op .pushImm, BC.argc 0] ++ [BC.op .mov, BC.global g, BC.acc] ++ [BC.op .callAcc])
  exact ((EnvCode.pushArgc 0).append (EnvCode.mov3 _ _ (by simp) acc_plain)).append
    (EnvCode.op1 _ (by decide))

theorem EnvCode.prologue {P : Nat → Prop} (v : Bool) :
    EnvCode P ((if v then [BC.op .varArg] else []) ++ [BC.op .enter]) := by
  cases v
  · exact EnvCode.op1 _ (by decide)
  · exact (EnvCode.op1 _ (by decide)).append (EnvCode.op1 _ (by decide))

/-- `finishLambda`: the finished code object is good for the extended table, and the emitted site names it -/
theorem finishLambda_env {st0 st : CState} {c : Ctx} {p : LambdaParts} {bcode : List BC}
    (hargs : p.ctx.args = p.formals)
    (hch : ∀ x ∈ p.ctx.envmap, (x.2 = Source.iofEnvironment → c.envmap.any (·.1 == x.1) = true) ∧
      ∀ n, x.2 = Source.iofArgument n → n < c.args.length)
    (hpro : p.prologue = (if p.isVararg then [BC.op .varArg] else []) ++ [BC.op .enter])
    (r : EnvRes st0 p.ctx st bcode) :
    EnvRes st0 c (finishLambda st p bcode).1 (finishLambda st p bcode).2 := by
  have hx : ∃ ext, (finishLambda st p bcode).1.lambdas = st.lambdas ++ ext := ⟨_, rfl⟩
  have hctx : (⟨p.formals, p.ctx.envmap⟩ : Ctx) = p.ctx := by rw [← hargs]
  refine ⟨ext_trans r.1 hx, ?_, ?_⟩
  · refine TblOK.snoc r.2.1 ?_
    show EnvCode (SiteP (finishLambda st p bcode).1.lambdas ⟨p.formals, p.ctx.envmap⟩)
      (p.prologue ++ bcode ++ [.op .ret])
    rw [hctx, hpro]
    exact ((EnvCode.prologue _).append (r.2.2.lift hx)).append (EnvCode.op1 _ (by decide))
  · refine EnvCode.site _ ⟨⟨p.formals, p.isVararg, p.ctx.envmap, p.prologue ++ bcode ++ [.op .ret], false⟩, ?_, hch⟩
    show (st.lambdas ++ [_])[st.lambdas.length]? = some _
    simp

/-- the six statements proved together by induction on the fuel -/
structure EnvOKF (fuel : Nat) : Prop where
  expr : ∀ st c base tail e st' code, TblOK st.lambdas → compileExpr fuel st c base tail e = .ok (st', code) →
    (∃ ext, st'.lambdas = st.lambdas ++ ext) ∧ TblOK st'.lambdas ∧ EnvCode (SiteP st'.lambdas c) code
  args : ∀ st c base rest st' code n, TblOK st.lambdas → compileArgs fuel st c base rest = .ok (st', code, n) →
    (∃ ext, st'.lambdas = st.lambdas ++ ext) ∧ TblOK st'.lambdas ∧ EnvCode (SiteP st'.lambdas c) code
  body : ∀ st c base b st' code, TblOK st.lambdas → compileBody fuel st c base b = .ok (st', code) →
    (∃ ext, st'.lambdas = st.lambdas ++ ext) ∧ TblOK st'.lambdas ∧ EnvCode (SiteP st'.lambdas c) code
  quasi : ∀ st c base e depth st' code, TblOK st.lambdas → compileQuasi fuel st c base e depth = .ok (st', code) →
    (∃ ext, st'.lambdas = st.lambdas ++ ext) ∧ TblOK st'.lambdas ∧ EnvCode (SiteP st'.lambdas c) code
  qvec : ∀ st c base elems depth st' code, TblOK st.lambdas →
    quasiVec fuel st c base elems depth = .ok (st', code) →
    (∃ ext, st'.lambdas = st.lambdas ++ ext) ∧ TblOK st'.lambdas ∧ EnvCode (SiteP st'.lambdas c) code
  qlist : ∀ st c base rest depth st' code count t, TblOK st.lambdas →
    quasiList fuel st c base rest depth = .ok (st', code, count, t) →
    (∃ ext, st'.lambdas = st.lambdas ++ ext) ∧ TblOK st'.lambdas ∧ EnvCode (SiteP st'.lambdas c) code

theorem envOKF_zero : EnvOKF 0 where
  expr := by intro _ _ _ _ _ _ _ _ h; simp [compileExpr] at h
  args := by intro _ _ _ _ _ _ _ _ h; simp [compileArgs] at h
  body := by intro _ _ _ _ _ _ _ h; simp [compileBody] at h
  quasi := by intro _ _ _ _ _ _ _ _ h; simp [compileQuasi] at h
  qvec := by intro _ _ _ _ _ _ _ _ h; simp [quasiVec] at h
  qlist := by intro _ _ _ _ _ _ _ _ _ _ h; simp [quasiList] at h

theorem envOKF_succ (fuel : Nat) (ih : EnvOKF fuel) : EnvOKF (fuel + 1) where
  args := by
    intro st c base rest st' code n hs h
    cases rest with
    | pair a d =>
      simp only [compileArgs] at h
      cases h1 : compileExpr fuel st c base false a with
      | error e => simp [h1] at h
      | ok r1 =>
        obtain ⟨st1, code1⟩ := r1
        simp only [h1] at h
        cases h2 : compileArgs fuel st1 c (base + code1.length + 1) d with
        | error e => simp [h2] at h
        | ok r2 =>
          obtain ⟨st2, code2, n2⟩ := r2
          simp only [h2] at h
          cases h
          have r1 := ih.expr _ _ _ _ _ _ _ hs h1
          have r2 := ih.args _ _ _ _ _ _ _ r1.2.1 h2
          exact EnvRes.seq r1 r2 fun a b => (a.append (EnvCode.op1 _ (by decide))).append b
    | _ => simp only [compileArgs] at h; cases h; exact EnvRes.refl hs EnvCode.nil
  body := by
    intro st c base b st' code hs h
    cases b with
    | pair x rest =>
      simp only [compileBody] at h
      cases h1 : compileExpr fuel st c base rest.isNil x with
      | error e => simp [h1] at h
      | ok r1 =>
        obtain ⟨st1, code1⟩ := r1
        simp only [h1] at h
        cases h2 : compileBody fuel st1 c (base + code1.length) rest with
        | error e => simp [h2] at h
        | ok r2 =>
          obtain ⟨st2, code2⟩ := r2
          simp only [h2] at h
          cases h
          have r1 := ih.expr _ _ _ _ _ _ _ hs h1
          have r2 := ih.body _ _ _ _ _ _ r1.2.1 h2
          exact EnvRes.seq r1 r2 fun a b => a.append b
    | _ => simp only [compileBody] at h; cases h; exact EnvRes.refl hs EnvCode.nil
  qvec := by
    intro st c base elems depth st' code hs h
    cases elems with
    | pair x rest =>
      simp only [quasiVec] at h
      cases h1 : compileQuasi fuel st c (base + 1) x depth with
      | error e => simp [h1] at h
      | ok r1 =>
        obtain ⟨st1, code1⟩ := r1
        simp only [h1] at h
        cases h2 : quasiVec fuel st1 c (base + 1 + code1.length + 1) rest depth with
        | error e => simp [h2] at h
        | ok r2 =>
          obtain ⟨st2, code2⟩ := r2
          simp only [h2] at h
          cases h
          have r1 := ih.quasi _ _ _ _ _ _ _ hs h1
          have r2 := ih.qvec _ _ _ _ _ _ _ r1.2.1 h2
          exact EnvRes.seq r1 r2 fun a b =>
            (((EnvCode.op1 _ (by decide)).append a).append (EnvCode.op1 _ (by decide))).append b
    | _ => simp only [quasiVec] at h; cases h; exact EnvRes.refl hs EnvCode.nil
  qlist := by
    intro st c base rest depth st' code count t hs h
    cases rest with
    | pair x d =>
      simp only [quasiList] at h
      cases h1 : compileQuasi fuel st c base x depth with
      | error e => simp [h1] at h
      | ok r1 =>
        obtain ⟨st1, code1⟩ := r1
        simp only [h1] at h
        cases h2 : quasiList fuel st1 c (base + code1.length + 1) d depth with
        | error e => simp [h2] at h
        | ok r2 =>
          obtain ⟨st2, code2, n2, t2⟩ := r2
          simp only [h2] at h
          cases h
          have r1 := ih.quasi _ _ _ _ _ _ _ hs h1
          have r2 := ih.qlist _ _ _ _ _ _ _ _ _ r1.2.1 h2
          exact EnvRes.seq r1 r2 fun a b => (a.append (EnvCode.op1 _ (by decide))).append b
    | _ => simp only [quasiList] at h; cases h; exact EnvRes.refl hs EnvCode.nil
  quasi := by
    intro st c base e depth st' code hs h
    cases e with
    | vec elems =>
      simp only [compileQuasi] at h
      cases h1 : quasiVec fuel st c (base + 6) elems depth with
      | error e => simp [h1] at h
      | ok r1 =>
        obtain ⟨st1, code1⟩ := r1
        simp only [h1] at h
        cases h
        exact EnvRes.map (ih.qvec _ _ _ _ _ _ _ hs h1) fun a => (EnvCode.qvecHead _).append a
    | pair car d =>
      simp only [compileQuasi] at h
      split at h
      · cases d with
        | pair x d2 =>
          simp only at h
          exact ih.expr _ _ _ _ _ _ _ hs h
        | _ => simp at h
      · cases h1 : quasiList fuel st c base (.pair car d)
            (if car.isSymStr ['q', 'u', 'a', 's', 'i', 'q', 'u', 'o', 't', 'e'] = true then (if car.isSymStr ['u', 'n', 'q', 'u', 'o', 't', 'e'] = true then depth - 1 else depth) + 1
             else if car.isSymStr ['u', 'n', 'q', 'u', 'o', 't', 'e'] = true then depth - 1 else depth) with
        | error e => simp [h1] at h
        | ok r1 =>
          obtain ⟨st1, code1, cnt, t⟩ := r1
          simp only [h1] at h
          cases h
          exact EnvRes.map (ih.qlist _ _ _ _ _ _ _ _ _ hs h1) fun a =>
            (a.append (EnvCode.pushDatum t)).append (EnvCode.consChain cnt)
    | _ => simp only [compileQuasi] at h; cases h; exact EnvRes.refl hs (EnvCode.movImm3 _ rfl (by simp))
  expr := by
    intro st c base tail e st' code hs h
    cases e with
    | pair proc rest =>
      unfold compileExpr at h
      by_cases hd : proc.isSymStr ['d', 'e', 'f', 'i', 'n', 'e'] = true
      · simp only [hd, if_true] at h
        cases rest with
        | pair target rest2 =>
          simp only at h
          split at h
          · cases h
          · cases rest2 with
            | pair value rest3 =>
              simp only at h
              cases target with
              | sym s =>
                simp only at h
                split at h
                · cases h
                · cases h1 : compileExpr fuel st c base false value with
                  | error e => simp [h1] at h
                  | ok r1 =>
                    obtain ⟨st1, code1⟩ := r1
                    simp only [h1] at h
                    split at h
                    · cases h
                    · cases h
                      exact EnvRes.map (ih.expr _ _ _ _ _ _ _ hs h1) fun a => a.append (EnvCode.store c s)
              | pair name d =>
                simp only at h
                cases hp : lambdaParts fuel c (Datum.pair proc (Datum.pair (Datum.pair name d) (Datum.pair value rest3))) true with
                | error e => simp [hp] at h
                | ok p =>
                  simp only [hp] at h
                  cases hb : compileBody fuel st p.ctx p.prologue.length p.body with
                  | error e => simp [hb] at h
                  | ok r =>
                    obtain ⟨st1, bcode⟩ := r
                    simp only [hb] at h
                    cases name with
                    | sym s =>
                      simp only at h
                      split at h
                      · cases h
                      · cases h
                        obtain ⟨ha, hch, hpro⟩ := lambdaParts_child hp
                        exact EnvRes.map (finishLambda_env ha hch hpro (ih.body _ _ _ _ _ _ hs hb))
                          fun a => a.append (EnvCode.store c s)
                    | _ => simp at h
              | _ => simp at h
            | _ => simp at h
        | _ => simp at h
      · simp only [hd, if_false, Bool.false_eq_true] at h
        by_cases hds : proc.isSymStr ['d', 'e', 'f', 'i', 'n', 'e', '-', 's', 'y', 'n', 't', 'a', 'x'] = true
        · simp [hds] at h
        · simp only [hds, if_false, Bool.false_eq_true] at h
          by_cases hl : (proc.isSymStr ['l', 'a', 'm', 'b', 'd', 'a'] || proc.isSymStr ['λ']) = true
          · simp only [hl, if_true] at h
            cases hp : lambdaParts fuel c (Datum.pair proc rest) false with
            | error e => simp [hp] at h
            | ok p =>
              simp only [hp] at h
              cases hb : compileBody fuel st p.ctx p.prologue.length p.body with
              | error e => simp [hb] at h
              | ok r =>
                obtain ⟨st1, bcode⟩ := r
                simp only [hb] at h
                cases h
                obtain ⟨ha, hch, hpro⟩ := lambdaParts_child hp
                exact finishLambda_env ha hch hpro (ih.body _ _ _ _ _ _ hs hb)
          · simp only [hl, if_false, Bool.false_eq_true] at h
            by_cases hq : proc.isSymStr ['q', 'u', 'a', 's', 'i', 'q', 'u', 'o', 't', 'e'] = true
            · simp only [hq, if_true] at h
              cases rest with
              | pair x d => simp only at h; exact ih.quasi _ _ _ _ _ _ _ hs h
              | _ => simp at h
            · simp only [hq, if_false, Bool.false_eq_true] at h
              by_cases hqq : proc.isSymStr ['q', 'u', 'o', 't', 'e'] = true
              · simp only [hqq, if_true] at h
                cases rest with
                | pair x d => simp only at h; cases h; exact EnvRes.refl hs (EnvCode.movImm3 _ rfl (by simp))
                | _ => simp at h
              · simp only [hqq, if_false, Bool.false_eq_true] at h
                by_cases hif : proc.isSymStr ['i', 'f'] = true
                · simp only [hif, if_true] at h
                  split at h
                  · cases h
                  · split at h
                    · rename_i test conseq hit
                      cases h1 : compileExpr fuel st c base false test with
                      | error e => simp [h1] at h
                      | ok r1 =>
                        obtain ⟨st1, tcode⟩ := r1
                        simp only [h1] at h
                        cases h2 : compileExpr fuel st1 c (base + tcode.length + 2) tail conseq with
                        | error e => simp [h2] at h
                        | ok r2 =>
                          obtain ⟨st2, ccode⟩ := r2
                          simp only [h2] at h
                          cases h
                          have r1 := ih.expr _ _ _ _ _ _ _ hs h1
                          have r2 := ih.expr _ _ _ _ _ _ _ r1.2.1 h2
                          exact EnvRes.seq r1 r2 fun a b =>
                            (((a.append (EnvCode.jump _ (by decide) _)).append b).append
                              (EnvCode.jump _ (by decide) _)).append (EnvCode.movImm3 _ rfl (by simp))
                    · rename_i test conseq alt hit
                      cases h1 : compileExpr fuel st c base false test with
                      | error e => simp [h1] at h
                      | ok r1 =>
                        obtain ⟨st1, tcode⟩ := r1
                        simp only [h1] at h
                        cases h2 : compileExpr fuel st1 c (base + tcode.length + 2) tail conseq with
                        | error e => simp [h2] at h
                        | ok r2 =>
                          obtain ⟨st2, ccode⟩ := r2
                          simp only [h2] at h
                          cases h3 : compileExpr fuel st2 c (base + tcode.length + 2 + ccode.length + 2) tail alt with
                          | error e => simp [h3] at h
                          | ok r3 =>
                            obtain ⟨st3, acode⟩ := r3
                            simp only [h3] at h
                            cases h
                            have r1 := ih.expr _ _ _ _ _ _ _ hs h1
                            have r2 := ih.expr _ _ _ _ _ _ _ r1.2.1 h2
                            have r12 := EnvRes.seq r1 r2 fun a b =>
                              ((a.append (EnvCode.jump .jnt (by decide)
                                (base + tcode.length + 2 + ccode.length + 2))).append b).append
                                (EnvCode.jump .jmp (by decide) (base + tcode.length + 2 + ccode.length + 2 + acode.length))
                            exact EnvRes.seq r12 (ih.expr _ _ _ _ _ _ _ r2.2.1 h3) fun a b => a.append b
                    · cases h
                · simp only [hif, if_false, Bool.false_eq_true] at h
                  by_cases hs' : proc.isSymStr ['s', 'e', 't', '!'] = true
                  · simp only [hs', if_true] at h
                    split at h
                    · rename_i s value hit
                      split at h
                      · cases h
                      · cases h1 : compileExpr fuel st c base false value with
                        | error e => simp [h1] at h
                        | ok r1 =>
                          obtain ⟨st1, code1⟩ := r1
                          simp only [h1] at h
                          cases h
                          exact EnvRes.map (ih.expr _ _ _ _ _ _ _ hs h1) fun a => a.append (EnvCode.store c s)
                    · cases h
                    · cases h
                  · simp only [hs', if_false, Bool.false_eq_true] at h
                    cases h1 : compileArgs fuel st c base rest with
                    | error e => simp [h1] at h
                    | ok r1 =>
                      obtain ⟨st1, code1, n⟩ := r1
                      simp only [h1] at h
                      cases h2 : compileExpr fuel st1 c (base + code1.length + 2) false proc with
                      | error e => simp [h2] at h
                      | ok r2 =>
                        obtain ⟨st2, pcode⟩ := r2
                        simp only [h2] at h
                        cases h
                        have r1 := ih.args _ _ _ _ _ _ _ hs h1
                        have r2 := ih.expr _ _ _ _ _ _ _ r1.2.1 h2
                        exact EnvRes.seq r1 r2 fun a b => ((a.append (EnvCode.pushArgc n)).append b).append
                          (EnvCode.op1 _ (by cases tail <;> decide))
    | sym s =>
      simp only [compileExpr] at h
      split at h
      · cases h
      · cases h
        exact EnvRes.refl hs (EnvCode.mov3 _ _ (emitLoc_plain c s) acc_plain)
    | _ =>
      first
      | (simp [compileExpr] at h; done)
      | (simp only [compileExpr] at h; cases h; exact EnvRes.refl hs (EnvCode.movImm3 _ rfl (by simp)))

theorem envOKF_all : ∀ fuel, EnvOKF fuel
  | 0 => envOKF_zero
  | n+1 => envOKF_succ n (envOKF_all n)

/-! ## the end results -/

theorem compileTop_envCode {e : Datum} {fuel : Nat} {st : CState} {lam : LambdaM}
    (h : compileTop e fuel = .ok (st, lam)) :
    TblOK st.lambdas ∧ EnvCode (SiteP st.lambdas ⟨[], []⟩) lam.bc ∧ lam.envmap = [] ∧ lam.args = [] := by
  unfold compileTop at h
  cases h1 : compileExpr fuel {} ⟨[], []⟩ 1 true e with
  | error err => simp [h1] at h
  | ok r =>
    obtain ⟨st1, code⟩ := r
    simp only [h1] at h
    cases h
    obtain ⟨_, hs1, b1⟩ := (envOKF_all fuel).expr _ _ _ _ _ _ _ TblOK.nil h1
    exact ⟨hs1, ((EnvCode.op1 _ (by decide)).append b1).append (EnvCode.op1 _ (by decide)), rfl, rfl⟩

theorem entryLam_envmap (id : Nat) : (entryLam id).envmap = [] := rfl

/-- a child of the empty context captures nothing from its defining environment -/
theorem childOf_empty {m : LambdaM} (h : ChildOf ⟨[], []⟩ m) :
    ∀ x ∈ m.envmap, x.2 ≠ .iofEnvironment ∧ ∀ n, x.2 ≠ .iofArgument n := by
  intro x hx
  obtain ⟨h1, h2⟩ := h x hx
  exact ⟨fun he => by simpa using h1 he, fun n hn => by simpa using h2 n hn⟩

end Marwood.Vm
