import Marwood.Lemmas.EvalKAgree
/-! # `Spec.EvalK` without `call/cc` is `Spec.Eval` — sequences, definitions, bodies, operands -/
namespace Marwood.Lemmas.EvalKAgree
open Marwood Marwood.Spec.Eval Marwood.Spec.EvalK

variable {r : Rec}

theorem sim_tail (hr : SimRec r) (e : Datum) (ρ : Env) (σ : St) (κ : Kont) (ks : Array Kont) :
    Sim (evalIn e ρ κ σ ks) (r.eval e ρ σ) κ ks := hr.eval e ρ σ κ ks

/-- `evalExprs` -/
theorem sim_exprs (hr : SimRec r) (ρ : Env) (es : List Datum) (σ : St) (κ : Kont) (ks : Array Kont) :
    Sim (exprsGo ρ es κ σ ks) (evalExprs r ρ es σ) κ ks := by
  induction es generalizing σ with
  | nil => exact Sim.throw _ _ _ _
  | cons e es ih =>
    cases es with
    | nil => exact hr.eval e ρ σ κ ks
    | cons e2 es =>
      show Sim (evalIn e ρ (.seqK ρ (e2 :: es) :: κ) σ ks) ((r.eval e ρ >>= fun _ => evalExprs r ρ (e2 :: es)) σ) κ ks
      apply Sim.evalBind hr
      intro v σ' _
      exact ih σ'

/-- after the first non-definition a body is a plain sequence -/
theorem evalBodyForms_false (ρ : Env) (es : List Datum) :
    evalBodyForms r ρ false es = evalExprs r ρ es := by
  induction es with
  | nil => rfl
  | cons e es ih =>
    cases es with
    | nil => simp [evalBodyForms, evalExprs]
    | cons e2 es =>
      simp only [evalBodyForms, evalExprs, Bool.false_and, Bool.false_eq_true, if_false]
      rw [ih]

/-- `defineValue`, the value going to frame `mk x` -/
theorem sim_define (hr : SimRec r) (ρ : Env) (d : Datum) (mk : Text → Frame) (f : Text × Val → M Val)
    (σ : St) (κ : Kont) (ks : Array Kont)
    (h : ∀ x v σ', Sim (retGo (mk x) v κ σ' ks) (f (x, v) σ') κ ks) :
    Sim (defineGo ρ d mk κ σ ks) ((defineValue r ρ d >>= f) σ) κ ks := by
  unfold defineGo defineValue
  split
  · dsimp only
    split
    · exact Sim.throw _ _ _ _
    · rw [bind_assoc_M]
      apply Sim.evalBind hr
      intro v σ' _
      exact h _ v σ'
  · dsimp only
    split
    · exact Sim.throw _ _ _ _
    · rw [bind_assoc_M]
      apply Sim.withM
      intro v σ' _
      exact Sim.step (h _ v σ')
  · rename_i h1 h2
    split
    · exact absurd rfl (h1 _ _ _)
    · exact absurd rfl (h2 _ _ _ _)
    · exact Sim.throw _ _ _ _

end Marwood.Lemmas.EvalKAgree
