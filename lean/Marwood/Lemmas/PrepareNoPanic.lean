import Marwood.Lemmas.PrepareHistory
import Marwood.Lemmas.PrepareNP
import Marwood.Lemmas.NoPanicMain
/-!
# T06.6 for histories with `prepare_eval` as a step of its own

`Proofs/C06.history_never_panics_machine` asks `VmOkP`, `SizeBounded` and `EnvSlotsAlong` of every state in which a job
starts (`HistGood`). With the loader relation `Installs` (Lemmas/PrepareDefs.lean) the first is a consequence of the
invariant of the INITIAL state (`histInstalls_ok`), and the two further clauses `NPInv` are carried through the loader
steps (`prepare_npinv`, `npinv_installsGarbage`) as through instructions, collections and epilogues. `EnvSlotsAlong`
stays a hypothesis per job (its status is described in Lemmas/NoPanicMain.lean).
-/
namespace Marwood.Lemmas.Good
open Marwood Marwood.Vm Marwood.Vm.Verify Marwood.Vm.Concrete Marwood.Lemmas.Sim
open Marwood.Lemmas.PolicySessionOk

variable {ext : ExtOps} {ecl : ExtCodeLawsV ext}

/-- the faults of a history -/
def recFaults : List EvRec → List Fault
  | [] => []
  | .ran _ (.failed f _) :: r => f :: recFaults r
  | _ :: r => recFaults r

/-- **no history of `eval` calls — `prepare_eval` included — makes the modelled VM panic** (except through `apply`'s
    100000-element guard): from `VmOkP` and `NPInv` of the INITIAL state (empty stack), `Installs` / `InstallsGarbage`
    of every `prepare_eval`, the laws of the unmodelled builtins, the size bounds, and `EnvSlotsAlong` of each job -/
theorem history_never_panics_installs (ecl : ExtCodeLawsV ext) (force : Bool) (el : ExtLaws ext) (eg : ExtGood ext)
    (ep : ExtProc ext) (en : ExtNoPanic ext) {s0 sf : St CHeap} {recs : List EvRec}
    (hist : HistInstalls ext force s0 recs sf) (i0 : IdleOk s0) (n0 : NPInv s0)
    (sz : ∀ rc ∈ recs, RecSized ext force rc)
    (esl : ∀ p r, EvRec.ran p r ∈ recs → EnvSlotsAlong (machine ext force) p) :
    ∀ f ∈ recFaults recs, ∀ m, f = Fault.panic m → m = applyGuard := by
  induction hist with
  | nil s => intro f hf; cases hf
  | @ran s s1 sf e cfuel entry fuel recs inst _ ih =>
    have sb : EvalSizeBounded ext force (prepare s1 entry) := sz _ (List.mem_cons_self ..)
    have sm : Small s1.heap := sb.run (prepare s1 entry) (.refl _)
    have hv : VmOkP ext ecl (prepare s1 entry) := prepare_vmOkP_idle i0 inst sm
    have n1 : NPInv (prepare s1 entry) := prepare_npinv n0 inst
    have hcap : 0 < (prepare s1 entry).stack.cells.length := by
      have := i0.cap
      rw [inst.regs]; exact this
    obtain ⟨k1, k2⟩ := idleOk_runEval (ecl := ecl) force el eg ep hv hcap sb none fuel
    obtain ⟨m1, m2, _⟩ := npinv_runEval force en n1 none fuel
    have szr : ∀ rc ∈ recs, RecSized ext force rc := fun rc h => sz rc (List.mem_cons_of_mem _ h)
    have eslr : ∀ p r, EvRec.ran p r ∈ recs → EnvSlotsAlong (machine ext force) p :=
      fun p r h => esl p r (List.mem_cons_of_mem _ h)
    have esl1 := esl _ _ (List.mem_cons_self ..)
    intro f hf m hm
    cases hr : runEval (concreteOps ext) (cgc force) none fuel (prepare s1 entry) with
    | value s' =>
      rw [hr] at ih hf
      exact ih (k1 s' hr) (m1 s' hr) szr eslr f hf m hm
    | failed f' s' =>
      rw [hr] at ih hf
      rcases List.mem_cons.mp hf with e1 | e1
      · subst e1; subst hm
        exact runEval_never_panics_machine force el eg ep en ⟨hv, n1⟩ sb.run esl1 none fuel hr
      · exact ih (k2 f' s' hr) (m2 f' s' hr) szr eslr f e1 m hm
    | paused s' => exact absurd hr (runEval_none_not_paused ext force fuel _ s')
    | fuel =>
      rw [hr] at ih hf
      exact ih i0 n0 szr eslr f hf m hm
  | @rejected s g sf recs inst _ ih =>
    have ⟨sm1, sm2⟩ : Small g.heap ∧ Small (cgc force g).heap := sz _ (List.mem_cons_self ..)
    have ig : IdleOk g := (i0.installs inst sm1).1
    intro f hf m hm
    exact ih (ig.gc force sm2) (npinv_gc force (npinv_installsGarbage n0 inst))
      (fun rc h => sz rc (List.mem_cons_of_mem _ h)) (fun p r h => esl p r (List.mem_cons_of_mem _ h)) f hf m hm

end Marwood.Lemmas.Good
