import Marwood.Lemmas.ListExtSim
import Marwood.Lemmas.ListExtGood
import Marwood.Lemmas.ListExtCode
import Marwood.Lemmas.ListExtProc
import Marwood.Lemmas.ListExtDemo
import Marwood.Proofs.C03
import Marwood.Proofs.C13

/-! Corollaries of `Proofs/C03.lean` at the real builtins `listExtWith` (see Lemmas/ListExtProps.lean for the overview). -/

namespace Marwood.Proofs.C03
open Marwood Marwood.Vm Marwood.Vm.Concrete Marwood.Lemmas.Sim Marwood.Lemmas.Good Marwood.Proofs.C13

section
variable (eqTag : String → String → Bool)

/-- the callee guard along every run of the machine with the real builtins -/
theorem calleeOkAlong_listExt (force : Bool) {s0 : St CHeap}
    (h0 : VmOk (listExtWith eqTag) (listExtWith_codeLawsV eqTag) s0) (p0 : PInv s0)
    (sb : SizeBounded (machine (listExtWith eqTag) force) s0) :
    CalleeOkAlong (machine (listExtWith eqTag) force) s0 :=
  calleeOkAlong_of_vmOk force (listExtWith_laws eqTag) (listExtWith_good eqTag) (listExtWith_proc eqTag) h0 p0 sb

/-- **T03.5 at the real builtins**: on the concrete machine whose generic builtins are the table of
    `Vm/ListExt.lean`, every schedule of collections at instruction boundaries and the collection-free run end with
    the same status in `Sim`-related states. No hypothesis about the builtins. -/
theorem gc_unobservable_listExt (force : Bool) (sched : Nat → Bool) (n : Nat) (s0 : St CHeap)
    (h0 : VmOk (listExtWith eqTag) (listExtWith_codeLawsV eqTag) s0) (p0 : PInv s0)
    (sb : SizeBounded (machine (listExtWith eqTag) force) s0) :
    ResRel (Lemmas.Sim.R (machine (listExtWith eqTag) force))
      (runSched (machine (listExtWith eqTag) force) sched n 0 s0) (pureN (machine (listExtWith eqTag) force) n s0) :=
  gc_unobservable_closed _ force (listExtWith_laws eqTag) (listExtWith_good eqTag) (listExtWith_codeLawsV eqTag)
    (listExtWith_proc eqTag) sched n s0 h0 p0 sb

/-- … and the value is the same -/
theorem gc_unobservable_value_listExt (force : Bool) (sched : Nat → Bool) (n : Nat) (s0 t' : St CHeap)
    (h0 : VmOk (listExtWith eqTag) (listExtWith_codeLawsV eqTag) s0) (p0 : PInv s0)
    (sb : SizeBounded (machine (listExtWith eqTag) force) s0)
    (hk : pureN (machine (listExtWith eqTag) force) n s0 = .done t') :
    ∃ s', runSched (machine (listExtWith eqTag) force) sched n 0 s0 = .done s' ∧
      ∀ fuel, resultObs fuel s' = resultObs fuel t' :=
  gc_unobservable_value_closed _ force (listExtWith_laws eqTag) (listExtWith_good eqTag) (listExtWith_codeLawsV eqTag)
    (listExtWith_proc eqTag) sched n s0 t' h0 p0 sb hk

/-- `run_one` (any of the 16 opcodes, any builtin of the table) and `run_gc` preserve the bundled invariant
    `VmOk ∧ PInv` — the heap invariant of T03.3 (`WFHeap`, allocated roots) included -/
theorem run_one_preserves_vmOkP_listExt (s s' : St CHeap) (b : Bool)
    (h : VmOkP (listExtWith eqTag) (listExtWith_codeLawsV eqTag) s) (sm : Small s.heap)
    (hs : step (concreteOps (listExtWith eqTag)) s = .ok (s', b)) (sm' : Small s'.heap) :
    VmOkP (listExtWith eqTag) (listExtWith_codeLawsV eqTag) s' ∧ Heap.WFHeap true (toHeap s'.heap) ∧
      Heap.RootsOk (toHeap s'.heap) ((rootsOf s').refs true) :=
  run_one_preserves_vmOkP _ (listExtWith_laws eqTag) (listExtWith_good eqTag) (listExtWith_codeLawsV eqTag)
    (listExtWith_proc eqTag) s s' b h sm hs sm'

end

/-! ### non-vacuity: a program that runs `cons`, `set-car!` and `car` -/

open Marwood.Lemmas.Good.LDemo in
/-- every hypothesis holds of the demo state -/
example : VmOk listExt listExt_codeLawsV sDemo ∧ PInv sDemo ∧ SizeBounded (machine listExt false) sDemo :=
  ⟨sDemo_vmOk _ _, sDemo_pinv, sDemo_sizeBounded⟩

open Marwood.Lemmas.Good.LDemo in
/-- `(define p (cons 1 2)) (set-car! p 3) (car p)` returns `3` under EVERY schedule of (utilisation-tested)
    collections, through the theorem -/
theorem demo_every_schedule (sched : Nat → Bool) :
    ∃ s', runSched (machine listExt false) sched 17 0 sDemo = .done s' ∧
      resultObs 5 s' = .atom (.opaque "n3") := by
  obtain ⟨s', h1, h2⟩ := gc_unobservable_value_listExt _ false sched 17 sDemo (st 17) (sDemo_vmOk _ _) sDemo_pinv
    sDemo_sizeBounded (pure_done false)
  exact ⟨s', h1, by rw [h2 5]; exact st17_result⟩

open Marwood.Lemmas.Good.LDemo in
/-- … and under two schedules of FORCED collections (mark and sweep before every instruction; before every third
    instruction), by evaluation of the model; the first run really reclaims the cell of the overwritten `1` -/
theorem demo_forced_schedules :
    (∃ s', runSched (machine listExt true) (fun _ => true) 17 0 sDemo = .done s' ∧
      resultObs 5 s' = .atom (.opaque "n3")) ∧
    (∃ s', runSched (machine listExt true) (fun i => i % 3 == 1) 17 0 sDemo = .done s' ∧
      resultObs 5 s' = .atom (.opaque "n3")) :=
  ⟨doneTag_some sched_all, doneTag_some sched_third⟩

end Marwood.Proofs.C03
