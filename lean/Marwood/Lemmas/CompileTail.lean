import Marwood.Spec.TailPos
/-!
# The compiler emits TCALL exactly for the calls R7RS 3.5 puts in tail position (core forms)
-/
namespace Marwood.Vm
open Marwood Marwood.Spec

def callOp : BC → Option Bool
  | .op .callAcc => some false
  | .op .tcallAcc => some true
  | _ => none

/-- the call instructions of a piece of code, in order: `true` for TCALL, `false` for CALL -/
def callOps (bc : List BC) : List Bool := bc.filterMap callOp

@[simp] theorem callOps_nil : callOps [] = [] := rfl
@[simp] theorem callOps_append (a b : List BC) : callOps (a ++ b) = callOps a ++ callOps b := by
  simp [callOps]
@[simp] theorem callOps_cons (x : BC) (xs : List BC) :
    callOps (x :: xs) = (match callOp x with | some b => [b] | none => []) ++ callOps xs := by
  simp only [callOps, List.filterMap_cons]
  cases callOp x <;> simp

theorem callOps_consChain (n : Nat) : callOps (consChain n) = [] := by
  unfold consChain callOps
  rw [List.filterMap_eq_nil_iff]
  intro x hx
  rw [List.mem_flatMap] at hx
  obtain ⟨i, _, hi⟩ := hx
  split at hi <;> simp at hi <;> rcases hi with rfl | rfl <;> rfl

theorem callOps_storeCode (c : Ctx) (s : Text) : callOps (storeCode c s) = [] := by
  unfold storeCode emitLoc
  cases c.bindingLocation s <;> simp [callOp]

theorem callOps_finishLambda (st : CState) (p : LambdaParts) (code : List BC) :
    callOps (finishLambda st p code).2 = [] := by
  simp [finishLambda, callOp]

/-- the five statements proved together by induction on the fuel -/
structure TailOK (fuel : Nat) : Prop where
  expr : ∀ st c base tail e st' code, compileExpr fuel st c base tail e = .ok (st', code) →
    callOps code = tailCalls fuel tail e
  args : ∀ st c base rest st' code n, compileArgs fuel st c base rest = .ok (st', code, n) →
    callOps code = operandCalls fuel rest
  quasi : ∀ st c base e depth st' code, compileQuasi fuel st c base e depth = .ok (st', code) →
    callOps code = quasiCalls fuel e depth
  qvec : ∀ st c base elems depth st' code, quasiVec fuel st c base elems depth = .ok (st', code) →
    callOps code = quasiElems fuel elems depth
  qlist : ∀ st c base rest depth st' code count t,
    quasiList fuel st c base rest depth = .ok (st', code, count, t) →
    callOps code = quasiElems fuel rest depth

theorem tailOK_zero : TailOK 0 where
  expr := by intro _ _ _ _ _ _ _ h; simp [compileExpr] at h
  args := by intro _ _ _ _ _ _ _ h; simp [compileArgs] at h
  quasi := by intro _ _ _ _ _ _ _ h; simp [compileQuasi] at h
  qvec := by intro _ _ _ _ _ _ _ h; simp [quasiVec] at h
  qlist := by intro _ _ _ _ _ _ _ _ _ h; simp [quasiList] at h

theorem tailOK_succ (fuel : Nat) (ih : TailOK fuel) : TailOK (fuel + 1) where
  args := by
    intro st c base rest st' code n h
    cases rest with
    | pair a d =>
      simp only [compileArgs] at h
      cases h1 : compileExpr fuel st c base false a with
      | error e => simp [h1] at h
      | ok r1 =>
        obtain ⟨st1, code1⟩ := r1
        simp only [h1] at h
        cases h2 : compileArgs fuel st1 c (base + code1.length + 1) d with
        | error e => simp [h2] at h
        | ok r2 =>
          obtain ⟨st2, code2, n2⟩ := r2
          simp only [h2] at h
          cases h
          simp [operandCalls, ih.expr _ _ _ _ _ _ _ h1, ih.args _ _ _ _ _ _ _ h2, callOp]
    | _ => simp only [compileArgs] at h; cases h; simp [operandCalls]
  qvec := by
    intro st c base elems depth st' code h
    cases elems with
    | pair x rest =>
      simp only [quasiVec] at h
      cases h1 : compileQuasi fuel st c (base + 1) x depth with
      | error e => simp [h1] at h
      | ok r1 =>
        obtain ⟨st1, code1⟩ := r1
        simp only [h1] at h
        cases h2 : quasiVec fuel st1 c (base + 1 + code1.length + 1) rest depth with
        | error e => simp [h2] at h
        | ok r2 =>
          obtain ⟨st2, code2⟩ := r2
          simp only [h2] at h
          cases h
          simp [quasiElems, ih.quasi _ _ _ _ _ _ _ h1, ih.qvec _ _ _ _ _ _ _ h2, callOp]
    | _ => simp only [quasiVec] at h; cases h; simp [quasiElems]
  qlist := by
    intro st c base rest depth st' code count t h
    cases rest with
    | pair x d =>
      simp only [quasiList] at h
      cases h1 : compileQuasi fuel st c base x depth with
      | error e => simp [h1] at h
      | ok r1 =>
        obtain ⟨st1, code1⟩ := r1
        simp only [h1] at h
        cases h2 : quasiList fuel st1 c (base + code1.length + 1) d depth with
        | error e => simp [h2] at h
        | ok r2 =>
          obtain ⟨st2, code2, n2, t2⟩ := r2
          simp only [h2] at h
          cases h
          simp [quasiElems, ih.quasi _ _ _ _ _ _ _ h1, ih.qlist _ _ _ _ _ _ _ _ _ h2, callOp]
    | _ => simp only [quasiList] at h; cases h; simp [quasiElems]
  quasi := by
    intro st c base e depth st' code h
    cases e with
    | vec elems =>
      simp only [compileQuasi] at h
      cases h1 : quasiVec fuel st c (base + 6) elems depth with
      | error e => simp [h1] at h
      | ok r1 =>
        obtain ⟨st1, code1⟩ := r1
        simp only [h1] at h
        cases h
        simp [quasiCalls, ih.qvec _ _ _ _ _ _ _ h1, callOp]
    | pair car d =>
      simp only [compileQuasi] at h
      simp only [quasiCalls]
      split at h
      · rename_i hu
        simp only [hu, if_true]
        cases d with
        | pair x d2 =>
          simp only at h ⊢
          exact ih.expr _ _ _ _ _ _ _ h
        | _ => simp at h
      · rename_i hu
        simp only [hu, if_false, Bool.false_eq_true]
        cases h1 : quasiList fuel st c base (.pair car d)
            (if car.isSymStr ['q', 'u', 'a', 's', 'i', 'q', 'u', 'o', 't', 'e'] = true then (if car.isSymStr ['u', 'n', 'q', 'u', 'o', 't', 'e'] = true then depth - 1 else depth) + 1
             else if car.isSymStr ['u', 'n', 'q', 'u', 'o', 't', 'e'] = true then depth - 1 else depth) with
        | error e => simp [h1] at h
        | ok r1 =>
          obtain ⟨st1, code1, cnt, t⟩ := r1
          simp only [h1] at h
          cases h
          simp [ih.qlist _ _ _ _ _ _ _ _ _ h1, callOps_consChain, callOp]
    | _ => simp only [compileQuasi] at h; cases h; simp [quasiCalls, callOp]
  expr := by
    intro st c base tail e st' code h
    cases e with
    | pair proc rest =>
      unfold compileExpr at h
      simp only [tailCalls]
      by_cases hd : proc.isSymStr ['d', 'e', 'f', 'i', 'n', 'e'] = true
      · simp only [hd, if_true] at h ⊢
        cases rest with
        | pair target rest2 =>
          simp only at h
          split at h
          · cases h
          · cases rest2 with
            | pair value rest3 =>
              simp only at h
              cases target with
              | sym s =>
                simp only at h ⊢
                split at h
                · cases h
                · cases h1 : compileExpr fuel st c base false value with
                  | error e => simp [h1] at h
                  | ok r1 =>
                    obtain ⟨st1, code1⟩ := r1
                    simp only [h1] at h
                    split at h
                    · cases h
                    · cases h
                      simp [ih.expr _ _ _ _ _ _ _ h1, callOps_storeCode]
              | pair name d =>
                simp only at h ⊢
                cases hp : lambdaParts fuel c (Datum.pair proc (Datum.pair (Datum.pair name d) (Datum.pair value rest3))) true with
                | error e => simp [hp] at h
                | ok p =>
                  simp only [hp] at h
                  cases hb : compileBody fuel st p.ctx p.prologue.length p.body with
                  | error e => simp [hb] at h
                  | ok r =>
                    obtain ⟨st1, bcode⟩ := r
                    simp only [hb] at h
                    cases name with
                    | sym s =>
                      simp only at h
                      split at h
                      · cases h
                      · cases h
                        simp [callOps_finishLambda, callOps_storeCode]
                    | _ => simp at h
              | _ => simp at h
            | _ => simp at h
        | _ => simp at h
      · simp only [hd, if_false, Bool.false_eq_true] at h ⊢
        by_cases hds : proc.isSymStr ['d', 'e', 'f', 'i', 'n', 'e', '-', 's', 'y', 'n', 't', 'a', 'x'] = true
        · simp [hds] at h
        · simp only [hds, if_false, Bool.false_eq_true] at h ⊢
          by_cases hl : (proc.isSymStr ['l', 'a', 'm', 'b', 'd', 'a'] || proc.isSymStr ['λ']) = true
          · simp only [hl, if_true] at h ⊢
            cases hp : lambdaParts fuel c (Datum.pair proc rest) false with
            | error e => simp [hp] at h
            | ok p =>
              simp only [hp] at h
              cases hb : compileBody fuel st p.ctx p.prologue.length p.body with
              | error e => simp [hb] at h
              | ok r =>
                obtain ⟨st1, bcode⟩ := r
                simp only [hb] at h
                cases h
                simp [finishLambda, callOp]
          · simp only [hl, if_false, Bool.false_eq_true] at h ⊢
            by_cases hq : proc.isSymStr ['q', 'u', 'a', 's', 'i', 'q', 'u', 'o', 't', 'e'] = true
            · simp only [hq, if_true] at h ⊢
              cases rest with
              | pair x d => simp only at h ⊢; exact ih.quasi _ _ _ _ _ _ _ h
              | _ => simp at h
            · simp only [hq, if_false, Bool.false_eq_true] at h ⊢
              by_cases hqq : proc.isSymStr ['q', 'u', 'o', 't', 'e'] = true
              · simp only [hqq, if_true] at h ⊢
                cases rest with
                | pair x d => simp only at h; cases h; simp [callOp]
                | _ => simp at h
              · simp only [hqq, if_false, Bool.false_eq_true] at h ⊢
                by_cases hif : proc.isSymStr ['i', 'f'] = true
                · simp only [hif, if_true] at h ⊢
                  split at h
                  · cases h
                  · split at h
                    · rename_i test conseq hit
                      simp only [hit]
                      cases h1 : compileExpr fuel st c base false test with
                      | error e => simp [h1] at h
                      | ok r1 =>
                        obtain ⟨st1, tcode⟩ := r1
                        simp only [h1] at h
                        cases h2 : compileExpr fuel st1 c (base + tcode.length + 2) tail conseq with
                        | error e => simp [h2] at h
                        | ok r2 =>
                          obtain ⟨st2, ccode⟩ := r2
                          simp only [h2] at h
                          cases h
                          simp [ih.expr _ _ _ _ _ _ _ h1, ih.expr _ _ _ _ _ _ _ h2, callOp]
                    · rename_i test conseq alt hit
                      simp only [hit]
                      cases h1 : compileExpr fuel st c base false test with
                      | error e => simp [h1] at h
                      | ok r1 =>
                        obtain ⟨st1, tcode⟩ := r1
                        simp only [h1] at h
                        cases h2 : compileExpr fuel st1 c (base + tcode.length + 2) tail conseq with
                        | error e => simp [h2] at h
                        | ok r2 =>
                          obtain ⟨st2, ccode⟩ := r2
                          simp only [h2] at h
                          cases h3 : compileExpr fuel st2 c (base + tcode.length + 2 + ccode.length + 2) tail alt with
                          | error e => simp [h3] at h
                          | ok r3 =>
                            obtain ⟨st3, acode⟩ := r3
                            simp only [h3] at h
                            cases h
                            simp [ih.expr _ _ _ _ _ _ _ h1, ih.expr _ _ _ _ _ _ _ h2,
                              ih.expr _ _ _ _ _ _ _ h3, callOp]
                    · cases h
                · simp only [hif, if_false, Bool.false_eq_true] at h ⊢
                  by_cases hs : proc.isSymStr ['s', 'e', 't', '!'] = true
                  · simp only [hs, if_true] at h ⊢
                    split at h
                    · rename_i s value hit
                      simp only [hit]
                      split at h
                      · cases h
                      · cases h1 : compileExpr fuel st c base false value with
                        | error e => simp [h1] at h
                        | ok r1 =>
                          obtain ⟨st1, code1⟩ := r1
                          simp only [h1] at h
                          cases h
                          simp [ih.expr _ _ _ _ _ _ _ h1, callOps_storeCode]
                    · cases h
                    · cases h
                  · simp only [hs, if_false, Bool.false_eq_true] at h ⊢
                    cases h1 : compileArgs fuel st c base rest with
                    | error e => simp [h1] at h
                    | ok r1 =>
                      obtain ⟨st1, code1, n⟩ := r1
                      simp only [h1] at h
                      cases h2 : compileExpr fuel st1 c (base + code1.length + 2) false proc with
                      | error e => simp [h2] at h
                      | ok r2 =>
                        obtain ⟨st2, pcode⟩ := r2
                        simp only [h2] at h
                        cases h
                        cases tail <;>
                          simp [ih.args _ _ _ _ _ _ _ h1, ih.expr _ _ _ _ _ _ _ h2, callOp]
    | sym s =>
      simp only [compileExpr] at h
      split at h
      · cases h
      · cases h
        simp only [tailCalls, emitLoc]
        cases c.bindingLocation s <;> simp [callOp]
    | nil => simp [compileExpr] at h
    | procedure d => simp [compileExpr] at h
    | void => simp [compileExpr] at h
    | undefined => simp [compileExpr] at h
    | macro_ => simp [compileExpr] at h
    | continuation => simp [compileExpr] at h
    | bool b => simp only [compileExpr] at h; cases h; simp [tailCalls, callOp]
    | char ch => simp only [compileExpr] at h; cases h; simp [tailCalls, callOp]
    | num n => simp only [compileExpr] at h; cases h; simp [tailCalls, callOp]
    | str t => simp only [compileExpr] at h; cases h; simp [tailCalls, callOp]
    | vec v => simp only [compileExpr] at h; cases h; simp [tailCalls, callOp]

theorem tailOK_all : ∀ fuel, TailOK fuel
  | 0 => tailOK_zero
  | n+1 => tailOK_succ n (tailOK_all n)

end Marwood.Vm
