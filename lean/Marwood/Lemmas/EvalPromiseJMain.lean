import Marwood.Lemmas.EvalPromiseJForms
import Marwood.Lemmas.EvalPromiseJPrims
import Marwood.Lemmas.EvalPromiseJFuelPrims
/-! Forward simulation with a frame (`SimJ`): mirror of `EvalExtraMain.lean` (see `EvalPromiseJ.lean`). -/
namespace Marwood.Spec.Eval.ExtraJ
open Marwood Marwood.Spec.Eval Marwood.Spec.Eval.Extra

variable {f : LMap} {J : Junk} {r r' : Rec}

theorem simJ_evalTopForm (_hf : Inj f) (hr : RecSimJ f J r r') (d : Datum) :
    SimJ f J (VRel f) (evalTopForm r d) (evalTopForm r' d) := by
  unfold evalTopForm
  split
  · refine SimJ.bind (simJ_defineValue hr (envRel_nil []) d (cleanB_nil d)) (fun p p' hp => ?_)
    obtain ⟨x, v⟩ := p
    obtain ⟨x', v'⟩ := p'
    obtain ⟨h1, _, h3⟩ := hp
    simp only at h1 h3 ⊢
    subst h1
    refine SimJ.bind (simJ_putGlobal x' h3) (fun _ _ _ => ?_)
    exact SimJ.pure _ _ .void
  · exact hr.eval d [] [] [] (envRel_nil []) (cleanB_nil d)

theorem simJ_evalTopForms (hf : Inj f) (hr : RecSimJ f J r r') : ∀ (ds : List Datum),
    SimJ f J (VRel f) (evalTopForms r ds) (evalTopForms r' ds)
  | [] => SimJ.throw _
  | [d] => by simpa [evalTopForms] using simJ_evalTopForm hf hr d
  | d :: d' :: ds => by
    simp only [evalTopForms]
    refine SimJ.bind (simJ_evalTopForm hf hr d) (fun _ _ _ => ?_)
    exact simJ_evalTopForms hf hr (d' :: ds)

theorem simJ_evalTop (hf : Inj f) (hr : RecSimJ f J r r') (d : Datum) : SimJ f J (VRel f) (evalTop r d) (evalTop r' d) := by
  unfold evalTop
  split
  · split
    · split
      · exact simJ_evalTopForms hf hr _
      · exact SimJ.throw _
    · exact simJ_evalTopForm hf hr _
  · exact simJ_evalTopForm hf hr _

theorem simJ_application (hr : RecSimJ f J r r') {B : List Text} {ρ ρ' : Env} (he : EnvRel f B ρ ρ') (g rest : Datum)
    (hg : CleanB B g) (hrest : CleanB B rest) :
    SimJ f J (VRel f)
      (match properList rest with
        | some es => do
          let vs ← evalArgs r ρ es
          let fv ← r.eval g ρ
          r.apply fv vs
        | none => throw .syntax)
      (match properList rest with
        | some es => do
          let vs ← evalArgs r' ρ' es
          let fv ← r'.eval g ρ'
          r'.apply fv vs
        | none => throw .syntax) := by
  split
  · rename_i es hp
    refine SimJ.bind (simJ_evalArgs hr he es (cleanBs_properList hp hrest)) (fun vs vs' hvs => ?_)
    refine SimJ.bind (hr.eval g ρ ρ' B he hg) (fun fv fv' hfv => ?_)
    exact hr.apply fv fv' vs vs' hfv hvs
  · exact SimJ.throw _

theorem simJ_evalStep (hf : Inj f) (hr : RecSimJ f J r r') {B : List Text} {ρ ρ' : Env} (he : EnvRel f B ρ ρ')
    (e : Datum) (hc : CleanB B e) : SimJ f J (VRel f) (evalStep r e ρ) (evalStep r' e ρ') := by
  cases e with
  | sym s => simpa [evalStep] using simJ_evalVar he s (cleanB_sym.1 hc)
  | pair g rest =>
    rw [cleanB_pair] at hc
    cases g with
    | sym s =>
      simp only [evalStep]
      cases hk : kwOf s with
      | some k => exact simJ_evalKw hf hr he k rest hc.2
      | none => exact simJ_application hr he _ rest hc.1 hc.2
    | _ =>
      simp only [evalStep]
      exact simJ_application hr he _ rest hc.1 hc.2
  | nil => exact SimJ.throw _
  | procedure _ => exact SimJ.throw _
  | macro_ => exact SimJ.throw _
  | continuation => exact SimJ.throw _
  | void => exact SimJ.throw _
  | undefined => exact SimJ.throw _
  | bool b => simpa [evalStep] using simJ_quoteVal (f := f) (.bool b)
  | char c => simpa [evalStep] using simJ_quoteVal (f := f) (.char c)
  | num n => simpa [evalStep] using simJ_quoteVal (f := f) (.num n)
  | str t => simpa [evalStep] using simJ_quoteVal (f := f) (.str t)
  | vec v => simpa [evalStep] using simJ_quoteVal (f := f) (.vec v)

theorem simJAt_applyPrim1 (hf : Inj f) (p : Prim) {args args' : List Val} (ha : VsRel f args args') {st st' : St}
    (r : StRelJ f J st st') (hc : helperCut (.prim p) args st.store = false) :
    ResRelJ f J (VRel f) (applyPrim1 p args st) (applyPrim1 p args' st') := by
  cases hg : primGroup p with
  | num => simp only [applyPrim1, hg]; exact simJ_primNum p ha st st' r
  | pair =>
    simp only [applyPrim1, hg]
    by_cases hp : pairNoFuel p = true
    · exact simJ_primPair hf p hp ha st st' r
    · cases p <;> simp [pairNoFuel] at hp
      case length =>
        rcases ha with _ | ⟨h1, _ | ⟨h2, _⟩⟩
        · exact ⟨rfl, r⟩
        · exact simJAt_length r h1 (by simpa using hc)
        · exact ⟨rfl, r⟩
      case reverse =>
        rcases ha with _ | ⟨h1, _ | ⟨h2, _⟩⟩
        · exact ⟨rfl, r⟩
        · exact simJAt_reverse r h1 (by simpa using hc)
        · exact ⟨rfl, r⟩
      case listP =>
        rcases ha with _ | ⟨h1, _ | ⟨h2, _⟩⟩
        · exact ⟨rfl, r⟩
        · exact simJAt_listP r h1 (by simpa using hc)
        · exact ⟨rfl, r⟩
      case append =>
        rcases ha with _ | ⟨h1, _ | ⟨h2, _ | ⟨h3, _ | ⟨h4, _⟩⟩⟩⟩
        · exact ⟨.nil, r⟩
        · exact ⟨h1, r⟩
        · exact simJAt_append2 r h1 h2 (by simpa using hc)
        · have hc' := hc
          rw [helperCut_append3, Bool.or_eq_false_iff] at hc'
          exact simJAt_append3 r h1 h2 h3 hc'.1 hc'.2
        · exact ⟨rfl, r⟩
      case memv =>
        rcases ha with _ | ⟨h1, _ | ⟨h2, _ | ⟨h3, _⟩⟩⟩
        · exact ⟨rfl, r⟩
        · exact ⟨rfl, r⟩
        · exact simJAt_mem hf r .memv false primPair_memv h1 h2 (by simpa using hc)
        · exact ⟨rfl, r⟩
      case memq =>
        rcases ha with _ | ⟨h1, _ | ⟨h2, _ | ⟨h3, _⟩⟩⟩
        · exact ⟨rfl, r⟩
        · exact ⟨rfl, r⟩
        · exact simJAt_mem hf r .memq false primPair_memq h1 h2 (by simpa using hc)
        · exact ⟨rfl, r⟩
      case assv =>
        rcases ha with _ | ⟨h1, _ | ⟨h2, _ | ⟨h3, _⟩⟩⟩
        · exact ⟨rfl, r⟩
        · exact ⟨rfl, r⟩
        · exact simJAt_mem hf r .assv true primPair_assv h1 h2 (by simpa using hc)
        · exact ⟨rfl, r⟩
      case assq =>
        rcases ha with _ | ⟨h1, _ | ⟨h2, _ | ⟨h3, _⟩⟩⟩
        · exact ⟨rfl, r⟩
        · exact ⟨rfl, r⟩
        · exact simJAt_mem hf r .assq true primPair_assq h1 h2 (by simpa using hc)
        · exact ⟨rfl, r⟩
  | vec =>
    simp only [applyPrim1, hg]
    by_cases hp : p = .listToVector
    · subst hp
      rcases ha with _ | ⟨h1, _ | ⟨h2, _⟩⟩
      · exact ⟨rfl, r⟩
      · exact simJAt_listToVector r h1 (by simpa using hc)
      · exact ⟨rfl, r⟩
    · exact simJ_primVec hf p hp ha st st' r
  | pred =>
    simp only [applyPrim1, hg]
    by_cases hp : p = .equalP
    · subst hp
      rcases ha with _ | ⟨h1, _ | ⟨h2, _ | ⟨h3, _⟩⟩⟩
      · exact ⟨rfl, r⟩
      · exact ⟨rfl, r⟩
      · exact simJAt_equalP hf r h1 h2 (by simpa using hc)
      · exact ⟨rfl, r⟩
    · exact simJ_primPred hf p hp ha st st' r
  | misc =>
    simp only [applyPrim1, hg]
    cases p <;> simp [primGroup] at hg
    case display =>
      rcases ha with _ | ⟨h1, _ | ⟨h2, _⟩⟩
      · exact ⟨rfl, r⟩
      · exact simJAt_display r h1 (by simpa using hc)
      · exact ⟨rfl, r⟩
    case write =>
      rcases ha with _ | ⟨h1, _ | ⟨h2, _⟩⟩
      · exact ⟨rfl, r⟩
      · exact simJAt_write r h1 (by simpa using hc)
      · exact ⟨rfl, r⟩
    case error => exact simJ_primMisc_error st st' r

theorem simJAt_applyStep (hf : Inj f) (hr : RecSimJ f J r r') {g g' : Val} (hg : VRel f g g') {args args' : List Val}
    (ha : VsRel f args args') {st st' : St} (rs : StRelJ f J st st') (hc : helperCut g args st.store = false) :
    ResRelJ f J (VRel f) (applyStep r g args st) (applyStep r' g' args' st') := by
  cases hg with
  | closure ps rest body ρ ρ' B hρ hb =>
    simp only [applyStep]
    exact SimJ.bind (simJ_bindArgs ps rest ha hρ) (fun ρ1 ρ1' h1 => simJ_evalBody hf hr h1 body hb) st st' rs
  | prim p =>
    by_cases h1 : p = .apply
    · subst h1
      rcases ha with _ | ⟨hg1, _ | ⟨h2, h3⟩⟩
      · exact ⟨rfl, rs⟩
      · exact ⟨rfl, rs⟩
      · simp only [applyStep]
        have hlast := (VsRel.cons h2 h3).getLastD
        refine ResRelJ.bind (simJAt_getList rs hlast (by simpa using hc)) (fun xs xs' s s' _ hx rs2 => ?_)
        exact hr.apply _ _ _ _ hg1 ((VsRel.cons h2 h3).dropLast.append hx) s s' rs2
    by_cases h2 : p = .eval
    · subst h2
      rcases ha with _ | ⟨hv, _ | ⟨h2, h3⟩⟩
      · exact ⟨rfl, rs⟩
      · simp only [applyStep]
        refine ResRelJ.bind (simJAt_externalise rs hv (by simpa using hc)) (fun d d' s s' _ hd rs2 => ?_)
        subst hd
        exact simJ_evalTop hf hr _ s s' rs2
      · exact ⟨rfl, rs⟩
    by_cases h3 : p = .force
    · subst h3
      rcases ha with _ | ⟨hv, _ | ⟨h2, h3⟩⟩
      · exact ⟨rfl, rs⟩
      · cases hv with
        | promise l =>
          simp only [applyStep]
          refine SimJ.bind (simJ_readCell rfl) (fun c c' hcell => ?_) st st' rs
          cases hcell with
          | promise b hw =>
            cases b with
            | true => exact SimJ.pure _ _ hw
            | false =>
              simp only
              refine SimJ.bind (hr.apply _ _ _ _ hw .nil) (fun v v' hv => ?_)
              refine SimJ.bind (simJ_readCell rfl) (fun c2 c2' hc2 => ?_)
              cases hc2 with
              | promise b2 hw2 =>
                cases b2 with
                | true => exact SimJ.pure _ _ hw2
                | false =>
                  simp only
                  exact SimJ.bind (simJ_writeCell hf rfl (.promise true hv)) (fun _ _ _ => SimJ.pure _ _ hv)
              | var _ => exact SimJ.bind (simJ_writeCell hf rfl (.promise true hv)) (fun _ _ _ => SimJ.pure _ _ hv)
              | pair _ _ => exact SimJ.bind (simJ_writeCell hf rfl (.promise true hv)) (fun _ _ _ => SimJ.pure _ _ hv)
              | vec _ => exact SimJ.bind (simJ_writeCell hf rfl (.promise true hv)) (fun _ _ _ => SimJ.pure _ _ hv)
          | var _ => exact SimJ.throw _
          | pair _ _ => exact SimJ.throw _
          | vec _ => exact SimJ.throw _
        | _ => exact ⟨rfl, rs⟩
      · cases hv <;> exact ⟨rfl, rs⟩
    by_cases h4 : p = .map
    · subst h4
      rcases ha with _ | ⟨hg1, _ | ⟨h2, h3⟩⟩
      · exact ⟨rfl, rs⟩
      · exact ⟨rfl, rs⟩
      · simp only [applyStep]
        have hc' := hc
        rw [helperCut_map] at hc'
        refine ResRelJ.bind (simJAt_getLists rs (.cons h2 h3)
          (fun v hv => by simpa using List.any_eq_false.1 hc' v hv)) (fun lists lists' s s' hm hl rs2 => ?_)
        have hs := getLists_ok_state hm
        subst hs
        exact SimJ.bind (simJ_mapApply hr hg1 (simAt_zipRows rs2.toStRel hm hl)) (fun vs vs' hvs => simJ_allocList hvs) s s' rs2
    by_cases h5 : p = .forEach
    · subst h5
      rcases ha with _ | ⟨hg1, _ | ⟨h2, h3⟩⟩
      · exact ⟨rfl, rs⟩
      · exact ⟨rfl, rs⟩
      · simp only [applyStep]
        have hc' := hc
        rw [helperCut_forEach] at hc'
        refine ResRelJ.bind (simJAt_getLists rs (.cons h2 h3)
          (fun v hv => by simpa using List.any_eq_false.1 hc' v hv)) (fun lists lists' s s' hm hl rs2 => ?_)
        have hs := getLists_ok_state hm
        subst hs
        exact SimJ.bind (simJ_mapApply hr hg1 (simAt_zipRows rs2.toStRel hm hl)) (fun vs vs' hvs => SimJ.pure _ _ .void) s s' rs2
    have e1 : ∀ (rr : Rec) (as : List Val), applyStep rr (.prim p) as = applyPrim1 p as := by
      intro rr as
      cases p <;> first | rfl | exact absurd rfl h1 | exact absurd rfl h2 | exact absurd rfl h3 | exact absurd rfl h4 | exact absurd rfl h5
    rw [e1, e1]
    exact simJAt_applyPrim1 hf p ha rs hc
  | _ => exact ⟨rfl, rs⟩

/-- the guarded evaluator at fuel `n` is simulated by the evaluator at fuel `n` -/
theorem recSimJ (hf : Inj f) : ∀ (n : Nat), RecSimJ f J (guardN n) (evalN n)
  | 0 => ⟨fun _ _ _ _ _ _ => SimJ.timeout _, fun _ _ _ _ _ _ => SimJ.timeout _⟩
  | n+1 => ⟨fun e ρ ρ' B he hc => simJ_evalStep hf (recSimJ hf n) he e hc,
            fun g g' args args' hg ha st st' rs => by
              show ResRelJ f J (VRel f) (guardApply (guardN n) g args st) (applyStep (evalN n) g' args' st')
              unfold guardApply
              split
              · trivial
              · rename_i hcut
                exact simJAt_applyStep hf (recSimJ hf n) hg ha rs (by simpa using hcut)⟩

/-- **Extra-cell invariance.** If the native evaluation of `e` (environment `ρ`, state `st`, fuel `n`)
    ends definitely without running a store-size-fuelled helper into its bound, then evaluating `e`
    with the same fuel in an environment `ρ'` that agrees with `ρ` (under the location map `f`) on all
    names except those in `B`, none of which occurs in `e`, from a state `st'` that holds the native
    cells at their images under `f` (and any other cells elsewhere), ends with the same kind of outcome:
    related values (the same up to `f`), the same error class, the same output log, related globals
    and stores. -/
theorem extra_cell_invariance (hf : Inj f) (n : Nat) (e : Datum) {B : List Text} {ρ ρ' : Env} (he : EnvRel f B ρ ρ')
    (hc : CleanB B e) {st st' : St} (rs : StRelJ f J st st') :
    ResRelJ f J (VRel f) ((guardN n).eval e ρ st) ((evalN n).eval e ρ' st') :=
  (recSimJ hf n).eval e ρ ρ' B he hc st st' rs

theorem extra_cell_invariance_apply (hf : Inj f) (n : Nat) {g g' : Val} (hg : VRel f g g') {args args' : List Val}
    (ha : VsRel f args args') {st st' : St} (rs : StRelJ f J st st') :
    ResRelJ f J (VRel f) ((guardN n).apply g args st) ((evalN n).apply g' args' st') :=
  (recSimJ hf n).apply g g' args args' hg ha st st' rs

/-- … and for a whole top-level form (definitions included): the forms that FOLLOW a derived form in a
    session are evaluated alike after the native form and after its expansion -/
theorem extra_cell_invariance_top (hf : Inj f) (n : Nat) (d : Datum) {st st' : St} (rs : StRelJ f J st st') :
    ResRelJ f J (VRel f) (evalTop (guardN n) d st) (evalTop (evalN n) d st') :=
  simJ_evalTop hf (recSimJ hf n) d st st' rs

end Marwood.Spec.Eval.ExtraJ
