import Marwood.Lemmas.EvalExtraMain
/-!
# The cut predicates of `EvalExtraCut`: monotone in the fuel, invariant under a store relation

* `*_mono`: no cut with fuel `m` ⇒ no cut with fuel `m + k`;
* `*_rel`: with the same fuel, the cut predicate has the same value on `VRel`-related values in
  `StRel`-related stores.
-/
namespace Marwood.Spec.Eval.Conv
open Marwood Marwood.Spec.Eval Marwood.Spec.Eval.Extra
variable {f : LMap}

/-! ## monotonicity in the fuel -/

/-- no cut with fuel m ⇒ no cut with more fuel -/
theorem valCut_mono (σ : Array Cell) : ∀ (m k : Nat) (v : Val),
    valCut m σ v = false → valCut (m + k) σ v = false := by
  intro m
  induction m with
  | zero =>
    intro k v h
    cases v <;> first | (simp [valCut] at h; done) | (cases k <;> simp [valCut])
  | succ m ih =>
    intro k v h
    have e : m + 1 + k = (m + k) + 1 := by omega
    rw [e]
    cases v with
    | pair l =>
      simp only [valCut] at h ⊢
      cases hc : σ[l]? with
      | none => rfl
      | some c =>
        cases c with
        | pair a d =>
          simp only [hc, Bool.or_eq_false_iff] at h ⊢
          exact ⟨ih k a h.1, ih k d h.2⟩
        | _ => rfl
    | vec l =>
      simp only [valCut] at h ⊢
      cases hc : σ[l]? with
      | none => rfl
      | some c =>
        cases c with
        | vec xs =>
          simp only [hc, List.any_eq_false] at h ⊢
          intro x hx
          have := ih k x (by simpa using h x hx)
          simp [this]
        | _ => rfl
    | promise l =>
      simp only [valCut] at h ⊢
      cases hc : σ[l]? with
      | none => rfl
      | some c =>
        cases c with
        | promise dn v =>
          simp only [hc] at h ⊢
          exact ih k v h
        | _ => rfl
    | _ => simp [valCut]

theorem listCut_mono (σ : Array Cell) : ∀ (m k : Nat) (v : Val),
    listCut m σ v = false → listCut (m + k) σ v = false := by
  intro m
  induction m with
  | zero =>
    intro k v h
    cases v <;> first | (simp [listCut] at h; done) | (cases k <;> simp [listCut])
  | succ m ih =>
    intro k v h
    have e : m + 1 + k = (m + k) + 1 := by omega
    rw [e]
    cases v with
    | pair l =>
      simp only [listCut] at h ⊢
      cases hc : σ[l]? with
      | none => rfl
      | some c =>
        cases c with
        | pair a d =>
          simp only [hc] at h ⊢
          exact ih k d h
        | _ => rfl
    | _ => simp [listCut]

theorem eqCut_mono (σ : Array Cell) : ∀ (m k : Nat) (a b : Val),
    eqCut m σ a b = false → eqCut (m + k) σ a b = false := by
  intro m
  induction m with
  | zero =>
    intro k a b h
    cases k with
    | zero => exact h
    | succ k =>
      cases a <;> cases b <;> first | (simp [eqCut] at h; done) | simp [eqCut]
  | succ m ih =>
    intro k a b h
    have e : m + 1 + k = (m + k) + 1 := by omega
    rw [e]
    cases a with
    | pair x =>
      cases b with
      | pair y =>
        simp only [eqCut] at h ⊢
        cases hx : σ[x]? with
        | none => rfl
        | some cx =>
          cases hy : σ[y]? with
          | none => cases cx <;> rfl
          | some cy =>
            cases cx <;> cases cy <;> try rfl
            rename_i a1 d1 a2 d2
            simp only [hx, hy, Bool.or_eq_false_iff] at h ⊢
            exact ⟨ih k a1 a2 h.1, ih k d1 d2 h.2⟩
      | _ => simp [eqCut]
    | vec x =>
      cases b with
      | vec y =>
        simp only [eqCut] at h ⊢
        cases hx : σ[x]? with
        | none => rfl
        | some cx =>
          cases hy : σ[y]? with
          | none => cases cx <;> rfl
          | some cy =>
            cases cx <;> cases cy <;> try rfl
            rename_i xs ys
            simp only [hx, hy, List.any_eq_false] at h ⊢
            intro p hp
            have := ih k p.1 p.2 (by simpa using h p hp)
            simp [this]
      | _ => simp [eqCut]
    | _ => cases b <;> simp [eqCut]

theorem spineCut_mono (σ : Array Cell) : ∀ (m k : Nat) (v : Val),
    spineCut m σ v = false → spineCut (m + k) σ v = false := by
  intro m
  induction m with
  | zero => intro k v h; simp [spineCut] at h
  | succ m ih =>
    intro k v h
    have e : m + 1 + k = (m + k) + 1 := by omega
    rw [e]
    cases v with
    | pair l =>
      simp only [spineCut] at h ⊢
      cases hc : σ[l]? with
      | none => rfl
      | some c =>
        cases c with
        | pair a d =>
          simp only [hc] at h ⊢
          exact ih k d h
        | _ => rfl
    | _ => simp [spineCut]

/-! ## invariance under the store relation -/

theorem any_congr_rel {xs xs' : List Val} {g g' : Val → Bool} (h : VsRel f xs xs')
    (hg : ∀ v v', VRel f v v' → g' v' = g v) : xs'.any g' = xs.any g := by
  induction h with
  | nil => rfl
  | cons hv _ ih => simp [hg _ _ hv, ih]

theorem any_zip_congr_rel {xs xs' ys ys' : List Val} {g g' : Val × Val → Bool}
    (hx : VsRel f xs xs') (hy : VsRel f ys ys')
    (hg : ∀ a a' b b', VRel f a a' → VRel f b b' → g' (a', b') = g (a, b)) :
    (xs'.zip ys').any g' = (xs.zip ys).any g := by
  induction hx generalizing ys ys' with
  | nil => simp
  | cons hv _ ih =>
    cases hy with
    | nil => simp
    | cons hw hy' => simp [hg _ _ _ _ hv hw, ih hy']

/-- with the SAME fuel, the cut predicate has the same value on related values in related stores -/
theorem valCut_rel {st st' : St} (r : StRel f st st') : ∀ (m : Nat) {v v' : Val}, VRel f v v' →
    valCut m st'.store v' = valCut m st.store v := by
  intro m
  induction m with
  | zero => intro v v' hv; cases hv <;> rfl
  | succ m ih =>
    intro v v' hv
    cases hv with
    | pair l =>
      simp only [valCut]
      have hc := r.cell l
      revert hc
      generalize st.store[l]? = o
      generalize st'.store[f l]? = o'
      intro hc
      cases hc with
      | none => rfl
      | some hc => cases hc with
        | pair ha hd => simp only [ih ha, ih hd]
        | _ => rfl
    | vec l =>
      simp only [valCut]
      have hc := r.cell l
      revert hc
      generalize st.store[l]? = o
      generalize st'.store[f l]? = o'
      intro hc
      cases hc with
      | none => rfl
      | some hc => cases hc with
        | vec hx => exact any_congr_rel hx (fun v v' hv => ih hv)
        | _ => rfl
    | promise l =>
      simp only [valCut]
      have hc := r.cell l
      revert hc
      generalize st.store[l]? = o
      generalize st'.store[f l]? = o'
      intro hc
      cases hc with
      | none => rfl
      | some hc => cases hc with
        | promise b hw => simp only [ih hw]
        | _ => rfl
    | _ => rfl

theorem listCut_rel {st st' : St} (r : StRel f st st') : ∀ (m : Nat) {v v' : Val}, VRel f v v' →
    listCut m st'.store v' = listCut m st.store v := by
  intro m
  induction m with
  | zero => intro v v' hv; cases hv <;> rfl
  | succ m ih =>
    intro v v' hv
    cases hv with
    | pair l =>
      simp only [listCut]
      have hc := r.cell l
      revert hc
      generalize st.store[l]? = o
      generalize st'.store[f l]? = o'
      intro hc
      cases hc with
      | none => rfl
      | some hc => cases hc with
        | pair ha hd => simp only [ih hd]
        | _ => rfl
    | _ => rfl

theorem eqCut_rel {st st' : St} (r : StRel f st st') : ∀ (m : Nat) {a a' b b' : Val},
    VRel f a a' → VRel f b b' → eqCut m st'.store a' b' = eqCut m st.store a b := by
  intro m
  induction m with
  | zero => intro a a' b b' ha hb; cases ha <;> cases hb <;> rfl
  | succ m ih =>
    intro a a' b b' ha hb
    cases ha with
    | pair l1 =>
      cases hb with
      | pair l2 =>
        simp only [eqCut]
        have hc1 := r.cell l1
        have hc2 := r.cell l2
        revert hc1 hc2
        generalize st.store[l1]? = o1
        generalize st'.store[f l1]? = o1'
        generalize st.store[l2]? = o2
        generalize st'.store[f l2]? = o2'
        intro hc1 hc2
        cases hc1 with
        | none => cases hc2 <;> rfl
        | some hc1 =>
          cases hc2 with
          | none => cases hc1 <;> rfl
          | some hc2 =>
            cases hc1 <;> cases hc2 <;> try rfl
            rename_i ha1 hd1 _ _ _ _ ha2 hd2
            simp only [ih ha1 ha2, ih hd1 hd2]
      | _ => rfl
    | vec l1 =>
      cases hb with
      | vec l2 =>
        simp only [eqCut]
        have hc1 := r.cell l1
        have hc2 := r.cell l2
        revert hc1 hc2
        generalize st.store[l1]? = o1
        generalize st'.store[f l1]? = o1'
        generalize st.store[l2]? = o2
        generalize st'.store[f l2]? = o2'
        intro hc1 hc2
        cases hc1 with
        | none => cases hc2 <;> rfl
        | some hc1 =>
          cases hc2 with
          | none => cases hc1 <;> rfl
          | some hc2 =>
            cases hc1 <;> cases hc2 <;> try rfl
            rename_i hx _ _ hy
            exact any_zip_congr_rel hx hy (fun a a' b b' ha hb => ih ha hb)
      | _ => rfl
    | _ => cases hb <;> rfl

theorem spineCut_rel {st st' : St} (r : StRel f st st') : ∀ (m : Nat) {v v' : Val}, VRel f v v' →
    spineCut m st'.store v' = spineCut m st.store v := by
  intro m
  induction m with
  | zero => intro v v' hv; rfl
  | succ m ih =>
    intro v v' hv
    cases hv with
    | pair l =>
      simp only [spineCut]
      have hc := r.cell l
      revert hc
      generalize st.store[l]? = o
      generalize st'.store[f l]? = o'
      intro hc
      cases hc with
      | none => rfl
      | some hc => cases hc with
        | pair ha hd => simp only [ih hd]
        | _ => rfl
    | _ => rfl

end Marwood.Spec.Eval.Conv
