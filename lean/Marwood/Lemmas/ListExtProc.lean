import Marwood.Vm.ListExt
import Marwood.Lemmas.ListExtCode
import Marwood.Lemmas.ProcInvMain
/-!
# `ExtProc (listExtWith eqTag)`: the real builtins create no entry code and return nothing that leads to it

One lemma per builtin through the per-operation lemmas of `Lemmas/ProcInvOps.lean` (`putV_res`, `cwrite_res`,
`deref_valPB`), then the table.

`ExtProc.eval` carries the premise `LF h` (lambda cells are not on the free list — a clause of the invariant
`CInvG`, in scope at every use of the law). It was added when this instance was proved: from `HP h` alone **no
allocating builtin satisfies the law**. `HP` says nothing about the free list, so take a heap whose free list starts
with the address of a lambda cell that a closure cell refers to; `cons` allocates that address (`Heap::alloc` pops the
free list), overwrites the lambda, and the closure cell of the new heap violates `HP` (`ProcWitness.cons_breaks_hp`,
`extProc_needs_lf`). The modelled opcodes never meet such a heap because their lemmas take `LF h` too.
-/
namespace Marwood.Lemmas.Good
open Marwood Marwood.Vm Marwood.Vm.Verify Marwood.Vm.Concrete Marwood.Vm.Concrete.ListExt Marwood.Lemmas.Sim
open Marwood.Heap (GcState)
open StepC

/-! ## one lemma per builtin -/

section
variable (eqTag : String → String → Bool) {h h' : CHeap} {v : VCell}

theorem asPtr_ptr {w : VCell} {p : Nat} (e : asPtr w = .ok p) : w = .ptr p := by
  cases w <;> simp only [asPtr] at e <;> cases e; rfl

theorem evalCar_proc (first : Bool) (hp : HP h) {x : VCell} (hx : plainGlob x = true ∧ neB h x = true)
    (he : evalCar first h x = .ok (h', v)) : HP h' ∧ EShr h h' ∧ valPB h' v = true := by
  unfold evalCar at he
  have hv := deref_valPB hp hx.1 hx.2
  cases hd : deref h x with
  | pair a d =>
    rw [hd] at he hv
    cases he
    have hv' : (!entryAt h a && !entryAt h d) = true := hv
    simp only [Bool.and_eq_true] at hv'
    refine ⟨hp, .refl h, ?_⟩
    cases first
    · exact hv'.2
    · exact hv'.1
  | _ => rw [hd] at he; cases he

theorem evalCons_proc (hp : HP h) (lf : LF h) {d a : VCell} (hd : plainGlob d = true ∧ neB h d = true)
    (ha : plainGlob a = true ∧ neB h a = true) (he : evalCons h d a = .ok (h', v)) :
    HP h' ∧ EShr h h' ∧ valPB h' v = true := by
  simp only [evalCons] at he
  obtain ⟨dp, h1, he⟩ := bind_ok he
  obtain ⟨ap, h2, he⟩ := bind_ok he
  cases he
  obtain ⟨r1, n1⟩ := putV_res lf hp (valPB_of_value hd.1 hd.2)
  obtain ⟨r2, n2⟩ := putV_res r1.lf r1.hp (r1.valPB (valPB_of_value ha.1 ha.2))
  rw [asPtr_ptr h1] at n1
  rw [asPtr_ptr h2] at n2
  have e1 : entryAt (putV (putV h d).1 a).1 dp = false := by rw [r2.ls.entry]; exact ptr_entry n1
  exact ⟨r2.hp, (r1.trans r2).eshr, valPB_pair (ptr_entry n2) e1⟩

theorem evalSetPair_proc (first : Bool) (hp : HP h) (lf : LF h) {obj pair : VCell}
    (ho : plainGlob obj = true ∧ neB h obj = true) (he : evalSetPair first h obj pair = .ok (h', v)) :
    HP h' ∧ EShr h h' ∧ valPB h' v = true := by
  simp only [evalSetPair] at he
  cases hd : deref h pair with
  | pair a d =>
    rw [hd] at he
    simp only at he
    obtain ⟨o, h1, he⟩ := bind_ok he
    obtain ⟨p, h2, he⟩ := bind_ok he
    cases he
    have := asPtr_ptr h2
    subst this
    have hcell := getAt_pair_cell (show getAt h p = .pair a d from hd)
    obtain ⟨r1, n1⟩ := putV_res lf hp (valPB_of_value ho.1 ho.2)
    rw [asPtr_ptr h1] at n1
    have hold : ∀ lam, (putV h obj).1.cells[p]? ≠ some (CCell.lambda lam) := by
      intro lam hl
      have := r1.ls p
      rw [lambdaAt_iff.mpr hl] at this
      have := lambdaAt_iff.mp this.symm
      rw [hcell] at this; cases this
    have hpair : (!entryAt h a && !entryAt h d) = true := hp.cells p _ hcell
    simp only [Bool.and_eq_true] at hpair
    have ea : entryAt (putV h obj).1 a = false := by rw [r1.ls.entry]; simpa using hpair.1
    have ed : entryAt (putV h obj).1 d = false := by rw [r1.ls.entry]; simpa using hpair.2
    have eo : entryAt (putV h obj).1 o = false := ptr_entry n1
    have r2 : OpRes (putV h obj).1 (cwrite (putV h obj).1 p (.val (if first then .pair o d else .pair a o))) := by
      refine cwrite_res r1.lf r1.hp hold (fun lam hh => by cases hh) ?_
      cases first
      · exact valPB_pair ea eo
      · exact valPB_pair eo ed
    exact ⟨r2.hp, (r1.trans r2).eshr, rfl⟩
  | _ => rw [hd] at he; cases he

theorem evalPrim_proc (p : Prim) (hp : HP h) (lf : LF h) {args : List VCell}
    (hargs : ∀ a ∈ args, plainGlob a = true ∧ neB h a = true)
    (he : evalPrim eqTag p h args = .ok (h', v)) : HP h' ∧ EShr h h' ∧ valPB h' v = true := by
  have pure : ∀ b : Bool, (Outcome.ok (h, VCell.bool b) : Outcome (CHeap × VCell)) = .ok (h', v) →
      HP h' ∧ EShr h h' ∧ valPB h' v = true := by
    intro b e; cases e; exact ⟨hp, .refl h, rfl⟩
  match args, hargs with
  | [], _ => cases p <;> cases he
  | [x], hargs =>
    have hx := hargs x (by simp)
    cases p with
    | car => exact evalCar_proc true hp hx he
    | cdr => exact evalCar_proc false hp hx he
    | pred q => exact pure _ he
    | _ => cases he
  | [x, y], hargs =>
    have hx := hargs x (by simp)
    have hy := hargs y (by simp)
    cases p with
    | cons => exact evalCons_proc hp lf hx hy he
    | setCar => exact evalSetPair_proc true hp lf hx he
    | setCdr => exact evalSetPair_proc false hp lf hx he
    | eq => exact pure _ he
    | _ => cases he
  | _ :: _ :: _ :: _, _ => cases p <;> cases he

/-- **the real builtins create no entry code and return nothing that leads to entry code** -/
theorem listExtWith_proc : ExtProc (listExtWith eqTag) where
  eval := by
    intro h id args h' v hp lf hargs he
    have he' : ListExt.builtinEval eqTag h id args = .ok (h', v) := he
    unfold ListExt.builtinEval at he'
    cases hq : primOf id with
    | none => rw [hq] at he'; cases he'
    | some p => rw [hq] at he'; exact evalPrim_proc eqTag p hp lf hargs he'
  compile := fun _ _ _ _ _ _ _ h => (by cases h)
  vpush := fun _ _ _ _ _ _ _ _ h => (by cases h)

theorem listExt_proc : ExtProc listExt := listExtWith_proc _

end

/-! ## why the law carries the premise `LF h` -/

namespace ProcWitness

/-- cell 0: a procedure-code lambda that is (wrongly) on the free list; cell 1: a closure over it -/
def hBad : CHeap :=
  { chunk := 4
    cells := #[.lambda { bc := [.opcode .enter, .opcode .ret], args := [], envmap := [] }, .val (.closure 0 2),
      .lexEnv [], .val .undefined]
    gc := #[.allocated, .allocated, .allocated, .free], free := [0, 3], symtab := [], globSyms := [], globals := #[] }

theorem hBad_hp : HP hBad := heapPB_sound (by decide +kernel)

/-- `LF` is exactly what fails -/
theorem hBad_not_lf : ¬ LF hBad := fun lf => lf 0 _ rfl (by decide)

/-- `(cons #t #t)` on that heap succeeds and destroys `HP`: the closure cell now refers to a `val` cell -/
theorem cons_breaks_hp : ∃ h' v, listExt.builtinEval hBad idCons [.bool true, .bool true] = .ok (h', v) ∧ ¬ HP h' := by
  refine ⟨_, _, rfl, ?_⟩
  intro hp
  have := hp.cells 1 (.val (.closure 0 2)) (by decide +kernel)
  revert this
  decide +kernel

end ProcWitness

/-- **the premise `LF h` of `ExtProc.eval` cannot be dropped**: the law as it was first stated (from `HP h` alone)
    is false of the real `cons` — of every parameter set whose `cons` allocates -/
theorem extProc_needs_lf :
    ¬ ∀ (h : CHeap) (id : Nat) (args : List VCell) (h' : CHeap) (v : VCell), HP h →
      (∀ a ∈ args, plainGlob a = true ∧ neB h a = true) →
      listExt.builtinEval h id args = .ok (h', v) → HP h' ∧ EShr h h' ∧ valPB h' v = true := by
  intro law
  obtain ⟨h', v, he, hn⟩ := ProcWitness.cons_breaks_hp
  refine hn (law _ _ _ _ _ ProcWitness.hBad_hp ?_ he).1
  intro a ha
  simp only [List.mem_cons, List.not_mem_nil, or_false, or_self] at ha
  subst ha
  exact ⟨rfl, rfl⟩

end Marwood.Lemmas.Good
