import Marwood.Vm.ListExt
import Marwood.Lemmas.ListExtCode
import Marwood.Lemmas.ProcInvMain
/-!
# "No value leads to entry code" for `listExtWith eqTag` — and why the law `ExtProc` had to be weakened

`ExtProc ext` (`Lemmas/ProcInvOps.lean`) asks of a generic builtin: *from `HP h` alone* (every closure cell's
lambda is procedure code, no value points to entry code) conclude `HP h'`. **No allocating builtin satisfies that**:
`HP` says nothing about the free list, so take a heap whose free list starts with the address of a lambda cell that a
closure cell refers to; `cons` allocates that address (`Heap::alloc` pops the free list), overwrites the lambda, and
the closure cell of the new heap violates `HP`. The modelled opcodes never meet such a heap because their lemmas take
`LF h` (lambda cells are not on the free list — a clause of the invariant `CInvG`), and at every use site of `ExtProc`
`LF` of the current heap is in scope. `ExtProcL` is `ExtProc` with that premise added to the `eval` field; it is
implied by `ExtProc` (`ExtProc.toL`), the invariant theorem `pinv_step` and its consequences `vmOkP_reaches` /
`calleeOkAlong_of_vmOk` are re-proved from it here (`…_L`; the proofs of the opcodes are reused unchanged, only the
builtin branch of CALL / TCALL and VPUSH mention the law), and it holds of the real builtins (`listExtWith_procL`).
-/
namespace Marwood.Lemmas.Good
open Marwood Marwood.Vm Marwood.Vm.Verify Marwood.Vm.Concrete Marwood.Vm.Concrete.ListExt Marwood.Lemmas.Sim
open Marwood.Heap (GcState)
open StepC

/-- `ExtProc` with the premise `LF h` (lambda cells are not on the free list) for the generic builtins -/
structure ExtProcL (ext : ExtOps) : Prop where
  eval : ∀ (h : CHeap) (id : Nat) (args : List VCell) (h' : CHeap) (v : VCell), HP h → LF h →
    (∀ a ∈ args, plainGlob a = true ∧ neB h a = true) →
    ext.builtinEval h id args = .ok (h', v) → HP h' ∧ EShr h h' ∧ valPB h' v = true
  compile : ∀ (h : CHeap) (d : VCell) (h' : CHeap) (v : VCell), HP h → valPB h d = true →
    ext.compileEval h d = .ok (h', v) → HP h' ∧ EShr h h' ∧ valPB h' v = true
  vpush : ∀ (h : CHeap) (vec a : VCell) (h' : CHeap), HP h → plainGlob a = true →
    neB h a = true → ext.vectorPush h vec a = .ok h' → HP h' ∧ EShr h h'

theorem ExtProc.toL {ext : ExtOps} (ep : ExtProc ext) : ExtProcL ext :=
  ⟨fun h id args h' v hp _ ha he => ep.eval h id args h' v hp ha he, ep.compile, ep.vpush⟩

/-! ## the builtin branch of CALL / TCALL and VPUSH from the weaker law -/

section
variable {ext : ExtOps} {s s2 : St CHeap} {v : VCell}

theorem builtinEvalProc_pv_L (ep : ExtProcL ext) (ecl : ExtCodeLawsV ext) (ci : CInvG IsValue s.heap)
    (hblk : ArgBlock s.stack s.stack.sp) (p : PInv s)
    (h : builtinEvalProc (concreteOps ext) s = .ok (s2, v)) : BRes s s2 v := by
  unfold builtinEvalProc at h
  obtain ⟨⟨a, st1⟩, h1, h⟩ := bind_ok h
  obtain ⟨argc, h2, h⟩ := bind_ok h
  obtain ⟨hge, h⟩ := ite_err_ok h
  obtain ⟨⟨e, st2⟩, h3, h⟩ := bind_ok h
  obtain ⟨⟨h', lam⟩, h4, h⟩ := bind_ok h
  obtain ⟨ipO, _, h⟩ := bind_ok h
  cases h
  obtain ⟨p1, p2, p3, p4⟩ := pop_inv h1
  obtain ⟨q1, q2, q3, q4⟩ := pop_inv h3
  cases a <;> simp only [asArgc] at h2 <;> cases h2
  have hargc : argc = 1 := by omega
  subst hargc
  obtain ⟨_, sm1, _, _⟩ := p.sm.pop h1
  obtain ⟨hne, sm2, _, _⟩ := sm1.pop h3
  rw [p3, p4] at q2
  have hpg : plainGlob e = true := hblk 1 p2 _ _ (by omega) (by omega) q2
  simp only [concreteOps] at h4
  obtain ⟨r1, r2, r3⟩ := ep.compile _ _ _ _ p.hp (deref_valPB p.hp hpg hne) h4
  have lf' : LF h' := LF.of_cinv (ecl.compileEval ci h4).1
  have sm3 : SM h' (st2.push (.argc 0)) s.stack.sp := (sm2.heap r2).push rfl
  exact ⟨r1, lf', r2, r2.neB p.acc, SM.of_stk sm3.stk, r3⟩

theorem builtinGeneric_pv_L {id : Nat} (ep : ExtProcL ext) (ecl : ExtCodeLawsV ext) (ci : CInvG IsValue s.heap)
    (hblk : ArgBlock s.stack s.stack.sp) (p : PInv s)
    (h : builtinGeneric (concreteOps ext) id s = .ok (s2, v)) : BRes s s2 v := by
  unfold builtinGeneric at h
  obtain ⟨⟨a, st1⟩, h1, h⟩ := bind_ok h
  obtain ⟨argc, h2, h⟩ := bind_ok h
  obtain ⟨⟨args, st2⟩, h3, h⟩ := bind_ok h
  obtain ⟨⟨h', w⟩, h4, h⟩ := bind_ok h
  cases h
  obtain ⟨p1, p2, p3, p4⟩ := pop_inv h1
  obtain ⟨q1, q2, q3⟩ := popN_inv argc h3
  cases a <;> simp only [asArgc] at h2 <;> cases h2
  obtain ⟨_, sm1, _, _⟩ := p.sm.pop h1
  obtain ⟨hnes, sm2, _, _⟩ := sm1.popN h3
  have hargs : ∀ x ∈ args, plainGlob x = true ∧ neB s.heap x = true := by
    intro x hx
    obtain ⟨i, i1, i2, i3⟩ := q3 x hx
    rw [p4] at i3
    exact ⟨hblk argc p2 i x (by omega) (by omega) i3, hnes x hx⟩
  simp only [concreteOps] at h4
  obtain ⟨r1, r2, r3⟩ := ep.eval _ _ _ _ _ p.hp (LF.of_cinv ci) hargs h4
  have lf' : LF h' := LF.of_cinv (ecl.builtinEval ci h4).1
  have sm3 : SM h' st2 s.stack.sp := sm2.heap r2
  exact ⟨r1, lf', r2, r2.neB p.acc, SM.of_stk sm3.stk, r3⟩

theorem runBuiltin_pv_L {id : Nat} {s s' : St CHeap} (ep : ExtProcL ext) (ecl : ExtCodeLawsV ext) (g : GoodI s)
    (ci : CInvG IsValue s.heap) (hblk : ArgBlock s.stack s.stack.sp) (p : PInv s)
    (hr : runBuiltin (concreteOps ext) id s = .ok s') : PInv s' := by
  rw [StepC.runBuiltin_eq] at hr
  obtain ⟨⟨s2, v⟩, h1, hr⟩ := bind_ok hr
  have lf : LF s.heap := LF.of_cinv ci
  have key : BRes s s2 v := by
    cases hk : (concreteOps ext).builtinKind s.heap id <;> rw [hk] at h1 <;> simp only at h1
    · exact builtinApply_pv lf hblk p h1
    · exact builtinEvalProc_pv_L ep ecl ci hblk p h1
    · exact builtinCallcc_pv lf hblk p h1
    · exact builtinGeneric_pv_L ep ecl ci hblk p h1
  obtain ⟨k1, k2, _, k4, k5, k6⟩ := key
  unfold StepC.builtinTail at hr
  simp only at hr
  by_cases hp : ∃ q, v = .ptr q
  · obtain ⟨q, rfl⟩ := hp
    simp only at hr
    cases hr
    exact ⟨k1, neB_of_valPB k6, k5.stk⟩
  · have e : s' = { s2 with heap := (maybePutV s2.heap v).1, acc := (maybePutV s2.heap v).2 } := by
      cases v <;> first | (exact absurd ⟨_, rfl⟩ hp) | (simp only [concreteOps] at hr; cases hr; rfl)
    subst e
    obtain ⟨r, hne⟩ := maybePutV_res k2 k1 k6
    exact ⟨r.hp, hne, (k5.heap r.eshr).stk⟩

end

section
variable {ext : ExtOps} {s0 : St CHeap}

theorem pv_call_L {s' : St CHeap} {b : Bool} (ep : ExtProcL ext) (ecl : ExtCodeLawsV ext) (g : GoodI s0)
    (ci : CInvG IsValue s0.heap) (sd : StackDisc s0) (p : PInv s0) (hop : opAt s0 .callAcc)
    (hx : exec (concreteOps ext) .callAcc (nx s0) = .ok (s', b)) : PInv s' := by
  unfold exec at hx
  obtain ⟨s1, h1, hx⟩ := bind_ok hx
  cases hx
  have hblk : ArgBlock (nx s0).stack (nx s0).stack.sp := sd.call (.inl hop)
  unfold stepCall at h1
  cases hc : (concreteOps ext).callee (nx s0).heap (nx s0).acc with
  | builtin id => rw [hc] at h1; exact runBuiltin_pv_L ep ecl g.nx ci hblk p.nx h1
  | continuation c => rw [hc] at h1; exact invokeCont_pv g.nx p.nx hc h1
  | other => rw [hc] at h1; cases h1
  | closure lam env =>
    rw [hc] at h1
    cases h1
    exact p.mk' rfl p.acc ((p.sm.push (v := .envPtr s0.ep) rfl).push (v := .instrPtr s0.ipL (s0.ipO + 1)) rfl)
  | lambda =>
    rw [hc] at h1
    obtain ⟨lam, _, h1⟩ := bind_ok h1
    cases h1
    exact p.mk' rfl p.acc ((p.sm.push (v := .envPtr s0.ep) rfl).push (v := .instrPtr s0.ipL (s0.ipO + 1)) rfl)

theorem pv_tcall_L {s' : St CHeap} {b : Bool} (ep : ExtProcL ext) (ecl : ExtCodeLawsV ext) (g : GoodI s0)
    (ci : CInvG IsValue s0.heap) (sd : StackDisc s0) (p : PInv s0) (hop : opAt s0 .tcallAcc)
    (hx : exec (concreteOps ext) .tcallAcc (nx s0) = .ok (s', b)) : PInv s' := by
  unfold exec at hx
  obtain ⟨s1, h1, hx⟩ := bind_ok hx
  cases hx
  have hblk : ArgBlock (nx s0).stack (nx s0).stack.sp := sd.call (.inr hop)
  have hfl : (nx s0).bp + 4 ≤ (nx s0).stack.sp := by
    obtain ⟨l, hl, hop'⟩ := hop
    exact sd.frameLive l hl (.inr hop')
  unfold stepTCall at h1
  cases hc : (concreteOps ext).callee (nx s0).heap (nx s0).acc with
  | builtin id => rw [hc] at h1; exact runBuiltin_pv_L ep ecl g.nx ci hblk p.nx h1
  | continuation c => rw [hc] at h1; exact invokeCont_pv g.nx p.nx hc h1
  | other => rw [hc] at h1; cases h1
  | closure lam env =>
    rw [hc] at h1
    obtain ⟨lam', _, h1⟩ := bind_ok h1
    exact tcall_rest_pv p.nx hfl h1
  | lambda =>
    rw [hc] at h1
    obtain ⟨lam', _, h1⟩ := bind_ok h1
    exact tcall_rest_pv p.nx hfl h1

theorem pv_vpush_L {s' : St CHeap} {b : Bool} (ep : ExtProcL ext) (g : GoodI s0) (p : PInv s0)
    (hx : exec (concreteOps ext) .vpushAcc (nx s0) = .ok (s', b)) : PInv s' := by
  unfold exec at hx
  obtain ⟨⟨v, st1⟩, hp1, hx⟩ := bind_ok hx
  obtain ⟨h', h2, hx⟩ := bind_ok hx
  cases hx
  obtain ⟨hpos, hcell, rfl⟩ := StepB.pop_inv hp1
  have hcell' : s0.stack.cells[s0.stack.sp]? = some v := hcell
  have nv : neB s0.heap v = true := p.stk _ _ (Nat.le_refl _) hcell'
  have nvec : neB s0.heap (deref s0.heap v) = true := by
    cases v with
    | ptr q =>
      show neB s0.heap (getAt s0.heap q) = true
      unfold getAt
      cases hc : s0.heap.cells[q]? with
      | none => rfl
      | some c =>
        cases c with
        | val w => exact neB_of_valPB (p.hp.cells q _ hc)
        | _ => rfl
    | _ => exact nv
  obtain ⟨hp', es⟩ := ep.vpush s0.heap (deref s0.heap v) s0.acc h' p.hp g.accv p.acc h2
  refine ⟨hp', es.neB nvec, ((p.sm.resp (st' := { s0.stack with sp := s0.stack.sp - 1 }) rfl (.inr ?_)).heap es).stk⟩
  show s0.stack.sp - 1 ≤ s0.stack.sp
  omega

/-- all 16 opcodes -/
theorem pv_exec_L (ep : ExtProcL ext) (ecl : ExtCodeLawsV ext) {s' : St CHeap} {b : Bool} (g : GoodI s0)
    (ci : CInvG IsValue s0.heap) (sd : StackDisc s0) (p : PInv s0) {op : Op} (hop : opAt s0 op)
    (hx : exec (concreteOps ext) op (nx s0) = .ok (s', b)) : PInv s' := by
  have lf : LF s0.heap := .of_cinv ci
  cases op with
  | cons => exact pv_cons lf sd p hop hx
  | jmp => exact pv_jmp p hx
  | jnt => exact pv_jnt p hx
  | mov => exact pv_mov g lf sd p hop hx
  | movImm => exact pv_movImm g lf p hop hx
  | push => exact pv_push sd p hx
  | pushAcc => exact pv_pushAcc p hx
  | pushImm => exact pv_pushImm p hop hx
  | halt => exact pv_halt p hx
  | vpushAcc => exact pv_vpush_L ep g p hx
  | callAcc => exact pv_call_L ep ecl g ci sd p hop hx
  | closureAcc => exact pv_closure g lf p hx
  | enter => exact pv_enter lf p hx
  | ret => exact pv_ret sd p hop hx
  | tcallAcc => exact pv_tcall_L ep ecl g ci sd p hop hx
  | varArg => exact pv_varArg lf sd p hop hx

/-- **`PInv` is preserved by `run_one`** under the weaker law -/
theorem pinv_step_L (ep : ExtProcL ext) (ecl : ExtCodeLawsV ext) {s s' : St CHeap} {b : Bool} (g : GoodI s)
    (ci : CInvG IsValue s.heap) (sd : StackDisc s) (p : PInv s) (hs : step (concreteOps ext) s = .ok (s', b)) :
    PInv s' := by
  rw [step_eq] at hs
  obtain ⟨⟨op, s1⟩, hro, hx⟩ := bind_ok hs
  obtain ⟨rfl, hop⟩ := readOpcode_inv hro
  exact pv_exec_L ep ecl g ci sd p hop hx

end

/-! ## the bundled invariant -/

variable {ext : ExtOps} {ecl : ExtCodeLawsV ext}

theorem vmOkP_step_L (el : ExtLaws ext) (eg : ExtGood ext) (ep : ExtProcL ext) {s s' : St CHeap} {b : Bool}
    (h : VmOkP ext ecl s) (sm : Small s.heap) (hs : step (concreteOps ext) s = .ok (s', b)) (sm' : Small s'.heap) :
    VmOkP ext ecl s' :=
  ⟨vmOk_step el eg h.1 (fun _ => h.calleeOk) sm hs sm', pinv_step_L ep ecl h.1.1 h.1.cinv h.1.stackDisc h.2 hs⟩

/-- **`VmOk ∧ PInv` is an invariant of the REAL concrete machine** under the weaker law -/
theorem vmOkP_reaches_L (force : Bool) (el : ExtLaws ext) (eg : ExtGood ext) (ep : ExtProcL ext) {s0 : St CHeap}
    (h0 : VmOkP ext ecl s0) (sb : SizeBounded (machine ext force) s0) :
    ∀ s', Reaches (machine ext force) s0 s' → VmOkP ext ecl s' := by
  intro s' hr
  induction hr with
  | refl => exact h0
  | @next s1 s2 hr1 e ih =>
    have e' : vmStep (concreteOps ext) s1 = .next s2 := e
    unfold vmStep at e'
    cases hst : step (concreteOps ext) s1 with
    | ok r =>
      obtain ⟨s3, b⟩ := r
      rw [hst] at e'
      cases b <;> simp only at e'
      · cases e'
        exact vmOkP_step_L el eg ep ih (sb _ hr1) hst (sb _ (.next hr1 e))
      · cases e'
    | err x => rw [hst] at e'; cases e'
    | panic x => rw [hst] at e'; cases e'
  | @halt s1 s2 hr1 e ih =>
    have e' : vmStep (concreteOps ext) s1 = .halt s2 := e
    unfold vmStep at e'
    cases hst : step (concreteOps ext) s1 with
    | ok r =>
      obtain ⟨s3, b⟩ := r
      rw [hst] at e'
      cases b <;> simp only at e'
      · cases e'
      · cases e'
        exact vmOkP_step_L el eg ep ih (sb _ hr1) hst (sb _ (.halt hr1 e))
    | err x => rw [hst] at e'; cases e'
    | panic x => rw [hst] at e'; cases e'
  | @gc s1 hr1 ih =>
    exact vmOkP_gc force ih (sb _ (.gc hr1))

/-- **`CalleeOkAlong` discharged** under the weaker law -/
theorem calleeOkAlong_of_vmOk_L (force : Bool) (el : ExtLaws ext) (eg : ExtGood ext) (ep : ExtProcL ext)
    {s0 : St CHeap} (h0 : VmOk ext ecl s0) (p0 : PInv s0) (sb : SizeBounded (machine ext force) s0) :
    CalleeOkAlong (machine ext force) s0 :=
  fun s' hr _ => (vmOkP_reaches_L force el eg ep ⟨h0, p0⟩ sb s' hr).calleeOk

/-! ## the real builtins satisfy the weaker law -/

section
variable (eqTag : String → String → Bool) {h h' : CHeap} {v : VCell}

theorem asPtr_ptr {w : VCell} {p : Nat} (e : asPtr w = .ok p) : w = .ptr p := by
  cases w <;> simp only [asPtr] at e <;> cases e; rfl

theorem evalCar_proc (first : Bool) (hp : HP h) {x : VCell} (hx : plainGlob x = true ∧ neB h x = true)
    (he : evalCar first h x = .ok (h', v)) : HP h' ∧ EShr h h' ∧ valPB h' v = true := by
  unfold evalCar at he
  have hv := deref_valPB hp hx.1 hx.2
  cases hd : deref h x with
  | pair a d =>
    rw [hd] at he hv
    cases he
    have hv' : (!entryAt h a && !entryAt h d) = true := hv
    simp only [Bool.and_eq_true] at hv'
    refine ⟨hp, .refl h, ?_⟩
    cases first
    · exact hv'.2
    · exact hv'.1
  | _ => rw [hd] at he; cases he

theorem evalCons_proc (hp : HP h) (lf : LF h) {d a : VCell} (hd : plainGlob d = true ∧ neB h d = true)
    (ha : plainGlob a = true ∧ neB h a = true) (he : evalCons h d a = .ok (h', v)) :
    HP h' ∧ EShr h h' ∧ valPB h' v = true := by
  simp only [evalCons] at he
  obtain ⟨dp, h1, he⟩ := bind_ok he
  obtain ⟨ap, h2, he⟩ := bind_ok he
  cases he
  obtain ⟨r1, n1⟩ := putV_res lf hp (valPB_of_value hd.1 hd.2)
  obtain ⟨r2, n2⟩ := putV_res r1.lf r1.hp (r1.valPB (valPB_of_value ha.1 ha.2))
  rw [asPtr_ptr h1] at n1
  rw [asPtr_ptr h2] at n2
  have e1 : entryAt (putV (putV h d).1 a).1 dp = false := by rw [r2.ls.entry]; exact ptr_entry n1
  exact ⟨r2.hp, (r1.trans r2).eshr, valPB_pair (ptr_entry n2) e1⟩

theorem evalSetPair_proc (first : Bool) (hp : HP h) (lf : LF h) {obj pair : VCell}
    (ho : plainGlob obj = true ∧ neB h obj = true) (he : evalSetPair first h obj pair = .ok (h', v)) :
    HP h' ∧ EShr h h' ∧ valPB h' v = true := by
  simp only [evalSetPair] at he
  cases hd : deref h pair with
  | pair a d =>
    rw [hd] at he
    simp only at he
    obtain ⟨o, h1, he⟩ := bind_ok he
    obtain ⟨p, h2, he⟩ := bind_ok he
    cases he
    have := asPtr_ptr h2
    subst this
    have hcell := getAt_pair_cell (show getAt h p = .pair a d from hd)
    obtain ⟨r1, n1⟩ := putV_res lf hp (valPB_of_value ho.1 ho.2)
    rw [asPtr_ptr h1] at n1
    have hold : ∀ lam, (putV h obj).1.cells[p]? ≠ some (CCell.lambda lam) := by
      intro lam hl
      have := r1.ls p
      rw [lambdaAt_iff.mpr hl] at this
      have := lambdaAt_iff.mp this.symm
      rw [hcell] at this; cases this
    have hpair : (!entryAt h a && !entryAt h d) = true := hp.cells p _ hcell
    simp only [Bool.and_eq_true] at hpair
    have ea : entryAt (putV h obj).1 a = false := by rw [r1.ls.entry]; simpa using hpair.1
    have ed : entryAt (putV h obj).1 d = false := by rw [r1.ls.entry]; simpa using hpair.2
    have eo : entryAt (putV h obj).1 o = false := ptr_entry n1
    have r2 : OpRes (putV h obj).1 (cwrite (putV h obj).1 p (.val (if first then .pair o d else .pair a o))) := by
      refine cwrite_res r1.lf r1.hp hold (fun lam hh => by cases hh) ?_
      cases first
      · exact valPB_pair ea eo
      · exact valPB_pair eo ed
    exact ⟨r2.hp, (r1.trans r2).eshr, rfl⟩
  | _ => rw [hd] at he; cases he

theorem evalPrim_proc (p : Prim) (hp : HP h) (lf : LF h) {args : List VCell}
    (hargs : ∀ a ∈ args, plainGlob a = true ∧ neB h a = true)
    (he : evalPrim eqTag p h args = .ok (h', v)) : HP h' ∧ EShr h h' ∧ valPB h' v = true := by
  have pure : ∀ b : Bool, (Outcome.ok (h, VCell.bool b) : Outcome (CHeap × VCell)) = .ok (h', v) →
      HP h' ∧ EShr h h' ∧ valPB h' v = true := by
    intro b e; cases e; exact ⟨hp, .refl h, rfl⟩
  match args, hargs with
  | [], _ => cases p <;> cases he
  | [x], hargs =>
    have hx := hargs x (by simp)
    cases p with
    | car => exact evalCar_proc true hp hx he
    | cdr => exact evalCar_proc false hp hx he
    | pred q => exact pure _ he
    | _ => cases he
  | [x, y], hargs =>
    have hx := hargs x (by simp)
    have hy := hargs y (by simp)
    cases p with
    | cons => exact evalCons_proc hp lf hx hy he
    | setCar => exact evalSetPair_proc true hp lf hx he
    | setCdr => exact evalSetPair_proc false hp lf hx he
    | eq => exact pure _ he
    | _ => cases he
  | _ :: _ :: _ :: _, _ => cases p <;> cases he

/-- **the real builtins create no entry code and return nothing that leads to entry code** -/
theorem listExtWith_procL : ExtProcL (listExtWith eqTag) where
  eval := by
    intro h id args h' v hp lf hargs he
    have he' : ListExt.builtinEval eqTag h id args = .ok (h', v) := he
    unfold ListExt.builtinEval at he'
    cases hq : primOf id with
    | none => rw [hq] at he'; cases he'
    | some p => rw [hq] at he'; exact evalPrim_proc eqTag p hp lf hargs he'
  compile := fun _ _ _ _ _ _ h => (by cases h)
  vpush := fun _ _ _ _ _ _ _ h => (by cases h)

theorem listExt_procL : ExtProcL listExt := listExtWith_procL _

end

/-! ## the unweakened law is not satisfiable by `cons` -/

namespace ProcWitness

/-- cell 0: a procedure-code lambda that is (wrongly) on the free list; cell 1: a closure over it -/
def hBad : CHeap :=
  { chunk := 4
    cells := #[.lambda { bc := [.opcode .enter, .opcode .ret], args := [], envmap := [] }, .val (.closure 0 2),
      .lexEnv [], .val .undefined]
    gc := #[.allocated, .allocated, .allocated, .free], free := [0, 3], symtab := [], globSyms := [], globals := #[] }

theorem hBad_hp : HP hBad := heapPB_sound (by decide +kernel)

/-- `LF` is exactly what fails -/
theorem hBad_not_lf : ¬ LF hBad := fun lf => lf 0 _ rfl (by decide)

/-- `(cons #t #t)` on that heap succeeds and destroys `HP`: the closure cell now refers to a `val` cell -/
theorem cons_breaks_hp : ∃ h' v, listExt.builtinEval hBad idCons [.bool true, .bool true] = .ok (h', v) ∧ ¬ HP h' := by
  refine ⟨_, _, rfl, ?_⟩
  intro hp
  have := hp.cells 1 (.val (.closure 0 2)) (by decide +kernel)
  revert this
  decide +kernel

end ProcWitness

/-- **`ExtProc` (without the `LF` premise) does not hold of the real builtins** — of no parameter set whose `cons`
    allocates. `ExtProcL` is the law to assume. -/
theorem not_extProc_listExt : ¬ ExtProc listExt := by
  intro ep
  obtain ⟨h', v, he, hn⟩ := ProcWitness.cons_breaks_hp
  refine hn (ep.eval _ _ _ _ _ ProcWitness.hBad_hp ?_ he).1
  intro a ha
  simp only [List.mem_cons, List.not_mem_nil, or_false, or_self] at ha
  subst ha
  exact ⟨rfl, rfl⟩

end Marwood.Lemmas.Good
