import Marwood.Lemmas.EnvTaintStepA
/-!
# "No value leads to a capturing lambda" across `run_one`: the closure / bare-lambda branch of TCALL, ENTER

The shape of `Lemmas/ProcInvStepD.lean`.
-/
namespace Marwood.Lemmas.Taint
open Marwood.Lemmas.Good Marwood Marwood.Vm Marwood.Vm.Verify Marwood.Vm.Concrete Marwood.Lemmas.Sim
open Marwood.Heap (GcState)
open StepC

/-- `get_offset(off)` with `off ≤ 0` reads a live cell -/
theorem SM.getOffset {h : CHeap} {st : Stack} {B : Nat} (x : SM h st B) {off : Int} {v : VCell}
    (hg : st.getOffset off = .ok v) (hoff : off ≤ 0) : neE h v = true := by
  unfold Stack.getOffset at hg
  simp only at hg
  split at hg
  · exact x.get hg (.inr (by omega))
  · cases hg

/-- the copy loop of the equal-argc TCALL -/
theorem tcallCopySame_sm {h : CHeap} {B : Nat} :
    ∀ (k it bp : Nat) (st st' : Stack), tcallCopySame k it bp st = .ok st' → SM h st B →
      SM h st' B ∧ st'.sp = st.sp := by
  intro k
  induction k with
  | zero =>
    intro it bp st st' hc x
    simp only [tcallCopySame] at hc
    cases hc
    exact ⟨x, rfl⟩
  | succ k ih =>
    intro it bp st st' hc x
    simp only [tcallCopySame] at hc
    obtain ⟨v, hv, hc⟩ := bind_ok hc
    obtain ⟨i, _, hc⟩ := bind_ok hc
    obtain ⟨st1, hs1, hc⟩ := bind_ok hc
    have hne : neE h v = true := x.getOffset hv (by omega)
    obtain ⟨r1, r2⟩ := ih (it + 1) bp st1 st' hc (x.set hne hs1)
    exact ⟨r1, by rw [r2, set_sp hs1]⟩

/-- the push loop of the different-argc TCALL -/
theorem tcallCopyDiff_sm {h : CHeap} {B : Nat} :
    ∀ (it savedSp : Nat) (st st' : Stack), tcallCopyDiff it savedSp st = .ok st' → SM h st B → savedSp ≤ B →
      SM h st' B := by
  intro it
  induction it with
  | zero =>
    intro savedSp st st' hc x _
    simp only [tcallCopyDiff] at hc
    cases hc
    exact x
  | succ it ih =>
    intro savedSp st st' hc x hb
    simp only [tcallCopyDiff] at hc
    obtain ⟨i, hi, hc⟩ := bind_ok hc
    obtain ⟨v, hv, hc⟩ := bind_ok hc
    obtain ⟨_, e⟩ := usub_inv hi
    have hne : neE h v = true := x.get hv (.inl (by omega))
    exact ih savedSp (st.push v) st' hc (x.push hne) hb

/-- the closure / bare-lambda branch of TCALL keeps the invariant -/
theorem tcall_rest_pv {s s' : St CHeap} {lam : Nat} (p : PInv s) (hfl : s.bp + 4 ≤ s.stack.sp)
    (h : (do
      let argc ← (do let v ← s.stack.getOffset 0; asArgc v)
      let frameArgc ← (do let v ← s.stack.get (s.bp + 1); asArgc v)
      if argc = frameArgc then do
        let savedBp ← s.stack.get (s.bp + 4)
        let st ← tcallCopySame argc 0 s.bp s.stack
        let st := { st with sp := s.bp + 3 }
        let bp ← asBp savedBp
        (.ok { s with stack := st, bp := bp, ipL := lam, ipO := 0 } : Outcome (St CHeap))
      else do
        let savedSp := s.stack.sp
        let savedEp ← s.stack.get (s.bp + 2)
        let savedIp ← s.stack.get (s.bp + 3)
        let savedBp ← s.stack.get (s.bp + 4)
        let sp0 ← usub s.bp frameArgc "tcall: bp - frame_argc"
        let st := { s.stack with sp := sp0 }
        let st ← tcallCopyDiff argc savedSp st
        let st := ((st.push (.argc argc)).push savedEp).push savedIp
        let bp ← asBp savedBp
        .ok { s with stack := st, bp := bp, ipL := lam, ipO := 0 }) = .ok s') :
    PInv s' := by
  obtain ⟨argc, _, h⟩ := bind_ok h
  obtain ⟨frameArgc, _, h⟩ := bind_ok h
  simp only at h
  split at h
  · obtain ⟨savedBp, _, h⟩ := bind_ok h
    obtain ⟨st, hst, h⟩ := bind_ok h
    obtain ⟨bp, _, h⟩ := bind_ok h
    cases h
    obtain ⟨r1, r2⟩ := tcallCopySame_sm (h := s.heap) (B := s.stack.sp) argc 0 s.bp s.stack st hst p.sm
    have hsm : SM s.heap { st with sp := s.bp + 3 } s.stack.sp := by
      refine r1.resp rfl (.inl ?_)
      show s.bp + 3 ≤ s.stack.sp
      omega
    exact p.mk' rfl p.acc hsm
  · obtain ⟨savedEp, hep, h⟩ := bind_ok h
    obtain ⟨savedIp, hip, h⟩ := bind_ok h
    obtain ⟨savedBp, _, h⟩ := bind_ok h
    obtain ⟨sp0, hsp0, h⟩ := bind_ok h
    obtain ⟨st, hst, h⟩ := bind_ok h
    obtain ⟨bp, _, h⟩ := bind_ok h
    cases h
    obtain ⟨_, e0⟩ := usub_inv hsp0
    have nEp : neE s.heap savedEp = true := p.sm.get hep (.inl (by omega))
    have nIp : neE s.heap savedIp = true := p.sm.get hip (.inl (by omega))
    have hsm0 : SM s.heap { s.stack with sp := sp0 } s.stack.sp := by
      refine p.sm.resp rfl (.inl ?_)
      show sp0 ≤ s.stack.sp
      omega
    have hsm1 : SM s.heap st s.stack.sp :=
      tcallCopyDiff_sm argc s.stack.sp _ st hst hsm0 (Nat.le_refl _)
    have hsm : SM s.heap (((st.push (.argc argc)).push savedEp).push savedIp) s.stack.sp :=
      ((hsm1.push (v := .argc argc) rfl).push nEp).push nIp
    exact p.mk' rfl p.acc hsm

/-- ENTER keeps the invariant -/
theorem pv_enter {ext : ExtOps} {s0 s' : St CHeap} {b : Bool} (lf : LF s0.heap) (p : PInv s0)
    (hx : exec (concreteOps ext) .enter (nx s0) = .ok (s', b)) : PInv s' := by
  unfold exec at hx
  obtain ⟨s1, h1, hx⟩ := bind_ok hx
  cases hx
  rw [StepC.stepEnter_eq] at h1
  obtain ⟨⟨lam, cenv⟩, _, h1⟩ := bind_ok h1
  unfold enterBody at h1
  simp only [concreteOps] at h1
  cases hla : lambdaAt s0.heap lam with
  | none => rw [hla] at h1; cases h1
  | some l =>
    rw [hla] at h1
    simp only [Option.map_some] at h1
    obtain ⟨a, _, h1⟩ := bind_ok h1
    obtain ⟨n, _, h1⟩ := bind_ok h1
    obtain ⟨_, h1⟩ := ite_err_ok h1
    obtain ⟨bp', hbp, h1⟩ := bind_ok h1
    have hsm : SM s0.heap (s0.stack.push (.basePtr s0.bp)) s0.stack.sp := p.sm.push (v := .basePtr s0.bp) rfl
    cases cenv with
    | none =>
      simp only at h1
      cases h1
      exact p.mk' rfl p.acc hsm
    | some env =>
      simp only at h1
      obtain ⟨⟨h', e⟩, hma, h1⟩ := bind_ok h1
      cases h1
      obtain ⟨b1, b2⟩ := usub_inv hbp
      have b1' : 4 ≤ (s0.stack.push (.basePtr s0.bp)).sp := b1
      have b2' : bp' = (s0.stack.push (.basePtr s0.bp)).sp - 4 := b2
      have hma' : makeActivation s0.heap lam env bp' (s0.stack.push (.basePtr s0.bp)) = .ok (h', e) := hma
      have hst : ∀ (i : Nat) (v : VCell), i ≤ bp' + 1 → (s0.stack.push (.basePtr s0.bp)).cells[i]? = some v →
          neE s0.heap v = true := by
        intro i v hi hv
        exact hsm i v (.inr (by omega)) hv
      have r : OpRes s0.heap h' := makeActivation_res lf p.hp hst hma'
      exact PInv.mkRes (s := s0) r (r.neE p.acc) hsm

end Marwood.Lemmas.Taint
