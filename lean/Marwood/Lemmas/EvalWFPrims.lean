import Marwood.Lemmas.EvalWFForms
/-!
# Well-formedness: the primitive procedures

The first-order primitives are discharged by a tactic. To keep every fact at a single level the
tactic works on `Tr pre m P`: `pre` is a monotone context (the conjunction of everything learnt so
far, as a predicate of the current level), and `Tr.bind` extends it with the postcondition of the
computation just run. Leaves are closed by `simp_all`.
-/
namespace Marwood.Spec.Eval
open Marwood

variable {α β : Type} {n n0 : Nat} {r : Rec}

theorem pres_boolV (b : Bool) : PresFrom n0 (boolV b) ValOK := PresFrom.pureV _ (by simp)

theorem valsOK_append {xs ys : List Val} : ValsOK n (xs ++ ys) ↔ ValsOK n xs ∧ ValsOK n ys := by
  simp only [ValsOK, List.mem_append]
  exact ⟨fun h => ⟨fun v hv => h v (Or.inl hv), fun v hv => h v (Or.inr hv)⟩,
    fun h v hv => hv.elim (h.1 v) (h.2 v)⟩

theorem valsOK_reverse {xs : List Val} : ValsOK n xs.reverse ↔ ValsOK n xs := by
  simp [ValsOK]

theorem valsOK_replicate (k : Nat) (v : Val) (hv : ValOK n v) : ValsOK n (List.replicate k v) := by
  intro w hw
  have := List.eq_of_mem_replicate hw
  subst this; exact hv

theorem valsOK_set {xs : List Val} (hx : ValsOK n xs) (i : Nat) (v : Val) (hv : ValOK n v) :
    ValsOK n (xs.set i v) := by
  intro w hw
  rcases List.mem_or_eq_of_mem_set hw with h | h
  · exact hx w h
  · subst h; exact hv

theorem valsOK_getElem? {xs : List Val} {i : Nat} {v : Val} (h : xs[i]? = some v) (hx : ValsOK n xs) :
    ValOK n v := hx v (List.mem_of_getElem? h)

theorem valsOK_dropLast {xs : List Val} (hx : ValsOK n xs) : ValsOK n xs.dropLast := by
  intro v hv; exact hx v (List.dropLast_subset xs hv)

theorem pres_memWalk (assoc : Bool) (y : Val) : ∀ (fuel : Nat) (l : Val) (n0 : Nat), ValOK n0 l →
    PresFrom n0 (memWalk assoc y fuel l) ValOK
  | 0, _, _, _ => by simp only [memWalk]; exact PresFrom.throw _
  | fuel+1, l, n0, hl => by
    simp only [memWalk]
    split
    · exact PresFrom.pureV _ (by simp)
    · refine PresFrom.bind (pres_readPair _) (fun p n1 h1 hp => ?_)
      split
      · split
        · refine PresFrom.bind (pres_readPair _) (fun q n2 h2 _ => ?_)
          split
          · exact PresFrom.pureV _ (hp.1.mono h2)
          · exact pres_memWalk assoc y fuel _ n2 (hp.2.mono h2)
        · exact pres_memWalk assoc y fuel _ n1 hp.2
      · split
        · exact PresFrom.pureV _ (hl.mono h1)
        · exact pres_memWalk assoc y fuel _ n1 hp.2
    · exact PresFrom.throw _

theorem pres_listTailWalk : ∀ (k : Nat) (l : Val) (n0 : Nat), ValOK n0 l →
    PresFrom n0 (listTailWalk k l) ValOK
  | 0, _, _, hl => PresFrom.pureV _ hl
  | k+1, l, n0, _ => by
    simp only [listTailWalk]
    refine PresFrom.bind (pres_readPair _) (fun p n1 _ hp => ?_)
    exact pres_listTailWalk k _ n1 hp.2

/-! ## single-level contexts -/

def MonoP (p : Nat → Prop) : Prop := ∀ n m, n ≤ m → p n → p m

/-- `m` preserves from every level at which the (monotone) context `pre` holds -/
def Tr (pre : Nat → Prop) (m : M α) (P : Nat → α → Prop) : Prop :=
  MonoP pre → ∀ n0, pre n0 → PresFrom n0 m P

variable {pre : Nat → Prop} {P : Nat → α → Prop} {Q : Nat → β → Prop} {m : M α} {f : α → M β}

theorem Tr.of (h : ∀ n0, pre n0 → PresFrom n0 m P) : Tr pre m P := fun _ => h

theorem Tr.bind (hP : ∀ a, MonoP (fun n => P n a)) (hm : ∀ n0, pre n0 → PresFrom n0 m P)
    (hf : ∀ a, Tr (fun n => pre n ∧ P n a) (f a) Q) : Tr pre (m >>= f) Q := by
  intro hmono n0 hpre
  refine PresFrom.bind (hm n0 hpre) (fun a n1 h1 pa => ?_)
  exact hf a (fun n m hle h => ⟨hmono n m hle h.1, hP a n m hle h.2⟩) n1 ⟨hmono _ _ h1 hpre, pa⟩

theorem Tr.bind_readPair {v : Val} {f : Val × Val → M β}
    (hf : ∀ p, Tr (fun n => pre n ∧ PairOK n p) (f p) Q) : Tr pre (readPair v >>= f) Q :=
  Tr.bind (fun _ _ _ hle h => h.mono hle) (fun _ _ => pres_readPair v) hf

theorem Tr.bind_readVec {v : Val} {f : Loc × List Val → M β}
    (hf : ∀ p, Tr (fun n => pre n ∧ ValsOK n p.2) (f p) Q) : Tr pre (readVec v >>= f) Q :=
  Tr.bind (P := fun n (p : Loc × List Val) => ValsOK n p.2)
    (fun p _ _ hle (h : ValsOK _ p.2) => h.mono hle)
    (fun _ _ => pres_readVec v) hf

theorem Tr.bind_getList {v : Val} {f : List Val → M β}
    (hf : ∀ xs, Tr (fun n => pre n ∧ ValsOK n xs) (f xs) Q) : Tr pre (getList v >>= f) Q :=
  Tr.bind (fun _ _ _ hle h => h.mono hle) (fun _ _ => pres_getList v) hf

theorem Tr.bind_getStore {f : Array Cell → M β}
    (hf : ∀ s, Tr (fun n => pre n ∧ StoreOK n s) (f s) Q) : Tr pre (getStore >>= f) Q :=
  Tr.bind (fun _ _ _ hle h => h.mono hle) (fun _ _ => pres_getStore) hf

theorem Tr.bind_readCell {l : Loc} {f : Cell → M β}
    (hf : ∀ c, Tr (fun n => pre n ∧ CellOK n c) (f c) Q) : Tr pre (readCell l >>= f) Q :=
  Tr.bind (fun _ _ _ hle h => h.mono hle) (fun _ _ => pres_readCell l) hf

theorem Tr.bind_externalise {v : Val} {f : Datum → M β}
    (hf : ∀ d, Tr (fun n => pre n ∧ True) (f d) Q) : Tr pre (externalise v >>= f) Q :=
  Tr.bind (P := fun _ _ => True) (fun _ _ _ _ h => h) (fun _ _ => pres_externalise v) hf

theorem Tr.bind_emit {w : Bool} {d : Datum} {f : Unit → M β}
    (hf : ∀ u, Tr (fun n => pre n ∧ True) (f u) Q) : Tr pre (emit w d >>= f) Q :=
  Tr.bind (P := fun _ _ => True) (fun _ _ _ _ h => h) (fun _ _ => pres_emit w d) hf

theorem Tr.bind_writeCell {l : Loc} {c : Cell} {f : Unit → M β} (hc : ∀ n, pre n → CellOK n c)
    (hf : ∀ u, Tr (fun n => pre n ∧ True) (f u) Q) : Tr pre (writeCell l c >>= f) Q :=
  Tr.bind (P := fun _ _ => True) (fun _ _ _ _ h => h) (fun n hn => pres_writeCell l c (hc n hn)) hf

theorem Tr.throw (e : ErrClass) : Tr pre (throw e : M α) P := Tr.of (fun _ _ => PresFrom.throw e)

theorem Tr.pureV (v : Val) (h : ∀ n, pre n → ValOK n v) : Tr pre (pure v : M Val) ValOK :=
  Tr.of (fun n hn => PresFrom.pureV v (h n hn))

theorem Tr.boolV (b : Bool) : Tr pre (boolV b) ValOK := Tr.of (fun _ _ => pres_boolV b)

theorem Tr.cons (a d : Val) (ha : ∀ n, pre n → ValOK n a) (hd : ∀ n, pre n → ValOK n d) :
    Tr pre (Eval.cons a d) ValOK := Tr.of (fun n hn => pres_cons a d (ha n hn) (hd n hn))

theorem Tr.allocList (vs : List Val) (h : ∀ n, pre n → ValsOK n vs) : Tr pre (allocList vs) ValOK :=
  Tr.of (fun n hn => pres_allocList vs n (h n hn))

theorem Tr.allocVec (vs : List Val) (h : ∀ n, pre n → ValsOK n vs) : Tr pre (allocVec vs) ValOK :=
  Tr.of (fun n hn => pres_allocVec vs (h n hn))

theorem Tr.allocListTail (vs : List Val) (t : Val) (h : ∀ n, pre n → ValsOK n vs)
    (ht : ∀ n, pre n → ValOK n t) : Tr pre (allocListTail vs t) ValOK :=
  Tr.of (fun n hn => pres_allocListTail vs t n (h n hn) (ht n hn))

theorem Tr.memWalk (assoc : Bool) (y : Val) (fuel : Nat) (l : Val) (h : ∀ n, pre n → ValOK n l) :
    Tr pre (memWalk assoc y fuel l) ValOK := Tr.of (fun n hn => pres_memWalk assoc y fuel l n (h n hn))

theorem Tr.listTailWalk (k : Nat) (l : Val) (h : ∀ n, pre n → ValOK n l) :
    Tr pre (listTailWalk k l) ValOK := Tr.of (fun n hn => pres_listTailWalk k l n (h n hn))

-- keep the unifier from unfolding the monad operations when a closing lemma does not apply
attribute [local irreducible] M.bind' M.pure'

/-- side conditions `∀ n, pre n → …` -/
macro "wf_side" : tactic => `(tactic| focus (intro _ _; first
  | (simp_all [valsOK_append, valsOK_reverse, PairOK, CellOK]; done)
  | exact valsOK_replicate _ _ (by simp_all [PairOK, CellOK])
  | exact valsOK_set (by simp_all [PairOK, CellOK]) _ _ (by simp_all [PairOK, CellOK])
  | exact valsOK_getElem? (by assumption) (by simp_all [PairOK, CellOK])))

/-- closes the goals left by splitting a first-order primitive -/
macro "wf_prim" : tactic => `(tactic| (
  repeat' (first
    | exact Tr.throw _
    | exact Tr.boolV _
    | (refine Tr.pureV _ ?_; wf_side)
    | (refine Tr.cons _ _ ?_ ?_ <;> wf_side)
    | (refine Tr.allocList _ ?_; wf_side)
    | (refine Tr.allocVec _ ?_; wf_side)
    | (refine Tr.allocListTail _ _ ?_ ?_ <;> wf_side)
    | (refine Tr.memWalk _ _ _ _ ?_; wf_side)
    | (refine Tr.listTailWalk _ _ ?_; wf_side)
    | refine Tr.bind_readPair (fun _ => ?_)
    | refine Tr.bind_readVec (fun _ => ?_)
    | refine Tr.bind_getList (fun _ => ?_)
    | refine Tr.bind_getStore (fun _ => ?_)
    | refine Tr.bind_readCell (fun _ => ?_)
    | refine Tr.bind_externalise (fun _ => ?_)
    | refine Tr.bind_emit (fun _ => ?_)
    | (refine Tr.bind_writeCell ?_ (fun _ => ?_); wf_side)
    | split)))

theorem monoP_valsOK (args : List Val) : MonoP (fun n => ValsOK n args) :=
  fun _ _ hle h => h.mono hle

theorem tr_primNum (p : Prim) (args : List Val) : Tr (fun n => ValsOK n args) (primNum p args) ValOK := by
  unfold primNum
  split <;> wf_prim

theorem tr_primPair (p : Prim) (args : List Val) : Tr (fun n => ValsOK n args) (primPair p args) ValOK := by
  unfold primPair
  split <;> wf_prim

theorem tr_primVec (p : Prim) (args : List Val) : Tr (fun n => ValsOK n args) (primVec p args) ValOK := by
  unfold primVec
  split <;> wf_prim

theorem tr_primPred (p : Prim) (args : List Val) : Tr (fun n => ValsOK n args) (primPred p args) ValOK := by
  unfold primPred
  split <;> wf_prim

theorem tr_primMisc (p : Prim) (args : List Val) : Tr (fun n => ValsOK n args) (primMisc p args) ValOK := by
  unfold primMisc
  split <;> wf_prim

theorem pres_applyPrim1 (p : Prim) (args : List Val) (h : ValsOK n0 args) :
    PresFrom n0 (applyPrim1 p args) ValOK := by
  unfold applyPrim1
  split
  · exact tr_primNum p args (monoP_valsOK args) n0 h
  · exact tr_primPair p args (monoP_valsOK args) n0 h
  · exact tr_primVec p args (monoP_valsOK args) n0 h
  · exact tr_primPred p args (monoP_valsOK args) n0 h
  · exact tr_primMisc p args (monoP_valsOK args) n0 h

/-! ## application -/

theorem valsOK_zipArgs : ∀ (fuel : Nat) (ls : List (List Val)), (∀ l ∈ ls, ValsOK n l) →
    ∀ a ∈ zipArgs fuel ls, ValsOK n a
  | 0, _, _ => by simp [zipArgs]
  | fuel+1, ls, h => by
    simp only [zipArgs]
    split
    · simp
    · rename_i hne
      intro a ha
      simp only [List.mem_cons] at ha
      rcases ha with rfl | ha
      · intro v hv
        simp only [List.mem_map] at hv
        obtain ⟨l, hl, rfl⟩ := hv
        cases l with
        | nil =>
          exfalso
          apply hne
          simp only [Bool.or_eq_true, List.any_eq_true]
          exact Or.inr ⟨[], hl, rfl⟩
        | cons w ws => exact h _ hl w (by simp)
      · refine valsOK_zipArgs fuel _ ?_ a ha
        intro l hl
        simp only [List.mem_map] at hl
        obtain ⟨l', hl', rfl⟩ := hl
        intro v hv
        exact h l' hl' v (List.mem_of_mem_tail hv)

theorem pres_mapApply (hr : RecWF r) (f : Val) : ∀ (as : List (List Val)) (n0 : Nat), ValOK n0 f →
    (∀ a ∈ as, ValsOK n0 a) → PresFrom n0 (mapApply r f as) ValsOK
  | [], _, _, _ => PresFrom.pureVs _ (by simp)
  | a :: as, n0, hf, h => by
    simp only [mapApply]
    refine PresFrom.bind (hr.apply n0 f a hf (h a (by simp))) (fun v n1 h1 hv => ?_)
    refine PresFrom.bind (pres_mapApply hr f as n1 (hf.mono h1)
      (fun a' ha' => (h a' (by simp [ha'])).mono h1)) (fun vs n2 h2 hvs => ?_)
    exact PresFrom.pureVs _ (by simp [hv.mono h2, hvs])

end Marwood.Spec.Eval
