import Marwood.Lemmas.EvalPromiseJSteps
/-! Forward simulation with a frame (`SimJ`): mirror of `EvalExtraFuel.lean` (see `EvalPromiseJ.lean`). -/
namespace Marwood.Spec.Eval.ExtraJ
open Marwood Marwood.Spec.Eval Marwood.Spec.Eval.Extra

variable {f : LMap} {J : Junk}

theorem simJAt_getList {st st' : St} (r : StRelJ f J st st') {v v' : Val} (hv : VRel f v v')
    (hc : listCut (st.store.size + 1) st.store v = false) :
    ResRelJ f J (VsRel f) (getList v st) (getList v' st') := by
  rw [getList_eq, getList_eq]
  have h1 := listOfVal_rel r.toStRel (st'.store.size + 1) hv
  rw [r.toStRel.fuel_eq, listOfVal_stable _ _ _ _ hc] at h1
  rw [← r.toStRel.fuel_eq] at h1
  revert h1
  generalize listOfVal (st.store.size + 1) st.store v = o
  generalize listOfVal (st'.store.size + 1) st'.store v' = o'
  intro h1
  cases h1 with
  | none => exact ⟨rfl, r⟩
  | some hx => exact ⟨hx, r⟩

theorem simJAt_getLists {st st' : St} (r : StRelJ f J st st') : ∀ {vs vs' : List Val}, VsRel f vs vs' →
    (∀ v ∈ vs, listCut (st.store.size + 1) st.store v = false) →
    ResRelJ f J (LsRel f) (getLists vs st) (getLists vs' st')
  | _, _, .nil, _ => ⟨.nil, r⟩
  | _, _, .cons (v := v) (vs := vs) hv hvs, hc => by
    simp only [getLists]
    refine ResRelJ.bind (simJAt_getList r hv (hc _ (by simp))) (fun xs xs' s s' hm hx rs => ?_)
    obtain ⟨rfl, _⟩ := getList_ok_state hm
    have hc' : ∀ w ∈ vs, listCut (s.store.size + 1) s.store w = false := fun w hw => hc w (by simp [hw])
    refine ResRelJ.bind (simJAt_getLists rs hvs hc') (fun ls ls' s2 s2' _ hl rs2 => ?_)
    exact ⟨.cons hx hl, rs2⟩

theorem simJAt_externalise {st st' : St} (r : StRelJ f J st st') {v v' : Val} (hv : VRel f v v')
    (hc : valCut (st.store.size + 1) st.store v = false) :
    ResRelJ f J (fun d d' => d' = d) (externalise v st) (externalise v' st') := by
  have h1 := valToDatum_rel r.toStRel (st'.store.size + 1) hv
  rw [r.toStRel.fuel_eq, valToDatum_stable _ _ _ _ hc, ← r.toStRel.fuel_eq] at h1
  exact ⟨h1, r⟩

theorem simJAt_equalP (hf : Inj f) {st st' : St} (r : StRelJ f J st st') {a a' b b' : Val} (ha : VRel f a a') (hb : VRel f b b')
    (hc : eqCut (st.store.size + 1) st.store a b = false) :
    ResRelJ f J (VRel f) (primPred .equalP [a, b] st) (primPred .equalP [a', b'] st') := by
  have h1 := equalVal_rel hf r.toStRel (st'.store.size + 1) ha hb
  rw [r.toStRel.fuel_eq, equalVal_stable _ _ _ _ _ hc, ← r.toStRel.fuel_eq] at h1
  show ResRelJ f J (VRel f) (Res.ok (Val.bool (equalVal (st.store.size + 1) st.store a b)) st)
    (Res.ok (Val.bool (equalVal (st'.store.size + 1) st'.store a' b')) st')
  rw [h1]
  exact ⟨.bool _, r⟩

theorem simJ_memWalk (hf : Inj f) (assoc : Bool) {x x' : Val} (hx : VRel f x x') : ∀ (m : Nat) {l l' : Val}, VRel f l l' →
    SimJ f J (VRel f) (memWalk assoc x m l) (memWalk assoc x' m l')
  | 0, _, _, _ => by simp only [memWalk]; exact SimJ.throw _
  | m+1, l, l', hl => by
    cases hl with
    | nil => simp only [memWalk]; exact SimJ.pure _ _ (.bool false)
    | pair loc =>
      simp only [memWalk]
      refine SimJ.bind (simJ_readPair (.pair loc)) (fun p p' hp => ?_)
      cases assoc with
      | true =>
        simp only [if_true]
        obtain ⟨a, d⟩ := p
        obtain ⟨a', d'⟩ := p'
        obtain ⟨ha, hd⟩ := hp
        simp only at ha hd ⊢
        cases ha with
        | pair la =>
          simp only
          refine SimJ.bind (simJ_readPair (.pair la)) (fun q q' hq => ?_)
          rw [VRel.eqv hf hq.1 hx]
          split
          · exact SimJ.pure _ _ (.pair la)
          · exact simJ_memWalk hf true hx m hd
        | _ => exact simJ_memWalk hf true hx m hd
      | false =>
        simp only [Bool.false_eq_true, if_false]
        rw [VRel.eqv hf hp.1 hx]
        split
        · exact SimJ.pure _ _ (.pair loc)
        · exact simJ_memWalk hf false hx m hp.2
    | _ => simp only [memWalk]; exact SimJ.throw _

theorem simJAt_memWalk (hf : Inj f) (assoc : Bool) {st st' : St} (r : StRelJ f J st st') {x x' l l' : Val}
    (hx : VRel f x x') (hl : VRel f l l') (hc : spineCut (st.store.size + 1) st.store l = false) :
    ResRelJ f J (VRel f) (memWalk assoc x (st.store.size + 1) l st) (memWalk assoc x' (st'.store.size + 1) l' st') := by
  have h1 := simJ_memWalk hf assoc hx (st'.store.size + 1) hl st st' r
  rw [r.toStRel.fuel_eq, memWalk_stable assoc x _ _ l st hc, ← r.toStRel.fuel_eq] at h1
  exact h1

theorem simJ_mapApply {r r' : Rec} (hr : RecSimJ f J r r') {g g' : Val} (hg : VRel f g g') : ∀ {as as' : List (List Val)}, LsRel f as as' →
    SimJ f J (VsRel f) (mapApply r g as) (mapApply r' g' as')
  | _, _, .nil => SimJ.pure _ _ .nil
  | _, _, .cons ha has => by
    simp only [mapApply]
    refine SimJ.bind (hr.apply _ _ _ _ hg ha) (fun v v' hv => ?_)
    refine SimJ.bind (simJ_mapApply hr hg has) (fun vs vs' hvs => ?_)
    exact SimJ.pure _ _ (.cons hv hvs)

end Marwood.Spec.Eval.ExtraJ
