import Marwood.Lemmas.PrepareDefs
import Marwood.Lemmas.ConcreteLawsOps
import Marwood.Lemmas.PolicyAllocBound
/-!
# One allocator step of `prepare_eval` keeps the code invariants

`InstStep Q h h'` (Lemmas/PrepareDefs.lean) with `Q ⊆ CodeOk`:

* `instStep_cinv` — the value-typed code invariant `CInvG IsValue` survives, old code objects are kept;
* `instStep_codePlain` — the decoding discipline `CodePlain` survives;
* `instStep_allocs` / `instStep_inv` / `instSteps_allocs` — a step is at most one allocation of the heap model
  (`AllocsLe … 1`) and keeps the allocator invariant `HInv`.

The only step that creates a code object is `cell` with a lambda cell: `cput_lambda_growsL` (the counterpart of
`cput_grows`, Lemmas/ConcreteLaws.lean, for a code cell) shows `GrowsL (· = cl)`; the address is off the free list
of the result by `calloc_spec … |>.p_notfree`.
-/
namespace Marwood.Lemmas.Good
open Marwood Marwood.Vm Marwood.Vm.Verify Marwood.Vm.Concrete Marwood.Lemmas.Sim
open Marwood.Lemmas.MachineGarbage Marwood.Lemmas.PolicyAlloc
open Marwood.Heap (GcState)

variable {V : VCell → Prop}

/-- a data cell of the loader is neither code nor a continuation -/
theorem NewCellOk.notLambda {Q : CLambda → Prop} {c : CCell} (x : NewCellOk Q c) :
    (∃ cl, c = .lambda cl ∧ Q cl) ∨ ((∀ lam, c ≠ CCell.lambda lam) ∧ ∀ k, c = CCell.cont k → NoCont k) := by
  cases x with
  | pair a d => exact .inr ⟨fun _ e => (by cases e), fun _ e => (by cases e)⟩
  | atom _ _ => exact .inr ⟨fun _ e => (by cases e), fun _ e => (by cases e)⟩
  | vector es => exact .inr ⟨fun _ e => (by cases e), fun _ e => (by cases e)⟩
  | lambda q => exact .inl ⟨_, rfl, q⟩

/-- allocate a cell and store a code object in it: exactly one new lambda cell, off the free list -/
theorem cput_lambda_growsL {h : CHeap} (inv : HInv h) (ci : CInvG V h) (cl : CLambda) :
    GrowsL (fun lam => lam = cl) h (cput h (.lambda cl)).1 := by
  obtain ⟨g, hfresh⟩ := calloc_grows ci
  have ginv := g.inv ci (fun c hc => hc.elim)
  have spec := calloc_spec h inv
  show GrowsL (fun lam => lam = cl) h (cwrite (calloc h).1 (calloc h).2 (.lambda cl))
  refine ⟨by simp [cwrite, ginv.sizes], by simpa [cwrite] using ginv.shape, ginv.noUsed, ?_, ?_, ?_, g.free⟩
  · intro l lam x
    have x1 := g.keep l lam x
    rw [cwrite_cells]
    split
    · rename_i hh; obtain ⟨rfl, _⟩ := hh; exact absurd x1 (hfresh lam)
    · exact x1
  · intro l lam x
    rw [cwrite_cells] at x
    split at x
    · rename_i hh
      obtain ⟨rfl, _⟩ := hh
      cases x
      exact .inr ⟨rfl, spec.p_notfree⟩
    · exact .inl (g.newLam l lam x)
  · intro p k x
    rw [cwrite_cells] at x
    split at x
    · cases x
    · rcases g.newCont p k x with h1 | h1
      · exact h1
      · exact h1.elim

/-- the value-typed code invariant survives a step, old code is kept -/
theorem instStep_cinv {Q : CHeap → CLambda → Prop} (hQ : ∀ h cl, Q h cl → CodeOk cl) {h h' : CHeap} (st : InstStep Q h h')
    (inv : HInv h) (ci : CInvG IsValue h) :
    CInvG IsValue h' ∧ ∀ l bc, codeC h l = some bc → codeC h' l = some bc := by
  have fin : ∀ {h' : CHeap}, Grows NoCont h h' →
      CInvG IsValue h' ∧ ∀ l bc, codeC h l = some bc → codeC h' l = some bc :=
    fun g => ⟨g.inv ci (fun c hc => hc.elim), fun _ _ hc => g.code hc⟩
  cases st with
  | cell hn _ _ _ =>
    rcases hn.notLambda with ⟨cl, rfl, q⟩ | ⟨hc, hcc⟩
    · refine (cput_lambda_growsL inv ci cl).inv ci ?_
      rintro lam rfl
      exact ⟨(hQ _ _ q).ver, (hQ _ _ q).noIof, (hQ _ _ q).args⟩
    · exact fin (cput_grows ci hc hcc)
  | sym _ _ => exact fin (putNew_grows ci _)
  | glob _ => exact fin (Grows.of_eq ci rfl rfl rfl rfl)
  | resym _ _ => exact fin (Grows.of_eq ci rfl rfl rfl rfl)

theorem instStep_codePlain {Q : CHeap → CLambda → Prop} (hQ : ∀ h cl, Q h cl → CodeOk cl) {h h' : CHeap} (st : InstStep Q h h')
    (inv : HInv h) (cp : CodePlain h) : CodePlain h' := by
  have _ := inv
  cases st with
  | cell hn _ _ _ =>
    rcases hn.notLambda with ⟨cl, rfl, q⟩ | ⟨hc, _⟩
    · intro i l x
      change (cwrite (calloc h).1 (calloc h).2 (.lambda cl)).cells[i]? = _ at x
      rw [cwrite_cells] at x
      split at x
      · cases x; exact (hQ _ _ q).plain
      · exact cp i l (calloc_lamSub h i l x)
    · exact (cput_lamSub h hc).codePlain cp
  | sym _ _ => exact (putNew_lamSub h _).codePlain cp
  | glob _ => exact (LamSub.of_cells rfl).codePlain cp
  | resym _ _ => exact (LamSub.of_cells rfl).codePlain cp

/-- at most one allocation, and the allocator invariant is kept -/
theorem instStep_allocs {Q : CHeap → CLambda → Prop} {h h' : CHeap} (st : InstStep Q h h') : AllocsLe h h' 1 := by
  cases st with
  | cell _ _ _ _ => exact cput_allocs h _
  | sym _ _ => exact putNew_allocs h _
  | glob _ =>
    intro inv
    exact ⟨⟨inv.sizes, inv.shape, inv.free_iff, inv.nodup, inv.no_used⟩, 0, Nat.zero_le _, .of_proj rfl⟩
  | resym _ _ =>
    intro inv
    exact ⟨⟨inv.sizes, inv.shape, inv.free_iff, inv.nodup, inv.no_used⟩, 0, Nat.zero_le _, .of_proj rfl⟩

theorem instStep_inv {Q : CHeap → CLambda → Prop} {h h' : CHeap} (st : InstStep Q h h') (inv : HInv h) : HInv h' :=
  (instStep_allocs st inv).1

theorem instSteps_allocs {Q : CHeap → CLambda → Prop} {h h' : CHeap} (st : InstSteps Q h h') : ∃ k, AllocsLe h h' k := by
  induction st with
  | refl h => exact ⟨0, .refl h⟩
  | step s _ ih =>
    obtain ⟨k, hk⟩ := ih
    exact ⟨1 + k, (instStep_allocs s).trans hk⟩

theorem instSteps_inv {Q : CHeap → CLambda → Prop} {h h' : CHeap} (st : InstSteps Q h h') (inv : HInv h) : HInv h' := by
  induction st with
  | refl _ => exact inv
  | step s _ ih => exact ih (instStep_inv s inv)

end Marwood.Lemmas.Good
