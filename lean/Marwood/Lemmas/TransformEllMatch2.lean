import Marwood.Lemmas.TransformEllMatch
/-!
# The matcher's bindings on patterns with ellipses (main induction)
-/
namespace Marwood.Transform
open Marwood Marwood.Spec.Match

theorem match_binds_aux (s : Setup) : ∀ f : Nat,
    (∀ P E env B', okS s.es true P = true → headNotEll s.ctx P = true →
        (patVars s.ctx P).Nodup →
        patternMatch s.ell s.lits f P E env = .ok (true, B') → MB s P E env B') ∧
    (∀ xs ps cur env B' allow, okS s.es allow (Datum.ofList ps) = true →
        headNotEll s.ctx (Datum.ofList ps) = true →
        (patVars s.ctx (Datum.ofList ps)).Nodup →
        matchLoop s.ell s.lits f xs ps cur false env = .ok (true, B') →
        MB s (Datum.ofList ps) (Datum.ofList xs) env B') ∧
    (∀ xs p rest env B', okP s.es p = true → okS s.es false (Datum.ofList rest) = true →
        (patVars s.ctx p).Nodup → (patVars s.ctx (Datum.ofList rest)).Nodup →
        matchLoop s.ell s.lits f xs (s.ell :: rest) p true env = .ok (true, B') →
        SegB s p rest xs env B') := by
  intro f
  induction f with
  | zero =>
    refine ⟨?_, ?_, ?_⟩
    · intro P E env B' _ _ _ h; simp [patternMatch] at h
    · intro xs ps cur env B' allow _ _ _ h; simp [matchLoop] at h
    · intro xs p rest env B' _ _ _ _ h; simp [matchLoop] at h
  | succ f ih =>
    obtain ⟨ihA, ihB, ihC⟩ := ih
    refine ⟨?_, ?_, ?_⟩
    · -- (A) pattern_match
      intro P E env B' hP hPh hPn h
      have hPnil := okS_endsInNil hP
      have hPeq := endsInNil_ofList hPnil
      have hv := (match_verdict_aux s (f + 1)).1 P E env (true, B') hP hPh h
      have hE : endsInNil E = true := sm_okS_proper s P true E hP hPh (hv.1 rfl)
      have hEeq := endsInNil_ofList hE
      have hEp := endsInNil_pairOrNil hE
      unfold patternMatch at h
      simp only [hEp, Bool.not_true, Bool.and_false, Bool.false_eq_true, if_false,
        isList_of_endsInNil hE, isList_of_endsInNil hPnil] at h
      have hloop : matchLoop s.ell s.lits f (iterList E) (iterList P) .nil false env = .ok (true, B') := by
        cases hb : E.isPair <;> cases hb' : P.isPair <;> simp only [hb, hb'] at h <;> simpa using h
      have := ihB (iterList E) (iterList P) .nil env B' true (by rw [← hPeq]; exact hP)
        (by rw [← hPeq]; exact hPh) (by rw [← hPeq]; exact hPn) hloop
      rw [← hPeq, ← hEeq] at this
      exact this
    · -- (B) the loop outside an ellipsis
      intro xs ps cur env B' allow hok hhd hnd h
      cases xs with
      | nil =>
        rw [matchLoop_nil] at h
        simp only [Bool.false_eq_true, if_false] at h
        cases ps with
        | nil => cases h; exact mb_nil s env
        | cons p ps' =>
          simp only at h
          by_cases hpk : peekIs s.ell ps' = true
          · obtain ⟨rest, hrest⟩ := (peekIs_ell_iff s ps').mp hpk
            subst hrest
            simp only [hpk, if_true, List.tail_cons] at h
            have hr : rest = [] := by
              cases rest with
              | nil => rfl
              | cons a as => simp at h
            subst hr
            simp only [List.isEmpty_nil, Res.ok.injEq, Prod.mk.injEq, true_and] at h
            subst h
            exact mb_zero s p env
          · simp only [hpk, Bool.false_eq_true, if_false] at h
            cases h
      | cons e xs' =>
        rw [matchLoop_cons] at h
        cases ps with
        | nil =>
          simp only [selNext, Bool.false_eq_true, if_false] at h
          cases h
        | cons p ps' =>
          simp only [selNext, Bool.false_eq_true, if_false] at h
          have hpne : p ≠ .sym s.es := by
            intro hp
            rw [headNotEll_ofList] at hhd
            simp [peekIs, Setup.ell, hp] at hhd
          rw [okS_cons_ne hpne, Bool.and_eq_true] at hok
          obtain ⟨hokp, hokps⟩ := hok
          obtain ⟨hnp, hnps⟩ := patVars_ofList_nodup hnd
          obtain ⟨b1, D1, hb1, hf1, hk⟩ := elemStep_binds s f p e env B' _ ihA hokp hnp h
          by_cases hpk : peekIs s.ell ps' = true
          · obtain ⟨rest, hrest⟩ := (peekIs_ell_iff s ps').mp hpk
            subst hrest
            rw [hpk] at hk
            have hokr : okS s.es false (Datum.ofList rest) = true := by
              have := hokps
              simp only [Setup.ell, okS_cons_ell, Bool.and_eq_true] at this
              exact this.2
            rw [patVars_ell_cons] at hnps
            exact mb_enter s hnp hb1 hf1 (ihC xs' p rest _ B' hokp hokr hnp hnps hk)
          · have hpk' : peekIs s.ell ps' = false := by simpa using hpk
            rw [hpk'] at hk
            have hh' : headNotEll s.ctx (Datum.ofList ps') = true := by
              rw [headNotEll_ofList, hpk']; rfl
            exact mb_cons s hh' hb1 hf1 (ihB xs' ps' p _ B' allow hokps hh' hnps hk)
    · -- (C) the loop inside an ellipsis
      intro xs p rest env B' hokp hokr hnp hnr h
      cases xs with
      | nil =>
        rw [matchLoop_nil] at h
        simp only [if_true, List.tail_cons] at h
        cases rest with
        | nil => cases h; exact seg_nil s p env
        | cons q rest' =>
          have hq : q ≠ .sym s.es := by
            intro hq; subst hq; simp [okS_cons_ell] at hokr
          rw [okS_cons_ne hq, Bool.and_eq_true] at hokr
          simp only [okS_false_peek s rest' hokr.2, Bool.false_eq_true, if_false] at h
          cases h
      | cons e xs' =>
        rw [matchLoop_cons] at h
        by_cases hh : rest.length = xs'.length + 1
        · cases rest with
          | nil => simp at hh
          | cons q rest' =>
            have hsel : selNext p true (s.ell :: q :: rest') xs' = .inr (q, rest') := by
              simp only [selNext, if_true, List.length_cons, List.tail_cons]
              simp only [List.length_cons] at hh
              simp [hh]
            rw [hsel] at h
            simp only at h
            have hq : q ≠ .sym s.es := by
              intro hq; subst hq; simp [okS_cons_ell] at hokr
            rw [okS_cons_ne hq, Bool.and_eq_true] at hokr
            have hpk := okS_false_peek s rest' hokr.2
            have hh' : headNotEll s.ctx (Datum.ofList rest') = true := by
              rw [headNotEll_ofList, hpk]; rfl
            have hlen : rest'.length = xs'.length := by simpa using hh
            obtain ⟨hnq, hnr'⟩ := patVars_ofList_nodup hnr
            obtain ⟨b1, D1, hb1, hf1, hk⟩ := elemStep_binds s f q e env B' _ ihA hokr.1 hnq h
            rw [hpk] at hk
            exact seg_handoff s hlen hh' hb1 hf1 (ihB xs' rest' q _ B' false hokr.2 hh' hnr' hk)
        · have hsel : selNext p true (s.ell :: rest) xs' = .inr (p, s.ell :: rest) := by
            simp only [selNext, if_true, List.length_cons]
            simp [hh]
          rw [hsel] at h
          simp only [peekIs_ell_cons] at h
          obtain ⟨b1, D1, hb1, hf1, hk⟩ := elemStep_binds s f p e env B' _ ihA hokp hnp h
          exact seg_reuse s hb1 hf1 (ihC xs' p rest _ B' hokp hokr hnp hnr hk)

/-- **the matcher's bindings**: on a well-formed pattern with distinct variables a `true` of the
    matcher comes with R7RS's bindings, flattened -/
theorem patternMatch_binds (s : Setup) (f : Nat) (P E : Datum) (B : Bindings)
    (hP : okS s.es true P = true) (hh : headNotEll s.ctx P = true) (hn : (patVars s.ctx P).Nodup)
    (h : patternMatch s.ell s.lits f P E [] = .ok (true, B)) :
    ∃ bs, specMatch s.ctx P E = some bs ∧ Flat B bs := by
  obtain ⟨bs, D, hbs, hB, hfl⟩ := (match_binds_aux s f).1 P E [] B hP hh hn h
  simp only [List.nil_append] at hB
  subst hB
  exact ⟨bs, hbs, hfl⟩

end Marwood.Transform
