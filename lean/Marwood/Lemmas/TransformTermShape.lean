import Marwood.Lemmas.TransformTryNew
/-!
# Shape of the templates `Transform::try_new` accepts, as far as termination of `expand` needs it

`check_template_syntax` (`ctsLoop`) gives: no ellipsis is directly followed by another ellipsis
(`nee`). `check_template_support` (`ctsupLoop`) then gives `okT`: every element followed by the
ellipsis (a *group* `T' ...`) contains no element followed by the ellipsis at any depth (`ng`) and
contains at least one symbol that is an expanded variable of the pattern (`hasExp`).

All predicates are Boolean and structurally recursive over the datum *tree*: a pair node `(a . d)`
stands for "item `a`, followed by the items of `d`", which is exactly what `Cell::iter` enumerates
(`iterList`), including the final cdr of an improper list as a last item. The list versions
(`ngL`, `okL`, …) are what the loops see; `*_iterList` relate the two.

Everything of the termination proof lives in the sub-namespace `Marwood.Transform.Term` (the final
theorems and `expandFuel` are in `Marwood.Transform`, see `TransformTermTheorem.lean`).
-/
namespace Marwood.Transform.Term
open Marwood

/-- no item at any depth is followed by the ellipsis (the inside of a group) -/
def ng (ell : Datum) : Datum → Bool
  | .pair a d => ng ell a && !peekIs ell (iterList d) && ng ell d
  | _ => true

/-- some symbol of the datum is an expanded variable of the pattern -/
def hasExp (p : Pattern) : Datum → Bool
  | .pair a d => hasExp p a || hasExp p d
  | .sym s => p.isExpandedVariable (.sym s)
  | _ => false

/-- the termination-relevant shape of an accepted template: every item followed by the ellipsis is
    group-free inside and mentions an expanded variable -/
def okT (p : Pattern) (ell : Datum) : Datum → Bool
  | .pair a d => (if peekIs ell (iterList d) then ng ell a && hasExp p a else okT p ell a) && okT p ell d
  | _ => true

/-- no item equal to the ellipsis is directly followed by the ellipsis -/
def nee (ell : Datum) : Datum → Bool
  | .pair a d => !(cellEq a ell && peekIs ell (iterList d)) && nee ell a && nee ell d
  | _ => true

def ngL (ell : Datum) : List Datum → Bool
  | [] => true
  | it :: rest => ng ell it && !peekIs ell rest && ngL ell rest

def hasExpL (p : Pattern) : List Datum → Bool
  | [] => false
  | it :: rest => hasExp p it || hasExpL p rest

def okL (p : Pattern) (ell : Datum) : List Datum → Bool
  | [] => true
  | it :: rest => (if peekIs ell rest then ng ell it && hasExp p it else okT p ell it) && okL p ell rest

def neeL (ell : Datum) : List Datum → Bool
  | [] => true
  | it :: rest => !(cellEq it ell && peekIs ell rest) && nee ell it && neeL ell rest

theorem ngL_iterList (ell : Datum) (d : Datum) : ngL ell (iterList d) = ng ell d := by
  induction d with
  | pair a d _ ihd => simp only [iterList, ngL, ng, ihd]
  | nil => rfl
  | _ => simp [iterList, ngL, ng, peekIs]

theorem hasExpL_iterList (p : Pattern) (d : Datum) : hasExpL p (iterList d) = hasExp p d := by
  induction d with
  | pair a d _ ihd => simp only [iterList, hasExpL, hasExp, ihd]
  | nil => rfl
  | _ => simp [iterList, hasExpL, hasExp]

theorem okL_iterList (p : Pattern) (ell : Datum) (d : Datum) : okL p ell (iterList d) = okT p ell d := by
  induction d with
  | pair a d _ ihd => simp only [iterList, okL, okT, ihd]
  | nil => rfl
  | _ => simp [iterList, okL, okT, peekIs]

theorem neeL_iterList (ell : Datum) (d : Datum) : neeL ell (iterList d) = nee ell d := by
  induction d with
  | pair a d _ ihd => simp only [iterList, neeL, nee, ihd]
  | nil => rfl
  | _ => simp [iterList, neeL, nee, peekIs]

/-! ## `check_template_syntax`: no two adjacent ellipses -/

theorem ctsLoop_nil (p : Pattern) (ell : Datum) (f : Nat) (imp se : Bool) :
    ctsLoop p ell (f + 1) imp se [] = .ok () := by
  unfold ctsLoop; rfl

theorem ctsLoop_nee (p : Pattern) (es : Text) : ∀ (f : Nat) (imp se : Bool) (items : List Datum),
    ctsLoop p (.sym es) f imp se items = .ok () →
    neeL (.sym es) items = true ∧ (se = true → peekIs (.sym es) items = false) := by
  intro f
  induction f with
  | zero => intro imp se items h; simp [ctsLoop] at h
  | succ f ih =>
    intro imp se items h
    cases items with
    | nil => exact ⟨rfl, fun _ => rfl⟩
    | cons t rest =>
      unfold ctsLoop at h
      cases t with
      | pair a d =>
        simp only at h
        split at h
        · cases h
        · split at h
          · rename_i hsub
            have h1 := (ih _ _ _ hsub).1
            have h2 := ih _ _ _ h
            rw [neeL_iterList] at h1
            refine ⟨?_, fun hs => by simp [peekIs]⟩
            simp only [neeL, h1, h2.1, Bool.and_true, cellEq_sym_right]
            simp
          all_goals cases h
      | sym x =>
        simp only at h
        split at h
        · cases h
        · rename_i hfirst
          by_cases hx : x = es
          · subst hx
            have hc : cellEq (Datum.sym x) (Datum.sym x) = true := by simp
            simp only [hc, if_true] at h
            split at h
            · cases h
            · rename_i hse
              have h2 := ih _ _ _ h
              have hpk := h2.2 rfl
              refine ⟨?_, fun hs => ?_⟩
              · simp only [neeL, nee, hpk, h2.1, Bool.and_false, Bool.not_false, Bool.and_true]
              · exfalso; apply hse; simp [hs]
          · have hc : cellEq (Datum.sym x) (Datum.sym es) = false := by simp [hx]
            simp only [hc, Bool.false_eq_true, if_false] at h
            have h2 := ih _ _ _ h
            refine ⟨?_, fun _ => by simp [peekIs, hx]⟩
            simp only [neeL, nee, hc, h2.1, Bool.false_and, Bool.not_false, Bool.and_true]
      | _ =>
        simp only at h
        have h2 := ih _ _ _ h
        refine ⟨?_, fun _ => by simp [peekIs]⟩
        simp [neeL, nee, h2.1]

theorem checkTemplateSyntax_nee {f : Nat} {T : Datum} {p : Pattern} {es : Text}
    (h : checkTemplateSyntax f T p (.sym es) = .ok ()) : nee (.sym es) T = true := by
  unfold checkTemplateSyntax at h
  cases T with
  | pair a d =>
    simp only at h
    split at h
    · cases h
    · have := (ctsLoop_nee p es _ _ _ _ h).1
      rwa [neeL_iterList] at this
  | _ => rfl

/-! ## `check_template_support` -/

/-- one call of `check_template_support` on an item (the local `one` of `ctsupLoop`) -/
def supOne (p : Pattern) (ell : Datum) (f : Nat) (it : Datum) (inEll : Bool) (seen : List Datum) :
    Res (List Datum) :=
  match it with
  | .vec _ => .err .syntax
  | .sym _ =>
    if cellEq it ell then .err .syntax
    else if p.isExpandedVariable it then
      if !inEll then .err .syntax
      else if seen.any (fun s => cellEq s it) then .err .syntax
      else .ok (seen ++ [it])
    else .ok seen
  | .pair a d =>
    if isImproperList (.pair a d) then .err .syntax
    else ctsupLoop p ell f inEll (iterList (.pair a d)) seen
  | _ => .ok seen

theorem ctsupLoop_succ (p : Pattern) (ell : Datum) (f : Nat) (inEll : Bool) (it : Datum)
    (rest seen : List Datum) :
    ctsupLoop p ell (f + 1) inEll (it :: rest) seen =
      if cellEq it ell then ctsupLoop p ell f inEll rest seen
      else if peekIs ell rest then
        if inEll then .err .syntax
        else
          match supOne p ell f it true [] with
          | .ok seen' => if seen'.isEmpty then .err .syntax else ctsupLoop p ell f inEll rest seen
          | .err e => .err e
          | .panic s => .panic s
          | .fuel => .fuel
      else
        match supOne p ell f it inEll seen with
        | .ok seen' => ctsupLoop p ell f inEll rest seen'
        | .err e => .err e
        | .panic s => .panic s
        | .fuel => .fuel := by
  rw [ctsupLoop]
  rfl

theorem checkTemplateSupport_eq (p : Pattern) (ell : Datum) (f : Nat) (T : Datum) (inEll : Bool)
    (seen : List Datum) : checkTemplateSupport f T p ell inEll seen = supOne p ell f T inEll seen := by
  cases T <;> rfl

/-- what the loop invariant says about one list of items -/
def SupShape (p : Pattern) (ell : Datum) (inEll : Bool) (items seen seen' : List Datum) : Prop :=
  (inEll = true → ngL ell items = true ∧ (seen' = seen ∨ hasExpL p items = true)) ∧
  (inEll = false → okL p ell items = true)

theorem supOne_shape (p : Pattern) (es : Text) (f : Nat)
    (ih : ∀ (inEll : Bool) (items seen seen' : List Datum), neeL (.sym es) items = true →
      ctsupLoop p (.sym es) f inEll items seen = .ok seen' → SupShape p (.sym es) inEll items seen seen')
    (it : Datum) (inEll : Bool) (seen seen' : List Datum) (hnee : nee (.sym es) it = true)
    (h : supOne p (.sym es) f it inEll seen = .ok seen') :
    (inEll = true → ng (.sym es) it = true ∧ (seen' = seen ∨ hasExp p it = true)) ∧
    (inEll = false → okT p (.sym es) it = true) := by
  cases it with
  | vec v => simp [supOne] at h
  | sym x =>
    simp only [supOne] at h
    refine ⟨fun _ => ⟨rfl, ?_⟩, fun _ => rfl⟩
    split at h
    · cases h
    · split at h
      · rename_i hexp
        split at h
        · cases h
        · split at h
          · cases h
          · exact Or.inr (by simpa [hasExp] using hexp)
      · cases h; exact Or.inl rfl
  | pair a d =>
    simp only [supOne] at h
    split at h
    · cases h
    · have := ih inEll _ seen seen' (by rw [neeL_iterList]; exact hnee) h
      rw [SupShape, ngL_iterList, hasExpL_iterList, okL_iterList] at this
      exact this
  | _ =>
    simp only [supOne] at h
    cases h
    exact ⟨fun _ => ⟨rfl, Or.inl rfl⟩, fun _ => rfl⟩

theorem ctsupLoop_shape (p : Pattern) (es : Text) : ∀ (f : Nat) (inEll : Bool)
    (items seen seen' : List Datum), neeL (.sym es) items = true →
    ctsupLoop p (.sym es) f inEll items seen = .ok seen' → SupShape p (.sym es) inEll items seen seen' := by
  intro f
  induction f with
  | zero => intro inEll items seen seen' _ h; simp [ctsupLoop] at h
  | succ f ih =>
    intro inEll items seen seen' hnee h
    cases items with
    | nil =>
      simp only [ctsupLoop] at h
      cases h
      exact ⟨fun _ => ⟨rfl, Or.inl rfl⟩, fun _ => rfl⟩
    | cons it rest =>
      rw [ctsupLoop_succ] at h
      simp only [neeL, Bool.and_eq_true, Bool.not_eq_true', Bool.and_eq_false_iff] at hnee
      obtain ⟨⟨hadj, hneeit⟩, hneerest⟩ := hnee
      split at h
      · -- the ellipsis itself: a plain symbol, not followed by another ellipsis
        rename_i hit
        have hpk : peekIs (.sym es) rest = false := by
          rcases hadj with h1 | h1
          · rw [hit] at h1; cases h1
          · exact h1
        have hsym : it = .sym es := by simpa using hit
        have hr := ih _ _ _ _ hneerest h
        subst hsym
        refine ⟨fun hi => ?_, fun hi => ?_⟩
        · obtain ⟨h1, h2⟩ := hr.1 hi
          refine ⟨by simp [ngL, ng, hpk, h1], ?_⟩
          rcases h2 with h2 | h2
          · exact Or.inl h2
          · exact Or.inr (by simp [hasExpL, h2])
        · have := hr.2 hi
          simp [okL, okT, hpk, this]
      · split at h
        · -- a group `it ...`
          rename_i hpk
          split at h
          · cases h
          · rename_i hin
            have hin : inEll = false := by simpa using hin
            split at h
            · rename_i seen1 hone
              split at h
              · cases h
              · rename_i hne
                have hr := ih _ _ _ _ hneerest h
                have h1 := (supOne_shape p es f ih it true [] seen1 hneeit hone).1 rfl
                refine ⟨fun hi => (by rw [hin] at hi; cases hi), fun _ => ?_⟩
                have hexp : hasExp p it = true := by
                  rcases h1.2 with h2 | h2
                  · rw [h2] at hne; simp at hne
                  · exact h2
                simp [okL, hpk, h1.1, hexp, hr.2 hin]
            all_goals cases h
        · rename_i hpk
          have hpk : peekIs (.sym es) rest = false := by simpa using hpk
          split at h
          · rename_i seen1 hone
            have hr := ih _ _ _ _ hneerest h
            have h1 := supOne_shape p es f ih it inEll seen seen1 hneeit hone
            refine ⟨fun hi => ?_, fun hi => ?_⟩
            · obtain ⟨hr1, hr2⟩ := hr.1 hi
              obtain ⟨h11, h12⟩ := h1.1 hi
              refine ⟨by simp [ngL, hpk, h11, hr1], ?_⟩
              rcases h12 with h12 | h12
              · rcases hr2 with hr2 | hr2
                · exact Or.inl (hr2.trans h12)
                · exact Or.inr (by simp [hasExpL, hr2])
              · exact Or.inr (by simp [hasExpL, h12])
            · simp [okL, hpk, h1.2 hi, hr.2 hi]
          all_goals cases h

/-- **shape of the template of every rule `Transform::try_new` accepts** -/
theorem ruleOK_okT (s : Setup) {f : Nat} {r : Pattern × Datum} (h : RuleOK f s.ell s.lits r) :
    okT r.1 s.ell r.2 = true := by
  have hnee := checkTemplateSyntax_nee (es := s.es) h.tsyntax
  obtain ⟨seen, hsup⟩ := h.tsupport
  rw [checkTemplateSupport_eq] at hsup
  exact (supOne_shape r.1 s.es f (ctsupLoop_shape r.1 s.es f) r.2 false [] seen hnee hsup).2 rfl

end Marwood.Transform.Term
