import Marwood.Lemmas.EvalExtraSteps
import Marwood.Lemmas.EvalFrameForms
/-!
# Extra-cell invariance: the special forms (two-sided analogue of `EvalFrameForms`)

Each function of one level of evaluation, run on the same syntax under environments related by
`EnvRel f B` (and with related values), is simulated (`Sim f`) by its twin.
-/
namespace Marwood.Spec.Eval.Extra
open Marwood Marwood.Spec.Eval

variable {f : LMap} {r r' : Rec} {B : List Text} {ρ ρ' : Env}

/-! ## environments and bindings -/

theorem EnvRel.cons (he : EnvRel f B ρ ρ') (x : Text) {l l' : Loc} (hl : f l = l') :
    EnvRel f B ((x, l) :: ρ) ((x, l') :: ρ') := by
  intro y hy
  subst hl
  simp only [List.lookup_cons]
  cases y == x with
  | true => exact .some l
  | false => exact he y hy

/-- same names, related values -/
inductive BindsRel (f : LMap) : List (Text × Val) → List (Text × Val) → Prop
  | nil : BindsRel f [] []
  | cons (x : Text) {v v' : Val} {xs xs'} : VRel f v v' → BindsRel f xs xs' → BindsRel f ((x, v) :: xs) ((x, v') :: xs')

theorem bindsRel_zip : ∀ (names : List Text) {vs vs' : List Val}, VsRel f vs vs' →
    BindsRel f (names.zip vs) (names.zip vs')
  | [], _, _, _ => by simp only [List.zip_nil_left]; exact .nil
  | x :: names, _, _, .nil => by simp only [List.zip_nil_right]; exact .nil
  | x :: names, _, _, .cons hv hvs => by
    simp only [List.zip_cons_cons]
    exact .cons x hv (bindsRel_zip names hvs)

theorem bindsRel_const {α : Type} (g : α → Text) {v : Val} (hv : VRel f v v) : ∀ (xs : List α),
    BindsRel f (xs.map fun a => (g a, v)) (xs.map fun a => (g a, v))
  | [] => .nil
  | a :: xs => .cons (g a) hv (bindsRel_const g hv xs)

theorem bindsRel_undef_pairs : ∀ (bs : List (Text × Datum)),
    BindsRel f (bs.map fun (x, _) => (x, Val.undef)) (bs.map fun (x, _) => (x, Val.undef))
  | [] => .nil
  | (x, _) :: bs => .cons x .undef (bindsRel_undef_pairs bs)

theorem sim_allocVars {xs xs'} (h : BindsRel f xs xs') : ∀ {ρ ρ'}, EnvRel f B ρ ρ' →
    Sim f (EnvRel f B) (allocVars xs ρ) (allocVars xs' ρ') := by
  induction h with
  | nil => intro ρ ρ' he; exact Sim.pure _ _ he
  | cons x hv _ ih =>
    intro ρ ρ' he
    simp only [allocVars]
    refine Sim.bind (sim_allocCell (.var hv)) (fun l l' hl => ?_)
    exact ih (he.cons x hl)

/-! ## closures, definitions, assignment -/

theorem sim_makeClosure (formals body : Datum) (he : EnvRel f B ρ ρ') (hb : CleanB B body) :
    Sim f (VRel f) (makeClosure formals body ρ) (makeClosure formals body ρ') := by
  unfold makeClosure
  split
  · rename_i ps rest b bs _ h2
    exact Sim.pure _ _ (.closure ps rest (b :: bs) ρ ρ' B he (cleanBs_properList h2 hb))
  · exact Sim.throw _

theorem sim_defineValue (hr : RecSim f r r') (he : EnvRel f B ρ ρ') (d : Datum) (hd : CleanB B d) :
    Sim f (fun p p' => p'.1 = p.1 ∧ p.1 ∉ B ∧ VRel f p.2 p'.2) (defineValue r ρ d) (defineValue r' ρ' d) := by
  unfold defineValue
  split
  · rename_i y e
    simp only [cleanB_pair, cleanB_sym] at hd
    split
    · exact Sim.throw _
    · refine Sim.bind (hr.eval e ρ ρ' B he hd.2.2.1) (fun v v' hv => ?_)
      exact Sim.pure _ _ ⟨rfl, hd.2.1, hv⟩
  · rename_i g formals body
    simp only [cleanB_pair, cleanB_sym] at hd
    split
    · exact Sim.throw _
    · refine Sim.bind (sim_makeClosure formals body he hd.2.2) (fun v v' hv => ?_)
      exact Sim.pure _ _ ⟨rfl, hd.2.1.1, hv⟩
  · exact Sim.throw _

theorem sim_assignVar (hf : Inj f) (he : EnvRel f B ρ ρ') (y : Text) (hy : y ∉ B) {v v' : Val} (hv : VRel f v v') :
    Sim f (fun _ _ => True) (assignVar ρ y v) (assignVar ρ' y v') := by
  unfold assignVar
  have := he y hy
  revert this
  generalize List.lookup y ρ = o
  generalize List.lookup y ρ' = o'
  intro h
  cases h with
  | none => exact sim_setGlobal y hv
  | some l => exact sim_writeCell hf rfl (.var hv)

/-! ## bodies -/

theorem sim_evalBodyForms (hf : Inj f) (hr : RecSim f r r') (he : EnvRel f B ρ ρ') : ∀ (es : List Datum) (defs : Bool), CleanBs B es →
    Sim f (VRel f) (evalBodyForms r ρ defs es) (evalBodyForms r' ρ' defs es)
  | [], _, _ => by simp only [evalBodyForms]; exact Sim.throw _
  | [e], defs, h => by
    rw [cleanBs_cons] at h
    simp only [evalBodyForms]
    split
    · refine Sim.bind (sim_defineValue hr he e h.1) (fun p p' hp => ?_)
      obtain ⟨x, v⟩ := p
      obtain ⟨x', v'⟩ := p'
      simp only at hp
      obtain ⟨rfl, hx, hv⟩ := hp
      refine Sim.bind (sim_assignVar hf he x' hx hv) (fun _ _ _ => ?_)
      exact Sim.pure _ _ .void
    · exact hr.eval e ρ ρ' B he h.1
  | e :: e' :: es, defs, h => by
    rw [cleanBs_cons] at h
    simp only [evalBodyForms]
    split
    · refine Sim.bind (sim_defineValue hr he e h.1) (fun p p' hp => ?_)
      obtain ⟨x, v⟩ := p
      obtain ⟨x', v'⟩ := p'
      simp only at hp
      obtain ⟨rfl, hx, hv⟩ := hp
      refine Sim.bind (sim_assignVar hf he x' hx hv) (fun _ _ _ => ?_)
      exact sim_evalBodyForms hf hr he (e' :: es) true h.2
    · refine Sim.bind (hr.eval e ρ ρ' B he h.1) (fun _ _ _ => ?_)
      exact sim_evalBodyForms hf hr he (e' :: es) false h.2

theorem sim_evalBody (hf : Inj f) (hr : RecSim f r r') (he : EnvRel f B ρ ρ') (body : List Datum) (h : CleanBs B body) :
    Sim f (VRel f) (evalBody r ρ body) (evalBody r' ρ' body) := by
  unfold evalBody
  refine Sim.bind (sim_allocVars (bindsRel_const (fun x => x) .undef _) he) (fun ρ1 ρ1' he1 => ?_)
  exact sim_evalBodyForms hf hr he1 body true h

theorem sim_bindArgs : ∀ (ps : List Text) (rest : Option Text) {args args' : List Val}, VsRel f args args' → ∀ {ρ ρ'}, EnvRel f B ρ ρ' →
    Sim f (EnvRel f B) (bindArgs ps rest args ρ) (bindArgs ps rest args' ρ') := by
  intro ps
  induction ps with
  | nil =>
    intro rest args args' ha ρ ρ' he
    cases rest with
    | none =>
      cases ha with
      | nil => simp only [bindArgs]; exact Sim.pure _ _ he
      | cons _ _ => simp only [bindArgs]; exact Sim.throw _
    | some rr =>
      simp only [bindArgs]
      refine Sim.bind (sim_allocList ha) (fun lst lst' hl => ?_)
      refine Sim.bind (sim_allocCell (.var hl)) (fun l l' hl' => ?_)
      exact Sim.pure _ _ (he.cons rr hl')
  | cons p ps ih =>
    intro rest args args' ha ρ ρ' he
    cases ha with
    | nil => simp only [bindArgs]; exact Sim.throw _
    | cons hv hvs =>
      simp only [bindArgs]
      refine Sim.bind (sim_allocCell (.var hv)) (fun l l' hl => ?_)
      exact ih rest hvs (he.cons p hl)

/-! ## quasiquote -/

theorem sim_qq (hr : RecSim f r r') (he : EnvRel f B ρ ρ') : ∀ (n : Nat) (d : Datum) (depth : Nat), dsz d ≤ n → CleanB B d →
    Sim f (VRel f) (qq r ρ d depth) (qq r' ρ' d depth) ∧ Sim f (VsRel f) (qqElems r ρ d depth) (qqElems r' ρ' d depth) := by
  intro n
  induction n with
  | zero => intro d depth hn; cases d <;> simp [dsz] at hn
  | succ n ih =>
    intro d depth hn hc
    refine ⟨?_, ?_⟩
    · unfold qq
      split
      · rename_i s y
        simp only [cleanB_pair, cleanB_sym] at hc
        simp only [dsz] at hn
        have hy : ∀ k, Sim f (VRel f) (qq r ρ y k) (qq r' ρ' y k) := fun k => (ih y k (by omega) hc.2.1).1
        have hl : ∀ {w w' : Val}, VRel f w w' → Sim f (VRel f) (allocList [.sym s, w]) (allocList [.sym s, w']) :=
          fun h => sim_allocList (.cons (.sym s) (.cons h .nil))
        split
        · split
          · exact hr.eval y ρ ρ' B he hc.2.1
          · exact Sim.bind (hy _) (fun w w' hw => hl hw)
        · split
          · exact Sim.bind (hy _) (fun w w' hw => hl hw)
          · exact Sim.bind (hy _) (fun w w' hw => hl hw)
      · rename_i a d2 _
        simp only [cleanB_pair] at hc
        simp only [dsz] at hn
        refine Sim.bind (ih a _ (by omega) hc.1).1 (fun a1 a2 ha => ?_)
        refine Sim.bind (ih d2 _ (by omega) hc.2).1 (fun t1 t2 ht => ?_)
        exact sim_cons ha ht
      · rename_i e
        simp only [cleanB_vec] at hc
        simp only [dsz] at hn
        refine Sim.bind (ih e _ (by omega) hc).2 (fun xs xs' hxs => ?_)
        exact sim_allocVec hxs
      · exact sim_quoteVal _
    · unfold qqElems
      split
      · rename_i a d2
        simp only [cleanB_pair] at hc
        simp only [dsz] at hn
        refine Sim.bind (ih a _ (by omega) hc.1).1 (fun a1 a2 ha => ?_)
        refine Sim.bind (ih d2 _ (by omega) hc.2).2 (fun t1 t2 ht => ?_)
        exact Sim.pure _ _ (.cons ha ht)
      · exact Sim.pure _ _ .nil

/-! ## `cond`, `case` -/

theorem VRel.eqvDatum {v v' : Val} (h : VRel f v v') (d : Datum) : eqvDatum v' d = eqvDatum v d := by
  cases h <;> cases d <;> rfl

theorem sim_evalCond (hr : RecSim f r r') (he : EnvRel f B ρ ρ') : ∀ (cs : List Datum), CleanBs B cs →
    Sim f (VRel f) (evalCond r ρ cs) (evalCond r' ρ' cs)
  | [], _ => Sim.pure _ _ .void
  | c :: cs, h => by
    rw [cleanBs_cons] at h
    simp only [evalCond]
    split
    · rename_i t body hp
      have hcl := cleanBs_properList hp h.1
      rw [cleanBs_cons] at hcl
      split
      · split
        · exact sim_evalExprs hr he body hcl.2
        · exact Sim.throw _
      · refine Sim.bind (hr.eval t ρ ρ' B he hcl.1) (fun v v' hv => ?_)
        rw [hv.truthy]
        split
        · split
          · exact Sim.pure _ _ hv
          · rename_i arrow g
            have hb := hcl.2
            simp only [cleanBs_cons] at hb
            split
            · refine Sim.bind (hr.eval g ρ ρ' B he hb.2.1) (fun fv fv' hfv => ?_)
              exact hr.apply _ _ _ _ hfv (.cons hv .nil)
            · exact sim_evalExprs hr he _ hcl.2
          · exact sim_evalExprs hr he body hcl.2
        · exact sim_evalCond hr he cs h.2
    · exact Sim.throw _

theorem sim_evalCase (hr : RecSim f r r') (he : EnvRel f B ρ ρ') {key key' : Val} (hk : VRel f key key') : ∀ (cs : List Datum), CleanBs B cs →
    Sim f (VRel f) (evalCase r ρ key cs) (evalCase r' ρ' key' cs)
  | [], _ => Sim.pure _ _ .void
  | c :: cs, h => by
    rw [cleanBs_cons] at h
    have ek : eqvDatum key' = eqvDatum key := funext (fun d => hk.eqvDatum d)
    simp only [evalCase, ek]
    split
    · rename_i sel bodyD
      have hc := h.1
      simp only [cleanB_pair] at hc
      split
      · rename_i body hp
        have hb : CleanBs B body := cleanBs_properList hp hc.2
        split
        · exact Sim.throw _
        · exact sim_evalCase hr he hk cs h.2
        · split
          · rename_i arrow g
            have hb' := hb
            simp only [cleanBs_cons] at hb'
            split
            · refine Sim.bind (hr.eval g ρ ρ' B he hb'.2.1) (fun fv fv' hfv => ?_)
              exact hr.apply _ _ _ _ hfv (.cons hk .nil)
            · exact sim_evalExprs hr he _ hb
          · exact sim_evalExprs hr he body hb
      · exact Sim.throw _
    · exact Sim.throw _

/-! ## `let*`, variables, `letrec` -/

theorem sim_evalLetStar (hf : Inj f) (hr : RecSim f r r') (body : List Datum) (hb : CleanBs B body) : ∀ (bs : List (Text × Datum)) {ρ ρ'}, EnvRel f B ρ ρ' →
    (∀ b ∈ bs, CleanB B b.2) → Sim f (VRel f) (evalLetStar r body bs ρ) (evalLetStar r' body bs ρ')
  | [], ρ, ρ', he, _ => by simp only [evalLetStar]; exact sim_evalBody hf hr he body hb
  | (y, e) :: bs, ρ, ρ', he, h => by
    simp only [evalLetStar]
    refine Sim.bind (hr.eval e ρ ρ' B he (h (y, e) (by simp))) (fun v v' hv => ?_)
    refine Sim.bind (sim_allocCell (.var hv)) (fun l l' hl => ?_)
    exact sim_evalLetStar hf hr body hb bs (he.cons y hl) (fun b hb' => h b (by simp [hb']))

theorem sim_evalVar (he : EnvRel f B ρ ρ') (s : Text) (hs : s ∉ B) : Sim f (VRel f) (evalVar s ρ) (evalVar s ρ') := by
  unfold evalVar
  split
  · exact Sim.throw _
  · have := he s hs
    revert this
    generalize List.lookup s ρ = o
    generalize List.lookup s ρ' = o'
    intro h
    cases h with
    | none => exact sim_getGlobal s
    | some l => exact sim_readVar rfl

theorem sim_evalLetrecInits (hf : Inj f) (hr : RecSim f r r') (he : EnvRel f B ρ ρ') : ∀ (bs : List (Text × Datum)),
    (∀ b ∈ bs, b.1 ∉ B ∧ CleanB B b.2) → Sim f (fun _ _ => True) (evalLetrecInits r ρ bs) (evalLetrecInits r' ρ' bs)
  | [], _ => Sim.pure _ _ trivial
  | (y, e) :: bs, h => by
    simp only [evalLetrecInits]
    have h1 := h (y, e) (by simp)
    refine Sim.bind (hr.eval e ρ ρ' B he h1.2) (fun v v' hv => ?_)
    refine Sim.bind (sim_assignVar hf he y h1.1 hv) (fun _ _ _ => ?_)
    exact sim_evalLetrecInits hf hr he bs (fun b hb => h b (by simp [hb]))

/-! ## the special forms -/

theorem cleanBs_map_snd {bs : List (Text × Datum)} (h : ∀ p ∈ bs, p.1 ∉ B ∧ CleanB B p.2) :
    CleanBs B (bs.map (·.2)) := by
  intro d hd
  simp only [List.mem_map] at hd
  obtain ⟨b', hb', rfl⟩ := hd
  exact (h b' hb').2

theorem sim_evalKw (hf : Inj f) (hr : RecSim f r r') (he : EnvRel f B ρ ρ') (k : Kw) (rest : Datum) (hc : CleanB B rest) :
    Sim f (VRel f) (evalKw r ρ k rest) (evalKw r' ρ' k rest) := by
  cases k with
  | quote =>
    simp only [evalKw]
    split
    · exact sim_quoteVal _
    · exact Sim.throw _
  | quasiquote =>
    simp only [evalKw]
    split
    · simp only [cleanB_pair] at hc; exact (sim_qq hr he _ _ _ (Nat.le_refl _) hc.1).1
    · exact Sim.throw _
  | unquote => exact Sim.throw _
  | define => exact Sim.throw _
  | lambda =>
    simp only [evalKw]
    split
    · simp only [cleanB_pair] at hc; exact sim_makeClosure _ _ he hc.2
    · exact Sim.throw _
  | setBang =>
    simp only [evalKw]
    split
    · rename_i y e hp
      have hd := cleanBs_properList hp hc
      simp only [cleanBs_cons, cleanB_sym] at hd
      split
      · exact Sim.throw _
      · refine Sim.bind (hr.eval e ρ ρ' B he hd.2.1) (fun v v' hv => ?_)
        refine Sim.bind (sim_assignVar hf he y hd.1 hv) (fun _ _ _ => ?_)
        exact Sim.pure _ _ .void
    · exact Sim.throw _
  | if_ =>
    simp only [evalKw]
    split
    · rename_i t c hp
      have hd := cleanBs_properList hp hc
      simp only [cleanBs_cons] at hd
      refine Sim.bind (hr.eval t ρ ρ' B he hd.1) (fun v v' hv => ?_)
      rw [hv.truthy]
      split
      · exact hr.eval c ρ ρ' B he hd.2.1
      · exact Sim.pure _ _ .void
    · rename_i t c a hp
      have hd := cleanBs_properList hp hc
      simp only [cleanBs_cons] at hd
      refine Sim.bind (hr.eval t ρ ρ' B he hd.1) (fun v v' hv => ?_)
      rw [hv.truthy]
      split
      · exact hr.eval c ρ ρ' B he hd.2.1
      · exact hr.eval a ρ ρ' B he hd.2.2.1
    · exact Sim.throw _
  | let_ =>
    simp only [evalKw]
    split
    · rename_i name bindings bodyD
      simp only [cleanB_pair, cleanB_sym] at hc
      split
      · rename_i bs b body hb hp
        have hbs := cleanB_parseBindings hb hc.2.1
        have hbody := cleanBs_properList hp hc.2.2
        split
        · exact Sim.throw _
        · refine Sim.bind (sim_evalArgs hr he _ (cleanBs_map_snd hbs)) (fun vs vs' hvs => ?_)
          refine Sim.bind (sim_allocCell (.var .undef)) (fun l l' hl => ?_)
          have hclo : VRel f (Val.closure (bs.map (·.1)) none (b :: body) ((name, l) :: ρ))
              (Val.closure (bs.map (·.1)) none (b :: body) ((name, l') :: ρ')) :=
            .closure _ _ _ _ _ B (he.cons name hl) hbody
          refine Sim.bind (sim_writeCell hf hl (.var hclo)) (fun _ _ _ => ?_)
          exact hr.apply _ _ _ _ hclo hvs
      · exact Sim.throw _
    · rename_i bindings bodyD _
      simp only [cleanB_pair] at hc
      split
      · rename_i bs b body hb hp
        have hbs := cleanB_parseBindings hb hc.1
        have hbody := cleanBs_properList hp hc.2
        refine Sim.bind (sim_evalArgs hr he _ (cleanBs_map_snd hbs)) (fun vs vs' hvs => ?_)
        refine Sim.bind (sim_allocVars (bindsRel_zip _ hvs) he) (fun ρ1 ρ1' he1 => ?_)
        exact sim_evalBody hf hr he1 _ hbody
      · exact Sim.throw _
    · exact Sim.throw _
  | letStar =>
    simp only [evalKw]
    split
    · rename_i bindings bodyD
      simp only [cleanB_pair] at hc
      split
      · rename_i bs b body hb hp
        have hbs := cleanB_parseBindings hb hc.1
        have hbody := cleanBs_properList hp hc.2
        exact sim_evalLetStar hf hr _ hbody bs he (fun b' hb' => (hbs b' hb').2)
      · exact Sim.throw _
    · exact Sim.throw _
  | letrec =>
    simp only [evalKw]
    split
    · rename_i bindings bodyD
      simp only [cleanB_pair] at hc
      split
      · rename_i bs b body hb hp
        have hbs := cleanB_parseBindings hb hc.1
        have hbody := cleanBs_properList hp hc.2
        refine Sim.bind (sim_allocVars (bindsRel_undef_pairs bs) he) (fun ρ1 ρ1' he1 => ?_)
        refine Sim.bind (sim_evalLetrecInits hf hr he1 bs hbs) (fun _ _ _ => ?_)
        exact sim_evalBody hf hr he1 _ hbody
      · exact Sim.throw _
    · exact Sim.throw _
  | begin_ =>
    simp only [evalKw]
    split
    · rename_i es hp
      exact sim_evalExprs hr he es (cleanBs_properList hp hc)
    · exact Sim.throw _
  | cond =>
    simp only [evalKw]
    split
    · rename_i c cs hp
      exact sim_evalCond hr he _ (cleanBs_properList hp hc)
    · exact Sim.throw _
  | case_ =>
    simp only [evalKw]
    split
    · rename_i keyE clauses
      simp only [cleanB_pair] at hc
      split
      · rename_i c cs hp
        refine Sim.bind (hr.eval keyE ρ ρ' B he hc.1) (fun key key' hk => ?_)
        exact sim_evalCase hr he hk _ (cleanBs_properList hp hc.2)
      · exact Sim.throw _
    · exact Sim.throw _
  | and_ =>
    simp only [evalKw]
    split
    · rename_i es hp
      exact sim_evalAnd hr he es (cleanBs_properList hp hc)
    · exact Sim.throw _
  | or_ =>
    simp only [evalKw]
    split
    · rename_i es hp
      exact sim_evalOr hr he es (cleanBs_properList hp hc)
    · exact Sim.throw _
  | when_ =>
    simp only [evalKw]
    split
    · rename_i t b body hp
      have hd := cleanBs_properList hp hc
      rw [cleanBs_cons] at hd
      refine Sim.bind (hr.eval t ρ ρ' B he hd.1) (fun v v' hv => ?_)
      rw [hv.truthy]
      split
      · exact sim_evalExprs hr he _ hd.2
      · exact Sim.pure _ _ .void
    · exact Sim.throw _
  | unless_ =>
    simp only [evalKw]
    split
    · rename_i t b body hp
      have hd := cleanBs_properList hp hc
      rw [cleanBs_cons] at hd
      refine Sim.bind (hr.eval t ρ ρ' B he hd.1) (fun v v' hv => ?_)
      rw [hv.truthy]
      split
      · exact Sim.pure _ _ .void
      · exact sim_evalExprs hr he _ hd.2
    · exact Sim.throw _
  | delay =>
    simp only [evalKw]
    split
    · rename_i e hp
      have hd := cleanBs_properList hp hc
      refine Sim.bind (sim_allocCell (.promise false (.closure [] none [e] ρ ρ' B he hd))) (fun l l' hl => ?_)
      subst hl
      exact Sim.pure _ _ (.promise l)
    · exact Sim.throw _

end Marwood.Spec.Eval.Extra
