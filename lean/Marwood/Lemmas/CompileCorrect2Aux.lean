import Marwood.Lemmas.CompileCorrect2Pres
import Marwood.Lemmas.CompileCorrect2Shape
/-!
# T01.3 stage 2 — auxiliary facts: observing a represented value, pushed operands, environment-map slots,
the compiler's table only grows
-/
namespace Marwood.Lemmas.CompileCorrect2
open Marwood Marwood.Vm Marwood.Lemmas.CompileCorrect
open Marwood.Spec.Eval (Val Prim Cell Env quoteVal)

variable {H : Type} {ops : HeapOps H} {D : RepData2 ops}

/-! ## how the machine observes a represented value -/

theorem VR2.of_atom {W : World} {h : H} {S : Array Cell} {v : VCell} {d : Datum} {w : Val}
    (ha : atomVal d = some w) (hv : D.VR h S v w) : VR2 D W h S v w := by
  cases d <;> simp [atomVal] at ha <;> first
    | (subst ha; exact hv)
    | (obtain ⟨i, _, rfl⟩ := ha; exact hv)

theorem VR2.void (L : Laws2 D) (W : World) (h : H) (S : Array Cell) : VR2 D W h S .void .void := L.void h S

theorem VR2.truth (L : Laws2 D) {W : World} {h : H} {S : Array Cell} {v : VCell} {w : Val}
    (r : VR2 D W h S v w) : ops.deref h v = .bool false ↔ w = .bool false := by
  cases w with
  | closure ps rest body ρc =>
    obtain ⟨_, lam, cenv, hc, _⟩ := r
    exact ⟨fun e => absurd e (L.clos_true _ _ _ _ hc), fun e => by cases e⟩
  | _ => exact L.truth _ _ _ _ r

theorem VR2.ne_undefined (L : Laws2 D) {W : World} {h : H} {S : Array Cell} {v : VCell} {w : Val}
    (r : VR2 D W h S v w) : v ≠ .undefined := by
  cases w with
  | closure ps rest body ρc =>
    obtain ⟨_, lam, cenv, hc, _⟩ := r
    exact L.clos_ne_undefined _ _ _ _ hc
  | _ => exact L.ne_undefined _ _ _ _ r

theorem VR2.not_envptr (L : Laws2 D) {W : World} {h : H} {S : Array Cell} {v : VCell} {w : Val}
    (r : VR2 D W h S v w) : isEnvPtr v = false := by
  cases w with
  | closure ps rest body ρc =>
    obtain ⟨_, lam, cenv, hc, _⟩ := r
    exact L.clos_not_envptr _ _ _ _ hc
  | _ => exact L.not_envptr _ _ _ _ r

/-- only the store changed -/
theorem Ext2.storeOnly (L : Laws2 D) (h : H) {S S' : Array Cell} (x : StoreExt S S') : Ext2 D h S h S' :=
  ⟨x, fun _ _ y => L.vr_store _ _ _ _ _ x y,
   fun _ _ y => DatumAt.transport (fun _ _ z => L.vr_store _ _ _ _ _ x z) (fun _ _ _ z => z) (fun _ _ z => z) y,
   fun _ y => ⟨y, fun _ => rfl, rfl, rfl⟩, fun _ _ _ y => y, fun _ y => y, fun _ _ _ _ y => y,
   fun _ _ v y z => ⟨v, y, z⟩⟩

/-- a store all of whose cells are kept is an extension -/
theorem StoreExt.ofStorePrefix {S S' : Array Cell} (h : StorePrefix S S') : StoreExt S S' := by
  refine ⟨?_, fun l c hc _ => h l c hc, fun l v hv => ⟨v, h l _ hv⟩⟩
  rcases Nat.lt_or_ge S'.size S.size with h1 | h1
  · have h2 : S[S'.size]? = some S[S'.size] := Array.getElem?_eq_getElem h1
    have h3 := h _ _ h2
    simp at h3
  · exact h1

/-- the laws of `CompileCorrect2Quote.lean` follow from `Laws2` -/
theorem quoteLaws_of (L : Laws2 D) : QuoteLaws D.toRepData D.vecElems where
  vr_pair := L.vr_pair
  vr_vec := L.vr_vec
  vr_store := fun _ _ _ _ _ hp x => L.vr_store _ _ _ _ _ (StoreExt.ofStorePrefix hp) x
  srx_store := fun _ _ _ hp x => L.srx_store _ _ _ (StoreExt.ofStorePrefix hp) x

/-- the value of a quoted datum is never a procedure -/
theorem quoteVal_not_closure {d : Datum} {σ σ' : SSt} {w : Val} (h : quoteVal d σ = .ok w σ') :
    ∀ a b c e, w ≠ .closure a b c e := by
  intro a b c e hw
  subst hw
  cases d with
  | pair x y =>
    unfold quoteVal at h
    obtain ⟨_, _, _, h⟩ := bind_ok_inv h
    obtain ⟨_, _, _, h⟩ := bind_ok_inv h
    change (Spec.Eval.allocCell _ >>= fun l => pure (Val.pair l)) _ = _ at h
    obtain ⟨_, _, _, h⟩ := bind_ok_inv h
    cases (pure_ok_inv h).1
  | vec x =>
    unfold quoteVal at h
    obtain ⟨_, _, _, h⟩ := bind_ok_inv h
    change (Spec.Eval.allocCell _ >>= fun l => pure (Val.vec l)) _ = _ at h
    obtain ⟨_, _, _, h⟩ := bind_ok_inv h
    cases (pure_ok_inv h).1
  | num n =>
    unfold quoteVal at h
    cases hn : Spec.Eval.intOfNum n with
    | none => rw [hn] at h; cases h
    | some i => rw [hn] at h; cases (pure_ok_inv h).1
  | bool x => unfold quoteVal at h; cases (pure_ok_inv h).1
  | char x => unfold quoteVal at h; cases (pure_ok_inv h).1
  | nil => unfold quoteVal at h; cases (pure_ok_inv h).1
  | str x => unfold quoteVal at h; cases (pure_ok_inv h).1
  | sym x => unfold quoteVal at h; cases (pure_ok_inv h).1
  | void => unfold quoteVal at h; cases (pure_ok_inv h).1
  | undefined => unfold quoteVal at h; cases (pure_ok_inv h).1
  | procedure x => unfold quoteVal at h; cases h
  | macro_ => unfold quoteVal at h; cases h
  | continuation => unfold quoteVal at h; cases h

theorem VR2.of_quote {W : World} {h : H} {S : Array Cell} {v : VCell} {d : Datum} {σ σ' : SSt} {w : Val}
    (hq : quoteVal d σ = .ok w σ') (hv : D.VR h S v w) : VR2 D W h S v w := by
  have := quoteVal_not_closure hq
  cases w <;> first | exact hv | exact absurd rfl (this _ _ _ _)

/-! ## operands on the stack -/

theorem pushAll_sp (st : Stack) (vs : List VCell) : (pushAll st vs).sp = st.sp + vs.length := by
  induction vs generalizing st with
  | nil => rfl
  | cons v vs ih => rw [pushAll_cons, ih]; simp; omega

theorem pushAll_below (st : Stack) (vs : List VCell) (hw : SWF st) (i : Nat) (hi : i ≤ st.sp) :
    (pushAll st vs).cells[i]? = st.cells[i]? := by
  induction vs generalizing st with
  | nil => rfl
  | cons v vs ih =>
    rw [pushAll_cons, ih _ (push_swf st v) (by simp; omega), push_below st v hw i hi]

theorem pushAll_get (st : Stack) (vs : List VCell) (hw : SWF st) (i : Nat) (hi : i < vs.length) :
    (pushAll st vs).cells[st.sp + 1 + i]? = vs[i]? := by
  induction vs generalizing st i with
  | nil => simp at hi
  | cons v vs ih =>
    rw [pushAll_cons]
    cases i with
    | zero =>
      rw [pushAll_below _ _ (push_swf st v) _ (by simp)]
      simpa using push_top st v
    | succ k =>
      have := ih (st.push v) (push_swf st v) k (by simpa using hi)
      simp only [Stack.push_sp] at this
      rw [show st.sp + 1 + (k + 1) = st.sp + 1 + 1 + k by omega, this]
      simp

/-- the frame `CALL` leaves: operands, their number, `%ep`, the return address -/
def callFrame (st0 : Stack) (vs : List VCell) (epc lc oc : Nat) : Stack :=
  (((pushAll st0 vs).push (.argc vs.length)).push (.envPtr epc)).push (.instrPtr lc oc)

theorem callFrame_sp (st0 : Stack) (vs : List VCell) (epc lc oc : Nat) :
    (callFrame st0 vs epc lc oc).sp = st0.sp + vs.length + 3 := by
  simp [callFrame, pushAll_sp]

theorem callFrame_swf (st0 : Stack) (vs : List VCell) (epc lc oc : Nat) : SWF (callFrame st0 vs epc lc oc) :=
  push_swf _ _

theorem callFrame_cells (st0 : Stack) (vs : List VCell) (epc lc oc : Nat) (hw : SWF st0) :
    (∀ i, i ≤ st0.sp → (callFrame st0 vs epc lc oc).cells[i]? = st0.cells[i]?) ∧
    (∀ i, i < vs.length → (callFrame st0 vs epc lc oc).cells[st0.sp + 1 + i]? = vs[i]?) ∧
    (callFrame st0 vs epc lc oc).cells[st0.sp + vs.length + 1]? = some (.argc vs.length) ∧
    (callFrame st0 vs epc lc oc).cells[st0.sp + vs.length + 2]? = some (.envPtr epc) ∧
    (callFrame st0 vs epc lc oc).cells[st0.sp + vs.length + 3]? = some (.instrPtr lc oc) := by
  have hA := pushAll_swf st0 vs hw
  have spA := pushAll_sp st0 vs
  have hB := push_swf (pushAll st0 vs) (.argc vs.length)
  have spB : ((pushAll st0 vs).push (.argc vs.length)).sp = st0.sp + vs.length + 1 := by simp [spA]
  have hC := push_swf ((pushAll st0 vs).push (.argc vs.length)) (.envPtr epc)
  have spC : (((pushAll st0 vs).push (.argc vs.length)).push (.envPtr epc)).sp = st0.sp + vs.length + 2 := by
    simp [spA]
  refine ⟨fun i hi => ?_, fun i hi => ?_, ?_, ?_, ?_⟩
  · unfold callFrame
    rw [push_below _ _ hC i (by omega), push_below _ _ hB i (by omega), push_below _ _ hA i (by omega),
      pushAll_below st0 vs hw i hi]
  · unfold callFrame
    rw [push_below _ _ hC _ (by omega), push_below _ _ hB _ (by omega), push_below _ _ hA _ (by omega),
      pushAll_get st0 vs hw i hi]
  · unfold callFrame
    rw [push_below _ _ hC _ (by omega), push_below _ _ hB _ (by omega)]
    have := push_top (pushAll st0 vs) (.argc vs.length)
    rwa [spA] at this
  · unfold callFrame
    rw [push_below _ _ hC _ (by omega)]
    have := push_top ((pushAll st0 vs).push (.argc vs.length)) (.envPtr epc)
    rwa [spB] at this
  · unfold callFrame
    have := push_top (((pushAll st0 vs).push (.argc vs.length)).push (.envPtr epc)) (.instrPtr lc oc)
    rwa [spC] at this

/-! ## slots of an environment map -/

theorem slotIdx_some_iff_inEnv (c : Ctx) (x : Text) : inEnv c x = true ↔ ∃ j, slotIdx c.envmap x = some j := by
  unfold inEnv slotIdx
  rw [List.any_eq_true]
  constructor
  · rintro ⟨q, hq, hx⟩
    cases hf : c.envmap.findIdx? (fun p => p.1 == x) with
    | some j => exact ⟨j, rfl⟩
    | none =>
      rw [List.findIdx?_eq_none_iff] at hf
      have := hf q hq
      rw [hx] at this; cases this
  · rintro ⟨j, hj⟩
    rw [List.findIdx?_eq_some_iff_getElem] at hj
    obtain ⟨hlt, hp, _⟩ := hj
    exact ⟨c.envmap[j], List.getElem_mem hlt, hp⟩

/-- the entry the slot of a symbol points at carries that symbol, and no earlier entry does -/
theorem slotIdx_spec {em : List (Text × Source)} {x : Text} {j : Nat} (h : slotIdx em x = some j) :
    (∃ src, em[j]? = some (x, src)) ∧ ∀ i, i < j → ∀ q, em[i]? = some q → q.1 ≠ x := by
  unfold slotIdx at h
  rw [List.findIdx?_eq_some_iff_getElem] at h
  obtain ⟨hlt, hp, hbefore⟩ := h
  refine ⟨⟨em[j].2, ?_⟩, fun i hi q hq => ?_⟩
  · rw [List.getElem?_eq_getElem hlt]
    have : em[j].1 = x := by simpa using hp
    rw [← this]
  · have hil : i < em.length := by omega
    rw [List.getElem?_eq_getElem hil] at hq
    cases hq
    have := hbefore i hi
    simpa using this

theorem argEntries_length (ps : List Text) : (argEntries ps).length = ps.length := by
  simp [argEntries]

theorem argEntries_get (ps : List Text) (j : Nat) (x : Text) (h : ps[j]? = some x) :
    (argEntries ps)[j]? = some (x, .argument j) := by
  simp [argEntries, List.getElem?_map, List.getElem?_zipIdx, h]

/-- slots of the map `formals ++ captured` -/
theorem slot_cases {ps : List Text} {caps : List (Text × Source)} {x : Text} {j : Nat}
    (h : slotIdx (argEntries ps ++ caps) x = some j) :
    (j < ps.length ∧ ps[j]? = some x) ∨
    (ps.length ≤ j ∧ x ∉ ps ∧ ∃ src, (argEntries ps ++ caps)[j]? = some (x, src) ∧ (x, src) ∈ caps) := by
  obtain ⟨⟨src, hsrc⟩, hbefore⟩ := slotIdx_spec h
  by_cases hj : j < ps.length
  · left
    refine ⟨hj, ?_⟩
    have hx : ps[j]? = some ps[j] := List.getElem?_eq_getElem hj
    have := argEntries_get ps j _ hx
    rw [List.getElem?_append_left (by rw [argEntries_length]; exact hj), this] at hsrc
    cases hsrc
    exact hx
  · right
    refine ⟨by omega, ?_, src, hsrc, ?_⟩
    · intro hmem
      obtain ⟨i, hi, hxi⟩ := List.getElem_of_mem hmem
      have hgi : ps[i]? = some x := by rw [List.getElem?_eq_getElem hi, hxi]
      have := argEntries_get ps i x hgi
      have h2 : (argEntries ps ++ caps)[i]? = some (x, .argument i) := by
        rw [List.getElem?_append_left (by rw [argEntries_length]; exact hi)]; exact this
      exact hbefore i (by omega) _ h2 rfl
    · rw [List.getElem?_append_right (by rw [argEntries_length]; omega)] at hsrc
      exact List.mem_of_getElem? hsrc

theorem map_get {α β : Type} (f : α → β) (l : List α) (j : Nat) (b : β) (h : (l.map f)[j]? = some b) :
    ∃ a, l[j]? = some a ∧ f a = b := by
  rw [List.getElem?_map] at h
  cases ha : l[j]? with
  | none => rw [ha] at h; cases h
  | some a => rw [ha] at h; exact ⟨a, rfl, by simpa using h⟩

/-! ## the compiler's table only grows -/

def MonoOK (G : Text → Prop) (f : Nat) : Prop :=
  (∀ c ns t e st base st' code, F2 G f c ns t e → compileExpr f st c base t e = .ok (st', code) →
    st.lambdas <+: st'.lambdas) ∧
  (∀ c ns e st base st' code k, F2L G f c ns e → compileArgs f st c base e = .ok (st', code, k) →
    st.lambdas <+: st'.lambdas) ∧
  (∀ c ns e st base st' code, F2B G f c ns e → compileBody f st c base e = .ok (st', code) →
    st.lambdas <+: st'.lambdas)

theorem monoOK (G : Text → Prop) : ∀ f, MonoOK G f
  | 0 => ⟨(by intro c ns t e st base st' code hf; cases hf), (by intro c ns e st base st' code k hf; cases hf),
          (by intro c ns e st base st' code hf; cases hf)⟩
  | f + 1 => by
    have ih := monoOK G f
    refine ⟨?_, ?_, ?_⟩
    · intro c ns t e st base st' code hf hc
      cases hf with
      | bool b => rw [(compile_const_inv2 (.inl ⟨b, rfl⟩) hc).2]; exact List.prefix_refl _
      | char ch => rw [(compile_const_inv2 (.inr (.inl ⟨ch, rfl⟩)) hc).2]; exact List.prefix_refl _
      | num n => rw [(compile_const_inv2 (.inr (.inr (.inl ⟨n, rfl⟩))) hc).2]; exact List.prefix_refl _
      | str s => rw [(compile_const_inv2 (.inr (.inr (.inr ⟨s, rfl⟩))) hc).2]; exact List.prefix_refl _
      | quote d rest => rw [(compile_quote_inv2 hc).2]; exact List.prefix_refl _
      | vecc e => rw [(compile_vec_inv2 hc).2]; exact List.prefix_refl _
      | sym x _ => rw [(compile_sym_inv2 hc).2]; exact List.prefix_refl _
      | setBang x e _ _ he =>
        obtain ⟨code1, h1, _⟩ := compile_setBang_inv2 hc
        exact ih.1 _ _ _ _ _ _ _ _ he h1
      | if2 tst cn h1 h2 =>
        obtain ⟨st1, tcode, ccode, c1, c2, _⟩ := compile_if2_inv2 hc
        exact (ih.1 _ _ _ _ _ _ _ _ h1 c1).trans (ih.1 _ _ _ _ _ _ _ _ h2 c2)
      | if3 tst cn al h1 h2 h3 =>
        obtain ⟨st1, st2, tcode, ccode, acode, c1, c2, c3, _⟩ := compile_if3_inv2 hc
        exact ((ih.1 _ _ _ _ _ _ _ _ h1 c1).trans (ih.1 _ _ _ _ _ _ _ _ h2 c2)).trans
          (ih.1 _ _ _ _ _ _ _ _ h3 c3)
      | app fn args hh h1 h2 =>
        obtain ⟨st1, code1, n, pcode, c1, c2, _⟩ := compile_app_inv2 hh hc
        exact (ih.2.1 _ _ _ _ _ _ _ _ h2 c1).trans (ih.1 _ _ _ _ _ _ _ _ h1 c2)
      | lambda formals body p ps b bs caps hp _ _ _ _ _ _ _ _ hb =>
        obtain ⟨p', st1, bcode, hp', c1, hl, _⟩ := compile_lambda_inv hc
        rw [hp] at hp'; cases hp'
        rw [(lambdaParts_inv hp).1] at c1
        rw [hl]
        exact (ih.2.2 _ _ _ _ _ _ _ hb c1).trans (List.prefix_append _ _)
    · intro c ns e st base st' code k hf hc
      cases hf with
      | nil => rw [(compileArgs_nil_inv2 hc).2.2]; exact List.prefix_refl _
      | cons a d h1 h2 =>
        obtain ⟨st1, code1, code2, n2, c1, c2, _, _⟩ := compileArgs_pair_inv2 hc
        exact (ih.1 _ _ _ _ _ _ _ _ h1 c1).trans (ih.2.1 _ _ _ _ _ _ _ _ h2 c2)
    · intro c ns e st base st' code hf hc
      cases hf with
      | last x h1 =>
        obtain ⟨st1, code1, code2, c1, c2, _⟩ := compileBody_pair_inv hc
        have hnil : st' = st1 := by
          cases f with
          | zero => simp [compileBody] at c2
          | succ f => exact (compileBody_nil_inv c2).2
        rw [hnil]
        exact ih.1 _ _ _ _ _ _ _ _ h1 c1
      | cons x y rest h1 h2 =>
        obtain ⟨st1, code1, code2, c1, c2, _⟩ := compileBody_pair_inv hc
        exact (ih.1 _ _ _ _ _ _ _ _ h1 c1).trans (ih.2.2 _ _ _ _ _ _ _ h2 c2)

end Marwood.Lemmas.CompileCorrect2
