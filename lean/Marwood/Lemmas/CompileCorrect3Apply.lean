import Marwood.Lemmas.CompileCorrect3Disp
import Marwood.Lemmas.CompileCorrect3ApplyStack
/-!
# T01.3 stage 3 — `apply`: the re-dispatch

`(apply f a₁ … aₖ lst)`: the compiled code pushes `f, a₁, …, aₖ, lst` and their number, loads the `apply` builtin
and executes `CALL`/`TCALL`. The builtin (`builtin/procedure.rs:72-110`, `Machine.lean` `builtinApply`) shifts the
fixed arguments over the procedure, pushes the elements of the list, pushes the new count, winds `ip` back by one
and returns the procedure, so that the SAME instruction runs again with `f` in `acc`. `apply_redispatch3`: if the
specification's `apply` returns — it applies `f` to `a₁ … aₖ` followed by the elements of `lst` — the machine
ends as the dispatch of that call ends (`DispOut`): behind the instruction, or after a `TCALL` of a closure in the
caller of the current activation.

Hypotheses particular to this theorem: the procedure operand is a heap pointer (every closure `CLOSURE` creates
is); the list is a proper list SHORTER THAN THE MODEL'S GUARD (`Machine.lean` bounds the element loop by 100000
iterations to stay total on cyclic lists; the Rust loop has no bound); `ListLaws`: what a stage-1 value that
represents `()` / a pair looks like to `heap.get`.
-/
namespace Marwood.Lemmas.CompileCorrect3
open Marwood Marwood.Vm Marwood.Lemmas.CompileCorrect Marwood.Lemmas.CompileCorrect2
open Marwood.Spec.Eval (Val Prim Cell Env evalN evalStep applyStep evalArgs properList quoteVal kwOf insertG listOfVal)

variable {H : Type} {ops : HeapOps H} {D : RepData2 ops}

/-- ASSUMED: how the machine sees the stage-1 representations of `()` and of a pair -/
structure ListLaws (D : RepData2 ops) : Prop where
  vr_nil_inv : ∀ h S v, D.VR h S v .nil → ops.deref h v = .nil
  vr_pair_inv : ∀ h S v (l : Nat), D.VR h S v (.pair l) → ∃ a d pa pd, S[l]? = some (.pair a d) ∧
    ops.deref h v = .pair pa pd ∧ D.VR h S (.ptr pa) a ∧ D.VR h S (.ptr pd) d

/-- a represented proper list is a machine list of represented elements -/
theorem mlist_of_vr3 (LL : ListLaws D) {W : World} {h : H} {S : Array Cell} :
    ∀ (fuel : Nat) (v : VCell) (w : Val) (xs : List Val), VR3 D W h S v w → listOfVal fuel S w = some xs →
    ∃ ptrs, MList ops h v ptrs ∧ All2 (VR3 D W h S) (ptrs.map VCell.ptr) xs ∧ ptrs.length = xs.length := by
  intro fuel
  induction fuel with
  | zero =>
    intro v w xs hv hl
    cases w with
    | nil =>
      simp only [listOfVal] at hl; cases hl
      cases hv with
      | base hb => exact ⟨[], .nil (LL.vr_nil_inv _ _ _ hb), .nil, rfl⟩
    | _ => simp [listOfVal] at hl
  | succ fuel ih =>
    intro v w xs hv hl
    cases w with
    | nil =>
      simp only [listOfVal] at hl; cases hl
      cases hv with
      | base hb => exact ⟨[], .nil (LL.vr_nil_inv _ _ _ hb), .nil, rfl⟩
    | pair l =>
      simp only [listOfVal] at hl
      cases hs : S[l]? with
      | none => rw [hs] at hl; cases hl
      | some c =>
        rw [hs] at hl
        cases c with
        | pair a d =>
          simp only at hl
          cases hr : listOfVal fuel S d with
          | none => rw [hr] at hl; cases hl
          | some xs' =>
            rw [hr] at hl
            simp only [Option.map] at hl
            cases hl
            have key : ∃ pa pd, ops.deref h v = .pair pa pd ∧ VR3 D W h S (.ptr pa) a ∧ VR3 D W h S (.ptr pd) d := by
              cases hv with
              | base hb =>
                obtain ⟨a', d', pa, pd, g1, g2, g3, g4⟩ := LL.vr_pair_inv _ _ _ _ hb
                rw [hs] at g1; cases g1
                exact ⟨pa, pd, g2, .base g3, .base g4⟩
              | pair g1 g2 g3 g4 =>
                rw [hs] at g1; cases g1
                exact ⟨_, _, g2, g3, g4⟩
            obtain ⟨pa, pd, k1, k2, k3⟩ := key
            obtain ⟨ptrs, m1, m2, m3⟩ := ih (.ptr pd) d xs' k3 hr
            exact ⟨pa :: ptrs, .cons k1 m1, .cons k2 m2, by simp [m3]⟩
        | _ => simp at hl
    | _ => simp [listOfVal] at hl

open Marwood.Spec.Eval in
/-- the specification's `apply`: the last argument is a proper list whose elements are appended to the others -/
theorem apply_prim_inv {r : Rec} {g lastv : Val} {mws : List Val} {σ σ' : SSt} {w : Val}
    (h : applyStep r (.prim .apply) (g :: mws ++ [lastv]) σ = .ok w σ') :
    ∃ xs, listOfVal (σ.store.size + 1) σ.store lastv = some xs ∧ r.apply g (mws ++ xs) σ = .ok w σ' := by
  obtain ⟨a, as, hcons⟩ : ∃ a as, mws ++ [lastv] = a :: as := by
    cases mws with
    | nil => exact ⟨lastv, [], rfl⟩
    | cons a as => exact ⟨a, as ++ [lastv], rfl⟩
  have hlast : (a :: as).getLast?.getD .nil = lastv := by rw [← hcons]; simp
  have hdrop : (a :: as).dropLast = mws := by rw [← hcons]; simp
  rw [List.cons_append, hcons] at h
  simp only [applyStep] at h
  rw [hlast, hdrop] at h
  obtain ⟨xs, σ1, h1, h2⟩ := bind_ok_inv h
  change (getStore >>= fun st => match listOfVal (st.size + 1) st lastv with
    | some xs => pure xs | none => throw .type) σ = _ at h1
  obtain ⟨st, σ0, h3, h4⟩ := bind_ok_inv h1
  have : st = σ.store ∧ σ0 = σ := by
    unfold getStore at h3
    injection h3 with e1 e2
    exact ⟨e1.symm, e2.symm⟩
  obtain ⟨rfl, rfl⟩ := this
  cases hl : listOfVal (σ0.store.size + 1) σ0.store lastv with
  | none => rw [hl] at h4; exact absurd h4 throw_ne_ok
  | some ys =>
    rw [hl] at h4
    obtain ⟨e1, e2⟩ := pure_ok_inv h4
    subst e1 e2
    exact ⟨_, rfl, h2⟩

theorem all2_append {α β : Type} {R : α → β → Prop} {l m : List α} {l' m' : List β} (h1 : All2 R l l')
    (h2 : All2 R m m') : All2 R (l ++ m) (l' ++ m') := by
  induction h1 with
  | nil => exact h2
  | cons h _ ih => exact .cons h ih

/-- **`apply` re-dispatch.** -/
theorem apply_redispatch3 (L : Laws3 D) (LL : ListLaws D) {n : Nat} {tail : Bool} {em : List (Text × Source)}
    {W : World} {s : MSt H} {fr : Frame} {stk0 : Stack} {σ σ' : SSt} {g lastv w : Val} {pg : Nat} {vl : VCell}
    {mid : List VCell} {mws : List Val} {id : Nat}
    (hc : CodeAt2 D em s.heap σ.store s.ipL s.ipO [BC.op (if tail = true then .tcallAcc else .callAcc)])
    (hcal : ops.callee s.heap s.acc = .builtin id) (hkind : ops.builtinKind s.heap id = .apply)
    (hg : VR3 D W s.heap σ.store (.ptr pg) g) (hmid : All2 (VR3 D W s.heap σ.store) mid mws)
    (hlast : VR3 D W s.heap σ.store vl lastv) (hi : Inv3 D W s.heap σ)
    (hst : LiveEq ((pushAll stk0 (.ptr pg :: mid ++ [vl])).push (.argc (mid.length + 2))) s.stack)
    (hw0 : SWF stk0) (hw : SWF s.stack) (hfrm : tail = true → FrameAt stk0 s.bp fr)
    (hap : (evalN (n + 1)).apply (.prim .apply) (g :: mws ++ [lastv]) σ = .ok w σ')
    (hbound : ∀ xs, listOfVal (σ.store.size + 1) σ.store lastv = some xs → xs.length + 1 ≤ 100000) :
    ∃ W' s', W.le W' ∧ DispOut D W' s stk0 σ σ' w tail fr s' := by
  change applyStep (evalN n) (.prim .apply) (g :: mws ++ [lastv]) σ = _ at hap
  obtain ⟨xs, hxs, hap'⟩ := apply_prim_inv hap
  obtain ⟨ptrs, hml, hall, hlen⟩ := mlist_of_vr3 LL _ _ _ _ hlast hxs
  have hb := hbound xs hxs
  have hf0 : ops.fetch s.heap s.ipL s.ipO = some (.opcode (if tail = true then .tcallAcc else .callAcc)) := by
    have := hc.op 0 (o := if tail = true then Op.tcallAcc else Op.callAcc) rfl
    simpa using this
  obtain ⟨st', hstep, hlive, hswf⟩ := step_apply (tail := tail) hc.1 hf0 hcal hkind hst hw0 hw hml (by omega)
  have hvals : All2 (VR3 D W s.heap σ.store) (mid ++ ptrs.map VCell.ptr) (mws ++ xs) := all2_append hmid hall
  have hlen2 : (mid ++ ptrs.map VCell.ptr).length = mid.length + ptrs.length := by simp
  obtain ⟨W', s', hw', o⟩ := disp3_ok L (closureCall_correct3 L n) (tail := tail) (em := em) (fr := fr)
    (s := { s with stack := st', acc := .ptr pg }) (stk0 := stk0) hc hg hi hvals (by rw [hlen2]; exact hlive) hw0 hswf
    hfrm hap'
  rcases o with r | ⟨ht, q⟩
  · exact ⟨W', s', hw', .inl ⟨.cons hstep r.steps, r.ipL, r.ipO, r.bp, r.ep, r.stack, r.swf, r.acc, r.inv, r.ext⟩⟩
  · exact ⟨W', s', hw', .inr ⟨ht, ⟨.cons hstep q.steps, q.ipL, q.ipO, q.ep, q.bp, q.stack, q.swf, q.acc, q.inv, q.ext⟩⟩⟩

end Marwood.Lemmas.CompileCorrect3
