import Marwood.Lemmas.PrepareHistory
/-!
# A history with explicit `prepare_eval` steps is ONE session of the policy specification (C12)

`Lemmas/PolicySessionMain.lean` decomposes every execution of `runLoop` / `runEval` into closed blocks of at most 8192
instructions, each ended by a collection (`Sess`); a block may contain steps of the unmodelled parts outside the run
loop (`Seg.other`: an allocation count). Here the loader steps of `prepare_eval` (`Installs` / `InstallsGarbage`, at most
one allocation per step: `instSteps_allocs`) are such steps: they are prepended to the first block of the evaluation
that follows (`Sess.prepend`), and a rejected form is a block of its own, closed by the collection of the `Err` arm.
`histInstalls_session`: the whole history is a session all of whose collection points satisfy `GcOk` — from the idle
invariant and `CodePlain` of the INITIAL state.
-/
namespace Marwood.Lemmas.Good
open Marwood Marwood.Vm Marwood.Vm.Verify Marwood.Vm.Concrete Marwood.Lemmas.Sim
open Marwood.Lemmas.MachineGarbage Marwood.Lemmas.PolicySessionOk Marwood.Lemmas.PolicySessionMain
open Marwood.Lemmas.PolicySessionGc Marwood.Lemmas.PolicyAlloc
open Marwood.Heap (GcState)

variable {ext : ExtOps} {ecl : ExtCodeLawsV ext}

/-- an open segment in front of a session with at least one block is absorbed by the first block: same states at
    the collection points, `n0` more instructions (and `k` more allocations) in the first block -/
theorem Sess.prepend {force : Bool} {b c : St CHeap} {cps : List CP} (hs : Sess ext force b cps c) :
    ∀ {a : St CHeap} {n0 k : Nat}, Seg ext n0 k a b → cps ≠ [] →
    ∃ cps', Sess ext force a cps' c ∧ ∀ cp' ∈ cps', ∃ cp ∈ cps, cp'.1 ≤ n0 + cp.1 ∧ cp'.2.2 = cp.2.2 := by
  induction hs with
  | nil s => intro a n0 k _ hne; exact absurd rfl hne
  | @block n E s s1 s' cps sg' rest _ =>
    intro a n0 k sg _
    refine ⟨(n0 + n, k + E, s1) :: cps, .block (.trans sg sg') rest, ?_⟩
    intro cp' hm
    rcases List.mem_cons.mp hm with e | e
    · subst e
      exact ⟨(n, E, s1), List.mem_cons_self .., Nat.le_refl _, rfl⟩
    · exact ⟨cp', List.mem_cons_of_mem _ e, Nat.le_add_left _ _, rfl⟩
  | @edit s s1 s' cps e _ ih =>
    intro a n0 k sg hne
    obtain ⟨cps', h1, h2⟩ := ih (Seg.trans sg (Seg.edit e)) hne
    refine ⟨cps', h1, ?_⟩
    intro cp' hm
    obtain ⟨cp, hc, h3, h4⟩ := h2 cp' hm
    exact ⟨cp, hc, by omega, h4⟩

/-- `runEval_is_paced`, with the fact that an evaluation that returns ends with a collection: at least one block -/
theorem runEval_paced_ne (ext : ExtOps) (force : Bool) (count : Option Nat) (fuel : Nat) (s : St CHeap) :
    (∀ s', runEval (concreteOps ext) (cgc force) count fuel s = .value s' →
      ∃ cps, cps ≠ [] ∧ Sess ext force s cps s' ∧ (∀ cp ∈ cps, cp.1 ≤ 8192) ∧ ∀ cp ∈ cps, CpFrom ext force s cp.2.2) ∧
    (∀ f s', runEval (concreteOps ext) (cgc force) count fuel s = .failed f s' →
      ∃ cps, cps ≠ [] ∧ Sess ext force s cps s' ∧ (∀ cp ∈ cps, cp.1 ≤ 8192) ∧ ∀ cp ∈ cps, CpFrom ext force s cp.2.2) := by
  obtain ⟨cps, s1, hs, hc, hf, hr1, ht⟩ := runLoop_is_paced ext force count fuel 0 s
  have em : (⟨vmStep (concreteOps ext), cgc force⟩ : Machine (St CHeap) Fault) = machine ext force := rfl
  constructor
  · intro s' he
    unfold runEval at he
    rw [em] at he
    cases hr : runLoop (machine ext force) count fuel 0 s with
    | done sd =>
      rw [hr] at ht he
      cases he
      obtain ⟨n, E, sg, hn, hr2⟩ := ht
      refine ⟨cps ++ [(n + 0, E + 0, onDone sd)], by simp,
        hs.append (.block (.trans sg (.edit (s' := onDone sd) rfl)) (.nil _)), ?_, ?_⟩
      · intro cp hcp
        rcases List.mem_append.mp hcp with h | h
        · exact hc cp h
        · simp only [List.mem_cons, List.not_mem_nil, or_false] at h
          subst h
          exact hn
      · intro cp hcp
        rcases List.mem_append.mp hcp with h | h
        · exact hf cp h
        · simp only [List.mem_cons, List.not_mem_nil, or_false] at h
          subst h
          exact ⟨sd, hr1.trans hr2, .inr (.inl rfl)⟩
    | error f sf => rw [hr] at he; cases he
    | paused sp => rw [hr] at he; cases he
    | fuel => rw [hr] at he; cases he
  · intro f s' he
    unfold runEval at he
    rw [em] at he
    cases hr : runLoop (machine ext force) count fuel 0 s with
    | error f' sf =>
      rw [hr] at ht he
      cases he
      obtain ⟨n, E, sg, hn, hr2⟩ := ht
      refine ⟨cps ++ [(n + 0, E + 0, onError sf)], by simp,
        hs.append (.block (.trans sg (.edit (s' := onError sf) rfl)) (.nil _)), ?_, ?_⟩
      · intro cp hcp
        rcases List.mem_append.mp hcp with h | h
        · exact hc cp h
        · simp only [List.mem_cons, List.not_mem_nil, or_false] at h
          subst h
          exact hn
      · intro cp hcp
        rcases List.mem_append.mp hcp with h | h
        · exact hf cp h
        · simp only [List.mem_cons, List.not_mem_nil, or_false] at h
          subst h
          exact ⟨sf, hr1.trans hr2, .inr (.inr rfl)⟩
    | done sd => rw [hr] at he; cases he
    | paused sp => rw [hr] at he; cases he
    | fuel => rw [hr] at he; cases he

/-- the decoding discipline after an evaluation with its epilogues -/
theorem codePlain_runEval' (force : Bool) (ecp : ExtCodePlain ext) (count : Option Nat) (fuel : Nat) {p : St CHeap}
    (cp : CodePlain p.heap) :
    (∀ s', runEval (concreteOps ext) (cgc force) count fuel p = .value s' → CodePlain s'.heap) ∧
    (∀ f s', runEval (concreteOps ext) (cgc force) count fuel p = .failed f s' → CodePlain s'.heap) := by
  have em : (⟨vmStep (concreteOps ext), cgc force⟩ : Machine (St CHeap) Fault) = machine ext force := rfl
  obtain ⟨a, b⟩ := runLoop_last ext force count fuel 0 p
  constructor
  · intro s' he
    unfold runEval at he
    rw [em] at he
    cases hr : runLoop (machine ext force) count fuel 0 p with
    | done sd =>
      rw [hr] at he
      cases he
      obtain ⟨sh, h1, h2⟩ := a sd hr
      exact codePlain_gc force (s := onDone sd) (codePlain_reaches force ecp cp sd (.halt h1 h2))
    | error f sf => rw [hr] at he; cases he
    | paused sp => rw [hr] at he; cases he
    | fuel => rw [hr] at he; cases he
  · intro f s' he
    unfold runEval at he
    rw [em] at he
    cases hr : runLoop (machine ext force) count fuel 0 p with
    | error f' sf =>
      rw [hr] at he
      cases he
      exact codePlain_gc force (s := onError sf) (codePlain_reaches force ecp cp sf (b _ sf hr))
    | done sd => rw [hr] at he; cases he
    | paused sp => rw [hr] at he; cases he
    | fuel => rw [hr] at he; cases he

/-- **a history with explicit `prepare_eval` steps is a session all of whose collection points satisfy `GcOk`**, every
    block has at most 8192 instructions; the final state is idle and keeps the decoding discipline -/
theorem histInstalls_session (ecl : ExtCodeLawsV ext) (force : Bool) (el : ExtLaws ext) (eg : ExtGood ext) (ep : ExtProc ext)
    (ecp : ExtCodePlain ext) {s0 sf : St CHeap} {recs : List EvRec} (hist : HistInstalls ext force s0 recs sf)
    (i0 : IdleOk s0) (cp0 : CodePlain s0.heap) (sz : ∀ rc ∈ recs, RecSized ext force rc) :
    ∃ cps, Sess ext force s0 cps sf ∧ (∀ cp ∈ cps, cp.1 ≤ 8192) ∧ ∀ cp ∈ cps, GcOk force cp.2.2 := by
  induction hist with
  | nil s => exact ⟨[], .nil s, by simp, by simp⟩
  | @ran s s1 sf e cfuel entry fuel recs inst _ ih =>
    have sb : EvalSizeBounded ext force (prepare s1 entry) := sz _ (List.mem_cons_self ..)
    have sm : Small s1.heap := sb.run (prepare s1 entry) (.refl _)
    have hv : VmOkP ext ecl (prepare s1 entry) := prepare_vmOkP_idle i0 inst sm
    have hcap : 0 < (prepare s1 entry).stack.cells.length := by
      have := i0.cap
      rw [inst.regs]; exact this
    have cp1 : CodePlain (prepare s1 entry).heap := (installs_codePlain i0 inst.garbage cp0 : CodePlain s1.heap)
    obtain ⟨k1, k2⟩ := idleOk_runEval (ecl := ecl) force el eg ep hv hcap sb none fuel
    obtain ⟨c1, c2⟩ := codePlain_runEval' force ecp none fuel cp1
    obtain ⟨p1, p2⟩ := runEval_paced_ne ext force none fuel (prepare s1 entry)
    obtain ⟨k, al⟩ := instSteps_allocs inst.steps
    have sg0 : Seg ext (0 + 0) (k + 0) s (prepare s1 entry) :=
      .trans (.other al) (.edit (s' := prepare s1 entry) rfl)
    have szr : ∀ rc ∈ recs, RecSized ext force rc := fun rc h => sz rc (List.mem_cons_of_mem _ h)
    -- an evaluation that returned: its session, with the loader steps in front
    have key : ∀ s', IdleOk s' → CodePlain s'.heap →
        (∃ cps, cps ≠ [] ∧ Sess ext force (prepare s1 entry) cps s' ∧ (∀ cp ∈ cps, cp.1 ≤ 8192) ∧
          ∀ cp ∈ cps, CpFrom ext force (prepare s1 entry) cp.2.2) →
        nextState s (runEval (concreteOps ext) (cgc force) none fuel (prepare s1 entry)) = s' →
        ∃ cps, Sess ext force s cps sf ∧ (∀ cp ∈ cps, cp.1 ≤ 8192) ∧ ∀ cp ∈ cps, GcOk force cp.2.2 := by
      intro s' is' cps' ⟨cps1, hne, hs1, hn1, hf1⟩ hnext
      rw [hnext] at ih
      obtain ⟨cps2, hs2, hn2, hok2⟩ := ih is' cps' szr
      obtain ⟨cps1', hs1', hrel⟩ := Sess.prepend hs1 sg0 hne
      refine ⟨cps1' ++ cps2, hs1'.append hs2, ?_, ?_⟩
      · intro c hc
        rcases List.mem_append.mp hc with h | h
        · obtain ⟨c0, hc0, h3, _⟩ := hrel c h
          have := hn1 c0 hc0
          omega
        · exact hn2 c h
      · intro c hc
        rcases List.mem_append.mp hc with h | h
        · obtain ⟨c0, hc0, _, h4⟩ := hrel c h
          rw [h4]
          exact gcOk_of_cpFrom force el eg ep ecp hv cp1 sb (hf1 c0 hc0)
        · exact hok2 c h
    cases hr : runEval (concreteOps ext) (cgc force) none fuel (prepare s1 entry) with
    | value s' => exact key s' (k1 s' hr) (c1 s' hr) (p1 s' hr) (by rw [hr]; rfl)
    | failed f s' => exact key s' (k2 f s' hr) (c2 f s' hr) (p2 f s' hr) (by rw [hr]; rfl)
    | paused s' => exact absurd hr (runEval_none_not_paused ext force fuel _ s')
    | fuel =>
      rw [hr] at ih
      exact ih i0 cp0 szr
  | @rejected s g sf recs inst _ ih =>
    have ⟨sm1, sm2⟩ : Small g.heap ∧ Small (cgc force g).heap := sz _ (List.mem_cons_self ..)
    have ig : IdleOk g := (i0.installs inst sm1).1
    have cpg : CodePlain g.heap := installs_codePlain i0 inst cp0
    obtain ⟨k, al⟩ := instSteps_allocs inst.steps
    obtain ⟨cps2, hs2, hn2, hok2⟩ := ih (ig.gc force sm2) (codePlain_gc force cpg)
      (fun rc h => sz rc (List.mem_cons_of_mem _ h))
    refine ⟨(0, k, g) :: cps2, .block (.other al) hs2, ?_, ?_⟩
    · intro c hc
      rcases List.mem_cons.mp hc with e | e
      · subst e; exact Nat.zero_le _
      · exact hn2 c e
    · intro c hc
      rcases List.mem_cons.mp hc with e | e
      · subst e; exact ⟨ig.good, cpg, sm2⟩
      · exact hok2 c e

end Marwood.Lemmas.Good
