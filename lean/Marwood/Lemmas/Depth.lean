import Marwood.Depth
/-!
# Closed forms of the depth models on the nested families (helper lemmas for `Proofs/C19`)
Core Lean only.
-/
namespace Marwood.Depth
open Marwood

/-! ## shapes -/

theorem immediate_nest_vec (n : Nat) : immediate (nest .vec n) = false := by
  cases n <;> rfl

theorem quoteSugar_car (x : Datum) : quoteSugar (.pair (nest .car 0) x) = none := rfl

theorem quoteSugar_pair_pair (a b x : Datum) : quoteSugar (.pair (.pair a b) x) = none := rfl

theorem quoteSugar_one (x : Datum) : quoteSugar (.pair one x) = none := rfl

theorem quoteSugar_quote (x : Datum) :
    quoteSugar (.pair (sym "quote") (.pair x .nil)) = some x := by
  simp [quoteSugar, sym]

/-! ## put -/

theorem maybePut_car (n : Nat) : maybePutDepth (nest .car n) = 2 * n + 1 := by
  induction n with
  | zero => simp [nest, maybePutDepth]
  | succ n ih => simp only [nest, maybePutDepth, ih]; omega

theorem maybePut_cdr (n : Nat) : maybePutDepth (nest .cdr n) = 2 * n + 1 := by
  induction n with
  | zero => simp [nest, maybePutDepth]
  | succ n ih => simp only [nest, maybePutDepth, ih, one]; omega

theorem maybePut_vec (n : Nat) : maybePutDepth (nest .vec n) = n + 1 := by
  induction n with
  | zero => simp [nest, maybePutDepth, maybePutElems]
  | succ n ih => simp only [nest, maybePutDepth, maybePutElems, ih]; omega

theorem maybePut_quote (n : Nat) : maybePutDepth (nest .quote n) = 4 * n + 1 := by
  induction n with
  | zero => simp [nest, maybePutDepth, sym]
  | succ n ih => simp only [nest, maybePutDepth, ih, sym]; omega

/-! ## get -/

theorem getVal_car (n : Nat) : getValDepth (nest .car n) = 2 * n + 1 := by
  induction n with
  | zero => simp [nest, getValDepth]
  | succ n ih => simp only [nest, getValDepth, getSpine, ih]; omega

theorem getSpine_cdr (n : Nat) : getSpine (nest .cdr n) = if n = 0 then 0 else 2 := by
  induction n with
  | zero => simp [nest, getSpine]
  | succ n ih => simp only [nest, getSpine, getValDepth, ih, one]; split <;> simp

theorem getVal_cdr (n : Nat) : getValDepth (nest .cdr n) = if n = 0 then 1 else 3 := by
  cases n with
  | zero => simp [nest, getValDepth]
  | succ n => simp only [nest, getValDepth, getSpine_cdr, one]; split <;> simp

theorem getVal_vec (n : Nat) : getValDepth (nest .vec n) = 2 * n + 1 := by
  induction n with
  | zero => simp [nest, getValDepth, getElems]
  | succ n ih =>
    simp only [nest, getValDepth, getElems, immediate_nest_vec, ih]; simp; omega

theorem getVal_quote (n : Nat) : getValDepth (nest .quote n) = 2 * n + 1 := by
  induction n with
  | zero => simp [nest, getValDepth, sym]
  | succ n ih => simp only [nest, getValDepth, getSpine, ih, sym]; omega

/-! ## mark -/

theorem markIn_car (n : Nat) : markIn (nest .car n) = n := by
  induction n with
  | zero => simp [nest, markIn]
  | succ n ih => simp only [nest, markIn, ih]; omega

theorem markIn_cdr (n : Nat) : markIn (nest .cdr n) = if n = 0 then 0 else 1 := by
  induction n with
  | zero => simp [nest, markIn]
  | succ n ih => simp only [nest, markIn, ih, one]; split <;> simp

theorem markIn_vec (n : Nat) : markIn (nest .vec n) = 2 * n := by
  induction n with
  | zero => simp [nest, markIn, markElems]
  | succ n ih => simp only [nest, markIn, markElems, immediate_nest_vec, ih]; simp; omega

theorem markIn_quote (n : Nat) : markIn (nest .quote n) = n := by
  induction n with
  | zero => simp [nest, markIn, sym]
  | succ n ih => simp only [nest, markIn, ih, sym]; omega

/-! ## equal -/

theorem equal_car (n : Nat) : equalDepth (nest .car n) = 2 * n + 1 := by
  induction n with
  | zero => simp [nest, equalDepth]
  | succ n ih => simp only [nest, equalDepth, equalSpine, ih]; omega

theorem equalSpine_cdr (n : Nat) : equalSpine (nest .cdr n) = 1 := by
  induction n with
  | zero => simp [nest, equalSpine]
  | succ n ih => simp only [nest, equalSpine, equalDepth, ih, one]; simp

theorem equal_cdr (n : Nat) : equalDepth (nest .cdr n) = if n = 0 then 1 else 3 := by
  cases n with
  | zero => simp [nest, equalDepth]
  | succ n => simp only [nest, equalDepth, equalSpine_cdr, one]; simp

theorem equal_vec (n : Nat) : equalDepth (nest .vec n) = 2 * n + 2 := by
  induction n with
  | zero => simp [nest, equalDepth, equalElems]
  | succ n ih => simp only [nest, equalDepth, equalElems, ih]; omega

theorem equal_quote (n : Nat) : equalDepth (nest .quote n) = 2 * n + 1 := by
  induction n with
  | zero => simp [nest, equalDepth, sym]
  | succ n ih => simp only [nest, equalDepth, equalSpine, ih, sym]; omega

/-! ## drop -/

theorem drop_car (n : Nat) : dropDepth (nest .car n) = n + 1 := by
  induction n with
  | zero => simp [nest, dropDepth]
  | succ n ih => simp only [nest, dropDepth, ih]; omega

theorem drop_cdr (n : Nat) : dropDepth (nest .cdr n) = n + 1 := by
  induction n with
  | zero => simp [nest, dropDepth]
  | succ n ih => simp only [nest, dropDepth, ih, one]; omega

theorem drop_vec (n : Nat) : dropDepth (nest .vec n) = n + 1 := by
  induction n with
  | zero => simp [nest, dropDepth, dropElems]
  | succ n ih => simp only [nest, dropDepth, dropElems, ih]; omega

theorem drop_quote (n : Nat) : dropDepth (nest .quote n) = 2 * n + 1 := by
  induction n with
  | zero => simp [nest, dropDepth, sym]
  | succ n ih => simp only [nest, dropDepth, ih, sym]; omega

/-! ## printer -/

theorem quoteSugar_nil_tail (a : Datum) : quoteSugar (.pair a .nil) = none := by
  cases a <;> simp [quoteSugar]

theorem quoteSugar_num (k : Num) (x : Datum) : quoteSugar (.pair (.num k) x) = none := by
  simp [quoteSugar]

theorem displayDepth_pair_none (a d : Datum) (h : quoteSugar (.pair a d) = none) :
    displayDepth (.pair a d) = 1 + max (displayDepth a) (displaySpine d) := by
  cases d <;> simp [displayDepth, h]

theorem display_car (n : Nat) : displayDepth (nest .car n) = n + 1 := by
  induction n with
  | zero => simp [nest, displayDepth]
  | succ n ih => simp only [nest, displayDepth, quoteSugar_nil_tail, displaySpine, ih]; omega

theorem displaySpine_cdr (n : Nat) : displaySpine (nest .cdr n) = if n = 0 then 0 else 1 := by
  induction n with
  | zero => simp [nest, displaySpine]
  | succ n ih => simp only [nest, displaySpine, displayDepth, ih, one]; split <;> simp

theorem display_cdr (n : Nat) : displayDepth (nest .cdr n) = if n = 0 then 1 else 2 := by
  cases n with
  | zero => simp [nest, displayDepth]
  | succ n =>
    simp only [nest, one]
    rw [displayDepth_pair_none _ _ (quoteSugar_num _ _), displaySpine_cdr]
    by_cases h : n = 0 <;> simp [h, displayDepth]

theorem display_vec (n : Nat) : displayDepth (nest .vec n) = n + 1 := by
  induction n with
  | zero => simp [nest, displayDepth, displayElems]
  | succ n ih => simp only [nest, displayDepth, displayElems, ih]; omega

theorem display_quote (n : Nat) : displayDepth (nest .quote n) = n + 1 := by
  induction n with
  | zero => simp [nest, displayDepth, sym]
  | succ n ih => simp only [nest, displayDepth, quoteSugar_quote, ih]; omega

/-! ## reader -/

theorem carToks_head (n : Nat) (rest : List Tk) : ∃ tl, carToks n rest = .lp :: tl := by
  cases n <;> simp [carToks]

theorem parseD_car (n : Nat) : ∀ (f d : Nat) (rest : List Tk), 2 * n + 2 ≤ f →
    parseD f d (carToks n rest) = some (d + 2 * n + 1, some rest) := by
  induction n with
  | zero =>
    intro f d rest hf
    obtain ⟨f, rfl⟩ : ∃ g, f = g + 2 := ⟨f - 2, by omega⟩
    simp [carToks, parseD, listD]
  | succ n ih =>
    intro f d rest hf
    obtain ⟨f, rfl⟩ : ∃ g, f = g + 2 := ⟨f - 2, by omega⟩
    obtain ⟨tl, htl⟩ := carToks_head n (.rp :: rest)
    have h1 := ih f (d + 1 + 1) (.rp :: rest) (by omega)
    rw [htl] at h1
    obtain ⟨g, rfl⟩ : ∃ g, f = g + 1 := ⟨f - 1, by omega⟩
    simp only [carToks, parseD, htl, listD, h1]
    simp
    omega

theorem vecToks_head (n : Nat) (rest : List Tk) : ∃ tl, vecToks n rest = .hp :: tl := by
  cases n <;> simp [vecToks]

theorem parseD_vec (n : Nat) : ∀ (f d : Nat) (rest : List Tk), 2 * n + 2 ≤ f →
    parseD f d (vecToks n rest) = some (d + 2 * n + 1, some rest) := by
  induction n with
  | zero =>
    intro f d rest hf
    obtain ⟨f, rfl⟩ : ∃ g, f = g + 2 := ⟨f - 2, by omega⟩
    simp [vecToks, parseD, vecD]
  | succ n ih =>
    intro f d rest hf
    obtain ⟨f, rfl⟩ : ∃ g, f = g + 2 := ⟨f - 2, by omega⟩
    obtain ⟨tl, htl⟩ := vecToks_head n (.rp :: rest)
    have h1 := ih f (d + 1 + 1) (.rp :: rest) (by omega)
    rw [htl] at h1
    obtain ⟨g, rfl⟩ : ∃ g, f = g + 1 := ⟨f - 1, by omega⟩
    simp only [vecToks, parseD, htl, vecD, h1]
    simp
    omega

theorem parseD_quote (n : Nat) : ∀ (f d : Nat) (rest : List Tk), n + 1 ≤ f →
    parseD f d (quoteToks n rest) = some (d + n, some rest) := by
  induction n with
  | zero =>
    intro f d rest hf
    obtain ⟨f, rfl⟩ : ∃ g, f = g + 1 := ⟨f - 1, by omega⟩
    simp [quoteToks, parseD]
  | succ n ih =>
    intro f d rest hf
    obtain ⟨f, rfl⟩ : ∃ g, f = g + 1 := ⟨f - 1, by omega⟩
    simp only [quoteToks, parseD, ih f (d + 1) rest (by omega)]
    congr 2; omega

theorem listD_atoms (n : Nat) : ∀ (f d : Nat) (ne : Bool) (rest : List Tk), n + 1 ≤ f →
    listD f d ne (atoms n (.rp :: rest)) = some (if n = 0 then d else d + 1, some rest) := by
  induction n with
  | zero =>
    intro f d ne rest hf
    obtain ⟨f, rfl⟩ : ∃ g, f = g + 1 := ⟨f - 1, by omega⟩
    simp [atoms, listD]
  | succ n ih =>
    intro f d ne rest hf
    obtain ⟨f, rfl⟩ : ∃ g, f = g + 2 := ⟨f - 2, by omega⟩
    simp only [atoms, listD, parseD, ih (f + 1) d true rest (by omega)]
    by_cases h : n = 0 <;> simp [h]

theorem parseD_cdr (n f : Nat) (hf : n + 2 ≤ f) :
    parseD f 1 (.lp :: atoms n [.rp]) = some (if n = 0 then 2 else 3, some []) := by
  obtain ⟨f, rfl⟩ : ∃ g, f = g + 1 := ⟨f - 1, by omega⟩
  simp only [parseD, listD_atoms n f 2 false [] (by omega)]

theorem dotToks_head (n : Nat) (rest : List Tk) : ∃ tl, dotToks n rest = .lp :: tl := by
  cases n <;> simp [dotToks]

theorem parseD_dot (n : Nat) : ∀ (f d : Nat) (rest : List Tk), 4 * n + 4 ≤ f →
    parseD f d (dotToks n rest) = some (d + 3 * n + 1, some rest) := by
  induction n with
  | zero =>
    intro f d rest hf
    obtain ⟨f, rfl⟩ : ∃ g, f = g + 2 := ⟨f - 2, by omega⟩
    simp [dotToks, parseD, listD]
  | succ n ih =>
    intro f d rest hf
    obtain ⟨f, rfl⟩ : ∃ g, f = g + 4 := ⟨f - 4, by omega⟩
    obtain ⟨tl, htl⟩ := dotToks_head n (.rp :: rest)
    have h1 := ih f (d + 1 + 1 + 1) (.rp :: rest) (by omega)
    rw [htl] at h1
    simp only [dotToks, parseD, htl, listD, tailD, h1]
    simp
    omega

theorem appToks_head (n : Nat) (rest : List Tk) :
    ∃ t tl, appToks n rest = t :: tl ∧ (t = .lp ∨ t = .atom) := by
  cases n <;> simp [appToks]

theorem parseD_app (n : Nat) : ∀ (f d : Nat) (rest : List Tk), 4 * n + 4 ≤ f →
    parseD f d (appToks n rest) = some (d + 2 * n, some rest) := by
  induction n with
  | zero =>
    intro f d rest hf
    obtain ⟨f, rfl⟩ : ∃ g, f = g + 1 := ⟨f - 1, by omega⟩
    simp [appToks, parseD]
  | succ n ih =>
    intro f d rest hf
    obtain ⟨f, rfl⟩ : ∃ g, f = g + 5 := ⟨f - 5, by omega⟩
    obtain ⟨t, tl, htl, ht⟩ := appToks_head n (.rp :: rest)
    have h1 := ih (f + 1) (d + 1 + 1) (.rp :: rest) (by omega)
    rw [htl] at h1
    rcases ht with rfl | rfl <;>
    · simp only [appToks, parseD, htl, listD, h1]
      simp
      omega

theorem length_carToks (n : Nat) : ∀ rest, (carToks n rest).length = 2 * n + 2 + rest.length := by
  induction n with
  | zero => intro rest; simp [carToks]; omega
  | succ n ih => intro rest; simp [carToks, ih]; omega

theorem length_vecToks (n : Nat) : ∀ rest, (vecToks n rest).length = 2 * n + 2 + rest.length := by
  induction n with
  | zero => intro rest; simp [vecToks]; omega
  | succ n ih => intro rest; simp [vecToks, ih]; omega

theorem length_quoteToks (n : Nat) : ∀ rest, (quoteToks n rest).length = n + 1 + rest.length := by
  induction n with
  | zero => intro rest; simp [quoteToks]; omega
  | succ n ih => intro rest; simp [quoteToks, ih]; omega

theorem length_atoms (n : Nat) : ∀ rest, (atoms n rest).length = n + rest.length := by
  induction n with
  | zero => intro rest; simp [atoms]
  | succ n ih => intro rest; simp [atoms, ih]; omega

theorem length_dotToks (n : Nat) : ∀ rest, (dotToks n rest).length = 4 * n + 2 + rest.length := by
  induction n with
  | zero => intro rest; simp [dotToks]; omega
  | succ n ih => intro rest; simp [dotToks, ih]; omega

theorem length_appToks (n : Nat) : ∀ rest, (appToks n rest).length = 4 * n + 1 + rest.length := by
  induction n with
  | zero => intro rest; simp [appToks]; omega
  | succ n ih => intro rest; simp [appToks, ih]; omega

/-! ## compiler -/

theorem symIs_plus : symIs "quote" (sym "+") = false ∧ symIs "define-syntax" (sym "+") = false ∧
    otherHead (sym "+") = false ∧ symIs "if" (sym "+") = false ∧ symIs "lambda" (sym "+") = false ∧
    symIs "λ" (sym "+") = false := by
  simp [symIs, sym, otherHead]

theorem symIs_lambda : symIs "quote" (sym "lambda") = false ∧
    symIs "define-syntax" (sym "lambda") = false ∧
    otherHead (sym "lambda") = false ∧ symIs "if" (sym "lambda") = false ∧
    symIs "lambda" (sym "lambda") = true := by
  simp [symIs, sym, otherHead]

theorem symIs_pair (s : String) (a d : Datum) : symIs s (.pair a d) = false := rfl

theorem otherHead_pair (a d : Datum) : otherHead (.pair a d) = false := rfl

theorem transform_app (n : Nat) : transformDepth (nestApp n) = 2 * n + 1 := by
  induction n with
  | zero => simp [nestApp, transformDepth, zero]
  | succ n ih =>
    simp only [nestApp, Datum.ofList, transformDepth, transformArgs, symIs_plus, ih, one]
    simp [transformDepth, sym]; omega

theorem compileExpr_app (n : Nat) : compileExprDepth (nestApp n) = 3 * n + 1 := by
  induction n with
  | zero => simp [nestApp, compileExprDepth, zero]
  | succ n ih =>
    simp only [nestApp, Datum.ofList, compileExprDepth, compileArgs, symIs_plus, ih, one]
    simp [compileExprDepth, sym]; omega

theorem transform_lambda (n : Nat) : transformDepth (nestLambda n) = 4 * n + 1 := by
  induction n with
  | zero => simp [nestLambda, transformDepth, zero]
  | succ n ih =>
    simp only [nestLambda, Datum.ofList, transformDepth, transformArgs, symIs_lambda, symIs_pair, ih]
    simp [transformDepth, sym]; omega

theorem compileExpr_lambda (n : Nat) : compileExprDepth (nestLambda n) = 6 * n + 1 := by
  induction n with
  | zero => simp [nestLambda, compileExprDepth, zero]
  | succ n ih =>
    simp only [nestLambda, Datum.ofList, compileExprDepth, compileArgs, symIs_lambda, symIs_pair,
      otherHead_pair, ih]
    simp; omega

/-! ## bounds for every datum (not only the families) -/

mutual
/-- car-nesting: the largest number of car / vector-element steps on a path into the datum
    (cdr steps are free) -/
def carNest : Datum → Nat
  | .pair a d => max (1 + carNest a) (carNest d)
  | .vec es => elemsNest es
  | _ => 0
def elemsNest : Datum → Nat
  | .pair e rest => max (1 + carNest e) (elemsNest rest)
  | _ => 0
end

theorem carNest_immediate (e : Datum) (h : immediate e = true) : carNest e = 0 := by
  cases e <;> simp_all [immediate, carNest]

theorem markIn_carNest (x : Datum) :
    (carNest x ≤ markIn x ∧ markIn x ≤ 2 * carNest x) ∧
    (elemsNest x ≤ markElems x ∧ markElems x ≤ 2 * elemsNest x) := by
  induction x with
  | pair a d iha ihd =>
    refine ⟨?_, ?_⟩
    · simp only [carNest, markIn]; omega
    · simp only [elemsNest, markElems]
      by_cases hi : immediate a = true
      · have := carNest_immediate a hi
        simp only [hi, if_true]; omega
      · simp only [hi]; simp; omega
  | vec es ih =>
    refine ⟨?_, ?_⟩
    · simp only [carNest, markIn]; omega
    · simp [elemsNest, markElems]
  | _ => simp [carNest, markIn, elemsNest, markElems]

theorem length_le_dropDepth (x : Datum) : (Datum.listElems x).length ≤ dropDepth x := by
  induction x with
  | pair a d _ ihd => simp only [Datum.listElems, List.length_cons, dropDepth]; omega
  | _ => simp [Datum.listElems]

theorem length_le_maybePutDepth (x : Datum) : (Datum.listElems x).length ≤ maybePutDepth x := by
  induction x with
  | pair a d _ ihd => simp only [Datum.listElems, List.length_cons, maybePutDepth]; omega
  | _ => simp [Datum.listElems]

theorem get_carNest (x : Datum) :
    getValDepth x ≤ 3 * carNest x + 2 ∧ getSpine x ≤ 3 * carNest x + 1 ∧
    getElems x ≤ 3 * elemsNest x := by
  induction x with
  | pair a d iha ihd =>
    refine ⟨?_, ?_, ?_⟩
    · simp only [carNest, getValDepth]; omega
    · simp only [carNest, getSpine]; omega
    · simp only [elemsNest, getElems]
      by_cases hi : immediate a = true
      · simp only [hi, if_true]; omega
      · simp only [hi]; simp; omega
  | vec es ih =>
    refine ⟨?_, ?_, ?_⟩
    · simp only [carNest, getValDepth]; omega
    · simp only [carNest, getSpine]; omega
    · simp [elemsNest, getElems]
  | _ => simp [carNest, getValDepth, getSpine, elemsNest, getElems]

theorem equal_carNest (x : Datum) :
    equalDepth x ≤ 4 * carNest x + 4 ∧ equalSpine x ≤ 4 * carNest x + 2 ∧
    equalElems x ≤ 4 * elemsNest x := by
  induction x with
  | pair a d iha ihd =>
    refine ⟨?_, ?_, ?_⟩
    · simp only [carNest, equalDepth]; omega
    · simp only [carNest, equalSpine]; omega
    · simp only [elemsNest, equalElems]; omega
  | vec es ih =>
    refine ⟨?_, ?_, ?_⟩
    · simp only [carNest, equalDepth]; omega
    · simp only [carNest, equalSpine]; omega
    · simp [elemsNest, equalElems]
  | _ => simp [carNest, equalDepth, equalSpine, elemsNest, equalElems]

theorem quoteSugar_some (a d x : Datum) (h : quoteSugar (.pair a d) = some x) :
    d = .pair x .nil := by
  unfold quoteSugar at h
  split at h
  · rename_i s y heq
    cases heq
    split at h
    · cases h; rfl
    · cases h
  · cases h

theorem display_carNest (x : Datum) :
    displayDepth x ≤ 2 * carNest x + 2 ∧ displaySpine x ≤ 2 * carNest x + 1 ∧
    displayElems x ≤ 2 * elemsNest x := by
  induction x with
  | pair a d iha ihd =>
    refine ⟨?_, ?_, ?_⟩
    · cases hq : quoteSugar (.pair a d) with
      | none =>
        rw [displayDepth_pair_none a d hq]
        simp only [carNest]; omega
      | some x =>
        have hd := quoteSugar_some a d x hq
        subst hd
        have h2 := ihd.2.1
        simp only [displaySpine, carNest] at h2
        simp only [displayDepth, hq, carNest]
        omega
    · simp only [carNest, displaySpine]; omega
    · simp only [elemsNest, displayElems]; omega
  | vec es ih =>
    refine ⟨?_, ?_, ?_⟩
    · simp only [carNest, displayDepth]; omega
    · simp only [carNest, displaySpine]; omega
    · simp [elemsNest, displayElems]
  | _ => simp [carNest, displayDepth, displaySpine, elemsNest, displayElems]

theorem carNest_flat (xs : List Datum) (h : ∀ x ∈ xs, carNest x = 0) :
    carNest (Datum.ofList xs) ≤ 1 := by
  induction xs with
  | nil => simp [Datum.ofList, carNest]
  | cons x xs ih =>
    have hx := h x (by simp)
    have := ih (fun y hy => h y (by simp [hy]))
    simp only [Datum.ofList, carNest, hx]; omega

/-- a list of any length — proper, or dotted with tail `t` — is as car-nested as its elements
    (plus the step into the element) and its tail: cdr steps are free -/
theorem carNest_ofListTail (xs : List Datum) (t : Datum) (k : Nat)
    (h : ∀ x ∈ xs, carNest x ≤ k) (ht : carNest t ≤ k + 1) :
    carNest (Datum.ofListTail xs t) ≤ k + 1 := by
  induction xs with
  | nil => simpa [Datum.ofListTail] using ht
  | cons x xs ih =>
    have hx := h x (by simp)
    have := ih (fun y hy => h y (by simp [hy]))
    simp only [Datum.ofListTail, carNest]; omega

/-! ## the flat directions with aggregate elements (`cdrPairs`) and a dotted tail (`cdrDotted`) -/

theorem quoteSugar_pairsElem (i : Nat) (x : Datum) : quoteSugar (.pair (pairsElem i) x) = none := by
  unfold pairsElem; split <;> rfl

theorem maybePut_pairsElem (i : Nat) :
    maybePutDepth (pairsElem i) = if i % 2 = 0 then 3 else 2 := by
  unfold pairsElem; split <;> simp [maybePutDepth, maybePutElems, one, two]

theorem getVal_pairsElem (i : Nat) : getValDepth (pairsElem i) = if i % 2 = 0 then 3 else 2 := by
  unfold pairsElem; split <;> simp [getValDepth, getSpine, getElems, immediate, one, two]

theorem markIn_pairsElem (i : Nat) : markIn (pairsElem i) = 1 := by
  unfold pairsElem; split <;> simp [markIn, markElems, immediate, one, two]

theorem equal_pairsElem (i : Nat) : equalDepth (pairsElem i) = 3 := by
  unfold pairsElem; split <;> simp [equalDepth, equalSpine, equalElems, one, two]

theorem display_pairsElem (i : Nat) : displayDepth (pairsElem i) = 2 := by
  unfold pairsElem; split <;> simp [displayDepth, displaySpine, displayElems, quoteSugar, one, two]

theorem drop_pairsElem (i : Nat) : dropDepth (pairsElem i) = 2 := by
  unfold pairsElem; split <;> simp [dropDepth, dropElems, one, two]

theorem maybePut_cdrPairs (n : Nat) :
    maybePutDepth (nest .cdrPairs n) = if n = 0 then 1 else 2 * n + 3 := by
  induction n with
  | zero => simp [nest, maybePutDepth]
  | succ n ih =>
    have hs : n + 1 ≠ 0 := by omega
    simp only [nest, maybePutDepth, ih, maybePut_pairsElem, hs, if_false]
    by_cases h : n = 0
    · subst h; simp
    · simp only [h, if_false]; split <;> omega

theorem maybePut_cdrDotted (n : Nat) : maybePutDepth (nest .cdrDotted n) = 2 * n + 1 := by
  induction n with
  | zero => simp [nest, maybePutDepth, two]
  | succ n ih => simp only [nest, maybePutDepth, ih, one]; omega

theorem getSpine_cdrPairs (n : Nat) : getSpine (nest .cdrPairs n) = if n = 0 then 0 else 4 := by
  induction n with
  | zero => simp [nest, getSpine]
  | succ n ih =>
    simp only [nest, getSpine, ih, getVal_pairsElem]
    by_cases h : n = 0
    · subst h; simp
    · simp only [h, if_false]; split <;> simp

theorem getVal_cdrPairs (n : Nat) : getValDepth (nest .cdrPairs n) = if n = 0 then 1 else 5 := by
  cases n with
  | zero => simp [nest, getValDepth]
  | succ n =>
    have h := getSpine_cdrPairs (n + 1)
    simp only [nest, getSpine] at h
    simp only [nest, getValDepth]
    simp only [Nat.add_one_ne_zero, if_false] at h ⊢
    omega

theorem getSpine_cdrDotted (n : Nat) : getSpine (nest .cdrDotted n) = if n = 0 then 1 else 2 := by
  induction n with
  | zero => simp [nest, getSpine, two]
  | succ n ih => simp only [nest, getSpine, getValDepth, ih, one]; split <;> simp

theorem getVal_cdrDotted (n : Nat) : getValDepth (nest .cdrDotted n) = if n = 0 then 1 else 3 := by
  cases n with
  | zero => simp [nest, getValDepth, two]
  | succ n => simp only [nest, getValDepth, getSpine_cdrDotted, one]; split <;> simp

theorem markIn_cdrPairs (n : Nat) : markIn (nest .cdrPairs n) = if n = 0 then 0 else 2 := by
  induction n with
  | zero => simp [nest, markIn]
  | succ n ih => simp only [nest, markIn, ih, markIn_pairsElem]; split <;> simp

theorem markIn_cdrDotted (n : Nat) : markIn (nest .cdrDotted n) = if n = 0 then 0 else 1 := by
  induction n with
  | zero => simp [nest, markIn, two]
  | succ n ih => simp only [nest, markIn, ih, one]; split <;> simp

theorem equalSpine_cdrPairs (n : Nat) :
    equalSpine (nest .cdrPairs n) = if n = 0 then 1 else 3 := by
  induction n with
  | zero => simp [nest, equalSpine]
  | succ n ih => simp only [nest, equalSpine, ih, equal_pairsElem]; split <;> simp

theorem equal_cdrPairs (n : Nat) : equalDepth (nest .cdrPairs n) = if n = 0 then 1 else 5 := by
  cases n with
  | zero => simp [nest, equalDepth]
  | succ n => simp only [nest, equalDepth, equalSpine_cdrPairs, equal_pairsElem]; split <;> simp

theorem equalSpine_cdrDotted (n : Nat) : equalSpine (nest .cdrDotted n) = 1 := by
  induction n with
  | zero => simp [nest, equalSpine, two]
  | succ n ih => simp only [nest, equalSpine, equalDepth, ih, one]; simp

theorem equal_cdrDotted (n : Nat) : equalDepth (nest .cdrDotted n) = if n = 0 then 1 else 3 := by
  cases n with
  | zero => simp [nest, equalDepth, two]
  | succ n => simp only [nest, equalDepth, equalSpine_cdrDotted, one]; simp

theorem drop_cdrPairs (n : Nat) : dropDepth (nest .cdrPairs n) = if n = 0 then 1 else n + 2 := by
  induction n with
  | zero => simp [nest, dropDepth]
  | succ n ih => simp only [nest, dropDepth, ih, drop_pairsElem]; split <;> simp <;> omega

theorem drop_cdrDotted (n : Nat) : dropDepth (nest .cdrDotted n) = n + 1 := by
  induction n with
  | zero => simp [nest, dropDepth, two]
  | succ n ih => simp only [nest, dropDepth, ih, one]; omega

theorem displaySpine_cdrPairs (n : Nat) :
    displaySpine (nest .cdrPairs n) = if n = 0 then 0 else 2 := by
  induction n with
  | zero => simp [nest, displaySpine]
  | succ n ih => simp only [nest, displaySpine, ih, display_pairsElem]; split <;> simp

theorem display_cdrPairs (n : Nat) : displayDepth (nest .cdrPairs n) = if n = 0 then 1 else 3 := by
  cases n with
  | zero => simp [nest, displayDepth]
  | succ n =>
    simp only [nest]
    rw [displayDepth_pair_none _ _ (quoteSugar_pairsElem _ _), displaySpine_cdrPairs,
      display_pairsElem]
    by_cases h : n = 0 <;> simp [h]

theorem displaySpine_cdrDotted (n : Nat) :
    displaySpine (nest .cdrDotted n) = 1 := by
  induction n with
  | zero => simp [nest, displaySpine, two]
  | succ n ih => simp only [nest, displaySpine, displayDepth, ih, one]; simp

theorem display_cdrDotted (n : Nat) : displayDepth (nest .cdrDotted n) = if n = 0 then 1 else 2 := by
  cases n with
  | zero => simp [nest, displayDepth, two]
  | succ n =>
    simp only [nest, one]
    rw [displayDepth_pair_none _ _ (quoteSugar_num _ _), displaySpine_cdrDotted]
    simp [displayDepth]

/-! ### reader on the two flat directions -/

theorem parseD_pairsElem (i : Nat) (f d : Nat) (rest : List Tk) (hf : 5 ≤ f) :
    parseD f d (pairsElemToks i rest) = some (if i % 2 = 0 then d + 3 else d + 2, some rest) := by
  obtain ⟨f, rfl⟩ : ∃ g, f = g + 5 := ⟨f - 5, by omega⟩
  unfold pairsElemToks
  split
  · simp [parseD, listD, tailD]
  · simp [parseD, vecD]

theorem pairsElemToks_head (i : Nat) (rest : List Tk) :
    ∃ t tl, pairsElemToks i rest = t :: tl ∧ (t = .lp ∨ t = .hp) := by
  unfold pairsElemToks; split <;> simp

theorem listD_pairs (n : Nat) : ∀ (f d : Nat) (ne : Bool) (rest : List Tk), n + 5 ≤ f →
    listD f d ne (pairsToks n (.rp :: rest)) = some (if n = 0 then d else d + 4, some rest) := by
  induction n with
  | zero =>
    intro f d ne rest hf
    obtain ⟨f, rfl⟩ : ∃ g, f = g + 1 := ⟨f - 1, by omega⟩
    simp [pairsToks, listD]
  | succ n ih =>
    intro f d ne rest hf
    obtain ⟨f, rfl⟩ : ∃ g, f = g + 1 := ⟨f - 1, by omega⟩
    have h1 := parseD_pairsElem n f (d + 1) (pairsToks n (.rp :: rest)) (by omega)
    have h2 := ih f d true rest (by omega)
    obtain ⟨t, tl, htl, ht⟩ := pairsElemToks_head n (pairsToks n (.rp :: rest))
    rw [htl] at h1
    simp only [pairsToks, htl]
    rcases ht with rfl | rfl <;>
    · simp only [listD, h1, h2]
      by_cases h : n = 0
      · subst h; simp <;> omega
      · simp only [h, if_false]; split <;> simp <;> omega

theorem length_pairsToks (n : Nat) : ∀ rest, (pairsToks n rest).length ≤ 5 * n + rest.length ∧
    n + rest.length ≤ (pairsToks n rest).length := by
  induction n with
  | zero => intro rest; simp [pairsToks]
  | succ n ih =>
    intro rest
    have := ih rest
    simp only [pairsToks, pairsElemToks]
    split <;> simp <;> omega

theorem parseD_cdrPairs (n f : Nat) (hf : n + 6 ≤ f) :
    parseD f 1 (.lp :: pairsToks n [.rp]) = some (if n = 0 then 2 else 6, some []) := by
  obtain ⟨f, rfl⟩ : ∃ g, f = g + 1 := ⟨f - 1, by omega⟩
  simp only [parseD, listD_pairs n f 2 false [] (by omega)]

theorem listD_atoms_dot (n : Nat) : ∀ (f d : Nat) (ne : Bool) (rest : List Tk), n + 3 ≤ f →
    (n = 0 → ne = true) →
    listD f d ne (atoms n (.dot :: .atom :: .rp :: rest)) = some (d + 2, some rest) := by
  induction n with
  | zero =>
    intro f d ne rest hf hne
    obtain ⟨f, rfl⟩ : ∃ g, f = g + 3 := ⟨f - 3, by omega⟩
    simp [atoms, listD, tailD, parseD, hne rfl]
  | succ n ih =>
    intro f d ne rest hf _
    obtain ⟨f, rfl⟩ : ∃ g, f = g + 2 := ⟨f - 2, by omega⟩
    simp only [atoms, listD, parseD, ih (f + 1) d true rest (by omega) (fun _ => rfl)]
    simp

theorem parseD_cdrDotted (n f : Nat) (hf : n + 4 ≤ f) :
    parseD f 1 (dottedToks n) = some (if n = 0 then 1 else 4, some []) := by
  obtain ⟨f, rfl⟩ : ∃ g, f = g + 1 := ⟨f - 1, by omega⟩
  unfold dottedToks
  by_cases h : n = 0
  · subst h; simp [parseD]
  · simp only [h, if_false, parseD, listD_atoms_dot n f 2 false [] (by omega) (fun h0 => absurd h0 h)]

theorem length_dottedToks (n : Nat) : (dottedToks n).length = if n = 0 then 1 else n + 4 := by
  unfold dottedToks; split <;> simp [length_atoms]

end Marwood.Depth
