import Marwood.Lemmas.EvalDerived2Case
/-!
# T01.2, second half, `case` clauses with a datum list (rules 4–7)

`(case k ((d …) r1 r2 …) clause …)` against `(if (memv k '(d …)) (begin r1 r2 …) [(case k clause …)])`
and the `=>` variants. The expansion evaluates `k`, appends the quoted list (one cell per datum) to the
store, asks `memv`, and then runs the body — or evaluates `k` AGAIN and continues with the remaining
clauses — in that larger store; the native meaning evaluates `k` once and compares with `eqv?` on
data. For an atomic key (no effect, same value) the two agree up to those cells.
-/
namespace Marwood.Spec.Eval.Derived
open Marwood Marwood.Spec.Eval Marwood.Spec.Eval.Prelude Marwood.Spec.Eval.Extra

theorem envRel_shift_self {s k : Nat} {ρ : Env} (hρ : EnvOK s ρ) : EnvRel (shiftAt s k) [] ρ ρ :=
  envRel_self (fun p hp => shiftAt_lt (hρ p hp)) []

theorem cleanBs_empty (ds : List Datum) : CleanBs [] ds := fun d _ => cleanB_nil d

/-- what the expansion does on a miss: nothing, or `(case k clause …)` with the remaining clauses -/
def missBranch (r : Rec) (ρ : Env) (k : Datum) : List Datum → M Val
  | [] => pure .void
  | c :: cs' => r.eval (caseUse k (c :: cs')) ρ

/-- the common part of rules 4–7: the key `k` is atomic; `A` is what runs on a hit (natively `KA`), the
    remaining clauses `cs` run on a miss -/
theorem case_datum_agrees (ρ : Env) (k : Datum) (atoms : List Datum) (cs : List Datum) (C1 A : Datum)
    (KA : Rec → Val → M Val)
    (hC1 : ∀ (r : Rec) (key : Val), evalCase r ρ key (C1 :: cs) =
      if atoms.any (eqvDatum key) then KA r key else evalCase r ρ key cs)
    (hKA : ∀ (f : LMap), Inj f → ∀ (r r' : Rec), RecSim f r r' → EnvRel f [] ρ ρ → ∀ key key', VRel f key key' →
      Extra.Sim f (VRel f) (KA r key) (KA r' key'))
    (hA : ∀ (m : Nat) (key' : Val) (s2 s2' : St), (evalN (m+1)).eval k ρ s2 = .ok key' s2' →
      KA (evalN (m+1)) key' s2' ≠ .timeout → (evalN (m+2)).eval A ρ s2 = KA (evalN (m+1)) key' s2')
    (exp : Datum)
    (hexp : ∀ (r : Rec), evalStep r exp ρ = (do
      let v ← r.eval (memvTest k atoms) ρ
      if truthy v then r.eval A ρ else missBranch r ρ k cs))
    (hat : ∀ d ∈ atoms, simpleAtom d = true) (hkey : atomKey k = true)
    (st : St) (hst : WFSt st) (hρ : EnvOK st.store.size ρ) (hρm : ρ.lookup k_memv = none)
    (hg : st.globals.lookup k_memv = some (.prim .memv)) :
    AgreesUpToExtra 1 (caseUse k (C1 :: cs)) exp ρ st := by
  intro n hd
  refine ⟨guardN_eval_evalN _ _ _ _ hd, ?_⟩
  rw [guardN_eval_evalN _ _ _ _ hd]
  cases n with
  | zero => exact absurd rfl hd
  | succ n =>
  cases n with
  | zero => exact absurd (by rw [guardN_succ_eval, native_case]; rfl) hd
  | succ m =>
    have e1 : (guardN (m+2)).eval (caseUse k (C1 :: cs)) ρ =
        ((evalN (m+1)).eval k ρ >>= fun key => evalCase (guardN (m+1)) ρ key (C1 :: cs)) := by
      rw [guardN_succ_eval, native_case, guardN_succ_eval, evalN_succ_eval, atomKey_rec (guardN m) (evalN m) k hkey]
    rw [e1] at hd ⊢
    have hd' : M.bind' ((evalN (m+1)).eval k ρ) (fun key => evalCase (guardN (m+1)) ρ key (C1 :: cs)) st ≠ .timeout := hd
    have e2 : (evalN (m + 2 + 1)).eval exp ρ = (do
        let v ← (evalN (m+2)).eval (memvTest k atoms) ρ
        if truthy v then (evalN (m+2)).eval A ρ else missBranch (evalN (m+2)) ρ k cs) := by
      rw [evalN_succ_eval, hexp]
    rw [e2]
    show ∃ f, Inj f ∧ _ ∧ ResRel f (VRel f) (M.bind' ((evalN (m+1)).eval k ρ) _ st) (M.bind' _ _ st)
    unfold M.bind' at hd' ⊢
    cases hk : (evalN (m+1)).eval k ρ st with
    | timeout => rw [hk] at hd'; exact absurd rfl hd'
    | err e s1 =>
      refine ⟨fun l => l, inj_id, fun _ _ => rfl, ?_⟩
      have hT : (evalN (m+2)).eval (memvTest k atoms) ρ st = .err e s1 := by
        rw [evalN_succ_eval, memvTest, native_app _ _ (s k_memv) _ (by intro x hx; cases hx; exact kwOf_memv)]
        simp only [evalArgs]
        show M.bind' (M.bind' ((evalN (m+1)).eval k ρ) _) _ st = _
        simp [M.bind', hk]
      simp only [hT]
      exact ⟨rfl, stRel_id s1⟩
    | ok key s1 =>
      rw [hk] at hd'
      simp only at hd'
      have hs1 : s1 = st := atomKey_state (evalN m) k hkey ρ st s1 key hk
      subst hs1
      obtain ⟨res, σ', hT, hsz, hpre, htr⟩ := memvTest_eval m ρ k atoms hat hρm s1 s1 key hk hg
      simp only [hT]
      have hf := inj_shiftAt s1.store.size atoms.length
      have hrel : StRel (shiftAt s1.store.size atoms.length) s1 { s1 with store := σ' } :=
        stRel_extend hst _ σ' hsz hpre
      have henv : EnvRel (shiftAt s1.store.size atoms.length) [] ρ ρ := envRel_shift_self hρ
      refine ⟨_, hf, fun l hl => shiftAt_lt hl, ?_⟩
      -- the key, evaluated once more in the larger store
      have hkk : ResRel (shiftAt s1.store.size atoms.length) (VRel (shiftAt s1.store.size atoms.length)) ((evalN (m+1)).eval k ρ s1)
          ((evalN (m+1)).eval k ρ { s1 with store := σ' }) := by
        have := sim_evalStep hf (recSim hf m) henv k (cleanB_nil k) s1 _ hrel
        rw [atomKey_rec (guardN m) (evalN m) k hkey] at this
        exact this
      rw [hk] at hkk
      obtain ⟨key', s2', hk2, hkey', hrel2⟩ := hkk.ok_inv
      rw [hC1] at hd' ⊢
      rw [htr]
      by_cases hit : atoms.any (eqvDatum key) = true
      · rw [if_pos hit] at hd' ⊢
        rw [if_pos hit]
        have hsim := hKA _ hf (guardN (m+1)) (evalN (m+1)) (recSim hf (m+1)) henv key key' hkey' s1 s2' hrel2
        rw [hA m key' _ s2' hk2 (hsim.definite hd')]
        exact hsim
      · rw [if_neg hit] at hd' ⊢
        rw [if_neg hit]
        cases cs with
        | nil => exact ⟨.void, hrel⟩
        | cons c cs' =>
          show ResRel _ _ _ (evalStep (evalN (m+1)) (caseUse k (c :: cs')) ρ _)
          rw [native_case]
          show ResRel _ _ _ (M.bind' ((evalN (m+1)).eval k ρ) _ _)
          unfold M.bind'
          rw [hk2]
          exact sim_evalCase (recSim hf (m+1)) henv hkey' _ (cleanBs_empty _) s1 s2' hrel2

/-- **case**, rules 5 and 7: `(case k ((d …) r1 r2 …) clause …)` and
    `(if (memv k '(d …)) (begin r1 r2 …) [(case k clause …)])` -/
theorem case_body_agrees (ρ : Env) (k : Datum) (atoms : List Datum) (r1 : Datum) (rs cs : List Datum)
    (hr : ¬ (r1 = s k_arrow ∧ rs.length = 1)) (hat : ∀ d ∈ atoms, simpleAtom d = true) (hkey : atomKey k = true)
    (st : St) (hst : WFSt st) (hρ : EnvOK st.store.size ρ) (hρm : ρ.lookup k_memv = none)
    (hg : st.globals.lookup k_memv = some (.prim .memv)) :
    AgreesUpToExtra 1 (caseUse k (L (L atoms :: r1 :: rs) :: cs)) (caseBodyExp k atoms r1 rs cs) ρ st := by
  refine case_datum_agrees ρ k atoms cs _ (L (s k_begin_ :: r1 :: rs)) (fun r _ => evalExprs r ρ (r1 :: rs))
    (fun r key => evalCase_body r ρ key atoms r1 rs cs hr) ?_ ?_ _ ?_ hat hkey st hst hρ hρm hg
  · intro f hf r r' hr' he key key' _
    exact sim_evalExprs hr' he _ (cleanBs_empty _)
  · intro m key' s2 s2' hk2 _
    have := atomKey_state (evalN m) k hkey ρ s2 s2' key' hk2
    subst this
    rw [evalN_succ_eval, native_begin]
  · intro r
    cases cs with
    | nil => exact native_if2 r ρ _ _
    | cons c cs' => exact native_if3 r ρ _ _ _

/-- **case**, rules 4 and 6: `(case k ((d …) => f) clause …)` and
    `(if (memv k '(d …)) (f k) [(case k clause …)])`, `f` not a syntactic keyword -/
theorem case_arrow_agrees (ρ : Env) (k : Datum) (atoms : List Datum) (f : Datum) (cs : List Datum)
    (hf : ∀ x, f = .sym x → kwOf x = none) (hat : ∀ d ∈ atoms, simpleAtom d = true) (hkey : atomKey k = true)
    (st : St) (hst : WFSt st) (hρ : EnvOK st.store.size ρ) (hρm : ρ.lookup k_memv = none)
    (hg : st.globals.lookup k_memv = some (.prim .memv)) :
    AgreesUpToExtra 1 (caseUse k (L [L atoms, s k_arrow, f] :: cs)) (caseArrowExp k atoms f cs) ρ st := by
  refine case_datum_agrees ρ k atoms cs _ (L [f, k]) (fun r key => do let fv ← r.eval f ρ; r.apply fv [key])
    (fun r key => evalCase_arrow r ρ key atoms f cs) ?_ ?_ _ ?_ hat hkey st hst hρ hρm hg
  · intro g hg' r r' hr' he key key' hk
    refine Sim.bind (hr'.eval f ρ ρ [] he (cleanB_nil f)) (fun fv fv' hfv => ?_)
    exact hr'.apply _ _ _ _ hfv (.cons hk .nil)
  · intro m key' s2 s2' hk2 _
    rw [evalN_succ_eval, native_app _ _ f [k] hf, evalArgs_one]
    show M.bind' (M.bind' ((evalN (m+1)).eval k ρ) _) _ s2 = _
    unfold M.bind'
    rw [hk2]
    rfl
  · intro r
    cases cs with
    | nil => exact native_if2 r ρ _ _
    | cons c cs' => exact native_if3 r ρ _ _ _

end Marwood.Spec.Eval.Derived
