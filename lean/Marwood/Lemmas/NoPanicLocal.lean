import Marwood.Lemmas.StackWFNoPanic
/-!
# T06.6 with state-local heap-side facts

`step_pin` (`Lemmas/StackWFNoPanic.lean`) takes `PanicLaws`: "the heap-side operations do not panic on any
arguments in any invariant heap". For the concrete heap that is too strong to be a theorem — CLOSURE's and ENTER's
environment construction read the current frame and the current environment. `PanicFacts ops s` asks for the same
facts **at the arguments the instruction at `s` hands the operation**, and `step_pin_local` is `step_pin` from those.

The frame-chain invariant may be stated over a second interface `ops'` that reads code the same way
(`readOpcode`): the concrete machine's WF-stack lives over the value-guarded `vops ext`, the step examined is the
real `concreteOps ext`'s.
-/
namespace Marwood.Vm
open Verify Stack

variable {H : Type} {ops : HeapOps H}

/-- the instruction under `ip` of `s` is `op` -/
def OpAt (ops : HeapOps H) (s : St H) (op : Op) : Prop := ops.fetch s.heap s.ipL s.ipO = some (.opcode op)

/-- what `step` needs of the heap side, at the state `s` (before the opcode is read) -/
structure PanicFacts (ops : HeapOps H) (s : St H) : Prop where
  isLambda : ops.isLambda s.heap s.ipL = true
  vararg : OpAt ops s .varArg → ∃ info, ops.lambdaInfo s.heap s.ipL = some info ∧ 1 ≤ info.argc
  makeClosure_np : OpAt ops s .closureAcc → ∀ lam, s.acc = .ptr lam →
    Outcome.NoPanic (ops.makeClosure s.heap lam s.ep s.bp s.stack)
  makeActivation_np : OpAt ops s .enter → ∀ lam env info n, ops.callee s.heap s.acc = .closure lam env →
    ops.lambdaInfo s.heap lam = some info → s.stack.getOffset (-2) = .ok (.argc n) → n = info.argc →
    Outcome.NoPanic (ops.makeActivation s.heap lam env ((s.stack.push (.basePtr s.bp)).sp - 4)
      (s.stack.push (.basePtr s.bp)))
  vectorPush_np : OpAt ops s .vpushAcc → ∀ v st, s.stack.pop = .ok (v, st) →
    Outcome.NoPanic (ops.vectorPush s.heap (ops.deref s.heap v) s.acc)
  builtinEval_np : OpAt ops s .callAcc ∨ OpAt ops s .tcallAcc → ∀ id a st argc args st2,
    ops.callee s.heap s.acc = .builtin id → s.stack.pop = .ok (a, st) → asArgc a = .ok argc →
    popN argc st = .ok (args, st2) → Outcome.NoPanic (ops.builtinEval s.heap id args)
  compileEval_np : OpAt ops s .callAcc ∨ OpAt ops s .tcallAcc → ∀ id a st e st2,
    ops.callee s.heap s.acc = .builtin id → s.stack.pop = .ok (a, st) → asArgc a = .ok 1 →
    st.pop = .ok (e, st2) → Outcome.NoPanic (ops.compileEval s.heap (ops.deref s.heap e))
  /-- the continuation CALL / TCALL is about to reinstate fits the current stack (`split_at_mut`) -/
  contFits : ∀ c, ops.callee s.heap s.acc = .continuation c → c.stack.cells.length ≤ s.stack.cells.length

/-- the one panic site of the MODEL's `step` that is not a panic site of `run_one`: the fuel guard of `apply`'s
    list walk (the Rust loop has no bound; on a cyclic list it does not return) -/
def ApplyGuard (m : String) : Prop := m = "apply: list longer than fuel (cyclic list)"

theorem invokeCont_npA (s : St H) (c : Cont) (hfit : c.stack.cells.length ≤ s.stack.cells.length) :
    Outcome.NoPanic (invokeCont s c) := by
  unfold invokeCont
  cases hp1 : s.stack.pop with
  | ok r1 =>
    obtain ⟨a, st⟩ := r1
    simp only [outcome_bind_ok]
    refine pin_bind (asArgc_np _) (fun n _ => ?_)
    split
    · exact pin_err _
    · cases hp2 : st.pop with
      | ok r2 =>
        obtain ⟨result, st2⟩ := r2
        simp only [outcome_bind_ok]
        refine pin_bind ?_ (fun s2 _ => pin_ok _)
        unfold restoreCont
        refine pin_bind ?_ (fun st3 _ => pin_ok _)
        intro m h
        have e : st2.cells.length = s.stack.cells.length := by rw [(pop_ok hp2).2.1, (pop_ok hp1).2.1]
        have h' : st2.restore c.stack = .panic m := h
        unfold Stack.restore at h'
        rw [e] at h'
        simp only [hfit, if_true] at h'
        cases h'
      | err e => exact pin_err _
      | panic m => exact absurd rfl (fun h => pop_np st m (hp2.trans h))
  | err e => exact pin_err _
  | panic m => exact absurd rfl (fun h => pop_np s.stack m (hp1.trans h))

theorem pushList_pinA (s : St H) : ∀ (fuel : Nat) (rest : VCell) (n : Nat) (st : Stack),
    Outcome.PanicsIn ApplyGuard (builtinApply.pushList ops s fuel rest n st)
  | 0, rest, n, st => by
    intro m h
    unfold builtinApply.pushList at h
    cases h; rfl
  | fuel+1, rest, n, st => by
    unfold builtinApply.pushList
    split
    · exact pushList_pinA s fuel _ _ _
    · exact pin_ok _
    · exact pin_err _

theorem builtinApply_pinA (s : St H) (hip : 1 ≤ s.ipO) : Outcome.PanicsIn ApplyGuard (builtinApply ops s) := by
  unfold builtinApply
  refine pin_bind (pop_np _).to (fun a _ => ?_)
  obtain ⟨a, st⟩ := a
  refine pin_bind (asArgc_np _).to (fun argc _ => ?_)
  split
  · exact pin_err _
  · refine pin_bind (pop_np _).to (fun r _ => ?_)
    obtain ⟨top, st2⟩ := r
    simp only
    split
    all_goals simp only [Bool.not_true, Bool.not_false, Bool.false_eq_true, ↓reduceIte]
    all_goals first
      | exact pin_err _
      | (refine pin_bind (getOffset_np _ _).to (fun proc _ => ?_)
         refine pin_bind (shift_np _ _).to (fun st3 _ => ?_)
         refine pin_bind (pop_np _).to (fun r2 _ => ?_)
         obtain ⟨_, st4⟩ := r2
         refine pin_bind (pushList_pinA s _ _ _ _) (fun r3 _ => ?_)
         obtain ⟨n, st5⟩ := r3
         simp only [usub_of_le _ hip, outcome_bind_ok]
         exact pin_ok _)

/-- the same state after `read_opcode` -/
abbrev nxt (s : St H) : St H := { s with ipO := s.ipO + 1 }

theorem builtinEvalProc_npL {s : St H} {id : Nat} (hop : OpAt ops s .callAcc ∨ OpAt ops s .tcallAcc)
    (pf : PanicFacts ops s) (hc : ops.callee s.heap s.acc = .builtin id) :
    Outcome.NoPanic (builtinEvalProc ops (nxt s)) := by
  unfold builtinEvalProc
  cases hp1 : (nxt s).stack.pop with
  | ok r1 =>
    obtain ⟨a, st⟩ := r1
    simp only [outcome_bind_ok]
    cases ha : asArgc a with
    | ok argc =>
      simp only [outcome_bind_ok]
      split
      · exact pin_err _
      · rename_i hne
        have h1 : argc = 1 := by simpa using hne
        subst h1
        cases hp2 : st.pop with
        | ok r2 =>
          obtain ⟨e, st2⟩ := r2
          simp only [outcome_bind_ok]
          refine pin_bind (pf.compileEval_np hop id a st e st2 hc hp1 ha hp2) (fun r2 _ => ?_)
          obtain ⟨h, lam⟩ := r2
          simp only [usub_of_le _ (Nat.le_add_left 1 s.ipO), outcome_bind_ok]
          exact pin_ok _
        | err e => exact pin_err _
        | panic m => exact absurd rfl (fun h => pop_np st m (hp2.trans h))
    | err e => exact pin_err _
    | panic m => exact absurd rfl (fun h => asArgc_np a m (ha.trans h))
  | err e => exact pin_err _
  | panic m => exact absurd rfl (fun h => pop_np _ m (hp1.trans h))

theorem builtinGeneric_npL {s : St H} {id : Nat} (hop : OpAt ops s .callAcc ∨ OpAt ops s .tcallAcc)
    (pf : PanicFacts ops s) (hc : ops.callee s.heap s.acc = .builtin id) :
    Outcome.NoPanic (builtinGeneric ops id (nxt s)) := by
  unfold builtinGeneric
  cases hp1 : (nxt s).stack.pop with
  | ok r1 =>
    obtain ⟨a, st⟩ := r1
    simp only [outcome_bind_ok]
    cases ha : asArgc a with
    | ok argc =>
      simp only [outcome_bind_ok]
      cases hpn : popN argc st with
      | ok r2 =>
        obtain ⟨args, st2⟩ := r2
        simp only [outcome_bind_ok]
        refine pin_bind (pf.builtinEval_np hop id a st argc args st2 hc hp1 ha hpn) (fun r2 _ => ?_)
        exact pin_ok _
      | err e => exact pin_err _
      | panic m => exact absurd rfl (fun h => popN_np argc st m (hpn.trans h))
    | err e => exact pin_err _
    | panic m => exact absurd rfl (fun h => asArgc_np a m (ha.trans h))
  | err e => exact pin_err _
  | panic m => exact absurd rfl (fun h => pop_np _ m (hp1.trans h))

theorem runBuiltin_pinL {R : String → Prop} {s : St H} {id : Nat}
    (hAp : Outcome.PanicsIn R (builtinApply ops (nxt s))) (hop : OpAt ops s .callAcc ∨ OpAt ops s .tcallAcc)
    (pf : PanicFacts ops s) (hc : ops.callee s.heap s.acc = .builtin id)
    (hcap : s.stack.sp < s.stack.cells.length) : Outcome.PanicsIn R (runBuiltin ops id (nxt s)) := by
  have hjp : ∀ r : St H × VCell, Outcome.PanicsIn R
      (match r with
      | (s, v) =>
        match v with
        | VCell.ptr p => (Outcome.ok { s with acc := .ptr p } : Outcome (St H))
        | v => match ops.maybePut s.heap v with
          | (h, r) => Outcome.ok { s with heap := h, acc := r }) := by
    intro r
    obtain ⟨s2, v⟩ := r
    simp only
    split <;> exact pin_ok _
  have hip : 1 ≤ (nxt s).ipO := Nat.le_add_left 1 s.ipO
  unfold runBuiltin
  dsimp only
  split
  · exact pin_bind hAp (fun r _ => hjp r)
  · exact pin_bind (builtinCallcc_np (nxt s) hip hcap).to (fun r _ => hjp r)
  · exact pin_bind (builtinEvalProc_npL hop pf hc).to (fun r _ => hjp r)
  · exact pin_bind (builtinGeneric_npL hop pf hc).to (fun r _ => hjp r)

theorem stepCall_pinL {R : String → Prop} {s : St H}
    (hAp : Outcome.PanicsIn R (builtinApply ops (nxt s))) (hop : OpAt ops s .callAcc) (pf : PanicFacts ops s)
    (hcap : s.stack.sp < s.stack.cells.length) : Outcome.PanicsIn R (stepCall ops (nxt s)) := by
  unfold stepCall
  cases hc : ops.callee (nxt s).heap (nxt s).acc with
  | builtin id => exact runBuiltin_pinL hAp (.inl hop) pf hc hcap
  | continuation c => exact (invokeCont_npA _ c (pf.contFits c hc)).to
  | other => exact pin_err _
  | closure lam env => exact pin_ok _
  | lambda => exact pin_bind (asPtr_np _).to (fun _ _ => pin_ok _)

theorem stepTCall_pinL {R : String → Prop} {s : St H}
    (hAp : Outcome.PanicsIn R (builtinApply ops (nxt s))) (hop : OpAt ops s .tcallAcc) (pf : PanicFacts ops s)
    {n m : Nat} (hcap : s.stack.sp < s.stack.cells.length)
    (hA : s.stack.cellAt (s.bp + 1) = .argc n) (hn : n ≤ s.bp) (hm : s.stack.cellAt s.stack.sp = .argc m)
    (hle : s.bp + 4 + m + 1 ≤ s.stack.sp) : Outcome.PanicsIn R (stepTCall ops (nxt s)) := by
  cases hc : ops.callee (nxt s).heap (nxt s).acc with
  | builtin id => unfold stepTCall; rw [hc]; exact runBuiltin_pinL hAp (.inr hop) pf hc hcap
  | continuation c => unfold stepTCall; rw [hc]; exact (invokeCont_npA _ c (pf.contFits c hc)).to
  | other => unfold stepTCall; rw [hc]; exact pin_err _
  | closure lam env =>
    rw [stepTCall_closure hc]
    exact (tcallTail_np (nxt s) lam hcap hA hn hm hle).to
  | lambda =>
    rw [stepTCall_lambda hc]
    exact pin_bind (asPtr_np _).to (fun lam _ => (tcallTail_np (nxt s) lam hcap hA hn hm hle).to)

theorem stepEnter_npL {s : St H} (hop : OpAt ops s .enter) (pf : PanicFacts ops s)
    (hsp : 3 ≤ s.stack.sp) : Outcome.NoPanic (stepEnter ops (nxt s)) := by
  have hu : usub (s.stack.push (.basePtr s.bp)).sp 4 "enter: sp - 4" = .ok ((s.stack.push (.basePtr s.bp)).sp - 4) :=
    usub_of_le _ (by rw [push_sp]; omega)
  unfold stepEnter
  dsimp only
  split
  · rename_i lam env hc
    have hc' : ops.callee s.heap s.acc = .closure lam env := hc
    simp only [outcome_bind_ok]
    cases hinfo : ops.lambdaInfo s.heap lam with
    | none =>
      exact pin_err _
    | some info =>
      dsimp only
      cases hg : s.stack.getOffset (-2) with
      | ok a =>
        simp only [outcome_bind_ok]
        cases ha : asArgc a with
        | ok n =>
          simp only [outcome_bind_ok]
          split
          · exact pin_err _
          · rename_i hne
            have hn : n = info.argc := by simpa using hne
            simp only [hu, outcome_bind_ok]
            have ha' : a = .argc n := by cases a <;> simp only [asArgc] at ha <;> cases ha; rfl
            subst ha'
            refine pin_bind (pf.makeActivation_np hop lam env info n hc' hinfo hg hn) (fun r _ => ?_)
            exact pin_ok _
        | err e => exact pin_err _
        | panic m => exact absurd rfl (fun h => asArgc_np a m (ha.trans h))
      | err e =>
        exact pin_err _
      | panic m => exact absurd rfl (fun h => getOffset_np _ _ m (hg.trans h))
  · refine pin_bind (asPtr_np _) (fun p _ => ?_)
    simp only [outcome_bind_ok]
    split
    · exact pin_err _
    · refine pin_bind (getOffset_np _ _) (fun a _ => ?_)
      refine pin_bind (asArgc_np _) (fun n _ => ?_)
      split
      · exact pin_err _
      · simp only [hu, outcome_bind_ok]
        exact pin_ok _
  · simp only [outcome_bind_err]
    exact pin_err _

/-- **T06.6 from state-local facts.** `ops'` is the interface the frame-chain invariant is stated over; it reads
    code like `ops` does. Every panic of `step` is a panic of `apply`'s argument spreading (`builtinApply` on the
    state after `read_opcode`): `R` is whatever is known of those. -/
theorem step_pin_localR {R : String → Prop} {ops' : HeapOps H} {cl : CodeLaws ops'} {s : St H} {K : List FDesc}
    (hw : WFS cl s K) (hrd : readOpcode ops s = readOpcode ops' s) (pf : PanicFacts ops s)
    (hAp : Outcome.PanicsIn R (builtinApply ops (nxt s))) :
    Outcome.PanicsIn R (step ops s) := by
  have hl : ops.isLambda s.heap s.ipL = true := pf.isLambda
  unfold step
  refine pin_bind (readOpcode_np hl).to (fun a hr => ?_)
  obtain ⟨op, s1⟩ := a
  have hopAt : OpAt ops s op := (readOpcode_ok hr).1
  rw [hrd] at hr
  obtain ⟨t, st, ai, hs1⟩ := hw.instr hr
  subst hs1
  have hl1 : ops.isLambda (nxt s).heap (nxt s).ipL = true := hl
  have hcap := hw.wf.cap
  cases op <;> dsimp only
  case jmp =>
    refine pin_bind (readOperand_np hl1).to (fun a _ => ?_)
    exact pin_bind (asPtr_np _).to (fun _ _ => pin_ok _)
  case jnt =>
    refine pin_bind (readOperand_np hl1).to (fun a _ => ?_)
    refine pin_bind (asPtr_np _).to (fun _ _ => ?_)
    split <;> exact pin_ok _
  case mov =>
    refine pin_bind (loadOperand_np hl1).to (fun a ha => ?_)
    have e2 := loadOperand_ok (v := a.1) (s1 := a.2) ha
    exact pin_bind (storeOperand_np (s := a.2) a.1 (by rw [e2]; exact hl)).to (fun _ _ => pin_ok _)
  case movImm =>
    refine pin_bind (readOperand_np hl1).to (fun a ha => ?_)
    have e2 := (readOperand_ok (v := a.1) (s1 := a.2) ha).2
    exact pin_bind (storeOperand_np (s := a.2) a.1 (by rw [e2]; exact hl)).to (fun _ _ => pin_ok _)
  case push => exact pin_bind (loadOperand_np hl1).to (fun _ _ => pin_ok _)
  case pushImm => exact pin_bind (readOperand_np hl1).to (fun _ _ => pin_ok _)
  case pushAcc => exact pin_ok _
  case halt => exact pin_ok _
  case cons =>
    refine pin_bind (pop_np _).to (fun a _ => ?_)
    obtain ⟨d, st1⟩ := a
    dsimp only
    refine pin_bind (pop_np _).to (fun a2 _ => ?_)
    obtain ⟨a', st2⟩ := a2
    dsimp only
    refine pin_bind (asPtr_np _).to (fun _ _ => ?_)
    refine pin_bind (asPtr_np _).to (fun _ _ => ?_)
    exact pin_ok _
  case vpushAcc =>
    cases hp : (nxt s).stack.pop with
    | ok r =>
      obtain ⟨v, st1⟩ := r
      simp only [outcome_bind_ok]
      exact pin_bind (pf.vectorPush_np hopAt v st1 hp).to (fun _ _ => pin_ok _)
    | err e => exact pin_err _
    | panic m => exact absurd rfl (fun h => pop_np _ m (hp.trans h))
  case closureAcc =>
    cases ha : asPtr (nxt s).acc with
    | ok lam =>
      simp only [outcome_bind_ok]
      have hacc : s.acc = .ptr lam := by
        have : asPtr s.acc = .ok lam := ha
        cases hh : s.acc <;> rw [hh] at this <;> simp only [asPtr] at this <;> cases this
        rfl
      exact pin_bind (pf.makeClosure_np hopAt lam hacc).to (fun _ _ => pin_ok _)
    | err e => exact pin_err _
    | panic m => exact absurd rfl (fun h => asPtr_np _ m (ha.trans h))
  case callAcc =>
    exact pin_bind (stepCall_pinL hAp hopAt pf hcap) (fun _ _ => pin_ok _)
  case tcallAcc =>
    have chk := ai.chk
    cases st <;> simp only [checkOp, Bool.and_eq_true] at chk <;> try (exact absurd chk Bool.false_ne_true)
    have hent : t.entry = false := by simpa using chk.1
    obtain ⟨n, ep', l', o', bp', K', hm, hA, _, _, _, hn, _, _⟩ :=
      hw.wf.frames.inv_frame ai.ht hent ai.hst (by simp)
    obtain ⟨m, hm1, hm2, _⟩ := hm
    exact pin_bind (stepTCall_pinL hAp hopAt pf hcap hA hn hm1 (show s.bp + 4 + m + 1 ≤ s.stack.sp by omega))
      (fun _ _ => pin_ok _)
  case enter =>
    have chk := ai.chk
    cases st <;> simp only [checkOp] at chk <;> try (exact absurd chk Bool.false_ne_true)
    obtain ⟨_, n, ep', l', o', K', hn, _⟩ := hw.wf.frames.inv_pre ai.ht ai.hst
    exact pin_bind (stepEnter_npL hopAt pf (show 3 ≤ s.stack.sp by omega)).to (fun _ _ => pin_ok _)
  case ret =>
    have chk := ai.chk
    cases st <;> simp only [checkOp] at chk <;> try (exact absurd chk Bool.false_ne_true)
    have hent : t.entry = false := by simpa using chk
    obtain ⟨n, ep', l', o', bp', K', hm, hA, _, _, _, hn, _, _⟩ :=
      hw.wf.frames.inv_frame ai.ht hent ai.hst (by simp)
    have hlo := hm.lo_le
    exact pin_bind (stepRet_np (nxt s)
      (show s.bp + 1 < s.stack.cells.length by omega) hA hn).to (fun _ _ => pin_ok _)
  case varArg =>
    obtain ⟨info, hinfo, hargc⟩ := pf.vararg hopAt
    exact pin_bind (stepVarArg_np (nxt s) hinfo hargc).to (fun _ _ => pin_ok _)

/-- … the only panic of the model's `step` is the fuel guard of `apply` -/
theorem step_pin_local {ops' : HeapOps H} {cl : CodeLaws ops'} {s : St H} {K : List FDesc} (hw : WFS cl s K)
    (hrd : readOpcode ops s = readOpcode ops' s) (pf : PanicFacts ops s) :
    Outcome.PanicsIn ApplyGuard (step ops s) :=
  step_pin_localR hw hrd pf (builtinApply_pinA (nxt s) (Nat.le_add_left 1 s.ipO))

end Marwood.Vm
