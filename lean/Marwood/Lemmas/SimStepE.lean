import Marwood.Lemmas.SimStepD
/-!
# Heap simulation, lemma (b) part 5: TCALL (closures / lambdas / continuations) and VARARG (allocating)
-/
namespace Marwood.Lemmas.Sim
open Marwood Marwood.Vm Marwood.Vm.Concrete

section
variable (ext : ExtOps) {φ : Inj} {s t : St CHeap}

/-! ## TCALL -/

theorem tcallCopySame_rel {K : Nat} (bp : Nat) :
    ∀ (k it : Nat) {st st' : Stack}, StackRelK φ K st st' → st.sp ≤ K →
      ORel (fun a b => StackRelK φ K a b ∧ a.sp = st.sp) (tcallCopySame k it bp st) (tcallCopySame k it bp st') := by
  intro k
  induction k with
  | zero => intro it st st' h _; exact .ok ⟨h, rfl⟩
  | succ k ih =>
    intro it st st' h hk
    simp only [tcallCopySame]
    refine (h.getOffset hk (by omega)).bind ?_
    intro v v' hv
    refine (usub_rel bp it _).bind ?_
    intro i i' e
    subst e
    refine (h.set i hv).bind ?_
    rintro st1 st1' ⟨h1, hsp⟩
    refine (ih (it + 1) h1 (by omega)).imp ?_
    rintro a b ⟨h2, hsp2⟩
    exact ⟨h2, by omega⟩

theorem tcallCopyDiff_rel (savedSp : Nat) :
    ∀ (it : Nat) {K : Nat} {st st' : Stack}, StackRelK φ K st st' → st.sp ≤ K → savedSp ≤ K →
      ORel (fun a b => ∃ K', StackRelK φ K' a b ∧ a.sp ≤ K' ∧ savedSp ≤ K')
        (tcallCopyDiff it savedSp st) (tcallCopyDiff it savedSp st') := by
  intro it
  induction it with
  | zero => intro K st st' h hk hs; exact .ok ⟨K, h, hk, hs⟩
  | succ it ih =>
    intro K st st' h hk hs
    simp only [tcallCopyDiff]
    refine (usub_rel_le savedSp (it + 1) _).bind ?_
    rintro i i' ⟨e, hle⟩
    subst e
    refine (h.get (i := i) (by omega)).bind ?_
    intro v v' hv
    obtain ⟨hp, hsp⟩ := h.push hk hv
    exact ih hp (by omega) (by omega)

theorem pushK {K : Nat} {st st' : Stack} (h : StackRelK φ K st st') (hk : st.sp ≤ K) {v v'} (hv : VRel φ v v') :
    ∃ K', StackRelK φ K' (st.push v) (st'.push v') ∧ (st.push v).sp ≤ K' ∧ K ≤ K' := by
  obtain ⟨hp, hsp⟩ := h.push hk hv
  exact ⟨_, hp, by omega, by omega⟩

theorem stepTCall_rel (bl : BuiltinLaw ext) (h : Sim φ s t) (ok : SizeOk s.heap) (ok' : SizeOk t.heap)
    (so : SymOk s.heap) (so' : SymOk t.heap) (fl : FrameLive s) :
    ORel (Post φ) (stepTCall (concreteOps ext) s) (stepTCall (concreteOps ext) t) := by
  unfold stepTCall
  have hcal := callee_rel h.heap ok ok' h.acc
  simp only [concreteOps] at hcal ⊢
  unfold FrameLive at fl
  -- the frame rewrite, for a related target lambda
  have tail : ∀ (lam lam' : Nat), AddrRel φ lam lam' →
      ORel (Post φ)
        (do
          let argc ← (do let v ← s.stack.getOffset 0; asArgc v)
          let frameArgc ← (do let v ← s.stack.get (s.bp + 1); asArgc v)
          if argc = frameArgc then do
            let savedBp ← s.stack.get (s.bp + 4)
            let st ← tcallCopySame argc 0 s.bp s.stack
            let st := { st with sp := s.bp + 3 }
            let bp ← asBp savedBp
            Outcome.ok { s with stack := st, bp := bp, ipL := lam, ipO := 0 }
          else do
            let savedSp := s.stack.sp
            let savedEp ← s.stack.get (s.bp + 2)
            let savedIp ← s.stack.get (s.bp + 3)
            let savedBp ← s.stack.get (s.bp + 4)
            let sp0 ← usub s.bp frameArgc "tcall: bp - frame_argc"
            let st := { s.stack with sp := sp0 }
            let st ← tcallCopyDiff argc savedSp st
            let st := ((st.push (.argc argc)).push savedEp).push savedIp
            let bp ← asBp savedBp
            Outcome.ok { s with stack := st, bp := bp, ipL := lam, ipO := 0 })
        (do
          let argc ← (do let v ← t.stack.getOffset 0; asArgc v)
          let frameArgc ← (do let v ← t.stack.get (t.bp + 1); asArgc v)
          if argc = frameArgc then do
            let savedBp ← t.stack.get (t.bp + 4)
            let st ← tcallCopySame argc 0 t.bp t.stack
            let st := { st with sp := t.bp + 3 }
            let bp ← asBp savedBp
            Outcome.ok { t with stack := st, bp := bp, ipL := lam', ipO := 0 }
          else do
            let savedSp := t.stack.sp
            let savedEp ← t.stack.get (t.bp + 2)
            let savedIp ← t.stack.get (t.bp + 3)
            let savedBp ← t.stack.get (t.bp + 4)
            let sp0 ← usub t.bp frameArgc "tcall: bp - frame_argc"
            let st := { t.stack with sp := sp0 }
            let st ← tcallCopyDiff argc savedSp st
            let st := ((st.push (.argc argc)).push savedEp).push savedIp
            let bp ← asBp savedBp
            Outcome.ok { t with stack := st, bp := bp, ipL := lam', ipO := 0 }) := by
    intro lam lam' hl
    rw [show t.bp = s.bp from h.bp.symm, show t.stack.sp = s.stack.sp from h.stack.1.symm]
    refine ((h.stack.getOffset (Nat.le_refl _) (Int.le_refl 0)).bind (fun _ _ hv => asArgc_rel hv)).bind ?_
    intro argc argc' e
    subst e
    refine ((h.stack.get (i := s.bp + 1) (by omega)).bind (fun _ _ hv => asArgc_rel hv)).bind ?_
    intro fa fa' e
    subst e
    split
    · refine (h.stack.get (i := s.bp + 4) (by omega)).bind ?_
      intro sb sb' hsb
      refine (tcallCopySame_rel s.bp argc 0 h.stack (Nat.le_refl _)).bind ?_
      rintro st1 st1' ⟨h1, _⟩
      refine (asBp_rel hsb).bind ?_
      intro b b' e
      subst e
      refine .ok ⟨φ, φ.le_refl, h.heap, ?_, h.acc, h.ep, hl, rfl, rfl⟩
      exact StackRelK.weaken (K := s.stack.sp) ⟨rfl, h1.2.1, h1.2.2⟩ (by show s.bp + 3 ≤ s.stack.sp; omega)
    · refine (h.stack.get (i := s.bp + 2) (by omega)).bind ?_
      intro se se' hse
      refine (h.stack.get (i := s.bp + 3) (by omega)).bind ?_
      intro si si' hsi
      refine (h.stack.get (i := s.bp + 4) (by omega)).bind ?_
      intro sb sb' hsb
      refine (usub_rel_le s.bp fa _).bind ?_
      rintro sp0 sp0' ⟨e, hle⟩
      subst e
      have hst0 : StackRelK φ s.stack.sp { s.stack with sp := sp0 } { t.stack with sp := sp0 } :=
        ⟨rfl, h.stack.2.1, h.stack.2.2⟩
      refine (tcallCopyDiff_rel s.stack.sp argc hst0 (by show sp0 ≤ s.stack.sp; omega) (Nat.le_refl _)).bind ?_
      rintro st1 st1' ⟨K1, h1, hk1, _⟩
      obtain ⟨K2, h2, hk2, _⟩ := pushK h1 hk1 (v := .argc argc) (v' := .argc argc) (.atom rfl)
      obtain ⟨K3, h3, hk3, _⟩ := pushK h2 hk2 hse
      obtain ⟨K4, h4, hk4, _⟩ := pushK h3 hk3 hsi
      refine (asBp_rel hsb).bind ?_
      intro b b' e
      subst e
      exact .ok ⟨φ, φ.le_refl, h.heap, h4.weaken hk4, h.acc, h.ep, hl, rfl, rfl⟩
  generalize callee s.heap s.acc = k at hcal
  generalize callee t.heap t.acc = k' at hcal
  cases hcal with
  | closure hl _ => exact tail _ _ hl
  | lambda =>
    simp only [bind_assoc]
    have hp := asPtr_rel h.acc
    generalize asPtr s.acc = x at hp
    generalize asPtr t.acc = y at hp
    cases hp with
    | ok r => exact tail _ _ r
    | err => exact .err
    | panic => exact .panic
  | builtin => exact bl φ s t _ h ok ok' so so'
  | continuation hc => exact (invokeCont_rel h hc).imp fun _ _ r => .of_sim r
  | other => exact .err

theorem exec_tcall (bl : BuiltinLaw ext) (h : Sim φ s t) (ok : SizeOk s.heap) (ok' : SizeOk t.heap)
    (so : SymOk s.heap) (so' : SymOk t.heap) (fl : FrameLive s) :
    ORel (PostB φ) (exec (concreteOps ext) .tcallAcc s) (exec (concreteOps ext) .tcallAcc t) := by
  unfold exec
  refine (stepTCall_rel ext bl h ok ok' so so' fl).bind ?_
  intro s' t' hs
  exact .ok ⟨rfl, hs⟩

end

end Marwood.Lemmas.Sim
