import Marwood.Lemmas.EvalPromiseNative
import Marwood.Lemmas.EvalPromiseJMain
import Marwood.Lemmas.EvalConverseDerived
import Marwood.Lemmas.EvalDerived2Case2
/-!
# `(force (delay e))`: the relation between the native outcome and the expansion's, and the native side

The native run of `(force (delay e))` and the run of its expansion with the prelude's library evaluate
the delayed expression `e` in stores that BOTH differ from the store at the use: natively one promise
cell has been allocated, in the expansion the promise structure and three call frames (seven cells).
Both runs are related — by the location-map simulation of `EvalExtra*.lean` — to the evaluation `I` of
`e` in the state of the use itself; `SpanAgree` says so: a common pre-image `resI` and two injective
location maps `f1`, `f2` (a span). What it implies for the observable parts is `SpanAgree.observe`.

This file: the definitions and the NATIVE leg (`native_leg`): from "the native run, slack-guarded, is
definite" to "`I` (guarded) is definite, the native outcome is its image under `f1 = shiftAt size 1`, and
the promise cell holds the value" — converse simulation (`EvalConverse*`) for definiteness, the frame
simulation (`EvalPromiseJ*`) for "nobody touched the promise cell while `e` ran".
-/
namespace Marwood.Spec.Eval.Derived
open Marwood Marwood.Spec.Eval Marwood.Spec.Eval.Prelude Marwood.Spec.Eval.Extra Marwood.Spec.Eval.Conv
open Marwood.Spec.Eval.ExtraJ

/-- `StRel` without the allocation frontier (the two runs go on allocating out of step after `e`) and
    with the globals related off a list `G` of names -/
structure StRelW (f : LMap) (G : List Text) (s s' : St) : Prop where
  cells : ∀ l c, s.store[l]? = some c → ∃ c', s'.store[f l]? = some c' ∧ CellRel f c c'
  out : s'.out = s.out
  globals : ∀ y, y ∉ G → GRel f (s.globals.lookup y) (s'.globals.lookup y)

/-- both outcomes definite, of the same kind, related -/
def ResRelW (f : LMap) (G : List Text) : Res Val → Res Val → Prop
  | .ok v s, .ok v' s' => VRel f v v' ∧ StRelW f G s s'
  | .err c s, .err c' s' => c = c' ∧ StRelW f G s s'
  | _, _ => False

theorem stRel_toW {f : LMap} {s s' : St} (h : StRel f s s') (G : List Text) : StRelW f G s s' :=
  ⟨h.cells, h.out, fun y _ => h.globals y⟩

/-- **the agreement of a native promise computation `resN` with the prelude's `resX`**: both are images
    of one computation `resI`, and where both yield values the native promise cell `l0` and the
    prelude's structure rooted at `p0` are both FORCED and hold those values (memoisation) -/
def SpanAgree (resN resX : Res Val) (l0 p0 : Loc) : Prop :=
  ∃ (resI : Res Val) (f1 f2 : LMap), Inj f1 ∧ Inj f2 ∧ ResRelW f1 [] resI resN ∧ ResRelW f2 [k_force] resI resX ∧
    ∀ vN sN vX sX, resN = .ok vN sN → resX = .ok vX sX →
      sN.store[l0]? = some (.promise true vN) ∧ PromStruct sX.store p0 true vX

/-- what the agreement says about the observable parts: same kind of outcome, same error class, same
    output log; values that are images of one value (equal atoms in particular) -/
theorem SpanAgree.observe {resN resX : Res Val} {l0 p0 : Loc} (h : SpanAgree resN resX l0 p0) :
    (∃ vN sN vX sX, resN = .ok vN sN ∧ resX = .ok vX sX ∧ sX.out = sN.out ∧
        (∃ vI f1 f2, VRel f1 vI vN ∧ VRel f2 vI vX) ∧
        sN.store[l0]? = some (.promise true vN) ∧ PromStruct sX.store p0 true vX) ∨
    (∃ c sN sX, resN = .err c sN ∧ resX = .err c sX ∧ sX.out = sN.out) := by
  obtain ⟨resI, f1, f2, _, _, h1, h2, h3⟩ := h
  cases resI with
  | timeout => exact h1.elim
  | ok vI sI =>
    cases resN with
    | ok vN sN =>
      cases resX with
      | ok vX sX =>
        obtain ⟨m1, m2⟩ := h3 vN sN vX sX rfl rfl
        exact Or.inl ⟨vN, sN, vX, sX, rfl, rfl, by rw [h2.2.out, h1.2.out], ⟨vI, f1, f2, h1.1, h2.1⟩, m1, m2⟩
      | err _ _ => exact h2.elim
      | timeout => exact h2.elim
    | err _ _ => exact h1.elim
    | timeout => exact h1.elim
  | err c sI =>
    cases resN with
    | err cN sN =>
      cases resX with
      | err cX sX =>
        obtain ⟨e1, r1⟩ := h1
        obtain ⟨e2, r2⟩ := h2
        subst e1; subst e2
        exact Or.inr ⟨c, sN, sX, rfl, rfl, by rw [r2.out, r1.out]⟩
      | ok _ _ => exact h2.elim
      | timeout => exact h2.elim
    | ok _ _ => exact h1.elim
    | timeout => exact h1.elim

/-- related atoms are equal -/
theorem VRel.int_eq {f : LMap} {n : Int} {v : Val} (h : VRel f (.int n) v) : v = .int n := by cases h; rfl

/-! ## the native leg -/

/-- the one junk cell of the native side: the promise cell -/
def junkN (n : Nat) (c : Cell) : Junk := fun l' => if l' = n then some c else none

theorem stRelJ_push {st : St} (hst : WFSt st) (c : Cell) :
    StRelJ (shiftAt st.store.size 1) (junkN st.store.size c) st { st with store := st.store.push c } := by
  refine ⟨stRel_push hst c, ?_, ?_⟩
  · intro l' c' h
    simp only [junkN] at h
    split at h
    · cases h; rename_i e; subst e; simp
    · cases h
  · intro l
    simp only [junkN]
    rw [if_neg]
    unfold shiftAt
    split <;> omega

/-- writing to a location outside the image keeps `StRelW` -/
theorem StRelW.set_off {f : LMap} {G : List Text} {s s' : St} (h : StRelW f G s s') (l' : Loc) (c : Cell)
    (hoff : ∀ l, f l ≠ l') : StRelW f G s { s' with store := s'.store.setIfInBounds l' c } := by
  refine ⟨fun l d hl => ?_, h.out, h.globals⟩
  obtain ⟨c', h1, h2⟩ := h.cells l d hl
  refine ⟨c', ?_, h2⟩
  have hne : ¬ l' = f l := fun e => hoff l e.symm
  simp only [Array.getElem?_setIfInBounds, if_neg hne]
  exact h1

/-- **native leg.** If the native run of `(force (delay e))` with fuel `m + 3`, slack-guarded (`sguardN 1`:
    the native store holds one cell — the promise — that the evaluation `I` of `e` at the use does not),
    is definite, then `I = (guardN m).eval e ρ st` is definite, the native outcome is its image under
    `shiftAt size 1`, and after a value the promise cell holds it, forced. -/
theorem native_leg (m : Nat) (e : Datum) (ρ : Env) (st : St) (hst : WFSt st) (hρ : EnvOK st.store.size ρ)
    (hdef : isDefine e = false) (hρ1 : ρ.lookup k_force = none)
    (hg : st.globals.lookup k_force = some (.prim .force))
    (hd : (sguardN 1 (m+3)).eval (forceUse (delayUse e)) ρ st ≠ .timeout) :
    (guardN m).eval e ρ st ≠ .timeout ∧
    (evalN (m+3)).eval (forceUse (delayUse e)) ρ st = (sguardN 1 (m+3)).eval (forceUse (delayUse e)) ρ st ∧
    ResRelW (shiftAt st.store.size 1) [] ((guardN m).eval e ρ st) ((evalN (m+3)).eval (forceUse (delayUse e)) ρ st) ∧
    ∀ vN sN, (evalN (m+3)).eval (forceUse (delayUse e)) ρ st = .ok vN sN →
      sN.store[st.store.size]? = some (.promise true vN) := by
  have hev := sguardN_eval_evalN 1 (m+3) _ ρ st hd
  rw [native_forceDelay (tower_sguardN 1) m e ρ st hdef hρ1 hg] at hd
  have hsg : (sguardN 1 m).eval e ρ { st with store := st.store.push (.promise false (thunkN e ρ)) } ≠ .timeout := by
    intro h0
    apply hd
    simp only [nativeFD, h0]
  -- converse: `I` is definite
  have hconv := extra_cell_invariance_conv_guard (inj_shiftAt st.store.size 1) (shiftAt_le st.store.size 1) m e
    (envRel_shift_self (k := 1) hρ) (cleanB_nil e) (stRel_push hst (.promise false (thunkN e ρ)))
  have hI := hconv.definite hsg
  refine ⟨hI, hev, ?_⟩
  -- forward with the frame: the native run of `e`, and the promise cell untouched
  have hfwd := ExtraJ.extra_cell_invariance (J := junkN st.store.size (.promise false (thunkN e ρ)))
    (inj_shiftAt st.store.size 1) m e (envRel_shift_self (k := 1) hρ) (cleanB_nil e)
    (stRelJ_push hst (.promise false (thunkN e ρ)))
  rw [native_forceDelay tower_evalN m e ρ st hdef hρ1 hg]
  have hoff : ∀ l, shiftAt st.store.size 1 l ≠ st.store.size := by
    intro l; unfold shiftAt; split <;> omega
  cases hRI : (guardN m).eval e ρ st with
  | timeout => exact absurd hRI hI
  | err c sI =>
    rw [hRI] at hfwd
    obtain ⟨sN, e2, rs⟩ := hfwd.err_inv
    simp only [nativeFD, e2]
    exact ⟨⟨rfl, stRel_toW rs.toStRel []⟩, fun _ _ h => by cases h⟩
  | ok vI sI =>
    rw [hRI] at hfwd
    obtain ⟨vN, sN, e2, rv, rs⟩ := hfwd.ok_inv
    have hcell : sN.store[st.store.size]? = some (.promise false (thunkN e ρ)) :=
      rs.junk _ _ (by simp [junkN])
    have hlt : st.store.size < sN.store.size := by
      rcases Nat.lt_or_ge st.store.size sN.store.size with h | h
      · exact h
      · rw [Array.getElem?_eq_none h] at hcell; cases hcell
    simp only [nativeFD, e2, hcell, if_pos hlt]
    refine ⟨⟨rv, (stRel_toW rs.toStRel []).set_off _ _ hoff⟩, ?_⟩
    intro vN' sN' h
    cases h
    simp [hlt]

end Marwood.Spec.Eval.Derived
