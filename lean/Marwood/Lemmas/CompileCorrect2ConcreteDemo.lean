import Marwood.Lemmas.CompileCorrect2ConcreteAll
import Marwood.Lemmas.CompileCorrect2Demo
import Marwood.Lemmas.CompileCorrect2ErrAtoms
import Marwood.Lemmas.CompileCorrect2FailTop
/-!
# T01.3 stage 2 — `((lambda (x) (if x 1 2)) #t)` on the CONCRETE heap model

The heap is a `CHeap` of one chunk of four cells: the code object of `(lambda (x) (if x 1 2))` at cell 0, a code
object `ENTER; <the compiled program>; RET` at cell 1 (both pass the bytecode verifier, as `CInv` demands), two
free cells. CLOSURE takes the two free cells (environment, closure), ENTER grows the heap for the activation
environment — all through the allocator of `Vm/ConcreteHeap.lean`, with `Laws2` proved (`concrete_laws2`; no
primitive is bound, so the `call` hypothesis is vacuous). Every hypothesis of `compileExpr_correct2_nontail` is
discharged: the run exists and ends with a representation of `1`.
-/
namespace Marwood.Lemmas.CompileCorrect2.Conc
open Marwood Marwood.Vm Marwood.Vm.Concrete Marwood.Vm.Verify Marwood.Lemmas.CompileCorrect
open Marwood.Lemmas.CompileCorrect2 Marwood.Lemmas.CompileCorrect2.Toy
open Marwood.Spec.Eval (Val Cell evalN)

def cLam0 : CLambda := ⟨demoCells0, [.opaque "yx"], [(.opaque "yx", .arg 0)]⟩
def cLamTop : CLambda := ⟨[.opcode .enter] ++ demoCells1 ++ [.opcode .ret], [], []⟩

def cdHeap : CHeap :=
  { chunk := 4, cells := #[.lambda cLam0, .lambda cLamTop, .val .undefined, .val .undefined]
    gc := #[.allocated, .allocated, .free, .free], free := [2, 3], symtab := [], globSyms := [], globals := #[] }

def cdState : MSt CHeap :=
  { heap := cdHeap, stack := ⟨List.replicate 8 .undefined, 0⟩, acc := .undefined, ep := 0, ipL := 1, ipO := 1, bp := 0 }

abbrev cdD (ext : ExtOps) : RepData2 (concreteOps ext) :=
  cD ext demoEnc (fun _ => False) (fun _ => 0) id [demoLam] (fun _ => False)

theorem cd_compile : compileExpr 20 {} c0 1 false progE = .ok ({ lambdas := [demoLam] }, progCode) :=
  okIs_eq (by decide +kernel)

theorem cd_cells {l : Nat} {c : CCell} (h : cdHeap.cells[l]? = some c) :
    (l = 0 ∧ c = .lambda cLam0) ∨ (l = 1 ∧ c = .lambda cLamTop) ∨ ((l = 2 ∨ l = 3) ∧ c = .val .undefined) := by
  match l, h with
  | 0, h => left; exact ⟨rfl, by injection h with e; exact e.symm⟩
  | 1, h => right; left; exact ⟨rfl, by injection h with e; exact e.symm⟩
  | 2, h => right; right; exact ⟨.inl rfl, by injection h with e; exact e.symm⟩
  | 3, h => right; right; exact ⟨.inr rfl, by injection h with e; exact e.symm⟩
  | n + 4, h => simp [cdHeap] at h

theorem cd_ver0 : (verifyLam cLam0.bc).isSome = true := by decide +kernel
theorem cd_ver1 : (verifyLam cLamTop.bc).isSome = true := by decide +kernel

theorem cd_inv : CInv cdHeap where
  sizes := rfl
  shape := ⟨by decide, by decide, 1, by decide, rfl⟩
  noUsed := by
    intro i
    match i with
    | 0 => intro h; cases h
    | 1 => intro h; cases h
    | 2 => intro h; cases h
    | 3 => intro h; cases h
    | n + 4 => intro h; simp [cdHeap] at h
  lamFree := by
    intro l lam hl
    rcases cd_cells hl with ⟨rfl, _⟩ | ⟨rfl, _⟩ | ⟨_, hc⟩
    · decide
    · decide
    · cases hc
  lamVer := by
    intro l lam hl
    rcases cd_cells hl with ⟨_, hc⟩ | ⟨_, hc⟩ | ⟨_, hc⟩
    · cases hc; exact cd_ver0
    · cases hc; exact cd_ver1
    · cases hc
  noIofArg := by
    intro l lam hl x hx n
    rcases cd_cells hl with ⟨_, hc⟩ | ⟨_, hc⟩ | ⟨_, hc⟩
    · cases hc
      have : x = (VCell.opaque "yx", Concrete.Source.arg 0) := by simpa [cLam0] using hx
      subst this
      intro e; cases e
    · cases hc; simp [cLamTop] at hx
    · cases hc
  lamArgs := by
    intro l lam hl
    rcases cd_cells hl with ⟨_, hc⟩ | ⟨_, hc⟩ | ⟨_, hc⟩
    · cases hc; decide
    · cases hc; decide
    · cases hc
  cont := by
    intro p c hc
    rcases cd_cells hc with ⟨_, h⟩ | ⟨_, h⟩ | ⟨_, h⟩ <;> cases h

theorem cd_free : FreeInv cdHeap where
  undef := by
    intro p hp
    have : p = 2 ∨ p = 3 := by simpa [cdHeap] using hp
    rcases this with rfl | rfl <;> rfl
  nodup := by decide

theorem cd_code0 (ext : ExtOps) (S : Array Cell) : CodeAt2 (cdD ext) lamCtx.envmap cdHeap S 0 0 demoLam.bc := by
  refine CodeAt2.ofAll2 demoCells0 rfl (fun i _ => by rw [Nat.zero_add]; rfl) ?_
  have hslot : Loads2 (cdD ext) lamCtx.envmap cdHeap S (.envSlot kx) (.lexEnvSlot 0) := ⟨0, by decide, rfl⟩
  have n1 : Loads2 (cdD ext) lamCtx.envmap cdHeap S (.datum (.num (.fix 1))) (.opaque "n1") :=
    ⟨(by intro o e; cases e), .atom (w := .int 1) rfl (.base ⟨.opaque "n1", by decide, .inl rfl⟩)⟩
  have n2 : Loads2 (cdD ext) lamCtx.envmap cdHeap S (.datum (.num (.fix 2))) (.opaque "n2") :=
    ⟨(by intro o e; cases e), .atom (w := .int 2) rfl (.base ⟨.opaque "n2", by decide, .inl rfl⟩)⟩
  exact .cons rfl (.cons rfl (.cons hslot (.cons rfl (.cons rfl (.cons rfl (.cons rfl
    (.cons n1 (.cons rfl (.cons rfl (.cons rfl (.cons rfl (.cons n2 (.cons rfl (.cons rfl .nil))))))))))))))

theorem cd_code1 (ext : ExtOps) (S : Array Cell) : CodeAt2 (cdD ext) c0.envmap cdHeap S 1 1 progCode := by
  refine CodeAt2.ofAll2 demoCells1 rfl (fun i _ => by
    show (cLamTop.bc)[1 + i]? = demoCells1[i]?
    show ([VCell.opcode .enter] ++ demoCells1 ++ [VCell.opcode .ret])[1 + i]? = demoCells1[i]?
    rw [List.append_assoc, List.getElem?_append_right (by simp)]
    simp only [List.length_cons, List.length_nil, Nat.zero_add, Nat.add_sub_cancel_left]
    rename_i hi
    rw [List.getElem?_append_left hi]) ?_
  have hb : Loads2 (cdD ext) c0.envmap cdHeap S (.datum (.bool true)) (.bool true) :=
    ⟨(by intro o e; cases e), .atom (w := .bool true) rfl (.base ⟨.bool true, rfl, .inl rfl⟩)⟩
  have hlam : Loads2 (cdD ext) c0.envmap cdHeap S (.lambda 0) (.ptr 0) := by
    refine ⟨rfl, fun lamM hl => ?_⟩
    have : lamM = demoLam := by
      have h0 : ([demoLam] : List LambdaM)[0]? = some demoLam := rfl
      have hl' : ([demoLam] : List LambdaM)[0]? = some lamM := hl
      rw [h0] at hl'; injection hl' with e; exact e.symm
    subst this
    exact ⟨rfl, rfl⟩
  exact .cons rfl (.cons hb (.cons rfl (.cons rfl (.cons rfl (.cons rfl (.cons rfl (.cons hlam (.cons rfl
    (.cons rfl (.cons rfl .nil))))))))))

theorem cd_inv2 (ext : ExtOps) : Inv2 (cdD ext) W0 cdHeap demoSt := by
  refine ⟨(by intro x w h; cases h), (by intro x h; cases h), ⟨cd_inv, cd_free, by intro x h; cases h⟩,
    (by intro x h; cases h), ?_, (by intro e n l l' h; cases h), (by intro e n e' n' l h; cases h),
    (by intro e n l h; cases h)⟩
  intro id lamM hid
  have hid' : ([demoLam] : List LambdaM)[id]? = some lamM := hid
  cases id with
  | zero =>
    have h0 : ([demoLam] : List LambdaM)[0]? = some demoLam := rfl
    rw [h0] at hid'; injection hid' with e; subst e
    exact ⟨cd_code0 ext _, rfl⟩
  | succ k => simp at hid'

theorem cd_laws (ext : ExtOps) : Laws2 (cdD ext) :=
  concrete_laws2 (by intro a b h; cases h) (by
    intro n W h σ vf p vs ws w σ' _ hvf
    cases hvf with
    | base hb =>
      obtain ⟨c, hc, _⟩ := hb
      simp [AtomEnc.cell, demoEnc] at hc)

/-- **Stage 2 on the concrete heap model**: the run of `((lambda (x) (if x 1 2)) #t)` exists — CLOSURE and ENTER
    allocate through the free list and the chunk growth of the real allocator — and ends with a representation
    of `1` in `acc`, for every choice of the unmodelled operations `ext`. -/
theorem demo_concrete_closure_runs (ext : ExtOps) :
    ∃ W' s', Run2 (cdD ext) W' cdState 11 demoSt demoSt' (.int 1) s' := by
  obtain ⟨W', s', _, r⟩ := compileExpr_correct2_nontail (cd_laws ext) 20 {} c0 1 progE _ progCode [] demo_frag
    ctxOK_top cd_compile (List.prefix_refl _) 6 demoSt (.int 1) demoSt' demo_eval W0 cdState (cd_code1 ext _) rfl
    (cd_inv2 ext) (envRep_top _ _ _) (by show 0 < 8; omega)
  exact ⟨W', s', r⟩

end Marwood.Lemmas.CompileCorrect2.Conc

namespace Marwood.Lemmas.CompileCorrect2.Conc
open Marwood Marwood.Vm Marwood.Vm.Concrete Marwood.Lemmas.CompileCorrect Marwood.Lemmas.CompileCorrect2
open Marwood.Spec.Eval (Val Cell evalN)

variable {ext : ExtOps} {E : AtomEnc} {named : Text → Prop} {slot : Text → Nat} {LM : Nat → Nat}
  {final : List LambdaM} {setG : Text → Prop}

theorem callee_nonproc_imm (h : CHeap) (c : VCell) (hc : nonProcCell c) : Concrete.callee h c = .other := by
  cases c <;> first | rfl | exact absurd hc (by simp [nonProcCell])

theorem callee_nonproc_ptr (h : CHeap) (p : Nat) (hnp : nonProcCell (Concrete.getAt h p)) :
    Concrete.callee h (.ptr p) = .other := by
  unfold Concrete.getAt at hnp
  show (match h.cells[p]? with | some c => calleeOfCell c | none => Callee.other) = _
  cases hc : h.cells[p]? with
  | none => rfl
  | some c =>
    simp only [hc] at hnp
    cases c with
    | val v => cases v <;> first | rfl | exact absurd hnp (by simp [nonProcCell, Concrete.repr])
    | lexEnv s => rfl
    | vector s => rfl
    | lambda s => exact absurd hnp (by simp [nonProcCell, Concrete.repr])
    | cont s => exact absurd hnp (by simp [nonProcCell, Concrete.repr])

/-- **`ErrLaws2` on the concrete heap model**: the dispatch part is a theorem, the failing builtins are the
    hypothesis. -/
theorem concrete_errLaws2
    (hcall : ∀ n W h (σ : SSt) vf p vs ws c (σ' : SSt), Inv2 (cD ext E named slot LM final setG) W h σ →
      (cD ext E named slot LM final setG).VR h σ.store vf (.prim p) →
      All2 (VR2 (cD ext E named slot LM final setG) W h σ.store) vs ws → (evalN n).apply (.prim p) ws σ = .err c σ' →
      c ≠ .syntax →
      ∃ id e', (concreteOps ext).callee h vf = .builtin id ∧ (concreteOps ext).builtinKind h id = .generic ∧
        builtinResult (concreteOps ext) h id vs.reverse = .err e' ∧ machClass e' = specClass c ∧
        Inv2 (cD ext E named slot LM final setG) W h σ' ∧
        Ext2 (cD ext E named slot LM final setG) h σ.store h σ'.store) :
    ErrLaws2 (cD ext E named slot LM final setG) where
  call_err := hcall
  callee_other := by
    intro h S v w hv hp
    cases hv with
    | base hb =>
      obtain ⟨c, hc, hv⟩ := hb
      have hnp := cell_nonProc hc hp
      rcases hv with rfl | ⟨q, rfl, hg⟩
      · exact callee_nonproc_imm h _ hnp
      · exact callee_nonproc_ptr h q (by rw [show Concrete.getAt h q = c from hg]; exact hnp)
    | pair hs hd _ _ =>
      have hd' : Concrete.deref h v = .pair _ _ := hd
      cases v with
      | ptr q =>
        have hg : Concrete.getAt h q = .pair _ _ := hd'
        show (match h.cells[q]? with | some c => calleeOfCell c | none => Callee.other) = _
        unfold Concrete.getAt at hg
        cases hc : h.cells[q]? with
        | none => rfl
        | some cell =>
          rw [hc] at hg
          cases cell with
          | val u => simp only [Concrete.repr] at hg; subst hg; rfl
          | lexEnv s => rfl
          | vector s => rfl
          | lambda s => cases hg
          | cont s => cases hg
      | pair a b => rfl
      | _ => cases hd'
    | vec hs hv' _ => cases hv'

end Marwood.Lemmas.CompileCorrect2.Conc
