import Marwood.Lemmas.EnvRefineStep
/-!
# T02.4, part 7: the induction step for expressions and procedure application; the induction
-/
namespace Marwood.Vm.EnvRefine
open Marwood Marwood.Scope Marwood.Vm.Env Marwood.Spec.Scope

/-- CALL + ENTER of a closure in the model, once the arguments are accepted and the environment built -/
theorem exec_apply_clo (g' : Nat) (ps : List Name) (rst : Option Name) (ds : Defs) (body : Exprs) (ctx : LamCtx)
    (cenv : Nat) (vs' margs : List MVal) (t : MSt) (h1 : Envs MVal) (a : Nat)
    (hm : Vm.EnvRun.frameArgs ps rst vs' = .ok margs)
    (hb : buildLexicalEnvironment t.envs cenv margs ctx.envmap = .ok (h1, a)) :
    exec (Vm.EnvRun.apply (g' + 1) (.clo ps rst ds body ctx cenv) vs') t =
      exec (Vm.EnvRun.evalDefs g' ctx (some a) ds >>= fun _ => Vm.EnvRun.evalBody g' ctx (some a) body)
        { t with envs := h1 } := by
  simp only [Vm.EnvRun.apply, hm, exec_bind, exec_pure, exec_get, hb, exec_liftFault_ok, exec_modify]

section step
variable {f : Nat} (ih : Sims f)
include ih

theorem step_apply : ∀ g, 2 * (f + 1) ≤ g → ∀ (β : LocMap) (s : SSt) (t : MSt) (fv : SVal) (fv' : MVal)
    (vs : List SVal) (vs' : List MVal), StRel β s t → VRel β t.envs fv fv' → Forall2 (VRel β t.envs) vs vs' →
    Post β t QV (exec (Spec.Scope.apply (f + 1) fv vs) s) (exec (Vm.EnvRun.apply g fv' vs') t) := by
  intro g hg β s t fv fv' vs vs' r hfv hvs
  obtain ⟨g', rfl⟩ : ∃ g', g = g' + 1 := ⟨g - 1, by omega⟩
  cases hfv with
  | int n => simp only [Spec.Scope.apply, Vm.EnvRun.apply, exec_throw]; exact Post.err β (Ext.refl _ _) r
  | nil => simp only [Spec.Scope.apply, Vm.EnvRun.apply, exec_throw]; exact Post.err β (Ext.refl _ _) r
  | void => simp only [Spec.Scope.apply, Vm.EnvRun.apply, exec_throw]; exact Post.err β (Ext.refl _ _) r
  | pair _ _ => simp only [Spec.Scope.apply, Vm.EnvRun.apply, exec_throw]; exact Post.err β (Ext.refl _ _) r
  | @clo ps rst ds body ctx cenv ρ hc =>
    obtain ⟨octx, sugar, acts, carr, rfl, hf⟩ := hc
    simp only [Spec.Scope.apply, Vm.EnvRun.apply]
    have hbp := exec_bindParams ps rst vs s
    have hfa := frameArgs_rel ps rst hvs
    cases hp : paramVals ps rst vs with
    | none =>
      rw [hp] at hbp hfa
      obtain ⟨extra, he⟩ := hbp
      rw [exec_bind_err _ _ _ _ _ he, hfa]
      simp only [exec_bind, exec_throw]
      exact Post.err β (Ext.refl _ _) (r.orphans _)
    | some vals =>
      rw [hp] at hbp hfa
      obtain ⟨margs, hm, hrel⟩ := hfa
      simp only at hbp
      rw [exec_bind_ok _ _ _ _ _ hbp, exec_bind_ok _ _ _ _ _ (exec_allocDefs ds _)]
      have hlen : margs.length = (ps ++ rst.toList).length :=
        hrel.length_eq.symm.trans (paramVals_length ps rst vs vals hp)
      obtain ⟨arr, β', hb, ext, r2, a2⟩ := sim_enter r sugar ps rst ds body hf vals margs hrel hlen
      rw [← Vm.EnvRun.apply, exec_apply_clo g' ps rst ds body _ cenv vs' margs t _ _ hm hb]
      refine Post.weaken (β := β') (t := { t with envs := (t.envs.push arr).1 }) ext ?_
      have hsz : (s.store ++ vals.toArray).size = s.store.size + vals.length := by simp
      rw [hsz]
      apply Post.bind _ _ _ _ (ih.evalDefs g' (by omega) β' _ _ (needOf sugar ps rst ds body) _ _ _ _ ds r2 a2
        (fun x hx => needOf_of_raw _ _ _ _ _ x (List.mem_append_left _ hx))
        (fun x hx => Or.inr (Or.inr hx)))
      intro β3 s3 t3 _ _ e3 r3 _
      exact ih.evalBody g' (by omega) β3 s3 t3 (needOf sugar ps rst ds body) _ _ _ _ body r3 (a2.mono e3)
        (fun x hx => needOf_of_raw _ _ _ _ _ x (List.mem_append_right _ hx))

theorem step_loopGo : ∀ g, 2 * (f + 1) ≤ g → ∀ (β : LocMap) (s : SSt) (t : MSt) (fv : SVal) (fv' : MVal) (n : Nat),
    StRel β s t → VRel β t.envs fv fv' →
    Post β t QV (exec (Spec.Scope.loopGo (f + 1) fv n) s) (exec (Vm.EnvRun.loopGo g fv' n) t) := by
  intro g hg β s t fv fv' n r hfv
  obtain ⟨g', rfl⟩ : ∃ g', g = g' + 1 := ⟨g - 1, by omega⟩
  cases n with
  | zero =>
    simp only [Spec.Scope.loopGo, Vm.EnvRun.loopGo, exec_pure]
    exact Post.ok β (Ext.refl _ _) r .nil
  | succ n =>
    simp only [Spec.Scope.loopGo, Vm.EnvRun.loopGo]
    apply Post.bind _ _ _ _ (post_tick r)
    intro β1 s1 t1 tv tv' e1 r1 htv
    apply Post.bind _ _ _ _ (ih.apply g' (by omega) β1 s1 t1 fv fv' [tv] [tv'] r1 (hfv.mono e1) (.cons htv .nil))
    intro β2 s2 t2 v v' e2 r2 hv
    apply Post.bind _ _ _ _ (ih.loopGo g' (by omega) β2 s2 t2 fv fv' n r2 (hfv.mono (e1.trans e2)))
    intro β3 s3 t3 rest rest' e3 r3 hrest
    simp only [exec_pure]
    exact Post.ok β3 (Ext.refl _ _) r3 (.pair (hv.mono e3) hrest)

theorem step_eachGo : ∀ g, 2 * (f + 1) ≤ g → ∀ (β : LocMap) (s : SSt) (t : MSt) (lv : SVal) (lv' : MVal)
    (vs : List SVal) (vs' : List MVal), StRel β s t → VRel β t.envs lv lv' → Forall2 (VRel β t.envs) vs vs' →
    Post β t QV (exec (Spec.Scope.eachGo (f + 1) lv vs) s) (exec (Vm.EnvRun.eachGo g lv' vs') t) := by
  intro g hg β s t lv lv' vs vs' r hlv hvs
  obtain ⟨g', rfl⟩ : ∃ g', g = g' + 1 := ⟨g - 1, by omega⟩
  cases hlv with
  | int n => simp only [Spec.Scope.eachGo, Vm.EnvRun.eachGo, exec_throw]; exact Post.err β (Ext.refl _ _) r
  | void => simp only [Spec.Scope.eachGo, Vm.EnvRun.eachGo, exec_throw]; exact Post.err β (Ext.refl _ _) r
  | clo _ => simp only [Spec.Scope.eachGo, Vm.EnvRun.eachGo, exec_throw]; exact Post.err β (Ext.refl _ _) r
  | nil =>
    simp only [Spec.Scope.eachGo, Vm.EnvRun.eachGo, exec_pure]
    exact Post.ok β (Ext.refl _ _) r .nil
  | pair hc hrest =>
    simp only [Spec.Scope.eachGo, Vm.EnvRun.eachGo]
    apply Post.bind _ _ _ _ (ih.apply g' (by omega) β s t _ _ vs vs' r hc hvs)
    intro β1 s1 t1 v v' e1 r1 hv
    apply Post.bind _ _ _ _ (ih.eachGo g' (by omega) β1 s1 t1 _ _ vs vs' r1 (hrest.mono e1) (hvs.mono' e1))
    intro β2 s2 t2 rs rs' e2 r2 hrs
    simp only [exec_pure]
    exact Post.ok β2 (Ext.refl _ _) r2 (.pair (hv.mono e2) hrs)

theorem step_eval : ∀ g, 2 * (f + 1) ≤ g → ∀ (β : LocMap) (s : SSt) (t : MSt) (N : Name → Prop) (ctx : LamCtx)
    (ep : Option Nat) (ρ : Chain) (acts : List Nat) (e : Expr), StRel β s t → ActRel β t.envs N ctx ep ρ acts →
    (∀ x ∈ fv e, N x) →
    Post β t QV (exec (Spec.Scope.eval (f + 1) ρ e) s) (exec (Vm.EnvRun.eval g ctx ep e) t) := by
  intro g hg β s t N ctx ep ρ acts e r a hfv
  obtain ⟨g', rfl⟩ : ∃ g', g = g' + 1 := ⟨g - 1, by omega⟩
  cases e with
  | fresh =>
    simp only [Spec.Scope.eval, Vm.EnvRun.eval]
    exact post_tick r
  | ref site x =>
    have hNx : N x := hfv x (by simp [fv])
    simp only [Spec.Scope.eval, Vm.EnvRun.eval]
    rcases exec_locOf_cases x ρ s with ⟨l, hl, hloc⟩ | hl
    · rw [exec_bind_ok _ _ _ _ _ hl]
      rcases exec_readLoc_cases l s with ⟨sv, hs, hne, hrd⟩ | hrd
      · rw [exec_bind_ok _ _ _ _ _ hrd]
        obtain ⟨mv, hmv, hrel⟩ := sim_read r a x hNx l sv hloc hs hne
        rw [exec_bind_ok _ _ _ _ _ hmv]
        simp only [exec_bind, exec_logEvent, exec_modify, exec_pure]
        exact Post.ok β (Ext.refl _ _) (r.logCons ⟨site, l, sv, false⟩ mv hrel) hrel
      · rw [exec_bind_err _ _ _ _ _ hrd]; exact Post.unbound
    · rw [exec_bind_err _ _ _ _ _ hl]; exact Post.unbound
  | set site x e =>
    have hNx : N x := hfv x (by simp [fv])
    simp only [Spec.Scope.eval, Vm.EnvRun.eval]
    apply Post.bind _ _ _ _ (ih.eval g' (by omega) β s t N ctx ep ρ acts e r a
      (fun y hy => hfv y (by simp [fv, hy])))
    intro β1 s1 t1 v v' e1 r1 hv
    rcases exec_locOf_cases x ρ s1 with ⟨l, hl, hloc⟩ | hl
    · rw [exec_bind_ok _ _ _ _ _ hl]
      have r2 := r1.logCons ⟨site, l, v, true⟩ v' hv
      obtain ⟨t3, hw, e3, r3⟩ := sim_write r2 (a.mono e1) x hNx l v v' hloc hv
      simp only [exec_bind, exec_logEvent, exec_writeLoc, exec_modify, exec_pure, hw]
      exact Post.ok β1 e3 r3 .void
    · rw [exec_bind_err _ _ _ _ _ hl]; exact Post.unbound
  | lam ps rst ds body =>
    simp only [Spec.Scope.eval, Vm.EnvRun.eval, exec_pure]
    obtain ⟨cenv, t1, carr, hmk, e1, r1, hc⟩ := sim_mkClosure r a false ps rst ds body (by
      intro y hy
      apply hfv y
      simpa [fvLam, mem_dedup, fv] using hy)
    rw [hmk]
    exact Post.ok β e1 r1 (.clo ⟨ctx, false, acts, carr, rfl, hc⟩)
  | call fn args =>
    simp only [Spec.Scope.eval, Vm.EnvRun.eval]
    apply Post.bind _ _ _ _ (ih.evalList g' (by omega) β s t N ctx ep ρ acts args r a
      (fun y hy => hfv y (by simp [fv, hy])))
    intro β1 s1 t1 vs vs' e1 r1 hvs
    apply Post.bind _ _ _ _ (ih.eval g' (by omega) β1 s1 t1 N ctx ep ρ acts fn r1 (a.mono e1)
      (fun y hy => hfv y (by simp [fv, hy])))
    intro β2 s2 t2 fv fv' e2 r2 hfv2
    exact ih.apply g' (by omega) β2 s2 t2 fv fv' vs vs' r2 hfv2 (hvs.mono' e2)
  | seq es =>
    simp only [Spec.Scope.eval, Vm.EnvRun.eval]
    cases f with
    | zero => rw [Spec.Scope.evalBody]; exact Post.fuel
    | succ f' =>
      obtain ⟨cenv, t1, carr, hmk, e1, r1, hc⟩ := sim_mkClosure r a false [] none .nil es (by
        intro y hy
        apply hfv y
        simpa [fvLam, mem_dedup, fv, mem_remove, fvDefs] using hy)
      rw [exec_bind_ok _ _ _ _ _ hmk]
      obtain ⟨g2, rfl⟩ : ∃ g2, g' = g2 + 1 := ⟨g' - 1, by omega⟩
      obtain ⟨g3, rfl⟩ : ∃ g3, g2 = g3 + 1 := ⟨g2 - 1, by omega⟩
      obtain ⟨arr, β', hb, ext, r2, a2⟩ := sim_enter r1 false [] none .nil es hc [] [] .nil rfl
      simp only [Vm.EnvRun.apply, Vm.EnvRun.frameArgs, Vm.EnvRun.evalDefs, exec_bind, exec_pure, exec_get, hb,
        exec_liftFault_ok, exec_modify]
      have hs : ({ s with store := s.store ++ ([] : List SVal).toArray ++
          (Defs.nil.names.map fun _ => Val.undef).toArray } : SSt) = s := by
        simp [Defs.names]
      rw [hs] at r2
      have a3 := a2.dropEmpty
      have := ih.evalBody (g3 + 1) (by omega) β' s _ (needOf false [] none .nil es) _ _ ρ acts es r2 a3
        (fun x hx => needOf_of_raw _ _ _ _ _ x (by simpa [fvDefs] using hx))
      exact this.weaken (e1.trans ext)
  | loop n fn =>
    simp only [Spec.Scope.eval, Vm.EnvRun.eval]
    apply Post.bind _ _ _ _ (ih.eval g' (by omega) β s t N ctx ep ρ acts fn r a
      (fun y hy => hfv y (by simp [fv, hy])))
    intro β1 s1 t1 fv fv' e1 r1 hfv1
    exact ih.loopGo g' (by omega) β1 s1 t1 fv fv' n r1 hfv1
  | each l args =>
    simp only [Spec.Scope.eval, Vm.EnvRun.eval]
    apply Post.bind _ _ _ _ (ih.eval g' (by omega) β s t N ctx ep ρ acts l r a
      (fun y hy => hfv y (by simp [fv, hy])))
    intro β1 s1 t1 lv lv' e1 r1 hlv
    apply Post.bind _ _ _ _ (ih.evalList g' (by omega) β1 s1 t1 N ctx ep ρ acts args r1 (a.mono e1)
      (fun y hy => hfv y (by simp [fv, hy])))
    intro β2 s2 t2 vs vs' e2 r2 hvs
    exact ih.eachGo g' (by omega) β2 s2 t2 lv lv' vs vs' r2 (hlv.mono e2) hvs

end step

/-- **The simulation**, for every specification fuel. -/
theorem sims : ∀ f, Sims f
  | 0 => sims_zero
  | f + 1 =>
    have ih := sims f
    ⟨step_eval ih, step_evalList ih, step_evalBody ih, step_evalDefs ih, step_apply ih,
     step_loopGo ih, step_eachGo ih⟩

end Marwood.Vm.EnvRefine
