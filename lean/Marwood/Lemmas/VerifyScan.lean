import Marwood.Vm.Verify
/-!
# The forward pass of the bytecode verifier, one instruction at a time

`scanOne` (Vm/Verify.lean) is a single large function. This file splits off what one instruction does to
the abstract stack (`instrEffect`: the state recorded, the width of the instruction, the stack that falls
through, the pending jump edges, the height) and proves `scanOne` equal to "join the incoming stacks,
then `instrEffect`, then `Scan.emit`" (`scanOne_eq`). Both `Lemmas/VerifyInfer.lean` (the forward pass
only produces assignments that pass the local check) and `Lemmas/VerifyBlk.lean` (structured code scans)
are written against `instrEffect`.
-/
namespace Marwood.Vm.Verify
open Marwood.Vm

/-- what one instruction does: recorded state, width, fall-through stack, new pending edges, height -/
abbrev Effect := AState × Nat × Option (List ACell) × List (Nat × List ACell) × Nat

def instrEffect (bc : List VCell) (entry : Bool) (o : Nat) (x : List ACell) : Op → Except Reject Effect
  | .jmp =>
    match (bc[o + 1]? : Option VCell) with
    | some (.ptr t) =>
      if t ≤ o then .error ⟨o, "jmp: backward jump"⟩
      else .ok (.body x, 2, none, [(t, x)], x.length)
    | _ => .error ⟨o, "jmp: operand is not an offset"⟩
  | .jnt =>
    match (bc[o + 1]? : Option VCell) with
    | some (.ptr t) =>
      if t ≤ o then .error ⟨o, "jnt: backward jump"⟩
      else .ok (.body x, 2, some x, [(t, x)], x.length)
    | _ => .error ⟨o, "jnt: operand is not an offset"⟩
  | .mov =>
    if !srcOk bc[o + 1]? then .error ⟨o, "mov: source is a heap pointer"⟩
    else if dstOk bc[o + 2]? then .ok (.body x, 3, some x, [], x.length)
    else .error ⟨o, "mov: destination is not acc, a global slot or an environment slot"⟩
  | .movImm =>
    if !immOk bc[o + 1]? then .error ⟨o, "movImm: immediate is not a value"⟩
    else if dstOk bc[o + 2]? then .ok (.body x, 3, some x, [], x.length)
    else .error ⟨o, "mov: destination is not acc, a global slot or an environment slot"⟩
  | .push => .ok (.body x, 2, some (.any :: x), [], x.length + 1)
  | .pushImm =>
    match (bc[o + 1]? : Option VCell) with
    | some v => .ok (.body x, 2, some (cellTy v :: x), [], x.length + 1)
    | none => .error ⟨o, "pushImm: missing operand"⟩
  | .pushAcc => .ok (.body x, 1, some (.val :: x), [], x.length + 1)
  | .halt =>
    if !(entry && x.isEmpty) then .error ⟨o, "halt: outside entry code or with a non-empty stack"⟩
    else if o + 1 = bc.length then .ok (.body x, 1, none, [], x.length)
    else .error ⟨o, "halt: not the last cell of the code"⟩
  | .cons =>
    match x with
    | c1 :: c2 :: r =>
      if c1.isV && c2.isV then .ok (.body x, 1, some r, [], x.length)
      else .error ⟨o, "cons: an operand is not statically a value"⟩
    | _ => .error ⟨o, "cons: fewer than two temporaries"⟩
  | .vpushAcc =>
    match x with
    | _ :: r => .ok (.body x, 1, some r, [], x.length)
    | _ => .error ⟨o, "vpush: no temporary"⟩
  | .closureAcc => .ok (.body x, 1, some x, [], x.length)
  | .callAcc =>
    match x with
    | .argc n :: r =>
      if !(r.take n).all ACell.isV then .error ⟨o, "call: an argument is not statically a value"⟩
      else if n ≤ r.length then .ok (.call (r.drop n), 1, some (r.drop n), [], x.length)
      else .error ⟨o, "call: fewer temporaries than the argument count"⟩
    | _ => .error ⟨o, "call: top of stack is not a static argument count"⟩
  | .tcallAcc =>
    match x with
    | .argc n :: r =>
      if entry then .error ⟨o, "tcall: in entry code"⟩
      else if !(r.take n).all ACell.isV then .error ⟨o, "tcall: an argument is not statically a value"⟩
      else if n ≤ r.length then .ok (.call (r.drop n), 1, some (r.drop n), [], x.length)
      else .error ⟨o, "tcall: fewer temporaries than the argument count"⟩
    | _ => .error ⟨o, "tcall: top of stack is not a static argument count"⟩
  | .ret =>
    if entry then .error ⟨o, "ret: in entry code"⟩ else .ok (.body x, 1, none, [], x.length)
  | .enter => .error ⟨o, "enter: outside the prologue"⟩
  | .varArg => .error ⟨o, "vararg: outside the prologue"⟩

/-- the stacks that arrive at the current offset: the fall-through stack and the pending edges -/
def incoming (s : Scan) : List (List ACell) :=
  s.cur.toList ++ (s.pend.filter (·.1 == s.o)).map (·.2)

/-- the scan state after an instruction with effect `e` -/
def applyEffect (s : Scan) (e : Effect) : Scan :=
  ({ s with pend := s.pend.filter (·.1 != s.o) } : Scan).emit e.1 e.2.1 e.2.2.1 e.2.2.2.1 e.2.2.2.2

/-- `scanOne`, restructured -/
def scanOne' (bc : List VCell) (entry : Bool) (s : Scan) : Except Reject Scan :=
  match incoming s with
  | [] => .ok { s with o := s.o + 1, tm := none :: s.tm }
  | x :: others =>
    if others.any (· != x) then .error ⟨s.o, "join: different abstract stacks meet"⟩ else
    match (bc[s.o]? : Option VCell) with
    | some (.opcode op) =>
      if !bpSrcOk entry bc[s.o + 1]? then
        .error ⟨s.o, "bp-relative source operand above the frame base, or in entry code"⟩ else
      (instrEffect bc entry s.o x op).map (applyEffect s)
    | _ => .error ⟨s.o, "not an opcode at a reachable offset"⟩

set_option linter.unusedSimpArgs false in
theorem scanOne_eq (bc : List VCell) (entry : Bool) (s : Scan) : scanOne bc entry s = scanOne' bc entry s := by
  unfold scanOne scanOne' incoming
  simp only []
  generalize s.cur.toList ++ List.map (fun x => x.snd) (List.filter (fun x => x.fst == s.o) s.pend) = inc
  cases inc with
  | nil => rfl
  | cons x others =>
    simp only []
    by_cases hj : (others.any fun x_1 => x_1 != x) = true
    · simp only [hj, ↓reduceIte]
    · simp only [hj, ↓reduceIte]
      cases hb : (bc[s.o]? : Option VCell) with
      | none => rfl
      | some v =>
        cases v with
        | opcode op =>
          simp only []
          by_cases hbp : (!bpSrcOk entry bc[s.o + 1]?) = true
          · simp only [hbp, ↓reduceIte]
          · simp only [hbp, ↓reduceIte]
            cases op
            case jmp | jnt =>
              simp only [instrEffect, applyEffect]
              cases (bc[s.o + 1]? : Option VCell) with
              | none => rfl
              | some v =>
                cases v <;> simp only [] <;> (try rfl)
                rename_i t
                by_cases h : t ≤ s.o <;> simp only [h, ↓reduceIte] <;> rfl
            case pushImm =>
              simp only [instrEffect, applyEffect]
              cases (bc[s.o + 1]? : Option VCell) <;> rfl
            case mov =>
              simp only [instrEffect, applyEffect]
              by_cases h1 : (!srcOk bc[s.o + 1]?) = true <;> simp only [h1, ↓reduceIte]
              · rfl
              · by_cases h2 : dstOk bc[s.o + 2]? = true <;> simp only [h2, ↓reduceIte] <;> rfl
            case movImm =>
              simp only [instrEffect, applyEffect]
              by_cases h1 : (!immOk bc[s.o + 1]?) = true <;> simp only [h1, ↓reduceIte]
              · rfl
              · by_cases h2 : dstOk bc[s.o + 2]? = true <;> simp only [h2, ↓reduceIte] <;> rfl
            case halt =>
              simp only [instrEffect, applyEffect]
              by_cases h1 : (!(entry && x.isEmpty)) = true <;> simp only [h1, ↓reduceIte]
              · rfl
              · by_cases h2 : s.o + 1 = bc.length <;> simp only [h2, ↓reduceIte] <;> rfl
            case ret =>
              simp only [instrEffect, applyEffect]
              cases entry <;> rfl
            case push | pushAcc | closureAcc | enter | varArg => rfl
            case cons =>
              rcases x with _ | ⟨c1, _ | ⟨c2, r⟩⟩ <;> simp only [instrEffect, applyEffect] <;> (try rfl)
              cases (c1.isV && c2.isV) <;> rfl
            case vpushAcc =>
              rcases x with _ | ⟨c1, r⟩ <;> rfl
            case callAcc =>
              rcases x with _ | ⟨c1, r⟩
              · rfl
              · cases c1 <;> simp only [instrEffect, applyEffect] <;> (try rfl)
                rename_i n
                by_cases h1 : (!(List.take n r).all ACell.isV) = true <;> simp only [h1, ↓reduceIte]
                · rfl
                · by_cases h2 : n ≤ r.length <;> simp only [h2, ↓reduceIte] <;> rfl
            case tcallAcc =>
              rcases x with _ | ⟨c1, r⟩
              · rfl
              · cases c1 <;> simp only [instrEffect, applyEffect] <;> (try rfl)
                rename_i n
                cases entry
                · simp only [Bool.false_eq_true, ↓reduceIte]
                  by_cases h1 : (!(List.take n r).all ACell.isV) = true <;> simp only [h1, ↓reduceIte]
                  · rfl
                  · by_cases h2 : n ≤ r.length <;> simp only [h2, ↓reduceIte] <;> rfl
                · rfl
        | _ => rfl

/-! ## every instruction advances the scan -/

theorem instrEffect_width {bc : List VCell} {entry : Bool} {o : Nat} {x : List ACell} {op : Op} {e : Effect}
    (h : instrEffect bc entry o x op = .ok e) : 1 ≤ e.2.1 := by
  cases op <;> simp only [instrEffect] at h <;> (repeat' split at h) <;> cases h <;> simp

theorem applyEffect_o (s : Scan) (e : Effect) : (applyEffect s e).o = s.o + e.2.1 := rfl
theorem applyEffect_cur (s : Scan) (e : Effect) : (applyEffect s e).cur = e.2.2.1 := rfl
theorem applyEffect_pend (s : Scan) (e : Effect) :
    (applyEffect s e).pend = e.2.2.2.1 ++ s.pend.filter (·.1 != s.o) := rfl
theorem applyEffect_tm (s : Scan) (e : Effect) :
    (applyEffect s e).tm = List.replicate (e.2.1 - 1) none ++ some e.1 :: s.tm := rfl

theorem scanOne_o_lt {bc : List VCell} {entry : Bool} {s s' : Scan} (h : scanOne bc entry s = .ok s') :
    s.o < s'.o := by
  rw [scanOne_eq] at h
  unfold scanOne' at h
  split at h
  · cases h; simp
  · split at h
    · cases h
    · split at h
      · split at h
        · cases h
        · cases he : instrEffect bc entry s.o _ _ with
          | error r => rw [he] at h; cases h
          | ok e =>
            rw [he] at h
            cases h
            have := instrEffect_width he
            rw [applyEffect_o]; omega
      · cases h

/-- zero or more steps of the scan, each at an offset inside the code -/
inductive Steps (bc : List VCell) (entry : Bool) : Scan → Scan → Prop
  | refl (s : Scan) : Steps bc entry s s
  | step {s s1 s2 : Scan} : s.o < bc.length → scanOne bc entry s = .ok s1 → Steps bc entry s1 s2 →
      Steps bc entry s s2

theorem Steps.one {bc : List VCell} {entry : Bool} {s s1 : Scan} (h : s.o < bc.length)
    (h1 : scanOne bc entry s = .ok s1) : Steps bc entry s s1 := .step h h1 (.refl _)

theorem Steps.trans {bc : List VCell} {entry : Bool} {a b c : Scan} (h1 : Steps bc entry a b)
    (h2 : Steps bc entry b c) : Steps bc entry a c := by
  induction h1 with
  | refl => exact h2
  | step h hs _ ih => exact .step h hs (ih h2)

/-- `scanAll` follows the steps, as long as the fuel covers the rest of the code -/
theorem scanAll_steps {bc : List VCell} {entry : Bool} {s s' : Scan} (h : Steps bc entry s s') :
    ∀ fuel, bc.length < fuel + s.o →
      ∃ fuel', bc.length < fuel' + s'.o ∧ scanAll bc entry fuel s = scanAll bc entry fuel' s' := by
  induction h with
  | refl s => intro fuel hf; exact ⟨fuel, hf, rfl⟩
  | step hlt hs _ ih =>
    rename_i s s1 s2
    intro fuel hf
    cases fuel with
    | zero => omega
    | succ f =>
      have hlt1 := scanOne_o_lt hs
      obtain ⟨f', hf', he⟩ := ih f (by omega)
      refine ⟨f', hf', ?_⟩
      rw [← he]
      simp only [scanAll]
      rw [if_neg (by omega), hs]

theorem scanAll_done {bc : List VCell} {entry : Bool} {s : Scan} (h : bc.length ≤ s.o) (fuel : Nat) :
    scanAll bc entry fuel s = .ok s := by
  cases fuel with
  | zero => rfl
  | succ f => simp only [scanAll]; rw [if_pos h]

end Marwood.Vm.Verify
