import Marwood.Lemmas.EvalFramePrims
/-!
# T01.1 — the evaluator at every fuel respects the frame; sessions
-/
namespace Marwood.Spec.Eval
open Marwood

variable {x : Text} {r : Rec}

theorem resp_evalTopForm (hr : RecOK x r) (d : Datum) (hd : Clean x d) :
    Resp x (evalTopForm r d) (CleanVal x) := by
  unfold evalTopForm
  split
  · refine Resp.bind (resp_defineValue hr [] d hd) (fun p hp => ?_)
    refine Resp.bind (resp_putGlobal p.1 p.2 hp.1 hp.2) (fun _ _ => ?_)
    exact Resp.pure _ (by simp [CleanVal])
  · exact hr.eval d [] hd

theorem resp_evalTopForms (hr : RecOK x r) : ∀ (ds : List Datum), CleanData x ds →
    Resp x (evalTopForms r ds) (CleanVal x)
  | [], _ => Resp.throw _
  | [d], h => by
    simp only [cleanData_cons] at h
    simpa [evalTopForms] using resp_evalTopForm hr d h.1
  | d :: d' :: ds, h => by
    simp only [cleanData_cons] at h
    simp only [evalTopForms]
    refine Resp.bind (resp_evalTopForm hr d h.1) (fun _ _ => ?_)
    exact resp_evalTopForms hr (d' :: ds) (by simp [h.2])

theorem resp_evalTop (hr : RecOK x r) (d : Datum) (hd : Clean x d) :
    Resp x (evalTop r d) (CleanVal x) := by
  unfold evalTop
  split
  · rename_i k rest
    split
    · split
      · rename_i forms hp
        simp only [clean_pair] at hd
        exact resp_evalTopForms hr forms (cleanData_properList rest _ hp hd.2)
      · exact Resp.throw _
    · exact resp_evalTopForm hr _ hd
  · exact resp_evalTopForm hr _ hd

theorem resp_application (hr : RecOK x r) (f rest : Datum) (ρ : Env) (hf : Clean x f) (hrest : Clean x rest) :
    Resp x (match properList rest with
      | some es => do
        let vs ← evalArgs r ρ es
        let fv ← r.eval f ρ
        r.apply fv vs
      | none => throw .syntax) (CleanVal x) := by
  split
  · rename_i es hp
    refine Resp.bind (resp_evalArgs hr ρ es (cleanData_properList rest _ hp hrest)) (fun vs hvs => ?_)
    refine Resp.bind (hr.eval f ρ hf) (fun fv hfv => ?_)
    exact hr.apply fv vs hfv hvs
  · exact Resp.throw _

theorem resp_evalStep (hr : RecOK x r) (e : Datum) (ρ : Env) (he : Clean x e) :
    Resp x (evalStep r e ρ) (CleanVal x) := by
  cases e with
  | sym s => simpa [evalStep] using resp_evalVar s ρ ((clean_sym s).1 he)
  | pair f rest =>
    simp only [clean_pair] at he
    cases f with
    | sym s =>
      simp only [evalStep]
      cases hk : kwOf s with
      | some k => exact resp_evalKw hr ρ k rest he.2
      | none => exact resp_application hr _ rest ρ he.1 he.2
    | _ =>
      simp only [evalStep]
      exact resp_application hr _ rest ρ he.1 he.2
  | nil => exact Resp.throw _
  | procedure _ => exact Resp.throw _
  | macro_ => exact Resp.throw _
  | continuation => exact Resp.throw _
  | void => exact Resp.throw _
  | undefined => exact Resp.throw _
  | bool b => simpa [evalStep] using resp_quoteVal (x := x) (.bool b) he
  | char c => simpa [evalStep] using resp_quoteVal (x := x) (.char c) he
  | num n => simpa [evalStep] using resp_quoteVal (x := x) (.num n) he
  | str t => simpa [evalStep] using resp_quoteVal (x := x) (.str t) he
  | vec v => simpa [evalStep] using resp_quoteVal (x := x) (.vec v) he

theorem resp_applyStep (hr : RecOK x r) (f : Val) (args : List Val) (hf : CleanVal x f)
    (ha : CleanVals x args) : Resp x (applyStep r f args) (CleanVal x) := by
  unfold applyStep
  split
  · rename_i ps rest body ρ
    refine Resp.bind (resp_bindArgs ps rest args ρ ha) (fun ρ' _ => ?_)
    exact resp_evalBody hr ρ' body hf
  · split
    · rename_i g a as
      simp only [cleanVals_cons] at ha
      refine Resp.bind (resp_getList _) (fun xs hxs => ?_)
      refine hr.apply g _ ha.1 (cleanVals_append (cleanVals_dropLast (by simp [ha.2.1, ha.2.2])) hxs)
    · exact Resp.throw _
  · split
    · rename_i v
      simp only [cleanVals_cons] at ha
      refine Resp.bind (resp_externalise v ha.1) (fun d hd => ?_)
      exact resp_evalTop hr d hd
    · exact Resp.throw _
  · split
    · rename_i l
      refine Resp.bind (resp_readCell l) (fun c hc => ?_)
      split
      · exact Resp.pure _ hc
      · rename_i thunk
        refine Resp.bind (hr.apply thunk [] hc (by simp)) (fun v hv => ?_)
        refine Resp.bind (resp_readCell l) (fun c' hc' => ?_)
        split
        · exact Resp.pure _ hc'
        · refine Resp.bind (resp_writeCell l _ hv) (fun _ _ => ?_)
          exact Resp.pure _ hv
      · exact Resp.throw _
    · exact Resp.throw _
    · exact Resp.throw _
  · split
    · rename_i g l ls
      simp only [cleanVals_cons] at ha
      refine Resp.bind (resp_getLists _) (fun lists hl => ?_)
      refine Resp.bind resp_getStore (fun st _ => ?_)
      refine Resp.bind (resp_mapApply hr g ha.1 _ (clean_zipArgs _ lists hl)) (fun vs hvs => ?_)
      exact resp_allocList vs hvs
    · exact Resp.throw _
  · split
    · rename_i g l ls
      simp only [cleanVals_cons] at ha
      refine Resp.bind (resp_getLists _) (fun lists hl => ?_)
      refine Resp.bind resp_getStore (fun st _ => ?_)
      refine Resp.bind (resp_mapApply hr g ha.1 _ (clean_zipArgs _ lists hl)) (fun vs hvs => ?_)
      exact Resp.pure _ (by simp [CleanVal])
    · exact Resp.throw _
  · exact resp_applyPrim1 _ args ha
  · exact Resp.throw _

/-- the evaluator with any amount of fuel respects the frame -/
theorem recOK_evalN : ∀ (n : Nat), RecOK x (evalN n)
  | 0 => ⟨fun _ _ _ => Resp.timeout, fun _ _ _ _ => Resp.timeout⟩
  | n+1 => ⟨fun e ρ he => resp_evalStep (recOK_evalN n) e ρ he,
            fun f args hf ha => resp_applyStep (recOK_evalN n) f args hf ha⟩


/-! ## sessions -/

theorem runForm_rel (n : Nat) (d : Datum) (hd : Clean x d) (st st' : St) (hrel : Rel x st st') :
    (runForm n d st).1 = (runForm n d st').1 ∧
    (match (runForm n d st).2, (runForm n d st').2 with
     | some s, some s' => Rel x s s'
     | none, none => True
     | _, _ => False) := by
  have h := resp_evalTop (recOK_evalN (x := x) n) d hd st st' hrel
  unfold runForm
  cases h1 : evalTop (evalN n) d st <;> cases h2 : evalTop (evalN n) d st' <;>
    simp only [h1, h2, RRes] at h
  · obtain ⟨rfl, _, hr⟩ := h
    exact ⟨by simp [hr.2.store], hr⟩
  · obtain ⟨rfl, hr⟩ := h
    exact ⟨rfl, hr⟩
  · exact ⟨rfl, trivial⟩

/-- a session of forms that do not mention `x`, run from related states: same results, and the
    final states (if the fuel sufficed) are related again -/
theorem runSession_rel (n : Nat) : ∀ (h : List Datum), CleanData x h → ∀ (st st' : St), Rel x st st' →
    (runSession n h st).1 = (runSession n h st').1 ∧
    (match (runSession n h st).2, (runSession n h st').2 with
     | some s, some s' => Rel x s s'
     | none, none => True
     | _, _ => False)
  | [], _, st, st', hrel => by simp [runSession, hrel]
  | d :: ds, hc, st, st', hrel => by
    simp only [cleanData_cons] at hc
    have h1 := runForm_rel n d hc.1 st st' hrel
    simp only [runSession]
    cases ha : runForm n d st with
    | mk ra sa =>
      cases hb : runForm n d st' with
      | mk rb sb =>
        simp only [ha, hb] at h1
        obtain ⟨hres, hst⟩ := h1
        subst hres
        cases sa with
        | none =>
          cases sb with
          | none => simp
          | some _ => simp at hst
        | some s =>
          cases sb with
          | none => simp at hst
          | some s' =>
            simp only at hst
            have h2 := runSession_rel n ds hc.2 s s' hst
            simp only
            exact ⟨by rw [h2.1], h2.2⟩

theorem lookup_initGlobals (y : Text) (v : Val) (h : initGlobals.lookup y = some v) : ∃ p, v = .prim p := by
  unfold initGlobals at h
  generalize primTable = t at h
  induction t with
  | nil => simp at h
  | cons kv t ih =>
    obtain ⟨k, p⟩ := kv
    simp only [List.map_cons, List.lookup_cons] at h
    split at h
    · exact ⟨p, by cases h; rfl⟩
    · exact ih h

theorem inv_initSt : Inv x initSt := by
  refine ⟨?_, ?_⟩
  · intro i c h; simp [initSt] at h
  · intro y v _ h
    obtain ⟨p, rfl⟩ := lookup_initGlobals y v h
    trivial

end Marwood.Spec.Eval
