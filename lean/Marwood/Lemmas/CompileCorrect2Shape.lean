import Marwood.Lemmas.CompileCorrect2Defs
/-!
# T01.3 stage 2 — the code `compileExpr` emits for the forms of `F2`, in any binding context
-/
namespace Marwood.Lemmas.CompileCorrect2
open Marwood Marwood.Vm Marwood.Lemmas.CompileCorrect
open Marwood.Spec.Eval (k_quote k_if_ k_setBang k_define k_lambda)

theorem emitLoc_env {c : Ctx} {x : Text} (h : inEnv c x = true) : emitLoc c x = .envSlot x := by
  simp only [emitLoc, Ctx.bindingLocation]
  have : (c.envmap.any fun p => p.1 == x) = true := h
  simp [this]

theorem emitLoc_glob {c : Ctx} {x : Text} (hc : CtxOK c) (h : inEnv c x = false) : emitLoc c x = .global x := by
  simp only [emitLoc, Ctx.bindingLocation]
  have h1 : (c.envmap.any fun p => p.1 == x) = false := h
  have h2 : c.args.findIdx? (· == x) = none := by
    rw [List.findIdx?_eq_none_iff]
    intro y hy
    cases hyx : (y == x) with
    | false => rfl
    | true =>
      have : y = x := by simpa using hyx
      subst this
      have := hc y hy
      rw [h] at this; cases this
  simp [h1, h2]

theorem lambda_tests :
    (Datum.sym k_lambda).isSymStr ['d','e','f','i','n','e'] = false ∧
    (Datum.sym k_lambda).isSymStr ['d','e','f','i','n','e','-','s','y','n','t','a','x'] = false ∧
    (Datum.sym k_lambda).isSymStr ['l','a','m','b','d','a'] = true := by decide

variable {fuel : Nat} {st st' : CState} {c : Ctx} {base : Nat} {tail : Bool} {code : List BC}

theorem compile_const_inv2 {d : Datum}
    (hd : (∃ b, d = .bool b) ∨ (∃ ch, d = .char ch) ∨ (∃ n, d = .num n) ∨ (∃ s, d = .str s))
    (h : compileExpr (fuel + 1) st c base tail d = .ok (st', code)) :
    code = [.op .movImm, .datum d, .acc] ∧ st' = st := by
  rcases hd with ⟨b, rfl⟩ | ⟨ch, rfl⟩ | ⟨n, rfl⟩ | ⟨s, rfl⟩ <;>
    (simp only [compileExpr] at h; cases h; exact ⟨rfl, rfl⟩)

theorem compile_vec_inv2 {e : Datum} (h : compileExpr (fuel + 1) st c base tail (.vec e) = .ok (st', code)) :
    code = [.op .movImm, .datum (.vec e), .acc] ∧ st' = st := by
  simp only [compileExpr] at h; cases h; exact ⟨rfl, rfl⟩

theorem compile_sym_inv2 {s : Text} (h : compileExpr (fuel + 1) st c base tail (.sym s) = .ok (st', code)) :
    code = [.op .mov, emitLoc c s, .acc] ∧ st' = st := by
  simp only [compileExpr] at h
  split at h
  · cases h
  · cases h; exact ⟨rfl, rfl⟩

theorem compile_quote_inv2 {d rest : Datum}
    (h : compileExpr (fuel + 1) st c base tail (.pair (.sym k_quote) (.pair d rest)) = .ok (st', code)) :
    code = [.op .movImm, .datum d, .acc] ∧ st' = st := by
  unfold compileExpr at h
  obtain ⟨t1, t2, t3, t4, t5, t6⟩ := quote_tests
  simp only [t1, t2, t3, t4, t5, t6, Bool.false_eq_true, if_false, if_true, Bool.or_self] at h
  cases h; exact ⟨rfl, rfl⟩

theorem compile_setBang_inv2 {x : Text} {e : Datum}
    (h : compileExpr (fuel + 1) st c base tail
      (.pair (.sym k_setBang) (.pair (.sym x) (.pair e .nil))) = .ok (st', code)) :
    ∃ code1, compileExpr fuel st c base false e = .ok (st', code1) ∧
      code = code1 ++ [.op .mov, .acc, emitLoc c x, .op .movImm, .void, .acc] := by
  unfold compileExpr at h
  obtain ⟨t1, t2, t3, t4, t5, t6, t7, t8⟩ := setBang_tests
  simp only [t1, t2, t3, t4, t5, t6, t7, t8, Bool.false_eq_true, if_false, if_true, Bool.or_self,
    Datum.iter] at h
  split at h
  · cases h
  · cases h1 : compileExpr fuel st c base false e with
    | error err => rw [h1] at h; cases h
    | ok r1 =>
      obtain ⟨st1, code1⟩ := r1
      rw [h1] at h
      simp only [storeCode] at h
      cases h
      exact ⟨code1, rfl, rfl⟩

theorem compile_if2_inv2 {t cn : Datum}
    (h : compileExpr (fuel + 1) st c base tail
      (.pair (.sym k_if_) (.pair t (.pair cn .nil))) = .ok (st', code)) :
    ∃ st1 tcode ccode, compileExpr fuel st c base false t = .ok (st1, tcode) ∧
      compileExpr fuel st1 c (base + tcode.length + 2) tail cn = .ok (st', ccode) ∧
      code = tcode ++ [.op .jnt, .target (base + tcode.length + 2 + ccode.length + 2)] ++ ccode
              ++ [.op .jmp, .target (base + tcode.length + 2 + ccode.length + 2 + 3)]
              ++ [.op .movImm, .void, .acc] := by
  unfold compileExpr at h
  obtain ⟨t1, t2, t3, t4, t5, t6, t7⟩ := if_tests
  simp only [t1, t2, t3, t4, t5, t6, t7, Bool.false_eq_true, if_false, if_true, Bool.or_self,
    Datum.iter, Datum.isNil, Datum.isList, Bool.not_true] at h
  cases h1 : compileExpr fuel st c base false t with
  | error err => rw [h1] at h; cases h
  | ok r1 =>
    obtain ⟨st1, tcode⟩ := r1
    rw [h1] at h
    simp only at h
    cases h2 : compileExpr fuel st1 c (base + tcode.length + 2) tail cn with
    | error err => rw [h2] at h; cases h
    | ok r2 =>
      obtain ⟨st2, ccode⟩ := r2
      rw [h2] at h
      simp only at h
      cases h
      exact ⟨st1, tcode, ccode, rfl, h2, rfl⟩

theorem compile_if3_inv2 {t cn a : Datum}
    (h : compileExpr (fuel + 1) st c base tail
      (.pair (.sym k_if_) (.pair t (.pair cn (.pair a .nil)))) = .ok (st', code)) :
    ∃ st1 st2 tcode ccode acode, compileExpr fuel st c base false t = .ok (st1, tcode) ∧
      compileExpr fuel st1 c (base + tcode.length + 2) tail cn = .ok (st2, ccode) ∧
      compileExpr fuel st2 c (base + tcode.length + 2 + ccode.length + 2) tail a = .ok (st', acode) ∧
      code = tcode ++ [.op .jnt, .target (base + tcode.length + 2 + ccode.length + 2)] ++ ccode
              ++ [.op .jmp, .target (base + tcode.length + 2 + ccode.length + 2 + acode.length)]
              ++ acode := by
  unfold compileExpr at h
  obtain ⟨t1, t2, t3, t4, t5, t6, t7⟩ := if_tests
  simp only [t1, t2, t3, t4, t5, t6, t7, Bool.false_eq_true, if_false, if_true, Bool.or_self,
    Datum.iter, Datum.isNil, Datum.isList, Bool.not_true] at h
  cases h1 : compileExpr fuel st c base false t with
  | error err => rw [h1] at h; cases h
  | ok r1 =>
    obtain ⟨st1, tcode⟩ := r1
    rw [h1] at h
    simp only at h
    cases h2 : compileExpr fuel st1 c (base + tcode.length + 2) tail cn with
    | error err => rw [h2] at h; cases h
    | ok r2 =>
      obtain ⟨st2, ccode⟩ := r2
      rw [h2] at h
      simp only at h
      cases h3 : compileExpr fuel st2 c (base + tcode.length + 2 + ccode.length + 2) tail a with
      | error err => rw [h3] at h; cases h
      | ok r3 =>
        obtain ⟨st3, acode⟩ := r3
        rw [h3] at h
        simp only at h
        cases h
        exact ⟨st1, st2, tcode, ccode, acode, rfl, h2, h3, rfl⟩

theorem compile_app_inv2 {f rest : Datum} (hf : AppHead f)
    (h : compileExpr (fuel + 1) st c base tail (.pair f rest) = .ok (st', code)) :
    ∃ st1 code1 n pcode, compileArgs fuel st c base rest = .ok (st1, code1, n) ∧
      compileExpr fuel st1 c (base + code1.length + 2) false f = .ok (st', pcode) ∧
      code = code1 ++ [.op .pushImm, .argc n] ++ pcode ++ [.op (if tail then .tcallAcc else .callAcc)] := by
  unfold compileExpr at h
  have hn := hf.1
  have k1 := hn ['d','e','f','i','n','e'] (by simp [specialForms])
  have k2 := hn ['d','e','f','i','n','e','-','s','y','n','t','a','x'] (by simp [specialForms])
  have k3 := hn ['l','a','m','b','d','a'] (by simp [specialForms])
  have k4 := hn ['λ'] (by simp [specialForms])
  have k5 := hn ['q','u','a','s','i','q','u','o','t','e'] (by simp [specialForms])
  have k6 := hn ['q','u','o','t','e'] (by simp [specialForms])
  have k7 := hn ['i','f'] (by simp [specialForms])
  have k8 := hn ['s','e','t','!'] (by simp [specialForms])
  simp only [k1, k2, k3, k4, k5, k6, k7, k8, Bool.false_eq_true, if_false, Bool.or_self] at h
  cases h1 : compileArgs fuel st c base rest with
  | error e => simp [h1] at h
  | ok r1 =>
    obtain ⟨st1, code1, n⟩ := r1
    simp only [h1] at h
    cases h2 : compileExpr fuel st1 c (base + code1.length + 2) false f with
    | error e => simp [h2] at h
    | ok r2 =>
      obtain ⟨st2, pcode⟩ := r2
      simp only [h2] at h
      cases h
      exact ⟨st1, code1, n, pcode, rfl, h2, rfl⟩

theorem compileArgs_pair_inv2 {a d : Datum} {n : Nat}
    (h : compileArgs (fuel + 1) st c base (.pair a d) = .ok (st', code, n)) :
    ∃ st1 code1 code2 n2, compileExpr fuel st c base false a = .ok (st1, code1) ∧
      compileArgs fuel st1 c (base + code1.length + 1) d = .ok (st', code2, n2) ∧
      code = code1 ++ [.op .pushAcc] ++ code2 ∧ n = n2 + 1 := by
  simp only [compileArgs] at h
  cases h1 : compileExpr fuel st c base false a with
  | error e => simp [h1] at h
  | ok r1 =>
    obtain ⟨st1, code1⟩ := r1
    simp only [h1] at h
    cases h2 : compileArgs fuel st1 c (base + code1.length + 1) d with
    | error e => simp [h2] at h
    | ok r2 =>
      obtain ⟨st2, code2, n2⟩ := r2
      simp only [h2] at h
      cases h
      exact ⟨st1, code1, code2, n2, rfl, h2, rfl, rfl⟩

theorem compileArgs_nil_inv2 {n : Nat}
    (h : compileArgs (fuel + 1) st c base .nil = .ok (st', code, n)) : code = [] ∧ n = 0 ∧ st' = st := by
  simp only [compileArgs] at h
  cases h
  exact ⟨rfl, rfl, rfl⟩

/-- a body form followed by more -/
theorem compileBody_pair_inv {x rest : Datum}
    (h : compileBody (fuel + 1) st c base (.pair x rest) = .ok (st', code)) :
    ∃ st1 code1 code2, compileExpr fuel st c base rest.isNil x = .ok (st1, code1) ∧
      compileBody fuel st1 c (base + code1.length) rest = .ok (st', code2) ∧ code = code1 ++ code2 := by
  simp only [compileBody] at h
  cases h1 : compileExpr fuel st c base rest.isNil x with
  | error e => simp [h1] at h
  | ok r1 =>
    obtain ⟨st1, code1⟩ := r1
    simp only [h1] at h
    cases h2 : compileBody fuel st1 c (base + code1.length) rest with
    | error e => simp [h2] at h
    | ok r2 =>
      obtain ⟨st2, code2⟩ := r2
      simp only [h2] at h
      cases h
      exact ⟨st1, code1, code2, rfl, h2, rfl⟩

theorem compileBody_nil_inv (h : compileBody (fuel + 1) st c base .nil = .ok (st', code)) :
    code = [] ∧ st' = st := by
  simp only [compileBody] at h
  cases h
  exact ⟨rfl, rfl⟩

/-- what `lambdaParts` returns for a `lambda` form -/
theorem lambdaParts_inv {c : Ctx} {formals body : Datum} {p : LambdaParts}
    (h : lambdaParts fuel c (.pair (.sym k_lambda) (.pair formals body)) false = .ok p) :
    p.body = body ∧ p.ctx.args = p.formals ∧
      p.prologue = (if p.isVararg then [.op .varArg] else []) ++ [.op .enter] := by
  unfold lambdaParts at h
  simp only [Datum.isNil, Bool.false_eq_true, if_false] at h
  split at h
  · cases h
  · rename_i fa hfa
    split at h
    · cases h
    · split at h
      · cases h
      · split at h
        · cases h
        · split at h
          · cases h
          · cases h
            exact ⟨rfl, rfl, rfl⟩

/-- the `lambda` form: the parts, the body compiled in the new context, the code object registered behind
    those of the body, `MOV-IMMEDIATE <lambda> %acc; CLOSURE` emitted -/
theorem compile_lambda_inv {formals body : Datum}
    (h : compileExpr (fuel + 1) st c base tail (.pair (.sym k_lambda) (.pair formals body)) = .ok (st', code)) :
    ∃ p st1 bcode, lambdaParts fuel c (.pair (.sym k_lambda) (.pair formals body)) false = .ok p ∧
      compileBody fuel st p.ctx p.prologue.length p.body = .ok (st1, bcode) ∧
      st'.lambdas = st1.lambdas ++ [lamOf p bcode] ∧
      code = [.op .movImm, .lambda st1.lambdas.length, .acc, .op .closureAcc] := by
  unfold compileExpr at h
  obtain ⟨t1, t2, t3⟩ := lambda_tests
  simp only [t1, t2, t3, Bool.false_eq_true, if_false, if_true, Bool.true_or] at h
  cases h1 : lambdaParts fuel c (.pair (.sym k_lambda) (.pair formals body)) false with
  | error e => rw [h1] at h; cases h
  | ok p =>
    rw [h1] at h
    simp only at h
    cases h2 : compileBody fuel st p.ctx p.prologue.length p.body with
    | error e => rw [h2] at h; cases h
    | ok r =>
      obtain ⟨st1, bcode⟩ := r
      rw [h2] at h
      simp only [finishLambda] at h
      cases h
      exact ⟨p, st1, bcode, rfl, h2, rfl, rfl⟩

end Marwood.Lemmas.CompileCorrect2
