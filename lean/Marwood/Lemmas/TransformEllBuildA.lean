import Marwood.Lemmas.TransformEllDefs
/-!
# What `Pattern::build` computes on every pattern `Transform::try_new` accepts

For a rule of an accepted transformer with pattern `(kw . body)`:

* `variables` is the list of pattern variables of `body` in order (`patVars`), without duplicates;
* `expanded` contains exactly the symbols `x` with `x ∈ ellVars body` (the variables occurring in a
  sub-pattern followed by the ellipsis), stated through `isExpandedVariable`;
* every expanded variable is a variable.

This file: pure lemmas on `ellVars` / `patVars`, the characterisation of
`Pattern::find_expanded_variables` and the combination lemmas. The induction over `buildLoop` and the
final theorem `ruleOK_build` are in `TransformEllBuildB.lean` and `TransformEllBuild.lean`.
-/
namespace Marwood.Transform
open Marwood Marwood.Spec.Match

/-! ## Pure lemmas -/

theorem anySym_mem (vars : List Text) (x : Text) :
    ((vars.map Datum.sym).any fun it => cellEq it (.sym x)) = decide (x ∈ vars) := by
  induction vars with
  | nil => simp
  | cons v vs ih =>
    rw [List.map_cons, List.any_cons, ih]
    by_cases h : x = v
    · subst h; simp
    · have : ¬ (Datum.sym v = Datum.sym x) := by simp; exact fun e => h e.symm
      simp [h, this]

/-- `isVariableCandidate_sym` without the side condition: the ellipsis itself is not a candidate and
    not a pattern variable -/
theorem isVariableCandidate_sym' (s : Setup) (p : Pattern) (x : Text)
    (he : p.ellipsis = s.ell) (hl : p.literals = s.lits) :
    p.isVariableCandidate (.sym x) = s.ctx.isVar x := by
  by_cases hx : x = s.es
  · subst hx
    simp [Pattern.isVariableCandidate, Pattern.isEllipsis, he, Setup.ell, Ctx.isVar, s.isEll_iff]
  · exact isVariableCandidate_sym s p x he hl hx

theorem patVars_ell (s : Setup) : patVars s.ctx s.ell = [] := by
  simp [Setup.ell, patVars, Ctx.isVar, s.isEll_iff]

/-- `it <ellipsis> rest` -/
theorem ellVars_ofList_cons_ell (s : Setup) (it : Datum) (rest : List Datum) :
    ellVars s.ctx (Datum.ofList (it :: s.ell :: rest))
      = patVars s.ctx it ++ ellVars s.ctx (Datum.ofList rest) := by
  simp [Datum.ofList, ellVars, isEllD_ell s]

/-- `it rest` where `rest` does not start with the ellipsis -/
theorem ellVars_ofList_cons_ne (s : Setup) (it : Datum) (rest : List Datum)
    (h : peekIs s.ell rest = false) :
    ellVars s.ctx (Datum.ofList (it :: rest))
      = ellVars s.ctx it ++ ellVars s.ctx (Datum.ofList rest) := by
  cases rest with
  | nil => simp [Datum.ofList, ellVars]
  | cons q qs =>
    have hq : s.ctx.isEllD q = false := by rw [s.isEllD_eq]; simpa [peekIs] using h
    simp [Datum.ofList, ellVars, hq]

/-- every variable under an ellipsis is a pattern variable -/
theorem ellVars_sub (c : Ctx) (P : Datum) : ∀ x, x ∈ ellVars c P → x ∈ patVars c P := by
  fun_induction ellVars c P with
  | case1 p q rest hq ih =>
    intro x hx
    simp only [List.mem_append] at hx
    simp only [patVars, List.mem_append]
    rcases hx with hx | hx
    · exact Or.inl hx
    · exact Or.inr (Or.inr (ih x hx))
  | case2 p q rest hq ih1 ih2 =>
    intro x hx
    simp only [List.mem_append] at hx
    rw [patVars, List.mem_append]
    rcases hx with hx | hx
    · exact Or.inl (ih1 x hx)
    · exact Or.inr (ih2 x hx)
  | case3 p rest hne ih1 ih2 =>
    intro x hx
    simp only [List.mem_append] at hx
    rw [patVars, List.mem_append]
    rcases hx with hx | hx
    · exact Or.inl (ih1 x hx)
    · exact Or.inr (ih2 x hx)
  | case4 P h1 h2 => intro x hx; cases hx

/-! ## Growth of `expanded` -/

/-- `p'.expanded` is `p.expanded` plus exactly the symbols named in `E` (as a set) -/
def ExpGrow (p p' : Pattern) (E : List Text) : Prop :=
  ∀ c : Datum, c ∈ p'.expanded ↔ c ∈ p.expanded ∨ ∃ x, x ∈ E ∧ c = Datum.sym x

theorem ExpGrow.refl (p : Pattern) : ExpGrow p p [] := by
  intro c; simp

theorem ExpGrow.trans {a b c : Pattern} {E1 E2 : List Text} (h1 : ExpGrow a b E1) (h2 : ExpGrow b c E2) :
    ExpGrow a c (E1 ++ E2) := by
  intro d
  rw [h2 d, h1 d]
  simp only [List.mem_append]
  constructor
  · rintro ((h | ⟨x, hx, rfl⟩) | ⟨x, hx, rfl⟩)
    · exact Or.inl h
    · exact Or.inr ⟨x, Or.inl hx, rfl⟩
    · exact Or.inr ⟨x, Or.inr hx, rfl⟩
  · rintro (h | ⟨x, hx | hx, rfl⟩)
    · exact Or.inl (Or.inl h)
    · exact Or.inl (Or.inr ⟨x, hx, rfl⟩)
    · exact Or.inr ⟨x, hx, rfl⟩

theorem ExpGrow.congr {p p' : Pattern} {E E' : List Text} (h : ExpGrow p p' E)
    (hE : ∀ x, x ∈ E' ↔ x ∈ E) : ExpGrow p p' E' := by
  intro c
  rw [h c]
  constructor
  · rintro (h | ⟨x, hx, rfl⟩)
    · exact Or.inl h
    · exact Or.inr ⟨x, (hE x).2 hx, rfl⟩
  · rintro (h | ⟨x, hx, rfl⟩)
    · exact Or.inl h
    · exact Or.inr ⟨x, (hE x).1 hx, rfl⟩

/-! ## `Pattern::find_expanded_variables` -/

/-- what one successful `find_expanded_variables` call does: `variables` untouched, `expanded` grows by
    `E` -/
structure FESpec (p p' : Pattern) (E : List Text) : Prop where
  vars : p'.variables = p.variables
  exp : ExpGrow p p' E

theorem foldlM_findExpanded_spec (s : Setup) (f : Nat)
    (ih : ∀ (it : Datum) (p p' : Pattern), p.ellipsis = s.ell → p.literals = s.lits →
      properP it = true → findExpanded f it p = .ok p' → FESpec p p' (patVars s.ctx it)) :
    ∀ (xs : List Datum) (p p' : Pattern), p.ellipsis = s.ell → p.literals = s.lits →
      (∀ it ∈ xs, properP it = true) →
      xs.foldlM (fun p it => findExpanded f it p) p = .ok p' →
      FESpec p p' (patVars s.ctx (Datum.ofList xs)) := by
  intro xs
  induction xs with
  | nil =>
    intro p p' _ _ _ h
    simp [List.foldlM] at h
    cases h
    exact ⟨rfl, by simpa [Datum.ofList, patVars] using ExpGrow.refl p⟩
  | cons x xs ihx =>
    intro p p' he hl hp h
    simp only [List.foldlM, bind, Res.bind] at h
    cases hx : findExpanded f x p with
    | ok p1 =>
      rw [hx] at h
      have hpres := findExpanded_pres _ _ _ _ hx
      have h1 := ih x p p1 he hl (hp x (by simp)) hx
      have h2 := ihx p1 p' (by rw [hpres.ell, he]) (by rw [hpres.lits, hl])
        (fun it hit => hp it (List.mem_cons_of_mem _ hit)) h
      refine ⟨by rw [h2.vars, h1.vars], ?_⟩
      rw [patVars_ofList_cons]
      exact h1.exp.trans h2.exp
    | err e => rw [hx] at h; cases h
    | panic m => rw [hx] at h; cases h
    | fuel => rw [hx] at h; cases h

/-- on a proper, vector-free element `find_expanded_variables` adds exactly its pattern variables -/
theorem findExpanded_spec (s : Setup) : ∀ (f : Nat) (it : Datum) (p p' : Pattern),
    p.ellipsis = s.ell → p.literals = s.lits → properP it = true →
    findExpanded f it p = .ok p' → FESpec p p' (patVars s.ctx it) := by
  intro f
  induction f with
  | zero => intro it p p' _ _ _ h; simp [findExpanded] at h
  | succ f ih =>
    intro it p p' he hl hp h
    cases it with
    | sym x =>
      simp only [findExpanded, isVariableCandidate_sym' s p x he hl] at h
      by_cases hv : s.ctx.isVar x = true
      · have hpv : patVars s.ctx (.sym x) = [x] := by simp [patVars, hv]
        rw [hpv]
        by_cases hin : (p.expanded.any fun it => cellEq it (.sym x)) = true
        · simp only [hv, hin, Bool.not_true, Bool.and_false, Bool.false_eq_true, if_false] at h
          cases h
          refine ⟨rfl, ?_⟩
          have hmem : Datum.sym x ∈ p.expanded := by
            obtain ⟨y, hy, hyx⟩ := List.any_eq_true.mp hin
            simp only [cellEq_sym_right, decide_eq_true_eq] at hyx
            rw [← hyx]; exact hy
          intro c
          constructor
          · exact fun h => Or.inl h
          · rintro (h | ⟨y, hy, rfl⟩)
            · exact h
            · simp only [List.mem_singleton] at hy; subst hy; exact hmem
        · simp only [hv, hin, Bool.not_false, Bool.and_true, if_true] at h
          cases h
          refine ⟨rfl, ?_⟩
          intro c
          simp only [List.mem_append, List.mem_singleton]
          constructor
          · rintro (h | h)
            · exact Or.inl h
            · exact Or.inr ⟨x, rfl, h⟩
          · rintro (h | ⟨y, hy, rfl⟩)
            · exact Or.inl h
            · subst hy; exact Or.inr rfl
      · have hpv : patVars s.ctx (.sym x) = [] := by simp [patVars, hv]
        rw [hpv]
        simp only [hv, Bool.false_and, Bool.false_eq_true, if_false] at h
        cases h
        exact ⟨rfl, ExpGrow.refl p⟩
    | pair a d =>
      simp only [findExpanded] at h
      obtain ⟨hiteq, hitel⟩ := properP_iter hp
      have := foldlM_findExpanded_spec s f ih _ p p' he hl hitel h
      rw [hiteq] at this
      exact this
    | vec v => simp [properP] at hp
    | _ =>
      simp only [findExpanded] at h
      cases h
      exact ⟨rfl, by simpa [patVars] using ExpGrow.refl p⟩

end Marwood.Transform
