import Marwood.Lemmas.CompileCorrect2Enter
/-!
# T01.3 stage 2 — operand lists, bodies, and the call of a closure: `ENTER`, the body, `RET`
-/
namespace Marwood.Lemmas.CompileCorrect2
open Marwood Marwood.Vm Marwood.Lemmas.CompileCorrect
open Marwood.Spec.Eval (Val Prim Cell Env evalN evalStep applyStep evalArgs properList quoteVal kwOf insertG
  k_quote k_if_ k_setBang k_define k_lambda)

variable {H : Type} {ops : HeapOps H} {D : RepData2 ops}

theorem ArgsRun2.codeAfter {W : World} {s s' : MSt H} {len : Nat} {σ σ' : SSt} {ws : List Val} {vs : List VCell}
    (r : ArgsRun2 D W s len σ σ' ws vs s') {em : List (Text × Source)} {base : Nat} {code : List BC}
    (hc : CodeAt2 D em s.heap σ.store s.ipL base code) : CodeAt2 D em s'.heap σ'.store s'.ipL base code := by
  rw [r.ipL]; exact hc.ext r.ext

/-! ## operand lists -/

theorem args2_ok (L : Laws2 D) {n : Nat} (ih : ExprOK2 D n) :
    ∀ (es : List Datum) f cst c base rest cst' code k (ρ : Env), F2L D.setG f c (bound ρ) rest → CtxOK c →
    compileArgs f cst c base rest = .ok (cst', code, k) → cst'.lambdas <+: D.final →
    properList rest = some es →
    ∀ (σ : SSt) ws (σ' : SSt), evalArgs (evalN n) ρ es σ = .ok ws σ' →
    ∀ (W : World) (s : MSt H), CodeAt2 D c.envmap s.heap σ.store s.ipL base code → s.ipO = base →
      Inv2 D W s.heap σ → EnvRep ops W s.heap c s.ep ρ → SWF s.stack →
    ∃ W' s' vs, W.le W' ∧ ArgsRun2 D W' s code.length σ σ' ws vs s' ∧ k = vs.length := by
  intro es
  induction es with
  | nil =>
    intro f cst c base rest cst' code k ρ hfl hcx hcomp hpre hpl σ ws σ' hev W s hc hip hi her hw
    cases hfl with
    | nil =>
      obtain ⟨rfl, rfl, _⟩ := compileArgs_nil_inv2 hcomp
      obtain ⟨rfl, rfl⟩ := evalArgs_nil_inv hev
      exact ⟨W, s, [], World.le_refl _, ⟨.refl _, rfl, rfl, rfl, rfl, LiveEq.refl _, hw, .nil, hi,
        Ext2.refl L _ _⟩, rfl⟩
    | cons a d _ _ =>
      obtain ⟨es', _, h⟩ := properList_pair_inv hpl
      cases h
  | cons e0 es ihes =>
    intro f cst c base rest cst' code k ρ hfl hcx hcomp hpre hpl σ ws σ' hev W s hc hip hi her hw
    cases hfl with
    | nil => simp [properList] at hpl
    | cons a d hfa hfd =>
      obtain ⟨cst1, code1, code2, k2, hca, hcd, rfl, rfl⟩ := compileArgs_pair_inv2 hcomp
      obtain ⟨es', hpl', hes⟩ := properList_pair_inv hpl
      cases hes
      obtain ⟨v, σ1, ws', hea, hed, rfl⟩ := evalArgs_cons_inv hev
      subst hip
      have hpre1 : cst1.lambdas <+: D.final := ((monoOK _ _).2.1 _ _ _ _ _ _ _ _ hfd hcd).trans hpre
      obtain ⟨W1, s1, hw1, r1⟩ := ih _ _ _ _ _ _ _ _ hfa hcx hca hpre1 σ v σ1 hea W s hc.left.left rfl hi her hw
      have hcP1 : CodeAt2 D c.envmap s1.heap σ1.store s1.ipL s1.ipO [BC.op .pushAcc] :=
        (r1.codeAfter hc.left.right).cast r1.ipO.symm
      have hp := step_pushAcc hcP1.1 (hcP1.op 0 rfl)
      have hcD : CodeAt2 D c.envmap s1.heap σ1.store s1.ipL (s.ipO + code1.length + 1) code2 :=
        (r1.codeAfter hc.right).cast (by simp only [List.length_append, List.length_cons, List.length_nil]; omega)
      have her1 : EnvRep ops W1 s1.heap c s1.ep ρ := by rw [r1.ep]; exact her.ext r1.ext hw1
      obtain ⟨W3, s3, vs', hw3, r3, hk⟩ := ihes _ _ _ _ _ _ _ _ _ hfd hcx hcd hpre hpl' σ1 ws' σ' hed W1
        { s1 with stack := s1.stack.push s1.acc, ipO := s1.ipO + 1 } hcD
        (by show s1.ipO + 1 = _; rw [r1.ipO]) r1.inv her1 (push_swf _ _)
      refine ⟨W3, s3, s1.acc :: vs', World.le_trans hw1 hw3, ⟨r1.steps.trans (.cons hp r3.steps),
        r3.ipL.trans r1.ipL, ?_, r3.bp.trans r1.bp, r3.ep.trans r1.ep, ?_, r3.swf,
        .cons (r1.acc.mono r3.ext hw3) r3.vals, r3.inv, r1.ext.trans r3.ext⟩, by simp [hk]⟩
      · have h3 := r3.ipO
        have h1 := r1.ipO
        have h2 : s3.ipO = s1.ipO + 1 + code2.length := h3
        simp only [List.length_append, List.length_cons, List.length_nil]
        omega
      · rw [pushAll_cons]
        exact ((r1.stack.push hw r1.swf s1.acc).pushAll (push_swf _ _) (push_swf _ _) vs').trans r3.stack

/-! ## bodies -/

theorem body2_ok (L : Laws2 D) {n : Nat} (ih : ExprOK2 D n) (iht : ExprOKT D n) :
    ∀ (body : List Datum) f cst c base bodyD cst' code (ρ : Env) (d : Bool), F2B D.setG f c (bound ρ) bodyD → CtxOK c →
    compileBody f cst c base bodyD = .ok (cst', code) → cst'.lambdas <+: D.final →
    properList bodyD = some body → (∀ e ∈ body, Spec.Eval.isDefine e = false) →
    ∀ (σ : SSt) w (σ' : SSt), Spec.Eval.evalBodyForms (evalN n) ρ d body σ = .ok w σ' →
    ∀ (W : World) (s : MSt H) (fr : Frame), CodeAt2 D c.envmap s.heap σ.store s.ipL base code → s.ipO = base →
      Inv2 D W s.heap σ → EnvRep ops W s.heap c s.ep ρ → SWF s.stack → FrameAt s.stack s.bp fr →
    ∃ W' s', W.le W' ∧ Out2 D W' s code.length σ σ' w true fr s' := by
  have _ := L
  intro body
  induction body with
  | nil =>
    intro f cst c base bodyD cst' code ρ d hfb hcx hcomp hpre hpl
    cases hfb with
    | last x _ => simp [properList] at hpl
    | cons x y rest _ _ =>
      obtain ⟨es', _, h⟩ := properList_pair_inv hpl
      cases h
  | cons e0 es ihes =>
    intro f cst c base bodyD cst' code ρ d hfb hcx hcomp hpre hpl hnd σ w σ' hev W s fr hc hip hi her hw hfr
    have hd0 : Spec.Eval.isDefine e0 = false := hnd e0 List.mem_cons_self
    cases hfb with
    | last x hfx =>
      obtain ⟨es', hpl', hes⟩ := properList_pair_inv hpl
      cases hes
      have : es = [] := by
        simp only [properList] at hpl'
        injection hpl' with h; exact h.symm
      subst this
      rw [evalBodyForms_last hd0] at hev
      obtain ⟨cst1, code1, code2, c1, c2, rfl⟩ := compileBody_pair_inv hcomp
      rename_i f0
      have hnil : code2 = [] ∧ cst' = cst1 := by
        cases f0 with
        | zero => cases hfx
        | succ f1 => exact compileBody_nil_inv c2
      obtain ⟨rfl, rfl⟩ := hnil
      have c1' : compileExpr f0 cst c base true e0 = .ok (cst', code1) := c1
      rw [List.append_nil] at hc ⊢
      exact iht _ _ _ _ _ _ _ _ _ hfx hcx c1' hpre σ w σ' hev W s fr hc hip hi her hw (fun _ => hfr)
    | cons x y rest hfx hfr' =>
      obtain ⟨es', hpl', hes⟩ := properList_pair_inv hpl
      cases hes
      obtain ⟨es'', hpl'', rfl⟩ := properList_pair_inv hpl'
      rw [evalBodyForms_cons hd0] at hev
      obtain ⟨v, σ1, he1, he2⟩ := bind_ok_inv hev
      obtain ⟨cst1, code1, code2, c1, c2, rfl⟩ := compileBody_pair_inv hcomp
      have c1' : compileExpr _ cst c base false e0 = .ok (cst1, code1) := c1
      subst hip
      have hpre1 : cst1.lambdas <+: D.final := ((monoOK _ _).2.2 _ _ _ _ _ _ _ hfr' c2).trans hpre
      obtain ⟨W1, s1, hw1, r1⟩ := ih _ _ _ _ _ _ _ _ hfx hcx c1' hpre1 σ v σ1 he1 W s hc.left rfl hi her hw
      have her1 : EnvRep ops W1 s1.heap c s1.ep ρ := by rw [r1.ep]; exact her.ext r1.ext hw1
      have hc2 : CodeAt2 D c.envmap s1.heap σ1.store s1.ipL (s.ipO + code1.length) code2 := r1.codeAfter hc.right
      have hfr1 : FrameAt s1.stack s1.bp fr := by rw [r1.bp]; exact hfr.of_liveEq r1.stack
      obtain ⟨W2, s2, hw2, o2⟩ := ihes _ _ _ _ _ _ _ ρ false hfr' hcx c2 hpre hpl'
        (fun e he => hnd e (List.mem_cons_of_mem _ he)) σ1 w σ' he2 W1 s1 fr hc2 r1.ipO r1.inv her1 r1.swf hfr1
      rcases o2 with r2 | ⟨ht, q2⟩
      · exact ⟨W2, s2, World.le_trans hw1 hw2, .inl (by
          have := r1.append r2
          simpa using this)⟩
      · exact ⟨W2, s2, World.le_trans hw1 hw2, .inr ⟨ht, Ret2.prepend r1.steps r1.ext q2⟩⟩

/-! ## the call of a closure -/

theorem callOK2_succ (L : Laws2 D) {n : Nat} (ih : ExprOK2 D n) (iht : ExprOKT D n) : CallOK2 D (n + 1) := by
  intro ps body ρc ws σ w σ' hap W s lam cenv vs st0 epc lc oc hcal hclos hi hvs hipL hipO hst hw0 hw
  change applyStep (evalN n) (.closure ps none body ρc) ws σ = _ at hap
  obtain ⟨ρ', σ1, hbind, hbody⟩ := applyStep_closure_inv hap
  obtain ⟨f, cst, cst1, p, bodyD, bcode, h', a, W', stE, hsE, hwW, hi1, her1, hcx, a12, a7, a9, a5, a6, hcodeE, hwE, hfrE,
    hx1⟩ := enter_closure L hbind hcal hclos hi hvs hipL hipO hst hw0 hw
  obtain ⟨b0, bs0, hb0⟩ : ∃ b0 bs0, body = b0 :: bs0 := by
    cases body with
    | nil =>
      exfalso
      cases a12 with
      | last x _ => simp [properList] at a5
      | cons x y rest _ _ =>
        obtain ⟨es', _, h⟩ := properList_pair_inv a5
        cases h
    | cons b0 bs0 => exact ⟨b0, bs0, rfl⟩
  subst hb0
  rw [evalBody_noDefs (a6 b0 List.mem_cons_self)] at hbody
  let sE : MSt H := { s with heap := h', ep := a, stack := stE, bp := st0.sp + vs.length, ipO := s.ipO + 1 }
  have hcodeB : CodeAt2 D p.ctx.envmap sE.heap σ1.store sE.ipL 1 bcode := by
    have := hcodeE.left.right.cast (show 0 + [BC.op .enter].length = 1 by rfl)
    show CodeAt2 D p.ctx.envmap h' σ1.store s.ipL 1 bcode
    rw [hipL]; exact this
  obtain ⟨W2, s2, hw2, o2⟩ := body2_ok L ih iht _ _ _ _ _ _ _ _ ρ' true a12 hcx a7 a9 a5 a6 σ1 w σ' hbody W' sE
    ⟨vs.length, epc, lc, oc, s.bp, st0⟩ hcodeB (by show s.ipO + 1 = 1; omega) hi1 her1 hwE hfrE
  cases o2 with
  | inr hq =>
    -- the body ended in a tail call that has already returned to our caller
    obtain ⟨_, q2⟩ := hq
    exact ⟨W2, s2, World.le_trans hwW hw2, .cons hsE q2.steps, q2.ipL, q2.ipO, q2.ep, q2.bp, q2.stack, q2.swf,
      q2.acc, q2.inv, hx1.trans q2.ext⟩
  | inl r2 =>
    -- RET
    have hcodeR : CodeAt2 D p.ctx.envmap s2.heap σ'.store s2.ipL s2.ipO [.op .ret] := by
      have h1 : CodeAt2 D p.ctx.envmap sE.heap σ1.store sE.ipL (0 + ([BC.op .enter] ++ bcode).length) [.op .ret] := by
        show CodeAt2 D p.ctx.envmap h' σ1.store s.ipL _ _
        rw [hipL]; exact hcodeE.right
      refine (r2.codeAfter h1).cast ?_
      rw [r2.ipO]
      show _ = s.ipO + 1 + bcode.length
      simp; omega
    have hfr2 : FrameAt s2.stack s2.bp ⟨vs.length, epc, lc, oc, s.bp, st0⟩ := by
      rw [r2.bp]; exact hfrE.of_liveEq r2.stack
    have hbp2 : s2.bp = st0.sp + vs.length := r2.bp
    have hsR := step_ret (s := s2) hcodeR.1 (by have := hcodeR.op 0 (o := .ret) rfl; simpa using this) hfr2.argc
      hfr2.le hfr2.ep hfr2.ip hfr2.bpc
    refine ⟨W2, _, World.le_trans hwW hw2, (Steps.cons hsE r2.steps).trans (Steps.one hsR), rfl, rfl, rfl, rfl, ?_, ?_,
      r2.acc, r2.inv, hx1.trans r2.ext⟩
    · refine ⟨by show st0.sp = s2.bp - vs.length; rw [hbp2]; omega, ?_⟩
      intro i hi'
      show st0.cells[i]? = s2.stack.cells[i]?
      exact hfr2.below i hi'
    · show s2.bp - vs.length < s2.stack.cells.length
      have := r2.swf
      unfold SWF at this
      have h2 : s2.stack.sp = stE.sp := r2.stack.1.symm
      have h3 := hfrE.live
      omega

end Marwood.Lemmas.CompileCorrect2
