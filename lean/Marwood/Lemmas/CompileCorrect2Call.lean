import Marwood.Lemmas.CompileCorrect2Lambda
/-!
# T01.3 stage 2 — operand lists, bodies, and the call of a closure: `ENTER`, the body, `RET`
-/
namespace Marwood.Lemmas.CompileCorrect2
open Marwood Marwood.Vm Marwood.Lemmas.CompileCorrect
open Marwood.Spec.Eval (Val Prim Cell Env evalN evalStep applyStep evalArgs properList quoteVal kwOf insertG
  k_quote k_if_ k_setBang k_define k_lambda)

variable {H : Type} {ops : HeapOps H} {D : RepData2 ops}

theorem All2.get {α β : Type} {R : α → β → Prop} : ∀ {l : List α} {l' : List β}, All2 R l l' →
    ∀ (i : Nat) (a : α), l[i]? = some a → ∃ b, l'[i]? = some b ∧ R a b
  | _, _, .nil, i, a, h => by simp at h
  | _, _, .cons hab t, i, a, h => by
    cases i with
    | zero => simp at h; subst h; exact ⟨_, by simp, hab⟩
    | succ j =>
      simp at h
      obtain ⟨b, hb, hr⟩ := All2.get t j a h
      exact ⟨b, by simpa using hb, hr⟩

theorem ArgsRun2.codeAfter {W : World} {s s' : MSt H} {len : Nat} {σ σ' : SSt} {ws : List Val} {vs : List VCell}
    (r : ArgsRun2 D W s len σ σ' ws vs s') {em : List (Text × Source)} {base : Nat} {code : List BC}
    (hc : CodeAt2 D em s.heap σ.store s.ipL base code) : CodeAt2 D em s'.heap σ'.store s'.ipL base code := by
  rw [r.ipL]; exact hc.ext r.ext

/-! ## operand lists -/

theorem args2_ok (L : Laws2 D) {n : Nat} (ih : ExprOK2 D n) :
    ∀ (es : List Datum) f cst c base rest cst' code k (ρ : Env), F2L f c (bound ρ) rest → CtxOK c →
    compileArgs f cst c base rest = .ok (cst', code, k) → cst'.lambdas <+: D.final →
    properList rest = some es →
    ∀ (σ : SSt) ws (σ' : SSt), evalArgs (evalN n) ρ es σ = .ok ws σ' →
    ∀ (W : World) (s : MSt H), CodeAt2 D c.envmap s.heap σ.store s.ipL base code → s.ipO = base →
      Inv2 D W s.heap σ → EnvRep ops W s.heap c s.ep ρ → SWF s.stack →
    ∃ W' s' vs, W.le W' ∧ ArgsRun2 D W' s code.length σ σ' ws vs s' ∧ k = vs.length := by
  intro es
  induction es with
  | nil =>
    intro f cst c base rest cst' code k ρ hfl hcx hcomp hpre hpl σ ws σ' hev W s hc hip hi her hw
    cases hfl with
    | nil =>
      obtain ⟨rfl, rfl, _⟩ := compileArgs_nil_inv2 hcomp
      obtain ⟨rfl, rfl⟩ := evalArgs_nil_inv hev
      exact ⟨W, s, [], World.le_refl _, ⟨.refl _, rfl, rfl, rfl, rfl, LiveEq.refl _, hw, .nil, hi,
        Ext2.refl L _ _⟩, rfl⟩
    | cons a d _ _ =>
      obtain ⟨es', _, h⟩ := properList_pair_inv hpl
      cases h
  | cons e0 es ihes =>
    intro f cst c base rest cst' code k ρ hfl hcx hcomp hpre hpl σ ws σ' hev W s hc hip hi her hw
    cases hfl with
    | nil => simp [properList] at hpl
    | cons a d hfa hfd =>
      obtain ⟨cst1, code1, code2, k2, hca, hcd, rfl, rfl⟩ := compileArgs_pair_inv2 hcomp
      obtain ⟨es', hpl', hes⟩ := properList_pair_inv hpl
      cases hes
      obtain ⟨v, σ1, ws', hea, hed, rfl⟩ := evalArgs_cons_inv hev
      subst hip
      have hpre1 : cst1.lambdas <+: D.final := ((monoOK _).2.1 _ _ _ _ _ _ _ _ hfd hcd).trans hpre
      obtain ⟨W1, s1, hw1, r1⟩ := ih _ _ _ _ _ _ _ _ _ hfa hcx hca hpre1 σ v σ1 hea W s hc.left.left rfl hi her hw
      have hcP1 : CodeAt2 D c.envmap s1.heap σ1.store s1.ipL s1.ipO [BC.op .pushAcc] :=
        (r1.codeAfter hc.left.right).cast r1.ipO.symm
      have hp := step_pushAcc hcP1.1 (hcP1.op 0 rfl)
      have hcD : CodeAt2 D c.envmap s1.heap σ1.store s1.ipL (s.ipO + code1.length + 1) code2 :=
        (r1.codeAfter hc.right).cast (by simp only [List.length_append, List.length_cons, List.length_nil]; omega)
      have her1 : EnvRep ops W1 s1.heap c s1.ep ρ := by rw [r1.ep]; exact her.ext r1.ext hw1
      obtain ⟨W3, s3, vs', hw3, r3, hk⟩ := ihes _ _ _ _ _ _ _ _ _ hfd hcx hcd hpre hpl' σ1 ws' σ' hed W1
        { s1 with stack := s1.stack.push s1.acc, ipO := s1.ipO + 1 } hcD
        (by show s1.ipO + 1 = _; rw [r1.ipO]) r1.inv her1 (push_swf _ _)
      refine ⟨W3, s3, s1.acc :: vs', World.le_trans hw1 hw3, ⟨r1.steps.trans (.cons hp r3.steps),
        r3.ipL.trans r1.ipL, ?_, r3.bp.trans r1.bp, r3.ep.trans r1.ep, ?_, r3.swf,
        .cons (r1.acc.mono r3.ext hw3) r3.vals, r3.inv, r1.ext.trans r3.ext⟩, by simp [hk]⟩
      · have h3 := r3.ipO
        have h1 := r1.ipO
        have h2 : s3.ipO = s1.ipO + 1 + code2.length := h3
        simp only [List.length_append, List.length_cons, List.length_nil]
        omega
      · rw [pushAll_cons]
        exact ((r1.stack.push hw r1.swf s1.acc).pushAll (push_swf _ _) (push_swf _ _) vs').trans r3.stack

/-! ## bodies -/

theorem body2_ok (L : Laws2 D) {n : Nat} (ih : ExprOK2 D n) :
    ∀ (body : List Datum) f cst c base bodyD cst' code (ρ : Env) (d : Bool), F2B f c (bound ρ) bodyD → CtxOK c →
    compileBody f cst c base bodyD = .ok (cst', code) → cst'.lambdas <+: D.final →
    properList bodyD = some body → (∀ e ∈ body, Spec.Eval.isDefine e = false) →
    ∀ (σ : SSt) w (σ' : SSt), Spec.Eval.evalBodyForms (evalN n) ρ d body σ = .ok w σ' →
    ∀ (W : World) (s : MSt H), CodeAt2 D c.envmap s.heap σ.store s.ipL base code → s.ipO = base →
      Inv2 D W s.heap σ → EnvRep ops W s.heap c s.ep ρ → SWF s.stack →
    ∃ W' s', W.le W' ∧ Run2 D W' s code.length σ σ' w s' := by
  intro body
  induction body with
  | nil =>
    intro f cst c base bodyD cst' code ρ d hfb hcx hcomp hpre hpl
    cases hfb with
    | last x _ => simp [properList] at hpl
    | cons x y rest _ _ =>
      obtain ⟨es', _, h⟩ := properList_pair_inv hpl
      cases h
  | cons e0 es ihes =>
    intro f cst c base bodyD cst' code ρ d hfb hcx hcomp hpre hpl hnd σ w σ' hev W s hc hip hi her hw
    have hd0 : Spec.Eval.isDefine e0 = false := hnd e0 List.mem_cons_self
    cases hfb with
    | last x hfx =>
      obtain ⟨es', hpl', hes⟩ := properList_pair_inv hpl
      cases hes
      have : es = [] := by
        simp only [properList] at hpl'
        injection hpl' with h; exact h.symm
      subst this
      rw [evalBodyForms_last hd0] at hev
      obtain ⟨cst1, code1, code2, c1, c2, rfl⟩ := compileBody_pair_inv hcomp
      rename_i f0
      have hnil : code2 = [] ∧ cst' = cst1 := by
        cases f0 with
        | zero => cases hfx
        | succ f1 => exact compileBody_nil_inv c2
      obtain ⟨rfl, rfl⟩ := hnil
      have c1' : compileExpr f0 cst c base true e0 = .ok (cst', code1) := c1
      rw [List.append_nil] at hc ⊢
      exact ih _ _ _ _ _ _ _ _ _ hfx hcx c1' hpre σ w σ' hev W s hc hip hi her hw
    | cons x y rest hfx hfr =>
      obtain ⟨es', hpl', hes⟩ := properList_pair_inv hpl
      cases hes
      obtain ⟨es'', hpl'', rfl⟩ := properList_pair_inv hpl'
      rw [evalBodyForms_cons hd0] at hev
      obtain ⟨v, σ1, he1, he2⟩ := bind_ok_inv hev
      obtain ⟨cst1, code1, code2, c1, c2, rfl⟩ := compileBody_pair_inv hcomp
      have c1' : compileExpr _ cst c base false e0 = .ok (cst1, code1) := c1
      subst hip
      have hpre1 : cst1.lambdas <+: D.final := ((monoOK _).2.2 _ _ _ _ _ _ _ hfr c2).trans hpre
      obtain ⟨W1, s1, hw1, r1⟩ := ih _ _ _ _ _ _ _ _ _ hfx hcx c1' hpre1 σ v σ1 he1 W s hc.left rfl hi her hw
      have her1 : EnvRep ops W1 s1.heap c s1.ep ρ := by rw [r1.ep]; exact her.ext r1.ext hw1
      have hc2 : CodeAt2 D c.envmap s1.heap σ1.store s1.ipL (s.ipO + code1.length) code2 := r1.codeAfter hc.right
      obtain ⟨W2, s2, hw2, r2⟩ := ihes _ _ _ _ _ _ _ ρ false hfr hcx c2 hpre hpl'
        (fun e he => hnd e (List.mem_cons_of_mem _ he)) σ1 w σ' he2 W1 s1 hc2 r1.ipO r1.inv her1 r1.swf
      exact ⟨W2, s2, World.le_trans hw1 hw2, by
        have := r1.append r2
        simpa using this⟩

/-! ## the call of a closure -/

theorem ctxOK_of_parts {f : Nat} {c : Ctx} {formals body : Datum} {p : LambdaParts} {ps : List Text}
    {caps : List (Text × Source)}
    (hp : lambdaParts f c (.pair (.sym k_lambda) (.pair formals body)) false = .ok p) (hps : p.formals = ps)
    (hem : p.ctx.envmap = argEntries ps ++ caps) : CtxOK p.ctx := by
  intro x hx
  rw [(lambdaParts_inv hp).2.1, hps] at hx
  obtain ⟨i, hi, hxi⟩ := List.getElem_of_mem hx
  have hg : ps[i]? = some x := by rw [List.getElem?_eq_getElem hi, hxi]
  have := argEntries_get ps i x hg
  unfold inEnv
  rw [hem, List.any_eq_true]
  exact ⟨(x, .argument i), List.mem_append_left _ (List.mem_of_getElem? this), by simp⟩

theorem callOK2_succ (L : Laws2 D) {n : Nat} (ih : ExprOK2 D n) : CallOK2 D (n + 1) := by
  intro ps body ρc ws σ w σ' hap W s lam cenv vs st0 epc lc oc hcal hclos hi hvs hipL hipO hst hw0 hw
  change applyStep (evalN n) (.closure ps none body ρc) ws σ = _ at hap
  obtain ⟨ρ', σ1, hbind, hbody⟩ := applyStep_closure_inv hap
  obtain ⟨f, cst, cst1, co, formals, bodyD, p, bcode, caps, a1, a2, a3, a4, a5, a6, a7, a8, a9, a10, a11, a12, a13,
    a14, a15, a16, a17⟩ := hclos
  obtain ⟨e1, e2, e3, e4, e5, e6, e7, e8⟩ := bindArgs_inv ps ws ρc ρ' σ σ1 a4 hbind
  have hvl : vs.length = ps.length := (All2.length_eq hvs).trans e1
  obtain ⟨hpb, hpa, hpro⟩ := lambdaParts_inv a1
  have hpro1 : p.prologue = [.op .enter] := by rw [hpro, a3]; rfl
  -- the loaded code of the lambda
  obtain ⟨hcode, hinfo⟩ := hi.loaded _ _ a8
  have hbc : (lamOf p bcode).bc = [.op .enter] ++ bcode ++ [.op .ret] := by simp [lamOf, hpro1]
  have hargsl : (lamOf p bcode).args.length = ps.length := by simp [lamOf, a2]
  rw [hbc, ← a10] at hcode
  rw [hargsl, ← a10] at hinfo
  have hemL : (lamOf p bcode).envmap = p.ctx.envmap := rfl
  rw [hemL] at hcode
  -- the stack `CALL` left
  obtain ⟨k0, k1, k2, k3, k4⟩ := callFrame_cells st0 vs epc lc oc hw0
  have hsp : s.stack.sp = st0.sp + vs.length + 3 := by rw [← hst.1, callFrame_sp]
  have cell : ∀ i, i ≤ st0.sp + vs.length + 3 → s.stack.cells[i]? = (callFrame st0 vs epc lc oc).cells[i]? :=
    fun i hi' => (hst.2 i (by rw [callFrame_sp]; exact hi')).symm
  -- ENTER
  let B := st0.sp + vs.length
  have hB : s.stack.sp + 1 - 4 = B := by show _ = st0.sp + vs.length; omega
  let stE := s.stack.push (.basePtr s.bp)
  have hwE : SWF stE := push_swf _ _
  have spE : stE.sp = B + 4 := by show (s.stack.push _).sp = _; simp [hsp]; omega
  have cellE : ∀ i, i ≤ s.stack.sp → stE.cells[i]? = s.stack.cells[i]? := fun i hi' => push_below _ _ hw i hi'
  have srcGet : ∀ j (hj : j < p.ctx.envmap.length),
      (p.ctx.envmap.map (rsrc co.envmap))[j]? = some (rsrc co.envmap (p.ctx.envmap[j]'hj)) := by
    intro j hj
    rw [List.getElem?_map, List.getElem?_eq_getElem hj]; rfl
  obtain ⟨h', a, hmk, hfresh, hargs, hcap, hframe, hglob, hext, hsrx⟩ :=
    L.activation_ok s.heap σ.store lam cenv B stE _ ps.length hi.extra a11 a13 hinfo
      (by
        intro j src hj
        obtain ⟨q, hq, _⟩ := map_get _ _ _ _ hj
        have hlt : j < p.ctx.envmap.length := by
          rcases Nat.lt_or_ge j p.ctx.envmap.length with h1 | h1
          · exact h1
          · rw [List.getElem?_eq_none h1] at hq; cases hq
        exact a16 j hlt)
      (by
        intro j i hj
        obtain ⟨q, hq, hr⟩ := map_get _ _ _ _ hj
        rw [a14] at hq
        rcases em_entry_cases hq with ⟨hlt, x, _, rfl⟩ | ⟨_, hqc⟩
        · simp only [rsrc, RSrc.arg.injEq] at hr
          subst hr
          have := hwE
          unfold SWF at this
          refine ⟨hlt, by show _ ≤ st0.sp + vs.length; omega, ?_⟩
          show st0.sp + vs.length - (ps.length - j) + 1 < stE.cells.length
          omega
        · have := a15 q hqc
          obtain ⟨x, src⟩ := q
          simp only at this; subst this
          simp [rsrc] at hr)
  have hfetch0 : ops.fetch s.heap s.ipL s.ipO = some (.opcode .enter) := by
    have := hcode.left.left.op 0 (o := .enter) rfl
    rw [hipL, hipO]; simpa using this
  have hargc : s.stack.cells[s.stack.sp - 2]? = some (.argc ps.length) := by
    rw [show s.stack.sp - 2 = st0.sp + vs.length + 1 by omega, cell _ (by omega), k2, hvl]
  have hsE := step_enter_closure (s := s) (by rw [hipL]; exact a11) hfetch0 hcal hinfo (by omega) hargc
    (by rw [hB]; exact hmk)
  rw [hB] at hsE
  -- the argument cells
  have argCell : ∀ i v, vs[i]? = some v → stE.cells[B - (ps.length - i) + 1]? = some v := by
    intro i v hv
    have hlt : i < vs.length := by
      rcases Nat.lt_or_ge i vs.length with h1 | h1
      · exact h1
      · rw [List.getElem?_eq_none h1] at hv; cases hv
    have e0 : B - (ps.length - i) + 1 = st0.sp + 1 + i := by show st0.sp + vs.length - _ + 1 = _; omega
    rw [e0, cellE _ (by omega), cell _ (by omega), k1 i hlt, hv]
  have argSlot : ∀ i v, vs[i]? = some v → ops.envGet h' a i = some v := by
    intro i v hv
    have hlt : i < ps.length := by
      rcases Nat.lt_or_ge i vs.length with h1 | h1
      · omega
      · rw [List.getElem?_eq_none h1] at hv; cases hv
    have hx : ps[i]? = some ps[i] := List.getElem?_eq_getElem hlt
    have hent : p.ctx.envmap[i]? = some (ps[i], .argument i) := by
      rw [a14, List.getElem?_append_left (by rw [argEntries_length]; exact hlt)]
      exact argEntries_get ps i _ hx
    have : (p.ctx.envmap.map (rsrc co.envmap))[i]? = some (.arg i) := by
      rw [List.getElem?_map, hent]; rfl
    exact hargs i i v this (argCell i v hv)
  -- the new world
  let W' : World := fun e n l => W e n l ∨ (e = a ∧ n < ps.length ∧ l = σ.store.size + n)
  have hwW : W.le W' := fun e n l h => .inl h
  have hse : StoreExt σ.store σ1.store := StoreExt.ofPrefix (by omega) e5
  have hx1 : Ext2 D s.heap σ.store h' σ1.store := hext.trans (Ext2.storeOnly L h' hse)
  have oldNe : ∀ e n l, W e n l → e ≠ a := by
    intro e n l hW e0
    subst e0
    obtain ⟨v, _, h1, _⟩ := hi.vars _ n l hW
    rw [hfresh n] at h1; cases h1
  have oldLt : ∀ e n l, W e n l → l < σ.store.size := by
    intro e n l hW
    obtain ⟨_, u, _, _, h3, _⟩ := hi.vars e n l hW
    rcases Nat.lt_or_ge l σ.store.size with h1 | h1
    · exact h1
    · simp [Array.getElem?_eq_none h1] at h3
  have hvs' : All2 (VR2 D W' h' σ1.store) vs ws := All2.vr2_mono hvs hx1 hwW
  have hi1 : Inv2 D W' h' σ1 := by
    refine ⟨fun y u hn hy => ?_, fun y hn hy => ?_, L.srx_store _ _ _ hse hsrx, hi.loaded.ext hx1, ?_, ?_, ?_⟩
    · rw [hglob]; exact (hi.bound y u hn (e2 ▸ hy)).mono hx1 hwW
    · rw [hglob]; exact hi.unbound y hn (e2 ▸ hy)
    · intro e n l l' h1 h2
      rcases h1 with h1 | ⟨rfl, _, rfl⟩ <;> rcases h2 with h2 | ⟨h2e, _, h2l⟩
      · exact hi.wfun e n l l' h1 h2
      · exact absurd h2e (oldNe _ _ _ h1)
      · exact absurd rfl (oldNe _ _ _ h2)
      · exact h2l.symm
    · intro e n e' n' l h1 h2
      rcases h1 with h1 | ⟨rfl, _, rfl⟩ <;> rcases h2 with h2 | ⟨h2e, _, h2l⟩
      · exact hi.winj e n e' n' l h1 h2
      · have := oldLt _ _ _ h1; omega
      · have := oldLt _ _ _ h2; omega
      · exact ⟨h2e.symm, by omega⟩
    · intro e n l hW
      rcases hW with hW | ⟨rfl, hn, rfl⟩
      · obtain ⟨v, u, g1, g2, g3, g4⟩ := hi.vars e n l hW
        exact ⟨v, u, by rw [hframe e n (oldNe _ _ _ hW)]; exact g1, g2, by rw [e5 l (oldLt _ _ _ hW)]; exact g3,
          g4.mono hx1 hwW⟩
      · have hlt : n < vs.length := by omega
        have hv : vs[n]? = some vs[n] := List.getElem?_eq_getElem hlt
        obtain ⟨u, hu, hr⟩ := All2.get hvs' n _ hv
        exact ⟨vs[n], u, argSlot n _ hv, VR2.not_envptr L hr, e6 n u hu, hr⟩
  have her1 : EnvRep ops W' h' p.ctx a ρ' := by
    intro x j hj
    rw [a14] at hj
    rcases slot_cases hj with ⟨hlt, hx⟩ | ⟨hge, hxn, src, hent, hmem⟩
    · have hltv : j < vs.length := by omega
      have hv : vs[j]? = some vs[j] := List.getElem?_eq_getElem hltv
      obtain ⟨u, _, hr⟩ := All2.get hvs' j _ hv
      exact ⟨a, j, σ.store.size + j, .inr ⟨rfl, rfl, vs[j], argSlot j _ hv, VR2.not_envptr L hr⟩, e7 j x hx,
        .inr ⟨rfl, hlt, rfl⟩⟩
    · have hsrc := a15 _ hmem
      simp only at hsrc
      subst hsrc
      rw [← a14] at hent
      obtain ⟨e, n', l, g1, g2, g3⟩ := a17 j x hge hent
      have : (p.ctx.envmap.map (rsrc co.envmap))[j]? = some (.iofEnv ((slotIdx co.envmap x).getD 0)) := by
        rw [List.getElem?_map, hent]; rfl
      have hslot := hcap j _ this
      rw [g1] at hslot
      exact ⟨e, n', l, .inl hslot, by rw [e8 x hxn]; exact g2, .inl g3⟩
  -- the body
  have hbound : (fun x => x ∈ ps ∨ bound ρc x) = bound ρ' := by
    funext x
    apply propext
    constructor
    · intro hx
      by_cases hm : x ∈ ps
      · obtain ⟨i, hi', hxi⟩ := List.getElem_of_mem hm
        have : ps[i]? = some x := by rw [List.getElem?_eq_getElem hi', hxi]
        simp [bound, e7 i x this]
      · rcases hx with hx | hx
        · exact absurd hx hm
        · show (ρ'.lookup x).isSome = true
          rw [e8 x hm]; exact hx
    · intro hx
      by_cases hm : x ∈ ps
      · exact .inl hm
      · right
        show (ρc.lookup x).isSome = true
        rw [← e8 x hm]; exact hx
  rw [hbound] at a12
  have hcx : CtxOK p.ctx := ctxOK_of_parts a1 a2 a14
  obtain ⟨b0, bs0, hb0⟩ : ∃ b0 bs0, body = b0 :: bs0 := by
    cases body with
    | nil =>
      exfalso
      cases a12 with
      | last x _ => simp [properList] at a5
      | cons x y rest _ _ =>
        obtain ⟨es', _, h⟩ := properList_pair_inv a5
        cases h
    | cons b0 bs0 => exact ⟨b0, bs0, rfl⟩
  subst hb0
  rw [evalBody_noDefs (a6 b0 List.mem_cons_self)] at hbody
  let sE : MSt H := { s with heap := h', ep := a, stack := stE, bp := B, ipO := s.ipO + 1 }
  have hcodeB : CodeAt2 D p.ctx.envmap sE.heap σ1.store sE.ipL 1 bcode := by
    have := (hcode.left.right.ext hx1).cast (show 0 + [BC.op .enter].length = 1 by rfl)
    show CodeAt2 D p.ctx.envmap h' σ1.store s.ipL 1 bcode
    rw [hipL]; exact this
  obtain ⟨W2, s2, hw2, r2⟩ := body2_ok L ih _ _ _ _ _ _ _ _ ρ' true a12 hcx a7 a9 a5 a6 σ1 w σ' hbody W' sE hcodeB
    (by show s.ipO + 1 = 1; omega) hi1 her1 hwE
  -- RET
  have hcodeR : CodeAt2 D p.ctx.envmap s2.heap σ'.store s2.ipL s2.ipO [.op .ret] := by
    have h0 := (hcode.right.ext hx1)
    have h1 : CodeAt2 D p.ctx.envmap sE.heap σ1.store sE.ipL (0 + ([BC.op .enter] ++ bcode).length) [.op .ret] := by
      show CodeAt2 D p.ctx.envmap h' σ1.store s.ipL _ _
      rw [hipL]; exact h0
    refine (r2.codeAfter h1).cast ?_
    rw [r2.ipO]
    show _ = s.ipO + 1 + bcode.length
    simp; omega
  have cell2 : ∀ i, i ≤ B + 4 → s2.stack.cells[i]? = stE.cells[i]? :=
    fun i hi' => (r2.stack.2 i (by show i ≤ stE.sp; omega)).symm
  have hbp2 : s2.bp = B := r2.bp
  have c1 : s2.stack.cells[s2.bp + 1]? = some (.argc vs.length) := by
    rw [hbp2, cell2 _ (by omega), cellE _ (by omega), cell _ (by show st0.sp + vs.length + 1 ≤ _; omega)]
    exact k2
  have c2 : s2.stack.cells[s2.bp + 2]? = some (.envPtr epc) := by
    rw [hbp2, cell2 _ (by omega), cellE _ (by omega), cell _ (by show st0.sp + vs.length + 2 ≤ _; omega)]
    exact k3
  have c3 : s2.stack.cells[s2.bp + 3]? = some (.instrPtr lc oc) := by
    rw [hbp2, cell2 _ (by omega), cellE _ (by omega), cell _ (by show st0.sp + vs.length + 3 ≤ _; omega)]
    exact k4
  have c4 : s2.stack.cells[s2.bp + 4]? = some (.basePtr s.bp) := by
    rw [hbp2, cell2 _ (by omega)]
    have := push_top s.stack (.basePtr s.bp)
    rw [hsp] at this
    exact this
  have hsR := step_ret (s := s2) hcodeR.1 (by have := hcodeR.op 0 (o := .ret) rfl; simpa using this) c1
    (by rw [hbp2]; show vs.length ≤ st0.sp + vs.length; omega) c2 c3 c4
  refine ⟨W2, _, World.le_trans hwW hw2, (Steps.cons hsE r2.steps).trans (Steps.one hsR), rfl, rfl, rfl, rfl, ?_, ?_,
    r2.acc, r2.inv, hx1.trans r2.ext⟩
  · refine ⟨by show st0.sp = s2.bp - vs.length; rw [hbp2]; show _ = st0.sp + vs.length - vs.length; omega, ?_⟩
    intro i hi'
    show st0.cells[i]? = s2.stack.cells[i]?
    rw [cell2 _ (by omega), cellE _ (by omega), cell _ (by omega), k0 i hi']
  · show s2.bp - vs.length < s2.stack.cells.length
    have := r2.swf
    unfold SWF at this
    have h2 : s2.stack.sp = stE.sp := r2.stack.1.symm
    omega

end Marwood.Lemmas.CompileCorrect2
