import Marwood.Lemmas.TransformBasic
/-!
# Unfolding lemmas for the specification (`Spec.Match`)
-/
namespace Marwood.Spec.Match
open Marwood Marwood.Transform

/-- one step of matching a list pattern whose second element is not the ellipsis -/
def consMatch (c : Ctx) (p rest : Datum) : Datum → Option Binds
  | .pair e1 er =>
    match specMatch c p e1 with
    | none => none
    | some b1 =>
      match specMatch c rest er with
      | none => none
      | some b2 => some (b1 ++ b2)
  | _ => none

/-- the head of `rest` is not the ellipsis -/
def headNotEll (c : Ctx) : Datum → Bool
  | .pair q _ => !c.isEllD q
  | _ => true

theorem specMatch_pair (c : Ctx) (p rest E : Datum) (h : headNotEll c rest = true) :
    specMatch c (.pair p rest) E = consMatch c p rest E := by
  cases rest with
  | pair q r =>
    simp only [headNotEll, Bool.not_eq_true'] at h
    unfold specMatch
    simp only [h]
    cases E <;> simp [consMatch] <;> rfl
  | _ => unfold specMatch <;> cases E <;> rfl

theorem specMatch_nil (c : Ctx) (E : Datum) :
    specMatch c .nil E = if E = .nil then some [] else none := by
  unfold specMatch
  simp [cellEq_nil_left]

end Marwood.Spec.Match
