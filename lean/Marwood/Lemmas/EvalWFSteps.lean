import Marwood.Lemmas.EvalWF
/-!
# Well-formedness: the helpers of one level of evaluation

The sub-evaluator hypothesis `RecWF`, operand and sequence evaluation, the store-level helpers,
quoting and externalising.
-/
namespace Marwood.Spec.Eval
open Marwood

variable {n0 : Nat}

/-- what one level of evaluation may assume about the levels below -/
structure RecWF (r : Rec) : Prop where
  eval : ∀ (n0 : Nat) (e : Datum) (ρ : Env), EnvOK n0 ρ → PresFrom n0 (r.eval e ρ) ValOK
  apply : ∀ (n0 : Nat) (f : Val) (args : List Val), ValOK n0 f → ValsOK n0 args →
    PresFrom n0 (r.apply f args) ValOK

variable {r : Rec}

theorem pres_evalArgs (hr : RecWF r) (ρ : Env) : ∀ (es : List Datum) (n0 : Nat), EnvOK n0 ρ →
    PresFrom n0 (evalArgs r ρ es) ValsOK
  | [], _, _ => PresFrom.pureVs _ (by simp)
  | e :: es, n0, hρ => by
    simp only [evalArgs]
    refine PresFrom.bind (hr.eval n0 e ρ hρ) (fun v n1 h1 hv => ?_)
    refine PresFrom.bind (pres_evalArgs hr ρ es n1 (hρ.mono h1)) (fun vs n2 h2 hvs => ?_)
    exact PresFrom.pureVs _ (by simp [hv.mono h2, hvs])

theorem pres_evalExprs (hr : RecWF r) (ρ : Env) : ∀ (es : List Datum) (n0 : Nat), EnvOK n0 ρ →
    PresFrom n0 (evalExprs r ρ es) ValOK
  | [], _, _ => PresFrom.throw _
  | [e], n0, hρ => by simpa [evalExprs] using hr.eval n0 e ρ hρ
  | e :: e' :: es, n0, hρ => by
    simp only [evalExprs]
    refine PresFrom.bind (hr.eval n0 e ρ hρ) (fun _ n1 h1 _ => ?_)
    exact pres_evalExprs hr ρ (e' :: es) n1 (hρ.mono h1)

theorem pres_evalAnd (hr : RecWF r) (ρ : Env) : ∀ (es : List Datum) (n0 : Nat), EnvOK n0 ρ →
    PresFrom n0 (evalAnd r ρ es) ValOK
  | [], _, _ => PresFrom.pureV _ (by simp)
  | [e], n0, hρ => by simpa [evalAnd] using hr.eval n0 e ρ hρ
  | e :: e' :: es, n0, hρ => by
    simp only [evalAnd]
    refine PresFrom.bind (hr.eval n0 e ρ hρ) (fun v n1 h1 hv => ?_)
    split
    · exact pres_evalAnd hr ρ (e' :: es) n1 (hρ.mono h1)
    · exact PresFrom.pureV _ hv

theorem pres_evalOr (hr : RecWF r) (ρ : Env) : ∀ (es : List Datum) (n0 : Nat), EnvOK n0 ρ →
    PresFrom n0 (evalOr r ρ es) ValOK
  | [], _, _ => PresFrom.pureV _ (by simp)
  | [e], n0, hρ => by simpa [evalOr] using hr.eval n0 e ρ hρ
  | e :: e' :: es, n0, hρ => by
    simp only [evalOr]
    refine PresFrom.bind (hr.eval n0 e ρ hρ) (fun v n1 h1 hv => ?_)
    split
    · exact PresFrom.pureV _ hv
    · exact pres_evalOr hr ρ (e' :: es) n1 (hρ.mono h1)

/-! ## store-level helpers -/

theorem pres_readVar (l : Loc) : PresFrom n0 (readVar l) ValOK := by
  unfold readVar
  refine PresFrom.bind (pres_readCell l) (fun c n1 _ hc => ?_)
  cases c with
  | var v => exact PresFrom.pureV _ hc
  | _ => exact PresFrom.throw _

theorem pres_readPair (v : Val) : PresFrom n0 (readPair v) PairOK := by
  unfold readPair
  cases v with
  | pair l =>
    refine PresFrom.bind (pres_readCell l) (fun c n1 _ hc => ?_)
    cases c with
    | pair a d => exact PresFrom.pure _ (fun _ hn => PairOK.mono hn hc)
    | _ => exact PresFrom.throw _
  | _ => exact PresFrom.throw _

theorem pres_readVec (v : Val) : PresFrom n0 (readVec v) (fun n p => ValsOK n p.2) := by
  unfold readVec
  cases v with
  | vec l =>
    refine PresFrom.bind (pres_readCell l) (fun c n1 _ hc => ?_)
    cases c with
    | vec xs => exact PresFrom.pure _ (fun _ hn => ValsOK.mono hn hc)
    | _ => exact PresFrom.throw _
  | _ => exact PresFrom.throw _

theorem pres_cons (a d : Val) (ha : ValOK n0 a) (hd : ValOK n0 d) : PresFrom n0 (cons a d) ValOK := by
  unfold cons
  refine PresFrom.bind (pres_allocCell _ ⟨ha, hd⟩) (fun l n1 _ hl => ?_)
  exact PresFrom.pureV _ hl

theorem pres_allocVec (xs : List Val) (h : ValsOK n0 xs) : PresFrom n0 (allocVec xs) ValOK := by
  unfold allocVec
  refine PresFrom.bind (pres_allocCell _ h) (fun l n1 _ hl => ?_)
  exact PresFrom.pureV _ hl

theorem pres_allocListTail : ∀ (vs : List Val) (t : Val) (n0 : Nat), ValsOK n0 vs → ValOK n0 t →
    PresFrom n0 (allocListTail vs t) ValOK
  | [], t, _, _, ht => PresFrom.pureV _ ht
  | v :: vs, t, n0, h, ht => by
    simp only [valsOK_cons] at h
    simp only [allocListTail]
    refine PresFrom.bind (pres_allocListTail vs t n0 h.2 ht) (fun r n1 h1 hr => ?_)
    exact pres_cons v r (h.1.mono h1) hr

theorem pres_allocList : ∀ (vs : List Val) (n0 : Nat), ValsOK n0 vs → PresFrom n0 (allocList vs) ValOK
  | [], _, _ => PresFrom.pureV _ (by simp)
  | v :: vs, n0, h => by
    simp only [valsOK_cons] at h
    simp only [allocList]
    refine PresFrom.bind (pres_allocList vs n0 h.2) (fun r n1 h1 hr => ?_)
    exact pres_cons v r (h.1.mono h1) hr

theorem valsOK_listOfVal {n : Nat} (s : Array Cell) (hs : StoreOK n s) : ∀ (fuel : Nat) (v : Val)
    (xs : List Val), listOfVal fuel s v = some xs → ValsOK n xs := by
  intro fuel
  induction fuel with
  | zero =>
    intro v xs h
    cases v <;> simp [listOfVal] at h
    subst h; simp
  | succ fuel ih =>
    intro v xs h
    cases v with
    | nil => simp [listOfVal] at h; subst h; simp
    | pair l =>
      simp only [listOfVal] at h
      cases hl : s[l]? with
      | none => simp [hl] at h
      | some c =>
        cases c with
        | pair a d =>
          simp only [hl, Option.map_eq_some_iff] at h
          obtain ⟨ys, hy, rfl⟩ := h
          have := hs l _ hl
          simp only [valsOK_cons]
          exact ⟨this.1, ih d ys hy⟩
        | _ => simp [hl] at h
    | _ => simp [listOfVal] at h

theorem pres_getList (v : Val) : PresFrom n0 (getList v) ValsOK := by
  unfold getList
  refine PresFrom.bind pres_getStore (fun s n1 _ hs => ?_)
  cases h : listOfVal (s.size + 1) s v with
  | none => exact PresFrom.throw _
  | some xs => exact PresFrom.pureVs _ (valsOK_listOfVal s hs _ _ _ h)

theorem pres_getLists : ∀ (vs : List Val) (n0 : Nat),
    PresFrom n0 (getLists vs) (fun n ls => ∀ l ∈ ls, ValsOK n l)
  | [], _ => PresFrom.pure _ (by simp)
  | v :: vs, n0 => by
    simp only [getLists]
    refine PresFrom.bind (pres_getList v) (fun l n1 _ hl => ?_)
    refine PresFrom.bind (pres_getLists vs n1) (fun ls n2 h2 hls => ?_)
    refine PresFrom.pure _ (fun n hn l' hl' => ?_)
    simp only [List.mem_cons] at hl'
    rcases hl' with rfl | hl'
    · exact hl.mono (Nat.le_trans h2 hn)
    · exact (hls l' hl').mono hn

/-! ## data in and out -/

theorem pres_quote : ∀ (d : Datum) (n0 : Nat),
    PresFrom n0 (quoteVal d) ValOK ∧ PresFrom n0 (quoteElems d) ValsOK := by
  intro d
  induction d with
  | bool b => intro _; exact ⟨PresFrom.pureV _ (by simp), PresFrom.pureVs _ (by simp)⟩
  | char c => intro _; exact ⟨PresFrom.pureV _ (by simp), PresFrom.pureVs _ (by simp)⟩
  | nil => intro _; exact ⟨PresFrom.pureV _ (by simp), PresFrom.pureVs _ (by simp)⟩
  | num n =>
    intro _
    refine ⟨?_, PresFrom.pureVs _ (by simp)⟩
    simp only [quoteVal]
    cases intOfNum n with
    | none => exact PresFrom.throw _
    | some i => exact PresFrom.pureV _ (by simp)
  | str s => intro _; exact ⟨PresFrom.pureV _ (by simp), PresFrom.pureVs _ (by simp)⟩
  | sym s => intro _; exact ⟨PresFrom.pureV _ (by simp), PresFrom.pureVs _ (by simp)⟩
  | pair a d iha ihd =>
    intro n0
    refine ⟨?_, ?_⟩
    · simp only [quoteVal]
      refine PresFrom.bind (iha n0).1 (fun a' n1 _ ha' => ?_)
      refine PresFrom.bind (ihd n1).1 (fun d' n2 h2 hd' => ?_)
      exact pres_cons a' d' (ha'.mono h2) hd'
    · simp only [quoteElems]
      refine PresFrom.bind (iha n0).1 (fun a' n1 _ ha' => ?_)
      refine PresFrom.bind (ihd n1).2 (fun d' n2 h2 hd' => ?_)
      exact PresFrom.pureVs _ (by simp [ha'.mono h2, hd'])
  | vec e ih =>
    intro n0
    refine ⟨?_, PresFrom.pureVs _ (by simp)⟩
    simp only [quoteVal]
    refine PresFrom.bind (ih n0).2 (fun xs n1 _ hxs => ?_)
    exact pres_allocVec xs hxs
  | continuation => intro _; exact ⟨PresFrom.throw _, PresFrom.pureVs _ (by simp)⟩
  | macro_ => intro _; exact ⟨PresFrom.throw _, PresFrom.pureVs _ (by simp)⟩
  | procedure d => intro _; exact ⟨PresFrom.throw _, PresFrom.pureVs _ (by simp)⟩
  | undefined => intro _; exact ⟨PresFrom.pureV _ (by simp), PresFrom.pureVs _ (by simp)⟩
  | void => intro _; exact ⟨PresFrom.pureV _ (by simp), PresFrom.pureVs _ (by simp)⟩

theorem pres_quoteVal (d : Datum) : PresFrom n0 (quoteVal d) ValOK := (pres_quote d n0).1

theorem pres_externalise (v : Val) : PresFrom n0 (externalise v) (fun _ _ => True) := by
  unfold externalise
  refine PresFrom.bind pres_getStore (fun s n1 _ _ => ?_)
  exact PresFrom.pureT _

end Marwood.Spec.Eval
