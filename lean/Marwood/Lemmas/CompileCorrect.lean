import Marwood.Lemmas.CompileCorrectApp
/-!
# T01.3 stage 1 — compiler correctness for the closure-free fragment on the model machine

Main results (for every heap type `H`, operations record `ops : HeapOps H`, representation `D : RepData ops`
satisfying `L : RepLaws D`; see `CompileCorrectDefs.lean` for the definitions and the assumptions):

* `compileExpr_correct` — for `e` in the fragment `Frag` (constants, `(quote atom)`, global reference,
  `set!` of a global, one- and two-armed `if`, application): if the compiler model emits `code` for `e`
  at offset `base` (top-level binding context, either `tail` flag) and `Spec.Eval` evaluates `e` to `w`
  taking state `σ` to `σ'` (any fuel), then from every machine state whose current lambda contains `code`
  at `base = ip.1` (anything before and after it), whose heap represents `σ`, the machine runs — without
  halting or failing — to a state with the same `ip.0`, `bp`, `ep`, `ip.1 = base + code.length`, the same
  live stack, a representation of `w` in `acc`, and a heap that represents `σ'` (`ExprRun`).
* `compileDefine_correct` — the same for the top-level form `(define x e)` against `evalTopForm`.
* `compileArgs_correct` — operand lists: values pushed left to right.

Only the success case of the specification is covered: nothing is claimed when `Spec.Eval` returns an error
or runs out of fuel.
-/
namespace Marwood.Lemmas.CompileCorrect
open Marwood Marwood.Vm
open Marwood.Spec.Eval (Val Prim Cell evalN evalStep applyStep evalArgs properList quoteVal kwOf insertG
  k_quote k_if_ k_setBang k_define evalTopForm)

variable {H : Type} {ops : HeapOps H} {D : RepData ops}

theorem exprOK_succ (L : RepLaws D) {fuel : Nat} (ihE : ExprOK D fuel) (ihA : ArgsOK D fuel) :
    ExprOK D (fuel + 1) := by
  intro cst base tail e cst' code hf hcomp n σ w σ' hev s hc hip hsr hw
  cases n with
  | zero => cases hev
  | succ n =>
    change evalStep (evalN n) e [] σ = .ok w σ' at hev
    cases hf with
    | bool b =>
      have := compile_const_inv (.inl ⟨b, rfl⟩) hcomp
      subst this; subst hip
      exact run_atom (.inl rfl) hev hc hsr hw
    | char c =>
      have := compile_const_inv (.inr (.inl ⟨c, rfl⟩)) hcomp
      subst this; subst hip
      exact run_atom (.inl rfl) hev hc hsr hw
    | num m =>
      have := compile_const_inv (.inr (.inr (.inl ⟨m, rfl⟩))) hcomp
      subst this; subst hip
      exact run_atom (.inr ⟨m, rfl⟩) hev hc hsr hw
    | str t =>
      have := compile_const_inv (.inr (.inr (.inr ⟨t, rfl⟩))) hcomp
      subst this; subst hip
      exact run_atom (.inl rfl) hev hc hsr hw
    | sym x =>
      have := compile_sym_inv hcomp
      subst this; subst hip
      exact run_sym L hev hc hsr hw
    | quote d rest hd =>
      have := compile_quote_inv hcomp
      subst this; subst hip
      rw [evalStep_quote] at hev
      exact run_atom hd hev hc hsr hw
    | setBang x e hfe => exact case_setBang L ihE hfe hcomp hev hc hip hsr hw
    | if2 t c hft hfc => exact case_if2 L ihE hft hfc hcomp hev hc hip hsr hw
    | if3 t c a hft hfc hfa => exact case_if3 L ihE hft hfc hfa hcomp hev hc hip hsr hw
    | app f args hh hff hfr => exact case_app L ihE ihA hh hff hfr hcomp hev hc hip hsr hw

theorem both_ok (L : RepLaws D) : ∀ fuel, ExprOK D fuel ∧ ArgsOK D fuel
  | 0 => ⟨by intro cst base tail e cst' code _ hcomp; simp [compileExpr] at hcomp,
          by intro cst base rest cst' code k _ hcomp; simp [compileArgs] at hcomp⟩
  | fuel + 1 =>
    have ih := both_ok L fuel
    ⟨exprOK_succ L ih.1 ih.2, argsOK_succ ih.1 ih.2⟩

/-- **Compiler correctness, closure-free fragment** (success case). -/
theorem compileExpr_correct (L : RepLaws D) (fuel : Nat) (cst : CState) (base : Nat) (tail : Bool) (e : Datum)
    (cst' : CState) (code : List BC) (hf : Frag e)
    (hcomp : compileExpr fuel cst c0 base tail e = .ok (cst', code))
    (n : Nat) (σ : SSt) (w : Val) (σ' : SSt) (hev : (evalN n).eval e [] σ = .ok w σ')
    (s : MSt H) (hc : CodeAt D s.heap σ.store s.ipL base code) (hip : s.ipO = base)
    (hsr : SR D s.heap σ) (hw : SWF s.stack) :
    ∃ s', ExprRun D s code.length σ σ' w s' :=
  (both_ok L fuel).1 cst base tail e cst' code hf hcomp n σ w σ' hev s hc hip hsr hw

/-- Operand lists: the values are pushed left to right, the rest of the machine state is as for expressions. -/
theorem compileArgs_correct (L : RepLaws D) (fuel : Nat) (cst : CState) (base : Nat) (rest : Datum)
    (cst' : CState) (code : List BC) (k : Nat) (hf : FragList rest)
    (hcomp : compileArgs fuel cst c0 base rest = .ok (cst', code, k))
    (n : Nat) (σ : SSt) (es : List Datum) (ws : List Val) (σ' : SSt) (hpl : properList rest = some es)
    (hev : evalArgs (evalN n) [] es σ = .ok ws σ')
    (s : MSt H) (hc : CodeAt D s.heap σ.store s.ipL base code) (hip : s.ipO = base)
    (hsr : SR D s.heap σ) (hw : SWF s.stack) :
    ∃ s' vs, ArgsRun D s code.length σ σ' ws vs s' ∧ k = vs.length :=
  (both_ok L fuel).2 cst base rest cst' code k hf hcomp n σ es ws σ' hpl hev s hc hip hsr hw

/-! ## `(define x e)` at top level -/

theorem define_tests :
    (Datum.sym k_define).isSymStr ['d','e','f','i','n','e'] = true := by decide

theorem compile_define_inv {fuel : Nat} {st st' : CState} {base : Nat} {tail : Bool} {code : List BC}
    {x : Text} {e : Datum}
    (h : compileExpr (fuel + 1) st c0 base tail
      (.pair (.sym k_define) (.pair (.sym x) (.pair e .nil))) = .ok (st', code)) :
    ∃ code1, compileExpr fuel st c0 base false e = .ok (st', code1) ∧
      code = code1 ++ [.op .mov, .acc, .global x, .op .movImm, .void, .acc] := by
  unfold compileExpr at h
  simp only [define_tests, if_true, Datum.isNil, Bool.false_eq_true, if_false, Bool.not_true] at h
  cases h1 : compileExpr fuel st c0 base false e with
  | error err => rw [h1] at h; cases h
  | ok r1 =>
    obtain ⟨st1, code1⟩ := r1
    rw [h1] at h
    simp only at h
    split at h
    · cases h
    · simp only [storeCode_c0] at h
      cases h
      exact ⟨code1, rfl, rfl⟩

theorem evalTopForm_define_inv {r : Spec.Eval.Rec} {x : Text} {e : Datum} {σ σ' : SSt} {w : Val}
    (h : evalTopForm r (.pair (.sym k_define) (.pair (.sym x) (.pair e .nil))) σ = .ok w σ') :
    ∃ v σ1, r.eval e [] σ = .ok v σ1 ∧ σ' = { σ1 with globals := insertG x v σ1.globals } ∧ w = .void := by
  have hd : Spec.Eval.isDefine (.pair (.sym k_define) (.pair (.sym x) (.pair e .nil))) = true := by
    simp [Spec.Eval.isDefine]
  simp only [evalTopForm, hd, if_true] at h
  obtain ⟨p, σ2, h1, h2⟩ := bind_ok_inv h
  obtain ⟨u, σ3, h3, h4⟩ := bind_ok_inv h2
  obtain ⟨hw, hs⟩ := pure_ok_inv h4
  simp only [Spec.Eval.defineValue] at h1
  split at h1
  · exact absurd h1 throw_ne_ok
  · obtain ⟨v, σ1, h5, h6⟩ := bind_ok_inv h1
    obtain ⟨hp, hs2⟩ := pure_ok_inv h6
    subst hp hs2
    refine ⟨v, σ2, h5, ?_, hw⟩
    change Spec.Eval.putGlobal x v σ2 = _ at h3
    unfold Spec.Eval.putGlobal at h3
    injection h3 with _ h7
    rw [hs, ← h7]

/-- **Top-level definition of a global** (success case): the code of `(define x e)` leaves a
    representation of the unspecified value in `acc` and a heap representing the state in which `x` is
    bound to the value of `e`. -/
theorem compileDefine_correct (L : RepLaws D) (fuel : Nat) (cst : CState) (base : Nat) (tail : Bool)
    (x : Text) (e : Datum) (cst' : CState) (code : List BC) (hfe : Frag e)
    (hcomp : compileExpr fuel cst c0 base tail
      (.pair (.sym k_define) (.pair (.sym x) (.pair e .nil))) = .ok (cst', code))
    (n : Nat) (σ : SSt) (w : Val) (σ' : SSt)
    (hev : evalTopForm (evalN n) (.pair (.sym k_define) (.pair (.sym x) (.pair e .nil))) σ = .ok w σ')
    (s : MSt H) (hc : CodeAt D s.heap σ.store s.ipL base code) (hip : s.ipO = base)
    (hsr : SR D s.heap σ) (hw : SWF s.stack) :
    ∃ s', ExprRun D s code.length σ σ' w s' := by
  cases fuel with
  | zero => simp [compileExpr] at hcomp
  | succ fuel =>
    obtain ⟨code1, hc1, rfl⟩ := compile_define_inv hcomp
    obtain ⟨v, σ1, he, rfl, rfl⟩ := evalTopForm_define_inv hev
    subst hip
    obtain ⟨s1, r1⟩ := compileExpr_correct L fuel _ _ _ _ _ _ hfe hc1 n σ v σ1 he s hc.left rfl hsr hw
    have hc2 := (r1.codeAfter hc.right).cast r1.ipO.symm
    obtain ⟨s2, r2⟩ := run_store L (x := x) hc2 r1.acc r1.sr r1.swf
    refine ⟨s2, ?_⟩
    have := r1.append r2
    simpa using this

/-- the number of machine steps exists as a number: `runN` is the counted iteration of `Vm.step` -/
theorem ExprRun.runN {s s' : MSt H} {len : Nat} {σ σ' : SSt} {w : Val} (r : ExprRun D s len σ σ' w s') :
    ∃ k, runN ops k s = some s' := r.steps.runN

end Marwood.Lemmas.CompileCorrect
