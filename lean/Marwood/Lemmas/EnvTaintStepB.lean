import Marwood.Lemmas.EnvTaintStepA
/-!
# "No value leads to a capturing lambda" across `run_one`, opcode by opcode (2): CONS VPUSH CLOSURE VARARG

The shape of `Lemmas/ProcInvStepB.lean`. CLOSURE takes `TInv`: `acc` may be the pointer to a capturing lambda the
`MOVIMM _ %acc` before it loaded; it is overwritten by the pointer to the new closure cell.
-/
namespace Marwood.Lemmas.Taint
open Marwood.Lemmas.Good Marwood Marwood.Vm Marwood.Vm.Verify Marwood.Vm.Concrete Marwood.Lemmas.Sim
open Marwood.Heap (GcState)
open StepB

/-- `put` of a stack value, with the heap returned named -/
theorem putV_pv {h h' : CHeap} (lf : LF h) (hp : HP h) {v r : VCell} (hv : valEB h v = true)
    (e : putV h v = (h', r)) : OpRes h h' ∧ neE h' r = true := by
  have := putV_res lf hp hv
  rw [e] at this
  exact this

theorem ptr_cap {h : CHeap} {a : Nat} (hn : neE h (.ptr a) = true) : capAt h a = false := by
  simpa using hn

/-! ## the list-building loop of VARARG -/

section
variable {ext : ExtOps}

theorem varargCollect_pv : ∀ (k : Nat) {h h' : CHeap} {acc l : Nat} {st st' : Stack} {B : Nat},
    varargCollect (concreteOps ext) k h acc st = .ok (h', l, st') → LF h → HP h → capAt h acc = false →
    (∀ i v, i ≤ st.sp → st.sp < i + k → st.cells[i]? = some v → plainGlob v = true) → SM h st B →
    OpRes h h' ∧ capAt h' l = false ∧ st'.cells = st.cells ∧ st'.sp ≤ st.sp := by
  intro k
  induction k with
  | zero =>
    intro h h' acc l st st' B hr lf hp hacc _ _
    simp only [varargCollect] at hr
    cases hr
    exact ⟨.refl hp lf, hacc, rfl, Nat.le_refl _⟩
  | succ k ih =>
    intro h h' acc l st st' B hr lf hp hacc hc hsm
    simp only [varargCollect, concreteOps] at hr
    obtain ⟨⟨v, st1⟩, hpop, hr⟩ := bind_ok hr
    simp only at hr
    generalize e1 : putV h v = r1 at hr
    obtain ⟨h1, a1⟩ := r1
    simp only at hr
    obtain ⟨a, ha, hr⟩ := bind_ok hr
    generalize e2 : putV h1 (.pair a acc) = r2 at hr
    obtain ⟨h2, p2⟩ := r2
    simp only at hr
    obtain ⟨p, hp2, hr⟩ := bind_ok hr
    obtain ⟨hpos, hcell, rfl⟩ := pop_inv hpop
    have hv := hc st.sp v (Nat.le_refl _) (by omega) hcell
    have hvn : neE h v = true := hsm _ _ (.inr (Nat.le_refl _)) hcell
    obtain ⟨r1, n1⟩ := putV_pv lf hp (valEB_of_value hv hvn) e1
    cases asPtr_inv ha
    have hacc1 : capAt h1 acc = false := by rw [r1.ls.capE]; exact hacc
    obtain ⟨r2, n2⟩ := putV_pv r1.lf r1.hp (valEB_pair (ptr_cap n1) hacc1) e2
    cases asPtr_inv hp2
    have hsm2 : SM h2 { st with sp := st.sp - 1 } B := (hsm.resp (st' := { st with sp := st.sp - 1 }) rfl (.inr (by show st.sp - 1 ≤ st.sp; omega))).heap (r1.trans r2).eshr
    obtain ⟨r3, k2, k3, k4⟩ := ih hr r2.lf r2.hp (ptr_cap n2)
      (fun i w hi hlt hw => hc i w (by simp only at hi; omega) (by simp only at hlt; omega) hw) hsm2
    exact ⟨(r1.trans r2).trans r3, k2, k3, by simp only at k4; omega⟩

end

/-! ## the instructions -/

section
variable {ext : ExtOps} {s0 : St CHeap}

theorem pv_cons {s' : St CHeap} {b : Bool} (lf : LF s0.heap) (sd : StackDisc s0) (p : PInv s0) (hop : opAt s0 .cons)
    (hx : exec (concreteOps ext) .cons (nx s0) = .ok (s', b)) : PInv s' := by
  unfold exec at hx
  obtain ⟨⟨d, st1⟩, hp1, hx⟩ := bind_ok hx
  simp only [concreteOps] at hx
  generalize e1 : putV s0.heap d = r1 at hx
  obtain ⟨h1, d1⟩ := r1
  simp only at hx
  obtain ⟨⟨a, st2⟩, hp2, hx⟩ := bind_ok hx
  simp only at hx
  generalize e2 : putV h1 a = r2 at hx
  obtain ⟨h2, a1⟩ := r2
  simp only at hx
  obtain ⟨a', ha, hx⟩ := bind_ok hx
  obtain ⟨d', hd, hx⟩ := bind_ok hx
  generalize e3 : putV h2 (.pair a' d') = r3 at hx
  obtain ⟨h3, pp⟩ := r3
  simp only at hx
  cases hx
  obtain ⟨hpos1, hc1, rfl⟩ := pop_inv hp1
  obtain ⟨hpos2, hc2, rfl⟩ := pop_inv hp2
  have hc1' : s0.stack.cells[s0.stack.sp]? = some d := hc1
  have hc2' : s0.stack.cells[s0.stack.sp - 1]? = some a := hc2
  have hpos1' : 0 < s0.stack.sp := hpos1
  have pd := sd.cons hop _ d (Nat.le_refl _) (by omega) hc1'
  have pa := sd.cons hop _ a (by omega) (by omega) hc2'
  have nd : neE s0.heap d = true := p.stk _ _ (Nat.le_refl _) hc1'
  have na : neE s0.heap a = true := p.stk _ _ (by omega) hc2'
  obtain ⟨r1, n1⟩ := putV_pv lf p.hp (valEB_of_value pd nd) e1
  obtain ⟨r2, n2⟩ := putV_pv r1.lf r1.hp (r1.valEB (valEB_of_value pa na)) e2
  cases asPtr_inv ha
  cases asPtr_inv hd
  have hd2 : capAt h2 d' = false := by rw [r2.ls.capE]; exact ptr_cap n1
  obtain ⟨r3, n3⟩ := putV_pv r2.lf r2.hp (valEB_pair (ptr_cap n2) hd2) e3
  refine PInv.mkRes (s := s0) ((r1.trans r2).trans r3) n3 (B := s0.stack.sp) (p.sm.resp (st' := { s0.stack with sp := s0.stack.sp - 1 - 1 }) rfl (.inl ?_))
  show s0.stack.sp - 1 - 1 ≤ s0.stack.sp
  omega

theorem pv_vpush {s' : St CHeap} {b : Bool} (ep : ExtTaint ext) (g : GoodI s0) (lf : LF s0.heap) (p : PInv s0)
    (hx : exec (concreteOps ext) .vpushAcc (nx s0) = .ok (s', b)) : PInv s' := by
  unfold exec at hx
  obtain ⟨⟨v, st1⟩, hp1, hx⟩ := bind_ok hx
  obtain ⟨h', h2, hx⟩ := bind_ok hx
  cases hx
  obtain ⟨hpos, hcell, rfl⟩ := pop_inv hp1
  have hcell' : s0.stack.cells[s0.stack.sp]? = some v := hcell
  have nv : neE s0.heap v = true := p.stk _ _ (Nat.le_refl _) hcell'
  obtain ⟨hp', es⟩ := ep.vpush s0.heap (deref s0.heap v) s0.acc h' p.hp lf g.accv p.acc h2
  refine ⟨hp', es.neE nv, ((p.sm.resp (st' := { s0.stack with sp := s0.stack.sp - 1 }) rfl (.inr ?_)).heap es).stk⟩
  show s0.stack.sp - 1 ≤ s0.stack.sp
  omega

theorem pv_closure {s' : St CHeap} {b : Bool} (g : GoodI s0) (lf : LF s0.heap) (p : TInv s0)
    (hx : exec (concreteOps ext) .closureAcc (nx s0) = .ok (s', b)) : PInv s' := by
  unfold exec at hx
  obtain ⟨lam, h1, hx⟩ := bind_ok hx
  obtain ⟨⟨h', c⟩, h2, hx⟩ := bind_ok hx
  cases hx
  have hno : ∀ l, lambdaAt s0.heap lam = some l → ∀ x ∈ l.envmap, ∀ n, x.2 ≠ Source.iofArg n :=
    fun l hl => (g.hg.lam _ l (lambdaAt_cell hl)).noIof
  obtain ⟨r, hc⟩ := makeClosure_res lf p.hp hno h2
  exact PInv.mkRes (s := s0) r hc p.sm

theorem pv_varArg {s' : St CHeap} {b : Bool} (lf : LF s0.heap) (sd : StackDisc s0) (p : PInv s0) (hop : opAt s0 .varArg)
    (hx : exec (concreteOps ext) .varArg (nx s0) = .ok (s', b)) : PInv s' := by
  unfold exec at hx
  obtain ⟨s1, h1, hx⟩ := bind_ok hx
  cases hx
  unfold stepVarArg at h1
  simp only [concreteOps] at h1
  cases hl : lambdaAt s0.heap s0.ipL with
  | none => simp [hl] at h1
  | some lam =>
    simp only [hl, Option.map_some] at h1
    obtain ⟨req, hreq, h1⟩ := bind_ok h1
    obtain ⟨argc, hargc, h1⟩ := bind_ok h1
    obtain ⟨va, hva, hargc⟩ := bind_ok hargc
    cases asArgc_inv hargc
    obtain ⟨nn2, hcA⟩ := getOffset_inv hva
    have e2 : ((s0.stack.sp : Int) + -2).toNat = s0.stack.sp - 2 := by omega
    have hcA' : s0.stack.cells[s0.stack.sp - 2]? = some (.argc argc) := by rw [← e2]; exact hcA
    have ab := sd.enter (.inr hop) argc hcA'
    split at h1
    · cases h1
    · rename_i hge
      split at h1
      · rename_i heq
        obtain ⟨v, hv, h1⟩ := bind_ok h1
        generalize e1 : putV s0.heap v = r1 at h1
        obtain ⟨hp1, a1⟩ := r1
        simp only at h1
        generalize e2' : putV hp1 .nil = r2 at h1
        obtain ⟨hp2, n1⟩ := r2
        simp only at h1
        obtain ⟨a', ha, h1⟩ := bind_ok h1
        obtain ⟨n', hn, h1⟩ := bind_ok h1
        generalize e3 : putV hp2 (.pair a' n') = r3 at h1
        obtain ⟨hp3, pp⟩ := r3
        simp only at h1
        obtain ⟨st, hst, h1⟩ := bind_ok h1
        cases h1
        obtain ⟨nn3, hcV⟩ := getOffset_inv hv
        have e3' : ((s0.stack.sp : Int) + -3).toNat = s0.stack.sp - 3 := by omega
        have hcV' : s0.stack.cells[s0.stack.sp - 3]? = some v := by rw [← e3']; exact hcV
        have pv := ab _ v (by omega) (by omega) hcV'
        have nv : neE s0.heap v = true := p.stk _ _ (by omega) hcV'
        obtain ⟨r1, m1⟩ := putV_pv lf p.hp (valEB_of_value pv nv) e1
        obtain ⟨r2, m2⟩ := putV_pv r1.lf r1.hp (v := .nil) rfl e2'
        cases asPtr_inv ha
        cases asPtr_inv hn
        have ha2 : capAt hp2 a' = false := by rw [r2.ls.capE]; exact ptr_cap m1
        obtain ⟨r3, m3⟩ := putV_pv r2.lf r2.hp (valEB_pair ha2 (ptr_cap m2)) e3
        have rr := (r1.trans r2).trans r3
        have hsm : SM hp3 st s0.stack.sp := (p.sm.heap rr.eshr).setOffset m3 hst
        exact ⟨rr.hp, rr.neE p.acc, hsm.stk⟩
      · rename_i hne
        obtain ⟨⟨c1, st1⟩, hq1, h1⟩ := bind_ok h1
        obtain ⟨⟨c2, st2⟩, hq2, h1⟩ := bind_ok h1
        obtain ⟨⟨c3, st3⟩, hq3, h1⟩ := bind_ok h1
        simp only at h1
        generalize e1 : putV s0.heap .nil = r1 at h1
        obtain ⟨hp1, n1⟩ := r1
        simp only at h1
        obtain ⟨n', hn, h1⟩ := bind_ok h1
        obtain ⟨⟨hp2, lst, st4⟩, hcol, h1⟩ := bind_ok h1
        cases h1
        obtain ⟨pos1, hc1, rfl⟩ := pop_inv hq1
        obtain ⟨pos2, hc2, rfl⟩ := pop_inv hq2
        obtain ⟨pos3, _, rfl⟩ := pop_inv hq3
        have pos1' : 0 < s0.stack.sp := pos1
        have pos2' : 0 < s0.stack.sp - 1 := pos2
        have pos3' : 0 < s0.stack.sp - 1 - 1 := pos3
        have hc1' : s0.stack.cells[s0.stack.sp]? = some c1 := hc1
        have hc2' : s0.stack.cells[s0.stack.sp - 1]? = some c2 := hc2
        have nc1 : neE s0.heap c1 = true := p.stk _ _ (Nat.le_refl _) hc1'
        have nc2 : neE s0.heap c2 = true := p.stk _ _ (by omega) hc2'
        obtain ⟨r1, m1⟩ := putV_pv lf p.hp (v := .nil) rfl e1
        cases asPtr_inv hn
        have hsm1 : SM hp1 { s0.stack with sp := s0.stack.sp - 1 - 1 - 1 } s0.stack.sp :=
          (p.sm.resp (st' := { s0.stack with sp := s0.stack.sp - 1 - 1 - 1 }) rfl
            (.inl (by show s0.stack.sp - 1 - 1 - 1 ≤ s0.stack.sp; omega))).heap r1.eshr
        obtain ⟨r2, k2, k3, k4⟩ := varargCollect_pv _ hcol r1.lf r1.hp (ptr_cap m1)
          (fun i w hi hlt hw => by
            have hi' : i ≤ s0.stack.sp - 1 - 1 - 1 := hi
            have hlt' : s0.stack.sp - 1 - 1 - 1 < i + (argc - req) := hlt
            have hw' : s0.stack.cells[i]? = some w := hw
            exact ab i w (by omega) (by omega) hw') hsm1
        have rr := r1.trans r2
        have k4' : st4.sp ≤ s0.stack.sp - 1 - 1 - 1 := k4
        have hsm4 : SM hp2 st4 s0.stack.sp := (hsm1.heap r2.eshr).resp k3 (.inl (by omega))
        have nl : neE hp2 (.ptr lst) = true := by simp only [neE_ptr, k2]; rfl
        have hfin := (((hsm4.push nl).push (v := .argc (req + 1)) rfl).push (rr.neE nc2)).push (rr.neE nc1)
        exact ⟨rr.hp, rr.neE p.acc, hfin.stk⟩

end

end Marwood.Lemmas.Taint
