import Marwood.Store.Prelude
import Marwood.Store.CharOps
/-!
# C06 "Total API": model additions

* `isListTH` — `list?` of `predicate.rs` after the repair `3d7bbb6` (a second cursor at half speed;
  the answer is `#f` as soon as both cursors are about to step onto the same pair).
* `Store.WF` / `VCell.Valid` — what the VM guarantees about the values a builtin can be handed:
  every heap reference is inside the heap, every vector / string payload id exists. Without this
  the Store model answers `panic "heap index out of bounds"` (as the Rust code would on a wild
  pointer); the non-panic theorems are stated for well-formed stores and valid arguments.
* `Render` — model of `error.rs` `Display` (the `#[error("…")]` strings): which arithmetic the
  format arguments perform (T06.4).

Core Lean only (the driver links this file).
-/
namespace Marwood.Store
open Outcome

/-! ## `list?` with the half-speed cursor -/

/-- the loop of `is_list`; `rest` / `slow` are dereferenced cells, `step` = `step_slow` -/
def isListTHLoop : Nat → Store → VCell → VCell → Bool → Outcome Bool
  | 0, _, _, _, _ => .diverge
  | f+1, s, rest, slow, step =>
    if !rest.isPair then .ok rest.isNil
    else do
      let next ← rest.asCdr
      if step then do
        let slowNext ← slow.asCdr
        if next == slowNext then .ok false
        else do
          let slow' ← s.get slowNext
          let rest' ← s.get next
          isListTHLoop f s rest' slow' false
      else do
        let rest' ← s.get next
        isListTHLoop f s rest' slow true

def isListTH (fuel : Nat) (s : Store) : List VCell → Res
  | [x] => do
    let c ← s.get x
    let b ← isListTHLoop fuel s c c false
    .ok (s, .bool b)
  | _ => .err .arity

/-! ## well-formed stores -/

/-- a value as it sits on the stack, in a pair field or in a vector slot -/
def VCell.Valid (s : Store) : VCell → Prop
  | .ptr a => a < s.cells.length
  | .pair a d => a < s.cells.length ∧ d < s.cells.length
  | .vec id => id < s.vecs.length
  | .str id => id < s.strs.length
  | _ => True

instance (s : Store) (v : VCell) : Decidable (VCell.Valid s v) := by
  cases v <;> unfold VCell.Valid <;> infer_instance

/-- every heap cell and every vector slot is valid -/
structure Store.WF (s : Store) : Prop where
  cells : ∀ c ∈ s.cells, VCell.Valid s c
  vecs : ∀ xs ∈ s.vecs, ∀ x ∈ xs, VCell.Valid s x

/-! ## rendering of errors (`error.rs`) -/

/-- the variants of `marwood::error::Error` whose `Display` does arithmetic or renders data;
    the payloads are the already-rendered pieces -/
inductive ErrorV
  | errorSignal (parts : List String)
  | expectedType (a b : String)
  | expectedPairButFound (cell : String)
  | invalidArgs (a b c : String)
  | invalidNumArgs (p : String)
  | invalidBytecode
  | invalidProcedure (cell : String)
  | invalidStackIndex (i : Nat)
  | invalidUsePrimitive (p : String)
  | invalidSyntax (m : String)
  | lambdaMissingExpression
  | misplacedMacroKeyword (k : String)
  | variableNotBound (v : String)
  | unquotedNil
  | invalidVectorIndex (idx len : Nat)
  | invalidStringIndex (idx len : Nat)
  | parseError (m : String)
  | lexError (m : String)

/-- `.1.saturating_sub(1)` (after `9789244`; before it was `.1 - 1`, which panics for `len = 0`) -/
def satSub1 (n : Nat) : Outcome Nat := .ok (n - 1)

/-- the pinned `.1 - 1` for comparison: checked `usize` subtraction -/
def pinnedSub1 (n : Nat) : Outcome Nat := usub "error.rs: len - 1" n 1

def render : ErrorV → Outcome String
  | .errorSignal parts => .ok (" ".intercalate parts)
  | .expectedType a b => .ok s!"expected {a} but encountered {b}"
  | .expectedPairButFound c => .ok s!"expected pair, but found {c}"
  | .invalidArgs a b c => .ok s!"invalid argument for {a}: expected {b}, but got {c}"
  | .invalidNumArgs p => .ok s!"invalid number of arguments for {p}"
  | .invalidBytecode => .ok "invalid bytecode"
  | .invalidProcedure c => .ok s!"call of non-procedure: {c}"
  | .invalidStackIndex i => .ok s!"invalid stack index: {i}"
  | .invalidUsePrimitive p => .ok s!"invalid use of primitive {p}"
  | .invalidSyntax m => .ok s!"invalid syntax: {m}"
  | .lambdaMissingExpression => .ok "lambda require at least one expression"
  | .misplacedMacroKeyword k => .ok s!"misplaced macro keyword {k}"
  | .variableNotBound v => .ok s!"{v} is not bound"
  | .unquotedNil => .ok "invalid syntax: () must be quoted"
  | .invalidVectorIndex idx len => do
    let hi ← satSub1 len
    .ok s!"vector index {idx} out of range of 0..{hi}"
  | .invalidStringIndex idx len => do
    let hi ← satSub1 len
    .ok s!"string index {idx} out of range of 0..{hi}"
  | .parseError m => .ok m
  | .lexError m => .ok m

/-- the pinned rendering of the two index errors (`.1 - 1`) -/
def renderPinned : ErrorV → Outcome String
  | .invalidVectorIndex idx len => do
    let hi ← pinnedSub1 len
    .ok s!"vector index {idx} out of range of 0..{hi}"
  | .invalidStringIndex idx len => do
    let hi ← pinnedSub1 len
    .ok s!"string index {idx} out of range of 0..{hi}"
  | e => render e

end Marwood.Store
