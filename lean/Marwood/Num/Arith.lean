import Marwood.Num.Rep
import Marwood.Num.F64
/-!
# Model of the arithmetic of `marwood::number::Number` and of the numeric procedures

Anchors: `marwood/src/number.rs` (`Add Sub Mul Div` for `&Number`, `quotient`, `Rem`, `modulo`,
`abs floor ceil truncate round numerator denominator pow`) and `marwood/src/vm/builtin/number.rs`
(`plus minus multiply divide quotient remainder modulo abs floor ceiling truncate numerator
denominator expt`), as of the `fix:` commits 301e76d, 5bfb138, fcf9000, 7762e0a (quotient/remainder/modulo
at the integer boundaries; division, expt, abs, floor, ceiling without 32-bit overflow; expt of an
integer-valued rational).

Conventions
* `i64`/`i32` are `Int` with explicit range checks where Rust checks (`checked_*`), `BigInt` is `Int`.
* Rust `/` and `%` on signed integers are `Int.tdiv` / `Int.tmod`.
* `Ratio<i32>` is a pair `(n, d)`; the library routines are modelled from num-rational 0.4.1:
  `checked_add/sub/mul/div` return `none` where a `checked_mul/checked_add` of parts fails, which is
  where `number.rs` falls back to doubles.  `Ratio::new` is only reached with a positive
  denominator from these routines, so its sign normalisation (the source of the pre-fix panics)
  is not taken; `reduce` below is that case.  `gcd` of num-integer is Stein's algorithm with the
  mathematical result on every argument pair reachable from well-formed ratios.
* doubles are computed exactly by `Marwood.Fl` (F64.lean).
* outcomes are three-valued.  After the fixes the only panics left in this file's scope are
  divisions by an exact zero through the direct API (`Ratio::new` "denominator == 0", integer
  division by zero); the procedures reject a zero divisor before calling.
* operations outside the modelled domain (float operands of the unary operations, of `quotient`,
  `rem`, `pow`; `Rem` with a non-integer rational) answer `none` — the driver says `bad-op`.
Core Lean only.
-/
namespace Marwood.Arith
open Marwood

inductive Outcome (α : Type)
  | ok (v : α)
  | err (cls : String)
  | panic (site : String)
deriving DecidableEq, Repr

/-! ## machine integers -/

def chk64 (n : Int) : Option Int := if inI64 n then some n else none
def chk32 (n : Int) : Option Int := if inI32 n then some n else none

/-- `i64::checked_pow` / `i32::checked_pow` (by range of the exact power: the intermediate
    squarings of the library routine overflow only if the result does, except for bases 0, ±1
    where nothing grows) -/
def chkPow (inR : Int → Bool) (b : Int) (e : Nat) : Option Int :=
  let r := b ^ e
  if inR r then some r else none

/-! ## `Ratio<i32>` (num-rational 0.4.1) -/

abbrev Ratio := Int × Int

/-- `Ratio::new` / `reduce` for a positive denominator -/
def reduce (n d : Int) : Ratio :=
  if n == 0 then (0, 1)
  else if n == d then (1, 1)
  else
    let g : Int := Int.gcd n d
    (n.tdiv g, d.tdiv g)

def gcdI (a b : Int) : Int := Int.gcd a b

/-- `impl CheckedAdd for Ratio<i32>` -/
def checkedAdd (x y : Ratio) : Option Ratio := do
  let g := gcdI x.2 y.2
  let lcm ← chk32 (x.2.tdiv g * y.2)
  let ln ← chk32 (lcm.tdiv x.2 * x.1)
  let rn ← chk32 (lcm.tdiv y.2 * y.1)
  let s ← chk32 (ln + rn)
  pure (reduce s lcm)

/-- `impl CheckedSub for Ratio<i32>` -/
def checkedSub (x y : Ratio) : Option Ratio := do
  let g := gcdI x.2 y.2
  let lcm ← chk32 (x.2.tdiv g * y.2)
  let ln ← chk32 (lcm.tdiv x.2 * x.1)
  let rn ← chk32 (lcm.tdiv y.2 * y.1)
  let s ← chk32 (ln - rn)
  pure (reduce s lcm)

/-- `impl CheckedMul for Ratio<i32>` -/
def checkedMul (x y : Ratio) : Option Ratio := do
  let gad := gcdI x.1 y.2
  let gbc := gcdI x.2 y.1
  let n ← chk32 (x.1.tdiv gad * y.1.tdiv gbc)
  let d ← chk32 (x.2.tdiv gbc * y.2.tdiv gad)
  pure (reduce n d)

/-- the tail of `checked_div`: "Manual `reduce()`, avoiding sharp edges" -/
def divFinish (numer denom : Int) : Option Ratio :=
  if denom == 0 then none
  else if numer == 0 then some (0, 1)
  else if numer == denom then some (1, 1)
  else
    let g := gcdI numer denom
    let n := numer.tdiv g
    let d := denom.tdiv g
    if d < 0 then do
      let n' ← chk32 (n * (-1))
      let d' ← chk32 (d * (-1))
      pure (n', d')
    else some (n, d)

/-- `impl CheckedDiv for Ratio<i32>` -/
def libCheckedDiv (x y : Ratio) : Option Ratio :=
  if y.1 == 0 then none
  else if x.2 == y.2 then divFinish x.1 y.1
  else if x.1 == y.1 then divFinish y.2 x.2
  else do
    let gac := gcdI x.1 y.1
    let gbd := gcdI x.2 y.2
    let n ← chk32 (x.1.tdiv gac * y.2.tdiv gbd)
    let d ← chk32 (x.2.tdiv gbd * y.1.tdiv gac)
    divFinish n d

/-- `ratio_checked_div` of number.rs (fix 5bfb138): `0 / x` short-circuits -/
def checkedDiv (x y : Ratio) : Option Ratio :=
  if x.1 == 0 && y.1 != 0 then some (0, 1) else libCheckedDiv x y

/-- `Ord for Ratio<i32>` (the library compares by floored quotients and reciprocals of the
    remainders; for positive denominators that is the order of the cross products) -/
def ratioCmp (x y : Ratio) : Ordering :=
  let l := x.1 * y.2
  let r := y.1 * x.2
  if l < r then .lt else if l == r then .eq else .gt

/-! ## conversions to doubles -/

/-- `Number::to_f64` as used by the float fall-backs: `i64 as f64`, `BigInt::to_f64`,
    `Ratio<i32>::to_f64` -/
def toF : Num → F64
  | .fix n => Fl.ofInt n
  | .big n => Fl.ofInt n
  | .rat n d => Fl.ofRatio n d
  | .flo f => f

def flo2 (op : F64 → F64 → F64) (a b : Num) : Num := .flo (op (toF a) (toF b))

def ofRatio (r : Ratio) : Num := .rat r.1 r.2

/-- "a ratio when the checked routine succeeds, else the double fall-back" -/
def ratArm (q : Option Ratio) (fallback : Num) : Num :=
  match q with
  | some q => ofRatio q
  | none => fallback

/-! ## `Add`, `Sub`, `Mul` for `&Number` -/

def add (a b : Num) : Num :=
  match a, b with
  | .fix l, .fix r => match chk64 (l + r) with
    | some s => .fix s
    | none => .big (l + r)
  | .fix l, .big r => .big (r + l)
  | .fix l, .rat n d =>
    if inI32 l then
      ratArm (checkedAdd (l, 1) (n, d)) (flo2 Fl.add a b)
    else flo2 Fl.add a b
  | .big l, .fix r => .big (l + r)
  | .big l, .big r => .big (l + r)
  | .big l, .rat n d => if d == 1 then .big (l + n) else flo2 Fl.add a b
  | .rat n d, .fix r =>
    if inI32 r then
      ratArm (checkedAdd (r, 1) (n, d)) (flo2 Fl.add a b)
    else flo2 Fl.add a b
  | .rat n d, .big r => if d == 1 then .big (r + n) else flo2 Fl.add b a
  | .rat n d, .rat n' d' =>
    ratArm (checkedAdd (n, d) (n', d')) (flo2 Fl.add a b)
  | .flo _, _ => flo2 Fl.add a b
  | _, .flo _ => flo2 Fl.add a b

def sub (a b : Num) : Num :=
  match a, b with
  | .fix l, .fix r => match chk64 (l - r) with
    | some s => .fix s
    | none => .big (l - r)
  | .fix l, .big r => .big (l - r)
  | .fix l, .rat n d =>
    if inI32 l then
      ratArm (checkedSub (l, 1) (n, d)) (flo2 Fl.sub a b)
    else flo2 Fl.sub a b
  | .big l, .fix r => .big (l - r)
  | .big l, .big r => .big (l - r)
  | .big l, .rat n d => if d == 1 then .big (l - n) else flo2 Fl.sub a b
  | .rat n d, .fix r =>
    if inI32 r then
      ratArm (checkedSub (n, d) (r, 1)) (flo2 Fl.sub a b)
    else flo2 Fl.sub a b
  | .rat n d, .big r => if d == 1 then .big (n - r) else flo2 Fl.sub a b
  | .rat n d, .rat n' d' =>
    ratArm (checkedSub (n, d) (n', d')) (flo2 Fl.sub a b)
  | .flo _, _ => flo2 Fl.sub a b
  | _, .flo _ => flo2 Fl.sub a b

def mul (a b : Num) : Num :=
  match a, b with
  | .fix l, .fix r => match chk64 (l * r) with
    | some s => .fix s
    | none => .big (l * r)
  | .fix l, .big r => .big (r * l)
  | .fix l, .rat n d =>
    if inI32 l then
      ratArm (checkedMul (l, 1) (n, d)) (flo2 Fl.mul a b)
    else flo2 Fl.mul a b
  | .big l, .fix r => .big (l * r)
  | .big l, .big r => .big (l * r)
  | .big l, .rat n d => if d == 1 then .big (l * n) else flo2 Fl.mul a b
  | .rat n d, .fix r =>
    if inI32 r then
      ratArm (checkedMul (r, 1) (n, d)) (flo2 Fl.mul a b)
    else flo2 Fl.mul a b
  | .rat n d, .big r => if d == 1 then .big (r * n) else flo2 Fl.mul b a
  | .rat n d, .rat n' d' =>
    ratArm (checkedMul (n, d) (n', d')) (flo2 Fl.mul a b)
  | .flo _, _ => flo2 Fl.mul a b
  | _, .flo _ => flo2 Fl.mul a b

/-! ## `Div` -/

/-- `ratio_of_i32` (fix 5bfb138): reduce in 64 bits (`Rational64::new`, which normalises the
    sign), then a `Rational32` if both parts fit, an integer, or a double -/
def ratioOfI32 (n d : Int) : Outcome Num :=
  if d == 0 then .panic "Ratio::new: denominator == 0"
  else
    let q : Rat := Rat.divInt n d
    let n' := q.num
    let d' : Int := q.den
    if inI32 n' && inI32 d' then .ok (.rat n' d')
    else if d' == 1 then .ok (.fix n')
    else .ok (.flo (Fl.div (Fl.ofInt n) (Fl.ofInt d)))

/-- the integer value of `fix`/`big` if it fits an i32 -/
def asI32 : Num → Option Int
  | .fix n => chk32 n
  | .big n => chk32 n
  | _ => none

def ratOrFlo (q : Option Ratio) (a b : Num) : Num := ratArm q (flo2 Fl.div a b)

def div (a b : Num) : Outcome Num :=
  match a, b with
  | .flo _, _ => .ok (flo2 Fl.div a b)
  | _, .flo _ => .ok (flo2 Fl.div a b)
  | .rat n d, .rat n' d' => .ok (ratOrFlo (checkedDiv (n, d) (n', d')) a b)
  | .rat n d, _ =>
    match asI32 b with
    | some r => .ok (ratOrFlo (checkedDiv (n, d) (r, 1)) a b)
    | none => .ok (flo2 Fl.div a b)
  | _, .rat n d =>
    match asI32 a with
    | some l => .ok (ratOrFlo (checkedDiv (l, 1) (n, d)) a b)
    | none => .ok (flo2 Fl.div a b)
  | _, _ =>
    match asI32 a, asI32 b with
    | some l, some r => ratioOfI32 l r
    | _, _ => .ok (flo2 Fl.div a b)

/-! ## `quotient`, `Rem`, `modulo` on exact integer-valued operands -/

/-- integer value of an exact integer-valued number (`fix`, `big`, `rat n 1`) -/
def intVal? : Num → Option Int
  | .fix n => some n
  | .big n => some n
  | .rat n d => if d == 1 then some n else none
  | .flo _ => none

/-- `Number::quotient`.  `none`: operand outside the modelled domain (a double).
    `ok none` is Rust's `None` (non-integer rational). -/
def quotient (a b : Num) : Option (Outcome (Option Num)) :=
  match a, b with
  | .flo _, _ => none
  | _, .flo _ => none
  | .rat n d, .fix r =>
    if d != 1 then some (.ok none)
    else if r == 0 then some (.panic "i64 division by zero") else some (.ok (some (.fix (n.tdiv r))))
  | .rat n d, .big r =>
    if d != 1 then some (.ok none)
    else if r == 0 then some (.panic "BigInt division by zero") else some (.ok (some (.big (n.tdiv r))))
  | .rat n d, .rat n' d' =>
    if d != 1 then some (.ok none)
    else if d' != 1 then some (.ok none)
    else if n' == 0 then some (.panic "i64 division by zero")
    else some (.ok (some (.fix (n.tdiv n'))))
  | .fix l, .fix r =>
    if r == 0 then some (.panic "BigInt division by zero")
    else match chk64 (l.tdiv r) with
      | some q => some (.ok (some (.fix q)))
      | none => some (.ok (some (.big (l.tdiv r))))
  | .fix l, .big r => if r == 0 then some (.panic "BigInt division by zero") else some (.ok (some (.big (l.tdiv r))))
  | .fix l, .rat n d =>
    if d != 1 then some (.ok none)
    else if n == 0 then some (.panic "BigInt division by zero")
    else match chk64 (l.tdiv n) with
      | some q => some (.ok (some (.fix q)))
      | none => some (.ok (some (.big (l.tdiv n))))
  | .big l, .fix r => if r == 0 then some (.panic "BigInt division by zero") else some (.ok (some (.big (l.tdiv r))))
  | .big l, .big r => if r == 0 then some (.panic "BigInt division by zero") else some (.ok (some (.big (l.tdiv r))))
  | .big l, .rat n d =>
    if d != 1 then some (.ok none)
    else if n == 0 then some (.panic "BigInt division by zero")
    else some (.ok (some (.big (l.tdiv n))))

/-- `impl Rem for &Number` on exact integer-valued operands; `none` elsewhere -/
def rem (a b : Num) : Option (Outcome (Option Num)) :=
  match a, b with
  | .fix l, .fix r => if r == 0 then some (.panic "i64 remainder by zero") else some (.ok (some (.fix (l.tmod r))))
  | .fix l, .big r => if r == 0 then some (.panic "BigInt division by zero") else some (.ok (some (.big (l.tmod r))))
  | .fix l, .rat n d =>
    if d != 1 then none
    else if n == 0 then some (.panic "i64 remainder by zero") else some (.ok (some (.fix (l.tmod n))))
  | .big l, .fix r => if r == 0 then some (.panic "BigInt division by zero") else some (.ok (some (.big (l.tmod r))))
  | .big l, .big r => if r == 0 then some (.panic "BigInt division by zero") else some (.ok (some (.big (l.tmod r))))
  | .big l, .rat n d =>
    if d != 1 then none
    else if n == 0 then some (.panic "BigInt division by zero") else some (.ok (some (.big (l.tmod n))))
  | .rat n d, .fix r =>
    if d != 1 then none
    else if r == 0 then some (.panic "i64 remainder by zero") else some (.ok (some (.fix (n.tmod r))))
  | .rat n d, .big r =>
    if d != 1 then none
    else if r == 0 then some (.panic "BigInt division by zero") else some (.ok (some (.big (n.tmod r))))
  | .rat n d, .rat n' d' =>
    if d != 1 || d' != 1 then none
    else if n' == 0 then some (.panic "i32 remainder by zero") else some (.ok (some (.rat (n.tmod n') 1)))
  | _, _ => none

/-- `num < 0` / `num > 0` as used by `modulo` (`PartialOrd` against `Fixnum(0)`, which for an exact
    operand is the sign of the integer or of the numerator) -/
def numNeg : Num → Bool
  | .fix n => decide (n < 0)
  | .big n => decide (n < 0)
  | .rat n _ => decide (n < 0)
  | .flo _ => false

def numPos : Num → Bool
  | .fix n => decide (0 < n)
  | .big n => decide (0 < n)
  | .rat n _ => decide (0 < n)
  | .flo _ => false

/-- `Number::modulo` (fix 301e76d): remainder, moved to the side of the divisor when the signs differ -/
def modulo (a b : Num) : Option (Outcome (Option Num)) :=
  match rem a b with
  | some (.ok (some r)) =>
    if (numNeg r && numPos b) || (numPos r && numNeg b) then some (.ok (some (add r b)))
    else some (.ok (some r))
  | other => other

/-! ## unary operations on exact numbers (`none` for a double operand: outside the modelled domain) -/

def abs : Num → Option Num
  | .fix n => some (if n == i64Min then .big (-n) else .fix n.natAbs)
  | .big n => some (.big n.natAbs)
  | .rat n d =>
    some (match chk32 (if n < 0 then -n else n) with
      | some m => .rat m d
      | none => if d == 1 then .fix (-n) else .flo (Fl.abs (Fl.ofRatio n d)))
  | .flo _ => none

def floor : Num → Option Num
  | .rat n d => some (.rat (n.fdiv d) 1)
  | .flo _ => none
  | a => some a

def ceil : Num → Option Num
  | .rat n d => some (.rat (n.fdiv d + (if n.fmod d != 0 then 1 else 0)) 1)
  | .flo _ => none
  | a => some a

def truncate : Num → Option Num
  | .rat n d => some (.rat (n.tdiv d) 1)
  | .flo _ => none
  | a => some a

/-- `Ratio::round`: half-way cases away from zero -/
def round : Num → Option Num
  | .rat n d =>
    let t := n.tdiv d
    let r := n.tmod d
    let half := 2 * r.natAbs ≥ d.natAbs
    some (.rat (if half then (if n ≥ 0 then t + 1 else t - 1) else t) 1)
  | .flo _ => none
  | a => some a

def numerator : Num → Option Num
  | .rat n _ => some (.fix n)
  | .flo _ => none
  | a => some a

def denominator : Num → Option Num
  | .rat _ d => some (.fix d)
  | .flo _ => none
  | _ => some (.fix 1)

/-- the `Fixnum` arm of `Number::pow`: `i64::checked_pow`, else the `BigInt` power -/
def powFix (n : Int) (e : Nat) : Num :=
  match chkPow inI64 n e with
  | some r => .fix r
  | none => .big (n ^ e)

/-- `Number::pow` for an exact base (fix fcf9000: a rational power that leaves the i32 range is
    computed exactly as a `BigRational` and converted to a double once — `Ratio<BigInt>::to_f64`
    rounds to nearest-even with gradual underflow and overflow to ±inf; fix 7762e0a: when the base is an
    integer carried as a rational (`denom == 1`) that power is the integer power of the `Fixnum`
    arm).  Exponents beyond `i32::MAX` of a proper fraction take the `powf` path, which is not
    modelled. -/
def pow (a : Num) (e : Nat) : Option Num :=
  match a with
  | .fix n => some (powFix n e)
  | .big n => some (.big (n ^ e))
  | .rat n d =>
    match chkPow inI32 n e, chkPow inI32 d e with
    | some n', some d' => some (.rat n' d')
    | _, _ =>
      if d == 1 then some (powFix n e)
      else if e ≤ 2147483647 then some (.flo (Fl.rnd ((mkRat n d.toNat) ^ e))) else none
  | .flo _ => none

/-! the functions as they were before a `fix:` commit, kept for the `pinned_*` witnesses -/
namespace Pinned

/-- `Number::pow` before fix 7762e0a: every rational base whose numerator or denominator power
    leaves i32 answered with a double, also an integer-valued one -/
def pow (a : Num) (e : Nat) : Option Num :=
  match a with
  | .fix n => some (powFix n e)
  | .big n => some (.big (n ^ e))
  | .rat n d =>
    match chkPow inI32 n e, chkPow inI32 d e with
    | some n', some d' => some (.rat n' d')
    | _, _ => if e ≤ 2147483647 then some (.flo (Fl.rnd ((mkRat n d.toNat) ^ e))) else none
  | .flo _ => none

end Pinned

/-! ## the procedures of builtin/number.rs on number arguments (in source order) -/

/-- `Number::is_zero` (`self == Fixnum(0)`) on the operands that reach it here -/
def isZero : Num → Bool
  | .fix n => n == 0
  | .big n => n == 0
  | .rat n _ => n == 0
  | .flo f => match Fl.classify f with
    | .fin _ m => m.num == 0
    | _ => false

/-- `+`: `sum = 0; for each popped argument (last first): sum += arg` -/
def scmPlus (args : List Num) : Outcome Num := .ok (args.reverse.foldl add (.fix 0))

/-- `*` -/
def scmTimes (args : List Num) : Outcome Num := .ok (args.reverse.foldl mul (.fix 1))

/-- `-`: the arguments after the first are summed (last first) and subtracted from the first;
    a single argument is `(a - 0) * -1` -/
def scmMinus : List Num → Outcome Num
  | [] => .err "arity"
  | [a] => .ok (mul (sub a (.fix 0)) (.fix (-1)))
  | a :: rest => .ok (sub a (rest.reverse.foldl add (.fix 0)))

/-- `/` -/
def scmDivide : List Num → Outcome Num
  | [y] => if isZero y then .err "syntax" else div (.fix 1) y
  | [x, y] => if isZero y then .err "syntax" else div x y
  | _ => .err "arity"

/-- `pop_integer`'s test on exact numbers and doubles (`floor(x) == x`; true for ±inf) -/
def isInteger : Num → Bool
  | .fix _ => true
  | .big _ => true
  | .rat _ d => d == 1
  | .flo f => match Fl.classify f with
    | .nan => false
    | .inf _ => true
    | .fin _ m => m.den == 1

def scmIntOp (op : Num → Num → Option (Outcome (Option Num))) : List Num → Option (Outcome Num)
  | [x, y] =>
    -- y is popped (and checked) first
    if !isInteger y then some (.err "syntax")
    else if !isInteger x then some (.err "syntax")
    else if isZero y then some (.err "syntax")
    else match op x y with
      | none => none
      | some (.ok (some r)) => some (.ok r)
      | some (.ok none) => some (.err "syntax")
      | some (.err c) => some (.err c)
      | some (.panic s) => some (.panic s)
  | _ => some (.err "arity")

def scmQuotient := scmIntOp quotient
def scmRemainder := scmIntOp rem
def scmModulo := scmIntOp modulo

def scmUnary (op : Num → Option Num) : List Num → Option (Outcome Num)
  | [x] => (op x).map .ok
  | _ => some (.err "arity")

/-- `Number::to_u32` of the exponent (exact integer-valued) -/
def toU32 : Num → Option Nat
  | .fix n => if 0 ≤ n && n ≤ 4294967295 then some n.toNat else none
  | .big n => if 0 ≤ n && n ≤ 4294967295 then some n.toNat else none
  | .rat n d => if d == 1 && 0 ≤ n then some n.toNat else none
  | .flo _ => none

/-- `expt` -/
def scmExpt : List Num → Option (Outcome Num)
  | [x, e] =>
    match e with
    | .flo _ => none
    | _ =>
      if !isInteger e then some (.err "syntax")
      else match toU32 e with
        | none => some (.err "syntax")
        | some k => (pow x k).map .ok
  | _ => some (.err "arity")

end Marwood.Arith
