import Marwood.Num.Arith
/-!
# Model of numeric comparison

Anchors: `impl PartialEq for Number`, `impl PartialOrd for Number` (`marwood/src/number.rs`) as
of fix 63fa66b (exact comparison of exact numbers with doubles through
`exact_partial_cmp_f64`; integers outside the i32 range ordered against rationals by sign), and
`num_comp`, `num_unary_predicate`, `min`, `max` of `marwood/src/vm/builtin/number.rs`.

`x < y`, `x <= y`, `x > y`, `x >= y` on `&Number` are the default methods of `PartialOrd`, i.e.
tests on the result of `partial_cmp`; `x == y` is the separate `PartialEq::eq`.
Core Lean only.
-/
namespace Marwood.Cmp
open Marwood Marwood.Arith

/-- exact value of an exact number (`BigRational::from_integer`, `BigRational::new_raw`) -/
def exactRat : Num → Option Rat
  | .fix n => some n
  | .big n => some n
  | .rat n d => some (mkRat n d.toNat)
  | .flo _ => none

/-- `exact_partial_cmp_f64 (lhs, rhs)` for an exact `lhs` -/
def exactCmpF64 (lhs : Num) (rhs : F64) : Option Ordering :=
  match exactRat lhs with
  | none => none   -- not reached: callers pass exact numbers
  | some l =>
    match Fl.classify rhs with
    | .nan => none
    | .inf neg => some (if neg then .gt else .lt)
    | .fin s m => some (Fl.cmpRat l (Fl.sgn s m))

def Ordering.rev : Ordering → Ordering
  | .lt => .gt
  | .eq => .eq
  | .gt => .lt

def cmpInt (a b : Int) : Ordering := if a < b then .lt else if a == b then .eq else .gt

/-- `impl PartialOrd for Number` -/
def partialCmp (a b : Num) : Option Ordering :=
  match a, b with
  | .fix l, .fix r => some (cmpInt l r)
  | .fix l, .big r => some (cmpInt l r)
  | .big l, .fix r => some (cmpInt l r)
  | .big l, .big r => some (cmpInt l r)
  | .fix l, .rat n d => some (if inI32 l then ratioCmp (l, 1) (n, d) else cmpInt l 0)
  | .big l, .rat n d => some (if inI32 l then ratioCmp (l, 1) (n, d) else cmpInt l 0)
  | .rat n d, .fix r => some (if inI32 r then ratioCmp (n, d) (r, 1) else cmpInt 0 r)
  | .rat n d, .big r => some (if inI32 r then ratioCmp (n, d) (r, 1) else cmpInt 0 r)
  | .rat n d, .rat n' d' => some (ratioCmp (n, d) (n', d'))
  | .flo x, .flo y => Fl.partialCmp x y
  | .flo x, _ => (exactCmpF64 b x).map Ordering.rev
  | _, .flo y => exactCmpF64 a y

/-- `impl PartialEq for Number` -/
def eq (a b : Num) : Bool :=
  match a, b with
  | .fix l, .fix r => l == r
  | .fix l, .big r => l == r
  | .big l, .fix r => l == r
  | .big l, .big r => l == r
  | .fix l, .rat n d => inI32 l && ratioCmp (l, 1) (n, d) == .eq
  | .big l, .rat n d => inI32 l && ratioCmp (l, 1) (n, d) == .eq
  | .rat n d, .fix r => inI32 r && ratioCmp (r, 1) (n, d) == .eq
  | .rat n d, .big r => inI32 r && ratioCmp (n, d) (r, 1) == .eq
  | .rat n d, .rat n' d' => ratioCmp (n, d) (n', d') == .eq
  | .flo x, .flo y => Fl.partialCmp x y == some .eq
  | .flo x, _ => exactCmpF64 b x == some .eq
  | _, .flo y => exactCmpF64 a y == some .eq

def lt (a b : Num) : Bool := partialCmp a b == some .lt
def gt (a b : Num) : Bool := partialCmp a b == some .gt
def le (a b : Num) : Bool := match partialCmp a b with
  | some .lt => true
  | some .eq => true
  | _ => false
def ge (a b : Num) : Bool := match partialCmp a b with
  | some .gt => true
  | some .eq => true
  | _ => false

/-! ## procedures -/

/-- the loop of `num_comp` after the first pop: `y` is the last accepted value, the remaining
    arguments arrive last-first; a failing comparison clears `result` and leaves `y` alone -/
def numCompLoop (comp : Num → Num → Bool) : Num → List Num → Bool → Bool
  | _, [], result => result
  | y, x :: rest, result =>
    if comp x y then numCompLoop comp x rest result
    else numCompLoop comp y rest false

/-- `num_comp` on number arguments in source order -/
def numComp (comp : Num → Num → Bool) (args : List Num) : Outcome Bool :=
  match args.reverse with
  | [] => .err "arity"
  | y :: rest => .ok (numCompLoop comp y rest true)

def scmEq := numComp eq
def scmLt := numComp lt
def scmGt := numComp gt
def scmLe := numComp le
def scmGe := numComp ge

/-- `zero? positive? negative?` on one number argument -/
def scmPred (p : Num → Bool) : List Num → Outcome Bool
  | [x] => .ok (p x)
  | _ => .err "arity"

def isZero (x : Num) : Bool := eq x (.fix 0)
def isPositive (x : Num) : Bool := gt x (.fix 0)
def isNegative (x : Num) : Bool := lt x (.fix 0)

/-- `min`: start from the last argument, walk towards the first, replace on strict `<` -/
def minLoop : Num → List Num → Num
  | result, [] => result
  | result, x :: rest => minLoop (if lt x result then x else result) rest

def maxLoop : Num → List Num → Num
  | result, [] => result
  | result, x :: rest => maxLoop (if gt x result then x else result) rest

def scmMin (args : List Num) : Outcome Num :=
  match args.reverse with
  | y :: x :: rest => .ok (minLoop y (x :: rest))
  | _ => .err "arity"

def scmMax (args : List Num) : Outcome Num :=
  match args.reverse with
  | y :: x :: rest => .ok (maxLoop y (x :: rest))
  | _ => .err "arity"

end Marwood.Cmp
