import Marwood.Text
import Marwood.Num.Rep
import Marwood.Datum
/-!
# Number text: model of `Number::parse`, `parse_rational`, `parse_with_exactness`, `Display for
Number` and the radix printers (`marwood/src/number.rs`), and of the library routines they call
(`i64/i32::from_str_radix` of std, `BigInt::from_str_radix` of num-bigint 0.4.4,
`Ratio::from_str_radix` / `Ratio::new` of num-rational 0.4.1).

Float *text* and float *arithmetic* are not modelled: they enter through the parameter structure
`FloatOps` (in theorems constrained by explicit hypotheses, in the driver filled from the values
the Rust harness observed).  Everything about exact numbers is concrete.
Core Lean only (the driver links this file).
-/
namespace Marwood

/-- three-valued outcome of the reader/printer components -/
inductive Res (ε α : Type)
  | ok (a : α)
  | err (e : ε)
  | panic (site : String)
deriving DecidableEq, Repr

/-! ## digits -/

/-- `char::to_digit(36)`: value of an ASCII alphanumeric as a digit -/
def digitVal (c : Char) : Option Nat :=
  let n := c.toNat
  if 48 ≤ n ∧ n ≤ 57 then some (n - 48)
  else if 97 ≤ n ∧ n ≤ 122 then some (n - 87)
  else if 65 ≤ n ∧ n ≤ 90 then some (n - 55)
  else none

/-- `char::to_digit(radix)` -/
def toDigit (radix : Nat) (c : Char) : Option Nat :=
  match digitVal c with
  | some d => if d < radix then some d else none
  | none => none

/-- value of a digit string, most significant first, continuing from `acc`; `none` when some
    character is not a digit of the radix -/
def digitsVal (radix : Nat) : Nat → Text → Option Nat
  | acc, [] => some acc
  | acc, c :: cs =>
    match toDigit radix c with
    | some d => digitsVal radix (acc * radix + d) cs
    | none => none

/-- a non-empty digit string -/
def parseNat (radix : Nat) (cs : Text) : Option Nat :=
  match cs with
  | [] => none
  | _ => digitsVal radix 0 cs

/-- the digit character Rust's `{:x}` / `{:o}` / `{:b}` / `{}` print for `d < 16` -/
def digitChar (d : Nat) : Char :=
  if d < 10 then Char.ofNat (48 + d) else Char.ofNat (87 + d)

/-- digits of `n` in radix `r`, most significant first, no leading zeros (`"0"` for zero) -/
def natDigits (r : Nat) (n : Nat) : Text :=
  if h : n < r ∨ r < 2 then [digitChar n]
  else natDigits r (n / r) ++ [digitChar (n % r)]
termination_by n
decreasing_by
  have h1 : ¬ n < r := fun x => h (Or.inl x)
  have h2 : ¬ r < 2 := fun x => h (Or.inr x)
  exact Nat.div_lt_self (by omega) (by omega)

/-- sign and magnitude: what `{}` prints for `i64`, `i32` and `BigInt`, and what the repaired
    radix printers print -/
def intDigits (r : Nat) (n : Int) : Text :=
  if n < 0 then '-' :: natDigits r n.natAbs else natDigits r n.natAbs

/-! ## std `from_str_radix` for signed primitive integers (`i64`, `i32`)
radix range is checked by the caller (`Number::parse` panics first) -/

def parseIntStd (inRange : Int → Bool) (radix : Nat) (cs : Text) : Option Int :=
  match cs with
  | [] => none
  | [c] =>
    if c = '+' ∨ c = '-' then none
    else match parseNat radix [c] with
      | some v => if inRange v then some (v : Int) else none
      | none => none
  | c :: rest =>
    if c = '+' then
      match parseNat radix rest with
      | some v => if inRange v then some (v : Int) else none
      | none => none
    else if c = '-' then
      match parseNat radix rest with
      | some v => if inRange (-(v : Int)) then some (-(v : Int)) else none
      | none => none
    else
      match parseNat radix (c :: rest) with
      | some v => if inRange v then some (v : Int) else none
      | none => none

/-! ## num-bigint `from_str_radix` (underscores after the first digit are skipped) -/

def bigDigitsVal (radix : Nat) : Nat → Text → Option Nat
  | acc, [] => some acc
  | acc, c :: cs =>
    if c = '_' then bigDigitsVal radix acc cs
    else match toDigit radix c with
      | some d => bigDigitsVal radix (acc * radix + d) cs
      | none => none

/-- the optional `+` of `BigUint::from_str_radix` (`++5` keeps both) -/
def stripPlus (s : Text) : Text :=
  match s with
  | '+' :: tail => (match tail with | '+' :: _ => s | _ => tail)
  | _ => s

/-- `BigUint::from_str_radix` -/
def parseBigUint (radix : Nat) (s : Text) : Option Nat :=
  match stripPlus s with
  | [] => none
  | c :: cs => if c = '_' then none else bigDigitsVal radix 0 (c :: cs)

/-- what `BigInt::from_str_radix` hands to `BigUint::from_str_radix` after a leading `-`
    (`-+5` is handed over whole, and fails there) -/
def afterMinus (tail : Text) : Text :=
  match tail with
  | '+' :: _ => '-' :: tail
  | _ => tail

/-- `BigInt::from_str_radix` -/
def parseBigInt (radix : Nat) (s : Text) : Option Int :=
  match s with
  | '-' :: tail =>
    (match parseBigUint radix (afterMinus tail) with
      | some v => some (-(Int.ofNat v))
      | none => none)
  | _ =>
    (match parseBigUint radix s with
      | some v => some (Int.ofNat v)
      | none => none)

/-! ## ratios -/

/-- `s.splitn(2, '/')`: text before the first `/` and text after it -/
def splitSlash : Text → Option (Text × Text)
  | [] => none
  | c :: cs =>
    if c = '/' then some ([], cs)
    else match splitSlash cs with
      | some (a, b) => some (c :: a, b)
      | none => none

/-- `Ratio::<i32>::new(n, d)` for `d ≠ 0` (debug profile: `0 - i32::MIN` panics) -/
def ratioNew32 (n d : Int) : Res Unit (Int × Int) :=
  if n = 0 then .ok (0, 1)
  else if n = d then .ok (1, 1)
  else
    let g : Int := Int.gcd n d
    let n' := n.tdiv g
    let d' := d.tdiv g
    if d' < 0 then
      if n' = i32Min ∨ d' = i32Min then .panic "attempt to subtract with overflow"
      else .ok (-n', -d')
    else .ok (n', d')

/-- `Ratio::<BigInt>::new(n, d)` for `d ≠ 0` -/
def ratioNewBig (n d : Int) : Int × Int :=
  if n = 0 then (0, 1)
  else if n = d then (1, 1)
  else
    let g : Int := Int.gcd n d
    let n' := n.tdiv g
    let d' := d.tdiv g
    if d' < 0 then (-n', -d') else (n', d')

/-! ## what is not modelled about doubles -/

/-- float text and float arithmetic used by the reader and the number printer -/
structure FloatOps where
  /-- `f64::from_str_radix(text, radix).ok()` (num-traits; `str::parse::<f64>` when radix = 10) -/
  parseF64 : Nat → Text → Option F64
  /-- `BigRational::to_f64().unwrap_or(NAN)` of a reduced non-integer ratio -/
  bigRatToF64 : Int → Int → F64
  /-- `Number::Float(x).to_exact()` -/
  toExact : F64 → Option Num
  /-- `Number::to_inexact().unwrap()` of an exact number -/
  toInexact : Num → F64
  /-- `format!("{:e}", x)` -/
  fmtExp : F64 → Text
  /-- `format!("{:.1}", x)` -/
  fmtFix1 : F64 → Text
  /-- `format!("{}", x)` -/
  fmtShort : F64 → Text
  /-- the `Float` arm of `LowerHex` / `Octal` / `Binary for Number` -/
  fmtRadix : Nat → F64 → Text

/-! ## `Number::parse` -/

inductive Exactness | exact | inexact | unspecified
deriving DecidableEq, Repr

/-- the `Rational32` stage of `parse_rational`: `.err ()` = fall through to `BigRational`.
    Spellings whose negative denominator would make `Ratio::new` negate `i32::MIN` skip this
    stage (repair of the overflow). -/
def parseRational32 (radix : Nat) (s : Text) : Res Unit (Int × Int) :=
  match splitSlash s with
  | none => .err ()
  | some (a, b) =>
    match parseIntStd inI32 radix a with
    | none => .err ()
    | some n =>
      match parseIntStd inI32 radix b with
      | none => .err ()
      | some d =>
        if d < 0 ∧ (n = i32Min ∨ d = i32Min) then .err ()
        else if d = 0 then .err ()
        else ratioNew32 n d

/-- `Number::parse_rational`; `.err ()` = `None` -/
def parseRational (fo : FloatOps) (radix : Nat) (s : Text) : Res Unit Num :=
  let r32 : Res Unit (Int × Int) := parseRational32 radix s
  match r32 with
  | .panic m => .panic m
  | .ok (n, d) => if d = 1 then .ok (.fix n) else .ok (.rat n d)
  | .err () =>
    match splitSlash s with
    | none => .err ()
    | some (a, b) =>
      match parseBigInt radix a with
      | none => .err ()
      | some n =>
        match parseBigInt radix b with
        | none => .err ()
        | some d =>
          if d = 0 then .err ()
          else
            let q := ratioNewBig n d
            if q.2 = 1 then (if inI64 q.1 then .ok (.fix q.1) else .ok (.big q.1))
            else .ok (.flo (fo.bigRatToF64 q.1 q.2))

/-- `Number::parse(text, radix)`; `.err ()` = `None`; the panic is `from_str_radix`'s radix
    assertion (`i64::from_str_radix` is called first, whatever the text) -/
def parseNumber (fo : FloatOps) (radix : Nat) (s : Text) : Res Unit Num :=
  if radix < 2 ∨ 36 < radix then .panic "from_str_radix: radix must lie in the range 2..=36"
  else
    match parseIntStd inI64 radix s with
    | some n => .ok (.fix n)
    | none =>
      match parseBigInt radix s with
      | some n => .ok (.big n)
      | none =>
        match parseRational fo radix s with
        | .ok n => .ok n
        | .panic m => .panic m
        | .err () =>
          match fo.parseF64 radix s with
          | some f => .ok (.flo f)
          | none => .err ()

/-- `Number::parse_with_exactness` -/
def parseWithExactness (fo : FloatOps) (s : Text) (e : Exactness) (radix : Nat) : Res Unit Num :=
  match parseNumber fo radix s with
  | .ok n =>
    match e with
    | .unspecified => .ok n
    | .exact =>
      match n with
      | .flo f => (match fo.toExact f with | some m => .ok m | none => .ok n)
      | _ => .ok n
    | .inexact =>
      match n with
      | .flo _ => .ok n
      | _ => .ok (.flo (fo.toInexact n))
  | r => r

/-! ## printing -/

def F64.sign (f : F64) : Bool := f.bits / 2^63 % 2 == 1
def F64.expo (f : F64) : Nat := f.bits / 2^52 % 2048
def F64.frac (f : F64) : Nat := f.bits % 2^52
def F64.isNaN (f : F64) : Bool := f.expo == 2047 && f.frac != 0
def F64.isFinite (f : F64) : Bool := f.expo < 2047

/-- `x > 1E10` (1e10 = 0x4202A05F20000000) -/
def F64.gt1e10 (f : F64) : Bool := !f.sign && !f.isNaN && f.bits > 0x4202A05F20000000

/-- `x.floor() == x` -/
def F64.isInteger (f : F64) : Bool :=
  if f.expo == 2047 then f.frac == 0
  else if f.expo == 0 then f.frac == 0
  else if f.expo < 1023 then false
  else if 1075 ≤ f.expo then true
  else f.frac % 2^(1075 - f.expo) == 0

/-- `Display for Ratio<i32>` in radix `r` (`{}`, `{:x}`, …): numerator, then `/denominator` unless
    the denominator is one -/
def ratDigits (r : Nat) (n d : Int) : Text :=
  if d = 1 then intDigits r n else intDigits r n ++ '/' :: intDigits r d

/-- `Display for Number` -/
def printNumber (fo : FloatOps) : Num → Text
  | .fix n => intDigits 10 n
  | .big n => intDigits 10 n
  | .flo f => if f.gt1e10 then fo.fmtExp f else if f.isInteger then fo.fmtFix1 f else fo.fmtShort f
  | .rat n d => ratDigits 10 n d

/-- `LowerHex` / `Octal` / `Binary for Number` (r = 16, 8, 2) after the sign-and-magnitude repair
    of the `Fixnum` and `Rational` arms -/
def printNumberRadix (fo : FloatOps) (r : Nat) : Num → Text
  | .fix n => intDigits r n
  | .big n => intDigits r n
  | .flo f => fo.fmtRadix r f
  | .rat n d => ratDigits r n d

/-- the pinned (unrepaired) `Fixnum` arm: two's complement of the 64-bit pattern -/
def printFixRadixPinned (r : Nat) (n : Int) : Text :=
  natDigits r (if n < 0 then (n + 18446744073709551616).toNat else n.toNat)

/-- the `match radix` of `number->string` -/
def numberToString (fo : FloatOps) (radix : Nat) (n : Num) : Text :=
  if radix = 16 then printNumberRadix fo 16 n
  else if radix = 8 then printNumberRadix fo 8 n
  else if radix = 2 then printNumberRadix fo 2 n
  else printNumber fo n

/-! ## the procedures `number->string` and `string->number` (`vm/builtin/number.rs`) on argument
values; errors by class -/

inductive ProcErr
  | invalidNumArgs
  | invalidSyntax
deriving DecidableEq, Repr

def usizeMax : Int := 18446744073709551615

/-- `pop_usize`: an exact non-negative integer that fits `usize` -/
def popUsize : Datum → Option Nat
  | .num (.fix n) => if 0 ≤ n then some n.toNat else none
  | .num (.big n) => if 0 ≤ n ∧ n ≤ usizeMax then some n.toNat else none
  | .num (.rat n d) => if d = 1 ∧ 0 ≤ n then some n.toNat else none
  | _ => none

/-- `number->string` -/
def numberToStringProc (fo : FloatOps) (args : List Datum) : Res ProcErr Datum :=
  let go (z : Datum) (radix : Nat) : Res ProcErr Datum :=
    match z with
    | .num n => .ok (.str (numberToString fo radix n))
    | _ => .err .invalidSyntax
  match args with
  | [z] => go z 10
  | [z, r] =>
    (match popUsize r with
      | some radix => go z radix
      | none => .err .invalidSyntax)
  | _ => .err .invalidNumArgs

/-- `string->number` (after the repair that validates the radix); the radix is `usize as u32` -/
def stringToNumberProc (fo : FloatOps) (args : List Datum) : Res ProcErr Datum :=
  let go (s : Datum) (radix : Nat) : Res ProcErr Datum :=
    match s with
    | .str t =>
      if radix < 2 ∨ 36 < radix then .err .invalidSyntax
      else match parseWithExactness fo t .unspecified radix with
        | .ok n => .ok (.num n)
        | .err () => .ok (.bool false)
        | .panic m => .panic m
    | _ => .err .invalidSyntax
  match args with
  | [s] => go s 10
  | [s, r] =>
    (match popUsize r with
      | some radix => go s (radix % 4294967296)
      | none => .err .invalidSyntax)
  | _ => .err .invalidNumArgs

end Marwood
