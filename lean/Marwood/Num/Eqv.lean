import Marwood.Num.Cmp
/-!
# Model of `eqv?` on two numbers (the number arm of `Vm::eqv`)

Anchor: `marwood/src/vm/compare.rs`, `Vm::eqv`, after fix 22cce75:

```
(VCell::Number(left), VCell::Number(right)) => Ok(match (left, right) {
    (Number::Float(left), Number::Float(right)) => left.to_bits() == right.to_bits(),
    (Number::Float(_), _) | (_, Number::Float(_)) => false,
    _ => left == right,
}),
```

`left == right` on two exact numbers is `impl PartialEq for Number` (`number.rs`), modelled pair
of representations by pair of representations by `Marwood.Cmp.eq` (C09's model: a fixnum or
bignum outside the i32 range against a `Ratio<i32>` is answered `false` without looking at the
ratio).  This arm is the leaf test of `eq?`, `eqv?`, `equal?`, `memv`, `member`, `assv`, `assoc`
(`eq?` is the same Rust function as `eqv?`: `builtin/predicate.rs`).

`eqvNumPinned` is the arm before the fix (`left == right` for every pair), kept so that the
difference is a statement.  Core Lean only.  Namespace `Marwood.Eqv`.
-/
namespace Marwood.Eqv
open Marwood

/-- the number arm of `Vm::eqv` -/
def eqvNum : Num → Num → Bool
  | .flo x, .flo y => x.bits == y.bits
  | .flo _, _ => false
  | _, .flo _ => false
  | a, b => Cmp.eq a b

/-- the number arm of `Vm::eqv` before fix 22cce75: numeric equality, exactness ignored -/
def eqvNumPinned (a b : Num) : Bool := Cmp.eq a b

end Marwood.Eqv
