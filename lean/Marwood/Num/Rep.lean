/-!
# Representation of `marwood::number::Number` (shared by every component)

* `fix n`   — `Number::Fixnum(i64)`; well-formed iff `-2^63 ≤ n < 2^63`
* `big n`   — `Number::BigInt(Rc<BigInt>)`; any integer (the code does not normalise small values)
* `rat n d` — `Number::Rational(Ratio<i32>)`; well-formed iff `d ≥ 1`, gcd n d = 1, both within i32
* `flo f`   — `Number::Float(f64)`, carried as its IEEE-754 binary64 bit pattern
Core Lean only.
-/
namespace Marwood

/-- an IEEE-754 binary64 value as its 64-bit pattern -/
structure F64 where
  bits : Nat
deriving DecidableEq, Repr, Inhabited

inductive Num
  | fix (n : Int)
  | big (n : Int)
  | rat (n : Int) (d : Int)
  | flo (f : F64)
deriving DecidableEq, Repr, Inhabited

def i64Min : Int := -9223372036854775808
def i64Max : Int := 9223372036854775807
def i32Min : Int := -2147483648
def i32Max : Int := 2147483647

def inI64 (n : Int) : Bool := i64Min ≤ n && n ≤ i64Max
def inI32 (n : Int) : Bool := i32Min ≤ n && n ≤ i32Max

/-- representation invariant of `Number` -/
def Num.WF : Num → Bool
  | .fix n => inI64 n
  | .big _ => true
  | .rat n d => decide (1 ≤ d) && inI32 n && inI32 d && (Int.gcd n d == 1)
  | .flo f => decide (f.bits < 2^64)

end Marwood
