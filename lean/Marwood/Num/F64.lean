import Marwood.Num.Rep
/-!
# IEEE-754 binary64 over exact rationals (no `Float`)

A double is its 64-bit pattern (`Marwood.F64`, Rep.lean).  This file gives

* `Fl.classify` — decode to `nan | inf s | fin s mag` with `mag : Rat` the exact magnitude,
* `Fl.toRat?`   — the exact value of a finite double,
* `Fl.rndMag` / `Fl.rnd` — round-to-nearest, ties-to-even, of an exact rational to a double
  (gradual underflow, overflow to ±inf), computed over naturals only,
* `Fl.add sub mul div neg abs` — the four IEEE operations as "exact result, rounded once",
  with the IEEE special cases (signed zeros, infinities, invalid → NaN),
* `Fl.ofInt`, `Fl.ofRatio` — `i64 as f64`, `BigInt::to_f64` (round-to-odd to 64 bits followed by
  the hardware conversion = one correct rounding, overflow to inf) and `Ratio<i32>::to_f64`
  (both parts below 2^53: one IEEE division of two exact doubles).

NaN results are the canonical quiet NaN `7ff8000000000000`; the harness canonicalises the NaNs
the hardware produces the same way (payload and sign of a NaN are not observables here).
Everything is in namespace `Marwood.Fl`.  Core Lean only.
-/
namespace Marwood.Fl
open Marwood

def twoP52 : Nat := 4503599627370496
def twoP53 : Nat := 9007199254740992
def twoP63 : Nat := 9223372036854775808
def infBits : Nat := 0x7ff0000000000000
def nanBits : Nat := 0x7ff8000000000000

def canonNaN : F64 := ⟨nanBits⟩
def zero (neg : Bool) : F64 := ⟨if neg then twoP63 else 0⟩
def infinity (neg : Bool) : F64 := ⟨if neg then twoP63 + infBits else infBits⟩

def signBit (f : F64) : Bool := f.bits / twoP63 % 2 == 1
def expField (f : F64) : Nat := f.bits / twoP52 % 2048
def mantField (f : F64) : Nat := f.bits % twoP52

def isNaN (f : F64) : Bool := expField f == 2047 && mantField f != 0
def isInf (f : F64) : Bool := expField f == 2047 && mantField f == 0
def isFinite (f : F64) : Bool := expField f != 2047

/-- canonical form of a result: every NaN becomes the canonical quiet NaN -/
def canon (f : F64) : F64 := if isNaN f then canonNaN else f

/-- integer significand and binary exponent of a finite double: value = `sig * 2^(ex - 1074)` -/
def sig (f : F64) : Nat := if expField f == 0 then mantField f else twoP52 + mantField f
def ex (f : F64) : Nat := if expField f == 0 then 0 else expField f - 1

/-- exact magnitude of a finite double -/
def magRat (f : F64) : Rat := mkRat (Int.ofNat (sig f * 2 ^ ex f)) (2 ^ 1074)

inductive Cls
  | nan
  | inf (neg : Bool)
  | fin (neg : Bool) (mag : Rat)
deriving Repr

def classify (f : F64) : Cls :=
  if isNaN f then .nan
  else if isInf f then .inf (signBit f)
  else .fin (signBit f) (magRat f)

/-- exact value of a finite double (`-0.0` and `0.0` are both 0) -/
def toRat? (f : F64) : Option Rat :=
  if isFinite f then some (if signBit f then - magRat f else magRat f) else none

/-! ## rounding -/

/-- `n / d ≥ 2^k` for positive `n d` -/
def geTwoPow (n d : Nat) (k : Int) : Bool :=
  if k ≥ 0 then n ≥ d * 2 ^ k.toNat else n * 2 ^ (-k).toNat ≥ d

/-- `⌊log2 (n/d)⌋` for positive `n d` -/
def floorLog2 (n d : Nat) : Int :=
  let k0 : Int := (Nat.log2 n : Int) - (Nat.log2 d : Int)
  if geTwoPow n d k0 then k0 else k0 - 1

/-- nearest integer to `N / D` (`D > 0`), ties to even -/
def roundHalfEven (N D : Nat) : Nat :=
  let q := N / D
  let r := N % D
  if 2 * r > D then q + 1
  else if 2 * r == D then q + q % 2
  else q

/-- The magnitude bits of the double nearest to `n / d` (`n d > 0`), ties to even.
    With `e = max (⌊log2 (n/d)⌋ - 52) (-1074)` and `m = roundHalfEven (n/d / 2^e)` the pattern is
    `(e + 1074) * 2^52 + m` uniformly: a subnormal has `e = -1074` and `m < 2^52`, a normal
    number has biased exponent `e + 1075` and fraction `m - 2^52`, and the carry `m = 2^53`
    moves into the exponent field by itself.  Patterns at or above `infBits` are overflow. -/
def rndMag (n d : Nat) : Nat :=
  let e : Int := max (floorLog2 n d - 52) (-1074)
  let m := if e ≥ 0 then roundHalfEven n (d * 2 ^ e.toNat) else roundHalfEven (n * 2 ^ (-e).toNat) d
  let bits := (e + 1074).toNat * twoP52 + m
  if bits ≥ infBits then infBits else bits

/-- round a magnitude with a sign attached (a zero magnitude keeps the sign) -/
def rndSigned (neg : Bool) (mag : Rat) : F64 :=
  let b := if mag.num ≤ 0 then 0 else rndMag mag.num.toNat mag.den
  ⟨if neg then twoP63 + b else b⟩

/-- round an exact rational; an exact zero is `+0.0` -/
def rnd (q : Rat) : F64 :=
  if q.num < 0 then rndSigned true (-q) else rndSigned false q

/-- `i64 as f64` and `BigInt::to_f64` -/
def ofInt (n : Int) : F64 := rnd (n : Rat)

/-- `Ratio<i32>::to_f64` for a ratio with non-zero denominator -/
def ofRatio (n d : Int) : F64 := rnd (mkRat n d.toNat)

/-! ## arithmetic -/

def neg (f : F64) : F64 :=
  if isNaN f then canonNaN else ⟨if signBit f then f.bits - twoP63 else f.bits + twoP63⟩

def abs (f : F64) : F64 :=
  if isNaN f then canonNaN else ⟨if signBit f then f.bits - twoP63 else f.bits⟩

def sgn (neg : Bool) (mag : Rat) : Rat := if neg then -mag else mag

def add (x y : F64) : F64 :=
  match classify x, classify y with
  | .nan, _ => canonNaN
  | _, .nan => canonNaN
  | .inf s, .inf t => if s == t then infinity s else canonNaN
  | .inf s, .fin _ _ => infinity s
  | .fin _ _, .inf t => infinity t
  | .fin s a, .fin t b =>
    let r := sgn s a + sgn t b
    if r.num == 0 then zero (s && t) else rnd r

def sub (x y : F64) : F64 := add x (neg y)

def mul (x y : F64) : F64 :=
  match classify x, classify y with
  | .nan, _ => canonNaN
  | _, .nan => canonNaN
  | .inf s, .inf t => infinity (s != t)
  | .inf s, .fin t b => if b.num == 0 then canonNaN else infinity (s != t)
  | .fin s a, .inf t => if a.num == 0 then canonNaN else infinity (s != t)
  | .fin s a, .fin t b => rndSigned (s != t) (a * b)

def div (x y : F64) : F64 :=
  match classify x, classify y with
  | .nan, _ => canonNaN
  | _, .nan => canonNaN
  | .inf _, .inf _ => canonNaN
  | .inf s, .fin t _ => infinity (s != t)
  | .fin s _, .inf t => zero (s != t)
  | .fin s a, .fin t b =>
    if b.num == 0 then (if a.num == 0 then canonNaN else infinity (s != t))
    else rndSigned (s != t) (a / b)

/-! ## comparison (IEEE: by value, `-0.0 = 0.0`, NaN unordered) -/

def cmpRat (a b : Rat) : Ordering := if a < b then .lt else if a = b then .eq else .gt

def partialCmp (x y : F64) : Option Ordering :=
  match classify x, classify y with
  | .nan, _ => none
  | _, .nan => none
  | .inf s, .inf t => some (if s == t then .eq else if s then .lt else .gt)
  | .inf s, .fin _ _ => some (if s then .lt else .gt)
  | .fin _ _, .inf t => some (if t then .gt else .lt)
  | .fin s a, .fin t b => some (cmpRat (sgn s a) (sgn t b))

end Marwood.Fl
