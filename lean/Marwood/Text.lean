/-!
# Text: the common representation of Rust `&str`

A Rust `&str` is modelled as `List Char`; a *byte offset* is the UTF-8 length of a prefix.
"On a character boundary" is therefore by construction "equal to `byteLen` of some prefix".
Core Lean only (the driver links against this file).
-/
namespace Marwood

abbrev Text := List Char

/-- UTF-8 length of a text, in bytes (`str::len`). -/
def byteLen : Text → Nat
  | [] => 0
  | c :: cs => c.utf8Size + byteLen cs

@[simp] theorem byteLen_nil : byteLen [] = 0 := rfl
@[simp] theorem byteLen_cons (c : Char) (cs : Text) : byteLen (c :: cs) = c.utf8Size + byteLen cs := rfl

@[simp] theorem byteLen_append (a b : Text) : byteLen (a ++ b) = byteLen a + byteLen b := by
  induction a with
  | nil => simp
  | cons c cs ih => simp [ih]; omega

theorem utf8Size_pos (c : Char) : 0 < c.utf8Size := Char.utf8Size_pos c

theorem byteLen_pos_of_ne_nil {a : Text} (h : a ≠ []) : 0 < byteLen a := by
  cases a with
  | nil => exact absurd rfl h
  | cons c cs => have := utf8Size_pos c; simp; omega

/-- `&text[lo..]` when `lo` is the byte length of a prefix; `none` models the Rust panic
    (offset not on a character boundary or out of range). -/
def dropBytes : Nat → Text → Option Text
  | 0, cs => some cs
  | _+1, [] => none
  | n+1, c :: cs => if c.utf8Size ≤ n+1 then dropBytes (n+1 - c.utf8Size) cs else none

/-- `&text[..hi]`. -/
def takeBytes : Nat → Text → Option Text
  | 0, _ => some []
  | _+1, [] => none
  | n+1, c :: cs =>
    if c.utf8Size ≤ n+1 then (takeBytes (n+1 - c.utf8Size) cs).map (c :: ·) else none

/-- `&text[lo..hi]`; `none` = panic. -/
def sliceBytes (lo hi : Nat) (cs : Text) : Option Text :=
  if lo ≤ hi then (dropBytes lo cs).bind (takeBytes (hi - lo)) else none

theorem dropBytes_append (a b : Text) : dropBytes (byteLen a) (a ++ b) = some b := by
  induction a with
  | nil => cases b <;> simp [dropBytes]
  | cons c cs ih =>
    have hp := utf8Size_pos c
    simp only [byteLen_cons, List.cons_append]
    obtain ⟨k, hk⟩ : ∃ k, c.utf8Size + byteLen cs = k + 1 := ⟨c.utf8Size + byteLen cs - 1, by omega⟩
    rw [hk, dropBytes]
    have : c.utf8Size ≤ k + 1 := by omega
    simp only [this, if_true]
    have : k + 1 - c.utf8Size = byteLen cs := by omega
    rw [this, ih]

theorem takeBytes_append (a b : Text) : takeBytes (byteLen a) (a ++ b) = some a := by
  induction a with
  | nil => cases b <;> simp [takeBytes]
  | cons c cs ih =>
    have hp := utf8Size_pos c
    simp only [byteLen_cons, List.cons_append]
    obtain ⟨k, hk⟩ : ∃ k, c.utf8Size + byteLen cs = k + 1 := ⟨c.utf8Size + byteLen cs - 1, by omega⟩
    rw [hk, takeBytes]
    have : c.utf8Size ≤ k + 1 := by omega
    simp only [this, if_true]
    have : k + 1 - c.utf8Size = byteLen cs := by omega
    rw [this, ih]; rfl

theorem sliceBytes_append (a b c : Text) :
    sliceBytes (byteLen a) (byteLen a + byteLen b) (a ++ b ++ c) = some b := by
  unfold sliceBytes
  simp only [Nat.le_add_right, if_true, List.append_assoc, dropBytes_append, Option.bind_some]
  have : byteLen a + byteLen b - byteLen a = byteLen b := by omega
  rw [this, takeBytes_append]

end Marwood
