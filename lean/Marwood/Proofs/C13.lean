import Marwood.Vm.RunLoop
import Marwood.Lemmas.SimRefl
import Marwood.Lemmas.SimObs
import Marwood.Lemmas.GoodDemo
import Marwood.Lemmas.VmOkDemo
import Marwood.Lemmas.ProcInvMain
/-!
# C13 — sliced execution is equivalent to uninterrupted execution

Theorems about `Marwood.Vm.runLoop` (the model of `run_count`), for **every** machine `m`
(instruction semantics + collector) and every relation `R` that the collector respects
(`GcTransparent`). For the real VM, `R` is heap isomorphism on the reachable part (C03); with the
trivial collector (`gc = id`) the theorems hold with `R = Eq` unconditionally.
-/
namespace Marwood.Proofs.C13
open Marwood.Vm

variable {S E : Type}

/-- results related state-wise by `R` (same constructor, same error) -/
inductive ResRel (R : S → S → Prop) : Res S E → Res S E → Prop
  | paused {s t} : R s t → ResRel R (.paused s) (.paused t)
  | done {s t} : R s t → ResRel R (.done s) (.done t)
  | error {e s t} : R s t → ResRel R (.error e s) (.error e t)

/-- step results related by `R` -/
inductive StepRel (R : S → S → Prop) : StepRes S E → StepRes S E → Prop
  | next {s t} : R s t → StepRel R (.next s) (.next t)
  | halt {s t} : R s t → StepRel R (.halt s) (.halt t)
  | fail {e s t} : R s t → StepRel R (.fail e s) (.fail e t)

/-- "collections are unobservable": `R` is preserved by instructions and absorbed by `gc`.
    A hypothesis (a structure argument), not an axiom; discharged by C03 for the heap model. -/
structure GcTransparent (m : Machine S E) (R : S → S → Prop) : Prop where
  step : ∀ s t, R s t → StepRel R (m.step s) (m.step t)
  gc_left : ∀ s t, R s t → R (m.gc s) t

/-- with a collector that does nothing, equality is transparent -/
theorem gcTransparent_id (step : S → StepRes S E) :
    GcTransparent (S := S) (E := E) ⟨step, id⟩ Eq where
  step := by
    intro s t h; subst h
    show StepRel Eq (step s) (step s)
    cases step s
    · exact .next rfl
    · exact .halt rfl
    · exact .fail rfl
  gc_left := by intro s t h; exact h

/-- one call of the loop from counter value `c` with budget `c + b` behaves like at most `b`
    collection-free instructions -/
theorem runLoop_pureN (m : Machine S E) (R : S → S → Prop) (hT : GcTransparent m R) :
    ∀ (b c : Nat) (s t : S), R s t → 1 ≤ b →
      ResRel R (runLoop m (some (c + b)) b c s) (pureN m b t) := by
  intro b
  induction b with
  | zero => intro c s t _ h; omega
  | succ b ih =>
    intro c s t hR _
    simp only [runLoop, pureN]
    have hR' : R (if (c + 1) % 8192 = 0 then m.gc s else s) t := by
      split
      · exact hT.gc_left _ _ hR
      · exact hR
    have hs := hT.step _ _ hR'
    generalize m.step (if (c + 1) % 8192 = 0 then m.gc s else s) = r1 at hs
    generalize hr2 : m.step t = r2 at hs
    cases hs with
    | halt h => exact .done h
    | fail h => exact .error h
    | next h =>
      rename_i s' t'
      by_cases hb : b = 0
      · subst hb
        simp only [Nat.add_zero, if_true, pureN]
        exact .paused (hT.gc_left _ _ h)
      · have hne : ¬ (some (c + (b + 1)) = some (c + 1)) := by
          intro he; injection he with he; omega
        simp only [hne, if_false]
        have := ih (c + 1) s' t' h (by omega)
        have e : c + 1 + b = c + (b + 1) := by omega
        rw [e] at this
        exact this

/-- T13.1 (progress): a slice with budget `b ≥ 1` executes exactly `min b (instructions left)`
    instructions: it is related to `pureN b`, which pauses only after `b` instructions. In
    particular it never runs out of model fuel and never pauses early. -/
theorem runCount_progress (m : Machine S E) (R : S → S → Prop) (hT : GcTransparent m R)
    (b : Nat) (hb : 1 ≤ b) (s t : S) (hR : R s t) :
    ResRel R (runCount m b s) (pureN m b t) := by
  have := runLoop_pureN m R hT b 0 s t hR hb
  simpa [runCount] using this

theorem pureN_add (m : Machine S E) : ∀ (a b : Nat) (s : S),
    pureN m (a + b) s = match pureN m a s with
      | .paused s' => pureN m b s'
      | r => r := by
  intro a
  induction a with
  | zero => intro b s; simp [pureN]
  | succ a ih =>
    intro b s
    have e : a + 1 + b = (a + b) + 1 := by omega
    rw [e]
    simp only [pureN]
    cases m.step s with
    | halt s' => rfl
    | fail e s' => rfl
    | next s' => exact ih b s'

/-- T13.2 + T13.3: for every sequence of positive budgets, resuming slice after slice is related to
    executing `sum budgets` instructions without interruption and without any collection: same
    completion status, same failure, `R`-related state. -/
theorem runSliced_pureN (m : Machine S E) (R : S → S → Prop) (hT : GcTransparent m R) :
    ∀ (bs : List Nat), (∀ b ∈ bs, 1 ≤ b) → ∀ (s t : S), R s t →
      ResRel R (runSliced m bs s) (pureN m bs.sum t) := by
  intro bs
  induction bs with
  | nil => intro _ s t hR; simpa [runSliced, pureN] using ResRel.paused hR
  | cons b bs ih =>
    intro hpos s t hR
    have hb : 1 ≤ b := hpos b (by simp)
    have h1 := runCount_progress m R hT b hb s t hR
    simp only [runSliced, List.sum_cons]
    rw [pureN_add]
    generalize runCount m b s = r1 at h1
    generalize pureN m b t = r2 at h1
    cases h1 with
    | paused h => exact ih (fun x hx => hpos x (by simp [hx])) _ _ h
    | done h => exact .done h
    | error h => exact .error h

/-- the uninterrupted run (`run`, collections every 8192 cycles) against the same reference -/
theorem run_pureN (m : Machine S E) (R : S → S → Prop) (hT : GcTransparent m R) :
    ∀ (f c : Nat) (s t : S), R s t →
      (∀ t', pureN m f t = .done t' → ∃ s', runLoop m none f c s = .done s' ∧ R s' t') ∧
      (∀ e t', pureN m f t = .error e t' → ∃ s', runLoop m none f c s = .error e s' ∧ R s' t') := by
  intro f
  induction f with
  | zero => intro c s t _; simp [pureN]
  | succ f ih =>
    intro c s t hR
    simp only [runLoop, pureN]
    have hR' : R (if (c + 1) % 8192 = 0 then m.gc s else s) t := by
      split
      · exact hT.gc_left _ _ hR
      · exact hR
    have hs := hT.step _ _ hR'
    generalize m.step (if (c + 1) % 8192 = 0 then m.gc s else s) = r1 at hs
    generalize m.step t = r2 at hs
    cases hs with
    | halt h =>
      rename_i s' t'
      refine ⟨?_, ?_⟩
      · intro t'' he; cases he; exact ⟨s', rfl, h⟩
      · intro e t'' he; cases he
    | fail h =>
      rename_i e s' t'
      refine ⟨?_, ?_⟩
      · intro t'' he; cases he
      · intro e' t'' he; cases he; exact ⟨s', rfl, h⟩
    | next h =>
      simp only [reduceCtorEq, if_false]
      exact ih (c + 1) _ _ h

theorem pureN_done_mono (m : Machine S E) : ∀ (k n : Nat) (t t' : S),
    pureN m k t = .done t' → k ≤ n → pureN m n t = .done t' := by
  intro k
  induction k with
  | zero => intro n t t' h; simp [pureN] at h
  | succ k ih =>
    intro n t t' h hle
    obtain ⟨n', rfl⟩ : ∃ n', n = n' + 1 := ⟨n - 1, by omega⟩
    simp only [pureN] at h ⊢
    cases hst : m.step t with
    | halt s' => rw [hst] at h; exact h
    | fail e s' => rw [hst] at h; cases h
    | next s' => rw [hst] at h; exact ih n' _ _ h (by omega)

theorem pureN_error_mono (m : Machine S E) : ∀ (k n : Nat) (t t' : S) (e : E),
    pureN m k t = .error e t' → k ≤ n → pureN m n t = .error e t' := by
  intro k
  induction k with
  | zero => intro n t t' e h; simp [pureN] at h
  | succ k ih =>
    intro n t t' e h hle
    obtain ⟨n', rfl⟩ : ∃ n', n = n' + 1 := ⟨n - 1, by omega⟩
    simp only [pureN] at h ⊢
    cases hst : m.step t with
    | halt s' => rw [hst] at h; cases h
    | fail e' s' => rw [hst] at h; exact h
    | next s' => rw [hst] at h; exact ih n' _ _ _ h (by omega)

/-- **C13, main statement.** If the uninterrupted evaluation completes (with a value: `done`) after
    `k` instructions, then for *every* sequence of positive budgets whose sum reaches `k` the
    sliced evaluation completes too, and the uninterrupted run and the sliced run end in states
    related (through the collection-free reference run) by `R`; hence every observation that `R`
    preserves — value, output, globals — is equal. Budgets are arbitrary positive numbers, in
    particular all ones. -/
theorem sliced_equiv_uninterrupted_done (m : Machine S E) (R : S → S → Prop)
    (hT : GcTransparent m R) (O : Type) (obs : S → O) (hobs : ∀ s t, R s t → obs s = obs t)
    (s0 : S) (hrefl : R s0 s0) (k : Nat) (t' : S) (hk : pureN m k s0 = .done t')
    (bs : List Nat) (hpos : ∀ b ∈ bs, 1 ≤ b) (hsum : k ≤ bs.sum) :
    ∃ s1 s2, run m k s0 = .done s1 ∧ runSliced m bs s0 = .done s2 ∧ obs s1 = obs s2 := by
  obtain ⟨s1, h1, hr1⟩ := (run_pureN m R hT k 0 s0 s0 hrefl).1 t' hk
  have h2 := runSliced_pureN m R hT bs hpos s0 s0 hrefl
  rw [pureN_done_mono m k bs.sum s0 t' hk hsum] at h2
  generalize hrs : runSliced m bs s0 = r at h2
  cases h2 with
  | done h =>
    rename_i s2
    exact ⟨s1, s2, h1, rfl, by rw [hobs _ _ hr1, hobs _ _ h]⟩

/-- the same for an evaluation that fails: same error, related states -/
theorem sliced_equiv_uninterrupted_error (m : Machine S E) (R : S → S → Prop)
    (hT : GcTransparent m R) (O : Type) (obs : S → O) (hobs : ∀ s t, R s t → obs s = obs t)
    (s0 : S) (hrefl : R s0 s0) (k : Nat) (e : E) (t' : S) (hk : pureN m k s0 = .error e t')
    (bs : List Nat) (hpos : ∀ b ∈ bs, 1 ≤ b) (hsum : k ≤ bs.sum) :
    ∃ s1 s2, run m k s0 = .error e s1 ∧ runSliced m bs s0 = .error e s2 ∧ obs s1 = obs s2 := by
  obtain ⟨s1, h1, hr1⟩ := (run_pureN m R hT k 0 s0 s0 hrefl).2 e t' hk
  have h2 := runSliced_pureN m R hT bs hpos s0 s0 hrefl
  rw [pureN_error_mono m k bs.sum s0 t' e hk hsum] at h2
  generalize hrs : runSliced m bs s0 = r at h2
  cases h2 with
  | error h =>
    rename_i s2
    exact ⟨s1, s2, h1, rfl, by rw [hobs _ _ hr1, hobs _ _ h]⟩

/-- a budget slice never exhausts the model's fuel: `run_count(b)` returns after at most `b`
    instructions (no hypothesis on the machine) -/
theorem runCount_ne_fuel (m : Machine S E) (b : Nat) (hb : 1 ≤ b) (s : S) :
    runCount m b s ≠ .fuel := by
  have h := runCount_progress ⟨m.step, id⟩ Eq (gcTransparent_id m.step) b hb s s rfl
  -- the statement is about `m`, not about the collector-free machine: prove it directly
  clear h
  suffices ∀ (n c : Nat) (s : S), 1 ≤ n → runLoop m (some (c + n)) n c s ≠ .fuel by
    have := this b 0 s hb; simpa [runCount] using this
  intro n
  induction n with
  | zero => intro c s h; omega
  | succ n ih =>
    intro c s _
    simp only [runLoop]
    cases m.step (if (c + 1) % 8192 = 0 then m.gc s else s) with
    | halt s' => simp
    | fail e s' => simp
    | next s' =>
      simp only
      by_cases hn : n = 0
      · subst hn; simp
      · have hne : ¬ (some (c + (n + 1)) = some (c + 1)) := by
          intro he; injection he with he; omega
        simp only [hne, if_false]
        have := ih (c + 1) s' (by omega)
        have e : c + 1 + n = c + (n + 1) := by omega
        rw [e] at this; exact this

/-! ### non-vacuity: a concrete machine (a counter that halts at 5, "collector" = identity) -/

def demo : Machine Nat Unit := ⟨fun n => if n ≥ 5 then .halt n else .next (n + 1), id⟩

example : pureN demo 6 0 = .done 5 := by rfl
example : runSliced demo [1, 1, 1, 1, 1, 1] 0 = .done 5 := by rfl
example : runSliced demo [4, 2] 0 = .done 5 := by rfl
example : runCount demo 1 0 = .paused 1 := by rfl

/-! ## T13.3 for the concrete machine: `GcTransparent` discharged by the heap simulation

`Marwood.Vm.Concrete.machine ext force` is `run_one` over the concrete heap (`Vm/ConcreteHeap.lean`) with
the C03 collector model as `gc`. `R` (Lemmas/SimMain.lean) is "`Sim φ` for some partial injection `φ`, and
both states are `Safe`". What is proved and what is assumed:

* `gc_left` — closed (Lemmas/SimGc.lean, from T03.2 `runGc_spec` and T03.3 `runGc_wf`).
* `step` — closed for all 16 opcodes (Lemmas/SimStep{A..F}.lean, SimBuiltin.lean: JMP JNT MOV MOVIMM PUSH
  PUSHIMM PUSHACC HALT RET CALL TCALL ENTER, and the allocating CONS VARARG CLOSURE ENTER-of-a-closure
  `call/cc`, plus `apply` and `eval`'s frame handling) **given** `ExtLaws ext`: the law "respects the
  simulation" of the four non-modelled parameters of `concreteOps` — `builtinKind`, `builtinEval` (139
  generic Rust procedures), `compileEval` (`eval`'s compiler), `vectorPush` (VPUSH through an aliased `Rc`).
* `Safe` — explicit hypothesis on the initial state (see Lemmas/SimMain.lean): every state along either
  run has a heap below 2^63 cells, a well-formed erased heap (`WFHeap`, `RootsOk`), the kind disciplines
  `Plain` / `NoIofArg`, and reads the stack through `bp` only at or below `sp`.
-/
section Concrete
open Marwood.Lemmas.Sim Marwood.Vm.Concrete

/-- **`GcTransparent` for the real collector model** (T03.5's core): on the concrete machine, the relation
    "equal up to a partial injection on heap addresses, along safe runs" is preserved by every instruction
    and absorbed by a collection at any instruction boundary. -/
theorem gcTransparent_concrete_partial (ext : ExtOps) (force : Bool) (o : ExtLaws ext) :
    GcTransparent (machine ext force) (R (machine ext force)) where
  step := by
    rintro s t ⟨⟨φ, hs⟩, ss, st⟩
    have hstep := step_sim ext (execSim_all ext o) hs ss.good st.good
    show StepRel _ (vmStep (concreteOps ext) s) (vmStep (concreteOps ext) t)
    unfold vmStep
    generalize hx : step (concreteOps ext) s = x at hstep
    generalize hy : step (concreteOps ext) t = y at hstep
    cases hstep with
    | ok r =>
      rename_i a b
      obtain ⟨s', hb⟩ := a
      obtain ⟨t', hb'⟩ := b
      obtain ⟨e, ψ, _, hs'⟩ := r
      simp only at e hs'
      subst e
      cases hb with
      | false =>
        have r1 : (machine ext force).step s = .next s' := by simp [machine, vmStep, hx]
        have r2 : (machine ext force).step t = .next t' := by simp [machine, vmStep, hy]
        exact .next ⟨⟨ψ, hs'⟩, ss.of_reaches (.next (.refl s) r1), st.of_reaches (.next (.refl t) r2)⟩
      | true =>
        have r1 : (machine ext force).step s = .halt s' := by simp [machine, vmStep, hx]
        have r2 : (machine ext force).step t = .halt t' := by simp [machine, vmStep, hy]
        exact .halt ⟨⟨ψ, hs'⟩, ss.of_reaches (.halt (.refl s) r1), st.of_reaches (.halt (.refl t) r2)⟩
    | err => exact .fail ⟨⟨φ, hs⟩, ss, st⟩
    | panic => exact .fail ⟨⟨φ, hs⟩, ss, st⟩
  gc_left := by
    rintro s t ⟨⟨φ, hs⟩, ss, st⟩
    have hr : Reaches (machine ext force) s (cgc force s) := .gc (.refl s)
    obtain ⟨ψ, _, h⟩ := cgc_sim force hs ss.good.plain ss.good.wf ss.good.roots (ss _ hr).size
    exact ⟨⟨ψ, h⟩, ss.of_reaches hr, st⟩

/-- **T13.3 for the concrete machine.** For every sequence of positive budgets, the sliced run (with the
    budget-stop collections, the collections every 8192 cycles, on the real collector model) and the
    collection-free run of `sum budgets` instructions from `Sim`-related safe states end with the same
    status — paused, value, or the same failure — in `Sim`-related states. -/
theorem sliced_sim_pure_partial (ext : ExtOps) (force : Bool) (o : ExtLaws ext) (bs : List Nat)
    (hpos : ∀ b ∈ bs, 1 ≤ b) (s t : St CHeap) (h : R (machine ext force) s t) :
    ResRel (R (machine ext force)) (runSliced (machine ext force) bs s) (pureN (machine ext force) bs.sum t) :=
  runSliced_pureN _ _ (gcTransparent_concrete_partial ext force o) bs hpos s t h

/-- sliced vs. uninterrupted on the concrete machine: both complete, and any observation that `Sim`
    preserves (`Lemmas/SimObs.lean`: the datum read from `acc`) is equal -/
theorem sliced_equiv_uninterrupted_concrete_partial (ext : ExtOps) (force : Bool) (o : ExtLaws ext)
    (O : Type) (obs : St CHeap → O) (hobs : ∀ s t, R (machine ext force) s t → obs s = obs t)
    (s0 : St CHeap) (hrefl : R (machine ext force) s0 s0) (k : Nat) (t' : St CHeap)
    (hk : pureN (machine ext force) k s0 = .done t')
    (bs : List Nat) (hpos : ∀ b ∈ bs, 1 ≤ b) (hsum : k ≤ bs.sum) :
    ∃ s1 s2, run (machine ext force) k s0 = .done s1 ∧ runSliced (machine ext force) bs s0 = .done s2 ∧
      obs s1 = obs s2 :=
  sliced_equiv_uninterrupted_done _ _ (gcTransparent_concrete_partial ext force o) O obs hobs s0 hrefl k t' hk
    bs hpos hsum

/-- **T13.3, closed form for the concrete machine.** From a safe state: if the uninterrupted evaluation reaches
    HALT after `k` instructions, then for every sequence of positive budgets whose sum reaches `k` the sliced
    evaluation reaches HALT too, and the datum read out of `acc` is the same (any read-out fuel). The
    reflexivity premise is discharged by `sim_refl`. -/
theorem sliced_value_eq_uninterrupted_partial (ext : ExtOps) (force : Bool) (o : ExtLaws ext)
    (s0 : St CHeap) (hs : Safe (machine ext force) s0) (k : Nat) (t' : St CHeap)
    (hk : pureN (machine ext force) k s0 = .done t')
    (bs : List Nat) (hpos : ∀ b ∈ bs, 1 ≤ b) (hsum : k ≤ bs.sum) (fuel : Nat) :
    ∃ s1 s2, run (machine ext force) k s0 = .done s1 ∧ runSliced (machine ext force) bs s0 = .done s2 ∧
      resultObs fuel s1 = resultObs fuel s2 :=
  sliced_equiv_uninterrupted_concrete_partial ext force o Obs (resultObs fuel)
    (fun s t ⟨⟨_, h⟩, ss, st⟩ => resultObs_sim h ss.good.size st.good.size fuel)
    s0 (R_refl _ hs) k t' hk bs hpos hsum

/-- the law structure is satisfiable: a parameter set whose builtins, compiler and VPUSH always fail -/
def failingExt : ExtOps :=
  { builtinKind := fun _ _ => .generic
    builtinEval := fun _ _ _ => .err (.builtin "unsupported")
    compileEval := fun _ _ => .err (.builtin "unsupported")
    vectorPush := fun _ _ _ => .err .expectedType }

theorem failingExt_laws : ExtLaws failingExt :=
  ⟨fun _ _ _ _ _ => rfl, fun _ _ _ _ _ _ _ _ _ _ _ _ => .err, fun _ _ _ _ _ _ _ _ _ _ _ => .err,
   fun _ _ _ _ _ _ _ _ _ _ _ _ => .err⟩

end Concrete

/-! ## T13.3 without `Safe`: the invariant is proved, the hypothesis is about the initial state

`Safe m s0` (every reachable state is `Good`) is a theorem (`Lemmas/GoodMain.lean`: `safe_of_good`, from
`good_step` — one lemma per opcode for the heap clauses, the roots clause read off the simulation lemma — and
`good_gc`) given

* `GoodI s0` of the **initial** state: `WFHeap` of the erased heap, the kind discipline `Plain`, the code
  discipline of every lambda object (`NoIofArg`; `MOV` / `MOVIMM` never address a heap cell directly and load
  values), the environment discipline (slots are values or one-level pointers to value slots), allocated
  roots, a value in `acc`;
* `ExtGood ext` — the law of the non-modelled parameters for this invariant (next to `ExtLaws ext`);
* `SizeBounded m s0` — every reachable heap has at most `2^62` cells. This is the ONE remaining size
  hypothesis; it is not an invariant (a run can allocate without bound) but a physical fact;
* `StackDiscAlong m s0` — the frame discipline of the current instruction in every reachable state
  (bp-relative reads at or below `sp`, a complete frame at RET / TCALL, and the stack cells an instruction
  consumes as values are values, not frame-header cells). A consequence of WF-stack for verified code once
  the verifier types bp-relative sources and temporaries (C04/C05); a named hypothesis here.
-/
section ConcreteInv
open Marwood.Lemmas.Sim Marwood.Lemmas.Good Marwood.Vm.Concrete

theorem failingExt_good : ExtGood failingExt :=
  ⟨fun _ _ _ _ _ _ _ h => (by cases h), fun _ _ _ _ _ _ h => (by cases h), fun _ _ _ _ _ _ _ h => (by cases h)⟩

/-- **T13.3 for the concrete machine, hypothesis on the initial state only.** If the uninterrupted evaluation
    reaches HALT after `k` instructions, then for every sequence of positive budgets whose sum reaches `k` the
    sliced evaluation reaches HALT too and the datum read out of `acc` is the same. -/
theorem sliced_value_eq_uninterrupted (ext : ExtOps) (force : Bool) (o : ExtLaws ext) (eg : ExtGood ext)
    (s0 : St CHeap) (g0 : GoodI s0) (sb : SizeBounded (machine ext force) s0)
    (sd : StackDiscAlong (machine ext force) s0) (k : Nat) (t' : St CHeap)
    (hk : pureN (machine ext force) k s0 = .done t')
    (bs : List Nat) (hpos : ∀ b ∈ bs, 1 ≤ b) (hsum : k ≤ bs.sum) (fuel : Nat) :
    ∃ s1 s2, run (machine ext force) k s0 = .done s1 ∧ runSliced (machine ext force) bs s0 = .done s2 ∧
      resultObs fuel s1 = resultObs fuel s2 :=
  sliced_value_eq_uninterrupted_partial ext force o s0 (safe_of_good force o eg g0 sb sd) k t' hk bs hpos hsum fuel

/-- the same for an evaluation that fails: the same failure, `Sim`-related states -/
theorem sliced_error_eq_uninterrupted (ext : ExtOps) (force : Bool) (o : ExtLaws ext) (eg : ExtGood ext)
    (s0 : St CHeap) (g0 : GoodI s0) (sb : SizeBounded (machine ext force) s0)
    (sd : StackDiscAlong (machine ext force) s0) (k : Nat) (e : Fault) (t' : St CHeap)
    (hk : pureN (machine ext force) k s0 = .error e t')
    (bs : List Nat) (hpos : ∀ b ∈ bs, 1 ≤ b) (hsum : k ≤ bs.sum) :
    ∃ s1 s2, run (machine ext force) k s0 = .error e s1 ∧ runSliced (machine ext force) bs s0 = .error e s2 ∧
      R (machine ext force) s1 t' ∧ R (machine ext force) s2 t' := by
  have hs := safe_of_good force o eg g0 sb sd
  have hT := gcTransparent_concrete_partial ext force o
  obtain ⟨s1, h1, hr1⟩ := (run_pureN _ _ hT k 0 s0 s0 (R_refl _ hs)).2 e t' hk
  have h2 := runSliced_pureN _ _ hT bs hpos s0 s0 (R_refl _ hs)
  rw [pureN_error_mono _ k bs.sum s0 t' e hk hsum] at h2
  generalize hrs : runSliced (machine ext force) bs s0 = r at h2
  cases h2 with
  | error h => exact ⟨s1, _, h1, rfl, hr1, h⟩

/-- … and the hypothesis is one about the VM **between** evaluations: an idle good machine (registers reset,
    stack wiped) on which `prepare_eval` compiled the form `d` (law `CompGood` of the compiler) -/
theorem sliced_value_eq_uninterrupted_eval (ext : ExtOps) (force : Bool) (o : ExtLaws ext) (eg : ExtGood ext)
    (comp : CHeap → VCell → Outcome (CHeap × VCell)) (cg : CompGood comp)
    (s : St CHeap) (g : GoodI s) (hacc : s.acc = .undefined) (hep : Heap.Sentinel s.ep)
    (hst : ∀ c ∈ s.stack.cells, c = VCell.undefined) (d : VCell) (hd : addrFree d = true)
    (s0 : St CHeap) (hp : prepareEval comp s d = .ok s0) (sb : SizeBounded (machine ext force) s0)
    (sd : StackDiscAlong (machine ext force) s0) (k : Nat) (t' : St CHeap)
    (hk : pureN (machine ext force) k s0 = .done t')
    (bs : List Nat) (hpos : ∀ b ∈ bs, 1 ≤ b) (hsum : k ≤ bs.sum) (fuel : Nat) :
    ∃ s1 s2, run (machine ext force) k s0 = .done s1 ∧ runSliced (machine ext force) bs s0 = .done s2 ∧
      resultObs fuel s1 = resultObs fuel s2 :=
  sliced_value_eq_uninterrupted ext force o eg s0
    (prepare_goodI cg g hacc hep hst hd hp (sb s0 (.refl s0))) sb sd k t' hk bs hpos hsum fuel

/-! ### non-vacuity: the program `HALT` on a well-formed heap (Lemmas/GoodDemo.lean) -/

open Marwood.Lemmas.Good.Demo in
example : GoodI (sHalt 0) ∧ SizeBounded (machine failingExt false) (sHalt 0) ∧
    StackDiscAlong (machine failingExt false) (sHalt 0) ∧ ExtLaws failingExt ∧ ExtGood failingExt :=
  ⟨sHalt_goodI 0, sHalt_sizeBounded _, sHalt_discAlong _, failingExt_laws, failingExt_good⟩

open Marwood.Lemmas.Good.Demo in
/-- every slicing of the one-instruction evaluation, through the theorem -/
example (bs : List Nat) (hpos : ∀ b ∈ bs, 1 ≤ b) (hsum : 1 ≤ bs.sum) :
    ∃ s1 s2, run (machine failingExt false) 1 (sHalt 0) = .done s1 ∧
      runSliced (machine failingExt false) bs (sHalt 0) = .done s2 ∧ resultObs 5 s1 = resultObs 5 s2 :=
  sliced_value_eq_uninterrupted failingExt false failingExt_laws failingExt_good (sHalt 0) (sHalt_goodI 0)
    (sHalt_sizeBounded _) (sHalt_discAlong _) 1 (sHalt 1) rfl bs hpos hsum 5

/-- a compiler that always fails satisfies the law -/
example : CompGood (fun _ _ => .err .invalidSyntax) := ⟨fun _ _ _ _ _ _ _ h => (by cases h)⟩

/-! ### T13.3 without `StackDiscAlong`: the stack discipline is a theorem (WF-stack over the value-typed verifier)

`StackDiscAlong` is discharged by `Lemmas/StackDiscOfWFS.lean`: `stackDisc_of_wfs` derives all six clauses of
`StackDisc` from WF-stack over the value-typed bytecode verifier, and `vmOk_reaches` shows that
`VmOk = GoodI ∧ WFS` is an invariant of the REAL concrete machine. Hypotheses that remain: the laws of the
unmodelled parts (`ExtLaws`, `ExtGood`, `ExtCodeLawsV`), `VmOk` of the INITIAL state, the physical bound
`SizeBounded`, and `CalleeOkAlong` (the callee guard passes at every reachable CALL / TCALL / ENTER site:
the oracle `callee-ok` of the `bytecode-verifier` stream). -/

/-- the always-failing parameter set satisfies the code law vacuously -/
theorem failingExt_codeLawsV : ExtCodeLawsV failingExt :=
  ⟨fun _ h => (by cases h), fun _ h => (by cases h), fun _ h => (by cases h)⟩

/-- **T13.3 from the bundled invariant of the initial state** -/
theorem sliced_value_eq_uninterrupted_wf (ext : ExtOps) (force : Bool) (o : ExtLaws ext) (eg : ExtGood ext)
    (ecl : ExtCodeLawsV ext) (s0 : St CHeap) (h0 : VmOk ext ecl s0) (sb : SizeBounded (machine ext force) s0)
    (ca : CalleeOkAlong (machine ext force) s0) (k : Nat) (t' : St CHeap)
    (hk : pureN (machine ext force) k s0 = .done t')
    (bs : List Nat) (hpos : ∀ b ∈ bs, 1 ≤ b) (hsum : k ≤ bs.sum) (fuel : Nat) :
    ∃ s1 s2, run (machine ext force) k s0 = .done s1 ∧ runSliced (machine ext force) bs s0 = .done s2 ∧
      resultObs fuel s1 = resultObs fuel s2 :=
  sliced_value_eq_uninterrupted ext force o eg s0 h0.1 sb (stackDiscAlong_of_wfs force o eg h0 sb ca) k t' hk bs
    hpos hsum fuel

/-- … and for an evaluation that fails -/
theorem sliced_error_eq_uninterrupted_wf (ext : ExtOps) (force : Bool) (o : ExtLaws ext) (eg : ExtGood ext)
    (ecl : ExtCodeLawsV ext) (s0 : St CHeap) (h0 : VmOk ext ecl s0) (sb : SizeBounded (machine ext force) s0)
    (ca : CalleeOkAlong (machine ext force) s0) (k : Nat) (e : Fault) (t' : St CHeap)
    (hk : pureN (machine ext force) k s0 = .error e t')
    (bs : List Nat) (hpos : ∀ b ∈ bs, 1 ≤ b) (hsum : k ≤ bs.sum) :
    ∃ s1 s2, run (machine ext force) k s0 = .error e s1 ∧ runSliced (machine ext force) bs s0 = .error e s2 ∧
      R (machine ext force) s1 t' ∧ R (machine ext force) s2 t' :=
  sliced_error_eq_uninterrupted ext force o eg s0 h0.1 sb (stackDiscAlong_of_wfs force o eg h0 sb ca) k e t' hk bs
    hpos hsum

open Marwood.Lemmas.Good.Demo in
/-- non-vacuity: every hypothesis holds of the demo state -/
example : VmOk failingExt failingExt_codeLawsV (sHalt 0) ∧ SizeBounded (machine failingExt false) (sHalt 0) ∧
    CalleeOkAlong (machine failingExt false) (sHalt 0) :=
  ⟨sHalt_vmOk _ _, sHalt_sizeBounded _, sHalt_calleeOkAlong _⟩

open Marwood.Lemmas.Good.Demo in
example (bs : List Nat) (hpos : ∀ b ∈ bs, 1 ≤ b) (hsum : 1 ≤ bs.sum) :
    ∃ s1 s2, run (machine failingExt false) 1 (sHalt 0) = .done s1 ∧
      runSliced (machine failingExt false) bs (sHalt 0) = .done s2 ∧ resultObs 5 s1 = resultObs 5 s2 :=
  sliced_value_eq_uninterrupted_wf failingExt false failingExt_laws failingExt_good failingExt_codeLawsV (sHalt 0)
    (sHalt_vmOk _ _) (sHalt_sizeBounded _) (sHalt_calleeOkAlong _) 1 (sHalt 1) rfl bs hpos hsum 5

/-! ### T13.3 without `CalleeOkAlong`: the callee guard is a theorem

`Lemmas/ProcInv*.lean`: the two heap-invariant clauses "every closure cell's lambda is procedure code" and "no value
(`acc`, live stack cell, global slot, environment slot, vector element, car / cdr, continuation stack copy, MOVIMM /
PUSHIMM immediate, symbol-table entry) points to entry code" (`PInv`; executable form `Vm/ProcInv.lean: statePB`,
evaluated on every real state by the stream `safe-side-conditions`) are preserved by every opcode of the real
machine and by the collector, and imply the callee guard (`calleeOk_of_pinv`). Hence `CalleeOkAlong` follows from
`PInv` of the INITIAL state (`calleeOkAlong_of_vmOk`). Hypotheses that remain: the laws of the unmodelled parts
(`ExtLaws`, `ExtGood`, `ExtCodeLawsV`, and the new `ExtProc`: builtins / `eval`'s compiler / VPUSH create no entry
code and return nothing that leads to entry code), `VmOk` and `PInv` of the initial state, and `SizeBounded`. -/

/-- the always-failing parameter set satisfies the new law vacuously -/
theorem failingExt_proc : ExtProc failingExt :=
  ⟨fun _ _ _ _ _ _ _ _ h => (by cases h), fun _ _ _ _ _ _ _ h => (by cases h), fun _ _ _ _ _ _ _ _ h => (by cases h)⟩

/-- **T13.3, closed**: no hypothesis along the run besides the physical size bound -/
theorem sliced_value_eq_uninterrupted_closed (ext : ExtOps) (force : Bool) (o : ExtLaws ext) (eg : ExtGood ext)
    (ecl : ExtCodeLawsV ext) (ep : ExtProc ext) (s0 : St CHeap) (h0 : VmOk ext ecl s0) (p0 : PInv s0)
    (sb : SizeBounded (machine ext force) s0) (k : Nat) (t' : St CHeap)
    (hk : pureN (machine ext force) k s0 = .done t')
    (bs : List Nat) (hpos : ∀ b ∈ bs, 1 ≤ b) (hsum : k ≤ bs.sum) (fuel : Nat) :
    ∃ s1 s2, run (machine ext force) k s0 = .done s1 ∧ runSliced (machine ext force) bs s0 = .done s2 ∧
      resultObs fuel s1 = resultObs fuel s2 :=
  sliced_value_eq_uninterrupted_wf ext force o eg ecl s0 h0 sb (calleeOkAlong_of_vmOk force o eg ep h0 p0 sb) k t' hk
    bs hpos hsum fuel

/-- … and for an evaluation that fails -/
theorem sliced_error_eq_uninterrupted_closed (ext : ExtOps) (force : Bool) (o : ExtLaws ext) (eg : ExtGood ext)
    (ecl : ExtCodeLawsV ext) (ep : ExtProc ext) (s0 : St CHeap) (h0 : VmOk ext ecl s0) (p0 : PInv s0)
    (sb : SizeBounded (machine ext force) s0) (k : Nat) (e : Fault) (t' : St CHeap)
    (hk : pureN (machine ext force) k s0 = .error e t')
    (bs : List Nat) (hpos : ∀ b ∈ bs, 1 ≤ b) (hsum : k ≤ bs.sum) :
    ∃ s1 s2, run (machine ext force) k s0 = .error e s1 ∧ runSliced (machine ext force) bs s0 = .error e s2 ∧
      R (machine ext force) s1 t' ∧ R (machine ext force) s2 t' :=
  sliced_error_eq_uninterrupted_wf ext force o eg ecl s0 h0 sb (calleeOkAlong_of_vmOk force o eg ep h0 p0 sb) k e t'
    hk bs hpos hsum

open Marwood.Lemmas.Good.Demo in
/-- non-vacuity: every hypothesis holds of the demo state (the clause `PInv` through the executable check) -/
example : ExtProc failingExt ∧ VmOk failingExt failingExt_codeLawsV (sHalt 0) ∧ PInv (sHalt 0) ∧
    SizeBounded (machine failingExt false) (sHalt 0) :=
  ⟨failingExt_proc, sHalt_vmOk _ _, sHalt_pinv 0, sHalt_sizeBounded _⟩

open Marwood.Lemmas.Good.Demo in
example (bs : List Nat) (hpos : ∀ b ∈ bs, 1 ≤ b) (hsum : 1 ≤ bs.sum) :
    ∃ s1 s2, run (machine failingExt false) 1 (sHalt 0) = .done s1 ∧
      runSliced (machine failingExt false) bs (sHalt 0) = .done s2 ∧ resultObs 5 s1 = resultObs 5 s2 :=
  sliced_value_eq_uninterrupted_closed failingExt false failingExt_laws failingExt_good failingExt_codeLawsV
    failingExt_proc (sHalt 0) (sHalt_vmOk _ _) (sHalt_pinv 0) (sHalt_sizeBounded _) 1 (sHalt 1) rfl bs hpos hsum 5

end ConcreteInv

end Marwood.Proofs.C13
