import Marwood.Lemmas.Digits
import Marwood.Lemmas.Parse
import Marwood.Lemmas.RadixLex
import Marwood.Lemmas.ExpLex
/-!
# C16 — number->string and string->number are mutually inverse

Property theorems only. Model: `Marwood.Num.Text` (number.rs parse / Display / radix printers after
the sign-and-magnitude repair, builtin/number.rs procedures after the radix check).
Float text is abstract: `FloatText fo` are the hypotheses about Rust's float formatting/parsing.
-/
namespace Marwood.Proofs.C16
open Marwood

/-! ### vocabulary -/

def isExact : Num → Bool
  | .flo _ => false
  | _ => true

/-- numerator and denominator of an exact number -/
def frac : Num → Int × Int
  | .fix n => (n, 1)
  | .big n => (n, 1)
  | .rat n d => (n, d)
  | .flo _ => (0, 0)

/-- equal in value (cross-multiplication; denominators are positive for well-formed numbers) -/
def SameValue (a b : Num) : Prop := (frac a).1 * (frac b).2 = (frac b).1 * (frac a).2

/-- the representation the reader chooses for a value -/
def normalize : Num → Num
  | .big n => if inI64 n then .fix n else .big n
  | .rat n d => if d = 1 then .fix n else .rat n d
  | z => z

theorem normalize_exact (z : Num) (h : isExact z = true) :
    isExact (normalize z) = true ∧ SameValue (normalize z) z := by
  cases z with
  | fix n => exact ⟨rfl, rfl⟩
  | big n =>
    simp only [normalize]
    split <;> exact ⟨rfl, rfl⟩
  | rat n d =>
    simp only [normalize]
    split
    · rename_i hd; subst hd; exact ⟨rfl, by simp [SameValue, frac]⟩
    · exact ⟨rfl, rfl⟩
  | flo f => cases h

theorem inI64_iff (n : Int) : inI64 n = true ↔ -9223372036854775808 ≤ n ∧ n ≤ 9223372036854775807 := by
  simp only [inI64, Bool.and_eq_true, decide_eq_true_eq]
  unfold i64Min i64Max
  exact Iff.rfl

theorem inI32_iff (n : Int) : inI32 n = true ↔ -2147483648 ≤ n ∧ n ≤ 2147483647 := by
  simp only [inI32, Bool.and_eq_true, decide_eq_true_eq]
  unfold i32Min i32Max
  exact Iff.rfl

def Radix (r : Nat) : Prop := r = 2 ∨ r = 8 ∨ r = 10 ∨ r = 16

theorem Radix.bounds {r : Nat} (h : Radix r) : 2 ≤ r ∧ r ≤ 36 := by
  rcases h with rfl | rfl | rfl | rfl <;> omega

/-! ### T16.1 — digits, integers -/

/-- digits in radix `r` are inverse on ℕ, for every `n` and every radix 2..36 -/
theorem digits_roundtrip (r : Nat) (h2 : 2 ≤ r) (h36 : r ≤ 36) (n : Nat) :
    parseNat r (natDigits r n) = some n :=
  parseNat_natDigits h2 h36 n

/-- `i64::from_str_radix` / `i32::from_str_radix` read a printed integer back iff it is in range -/
theorem int_roundtrip_std (r : Nat) (h2 : 2 ≤ r) (h36 : r ≤ 36) (inR : Int → Bool) (n : Int) :
    parseIntStd inR r (intDigits r n) = if inR n then some n else none :=
  parseIntStd_intDigits h2 h36 inR n

/-- `BigInt::from_str_radix` reads every printed integer back -/
theorem int_roundtrip_big (r : Nat) (h2 : 2 ≤ r) (h36 : r ≤ 36) (n : Int) :
    parseBigInt r (intDigits r n) = some n :=
  parseBigInt_intDigits h2 h36 n

/-! ### T16.1 — every exact number, every representation, radix 2/8/10/16 -/

/-- what `number->string` prints for an exact number -/
def exactDigits (r : Nat) : Num → Text
  | .fix n => intDigits r n
  | .big n => intDigits r n
  | .rat n d => ratDigits r n d
  | .flo _ => []

theorem numberToString_exact (fo : FloatOps) (r : Nat) (hr : Radix r) (z : Num)
    (hz : isExact z = true) : numberToString fo r z = exactDigits r z := by
  unfold numberToString
  rcases hr with rfl | rfl | rfl | rfl <;> cases z <;> first | rfl | cases hz

theorem ratio_text_not_integer (r : Nat) (inR : Int → Bool) (a b : Text) :
    parseIntStd inR r (a ++ '/' :: b) = none ∧ parseBigInt r (a ++ '/' :: b) = none :=
  ⟨parseIntStd_fail inR r (toDigit_slash r) (by decide) (by decide) _ (by simp),
   parseBigInt_fail r (toDigit_slash r) (by decide) (by decide) (by decide) _ (by simp)⟩

theorem inI32_inI64 {n : Int} (h : inI32 n = true) : inI64 n = true := by
  rw [inI32_iff] at h
  rw [inI64_iff]
  omega

theorem ratioNew32_reduced {n d : Int} (hd : 1 ≤ d) (hd1 : d ≠ 1) (hg : Int.gcd n d = 1) :
    ratioNew32 n d = .ok (n, d) := by
  have hn0 : n ≠ 0 := by
    intro h; subst h
    rw [Int.gcd_zero_left] at hg
    omega
  have hnd : n ≠ d := by
    intro h; subst h
    rw [Int.gcd_self] at hg
    omega
  unfold ratioNew32
  simp only [hn0, hnd, if_false, hg]
  have h1 : n.tdiv ((1 : Nat) : Int) = n := by simp
  have h2 : d.tdiv ((1 : Nat) : Int) = d := by simp
  simp only [h1, h2]
  have : ¬ d < 0 := by omega
  simp [this]

/-- T16.1: for every exact number in every representation and each radix 2, 8, 10, 16, reading
    what `number->string` printed yields an exact number of the same value (in the representation
    the reader chooses for that value) -/
theorem exact_roundtrip (fo : FloatOps) (z : Num) (hwf : z.WF = true) (hex : isExact z = true)
    (r : Nat) (hr : Radix r) :
    parseNumber fo r (numberToString fo r z) = .ok (normalize z) ∧
      isExact (normalize z) = true ∧ SameValue (normalize z) z := by
  refine ⟨?_, normalize_exact z hex⟩
  obtain ⟨h2, h36⟩ := hr.bounds
  rw [numberToString_exact fo r hr z hex]
  have hrad : ¬ (r < 2 ∨ 36 < r) := by omega
  unfold parseNumber
  simp only [hrad, if_false]
  cases z with
  | flo f => cases hex
  | fix n =>
    have hn : inI64 n = true := hwf
    simp only [exactDigits, normalize]
    rw [parseIntStd_intDigits h2 h36, hn]
    simp
  | big n =>
    simp only [exactDigits, normalize]
    rw [parseIntStd_intDigits h2 h36]
    by_cases hn : inI64 n = true
    · simp [hn]
    · simp only [hn, Bool.false_eq_true, if_false]
      rw [parseBigInt_intDigits h2 h36]
  | rat n d =>
    simp only [Num.WF, Bool.and_eq_true, decide_eq_true_eq, beq_iff_eq] at hwf
    obtain ⟨⟨⟨hd, hn32⟩, hd32⟩, hg⟩ := hwf
    simp only [exactDigits, normalize, ratDigits]
    by_cases hd1 : d = 1
    · simp only [hd1, if_true]
      rw [parseIntStd_intDigits h2 h36, inI32_inI64 hn32]
      simp
    · simp only [hd1, if_false]
      obtain ⟨e1, e2⟩ := ratio_text_not_integer r inI64 (intDigits r n) (intDigits r d)
      rw [e1, e2]
      simp only
      have hsplit := splitSlash_append (intDigits r n) (intDigits r d) (intDigits_no_slash h2 h36 n)
      have hr32 : parseRational32 r (intDigits r n ++ '/' :: intDigits r d) = .ok (n, d) := by
        unfold parseRational32
        rw [hsplit]
        simp only
        rw [parseIntStd_intDigits h2 h36, parseIntStd_intDigits h2 h36, hn32, hd32]
        simp only [if_true]
        have : ¬ (d < 0 ∧ (n = i32Min ∨ d = i32Min)) := by omega
        have hd0 : d ≠ 0 := by omega
        simp only [this, hd0, if_false]
        exact ratioNew32_reduced hd hd1 hg
      unfold parseRational
      simp only [hr32, hd1, if_false]

/-- T16.1 at the level of the two procedures:
    `(string->number (number->string z r) r)` for exact `z` -/
theorem exact_roundtrip_proc (fo : FloatOps) (z : Num) (hwf : z.WF = true) (hex : isExact z = true)
    (r : Nat) (hr : Radix r) :
    ∃ s, numberToStringProc fo [.num z, .num (.fix r)] = .ok (.str s) ∧
      stringToNumberProc fo [.str s, .num (.fix r)] = .ok (.num (normalize z)) := by
  obtain ⟨h2, h36⟩ := hr.bounds
  refine ⟨numberToString fo r z, ?_, ?_⟩
  · simp [numberToStringProc, popUsize]
  · have hp : popUsize (.num (.fix (r : Int))) = some r := by simp [popUsize]
    have hmod : r % 4294967296 = r := Nat.mod_eq_of_lt (by omega)
    have hrad : ¬ (r < 2 ∨ 36 < r) := by omega
    unfold stringToNumberProc
    simp only [hp, hmod, hrad, if_false]
    unfold parseWithExactness
    rw [(exact_roundtrip fo z hwf hex r hr).1]

/-! ### T16.2 — finite doubles in radix 10, under the float-text hypotheses -/

/-- what is assumed (not proved) about Rust's `{}` / `{:e}` / `{:.1}` and `str::parse::<f64>` -/
structure FloatText (fo : FloatOps) : Prop where
  /-- reading the printed form of a finite double gives that double back -/
  parse_print : ∀ f : F64, f.isFinite = true → fo.parseF64 10 (printNumber fo (.flo f)) = some f
  /-- the printed form of a finite double contains `.` or `e` … -/
  has_mark : ∀ f : F64, f.isFinite = true →
      '.' ∈ printNumber fo (.flo f) ∨ 'e' ∈ printNumber fo (.flo f)
  /-- … and no `/` -/
  no_slash : ∀ f : F64, f.isFinite = true → ∀ c ∈ printNumber fo (.flo f), c ≠ '/'

/-- T16.2: a finite double printed in radix 10 falls through the integer, big-integer and ratio
    readers (it contains `.` or `e` and no `/`) and is read back by the float reader -/
theorem float_roundtrip (fo : FloatOps) (ht : FloatText fo) (f : F64) (hf : f.isFinite = true) :
    parseNumber fo 10 (numberToString fo 10 (.flo f)) = .ok (.flo f) := by
  have hs : numberToString fo 10 (.flo f) = printNumber fo (.flo f) := by
    simp [numberToString]
  rw [hs]
  obtain ⟨c, hc, hdig, hp, hm, hu⟩ : ∃ c, c ∈ printNumber fo (.flo f) ∧ toDigit 10 c = none ∧
      c ≠ '+' ∧ c ≠ '-' ∧ c ≠ '_' := by
    rcases ht.has_mark f hf with h | h
    · exact ⟨'.', h, toDigit_dot 10, by decide, by decide, by decide⟩
    · exact ⟨'e', h, toDigit_e_10, by decide, by decide, by decide⟩
  unfold parseNumber
  simp only [show ¬ ((10 : Nat) < 2 ∨ 36 < (10 : Nat)) by omega, if_false]
  rw [parseIntStd_fail inI64 10 hdig hp hm _ hc, parseBigInt_fail 10 hdig hp hm hu _ hc]
  simp only
  have hsplit := splitSlash_none _ (ht.no_slash f hf)
  have : parseRational fo 10 (printNumber fo (.flo f)) = .err () := by
    unfold parseRational parseRational32
    simp only [hsplit]
  rw [this, ht.parse_print f hf]

/-! ### T16.3 — a prefixed literal denotes what `string->number` gives its spelling -/

/-- the datum parser, on a radix prefix token followed by a number/symbol token, calls
    `parse_with_exactness` on the second token's spelling with that radix — the same call
    `string->number` makes -/
theorem literal_denotes (fo : FloatOps) (text : Text) (t0 t1 : Token) (rest : List Token)
    (sp s : Text) (r : Nat) (h0 : t0.ty = .numberPrefix) (hs0 : tokSpan text t0 = .ok sp)
    (hstep : prefixStep sp .unspecified 10 = some (.unspecified, r))
    (h1 : t1.ty = .number ∨ t1.ty = .symbol) (hs1 : tokSpan text t1 = .ok s)
    (hr : 2 ≤ r ∧ r ≤ 36) :
    (parseTokens fo text (t0 :: t1 :: rest) =
        match parseWithExactness fo s .unspecified r with
        | .ok n => .ok (.num n, rest)
        | .err () => .ok (.sym s, rest)
        | .panic m => .panic m) ∧
    (stringToNumberProc fo [.str s, .num (.fix r)] =
        match parseWithExactness fo s .unspecified r with
        | .ok n => .ok (.num n)
        | .err () => .ok (.bool false)
        | .panic m => .panic m) := by
  constructor
  · have hk : tokKind t0.ty = .atom := by rw [h0]; rfl
    have h1' : t1.ty ≠ .numberPrefix := by rcases h1 with h | h <;> rw [h] <;> decide
    have : parseF fo text 1 (t0 :: t1 :: rest) = some (match parseWithExactness fo s .unspecified r with
        | .ok n => .ok (.num n, rest)
        | .err () => .ok (.sym s, rest)
        | .panic m => .panic m) := by
      rw [parseF]
      simp only [hk]
      congr 1
      unfold parseAtom
      simp only [h0]
      rw [parseNumberTok]
      simp only [h0, if_true, hs0, hstep]
      rw [parseNumberTok]
      simp only [h1', if_false]
      unfold numberFinal
      simp only [hs1, h1, if_true]
      cases parseWithExactness fo s .unspecified r with
      | ok n => rfl
      | err e => cases e; rfl
      | panic m => rfl
    exact parseTokens_of_fuel fo text this
  · have hp : popUsize (.num (.fix (r : Int))) = some r := by simp [popUsize]
    have hmod : r % 4294967296 = r := Nat.mod_eq_of_lt (by omega)
    have hrad : ¬ (r < 2 ∨ 36 < r) := by omega
    unfold stringToNumberProc
    simp only [hp, hmod, hrad, if_false]
    cases parseWithExactness fo s .unspecified r with
    | ok n => rfl
    | err e => cases e; rfl
    | panic m => rfl

/-- T16.3, from the text: the source text `#b… #o… #d… #x…` whose body, standing alone, scans as one
    token of type `Number` or `Symbol`, is read by `parse_text` as the prefix token plus that token, and
    the datum is what `parse_with_exactness` — the function behind `string->number` — makes of the body
    in that radix (a body that is not a number becomes a symbol, where `string->number` answers `#f`) -/
theorem parseText_prefixed (fo : FloatOps) {r : Nat} (hr : Radix r) {sp : Text}
    (hs : ScansAs sp .number [] ∨ ScansAs sp .symbol []) :
    (parseText fo ('#' :: radixLetter r :: sp) =
        match parseWithExactness fo sp .unspecified r with
        | .ok n => .ok (.num n, none)
        | .err () => .ok (.sym sp, none)
        | .panic m => .panic m) ∧
    (stringToNumberProc fo [.str sp, .num (.fix r)] =
        match parseWithExactness fo sp .unspecified r with
        | .ok n => .ok (.num n)
        | .err () => .ok (.bool false)
        | .panic m => .panic m) := by
  obtain ⟨ty, hty, hsc⟩ : ∃ ty, (ty = .number ∨ ty = .symbol) ∧ ScansAs sp ty [] := by
    rcases hs with h | h
    · exact ⟨_, .inl rfl, h⟩
    · exact ⟨_, .inr rfl, h⟩
  have hscan := scan_prefixed hr hsc
  have hb : byteLen ['#', radixLetter r] = 2 := by
    rcases hr with rfl | rfl | rfl | rfl <;> decide
  have h0 : tokSpan ('#' :: radixLetter r :: sp) ⟨0, 2, .numberPrefix⟩ = .ok ['#', radixLetter r] := by
    have := tokSpan_at [] ['#', radixLetter r] sp .numberPrefix
    simpa [hb] using this
  have h1 : tokSpan ('#' :: radixLetter r :: sp) ⟨2, 2 + byteLen sp, ty⟩ = .ok sp := by
    have := tokSpan_at ['#', radixLetter r] sp [] ty
    simpa [hb] using this
  obtain ⟨hp, hq⟩ := literal_denotes fo ('#' :: radixLetter r :: sp) ⟨0, 2, .numberPrefix⟩
    ⟨2, 2 + byteLen sp, ty⟩ [] ['#', radixLetter r] sp r rfl h0
    (prefixStep_radixLetter hr .unspecified 10) hty h1 hr.bounds
  refine ⟨?_, hq⟩
  unfold parseText
  rw [hscan]
  simp only [hp]
  cases parseWithExactness fo sp .unspecified r with
  | ok n => rfl
  | err e => cases e; rfl
  | panic m => rfl

/-- what `number->string` prints for a well-formed exact number in radix 2, 8, 10, 16 is, before the
    end of the text, a space or a closing parenthesis, one token of type `Number` (sign or decimal
    digit first) or `Symbol` (hex digit `a`–`f` first) -/
theorem exactDigits_one_token (r : Nat) (hr : Radix r) (z : Num) (hwf : z.WF = true)
    (hex : isExact z = true) (rest : Text) (hd : Delim rest) :
    ScansAs (exactDigits r z) .number rest ∨ ScansAs (exactDigits r z) .symbol rest := by
  have h2 : 2 ≤ r := hr.bounds.1
  have h16 : r ≤ 16 := by rcases hr with rfl | rfl | rfl | rfl <;> omega
  apply scansAs_numTokShape _ rest hd
  cases z with
  | fix n => exact intDigits_shape h2 h16 n
  | big n => exact intDigits_shape h2 h16 n
  | rat n d =>
    simp only [Num.WF, Bool.and_eq_true, decide_eq_true_eq, beq_iff_eq] at hwf
    exact ratDigits_shape h2 h16 n d hwf.1.1.1
  | flo f => cases hex

/-- T16.3 for exact numbers, closed: for every well-formed exact `z` and radix 2, 8, 10, 16 the
    printed form, prefixed `#b #o #d #x` and read as source text, denotes exactly the number
    `string->number` returns for the printed form in that radix — `normalize z`, an exact number of
    the same value (T16.1) -/
theorem literal_exact (fo : FloatOps) (z : Num) (hwf : z.WF = true) (hex : isExact z = true)
    (r : Nat) (hr : Radix r) :
    parseText fo ('#' :: radixLetter r :: numberToString fo r z) = .ok (.num (normalize z), none) ∧
    stringToNumberProc fo [.str (numberToString fo r z), .num (.fix r)] = .ok (.num (normalize z)) ∧
    isExact (normalize z) = true ∧ SameValue (normalize z) z := by
  obtain ⟨hrt, hnorm⟩ := exact_roundtrip fo z hwf hex r hr
  have hpw : parseWithExactness fo (numberToString fo r z) .unspecified r = .ok (normalize z) := by
    unfold parseWithExactness
    rw [hrt]
  have hs := exactDigits_one_token r hr z hwf hex [] trivial
  rw [← numberToString_exact fo r hr z hex] at hs
  obtain ⟨h1, h2⟩ := parseText_prefixed fo hr hs
  rw [hpw] at h1 h2
  exact ⟨h1, h2, hnorm⟩

/-- T16.3 inside a program: the prefixed printed form of an exact number followed by the end of the
    text, a space or `)` and any further text `rest` with tokens `ts0`: the scanner yields the prefix
    token, one body token and `ts0`, and the datum parser returns `normalize z` and leaves `ts0` -/
theorem literal_exact_in_context (fo : FloatOps) (z : Num) (hwf : z.WF = true) (hex : isExact z = true)
    (r : Nat) (hr : Radix r) (rest : Text) (hd : Delim rest) (ts0 : List Token)
    (hrest : ScanTo (2 + byteLen (numberToString fo r z)) rest ts0) :
    ∃ t0 t1, scan ('#' :: radixLetter r :: (numberToString fo r z ++ rest)) = .ok (t0 :: t1 :: ts0) ∧
      parseTokens fo ('#' :: radixLetter r :: (numberToString fo r z ++ rest)) (t0 :: t1 :: ts0) =
        .ok (.num (normalize z), ts0) := by
  obtain ⟨hrt, _⟩ := exact_roundtrip fo z hwf hex r hr
  have hpw : parseWithExactness fo (numberToString fo r z) .unspecified r = .ok (normalize z) := by
    unfold parseWithExactness
    rw [hrt]
  have hs := exactDigits_one_token r hr z hwf hex rest hd
  rw [← numberToString_exact fo r hr z hex] at hs
  generalize numberToString fo r z = sp at hs hpw hrest ⊢
  obtain ⟨ty, hty, hsc⟩ : ∃ ty, (ty = .number ∨ ty = .symbol) ∧ ScansAs sp ty rest := by
    rcases hs with h | h
    · exact ⟨_, .inl rfl, h⟩
    · exact ⟨_, .inr rfl, h⟩
  have hb : byteLen ['#', radixLetter r] = 2 := by
    rcases hr with rfl | rfl | rfl | rfl <;> decide
  have h0 : tokSpan ('#' :: radixLetter r :: (sp ++ rest)) ⟨0, 2, .numberPrefix⟩ =
      .ok ['#', radixLetter r] := by
    have := tokSpan_at [] ['#', radixLetter r] (sp ++ rest) .numberPrefix
    simpa [hb] using this
  have h1 : tokSpan ('#' :: radixLetter r :: (sp ++ rest)) ⟨2, 2 + byteLen sp, ty⟩ = .ok sp := by
    have := tokSpan_at ['#', radixLetter r] sp rest ty
    simpa [hb] using this
  refine ⟨_, _, scan_prefixed_then hr hsc hrest, ?_⟩
  rw [(literal_denotes fo _ ⟨0, 2, .numberPrefix⟩ ⟨2, 2 + byteLen sp, ty⟩ ts0 ['#', radixLetter r] sp r
    rfl h0 (prefixStep_radixLetter hr .unspecified 10) hty h1 hr.bounds).1, hpw]

/-- T16.3 for finite doubles (radix 10, prefix `#d`), under the float-text hypotheses and the lexical
    shape of the printed double (a sign or digit, then digits, `.`, `e`, `-`: one `Number` token) -/
theorem literal_float (fo : FloatOps) (ht : FloatText fo) (f : F64) (hf : f.isFinite = true)
    (hshape : NumberShape (numberToString fo 10 (.flo f))) :
    parseText fo ('#' :: 'd' :: numberToString fo 10 (.flo f)) = .ok (.num (.flo f), none) ∧
    stringToNumberProc fo [.str (numberToString fo 10 (.flo f)), .num (.fix 10)] = .ok (.num (.flo f)) := by
  have hr : Radix 10 := .inr (.inr (.inl rfl))
  have hpw : parseWithExactness fo (numberToString fo 10 (.flo f)) .unspecified 10 = .ok (.flo f) := by
    unfold parseWithExactness
    rw [float_roundtrip fo ht f hf]
  obtain ⟨h1, h2⟩ := parseText_prefixed fo hr (.inl (scansAs_numberShape hshape [] trivial))
  rw [hpw] at h1 h2
  exact ⟨h1, h2⟩


/-! ### the pinned printers were not inverse (kept as a proved counterexample) -/

/-- before the repair a negative fixnum printed in radix 2..36 as the digits of `n + 2^64`, which
    reads back as that (different, positive) number — for every negative fixnum, e.g. `-5` -/
theorem pinned_twos_complement_not_inverse (fo : FloatOps) (n : Int) (hn : inI64 n = true)
    (hneg : n < 0) (r : Nat) (h2 : 2 ≤ r) (h36 : r ≤ 36) :
    parseNumber fo r (printFixRadixPinned r n) = .ok (.big (n + 18446744073709551616)) ∧
      ¬ SameValue (.big (n + 18446744073709551616)) (.fix n) := by
  rw [inI64_iff] at hn
  constructor
  · have hm : 0 ≤ n + 18446744073709551616 := by omega
    have e : printFixRadixPinned r n = intDigits r (n + 18446744073709551616) := by
      unfold printFixRadixPinned intDigits
      simp only [hneg, if_true, show ¬ (n + 18446744073709551616 < 0) by omega, if_false]
      congr 1
      omega
    rw [e]
    unfold parseNumber
    simp only [show ¬ (r < 2 ∨ 36 < r) by omega, if_false]
    rw [parseIntStd_intDigits h2 h36]
    have : inI64 (n + 18446744073709551616) = false := by
      cases hx : inI64 (n + 18446744073709551616) with
      | false => rfl
      | true => rw [inI64_iff] at hx; omega
    simp only [this, Bool.false_eq_true, if_false]
    rw [parseBigInt_intDigits h2 h36]
  · simp only [SameValue, frac]
    omega

/-! ### non-vacuity -/

def noFloats : FloatOps where
  parseF64 _ _ := none
  bigRatToF64 _ _ := ⟨0⟩
  toExact _ := none
  toInexact _ := ⟨0⟩
  fmtExp _ := []
  fmtFix1 _ := []
  fmtShort _ := []
  fmtRadix _ _ := []

example : parseNumber noFloats 2 (numberToString noFloats 2 (.fix (-5))) = .ok (.fix (-5)) :=
  (exact_roundtrip noFloats (.fix (-5)) (by decide) rfl 2 (.inl rfl)).1

example : parseNumber noFloats 16 (numberToString noFloats 16 (.rat (-2147483648) 3)) =
    .ok (.rat (-2147483648) 3) :=
  (exact_roundtrip noFloats (.rat (-2147483648) 3) (by decide) rfl 16 (.inr (.inr (.inr rfl)))).1

example : parseNumber noFloats 8 (numberToString noFloats 8 (.big 7)) = .ok (.fix 7) :=
  (exact_roundtrip noFloats (.big 7) (by decide) rfl 8 (.inr (.inl rfl))).1

example : (parseNumber noFloats 2 (printFixRadixPinned 2 (-5))) = .ok (.big 18446744073709551611) :=
  (pinned_twos_complement_not_inverse noFloats (-5) (by decide) (by decide) 2 (by decide) (by decide)).1

-- T16.3: the hypotheses are satisfiable (`#x-ff`; `#xff`, whose body is a `Symbol` token; `#b-101/11`;
-- `#o7` from the bignum representation of 7). The spellings are not evaluated here: `natDigits` is
-- defined by well-founded recursion and does not reduce in the kernel.
example := literal_exact noFloats (.fix (-255)) (by decide) rfl 16 (.inr (.inr (.inr rfl)))
example := literal_exact noFloats (.fix 255) (by decide) rfl 16 (.inr (.inr (.inr rfl)))
example := literal_exact noFloats (.rat (-5) 3) (by decide) rfl 2 (.inl rfl)
example := literal_exact noFloats (.big 7) (by decide) rfl 8 (.inr (.inl rfl))
-- `(… #x-ff)`: the literal followed by a closing parenthesis
example := literal_exact_in_context noFloats (.fix (-255)) (by decide) rfl 16 (.inr (.inr (.inr rfl)))
  [')'] (.inr rfl) _ (ScanTo.tok (scansAs_rparen []) (ScanTo.nil _))

/-- a toy float text satisfying `FloatText`: a double is printed as `.` followed by the decimal
    digits of its bit pattern -/
def toyFloats : FloatOps where
  parseF64 _ s := match s with
    | '.' :: ds => (parseNat 10 ds).map fun b => ⟨b⟩
    | _ => none
  bigRatToF64 _ _ := ⟨0⟩
  toExact _ := none
  toInexact _ := ⟨0⟩
  fmtExp f := '.' :: natDigits 10 f.bits
  fmtFix1 f := '.' :: natDigits 10 f.bits
  fmtShort f := '.' :: natDigits 10 f.bits
  fmtRadix _ _ := []

theorem toy_print (f : F64) : printNumber toyFloats (.flo f) = '.' :: natDigits 10 f.bits := by
  show (if f.gt1e10 then _ else if f.isInteger then _ else _) = _
  split
  · rfl
  · split <;> rfl

example : FloatText toyFloats where
  parse_print f _ := by
    rw [toy_print]
    show (parseNat 10 (natDigits 10 f.bits)).map (fun b => (⟨b⟩ : F64)) = some f
    rw [parseNat_natDigits (by omega) (by omega)]
    rfl
  has_mark f _ := by rw [toy_print]; exact .inl (by simp)
  no_slash f _ := by
    rw [toy_print]
    intro c hc
    rcases List.mem_cons.mp hc with rfl | hc
    · decide
    · obtain ⟨d, hd, rfl⟩ := natDigits_chars (by omega) _ c hc
      exact (digitChar_plain d (by omega)).2.2.2.1

/-- a second toy float text, `0.` followed by the decimal digits of the bit pattern, which also has
    the lexical shape `literal_float` asks for (`FloatText` and `NumberShape` are jointly satisfiable) -/
def toyFloats2 : FloatOps where
  parseF64 _ s := match s with
    | '0' :: '.' :: ds => (parseNat 10 ds).map fun b => ⟨b⟩
    | _ => none
  bigRatToF64 _ _ := ⟨0⟩
  toExact _ := none
  toInexact _ := ⟨0⟩
  fmtExp f := '0' :: '.' :: natDigits 10 f.bits
  fmtFix1 f := '0' :: '.' :: natDigits 10 f.bits
  fmtShort f := '0' :: '.' :: natDigits 10 f.bits
  fmtRadix _ _ := []

theorem toy2_print (f : F64) : printNumber toyFloats2 (.flo f) = '0' :: '.' :: natDigits 10 f.bits := by
  show (if f.gt1e10 then _ else if f.isInteger then _ else _) = _
  split
  · rfl
  · split <;> rfl

theorem toy2_floatText : FloatText toyFloats2 where
  parse_print f _ := by
    rw [toy2_print]
    show (parseNat 10 (natDigits 10 f.bits)).map (fun b => (⟨b⟩ : F64)) = some f
    rw [parseNat_natDigits (by omega) (by omega)]
    rfl
  has_mark f _ := by rw [toy2_print]; exact .inl (by simp)
  no_slash f _ := by
    rw [toy2_print]
    intro c hc
    rcases List.mem_cons.mp hc with rfl | hc
    · decide
    rcases List.mem_cons.mp hc with rfl | hc
    · decide
    · obtain ⟨d, hd, rfl⟩ := natDigits_chars (by omega) _ c hc
      exact (digitChar_plain d (by omega)).2.2.2.1

theorem toy2_shape (f : F64) : NumberShape (numberToString toyFloats2 10 (.flo f)) := by
  have e : numberToString toyFloats2 10 (.flo f) = printNumber toyFloats2 (.flo f) := by
    simp [numberToString]
  rw [e, toy2_print]
  refine ⟨'0', _, rfl, by decide, ?_⟩
  intro x hx
  rcases List.mem_cons.mp hx with rfl | hx
  · decide
  · exact natDigits10_subsequent _ x hx

example := literal_float toyFloats2 toy2_floatText ⟨0x3FE0000000000000⟩ (by decide) (toy2_shape _)

/-! ## T16.3, unprefixed decimal literals with a signed exponent (fix c1c04ca)

`string->number` accepts `1e-7`, `2.5E+3`, `.5e-1`; as program text the pinned scanner ended the number
token at the sign (`1e-7` was the *symbol* `1e-7`, an unbound variable; `.5e-1` was the two data `.5e`
and `-1`). Marwood's printer never produces such a spelling (it prints `0.0000001`), so the printed-form
streams could not see it. Since the fix the sign directly after the exponent marker of a decimal mantissa
belongs to the token: -/

/-- digits with at most one dot and at least one digit -/
def decBody (b : Text) : Bool :=
  b.all (fun x => isAsciiDigit x || x == '.') && decide (b.count '.' ≤ 1) && b.any isAsciiDigit

/-- a decimal mantissa: an optional sign, then `decBody` (`1`, `2.5`, `.5`, `1.`, `-2.5`, `+.5`) -/
def decMantissa : Text → Bool
  | [] => false
  | c :: b => if c == '+' || c == '-' then decBody b else decBody (c :: b)

theorem decBody_chars {b : Text} (h : decBody b = true) : ∀ x ∈ b, isAsciiDigit x = true ∨ x = '.' := by
  intro x hx
  simp only [decBody, Bool.and_eq_true, List.all_eq_true, Bool.or_eq_true, beq_iff_eq] at h
  exact h.1.1 x hx

theorem decBody_count {b : Text} (h : decBody b = true) : b.count '.' ≤ 1 := by
  simp only [decBody, Bool.and_eq_true, decide_eq_true_eq] at h
  exact h.1.2

theorem decBody_digit {b : Text} (h : decBody b = true) : b.any isAsciiDigit = true := by
  simp only [decBody, Bool.and_eq_true] at h
  exact h.2

/-- for every decimal mantissa `m` (digits with at most one dot, at least one digit, optional leading sign),
exponent marker `e`/`E`, sign and digit string `d`, the text `m ++ [e, sign] ++ d`, followed by anything
that ends a number token (`Stop`: the end of the text, whitespace, a bracket, a quote, `;` …), is scanned
as exactly one token of type `Number` spelled exactly that text. (`d` may even be empty as far as the
scanner is concerned: `1e-` is a `Number` token too, which the parser turns into a symbol because
`Number::parse` rejects it.) -/
theorem signed_exponent_is_number_token (m d rest : Text) (e s : Char)
    (hm : decMantissa m = true) (he : e = 'e' ∨ e = 'E') (hs : s = '+' ∨ s = '-')
    (hd : ∀ x ∈ d, isAsciiDigit x = true) (hst : Stop rest) :
    ScansAs (m ++ e :: s :: d) .number rest := by
  cases m with
  | nil => cases hm
  | cons c b =>
    refine ⟨c, b ++ e :: s :: d, rfl, ?_⟩
    have hassoc : (b ++ e :: s :: d) ++ rest = b ++ e :: s :: (d ++ rest) := by simp
    rw [hassoc]
    simp only [decMantissa] at hm
    -- the `scan_number` arm: first character a sign or a digit
    have viaNumber : ∀ (hc : NumStart c) (hb : ∀ x ∈ b, isAsciiDigit x = true ∨ x = '.')
        (hdg : (isAsciiDigit c || b.any isAsciiDigit) = true),
        scanPiece c (b ++ e :: s :: (d ++ rest)) = .tok (c :: (b ++ e :: s :: d)) .number rest := by
      intro hc hb hdg
      obtain ⟨h1, h2, h3, h4, h5, h6, h7, h8, h9, h10⟩ := hc
      simp only [scanPiece, h1, h2, h3, h4, h5, h6, h7, h8, beq_iff_eq, Bool.false_eq_true, if_false]
      simp only [scanOther, h9, h10, Bool.false_eq_true, if_false, if_true]
      rw [numberTail_signedExp b d rest e s _ false hb hdg he hs hd hst]
      rfl
    by_cases hsg : (c == '+' || c == '-') = true
    · simp only [hsg, if_true] at hm
      have hc : NumStart c := by
        simp only [Bool.or_eq_true, beq_iff_eq] at hsg
        rcases hsg with rfl | rfl <;> decide
      exact viaNumber hc (decBody_chars hm) (by simp [decBody_digit hm])
    · simp only [hsg] at hm
      have hcb := decBody_chars hm
      rcases hcb c (by simp) with hdig | hdot
      · exact viaNumber (digit_numStart hdig) (fun x hx => hcb x (by simp [hx])) (by simp [hdig])
      · -- the `scan_dot` arm: `.` then at least one digit, no further dot
        subst hdot
        have hcount := decBody_count hm
        have hany := decBody_digit hm
        have hnodot : ∀ x ∈ b, x ≠ '.' := by
          intro x hx hxe
          subst hxe
          have : 0 < b.count '.' := List.count_pos_iff.mpr hx
          simp only [List.count_cons_self] at hcount
          omega
        have hbd : ∀ x ∈ b, isAsciiDigit x = true := by
          intro x hx
          rcases hcb x (by simp [hx]) with h | h
          · exact h
          · exact absurd h (hnodot x hx)
        have hne : b ≠ [] := by
          rintro rfl
          simp at hany
          exact absurd hany (by decide)
        obtain ⟨x, b', rfl⟩ := List.exists_cons_of_ne_nil hne
        have hx1 : isSubsequentNumber x = true := (digit_facts (hbd x (by simp))).1
        have h1 : isOpenChar '.' = false := by decide
        have h2 : isCloseChar '.' = false := by decide
        simp only [scanPiece, h1, h2, Bool.false_eq_true, if_false]
        simp only [show ('.' : Char) ≠ '\'' by decide, show ('.' : Char) ≠ '`' by decide,
          show ('.' : Char) ≠ ',' by decide, show ('.' : Char) ≠ '#' by decide, beq_iff_eq, if_false, if_true]
        simp only [scanDot, List.cons_append, hx1, if_true]
        have := dotNumberTail_signedExp (x :: b') d rest e s false false hbd (by simp) he hs hd hst
        simp only [List.cons_append] at this
        simp only [this]
        rfl

/-- … hence one token spanning it, wherever it stands in a text (`pos` = byte offset of its first
character, `ts` = the tokens of what follows) -/
theorem signed_exponent_in_context (m d rest : Text) (e s : Char) (pos : Nat) (ts : List Token)
    (hm : decMantissa m = true) (he : e = 'e' ∨ e = 'E') (hs : s = '+' ∨ s = '-')
    (hd : ∀ x ∈ d, isAsciiDigit x = true) (hst : Stop rest)
    (hrest : ScanTo (pos + byteLen (m ++ e :: s :: d)) rest ts) :
    ScanTo pos ((m ++ e :: s :: d) ++ rest)
      (⟨pos, pos + byteLen (m ++ e :: s :: d), .number⟩ :: ts) :=
  ScanTo.tok (signed_exponent_is_number_token m d rest e s hm he hs hd hst) hrest

/-- … and alone it is the whole token list of the text -/
theorem signed_exponent_scan (m d : Text) (e s : Char)
    (hm : decMantissa m = true) (he : e = 'e' ∨ e = 'E') (hs : s = '+' ∨ s = '-')
    (hd : ∀ x ∈ d, isAsciiDigit x = true) :
    scan (m ++ e :: s :: d) = .ok [⟨0, byteLen (m ++ e :: s :: d), .number⟩] := by
  have h := signed_exponent_in_context m d [] e s 0 [] hm he hs hd trivial (ScanTo.nil _)
  simp only [List.append_nil, Nat.zero_add] at h
  exact scan_of_scanTo h

/-- the last clause of C16 for this family, from the text down: the unprefixed source literal
`m ++ [e, sign] ++ d` denotes exactly what `(string->number "<the same spelling>")` gives — the number
`parse_with_exactness` makes of it in radix 10; where `string->number` answers `#f` (`1e-`, or a float parser
that rejects the spelling) the reader falls back to the symbol, as for every `Number` token -/
theorem signed_exponent_literal_denotes (fo : FloatOps) (m d : Text) (e s : Char)
    (hm : decMantissa m = true) (he : e = 'e' ∨ e = 'E') (hs : s = '+' ∨ s = '-')
    (hd : ∀ x ∈ d, isAsciiDigit x = true) :
    (parseText fo (m ++ e :: s :: d) =
        match parseWithExactness fo (m ++ e :: s :: d) .unspecified 10 with
        | .ok n => .ok (.num n, none)
        | .err () => .ok (.sym (m ++ e :: s :: d), none)
        | .panic msg => .panic msg) ∧
    (stringToNumberProc fo [.str (m ++ e :: s :: d)] =
        match parseWithExactness fo (m ++ e :: s :: d) .unspecified 10 with
        | .ok n => .ok (.num n)
        | .err () => .ok (.bool false)
        | .panic msg => .panic msg) := by
  generalize hsp : m ++ e :: s :: d = sp
  have hscan : scan sp = .ok [⟨0, byteLen sp, .number⟩] := by
    rw [← hsp]; exact signed_exponent_scan m d e s hm he hs hd
  have hspan : tokSpan sp ⟨0, byteLen sp, .number⟩ = .ok sp := by
    have := tokSpan_at [] sp [] .number
    simpa using this
  constructor
  · have hp : parseTokens fo sp [⟨0, byteLen sp, .number⟩] =
        match parseWithExactness fo sp .unspecified 10 with
        | .ok n => .ok (.num n, [])
        | .err () => .ok (.sym sp, [])
        | .panic msg => .panic msg := by
      have : parseF fo sp 1 [⟨0, byteLen sp, .number⟩] = some (match parseWithExactness fo sp .unspecified 10 with
          | .ok n => .ok (.num n, [])
          | .err () => .ok (.sym sp, [])
          | .panic msg => .panic msg) := by
        rw [parseF]
        simp only [show tokKind TokType.number = .atom from rfl]
        congr 1
        unfold parseAtom
        simp only []
        rw [parseNumberTok]
        simp only [show ¬ (TokType.number = TokType.numberPrefix) by decide, if_false]
        unfold numberFinal
        simp only [hspan, true_or, if_true]
        cases parseWithExactness fo sp .unspecified 10 with
        | ok n => rfl
        | err e => cases e; rfl
        | panic msg => rfl
      exact parseTokens_of_fuel fo sp this
    unfold parseText
    rw [hscan]
    simp only [hp]
    cases parseWithExactness fo sp .unspecified 10 with
    | ok n => rfl
    | err e => cases e; rfl
    | panic msg => rfl
  · unfold stringToNumberProc
    simp only [show ¬ ((10 : Nat) < 2 ∨ 36 < 10) by omega, if_false]
    cases parseWithExactness fo sp .unspecified 10 with
    | ok n => rfl
    | err e => cases e; rfl
    | panic msg => rfl

/-- the pinned scanner (before fix c1c04ca; `scanNumberPinned` / `numberTailPinned` are the former model): the same
text, its first character a sign or digit, was one token of type `Symbol` — the sign is a subsequent-identifier
character, not a subsequent-number character -/
theorem signed_exponent_was_symbol (c : Char) (b d rest : Text) (e s : Char)
    (hb : ∀ x ∈ b, isAsciiDigit x = true ∨ x = '.') (he : e = 'e' ∨ e = 'E') (hs : s = '+' ∨ s = '-')
    (hd : ∀ x ∈ d, isAsciiDigit x = true) (hrest : Delim rest) :
    scanNumberPinned c ((b ++ e :: s :: d) ++ rest) = .tok (c :: (b ++ e :: s :: d)) .symbol rest := by
  have hs1 : isSubsequentNumber s = false := by rcases hs with rfl | rfl <;> decide
  have hs2 : contChar s = true := by rcases hs with rfl | rfl <;> decide
  have hall : ∀ x ∈ b ++ e :: s :: d, contChar x = true := by
    intro x hx
    simp only [List.mem_append, List.mem_cons] at hx
    rcases hx with hx | rfl | rfl | hx
    · rcases hb x hx with h | rfl
      · simp [contChar, (digit_facts h).1]
      · decide
    · rcases he with rfl | rfl <;> decide
    · exact hs2
    · simp [contChar, (digit_facts (hd x hx)).1]
  have hany : (b ++ e :: s :: d).any (fun x => !isSubsequentNumber x) = true := by
    simp [hs1]
  simp only [scanNumberPinned, numberTailPinned_cont _ rest hall hrest, hany, if_true]

/-- … and the leading-dot form was split in two data: `.5e` and `-1` -/
theorem leading_dot_exponent_was_two_tokens :
    scanDotPinned '.' "5e-1".toList = .tok ".5e".toList .number "-1".toList ∧
    scanDot '.' "5e-1".toList = .tok ".5e-1".toList .number [] := ⟨rfl, rfl⟩

example : scan "1e-7".toList = .ok [⟨0, 4, .number⟩] :=
  signed_exponent_scan "1".toList "7".toList 'e' '-' (by decide) (.inl rfl) (.inr rfl) (by decide)
example : scan ".5e-1".toList = .ok [⟨0, 5, .number⟩] :=
  signed_exponent_scan ".5".toList "1".toList 'e' '-' (by decide) (.inl rfl) (.inr rfl) (by decide)
example : scan "-2.5E+3".toList = .ok [⟨0, 7, .number⟩] :=
  signed_exponent_scan "-2.5".toList "3".toList 'E' '+' (by decide) (.inr rfl) (.inl rfl) (by decide)
example : scan "(f 1e-7 'x)".toList = .ok [⟨0, 1, .leftParen⟩, ⟨1, 2, .symbol⟩, ⟨3, 7, .number⟩,
    ⟨8, 9, .singleQuote⟩, ⟨9, 10, .symbol⟩, ⟨10, 11, .rightParen⟩] := by decide
example : scanNumberPinned '1' "e-7".toList = .tok "1e-7".toList .symbol [] :=
  signed_exponent_was_symbol '1' [] "7".toList [] 'e' '-' (by simp) (.inl rfl) (.inr rfl) (by decide) trivial
example : scanNumberPinned '-' "2.5E+3 x".toList = .tok "-2.5E+3".toList .symbol " x".toList :=
  signed_exponent_was_symbol '-' "2.5".toList "3".toList " x".toList 'E' '+' (by decide) (.inr rfl) (.inl rfl)
    (by decide) (.inl rfl)
/-- near misses keep their type: the sign must follow the marker of a *decimal mantissa* directly -/
example : scan "1e--7 1ee-7 1e-7x 1/2e-3 +e-1".toList = .ok [⟨0, 5, .symbol⟩, ⟨6, 11, .symbol⟩, ⟨12, 17, .symbol⟩,
    ⟨18, 24, .symbol⟩, ⟨25, 29, .symbol⟩] := by decide

end Marwood.Proofs.C16
