import Marwood.Gen.Tables
import Marwood.Parse
import Marwood.Vm.Machine
import Marwood.Vm.Compile
/-!
# Regenerated tables agree with the hand-written models

`Marwood/Gen/Tables.lean` is rewritten from the Rust source by `translate/tables.py` on every check.
The theorems below are re-checked against what the source says *now*: a change to a scanner character
class, the named-character table, the opcode / token-type enumerations or the primitive-keyword set
makes one of them fail to elaborate (a broken proof obligation); the failing-input search is then the
scanner / parser correspondence of C11, which exhibits the character or spelling concerned.
-/
namespace Marwood.Proofs.Tables
open Marwood Marwood.Gen

/-- the five scanner character classes, for every character -/
theorem char_classes_agree (c : Char) :
    Tables.isInitialNumber c = Marwood.isInitialNumber c ∧
    Tables.isSubsequentNumber c = Marwood.isSubsequentNumber c ∧
    Tables.isInitialIdentifier c = Marwood.isInitialIdentifier c ∧
    Tables.isSpecialSubsequent c = Marwood.isSpecialSubsequent c ∧
    Tables.isSubsequentIdentifier c = Marwood.isSubsequentIdentifier c :=
  ⟨rfl, rfl, rfl, rfl, rfl⟩

/-- every entry of `named_to_char` is in the model's table, with the same code point … -/
theorem named_chars_sound :
    ∀ e ∈ Tables.namedChars, Marwood.namedToChar e.1.toList = some (Char.ofNat e.2) := by decide

/-- … and the model's table has no further names (it is a 9-way `if` chain; the generated list has 9
    distinct names) -/
theorem named_chars_complete :
    Tables.namedChars.length = 9 ∧ (Tables.namedChars.map (·.1)).Nodup := by decide

/-- the 16 opcodes of `opcode.rs`, in declaration order, are the constructors of the machine model's `Op` -/
theorem opcodes_agree :
    Tables.opcodes = ["Cons", "Jmp", "Jnt", "Mov", "MovImmediate", "Push", "PushAcc", "PushImmediate", "Halt",
      "VPushAcc", "CallAcc", "ClosureAcc", "Enter", "Ret", "TCallAcc", "VarArg"] ∧
    [Vm.Op.cons, .jmp, .jnt, .mov, .movImm, .push, .pushAcc, .pushImm, .halt, .vpushAcc, .callAcc, .closureAcc,
      .enter, .ret, .tcallAcc, .varArg].length = Tables.opcodes.length := by decide

/-- the token types of `lex.rs` are those of the scanner model plus `WhiteSpace` (never produced by `scan`) -/
theorem token_types_agree :
    Tables.tokenTypes = ["Char", "Dot", "False", "LeftParen", "Number", "NumberPrefix", "Quasiquote", "RightParen",
      "SingleQuote", "String", "Symbol", "True", "Unquote", "WhiteSpace", "HashParen"] := by decide

/-- `PRIMITIVE_SYMBOLS` of `cell.rs` is the compiler model's keyword set -/
theorem primitive_symbols_agree :
    ∀ s, (Tables.primitiveSymbols.map String.toList).contains s = Vm.isPrimitive s := by
  intro s; rfl

end Marwood.Proofs.Tables
