import Marwood.Gen.Tables
import Marwood.Parse
import Marwood.Vm.Machine
import Marwood.Vm.Compile
/-!
# Regenerated tables agree with the hand-written models

`Marwood/Gen/Tables.lean` is rewritten from the Rust source by `translate/tables.py` on every check.
The theorems below are re-checked against what the source says *now*: a change to a scanner character
class, the named-character table, the opcode / token-type enumerations or the primitive-keyword set
makes one of them fail to elaborate (a broken proof obligation); the failing-input search is then the
scanner / parser correspondence of C11, which exhibits the character or spelling concerned.
-/
namespace Marwood.Proofs.Tables
open Marwood Marwood.Gen

/-! ### scanner character classes

The translator EVALUATES each Rust predicate on every Latin-1 code point and on a sample above U+00FF and emits a
canonical table (sorted code points + one Boolean for everything above 0xFF), so a rewrite of the predicates that
keeps their meaning regenerates the same file. The agreement proofs below are generic in the table's content:
`decide` over the 256 Latin-1 code points, a bound on the table entries, and one fixed lemma per model predicate
for the code points above 0xFF. -/

private theorem char_eq_ofNat (c : Char) : c = Char.ofNat c.toNat := by
  simp [Char.ofNat_toNat]

private theorem contains_false_of_bound {l : List Nat} (hb : l.all (· ≤ 255) = true) {n : Nat} (hn : 255 < n) :
    l.contains n = false := by
  rw [Bool.eq_false_iff]
  intro h
  have hm : n ∈ l := by simpa using h
  have := (List.all_eq_true.mp hb) n hm
  simp at this
  omega

private theorem ne_of_toNat_gt {c d : Char} (h : 255 < c.toNat) (hd : d.toNat ≤ 255) : (c == d) = false := by
  rw [beq_eq_false_iff_ne]
  intro e
  subst e
  omega

private theorem digit_high {c : Char} (h : 255 < c.toNat) : isAsciiDigit c = false := by
  simp [isAsciiDigit]; omega

private theorem hex_high {c : Char} (h : 255 < c.toNat) : isAsciiHex c = false := by
  simp [isAsciiHex, isAsciiDigit]; omega

private theorem special_high {c : Char} (h : 255 < c.toNat) : isSpecialSubsequent c = false := by
  simp [isSpecialSubsequent, ne_of_toNat_gt h (by decide : ('+' : Char).toNat ≤ 255),
    ne_of_toNat_gt h (by decide : ('-' : Char).toNat ≤ 255), ne_of_toNat_gt h (by decide : ('.' : Char).toNat ≤ 255),
    ne_of_toNat_gt h (by decide : ('@' : Char).toNat ≤ 255), ne_of_toNat_gt h (by decide : (';' : Char).toNat ≤ 255)]

private theorem agree_template (gen model : Char → Bool) (table : List Nat) (high mhigh : Bool)
    (hgen : ∀ c, gen c = ((decide (c.toNat > 0xFF) && high) || table.contains c.toNat))
    (hb : table.all (· ≤ 255) = true)
    (hlow : ∀ n : Fin 256, gen (Char.ofNat n.val) = model (Char.ofNat n.val))
    (hhigh : ∀ c : Char, 255 < c.toNat → model c = mhigh) (hh : high = mhigh) (c : Char) : gen c = model c := by
  by_cases h : c.toNat ≤ 255
  · have := hlow ⟨c.toNat, by omega⟩
    rw [← char_eq_ofNat c] at this
    exact this
  · have h' : 255 < c.toNat := by omega
    rw [hgen c, hhigh c h', contains_false_of_bound hb h', ← hh]
    simp [h']

theorem isInitialNumber_agree (c : Char) : Tables.isInitialNumber c = Marwood.isInitialNumber c :=
  agree_template _ _ Tables.isInitialNumberTable Tables.isInitialNumberHigh false (fun _ => rfl) (by decide) (by decide +kernel)
    (fun c h => by
      simp [Marwood.isInitialNumber, digit_high h, ne_of_toNat_gt h (by decide : ('+' : Char).toNat ≤ 255),
        ne_of_toNat_gt h (by decide : ('-' : Char).toNat ≤ 255)]) (by decide) c

theorem isSubsequentNumber_agree (c : Char) : Tables.isSubsequentNumber c = Marwood.isSubsequentNumber c :=
  agree_template _ _ Tables.isSubsequentNumberTable Tables.isSubsequentNumberHigh false (fun _ => rfl) (by decide)
    (by decide +kernel)
    (fun c h => by
      simp [Marwood.isSubsequentNumber, digit_high h, hex_high h, ne_of_toNat_gt h (by decide : ('.' : Char).toNat ≤ 255),
        ne_of_toNat_gt h (by decide : ('/' : Char).toNat ≤ 255)]) (by decide) c

theorem isInitialIdentifier_agree (c : Char) : Tables.isInitialIdentifier c = Marwood.isInitialIdentifier c :=
  agree_template _ _ Tables.isInitialIdentifierTable Tables.isInitialIdentifierHigh true (fun _ => rfl) (by decide)
    (by decide +kernel)
    (fun c h => by
      have : decide (c.toNat > 0xFF) = true := by simp; omega
      simp [Marwood.isInitialIdentifier, this]) (by decide) c

theorem isSpecialSubsequent_agree (c : Char) : Tables.isSpecialSubsequent c = Marwood.isSpecialSubsequent c :=
  agree_template _ _ Tables.isSpecialSubsequentTable Tables.isSpecialSubsequentHigh false (fun _ => rfl) (by decide)
    (by decide +kernel) (fun c h => special_high h) (by decide) c

theorem isSubsequentIdentifier_agree (c : Char) :
    Tables.isSubsequentIdentifier c = Marwood.isSubsequentIdentifier c :=
  agree_template _ _ Tables.isSubsequentIdentifierTable Tables.isSubsequentIdentifierHigh true (fun _ => rfl) (by decide)
    (by decide +kernel)
    (fun c h => by
      have : decide (c.toNat > 0xFF) = true := by simp; omega
      simp [Marwood.isSubsequentIdentifier, Marwood.isInitialIdentifier, this]) (by decide) c

/-- the five scanner character classes, for every character -/
theorem char_classes_agree (c : Char) :
    Tables.isInitialNumber c = Marwood.isInitialNumber c ∧
    Tables.isSubsequentNumber c = Marwood.isSubsequentNumber c ∧
    Tables.isInitialIdentifier c = Marwood.isInitialIdentifier c ∧
    Tables.isSpecialSubsequent c = Marwood.isSpecialSubsequent c ∧
    Tables.isSubsequentIdentifier c = Marwood.isSubsequentIdentifier c :=
  ⟨isInitialNumber_agree c, isSubsequentNumber_agree c, isInitialIdentifier_agree c, isSpecialSubsequent_agree c,
    isSubsequentIdentifier_agree c⟩

/-- every entry of `named_to_char` is in the model's table, with the same code point … -/
theorem named_chars_sound :
    ∀ e ∈ Tables.namedChars, Marwood.namedToChar e.1.toList = some (Char.ofNat e.2) := by decide

/-- … and the model's table has no further names (it is a 9-way `if` chain; the generated list has 9
    distinct names) -/
theorem named_chars_complete :
    Tables.namedChars.length = 9 ∧ (Tables.namedChars.map (·.1)).Nodup := by decide

/-- the 16 opcodes of `opcode.rs`, in declaration order, are the constructors of the machine model's `Op` -/
theorem opcodes_agree :
    Tables.opcodes = ["Cons", "Jmp", "Jnt", "Mov", "MovImmediate", "Push", "PushAcc", "PushImmediate", "Halt",
      "VPushAcc", "CallAcc", "ClosureAcc", "Enter", "Ret", "TCallAcc", "VarArg"] ∧
    [Vm.Op.cons, .jmp, .jnt, .mov, .movImm, .push, .pushAcc, .pushImm, .halt, .vpushAcc, .callAcc, .closureAcc,
      .enter, .ret, .tcallAcc, .varArg].length = Tables.opcodes.length := by decide

/-- the token types of `lex.rs` are those of the scanner model plus `WhiteSpace` (never produced by `scan`) -/
theorem token_types_agree :
    Tables.tokenTypes = ["Char", "Dot", "False", "LeftParen", "Number", "NumberPrefix", "Quasiquote", "RightParen",
      "SingleQuote", "String", "Symbol", "True", "Unquote", "WhiteSpace", "HashParen"] := by decide

/-- `PRIMITIVE_SYMBOLS` of `cell.rs` is the compiler model's keyword set -/
theorem primitive_symbols_agree :
    ∀ s, (Tables.primitiveSymbols.map String.toList).contains s = Vm.isPrimitive s := by
  intro s; rfl

end Marwood.Proofs.Tables
