import Marwood.Spec.Eval
import Marwood.Lemmas.EvalOperandOrder
import Marwood.Lemmas.EvalFrameMain
import Marwood.Lemmas.EvalPrelude
/-!
# C01 — evaluation agrees with the language semantics for core and derived forms

What is proved here and what is not (see `lib/props/c01.py` META.note):
* T01.4 (`application_operand_order`, `operands_left_to_right`): in the compiler model the code of
  an application is the operand codes in order, each followed by `PUSH`, then the argument count,
  then the operator code, then `CALL`/`TCALL`.
* T01.1 (`independence`, `independence_from`, `define_procedure_onlyBinds`): the frame property of
  `Spec.Eval`, closed, for every fuel / session / unrelated definition.
* T01.2, first half only (`Lemmas/EvalPrelude.lean`, re-checked against the regenerated
  `Gen/Prelude.lean` = what `prelude.scm` says now): the R7RS matcher expands schematic uses of
  when / unless / begin / and / or / let / case-with-final-`=>` with the prelude's rules to the
  expected core forms. The second half (evaluating the expansion = evaluating the form natively)
  is **not** proved: it needs fuel monotonicity of `Spec.Eval`.
* T01.3 (compiler correctness, `run (compile e) ≈ Spec.Eval e`) is **not** proved; the agreement of
  the real pipeline with `Spec.Eval` is carried by the differential correspondence.
-/
namespace Marwood.Proofs.C01
open Marwood Marwood.Vm

/-! ## T01.4 operand order (compiler model) -/

/-- The code of an application `(proc . rest)`: the codes of the operands from left to right, each
    followed by `PUSH` (so operand `i` precedes operand `i+1`), then `PUSH-IMMEDIATE <argc>`, then the
    code of the operator, then the call instruction — nothing else. -/
theorem application_operand_order (fuel : Nat) (st : CState) (c : Ctx) (base : Nat) (tail : Bool)
    (proc rest : Datum) (st' : CState) (code : List BC)
    (hn : ∀ kw ∈ specialForms, proc.isSymStr kw = false)
    (h : compileExpr (fuel + 1) st c base tail (.pair proc rest) = .ok (st', code)) :
    ∃ segs st1 pcode,
      OperandCodes fuel st c base rest st1 segs ∧
      compileExpr fuel st1 c (base + (pushed segs).length + 2) false proc = .ok (st', pcode) ∧
      code = pushed segs ++ [.op .pushImm, .argc segs.length] ++ pcode
              ++ [.op (if tail then .tcallAcc else .callAcc)] := by
  unfold compileExpr at h
  have k1 := hn ['d','e','f','i','n','e'] (by simp [specialForms])
  have k2 := hn ['d','e','f','i','n','e','-','s','y','n','t','a','x'] (by simp [specialForms])
  have k3 := hn ['l','a','m','b','d','a'] (by simp [specialForms])
  have k4 := hn ['λ'] (by simp [specialForms])
  have k5 := hn ['q','u','a','s','i','q','u','o','t','e'] (by simp [specialForms])
  have k6 := hn ['q','u','o','t','e'] (by simp [specialForms])
  have k7 := hn ['i','f'] (by simp [specialForms])
  have k8 := hn ['s','e','t','!'] (by simp [specialForms])
  simp only [k1, k2, k3, k4, k5, k6, k7, k8, Bool.false_eq_true, if_false, Bool.or_self] at h
  cases h1 : compileArgs fuel st c base rest with
  | error e => simp [h1] at h
  | ok r1 =>
    obtain ⟨st1, code1, n⟩ := r1
    simp only [h1] at h
    cases h2 : compileExpr fuel st1 c (base + code1.length + 2) false proc with
    | error e => simp [h2] at h
    | ok r2 =>
      obtain ⟨st2, pcode⟩ := r2
      simp only [h2] at h
      obtain ⟨segs, hs, hc, hnn⟩ := compileArgs_operandCodes fuel _ _ _ _ _ _ _ h1
      injection h with h
      injection h with h3 h4
      subst h3 h4 hc hnn
      exact ⟨segs, st1, pcode, hs, h2, rfl⟩

/-- Operands are compiled left to right: the first operand's code comes first, at the current
    offset; the remaining operands are compiled after it and its `PUSH`, in the compiler state it left. -/
theorem operands_left_to_right (fuel : Nat) (st : CState) (c : Ctx) (base : Nat) (a d : Datum)
    (st' : CState) (segs : List (List BC))
    (h : OperandCodes (fuel + 1) st c base (.pair a d) st' segs) :
    ∃ st1 code1 rest, segs = code1 :: rest ∧
      compileExpr fuel st c base false a = .ok (st1, code1) ∧
      OperandCodes fuel st1 c (base + code1.length + 1) d st' rest ∧
      pushed segs = code1 ++ [.op .pushAcc] ++ pushed rest := by
  cases h with
  | done _ _ _ _ _ hh => exact absurd rfl (hh a d)
  | cons _ _ _ _ _ _ st1 code1 _ rest h1 h2 =>
    exact ⟨st1, code1, rest, rfl, h1, h2, by simp [pushed]⟩

/-- the opcode skeleton of a code sequence (operands as `none`) -/
def skeleton (code : List BC) : List (Option Op) :=
  code.map fun b => match b with | .op o => some o | _ => none

/-- non-vacuity: `(f (g) 1)` in non-tail position compiles to the code of `(g)`, PUSH, the code of
    `1`, PUSH, argc 2, the code of `f`, CALL -/
example :
    (match compileExpr 10 {} ⟨[], []⟩ 0 false
      (Datum.ofList [.sym ['f'], Datum.ofList [.sym ['g']], .num (.fix 1)]) with
     | .ok (_, code) => skeleton code ==
        [some .pushImm, none, some .mov, none, none, some .callAcc, some .pushAcc,
         some .movImm, none, none, some .pushAcc, some .pushImm, none, some .mov, none, none, some .callAcc]
     | .error _ => false) = true := by
  decide +kernel


/-! ## T01.1 independence (about `Spec.Eval`)

`results n h` are the form-by-form results of session `h` in a fresh instance with `n` levels of
fuel. A form *mentions* `x` when the symbol `x` occurs anywhere in it — as a variable, a parameter,
or inside quoted data (which `eval` could turn into a reference). -/

open Marwood.Spec.Eval

/-- evaluated in a fresh instance, `d` succeeds and does nothing but bind the global `x`: no
    allocation, no output, every other global unchanged (the shape of an *unrelated definition*) -/
def OnlyBinds (n : Nat) (x : Text) (d : Datum) : Prop :=
  ∃ r st, runForm n d initSt = (r, some st) ∧ st.store = initSt.store ∧ st.out = initSt.out ∧
    ∀ y, y ≠ x → st.globals.lookup y = initSt.globals.lookup y

/-- **T01.1** For every session `h`, every name `x` that no form of `h` mentions, every definition `d`
    that only binds `x`, and every amount of fuel: the results of `d :: h` after dropping `d`'s own
    result are the results of `h`, and the output logs are equal. -/
theorem independence (n : Nat) (x : Text) (d : Datum) (h : List Datum)
    (hd : OnlyBinds n x d) (hh : ∀ f ∈ h, mentions x f = false) :
    (results n (d :: h)).tail = results n h ∧ output n (d :: h) = output n h := by
  obtain ⟨r, st, hrun, hstore, hout, hglob⟩ := hd
  have hrel : Rel x initSt st := ⟨inv_initSt, ⟨hstore, hout, hglob⟩⟩
  have hs := runSession_rel n h hh initSt st hrel
  unfold results output
  simp only [runSession, hrun]
  refine ⟨by simp [hs.1], ?_⟩
  have h2 := hs.2
  cases ha : (runSession n h initSt).2 <;> cases hb : (runSession n h st).2 <;>
    simp only [ha, hb] at h2 ⊢
  · exact h2.2.out

/-- The same from any clean state and any state similar to it: an unrelated definition made at
    *any* point of a session (not only in front of it) does not change what follows. -/
theorem independence_from (n : Nat) (x : Text) (h : List Datum) (st st' : St)
    (hrel : Rel x st st') (hh : ∀ f ∈ h, mentions x f = false) :
    (runSession n h st).1 = (runSession n h st').1 :=
  (runSession_rel n h hh st st' hrel).1

/-- fresh-instance clause: the results are a function of the session (and the fuel) alone — the
    specification has no state outside `initSt`. By construction; stated for the record. -/
theorem results_function_of_session (n : Nat) (h₁ h₂ : List Datum) (e : h₁ = h₂) :
    results n h₁ = results n h₂ ∧ output n h₁ = output n h₂ := by subst e; exact ⟨rfl, rfl⟩

/-- a procedure definition `(define (x . formals) body …)` only binds `x` -/
theorem define_procedure_onlyBinds (n : Nat) (x : Text) (formals body : Datum)
    (ps : List Text) (rest : Option Text) (b : Datum) (bs : List Datum)
    (hx : reserved x = false) (hf : parseFormals formals = some (ps, rest))
    (hb : properList body = some (b :: bs)) :
    OnlyBinds n x (.pair (.sym k_define) (.pair (.pair (.sym x) formals) body)) := by
  refine ⟨.ok .void, { initSt with globals := insertG x (.closure ps rest (b :: bs) []) initSt.globals }, ?_, rfl, rfl, ?_⟩
  · have hk : (k_define == k_begin_) = false := by decide
    simp [runForm, evalTop, hk, evalTopForm, isDefine, defineValue, hx, makeClosure, hf, hb, putGlobal,
      Bind.bind, M.bind', Pure.pure, M.pure', valToDatum]
  · intro y hy
    simp [lookup_insertG, hy]

/-- non-vacuity of `independence`: an unrelated variadic procedure in front of a session that
    defines and calls a procedure of its own -/
example :
    let x : Text := ['z','z']
    let d := Datum.ofListTail [.sym k_define, Datum.ofListTail [.sym x, .sym ['a']] (.sym ['r'])] (Datum.ofList [.sym ['r']])
    let h := [Datum.ofList [.sym k_define, Datum.ofList [.sym ['f'], .sym ['n']], Datum.ofList [.sym ['+'], .sym ['n'], .num (.fix 1)]],
              Datum.ofList [.sym ['f'], .num (.fix 41)]]
    (∀ f ∈ h, mentions x f = false) ∧ results 10 (d :: h) = [.ok .void, .ok .void, .ok (.num (.fix 42))] := by
  decide +kernel


/-! ## what the specification prescribes at the witnesses of the known findings
(the implementation's answers are in `known_findings/C01.json`; the `findings` stream replays them) -/

/-- `` `(1 . ,(+ 1 2)) `` is `(1 . 3)` (implementation: `(1 unquote (+ 1 2))`) -/
theorem dotted_unquote_spec_witness :
    results 10 [Datum.ofList [.sym k_quasiquote,
        .pair (.num (.fix 1)) (Datum.ofList [.sym k_unquote, Datum.ofList [.sym ['+'], .num (.fix 1), .num (.fix 2)]])]]
      = [.ok (.pair (.num (.fix 1)) (.num (.fix 3)))] := by decide +kernel

/-- `(begin (define tb1 1) (define tb2 2))` at top level defines both globals: `(+ tb1 tb2)` is 3
    (implementation: `tb1` is not bound) -/
theorem toplevel_begin_spec_witness :
    results 10 [Datum.ofList [.sym k_begin_,
                  Datum.ofList [.sym k_define, .sym ['t','b','1'], .num (.fix 1)],
                  Datum.ofList [.sym k_define, .sym ['t','b','2'], .num (.fix 2)]],
                Datum.ofList [.sym ['+'], .sym ['t','b','1'], .sym ['t','b','2']]]
      = [.ok .void, .ok (.num (.fix 3))] := by decide +kernel

/-- `(define (hy var1) (or #f var1))`, `(hy 9)` is 9 (implementation: `#f`, the `or` macro's own
    `var1` captures the parameter) -/
theorem or_capture_spec_witness :
    results 10 [Datum.ofList [.sym k_define, Datum.ofList [.sym ['h','y'], .sym ['v','a','r','1']],
                  Datum.ofList [.sym k_or_, .bool false, .sym ['v','a','r','1']]],
                Datum.ofList [.sym ['h','y'], .num (.fix 9)]]
      = [.ok .void, .ok (.num (.fix 9))] := by decide +kernel

end Marwood.Proofs.C01
