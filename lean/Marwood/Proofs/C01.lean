import Marwood.Spec.Eval
import Marwood.Lemmas.EvalOperandOrder
import Marwood.Lemmas.EvalFrameMain
import Marwood.Lemmas.EvalPrelude
import Marwood.Lemmas.EvalMonoMain
import Marwood.Lemmas.EvalDerivedCond
import Marwood.Lemmas.EvalDerivedExpand
import Marwood.Lemmas.EvalDerived2
import Marwood.Lemmas.EvalDerived2Case2
import Marwood.Lemmas.EvalConverseDerivedCase
import Marwood.Lemmas.EvalConverseRank
import Marwood.Lemmas.EvalPromiseMain
import Marwood.Lemmas.EvalPromiseExamples
import Marwood.Lemmas.EvalPromiseDemo
import Marwood.Lemmas.CompileCorrect
import Marwood.Lemmas.CompileCorrectDemo
import Marwood.Lemmas.CompileCorrectLoop
import Marwood.Lemmas.CompileCorrect2ErrAtoms
import Marwood.Lemmas.CompileCorrect2Quote
import Marwood.Lemmas.CompileCorrect2QuoteDemo
import Marwood.Lemmas.CompileCorrect2Demo
import Marwood.Lemmas.CompileCorrect2DemoCapture
import Marwood.Lemmas.CompileCorrect2FailDemo
import Marwood.Lemmas.CompileCorrect2ConcreteDemo
import Marwood.Lemmas.CompileCorrect3Main
import Marwood.Lemmas.CompileCorrect3Apply
import Marwood.Lemmas.CompileCorrect3Embed
import Marwood.Lemmas.CompileCorrect3Arity
import Marwood.Lemmas.CompileCorrect3Demo
import Marwood.Lemmas.CompileCorrect3DemoApply
import Marwood.Lemmas.CompileCorrect3Props
/-!
# C01 — evaluation agrees with the language semantics for core and derived forms

What is proved here and what is not (see `lib/props/c01.py` META.note):
* T01.4 (`application_operand_order`, `operands_left_to_right`): in the compiler model the code of
  an application is the operand codes in order, each followed by `PUSH`, then the argument count,
  then the operator code, then `CALL`/`TCALL`.
* T01.1 (`independence`, `independence_from`, `define_procedure_onlyBinds`): the frame property of
  `Spec.Eval`, closed, for every fuel / session / unrelated definition.
* Fuel monotonicity of `Spec.Eval` (`fuel_monotone`, `fuel_monotone_apply`, `session_fuel_monotone`;
  `Lemmas/EvalMono*.lean`), closed: a definite outcome reached with fuel `n` is reached, with the same
  state, with every larger fuel.
* T01.2 (`Lemmas/EvalPrelude.lean`, `Lemmas/EvalDerived*.lean`; everything is re-checked against the
  regenerated `Gen/Prelude.lean` = what `prelude.scm` says now). First half: the R7RS matcher expands
  the uses with the prelude's rules to the expected terms (`Lemmas/EvalDerivedShapes.lean`).
  Second half (section "T01.2 second half" below): evaluating the expansion agrees with the native
  meaning, up to fuel — closed for when, unless (under "`not` is the primitive"), begin (bodies
  without definitions), and, or (0/1 operands), let, let*, named let, cond (else clause; clauses with
  a body), case (`else =>`); `letrec` up to the content of uninitialised variables (`#f` vs
  `#<undefined>`); for the rules whose expansion allocates cells the native meaning does not have — `or`
  with ≥ 2 operands (`var1`), cond `=>` and test-only clauses followed by more (`temp`), case with a
  compound key (`atom-key`), case clauses with a datum list (the quoted list of `memv`) — agreement UP TO
  THOSE CELLS (`t01_2_or`, `t01_2_cond_test`, `t01_2_cond_arrow`, `t01_2_case_key`, `t01_2_case_body`,
  `t01_2_case_arrow`: an injective renaming of locations relates values, globals, stores; same error
  class, same output) from every well-formed state, under "the binder does not occur in the sub-forms
  evaluated under it", in the direction native ⇒ expansion and for native runs that do not run a
  store-size-fuelled helper into its bound on cyclic data (`extra_cell_invariance`,
  `or_cyclic_display_differs`); the capture is proved at witnesses; `(case k (else r …))` exactly, from
  states where the key evaluates without effect (`t01_2_case_else`); delay / delay-force are open
  (see `lib/props/c01.py` META.note).
* T01.3 (compiler correctness, `run (compile e) ≈ Spec.Eval e`), all `_partial`, on the model machine over
  an abstract heap satisfying explicit law structures (the behaviour of builtin calls is one of the laws):
  stage 1 (`compile_correct_stage1_partial`; `Lemmas/CompileCorrect*.lean`): the closure-free fragment,
  success case; its ERROR case (`compile_correct_stage1_error_partial`; `Lemmas/CompileCorrect2Err*.lean`):
  the machine fails with the corresponding class in a state whose heap represents the specification's
  failure state; `quote` of pairs and vectors (`quote_compound_partial`; `Lemmas/CompileCorrect2Quote.lean`);
  STAGE 2 (`compile_correct_stage2_partial`, `closure_call_stage2_partial`; `Lemmas/CompileCorrect2*.lean`):
  `lambda` with fixed arity, closure creation, calls and tail calls of closures, references and `set!` of
  lexical variables at any depth, success case, and its ERROR case (`compile_correct_stage2_error_partial`).
  STAGE 3 (`compile_correct_stage3_partial`, `closure_call_stage3_rest_partial`,
  `body_stage3_defines_partial`, `apply_redispatch_stage3_partial`; `Lemmas/CompileCorrect3*.lean`): rest
  parameters (VARARG), internal definitions at the head of a body (read only after their definition), and the
  re-dispatch of `apply`, success case. Quasiquote, call/cc, `eval`/`map`/`for-each`, the error case of stage 3
  (except the arity error of a variadic call), GC interleaving are open; the agreement of the real pipeline with `Spec.Eval` is carried by the differential
  correspondence.
-/
namespace Marwood.Proofs.C01
open Marwood Marwood.Vm

/-! ## T01.4 operand order (compiler model) -/

/-- The code of an application `(proc . rest)`: the codes of the operands from left to right, each
    followed by `PUSH` (so operand `i` precedes operand `i+1`), then `PUSH-IMMEDIATE <argc>`, then the
    code of the operator, then the call instruction — nothing else. -/
theorem application_operand_order (fuel : Nat) (st : CState) (c : Ctx) (base : Nat) (tail : Bool)
    (proc rest : Datum) (st' : CState) (code : List BC)
    (hn : ∀ kw ∈ specialForms, proc.isSymStr kw = false)
    (h : compileExpr (fuel + 1) st c base tail (.pair proc rest) = .ok (st', code)) :
    ∃ segs st1 pcode,
      OperandCodes fuel st c base rest st1 segs ∧
      compileExpr fuel st1 c (base + (pushed segs).length + 2) false proc = .ok (st', pcode) ∧
      code = pushed segs ++ [.op .pushImm, .argc segs.length] ++ pcode
              ++ [.op (if tail then .tcallAcc else .callAcc)] := by
  unfold compileExpr at h
  have k1 := hn ['d','e','f','i','n','e'] (by simp [specialForms])
  have k2 := hn ['d','e','f','i','n','e','-','s','y','n','t','a','x'] (by simp [specialForms])
  have k3 := hn ['l','a','m','b','d','a'] (by simp [specialForms])
  have k4 := hn ['λ'] (by simp [specialForms])
  have k5 := hn ['q','u','a','s','i','q','u','o','t','e'] (by simp [specialForms])
  have k6 := hn ['q','u','o','t','e'] (by simp [specialForms])
  have k7 := hn ['i','f'] (by simp [specialForms])
  have k8 := hn ['s','e','t','!'] (by simp [specialForms])
  simp only [k1, k2, k3, k4, k5, k6, k7, k8, Bool.false_eq_true, if_false, Bool.or_self] at h
  cases h1 : compileArgs fuel st c base rest with
  | error e => simp [h1] at h
  | ok r1 =>
    obtain ⟨st1, code1, n⟩ := r1
    simp only [h1] at h
    cases h2 : compileExpr fuel st1 c (base + code1.length + 2) false proc with
    | error e => simp [h2] at h
    | ok r2 =>
      obtain ⟨st2, pcode⟩ := r2
      simp only [h2] at h
      obtain ⟨segs, hs, hc, hnn⟩ := compileArgs_operandCodes fuel _ _ _ _ _ _ _ h1
      injection h with h
      injection h with h3 h4
      subst h3 h4 hc hnn
      exact ⟨segs, st1, pcode, hs, h2, rfl⟩

/-- Operands are compiled left to right: the first operand's code comes first, at the current
    offset; the remaining operands are compiled after it and its `PUSH`, in the compiler state it left. -/
theorem operands_left_to_right (fuel : Nat) (st : CState) (c : Ctx) (base : Nat) (a d : Datum)
    (st' : CState) (segs : List (List BC))
    (h : OperandCodes (fuel + 1) st c base (.pair a d) st' segs) :
    ∃ st1 code1 rest, segs = code1 :: rest ∧
      compileExpr fuel st c base false a = .ok (st1, code1) ∧
      OperandCodes fuel st1 c (base + code1.length + 1) d st' rest ∧
      pushed segs = code1 ++ [.op .pushAcc] ++ pushed rest := by
  cases h with
  | done _ _ _ _ _ hh => exact absurd rfl (hh a d)
  | cons _ _ _ _ _ _ st1 code1 _ rest h1 h2 =>
    exact ⟨st1, code1, rest, rfl, h1, h2, by simp [pushed]⟩

/-- the opcode skeleton of a code sequence (operands as `none`) -/
def skeleton (code : List BC) : List (Option Op) :=
  code.map fun b => match b with | .op o => some o | _ => none

/-- non-vacuity: `(f (g) 1)` in non-tail position compiles to the code of `(g)`, PUSH, the code of
    `1`, PUSH, argc 2, the code of `f`, CALL -/
example :
    (match compileExpr 10 {} ⟨[], []⟩ 0 false
      (Datum.ofList [.sym ['f'], Datum.ofList [.sym ['g']], .num (.fix 1)]) with
     | .ok (_, code) => skeleton code ==
        [some .pushImm, none, some .mov, none, none, some .callAcc, some .pushAcc,
         some .movImm, none, none, some .pushAcc, some .pushImm, none, some .mov, none, none, some .callAcc]
     | .error _ => false) = true := by
  decide +kernel


/-! ## T01.1 independence (about `Spec.Eval`)

`results n h` are the form-by-form results of session `h` in a fresh instance with `n` levels of
fuel. A form *mentions* `x` when the symbol `x` occurs anywhere in it — as a variable, a parameter,
or inside quoted data (which `eval` could turn into a reference). -/

open Marwood.Spec.Eval

/-- evaluated in a fresh instance, `d` succeeds and does nothing but bind the global `x`: no
    allocation, no output, every other global unchanged (the shape of an *unrelated definition*) -/
def OnlyBinds (n : Nat) (x : Text) (d : Datum) : Prop :=
  ∃ r st, runForm n d initSt = (r, some st) ∧ st.store = initSt.store ∧ st.out = initSt.out ∧
    ∀ y, y ≠ x → st.globals.lookup y = initSt.globals.lookup y

/-- **T01.1** For every session `h`, every name `x` that no form of `h` mentions, every definition `d`
    that only binds `x`, and every amount of fuel: the results of `d :: h` after dropping `d`'s own
    result are the results of `h`, and the output logs are equal. -/
theorem independence (n : Nat) (x : Text) (d : Datum) (h : List Datum)
    (hd : OnlyBinds n x d) (hh : ∀ f ∈ h, mentions x f = false) :
    (results n (d :: h)).tail = results n h ∧ output n (d :: h) = output n h := by
  obtain ⟨r, st, hrun, hstore, hout, hglob⟩ := hd
  have hrel : Rel x initSt st := ⟨inv_initSt, ⟨hstore, hout, hglob⟩⟩
  have hs := runSession_rel n h hh initSt st hrel
  unfold results output
  simp only [runSession, hrun]
  refine ⟨by simp [hs.1], ?_⟩
  have h2 := hs.2
  cases ha : (runSession n h initSt).2 <;> cases hb : (runSession n h st).2 <;>
    simp only [ha, hb] at h2 ⊢
  · exact h2.2.out

/-- The same from any clean state and any state similar to it: an unrelated definition made at
    *any* point of a session (not only in front of it) does not change what follows. -/
theorem independence_from (n : Nat) (x : Text) (h : List Datum) (st st' : St)
    (hrel : Rel x st st') (hh : ∀ f ∈ h, mentions x f = false) :
    (runSession n h st).1 = (runSession n h st').1 :=
  (runSession_rel n h hh st st' hrel).1

/-- fresh-instance clause: the results are a function of the session (and the fuel) alone — the
    specification has no state outside `initSt`. By construction; stated for the record. -/
theorem results_function_of_session (n : Nat) (h₁ h₂ : List Datum) (e : h₁ = h₂) :
    results n h₁ = results n h₂ ∧ output n h₁ = output n h₂ := by subst e; exact ⟨rfl, rfl⟩

/-- a procedure definition `(define (x . formals) body …)` only binds `x` -/
theorem define_procedure_onlyBinds (n : Nat) (x : Text) (formals body : Datum)
    (ps : List Text) (rest : Option Text) (b : Datum) (bs : List Datum)
    (hx : reserved x = false) (hf : parseFormals formals = some (ps, rest))
    (hb : properList body = some (b :: bs)) :
    OnlyBinds n x (.pair (.sym k_define) (.pair (.pair (.sym x) formals) body)) := by
  refine ⟨.ok .void, { initSt with globals := insertG x (.closure ps rest (b :: bs) []) initSt.globals }, ?_, rfl, rfl, ?_⟩
  · have hk : (k_define == k_begin_) = false := by decide
    simp [runForm, evalTop, hk, evalTopForm, isDefine, defineValue, hx, makeClosure, hf, hb, putGlobal,
      Bind.bind, M.bind', Pure.pure, M.pure', valToDatum]
  · intro y hy
    simp [lookup_insertG, hy]

/-- non-vacuity of `independence`: an unrelated variadic procedure in front of a session that
    defines and calls a procedure of its own -/
example :
    let x : Text := ['z','z']
    let d := Datum.ofListTail [.sym k_define, Datum.ofListTail [.sym x, .sym ['a']] (.sym ['r'])] (Datum.ofList [.sym ['r']])
    let h := [Datum.ofList [.sym k_define, Datum.ofList [.sym ['f'], .sym ['n']], Datum.ofList [.sym ['+'], .sym ['n'], .num (.fix 1)]],
              Datum.ofList [.sym ['f'], .num (.fix 41)]]
    (∀ f ∈ h, mentions x f = false) ∧ results 10 (d :: h) = [.ok .void, .ok .void, .ok (.num (.fix 42))] := by
  decide +kernel


/-! ## what the specification prescribes at the witnesses of the known findings
(the implementation's answers are in `known_findings/C01.json`; the `findings` stream replays them) -/

/-- `` `(1 . ,(+ 1 2)) `` is `(1 . 3)` (implementation: `(1 unquote (+ 1 2))`) -/
theorem dotted_unquote_spec_witness :
    results 10 [Datum.ofList [.sym k_quasiquote,
        .pair (.num (.fix 1)) (Datum.ofList [.sym k_unquote, Datum.ofList [.sym ['+'], .num (.fix 1), .num (.fix 2)]])]]
      = [.ok (.pair (.num (.fix 1)) (.num (.fix 3)))] := by decide +kernel

/-- `(begin (define tb1 1) (define tb2 2))` at top level defines both globals: `(+ tb1 tb2)` is 3
    (implementation: `tb1` is not bound) -/
theorem toplevel_begin_spec_witness :
    results 10 [Datum.ofList [.sym k_begin_,
                  Datum.ofList [.sym k_define, .sym ['t','b','1'], .num (.fix 1)],
                  Datum.ofList [.sym k_define, .sym ['t','b','2'], .num (.fix 2)]],
                Datum.ofList [.sym ['+'], .sym ['t','b','1'], .sym ['t','b','2']]]
      = [.ok .void, .ok (.num (.fix 3))] := by decide +kernel

/-- `(define (hy var1) (or #f var1))`, `(hy 9)` is 9 (implementation: `#f`, the `or` macro's own
    `var1` captures the parameter) -/
theorem or_capture_spec_witness :
    results 10 [Datum.ofList [.sym k_define, Datum.ofList [.sym ['h','y'], .sym ['v','a','r','1']],
                  Datum.ofList [.sym k_or_, .bool false, .sym ['v','a','r','1']]],
                Datum.ofList [.sym ['h','y'], .num (.fix 9)]]
      = [.ok .void, .ok (.num (.fix 9))] := by decide +kernel


/-! ## Fuel monotonicity of `Spec.Eval` -/

/-- **Fuel monotonicity.** If evaluating `e` with fuel `n` ends with a definite outcome — a value or an
    error, not `timeout` — then every fuel `m ≥ n` ends with the same outcome: same value or error
    class, same globals, store and output log. -/
theorem fuel_monotone {n m : Nat} (h : n ≤ m) (e : Datum) (ρ : Env) (st : St)
    (hd : (evalN n).eval e ρ st ≠ .timeout) : (evalN m).eval e ρ st = (evalN n).eval e ρ st :=
  evalN_mono h e ρ st hd

/-- the fuel decides whether an outcome is reached, never which: definite outcomes are unique -/
theorem outcome_unique {n m : Nat} (e : Datum) (ρ : Env) (st : St)
    (hn : (evalN n).eval e ρ st ≠ .timeout) (hm : (evalN m).eval e ρ st ≠ .timeout) :
    (evalN n).eval e ρ st = (evalN m).eval e ρ st := definite_unique e ρ st hn hm

/-- … the same for the application of a procedure value to arguments (closures, every primitive,
    `apply`, `eval`, `force`, `map`, `for-each`) -/
theorem fuel_monotone_apply {n m : Nat} (h : n ≤ m) (f : Val) (args : List Val) (st : St)
    (hd : (evalN n).apply f args st ≠ .timeout) : (evalN m).apply f args st = (evalN n).apply f args st :=
  applyN_mono h f args st hd

/-- … and for whole sessions: if no form of the session runs out of fuel `n`, every `m ≥ n` gives
    the same results and the same output log -/
theorem session_fuel_monotone {n m : Nat} (h : n ≤ m) (session : List Datum)
    (hd : ∀ r ∈ results n session, r ≠ FormRes.timeout) :
    results m session = results n session ∧ output m session = output n session :=
  ⟨results_mono h session hd, output_mono h session hd⟩

/-- non-vacuity: the session of the independence example is definite at fuel 10 -/
example : ∀ r ∈ results 10 [Datum.ofList [.sym ['+'], .num (.fix 1), .num (.fix 2)]], r ≠ FormRes.timeout := by
  decide +kernel


/-! ## T01.2 second half: evaluating the prelude's expansion agrees with the native meaning

`Same k use exp ρ` (`Lemmas/EvalDerived.lean`): for every fuel `n` and every state, whatever
`Spec.Eval` yields definitely for `use` with fuel `n` it yields for `exp` with fuel `n + k`, and
vice versa — same value or error class, same globals, store and output log. By fuel monotonicity
this is "for every sufficient fuel"; `derived_limit` is the fuel-free reading. -/

open Marwood.Spec.Eval.Derived Marwood.Spec.Eval.Prelude

/-- the fuel-free reading of `Same`/`SameAt`: the definite outcomes some fuel yields coincide -/
theorem derived_limit {k : Nat} {use exp : Datum} {ρ : Env} {st : St} (h : SameAt k use exp ρ st)
    (res : Res Val) (hres : res ≠ .timeout) :
    (∃ n, (evalN n).eval use ρ st = res) ↔ (∃ n, (evalN n).eval exp ρ st = res) :=
  h.limit res hres

/-- `(when t b body …)` ≈ `(if t (begin b body …))` -/
theorem derived_when (ρ : Env) (t b : Datum) (body : List Datum) :
    Same 1 (whenUse t b body) (whenExp t b body) ρ := when_same ρ t b body

/-- `(unless t b body …)` ≈ `(if (not t) (begin b body …))`, from every state such that `not` is not
    shadowed lexically and is globally bound to the primitive after `t` has been evaluated (the
    expansion refers to `not` by name: not hygienic) -/
theorem derived_unless (ρ : Env) (t b : Datum) (body : List Datum) (st : St) (hρ : ρ.lookup k_not = none)
    (hnot : ∀ m v st1, (evalN m).eval t ρ st = .ok v st1 → st1.globals.lookup k_not = some (.prim .not)) :
    SameAt 2 (unlessUse t b body) (unlessExp t b body) ρ st := unless_same ρ t b body st hρ hnot

/-- the hypotheses of `derived_unless` hold in the initial state for a constant test -/
example : ([] : Env).lookup k_not = none ∧
    ∀ m v st1, (evalN m).eval (.bool false) [] initSt = .ok v st1 → st1.globals.lookup k_not = some (.prim .not) := by
  refine ⟨rfl, ?_⟩
  intro m v st1 h
  cases m with
  | zero => cases h
  | succ m =>
    have : st1 = initSt := by
      have h' : Res.ok (Val.bool false) initSt = Res.ok v st1 := h
      cases h'; rfl
    subst this
    decide +kernel

/-- `(begin e …)` ≈ `((lambda () e …))` when no `e` is a definition (with definitions the expansion
    makes them internal definitions of the `lambda` body, the native `begin` does not: known finding
    `C01-toplevel-begin-define` at top level) -/
theorem derived_begin (ρ : Env) (es : List Datum) (h : ∀ e ∈ es, isDefine e = false) :
    Same 1 (beginUse es) (beginExp es) ρ := begin_same ρ es h

/-- with a definition the two differ: inside a body, native `begin` rejects it, the expansion defines -/
theorem begin_define_differs :
    results 10 [L [L [s k_lambda, .nil, beginUse [L [s k_define, s ['x'], .num (.fix 1)], s ['x']]]]] = [.err .syntax] ∧
    results 10 [L [L [s k_lambda, .nil, beginExp [L [s k_define, s ['x'], .num (.fix 1)], s ['x']]]]] = [.ok (.num (.fix 1))] := by
  decide +kernel

/-- `(and)` ≈ `#t`, `(and e)` ≈ `e`, `(and e e2 …)` ≈ `(if e (and e2 …) #f)` -/
theorem derived_and (ρ : Env) (es : List Datum) : Same 1 (andUse es) (andExp es) ρ := and_same ρ es

/-- `(or)` ≈ `#f`, `(or e)` ≈ `e` -/
theorem derived_or_short (ρ : Env) (e : Datum) :
    Same 1 (orUse []) (orExp []) ρ ∧ Same 1 (orUse [e]) (orExp [e]) ρ := ⟨or_same_nil ρ, or_same_one ρ e⟩

/-- `(or e e2 …)` against `(let ((var1 e)) (if var1 var1 (or e2 …)))`: what each computes. The
    expansion allocates a variable `var1` and evaluates the remaining operands under that binding;
    apart from that the two computations are the same. (Not an equivalence theorem: see
    `or_capture_expansion_witness` for the capture, `derived_or_first_true` for the case that closes.) -/
theorem derived_or_partial (ρ : Env) (n : Nat) (e e2 : Datum) (es : List Datum) :
    (evalN (n+1)).eval (orUse (e :: e2 :: es)) ρ = (do
      let v ← (evalN n).eval e ρ
      if truthy v then pure v else evalOr (evalN n) ρ (e2 :: es)) ∧
    (evalN (n+4)).eval (orExp (e :: e2 :: es)) ρ = (do
      let v ← (evalN (n+3)).eval e ρ
      let l ← allocCell (.var v)
      if truthy v then pure v else evalOr (evalN (n+1)) ((k_var1, l) :: ρ) (e2 :: es)) :=
  ⟨or_native_eval ρ n e e2 es, or_exp_eval ρ n e e2 es⟩

/-- when the first operand is true: same value, globals and output; the expansion's store is the
    native store plus the one variable cell -/
theorem derived_or_first_true (ρ : Env) (n : Nat) (e e2 : Datum) (es : List Datum) (st st1 : St) (v : Val)
    (he : (evalN n).eval e ρ st = .ok v st1) (hv : truthy v = true) :
    (evalN (n+1)).eval (orUse (e :: e2 :: es)) ρ st = .ok v st1 ∧
    (evalN (n+4)).eval (orExp (e :: e2 :: es)) ρ st = .ok v { st1 with store := st1.store.push (.var v) } :=
  or_exp_truthy ρ n e e2 es st st1 v he hv

/-- known finding `C01-prelude-macro-capture`, `or`: with `var1` free in a later operand the
    expansion yields `#f` where the form means 9 (`or_capture_spec_witness`) -/
theorem or_capture_expansion_witness :
    results 10 [L [s k_define, L [s ['h','y'], s k_var1], orExp [.bool false, s k_var1]],
                L [s ['h','y'], .num (.fix 9)]] = [.ok .void, .ok (.bool false)] ∧
    results 10 [L [s k_define, L [s ['h','y'], s k_var1], orUse [.bool false, s k_var1]],
                L [s ['h','y'], .num (.fix 9)]] = [.ok .void, .ok (.num (.fix 9))] := by
  decide +kernel

/-- `(let ((x e) …) b body …)` ≈ `((lambda (x …) b body …) e …)`, names not reserved words -/
theorem derived_let (ρ : Env) (bs : List (Text × Datum)) (b : Datum) (body : List Datum)
    (hb : ∀ p ∈ bs, reserved p.1 = false) :
    Same 1 (letUse (symBindings bs) b body) (letExp (symBindings bs) b body) ρ := let_same ρ bs b body hb

/-- `(let* () b body …)` ≈ `(let () b body …)`;
    `(let* ((x e) rest …) b body …)` ≈ `(let ((x e)) (let* (rest …) b body …))` -/
theorem derived_letStar (ρ : Env) (bs : List (Text × Datum)) (b : Datum) (body : List Datum)
    (hb : ∀ p ∈ bs, reserved p.1 = false) :
    Same 1 (letStarUse (symBindings bs) b body) (letStarExp (symBindings bs) b body) ρ :=
  letStar_same ρ bs b body hb

/-- `(let tag ((x e) …) b body …)` ≈ `((letrec ((tag (lambda (x …) b body …))) tag) e …)` -/
theorem derived_namedLet (ρ : Env) (tag : Text) (bs : List (Text × Datum)) (b : Datum) (body : List Datum)
    (ht : reserved tag = false) (hb : ∀ p ∈ bs, reserved p.1 = false) :
    Same 2 (namedLetUse tag (symBindings bs) b body) (namedLetExp tag (symBindings bs) b body) ρ :=
  namedLet_same ρ tag bs b body ht hb

/-- `(letrec ((x e) …) b body …)` against `(let ((x #f) …) (set! x e) … (let () b body …))`: the native
    meaning is `letrecWith #<undefined>`, the expansion is `letrecWith #f` — they differ only in what a
    variable holds before its initialisation, which R7RS leaves unspecified ("it is an error" to look) -/
theorem derived_letrec_partial (ρ : Env) (bs : List (Text × Datum)) (b : Datum) (body : List Datum)
    (hb : ∀ p ∈ bs, reserved p.1 = false) (n : Nat) :
    (evalN (n+1)).eval (letrecUse (symBindings bs) b body) ρ = letrecWith .undef (evalN n) ρ bs (b :: body) ∧
    (evalN (n+2)).eval (letrecExp (symBindings bs) b body) ρ = letrecWith (.bool false) (evalN n) ρ bs (b :: body) ∧
    Le ((evalN n).eval (letrecExp (symBindings bs) b body) ρ) (letrecWith (.bool false) (evalN n) ρ bs (b :: body)) :=
  letrec_same_with ρ bs b body hb n

/-- one recursive procedure (the shape the expansion of named `let` produces): the variable is never
    looked at before its initialisation, the expansion is exact -/
theorem derived_letrec_single (ρ : Env) (f : Text) (formals lb : Datum) (lbs : List Datum) (b : Datum)
    (body : List Datum) (ps : List Text) (rest : Option Text) (hf : reserved f = false)
    (hp : parseFormals formals = some (ps, rest)) :
    Same 1 (letrecUse (symBindings [(f, L (s k_lambda :: formals :: lb :: lbs))]) b body)
           (letrecExp (symBindings [(f, L (s k_lambda :: formals :: lb :: lbs))]) b body) ρ :=
  letrec_single_same ρ f formals lb lbs b body ps rest hf hp

/-- the difference is observable by a program that looks: `(letrec ((a b) (b 1)) a)` -/
theorem letrec_uninitialised_differs :
    results 10 [letrecUse [(s ['a'], s ['b']), (s ['b'], .num (.fix 1))] (s ['a']) []] = [.ok .undefined] ∧
    results 10 [letrecExp [(s ['a'], s ['b']), (s ['b'], .num (.fix 1))] (s ['a']) []] = [.ok (.bool false)] := by
  decide +kernel

/-- `(cond (else r1 r2 …))` ≈ `(begin r1 r2 …)` -/
theorem derived_cond_else (ρ : Env) (r1 : Datum) (rs : List Datum) :
    Same 1 (condUse [L (s k_else_ :: r1 :: rs)]) (condElseExp r1 rs) ρ := cond_else_same ρ r1 rs

/-- `(cond (t r1 r2 …) clause …)` ≈ `(if t (begin r1 r2 …) [(cond clause …)])` -/
theorem derived_cond_body (ρ : Env) (t r1 : Datum) (rs cs : List Datum) (ht : t ≠ s k_else_)
    (hr : ¬ (r1 = s k_arrow ∧ rs.length = 1)) :
    Same 1 (condUse (L (t :: r1 :: rs) :: cs)) (condBodyExp t r1 rs cs) ρ := cond_body_same ρ t r1 rs cs ht hr

/-- `(cond (t))` against `t`: native = `t`'s value if true, else `#<void>`; the expansion is `t` -/
theorem derived_cond_test_final (ρ : Env) (t : Datum) (ht : t ≠ s k_else_) (n : Nat) :
    (evalN (n+1)).eval (condUse [L [t]]) ρ = (do
      let v ← (evalN n).eval t ρ
      if truthy v then pure v else pure .void) ∧
    condTestExp t [] = t := cond_test_final_eval ρ t ht n

/-- … so `(cond (#f))` is `#<void>` natively and `#f` by the expansion (unspecified in R7RS) -/
theorem cond_test_final_differs :
    results 10 [condUse [L [.bool false]]] = [.ok .void] ∧
    results 10 [condTestExp (.bool false) []] = [.ok (.bool false)] := by decide +kernel

/-- `(cond (t) c cs …)` against `(let ((temp t)) (if temp temp (cond c cs …)))`: what each computes -/
theorem derived_cond_test_partial (ρ : Env) (n : Nat) (t c : Datum) (cs : List Datum) (ht : t ≠ s k_else_) :
    (evalN (n+1)).eval (condUse (L [t] :: c :: cs)) ρ = (do
      let v ← (evalN n).eval t ρ
      if truthy v then pure v else evalCond (evalN n) ρ (c :: cs)) ∧
    (evalN (n+4)).eval (condTestExp t (c :: cs)) ρ = (do
      let v ← (evalN (n+3)).eval t ρ
      let l ← allocCell (.var v)
      if truthy v then pure v else evalCond (evalN (n+1)) ((k_temp, l) :: ρ) (c :: cs)) :=
  ⟨cond_test_native_eval ρ n t c cs ht, cond_test_exp_eval ρ n t c cs⟩

/-- `(cond (t => f) clause …)`: what `(let ((temp t)) (if temp (f temp) [(cond clause …)]))` computes -/
theorem derived_cond_arrow_partial (ρ : Env) (n : Nat) (t f : Datum) (cs : List Datum) :
    (evalN (n+3)).eval (condArrowExp t f cs) ρ = (do
      let v ← (evalN (n+2)).eval t ρ
      let l ← allocCell (.var v)
      if truthy v then (evalN (n+1)).eval (L [f, s k_temp]) ((k_temp, l) :: ρ)
      else (match cs with
        | [] => pure .void
        | c :: cs' => (evalN (n+1)).eval (condUse (c :: cs')) ((k_temp, l) :: ρ))) :=
  cond_arrow_exp_eval ρ n t f cs

/-- known finding `C01-prelude-macro-capture`, `cond`: `temp` free in a later clause -/
theorem cond_capture_expansion_witness :
    results 10 [L [s k_define, L [s ['h','t'], s k_temp], condTestExp (.bool false) [L [s k_else_, s k_temp]]],
                L [s ['h','t'], .num (.fix 9)]] = [.ok .void, .ok (.bool false)] ∧
    results 10 [L [s k_define, L [s ['h','t'], s k_temp], condUse [L [.bool false], L [s k_else_, s k_temp]]],
                L [s ['h','t'], .num (.fix 9)]] = [.ok .void, .ok (.num (.fix 9))] := by
  decide +kernel

/-- `(case k (else => f))` ≈ `(f k)`, `f` not a syntactic keyword -/
theorem derived_case_else_arrow (ρ : Env) (k f : Datum) (hf : ∀ x, f = .sym x → kwOf x = none) :
    Same 1 (caseUse k [L [s k_else_, s k_arrow, f]]) (caseElseArrowExp k f) ρ := case_else_arrow_same ρ k f hf

/-- `(case k (else r1 r2 …))` against `(begin r1 r2 …)`: the native meaning evaluates the key first -/
theorem derived_case_else_partial (ρ : Env) (k r1 : Datum) (rs : List Datum)
    (hr : ¬ (r1 = s k_arrow ∧ rs.length = 1)) (n : Nat) :
    (evalN (n+1)).eval (caseUse k [L (s k_else_ :: r1 :: rs)]) ρ =
      ((evalN n).eval k ρ >>= fun _ => evalExprs (evalN n) ρ (r1 :: rs)) ∧
    (evalN (n+1)).eval (caseElseExp r1 rs) ρ = evalExprs (evalN n) ρ (r1 :: rs) :=
  case_else_native_eval ρ k r1 rs hr n

/-- known finding `C01-prelude-macro-capture`, `case`: `atom-key` free in a clause -/
theorem case_capture_expansion_witness :
    let key := [s ['c','a','r'], L [s k_quote, L [.num (.fix 1)]]]
    let clauses := [L [L [.num (.fix 2)], .num (.fix 0)], L [s k_else_, s k_atomKey]]
    results 12 [L [s k_define, L [s ['h','k'], s k_atomKey], caseKeyExp key clauses],
                L [s ['h','k'], .num (.fix 9)]] = [.ok .void, .ok (.num (.fix 1))] ∧
    results 12 [L [s k_define, L [s ['h','k'], s k_atomKey], caseUse (L key) clauses],
                L [s ['h','k'], .num (.fix 9)]] = [.ok .void, .ok (.num (.fix 9))] := by
  decide +kernel


/-! ## T01.2, both halves together: `Spec.eval ρ (expand m form) ≈ Spec.eval ρ form`

`expand m form` is the R7RS matcher (`Spec.Match.specExpand`, C17) applied with the rules of macro
`m` as regenerated from `prelude.scm` on this run (`Lemmas/EvalDerivedExpand.lean`: for ALL
sub-forms and all numbers of clauses / bindings / body forms, not instances). -/

/-- the prelude's transformer for `name` rewrites `use` to a term that evaluates like `use` under its
    native meaning, up to `k` levels of fuel, in environment `ρ` -/
def ExpandsAndAgrees (name : Text) (k : Nat) (use : Datum) (ρ : Env) : Prop :=
  ∃ exp, expand name use = some exp ∧ Same k use exp ρ

theorem t01_2_when (ρ : Env) (t b : Datum) (body : List Datum) :
    ExpandsAndAgrees k_when_ 1 (whenUse t b body) ρ := ⟨_, expand_when t b body, when_same ρ t b body⟩

theorem t01_2_unless (ρ : Env) (t b : Datum) (body : List Datum) (st : St) (hρ : ρ.lookup k_not = none)
    (hnot : ∀ m v st1, (evalN m).eval t ρ st = .ok v st1 → st1.globals.lookup k_not = some (.prim .not)) :
    ∃ exp, expand k_unless_ (unlessUse t b body) = some exp ∧ SameAt 2 (unlessUse t b body) exp ρ st :=
  ⟨_, expand_unless t b body, unless_same ρ t b body st hρ hnot⟩

theorem t01_2_begin (ρ : Env) (es : List Datum) (h : ∀ e ∈ es, isDefine e = false) :
    ExpandsAndAgrees k_begin_ 1 (beginUse es) ρ := ⟨_, expand_begin es, begin_same ρ es h⟩

theorem t01_2_and (ρ : Env) (es : List Datum) : ExpandsAndAgrees k_and_ 1 (andUse es) ρ :=
  ⟨_, expand_and es, and_same ρ es⟩

theorem t01_2_or_short (ρ : Env) (e : Datum) :
    ExpandsAndAgrees k_or_ 1 (orUse []) ρ ∧ ExpandsAndAgrees k_or_ 1 (orUse [e]) ρ :=
  ⟨⟨_, expand_or [], or_same_nil ρ⟩, ⟨_, expand_or [e], or_same_one ρ e⟩⟩

theorem t01_2_let (ρ : Env) (bs : List (Text × Datum)) (b : Datum) (body : List Datum)
    (hb : ∀ p ∈ bs, reserved p.1 = false) :
    ExpandsAndAgrees k_let_ 1 (letUse (symBindings bs) b body) ρ :=
  ⟨_, expand_let _ b body, let_same ρ bs b body hb⟩

theorem t01_2_letStar (ρ : Env) (bs : List (Text × Datum)) (b : Datum) (body : List Datum)
    (hb : ∀ p ∈ bs, reserved p.1 = false) :
    ExpandsAndAgrees k_letStar 1 (letStarUse (symBindings bs) b body) ρ :=
  ⟨_, expand_letStar _ b body, letStar_same ρ bs b body hb⟩

theorem t01_2_namedLet (ρ : Env) (tag : Text) (bs : List (Text × Datum)) (b : Datum) (body : List Datum)
    (ht : reserved tag = false) (hb : ∀ p ∈ bs, reserved p.1 = false) :
    ExpandsAndAgrees k_let_ 2 (namedLetUse tag (symBindings bs) b body) ρ :=
  ⟨_, expand_namedLet tag _ b body, namedLet_same ρ tag bs b body ht hb⟩

theorem t01_2_letrec_single (ρ : Env) (f : Text) (formals lb : Datum) (lbs : List Datum) (b : Datum)
    (body : List Datum) (ps : List Text) (rest : Option Text) (hf : reserved f = false)
    (hp : parseFormals formals = some (ps, rest)) :
    ExpandsAndAgrees k_letrec 1 (letrecUse (symBindings [(f, L (s k_lambda :: formals :: lb :: lbs))]) b body) ρ :=
  ⟨_, expand_letrec _ b body, letrec_single_same ρ f formals lb lbs b body ps rest hf hp⟩

theorem t01_2_cond_else (ρ : Env) (r1 : Datum) (rs : List Datum) :
    ExpandsAndAgrees k_cond 1 (condUse [L (s k_else_ :: r1 :: rs)]) ρ :=
  ⟨_, expand_cond_else r1 rs, cond_else_same ρ r1 rs⟩

theorem t01_2_cond_body (ρ : Env) (t r1 : Datum) (rs cs : List Datum) (ht : t ≠ s k_else_)
    (hr : ¬ (r1 = s k_arrow ∧ rs.length = 1)) :
    ExpandsAndAgrees k_cond 1 (condUse (L (t :: r1 :: rs) :: cs)) ρ :=
  ⟨_, expand_cond_body t r1 rs cs ht hr, cond_body_same ρ t r1 rs cs ht hr⟩

theorem t01_2_case_else_arrow (ρ : Env) (k f : Datum) (hk : ∀ ks, k ≠ L ks)
    (hf : ∀ x, f = .sym x → kwOf x = none) :
    ExpandsAndAgrees k_case_ 1 (caseUse k [L [s k_else_, s k_arrow, f]]) ρ :=
  ⟨_, expand_case_else_arrow k f hk, case_else_arrow_same ρ k f hf⟩

/-- the remaining rules: the expansion is the expected term for all uses (first half); what that
    term evaluates to is `derived_letrec_partial`, `derived_or_partial`, `derived_cond_test_partial`,
    `derived_cond_arrow_partial`, `derived_cond_test_final`, `derived_case_else_partial`; for `case`
    with a datum list and for `delay` only the first half is proved -/
theorem t01_2_first_half_rest :
    (∀ bs b body, expand k_letrec (letrecUse bs b body) = some (letrecExp bs b body)) ∧
    (∀ es, expand k_or_ (orUse es) = some (orExp es)) ∧
    (∀ t f cs, t ≠ s k_else_ → expand k_cond (condUse (L [t, s k_arrow, f] :: cs)) = some (condArrowExp t f cs)) ∧
    (∀ t cs, expand k_cond (condUse (L [t] :: cs)) = some (condTestExp t cs)) ∧
    (∀ ks cs, expand k_case_ (caseUse (L ks) cs) = some (caseKeyExp ks cs)) ∧
    (∀ k r1 rs, (∀ ks, k ≠ L ks) → ¬ (r1 = s k_arrow ∧ rs.length = 1) →
      expand k_case_ (caseUse k [L (s k_else_ :: r1 :: rs)]) = some (caseElseExp r1 rs)) ∧
    (∀ k atoms f cs, (∀ ks, k ≠ L ks) →
      expand k_case_ (caseUse k (L [L atoms, s k_arrow, f] :: cs)) = some (caseArrowExp k atoms f cs)) ∧
    (∀ k atoms r1 rs cs, (∀ ks, k ≠ L ks) → ¬ (r1 = s k_arrow ∧ rs.length = 1) →
      expand k_case_ (caseUse k (L (L atoms :: r1 :: rs) :: cs)) = some (caseBodyExp k atoms r1 rs cs)) ∧
    (∀ e, expand k_delay (delayUse e) = some (delayExp e)) ∧
    (∀ e, expand k_delayForce (delayForceUse e) = some (delayForceExp e)) :=
  ⟨expand_letrec, expand_or, fun t f cs ht => expand_cond_arrow t f cs ht, expand_cond_test, expand_case_key,
   fun k r1 rs hk hr => expand_case_else k r1 rs hk hr, fun k atoms f cs hk => expand_case_arrow k atoms f cs hk,
   fun k atoms r1 rs cs hk hr => expand_case_body k atoms r1 rs cs hk hr, expand_delay, expand_delayForce⟩


/-! ## T01.2 second half for the rules that bind an identifier of their own (`var1`, `temp`, `atom-key`)

These expansions allocate a variable the native meaning does not have and evaluate the remaining
sub-forms under one more binding, so the two outcomes cannot be EQUAL states: they are equal up to an
injective renaming `f` of locations (`Lemmas/EvalExtra*.lean`: `VRel f`, `StRel f`, `ResRel f`).
`extra_cell_invariance` is the main lemma (induction on the fuel through every special form,
primitive, `apply`/`eval`/`force`/`map`/`for-each`). It is about the GUARDED native run `guardN`:
`display`/`write`/`eval`, `equal?`, the list walkers and `memv`/`assv` take their fuel from the store
size, so on cyclic data their result depends on the number of cells — `or_cyclic_display_differs` is a
concrete program on which `(or e1 e2)` and its expansion print different text in `Spec.Eval`. `guardN`
makes "ran into that bound" a time-out; where it is definite it agrees with `evalN` (`guarded_refines`)
and with every store that has more cells. -/

open Marwood.Spec.Eval.Extra

/-- the guarded evaluator is `Spec.Eval` wherever it is definite -/
theorem guarded_refines (n : Nat) (e : Datum) (ρ : Env) (st : St) (h : (guardN n).eval e ρ st ≠ .timeout) :
    (evalN n).eval e ρ st = (guardN n).eval e ρ st := guardN_eval_evalN n e ρ st h

/-- **Invariance of `Spec.Eval` under extra unreachable cells and unused bindings.** `f` injective;
    `st'` holds the cells of `st` at their images under `f` (anything elsewhere), allocation in step
    (`StRel f st st'`); `ρ'` agrees with `ρ` under `f` on every name outside `B`; no name of `B` occurs
    in `e`. If the guarded native run ends definitely, the run in `st'`, `ρ'` with the same fuel ends
    with the same kind of outcome, the same error class / output log, values, globals and stores
    related by `f`. -/
theorem extra_cell_invariance {f : LMap} (hf : Inj f) (n : Nat) (e : Datum) {B : List Text} {ρ ρ' : Env}
    (he : EnvRel f B ρ ρ') (hc : CleanB B e) {st st' : St} (rs : StRel f st st') :
    ResRel f (VRel f) ((guardN n).eval e ρ st) ((evalN n).eval e ρ' st') :=
  Marwood.Spec.Eval.Extra.extra_cell_invariance hf n e he hc rs

/-- … for a whole top-level form, definitions included: from the related states a derived form and its
    expansion leave behind, the FOLLOWING forms of a session evaluate alike -/
theorem extra_cell_invariance_top {f : LMap} (hf : Inj f) (n : Nat) (d : Datum) {st st' : St} (rs : StRel f st st') :
    ResRel f (VRel f) (evalTop (guardN n) d st) (evalTop (evalN n) d st') :=
  Marwood.Spec.Eval.Extra.extra_cell_invariance_top hf n d rs

/-- the instance the expansions need: a well-formed state against itself with `k` more cells at the
    end of the store, an environment against itself with one more binding in front -/
theorem extra_cells_appended {st : St} (hst : WFSt st) (k : Nat) (σ' : Array Cell) (hsz : σ'.size = st.store.size + k)
    (hpre : ∀ l, l < st.store.size → σ'[l]? = st.store[l]?) {ρ : Env} (hρ : EnvOK st.store.size ρ) (x : Text) (l : Loc) :
    Inj (shiftAt st.store.size k) ∧ StRel (shiftAt st.store.size k) st { st with store := σ' } ∧
    EnvRel (shiftAt st.store.size k) [x] ρ ((x, l) :: ρ) :=
  ⟨inj_shiftAt _ _, stRel_extend hst k σ' hsz hpre, envRel_shift_cons hρ x l⟩

/-- the hypotheses are satisfiable: the initial state is well formed (and so is every state a session
    reaches: `wf_runSession`) -/
example : WFSt initSt ∧ EnvOK initSt.store.size [] := ⟨wf_initSt, by simp⟩

/-- without the guard the invariance fails in `Spec.Eval`: printing a circular list unfolds it as deep
    as the store is large, and the expansion of `or` has one more cell -/
theorem or_cyclic_display_differs :
    let p := s ['p']
    let setup := [L [s k_define, p, L [s ['c','o','n','s'], .num (.fix 1), L [s k_quote, .nil]]],
                  L [s ['s','e','t','-','c','d','r','!'], p, p]]
    let e2 := L [s ['d','i','s','p','l','a','y'], p]
    output 12 (setup ++ [orUse [.bool false, e2]]) ≠ output 12 (setup ++ [orExp [.bool false, e2]]) := by
  decide +kernel

/-- the prelude's transformer for `name` rewrites `use` to a term that evaluates like `use` under its
    native meaning up to the cells the expansion allocates, from state `st` -/
def ExpandsAndAgreesUpToExtra (name : Text) (k : Nat) (use : Datum) (ρ : Env) (st : St) : Prop :=
  ∃ exp, expand name use = some exp ∧ AgreesUpToExtra k use exp ρ st

/-- `(or e e2 …)` ≈ `(let ((var1 e)) (if var1 var1 (or e2 …)))` when `var1` does not occur in `e2 …` -/
theorem t01_2_or (ρ : Env) (e e2 : Datum) (es : List Datum) (st : St) (hst : WFSt st) (hρ : EnvOK st.store.size ρ)
    (hfree : ∀ d ∈ e2 :: es, mentions k_var1 d = false) :
    ExpandsAndAgreesUpToExtra k_or_ 3 (orUse (e :: e2 :: es)) ρ st :=
  ⟨_, expand_or _, or_agrees ρ e e2 es st hst hρ hfree⟩

/-- `(cond (t) c cs …)` ≈ `(let ((temp t)) (if temp temp (cond c cs …)))` when `temp` does not occur in
    `c cs …` (the final `(cond (t))` is `cond_test_final_differs`) -/
theorem t01_2_cond_test (ρ : Env) (t c : Datum) (cs : List Datum) (ht : t ≠ s k_else_) (st : St) (hst : WFSt st)
    (hρ : EnvOK st.store.size ρ) (hfree : ∀ d ∈ c :: cs, mentions k_temp d = false) :
    ExpandsAndAgreesUpToExtra k_cond 3 (condUse (L [t] :: c :: cs)) ρ st :=
  ⟨_, expand_cond_test t (c :: cs), cond_test_agrees ρ t c cs ht st hst hρ hfree⟩

/-- `(cond (t => f) clause …)` ≈ `(let ((temp t)) (if temp (f temp) [(cond clause …)]))` when `temp`
    occurs neither in `f` nor in the remaining clauses and `f` is not a syntactic keyword -/
theorem t01_2_cond_arrow (ρ : Env) (t f : Datum) (cs : List Datum) (ht : t ≠ s k_else_)
    (hf : ∀ x, f = .sym x → kwOf x = none) (st : St) (hst : WFSt st) (hρ : EnvOK st.store.size ρ)
    (hfree : ∀ d ∈ f :: cs, mentions k_temp d = false) :
    ExpandsAndAgreesUpToExtra k_cond 2 (condUse (L [t, s k_arrow, f] :: cs)) ρ st :=
  ⟨_, expand_cond_arrow t f cs ht, cond_arrow_agrees ρ t f cs ht hf st hst hρ hfree⟩

/-- `(case (k …) c cs …)` ≈ `(let ((atom-key (k …))) (case atom-key c cs …))` when `atom-key` does not occur
    in the clauses -/
theorem t01_2_case_key (ρ : Env) (ks : List Datum) (c : Datum) (cs : List Datum) (st : St) (hst : WFSt st)
    (hρ : EnvOK st.store.size ρ) (hfree : ∀ d ∈ c :: cs, mentions k_atomKey d = false) :
    ExpandsAndAgreesUpToExtra k_case_ 2 (caseUse (L ks) (c :: cs)) ρ st :=
  ⟨_, expand_case_key ks (c :: cs), case_key_agrees ρ ks c cs st hst hρ hfree⟩

theorem atomKey_not_list {k : Datum} (h : atomKey k = true) : ∀ ks, k ≠ L ks := by
  intro ks e
  subst e
  cases ks <;> simp [L, Datum.ofList, atomKey] at h

/-- `(case k (else r1 r2 …))` ≈ `(begin r1 r2 …)`, exactly (same state), from a state in which the key
    evaluates without effect: the native meaning evaluates it, the expansion never does -/
theorem t01_2_case_else (ρ : Env) (k r1 : Datum) (rs : List Datum) (hk : ∀ ks, k ≠ L ks)
    (hr : ¬ (r1 = s k_arrow ∧ rs.length = 1)) (st : St)
    (hpure : ∀ m, ∃ v, (evalN (m + 1)).eval k ρ st = .ok v st) :
    ∃ exp, expand k_case_ (caseUse k [L (s k_else_ :: r1 :: rs)]) = some exp ∧
      SameAt 1 (caseUse k [L (s k_else_ :: r1 :: rs)]) exp ρ st :=
  ⟨_, expand_case_else k r1 rs hk hr, case_else_same ρ k r1 rs hr st hpure⟩

/-- … a constant key satisfies the hypothesis in every state; with an unbound variable as key the two
    differ (native: error, expansion: the body) -/
example (st : St) : ∀ m, ∃ v, (evalN (m + 1)).eval (.num (.fix 3)) [] st = .ok v st := fun _ => ⟨.int 3, rfl⟩

theorem case_else_unbound_key_differs :
    results 10 [caseUse (s ['u']) [L [s k_else_, .num (.fix 1)]]] = [.err .unbound] ∧
    results 10 [caseElseExp (.num (.fix 1)) []] = [.ok (.num (.fix 1))] := by decide +kernel

/-- `(case k ((d …) r1 r2 …) clause …)` ≈ `(if (memv k '(d …)) (begin r1 r2 …) [(case k clause …)])` for an
    atomic key (a variable or a constant: what the key is after rule 1), data that `quote` turns into
    atoms, `memv` not shadowed and globally the primitive; the expansion's store has one more cell per
    datum (the quoted list) -/
theorem t01_2_case_body (ρ : Env) (k : Datum) (atoms : List Datum) (r1 : Datum) (rs cs : List Datum)
    (hr : ¬ (r1 = s k_arrow ∧ rs.length = 1)) (hat : ∀ d ∈ atoms, simpleAtom d = true) (hkey : atomKey k = true)
    (st : St) (hst : WFSt st) (hρ : EnvOK st.store.size ρ) (hρm : ρ.lookup k_memv = none)
    (hg : st.globals.lookup k_memv = some (.prim .memv)) :
    ExpandsAndAgreesUpToExtra k_case_ 1 (caseUse k (L (L atoms :: r1 :: rs) :: cs)) ρ st :=
  ⟨_, expand_case_body k atoms r1 rs cs (atomKey_not_list hkey) hr,
    case_body_agrees ρ k atoms r1 rs cs hr hat hkey st hst hρ hρm hg⟩

/-- `(case k ((d …) => f) clause …)` ≈ `(if (memv k '(d …)) (f k) [(case k clause …)])`, same hypotheses, `f`
    not a syntactic keyword -/
theorem t01_2_case_arrow (ρ : Env) (k : Datum) (atoms : List Datum) (f : Datum) (cs : List Datum)
    (hf : ∀ x, f = .sym x → kwOf x = none) (hat : ∀ d ∈ atoms, simpleAtom d = true) (hkey : atomKey k = true)
    (st : St) (hst : WFSt st) (hρ : EnvOK st.store.size ρ) (hρm : ρ.lookup k_memv = none)
    (hg : st.globals.lookup k_memv = some (.prim .memv)) :
    ExpandsAndAgreesUpToExtra k_case_ 1 (caseUse k (L [L atoms, s k_arrow, f] :: cs)) ρ st :=
  ⟨_, expand_case_arrow k atoms f cs (atomKey_not_list hkey),
    case_arrow_agrees ρ k atoms f cs hf hat hkey st hst hρ hρm hg⟩

/-- non-vacuity for the `case` rules in the initial state: `(case 3 ((1 2) 'a) ((3 x) 'b))`,
    `(case 3 ((3) => list) (else 0))`, `(case (car '(3)) ((3) 1))` -/
example :
    (guardN 4).eval (caseUse (.num (.fix 3)) [L [L [.num (.fix 1), .num (.fix 2)], L [s k_quote, s ['a']]],
        L [L [.num (.fix 3), s ['x']], L [s k_quote, s ['b']]]]) [] initSt ≠ .timeout ∧
    (guardN 4).eval (caseUse (.num (.fix 3)) [L [L [.num (.fix 3)], s k_arrow, s ['l','i','s','t']],
        L [s k_else_, .num (.fix 0)]]) [] initSt ≠ .timeout ∧
    (guardN 5).eval (caseUse (L [s ['c','a','r'], L [s k_quote, L [.num (.fix 3)]]]) [L [L [.num (.fix 3)], .num (.fix 1)]]) [] initSt ≠ .timeout ∧
    ([] : Env).lookup k_memv = none ∧ initSt.globals.lookup k_memv = some (.prim .memv) ∧
    (∀ d ∈ [Datum.num (.fix 3), s ['x']], simpleAtom d = true) ∧ atomKey (.num (.fix 3)) = true :=
  ⟨definiteB_ne (by decide +kernel), definiteB_ne (by decide +kernel), definiteB_ne (by decide +kernel),
   rfl, by decide +kernel, by decide +kernel, rfl⟩

/-- what the relation says about the observable parts: same kind of outcome, same error class, same
    output log, and the same printed value when the native value is not cyclic -/
theorem agrees_observables {f : LMap} {res res' : Res Val} (h : ResRel f (VRel f) res res') (hd : res ≠ .timeout) :
    (∃ v s v' s', res = .ok v s ∧ res' = .ok v' s' ∧ VRel f v v' ∧ s'.out = s.out ∧
        (valCut (s.store.size + 1) s.store v = false →
          valToDatum (s'.store.size + 1) s'.store v' = valToDatum (s.store.size + 1) s.store v)) ∨
    (∃ e s s', res = .err e s ∧ res' = .err e s' ∧ s'.out = s.out) := ResRel.observe h hd

/-- the outcome described is the ONLY definite outcome the expansion has, whatever the fuel -/
theorem agrees_unique {k : Nat} {use exp : Datum} {ρ : Env} {st : St} (h : AgreesUpToExtra k use exp ρ st)
    (n : Nat) (hd : (guardN n).eval use ρ st ≠ .timeout) (m : Nat) (hm : (evalN m).eval exp ρ st ≠ .timeout) :
    (evalN m).eval exp ρ st = (evalN (n + k)).eval exp ρ st := h.unique n hd m hm

/-- as top-level forms the derived form and its expansion print the same result (value text or error
    class) when the native value is not cyclic -/
theorem agrees_printed {k : Nat} {use exp : Datum} {st : St} (h : AgreesUpToExtra k use exp [] st)
    (htop : ∀ r, evalTop r use = r.eval use [] ∧ evalTop r exp = r.eval exp [])
    (n : Nat) (hd : (guardN n).eval use [] st ≠ .timeout)
    (hac : ∀ v s, (evalN n).eval use [] st = .ok v s → valCut (s.store.size + 1) s.store v = false) :
    (runForm (n + k) exp st).1 = (runForm n use st).1 := h.printed htop n hd hac

/-- … e.g. for `or`: neither the form nor its expansion is a definition or a top-level `begin` -/
example (e e2 : Datum) (es : List Datum) (r : Rec) :
    evalTop r (orUse (e :: e2 :: es)) = r.eval (orUse (e :: e2 :: es)) [] ∧
    evalTop r (orExp (e :: e2 :: es)) = r.eval (orExp (e :: e2 :: es)) [] := by
  have h1 : (k_or_ == k_begin_) = false := by decide
  have h2 : (k_or_ == k_define) = false := by decide
  have h3 : (k_let_ == k_begin_) = false := by decide
  have h4 : (k_let_ == k_define) = false := by decide
  constructor <;> simp [orUse, orExp, L, s, Datum.ofList, evalTop, evalTopForm, isDefine, h1, h2, h3, h4]

/-- non-vacuity: the guarded native run of `(or #f (car '(7)))` from the initial state is definite, and
    the freeness hypothesis holds -/
example : (guardN 4).eval (orUse [.bool false, L [s ['c','a','r'], L [s k_quote, L [.num (.fix 7)]]]]) [] initSt ≠ .timeout ∧
    (∀ d ∈ [L [s ['c','a','r'], L [s k_quote, L [.num (.fix 7)]]]], mentions k_var1 d = false) :=
  ⟨definiteB_ne (by decide +kernel), by decide +kernel⟩

/-- non-vacuity for the `cond` rules: `(cond (#f) (else 1))`, `(cond (7 => list) (else 1))` -/
example : (guardN 4).eval (condUse [L [.bool false], L [s k_else_, .num (.fix 1)]]) [] initSt ≠ .timeout ∧
    (guardN 4).eval (condUse [L [.num (.fix 7), s k_arrow, s ['l','i','s','t']], L [s k_else_, .num (.fix 1)]]) [] initSt ≠ .timeout :=
  ⟨definiteB_ne (by decide +kernel), definiteB_ne (by decide +kernel)⟩


/-! ## T01.2 second half, CONVERSE direction: expansion definite ⇒ native definite, related outcome

`agrees_unique` says the related outcome is the expansion's ONLY definite outcome; what it does not say
is that the native form is definite whenever the expansion is. That needs a simulation from the LARGER
store (the expansion's: `k` extra cells) to the smaller (`Lemmas/EvalConverse*.lean`: `ResRelR`, `SimR`,
`recSimR`; same relations `VRel f`, `StRel f`). The guard moves to the expansion's side and gets slack:
the store-size-fuelled helpers have `k` units of fuel LESS in the native store, so the expansion's run
must stay `k` short of their bound (`sguardN k`: no cut with fuel `store.size + 1 - k`; `cut_transfer`).
`sguardN k n ⊑ evalN n` (`slack_guarded_refines`), and the guards never fire on ACYCLIC data that is
shallower than the helper fuel (`guards_quiet_on_ranked_data`: a rank function decreasing along the edges
of the store; `guards_quiet_on_allocation_ordered_store`: e.g. every store in which cells only point to
older cells — what `cons`/`list`/`vector`/`quote` build before any `set-car!`/`set-cdr!`/`vector-set!`). -/

open Marwood.Spec.Eval.Conv

/-- the slack-guarded evaluator is `Spec.Eval` wherever it is definite -/
theorem slack_guarded_refines (k n : Nat) (e : Datum) (ρ : Env) (st : St) (h : (sguardN k n).eval e ρ st ≠ .timeout) :
    (evalN n).eval e ρ st = (sguardN k n).eval e ρ st := sguardN_eval_evalN k n e ρ st h

/-- slack 0 is the guard of the forward direction -/
theorem slack_zero_is_guard (r : Rec) (f : Val) (args : List Val) : sguardApply 0 r f args = guardApply r f args :=
  sguardApply_zero r f args

/-- **Extra-cell invariance, converse.** `f` injective, at most `k` extra cells (`f l ≤ l + k`). If the run
    in the LARGER store `st'` (fuel `n`) is definite and stays `k` short of the helpers' bound, the run in
    the smaller store `st` with the same fuel is definite, does not hit its own guard, and has the related
    outcome. -/
theorem extra_cell_invariance_converse {f : LMap} (hf : Inj f) {k : Nat} (hfk : ∀ l, f l ≤ l + k) (n : Nat) (e : Datum)
    {B : List Text} {ρ ρ' : Env} (he : EnvRel f B ρ ρ') (hc : CleanB B e) {st st' : St} (rs : StRel f st st') :
    ResRelR f (VRel f) ((guardN n).eval e ρ st) ((sguardN k n).eval e ρ' st') :=
  extra_cell_invariance_conv_guard hf hfk n e he hc rs

/-- what `ResRelR` says when the larger run is definite: the smaller is definite and forward-related -/
theorem converse_gives_forward {f : LMap} {res res' : Res Val} (h : ResRelR f (VRel f) res res') (hd : res' ≠ .timeout) :
    res ≠ .timeout ∧ ResRel f (VRel f) res res' := ⟨h.definite hd, h.to_fwd hd⟩

/-- when the guards do not fire: data of rank (depth) below the helper fuel, `rk` decreasing along the
    edges of the store (acyclic) -/
theorem guards_quiet_on_ranked_data {σ : Array Cell} {rk : Loc → Nat} (h : Ranked σ rk) (F : Nat) (f : Val) (args : List Val)
    (ha : ∀ a ∈ args, valRank rk a < F) : helperCutAt F f args σ = false := helperCutAt_of_ranked h F f args ha

/-- … in particular never (slack 0) in a store whose cells only point to older cells -/
theorem guards_quiet_on_allocation_ordered_store {σ : Array Cell} (h : OlderOnly σ) (f : Val) (args : List Val)
    (ha : ∀ a ∈ args, valRank (fun l => l) a ≤ σ.size) : helperCut f args σ = false := helperCut_of_olderOnly h f args ha

/-- the prelude's transformer for `name` rewrites `use` to `exp`, and whenever `exp` is definite (slack `k`)
    the native `use` is definite with the same fuel and the related outcome -/
def ExpandsAndAgreesConversely (name : Text) (k : Nat) (use : Datum) (ρ : Env) (st : St) : Prop :=
  ∃ exp, expand name use = some exp ∧ AgreesConv k use exp ρ st

theorem t01_2_or_converse (ρ : Env) (e e2 : Datum) (es : List Datum) (st : St) (hst : WFSt st) (hρ : EnvOK st.store.size ρ)
    (hfree : ∀ d ∈ e2 :: es, mentions k_var1 d = false) :
    ExpandsAndAgreesConversely k_or_ 1 (orUse (e :: e2 :: es)) ρ st :=
  ⟨_, expand_or _, or_agrees_conv ρ e e2 es st hst hρ hfree⟩

theorem t01_2_cond_test_converse (ρ : Env) (t c : Datum) (cs : List Datum) (ht : t ≠ s k_else_) (st : St) (hst : WFSt st)
    (hρ : EnvOK st.store.size ρ) (hfree : ∀ d ∈ c :: cs, mentions k_temp d = false) :
    ExpandsAndAgreesConversely k_cond 1 (condUse (L [t] :: c :: cs)) ρ st :=
  ⟨_, expand_cond_test t (c :: cs), cond_test_agrees_conv ρ t c cs ht st hst hρ hfree⟩

theorem t01_2_cond_arrow_converse (ρ : Env) (t f : Datum) (cs : List Datum) (ht : t ≠ s k_else_)
    (hf : ∀ x, f = .sym x → kwOf x = none) (st : St) (hst : WFSt st) (hρ : EnvOK st.store.size ρ)
    (hfree : ∀ d ∈ f :: cs, mentions k_temp d = false) :
    ExpandsAndAgreesConversely k_cond 1 (condUse (L [t, s k_arrow, f] :: cs)) ρ st :=
  ⟨_, expand_cond_arrow t f cs ht, cond_arrow_agrees_conv ρ t f cs ht hf st hst hρ hfree⟩

theorem t01_2_case_key_converse (ρ : Env) (ks : List Datum) (c : Datum) (cs : List Datum) (st : St) (hst : WFSt st)
    (hρ : EnvOK st.store.size ρ) (hfree : ∀ d ∈ c :: cs, mentions k_atomKey d = false) :
    ExpandsAndAgreesConversely k_case_ 1 (caseUse (L ks) (c :: cs)) ρ st :=
  ⟨_, expand_case_key ks (c :: cs), case_key_agrees_conv ρ ks c cs st hst hρ hfree⟩

/-- slack = number of data of the clause (the quoted list the expansion allocates); NB the expansion's own
    `memv` walks that list, so the slack-guarded run is definite only from stores with at least that many
    cells (vacuous from the initial state: see the example in `Lemmas/EvalConverseDerivedCase.lean`) -/
theorem t01_2_case_body_converse (ρ : Env) (k : Datum) (atoms : List Datum) (r1 : Datum) (rs cs : List Datum)
    (hr : ¬ (r1 = s k_arrow ∧ rs.length = 1)) (hat : ∀ d ∈ atoms, simpleAtom d = true) (hkey : atomKey k = true)
    (st : St) (hst : WFSt st) (hρ : EnvOK st.store.size ρ) (hρm : ρ.lookup k_memv = none)
    (hg : st.globals.lookup k_memv = some (.prim .memv)) :
    ExpandsAndAgreesConversely k_case_ atoms.length (caseUse k (L (L atoms :: r1 :: rs) :: cs)) ρ st :=
  ⟨_, expand_case_body k atoms r1 rs cs (atomKey_not_list hkey) hr,
    case_body_agrees_conv ρ k atoms r1 rs cs hr hat hkey st hst hρ hρm hg⟩

theorem t01_2_case_arrow_converse (ρ : Env) (k : Datum) (atoms : List Datum) (f : Datum) (cs : List Datum)
    (hf : ∀ x, f = .sym x → kwOf x = none) (hat : ∀ d ∈ atoms, simpleAtom d = true) (hkey : atomKey k = true)
    (st : St) (hst : WFSt st) (hρ : EnvOK st.store.size ρ) (hρm : ρ.lookup k_memv = none)
    (hg : st.globals.lookup k_memv = some (.prim .memv)) :
    ExpandsAndAgreesConversely k_case_ atoms.length (caseUse k (L [L atoms, s k_arrow, f] :: cs)) ρ st :=
  ⟨_, expand_case_arrow k atoms f cs (atomKey_not_list hkey),
    case_arrow_agrees_conv ρ k atoms f cs hf hat hkey st hst hρ hρm hg⟩

/-- the converse delivers definiteness of the native form -/
theorem converse_native_definite {k : Nat} {use exp : Datum} {ρ : Env} {st : St} (h : AgreesConv k use exp ρ st)
    (m : Nat) (hd : (sguardN k m).eval exp ρ st ≠ .timeout) : (evalN m).eval use ρ st ≠ .timeout :=
  h.native_definite m hd

/-- non-vacuity: the slack-guarded runs of the expansions of `(or #f (car '(7)))` and `(cond (#f) (else 1))`
    from the initial state are definite -/
example : (sguardN 1 5).eval (orExp [.bool false, L [s ['c','a','r'], L [s k_quote, L [.num (.fix 7)]]]]) [] initSt ≠ .timeout ∧
    (sguardN 1 5).eval (condTestExp (.bool false) [L [s k_else_, .num (.fix 1)]]) [] initSt ≠ .timeout :=
  ⟨definiteB_ne (by decide +kernel), definiteB_ne (by decide +kernel)⟩


/-! ## T01.2 second half for `delay` / `force` (a change of REPRESENTATION)

`Spec.Eval` has native promises (one cell `Cell.promise done value-or-thunk`, a primitive `force`); the
prelude has none: `(delay e)` expands (rule of `delay`, then rule of `delay-force`) to
`(make-promise #f (lambda () (make-promise #t e)))` and `make-promise`, `force`, `promise-done?`,
`promise-value`, `promise-update!` are library procedures representing a promise as the list
`((done? . value-or-thunk))`. So the two sides run DIFFERENT code after the expansion and no location
map relates a promise cell to one cell. What is proved (`Lemmas/EvalPromise*.lean`):

* `prelude_promise_library`: evaluating the five regenerated definitions binds exactly the closures the
  proofs are about (a change to `prelude.scm` breaks this);
* `PromRep`: the representation relation (native cell ↔ root pair + box pair, same done flag, payloads:
  values related, thunks `(lambda () e)` ↔ `(lambda () (make-promise #t e))` in the same environment);
* `t01_2_delay_unforced`: `(delay e)` on both sides builds representations of one unforced promise, no effect;
* `t01_2_delay`: `(force (delay e))` — native (guarded with slack 1) definite ⇒ the expansion, run with the
  prelude's library, has the same kind of outcome, error class, output log, a value that is the image of
  the same value (`SpanAgree`: both runs are images, under injective location maps, of the evaluation of
  `e` at the use), and BOTH promises end up forced holding it (memoised);
* `t01_2_force_again`: forcing a forced promise returns the payload on both sides without output and
  without running user code (so: forced several times = evaluated once);
* kernel-checked programs (`Lemmas/EvalPromiseExamples.lean`): forced twice prints once, never forced
  prints nothing, the R7RS re-entrancy example answers 6 and 6, a `delay-force` chain.

RESTRICTION (the fragment): the delayed expression `e` and every value of the state do not mention the
symbol `force` (`mentions k_force e = false`, `Inv k_force st`: promises are manipulated through the one
outer `force` only — the native and the prelude's `force` are different global values, and the frame
property T01.1 removes the difference), `e` is not a definition, `force` / `make-promise` are not
lexically shadowed at the use (the hygiene finding), and evaluating `e` leaves the library's global
bindings alone (`hkeep`; a program that redefines `car` breaks the prelude's `force` but not a native
one). For `delay-force` `Spec.Eval` has no native meaning: first half (`t01_2_first_half_rest`) plus the
chain example against the R7RS reading `(delay (force e))`. -/

/-- the regenerated library definitions evaluate to the closures of `Lemmas/EvalPromise.lean` -/
theorem prelude_promise_library (n : Nat) (st : St) :
    evalTop (evalN (n+2)) Gen.PreludeProcs.proc14 st = .ok .void { st with globals := insertG k_makePromise cMakePromise st.globals } ∧
    evalTop (evalN (n+2)) Gen.PreludeProcs.proc15 st = .ok .void { st with globals := insertG k_force cForce st.globals } ∧
    evalTop (evalN (n+2)) Gen.PreludeProcs.proc16 st = .ok .void { st with globals := insertG k_promiseDone cDone st.globals } ∧
    evalTop (evalN (n+2)) Gen.PreludeProcs.proc17 st = .ok .void { st with globals := insertG k_promiseValue cValue st.globals } ∧
    evalTop (evalN (n+2)) Gen.PreludeProcs.proc18 st = .ok .void { st with globals := insertG k_promiseUpdate cUpdate st.globals } :=
  ⟨load_makePromise n st, load_force n st, load_done n st, load_value n st, load_update n st⟩

/-- first half for `delay`: two macro steps with the regenerated rules give `delayFull e` -/
theorem t01_2_delay_expands (e : Datum) :
    ∃ mid, expand k_delay (delayUse e) = some mid ∧ expand k_delayForce mid = some (delayFull e) := expand_delay_full e

/-- **zero forces**: `(delay e)` natively and expanded build an unforced promise / its representation,
    evaluate nothing, print nothing -/
theorem t01_2_delay_unforced (k : Nat) (e : Datum) (ρ : Env) (st : St) (hlib : LibOK st.globals)
    (hρ2 : ρ.lookup k_makePromise = none) :
    ∃ sN sX, (evalN (k+1)).eval (delayUse e) ρ st = .ok (.promise st.store.size) sN ∧
      (evalN (k+5)).eval (delayFull e) ρ (withForce st) = .ok (.pair (st.store.size + 3)) sX ∧
      sN.out = st.out ∧ sX.out = st.out ∧
      PromRep (fun _ _ => False) sN.store sX.store st.store.size (st.store.size + 3) := by
  refine ⟨{ st with store := st.store.push (.promise false (thunkN e ρ)) }, _, ?_,
    delayX_eval k e ρ (withForce st) (libSt_withForce hlib) hρ2, rfl, rfl, ?_⟩
  · simp only [delayUse, L, s, Datum.ofList, evalN_succ_eval, evalStep, kwOf_delay, evalKw, properList]
    rfl
  · refine ⟨false, thunkN e ρ, thunkX e ρ, by simp, ⟨st.store.size + 2, ?_, ?_⟩, .thunk e ρ⟩
    · show (pushAll (withForce st).store _)[st.store.size + 3]? = _
      simp only [pushAll, List.foldl, withForce]
      exact get_push_eq _ (by simp [Array.size_push])
    · show (pushAll (withForce st).store _)[st.store.size + 2]? = _
      simp only [pushAll, List.foldl, withForce]
      rw [get_push_lt _ (by simp [Array.size_push])]
      exact get_push_eq _ (by simp [Array.size_push])

/-- **forced once**: see the section comment. `st.store.size` is the native promise cell, `st.store.size + 3`
    the root of the prelude's structure. -/
theorem t01_2_delay (e : Datum) (ρ : Env) (st : St) (hst : WFSt st) (hρ : EnvOK st.store.size ρ)
    (hdef : isDefine e = false) (hρ1 : ρ.lookup k_force = none) (hρ2 : ρ.lookup k_makePromise = none)
    (hg : st.globals.lookup k_force = some (.prim .force)) (hlib : LibOK st.globals)
    (hce : mentions k_force e = false) (hinv : Inv k_force st)
    (hkeep : ∀ m v s2, (evalN m).eval e ρ (preX e ρ (withForce st)) = .ok v s2 → LibSt s2) :
    (∃ mid, expand k_delay (delayUse e) = some mid ∧ expand k_delayForce mid = some (delayFull e)) ∧
    ∀ m, (sguardN 1 (m+3)).eval (forceUse (delayUse e)) ρ st ≠ .timeout →
      (evalN (m+3)).eval (forceUse (delayUse e)) ρ st = (sguardN 1 (m+3)).eval (forceUse (delayUse e)) ρ st ∧
      SpanAgree ((evalN (m+3)).eval (forceUse (delayUse e)) ρ st)
        ((evalN (m+3+9)).eval (forceUse (delayFull e)) ρ (withForce st)) st.store.size (st.store.size + 3) :=
  ⟨expand_delay_full e, fun m hd => force_delay_agrees e ρ st hst hρ hdef hρ1 hρ2 hg hlib hce hinv hkeep m hd⟩

/-- what `SpanAgree` says about the observable parts -/
theorem promise_agrees_observables {resN resX : Res Val} {l0 p0 : Loc} (h : SpanAgree resN resX l0 p0) :
    (∃ vN sN vX sX, resN = .ok vN sN ∧ resX = .ok vX sX ∧ sX.out = sN.out ∧
        (∃ vI f1 f2, VRel f1 vI vN ∧ VRel f2 vI vX) ∧
        sN.store[l0]? = some (.promise true vN) ∧ PromStruct sX.store p0 true vX) ∨
    (∃ c sN sX, resN = .err c sN ∧ resX = .err c sX ∧ sX.out = sN.out) := h.observe

/-- **forced again** (hence: several times): on a forced promise the native `force` and the prelude's return
    the payloads, print nothing, run no user code; the old cells of both stores stay as they are -/
theorem t01_2_force_again (k : Nat) (l p : Loc) (v w : Val) (sN sX : St) (hl : LibSt sX)
    (hN : sN.store[l]? = some (.promise true v)) (hX : PromStruct sX.store p true w) :
    (evalN (k+1)).apply (.prim .force) [.promise l] sN = .ok v sN ∧
    ∃ s3, (evalN (k+7)).apply cForce [.pair p] sX = .ok w s3 ∧ s3.out = sX.out ∧ s3.globals = sX.globals ∧
      (∀ l', l' < sX.store.size → s3.store[l']? = sX.store[l']?) := by
  refine ⟨?_, ?_⟩
  · show applyStep (evalN k) (.prim .force) [.promise l] sN = _
    simp only [applyStep]
    show M.bind' (readCell l) _ sN = _
    simp [M.bind', readCell, hN, Pure.pure, M.pure']
  · obtain ⟨s3, h1, h2, h3, _, h5⟩ := forceX_done k p w sX hl hX
    exact ⟨s3, h1, h2, h3, h5⟩

/-- non-vacuity of `t01_2_delay`: in the initial state with the prelude's four internal promise procedures
    loaded (`libSt0`; `force` still the primitive) and for `e = (begin (display 'x) 1)` every hypothesis
    holds and the native slack-guarded run with fuel 6 is definite (`Lemmas/EvalPromiseDemo.lean`: `wf_libSt0`,
    `libOK_libSt0`, `inv_libSt0`, `keep_libSt0`); hence: -/
theorem t01_2_delay_demo :
    SpanAgree ((evalN 6).eval (forceUse (delayUse eDisplayOne)) [] libSt0)
      ((evalN 15).eval (forceUse (delayFull eDisplayOne)) [] (withForce libSt0)) 0 3 := force_delay_demo

/-- kernel-checked programs, native vs. expansion with the regenerated library: forced twice prints once;
    never forced prints nothing; R7RS re-entrancy: 6 and 6 on both sides (as on the real VM); a
    `delay-force` chain -/
theorem promise_programs_agree :
    (results 12 [memoProg delayUse] = [.ok (.num (.fix 2))] ∧ output 12 [memoProg delayUse] = [(false, .sym ['x'])]) ∧
    ((results 20 (promLibDefs ++ [memoProg delayFull])).getLast? = some (.ok (.num (.fix 2))) ∧
      output 20 (promLibDefs ++ [memoProg delayFull]) = [(false, .sym ['x'])]) ∧
    (output 12 [zeroProg delayUse] = [] ∧ output 20 (promLibDefs ++ [zeroProg delayFull]) = []) ∧
    ((results 60 (reentrantProg delayUse)).drop 3 = [.ok (.num (.fix 6)), .ok (.num (.fix 6))] ∧
      (results 80 (promLibDefs ++ reentrantProg delayFull)).drop 8 = [.ok (.num (.fix 6)), .ok (.num (.fix 6))]) ∧
    (results 12 [chainNative] = [.ok (.num (.fix 3))] ∧
      (results 30 (promLibDefs ++ [chainExp])).getLast? = some (.ok (.num (.fix 3)))) := by
  refine ⟨memo_native, ⟨?_, memo_expansion.2⟩, ⟨unforced_native.2, unforced_expansion.2⟩, ⟨?_, ?_⟩, ⟨delayForce_chain.1, ?_⟩⟩
  · rw [memo_expansion.1]; rfl
  · rw [reentrant_native]; rfl
  · rw [reentrant_expansion]; rfl
  · rw [delayForce_chain.2]; rfl


/-! ## T01.3 stage 1 (partial): compiler correctness for the closure-free fragment, success case

`Lemmas/CompileCorrect*.lean`. Machine: `Marwood.Vm.step` (Vm/Machine.lean) over any heap operations
record `ops : HeapOps H`; representation `D : RepData ops` (which names have a global slot, which
slot, `VR` machine value ~ `Spec.Eval.Val`, heap invariant); the ASSUMED laws are the fields of
`RepLaws D` (CompileCorrectDefs.lean): global slots form a store (`slot_inj`, `glob_get_put`), writing
a global changes neither code nor representations nor the invariant (`globPut_*`), `#f` is represented
only by what `JNT` takes for false (`truth`), a representation is never the unbound marker
(`ne_undefined`), `Void` represents the unspecified value (`void`), and `call`: whenever the
specification's `apply` returns on represented callee and arguments, the callee is a generic builtin
whose evaluation returns a representation of the same value in a heap representing the new state.
The laws are satisfiable: `Lemmas/CompileCorrectConcrete.lean` proves the heap-proper ones for the
concrete heap model, `Lemmas/CompileCorrectDemo.lean` discharges every hypothesis for `(not #t)`.
Fragment `Frag`: constants, `(quote atom)`, global reference, `set!` of a global, `if` (both arities),
application with a non-keyword head; `(define x e)` separately. Only `Spec.Eval` SUCCESS is covered. -/

open Marwood.Lemmas.CompileCorrect in
/-- **T01.3 stage 1, partial.** If the compiler model emits `code` for a fragment expression `e` at
    offset `base` (top-level context, either tail flag) and `Spec.Eval` evaluates `e` to `w` taking `σ`
    to `σ'`, then from every machine state whose current lambda holds `code` at `base = ip.1` (anything
    around it) and whose heap represents `σ`, the machine runs, without halting or failing, to a state
    with the same lambda, `bp`, `ep`, `ip.1 = base + code.length`, the same live stack, a representation
    of `w` in `acc`, and a heap that represents `σ'`. -/
theorem compile_correct_stage1_partial {H : Type} {ops : HeapOps H} {D : RepData ops} (L : RepLaws D)
    (fuel : Nat) (cst : CState) (base : Nat) (tail : Bool) (e : Datum) (cst' : CState) (code : List BC)
    (hf : Frag e) (hcomp : compileExpr fuel cst c0 base tail e = .ok (cst', code))
    (n : Nat) (σ : Spec.Eval.St) (w : Val) (σ' : Spec.Eval.St) (hev : (evalN n).eval e [] σ = .ok w σ')
    (s : Vm.St H) (hc : CodeAt D s.heap σ.store s.ipL base code) (hip : s.ipO = base)
    (hsr : SR D s.heap σ) (hw : SWF s.stack) :
    ∃ s', ExprRun D s code.length σ σ' w s' :=
  compileExpr_correct L fuel cst base tail e cst' code hf hcomp n σ w σ' hev s hc hip hsr hw


/-! ## T01.3 stage 1, ERROR case (partial)

`Lemmas/CompileCorrect2Err*.lean`. Additional ASSUMED law `ErrLaws D`: when the specification's `apply` fails
(class other than `syntax`) on a represented callee and represented arguments, the machine's dispatch sees
either no procedure (`InvalidProcedure`; specification class `notProcedure`) or a generic builtin whose
evaluation returns an error of the same class (classes at the granularity unbound / not-procedure / user /
wrong, `machClass` / `specClass`), and the unchanged heap represents the specification's failure state.
EXCLUDED, explicitly: specification errors of class `syntax` (inexact / rational constants are outside the
specification's grammar; the machine loads them) and `set!` of an unbound global (the specification fails,
marwood defines the variable — DESIGN §7.5), the latter through the hypothesis that every `set!` target is
bound in the failure state. The laws are derived from elementary ones for the store-free representation
(`atomErrLaws_errLaws`), the dispatch part proved on the concrete heap model (`concrete_atomErrLaws`), and
every hypothesis is discharged for `(if (set! g #t) (g) 1)` (`demo_err_runs`: the machine stores `#t` in `g`,
then fails in `CALL` with `InvalidProcedure`; the heap at the failure has `g = #t`). -/

open Marwood.Lemmas.CompileCorrect in
/-- **T01.3 stage 1, error case, partial.** If `Spec.Eval` ends the evaluation of a fragment expression `e`
    from `σ` with error class `c ≠ syntax` in state `σ'`, and every `set!` target of `e` is bound in `σ'`, then
    from every machine state holding the compiled code at `ip.1` whose heap represents `σ` the machine runs
    without failing to a state `sf` in which `run_one` returns an error `e'` of the class of `c`; `sf` has the
    lambda, `bp`, `ep` of the start, the start's live stack below whatever operands were pushed, and a heap
    that represents `σ'`: exactly the completed effects. -/
theorem compile_correct_stage1_error_partial {H : Type} {ops : HeapOps H} {D : RepData ops} (L : RepLaws D)
    (LE : ErrLaws D) (fuel : Nat) (cst : CState) (base : Nat) (tail : Bool) (e : Datum) (cst' : CState)
    (code : List BC) (hf : Frag e) (hcomp : compileExpr fuel cst c0 base tail e = .ok (cst', code))
    (n : Nat) (σ : Spec.Eval.St) (c : ErrClass) (σ' : Spec.Eval.St)
    (hev : (evalN n).eval e [] σ = .err c σ') (hcs : c ≠ .syntax)
    (hset : ∀ x ∈ setTargets e, σ'.globals.lookup x ≠ none)
    (s : Vm.St H) (hc : CodeAt D s.heap σ.store s.ipL base code) (hip : s.ipO = base)
    (hsr : SR D s.heap σ) (hw : SWF s.stack) :
    ∃ sf e', ErrRun D s σ σ' c sf e' :=
  compileExpr_correct_err L LE fuel cst base tail e cst' code hf hcomp n σ c σ' hev hcs hset s hc hip hsr hw

open Marwood.Lemmas.CompileCorrect in
/-- the excluded case is a real difference: `(set! x e)` with `x` unbound fails in the specification -/
theorem set_unbound_spec_fails {r : Rec} {x : Text} {e : Datum} {σ σ1 : St} {v : Val}
    (hx : reserved x = false) (he : r.eval e [] σ = .ok v σ1) (hl : σ1.globals.lookup x = none) :
    evalStep r (.pair (.sym k_setBang) (.pair (.sym x) (.pair e .nil))) [] σ = .err .unbound σ1 :=
  setBang_unbound_spec_fails hx he hl


/-! ## T01.3: `quote` of compound data (partial)

`Lemmas/CompileCorrect2Quote.lean`, over the generic heap with a minimal extension of the laws (`QuoteLaws`:
a heap pair / vector whose components represent `a`, `d` / the elements represents the store pair / vector;
representations are monotone in the store). `DatumAt` describes what `put_cell` lays out at compile time.
One heap object represents every copy `Spec.Eval.quoteVal` allocates — sound while constants are not
mutated (R7RS: an error; `Spec.Eval` and marwood differ there, see `quoted_constant_mutation_spec`). The laws
hold for the closure of any store-independent base relation (`closedVR_quoteLaws`); every hypothesis is
discharged on the CONCRETE heap model for `'(1 . 2)` (`demo_quote_pair`). Stage 2 below has `(quote d)` for
every datum and self-evaluating vector constants in its fragment, through these lemmas. -/

open Marwood.Lemmas.CompileCorrect in
/-- **`(quote d)` for any datum `d`**: `MOV-IMMEDIATE <v> %acc` with the datum laid out at `v` leaves a
    representation of the value `quoteVal d` returns, the heap represents the state `quoteVal` leaves. -/
theorem quote_compound_partial {H : Type} {ops : HeapOps H} {D : RepData ops}
    {vecElems : H → VCell → Option (List VCell)} (Q : QuoteLaws D vecElems) {s : Vm.St H} {σ σ' : Spec.Eval.St}
    {w : Val} {d : Datum} {v : VCell} (hl : ops.isLambda s.heap s.ipL = true)
    (h0 : ops.fetch s.heap s.ipL s.ipO = some (.opcode .movImm))
    (h1 : ops.fetch s.heap s.ipL (s.ipO + 1) = some v) (hv : ∀ o, v ≠ .opcode o)
    (h2 : ops.fetch s.heap s.ipL (s.ipO + 2) = some .acc)
    (hd : DatumAt D vecElems s.heap σ.store v d) (hq : quoteVal d σ = .ok w σ') (hsr : SR D s.heap σ) (hw : SWF s.stack) :
    ∃ s', ExprRun D s 3 σ σ' w s' :=
  run_quote Q hl h0 h1 hv h2 hd hq hsr hw


/-! ## T01.3 STAGE 2 (partial): `lambda`, closures, lexical variables, calls and tail calls

`Lemmas/CompileCorrect2*.lean`. Representation `D : RepData2 ops` = stage-1 data + the environment-map sources
of each lambda object + the table tying the compiler's lambda indices to heap addresses. Values (`VR2`):
a closure value is a machine value `CALL` dispatches to `Closure(lam, env)` where `lam` holds the compiled
body of the same `lambda` expression (same compiler model run) and every captured slot of `env` is a
one-level `LexicalEnvPtr` to the location standing for the captured variable; `World` relates machine
variable locations (environment id, slot) and specification locations one-to-one; `Inv2` is the heap/state
invariant (globals, loaded code, every related location holds a value — not a pointer — representing the
variable's content); `EnvRep` says the current `ep` represents the specification's `ρ` through the binding
context. ASSUMED: `Laws2 D` — observation of values (`truth`, …), the pair / vector closure rules of the
representation (`vr_pair`, `vr_vec`) and "nothing mutates a compile-time constant" (`Ext2.datum`, a field of what
every heap operation and builtin must preserve), the global store, `envPut` on a value slot,
CLOSURE (`closure_ok`: a fresh environment whose captured slots are what `build_closure_environment`
computes, a fresh closure cell, everything else unchanged), ENTER (`activation_ok`: a fresh environment
with the arguments from the stack and the captured pointers copied), and the behaviour of primitive
procedures (`call`). On the CONCRETE heap model (`Vm/ConcreteHeap.lean`: free list, chunk growth, CLOSURE and
ENTER as in run.rs) every law except `call` is a THEOREM (`laws2_concrete` below; invariant: `CInv`, free cells
are `Undefined`, the named global slots exist), and every hypothesis of the main theorem is discharged there
for `((lambda (x) (if x 1 2)) #t)` (`demo_concrete_closure_runs`). All laws including `call` (vacuously: no
primitive) are proved for the small heap of `Lemmas/CompileCorrect2Toy.lean` (`Toy.laws`), and every hypothesis is discharged for `((lambda (x) (if x 1 2)) #t)` (`demo_closure_runs`), for the tail
call `((lambda (f) (f #t)) (lambda (x) (if x 1 2)))` (`demo_tailcall_runs`) and for a captured variable,
`((lambda (x) ((lambda (y) x) 2)) 1)` (`demo_capture_runs`).

Fragment `F2 fuel c ns tail e` (indexed by compiler fuel, binding context, bound names, tail flag):
constants (vector constants included), `(quote d)` for every datum `d`, variable reference and `set!` (lexical
at any depth, or a global of `D.setG`), `if`, application
(tail and non-tail; callee a primitive or a closure), `(lambda (x …) b …)` with fixed arity, DISTINCT
parameters, no internal definitions. The fragment carries well-scopedness as data about the compiler model:
for each `lambda` the environment map `lambdaParts` computes is the formals followed by captured variables
taken from the enclosing map, and at each variable the map has an entry exactly when the name is lexically
bound (i.e. the free-variable analysis was adequate for this program — checked by computation for a given
program; proved in general for the scope-skeleton model in C02). EXCLUDED: rest parameters (VARARG), internal
definitions, duplicate parameters, derived forms (macros: T01.2), quasiquote, `define` inside bodies,
call/cc, `eval`/`apply`/`map` (re-dispatching builtins), the error case, GC. -/

open Marwood.Lemmas.CompileCorrect Marwood.Lemmas.CompileCorrect2 in
/-- **T01.3 stage 2, partial.** If the compiler model emits `code` for `e ∈ F2` at offset `base` in context
    `c` and `Spec.Eval` evaluates `e` in `ρ` from `σ` to `w`, `σ'`, then from every machine state whose
    current lambda holds `code` at `base = ip.1`, whose heap represents `σ` (`Inv2` in world `W`), whose `ep`
    represents `ρ` (`EnvRep`) — and, for code compiled with the tail flag, whose `bp` points at a frame `fr` —
    the machine runs without halting or failing to a state that represents `(w, σ')` in a world `W' ⊇ W`:
    either behind the code with lambda, `bp`, `ep`, live stack restored (`Run2`), or, after a tail call of a
    closure, in the caller of the current activation exactly as its `RET` would have left it (`Ret2`). -/
theorem compile_correct_stage2_partial {H : Type} {ops : HeapOps H} {D : RepData2 ops} (L : Laws2 D)
    (f : Nat) (cst : CState) (c : Ctx) (base : Nat) (tail : Bool) (e : Datum) (cst' : CState) (code : List BC)
    (ρ : Env) (hf : F2 D.setG f c (bound ρ) tail e) (hcx : CtxOK c)
    (hcomp : compileExpr f cst c base tail e = .ok (cst', code)) (hpre : cst'.lambdas <+: D.final)
    (n : Nat) (σ : Spec.Eval.St) (w : Val) (σ' : Spec.Eval.St) (hev : (evalN n).eval e ρ σ = .ok w σ')
    (W : World) (s : Vm.St H) (fr : Frame) (hc : CodeAt2 D c.envmap s.heap σ.store s.ipL base code)
    (hip : s.ipO = base) (hi : Inv2 D W s.heap σ) (her : EnvRep ops W s.heap c s.ep ρ) (hw : SWF s.stack)
    (hfr : tail = true → FrameAt s.stack s.bp fr) :
    ∃ W' s', W.le W' ∧ Out2 D W' s code.length σ σ' w tail fr s' :=
  compileExpr_correct2 L f cst c base tail e cst' code ρ hf hcx hcomp hpre n σ w σ' hev W s fr hc hip hi her hw hfr

open Marwood.Lemmas.CompileCorrect Marwood.Lemmas.CompileCorrect2 Marwood.Lemmas.CompileCorrect2.Conc
  Marwood.Vm.Concrete in
/-- **`Laws2` on the concrete heap model.** For `concreteOps ext` (the collector's heap model with the real
    allocator: free list head first, growth by chunks; `build_closure_environment` / `build_lexical_environment`
    as in run.rs) with the representation `cD` (stage-1 `atomVR` closed under heap pairs; environment-map
    sources read off the lambda cell; invariant `CInv ∧ FreeInv ∧` named slots exist) every law of stage 2 is
    proved except the behaviour of the builtin procedures, which is the hypothesis `hcall` — the builtins are
    parameters of the concrete machine too. In particular an allocation never disturbs a represented object
    although addresses are reused. -/
theorem laws2_concrete {ext : ExtOps} {E : AtomEnc} {named : Text → Prop} {slot : Text → Nat} {LM : Nat → Nat}
    {final : List LambdaM} {setG : Text → Prop}
    (hinj : ∀ a b, named a → named b → slot a = slot b → a = b)
    (hcall : ∀ n W h (σ : Spec.Eval.St) vf p vs ws w (σ' : Spec.Eval.St),
      Inv2 (cD ext E named slot LM final setG) W h σ →
      (cD ext E named slot LM final setG).VR h σ.store vf (.prim p) →
      All2 (VR2 (cD ext E named slot LM final setG) W h σ.store) vs ws → (evalN n).apply (.prim p) ws σ = .ok w σ' →
      ∃ id h' r, (concreteOps ext).callee h vf = .builtin id ∧ (concreteOps ext).builtinKind h id = .generic ∧
        builtinResult (concreteOps ext) h id vs.reverse = .ok (h', r) ∧
        VR2 (cD ext E named slot LM final setG) W h' σ'.store r w ∧ Inv2 (cD ext E named slot LM final setG) W h' σ' ∧
        Ext2 (cD ext E named slot LM final setG) h σ.store h' σ'.store) :
    Laws2 (cD ext E named slot LM final setG) :=
  concrete_laws2 hinj hcall

open Marwood.Lemmas.CompileCorrect Marwood.Lemmas.CompileCorrect2 in
/-- **The call of a closure.** From the state `CALL`/`TCALL` leaves (operands, their number, `%ep`, the return
    address on the stack; `ip` at the closure's lambda) the machine runs ENTER, the body, RET and ends in the
    caller with the operands popped, `%ep` and `%bp` restored and a representation of the result in `acc`. -/
theorem closure_call_stage2_partial {H : Type} {ops : HeapOps H} {D : RepData2 ops} (L : Laws2 D) (n : Nat) :
    CallOK2 D n := closureCall_correct2 L n

open Marwood.Lemmas.CompileCorrect Marwood.Lemmas.CompileCorrect2 in
/-- at top level (non-tail): the statement of stage 1, now with closures -/
theorem compile_correct_stage2_toplevel {H : Type} {ops : HeapOps H} {D : RepData2 ops} (L : Laws2 D)
    (f : Nat) (cst : CState) (base : Nat) (e : Datum) (cst' : CState) (code : List BC)
    (hf : F2 D.setG f c0 (bound []) false e)
    (hcomp : compileExpr f cst c0 base false e = .ok (cst', code)) (hpre : cst'.lambdas <+: D.final)
    (n : Nat) (σ : Spec.Eval.St) (w : Val) (σ' : Spec.Eval.St) (hev : (evalN n).eval e [] σ = .ok w σ')
    (W : World) (s : Vm.St H) (hc : CodeAt2 D c0.envmap s.heap σ.store s.ipL base code)
    (hip : s.ipO = base) (hi : Inv2 D W s.heap σ) (hw : SWF s.stack) :
    ∃ W' s', W.le W' ∧ Run2 D W' s code.length σ σ' w s' :=
  compileExpr_correct2_nontail L f cst c0 base e cst' code [] hf ctxOK_top hcomp hpre n σ w σ' hev W s hc hip hi
    (envRep_top _ _ _) hw

open Marwood.Lemmas.CompileCorrect Marwood.Lemmas.CompileCorrect2 in
/-- **T01.3 stage 2, ERROR case, partial.** If `Spec.Eval` ends the evaluation of `e ∈ F2` in `ρ` from `σ` with
    an error of class `cl ≠ syntax` in state `σ'` — an unbound variable, a non-procedure in operator position,
    a closure called with the wrong number of arguments, a failing primitive — at any depth of closure calls
    and tail calls, then the machine runs without failing to a state `sf` in which `run_one` returns an error
    of the class of `cl` (`VariableNotBound`, `InvalidProcedure`, `InvalidNumArgs`, the builtin's); the heap of
    `sf` represents `σ'` (exactly the completed effects), and the live stack of the start state — in tail
    position: of the caller of the current activation — is intact below the frames of the calls in progress
    (nothing is unwound). Additional ASSUMED law `ErrLaws2` (a failing primitive is a generic builtin failing
    with the same class; a stage-1 value that is not a primitive is no procedure for the dispatch), proved on
    the heap of `CompileCorrect2Toy.lean` (`Toy.errLaws`); every hypothesis discharged for
    `((lambda (x) (x)) #t)` (`Toy.demo_closure_fails`: `TCALL` fails with `InvalidProcedure` inside the activation).
    `set!` of an unbound global cannot occur: `F2` restricts `set!` of globals to the names `D.setG`, which
    `Inv2` keeps bound. -/
theorem compile_correct_stage2_error_partial {H : Type} {ops : HeapOps H} {D : RepData2 ops} (L : Laws2 D)
    (LE : ErrLaws2 D) (f : Nat) (cst : CState) (c : Ctx) (base : Nat) (tail : Bool) (e : Datum) (cst' : CState)
    (code : List BC) (ρ : Env) (hf : F2 D.setG f c (bound ρ) tail e) (hcx : CtxOK c)
    (hcomp : compileExpr f cst c base tail e = .ok (cst', code)) (hpre : cst'.lambdas <+: D.final)
    (n : Nat) (σ : Spec.Eval.St) (cl : ErrClass) (σ' : Spec.Eval.St) (hev : (evalN n).eval e ρ σ = .err cl σ')
    (hcs : cl ≠ .syntax) (W : World) (s : Vm.St H) (fr : Frame)
    (hc : CodeAt2 D c.envmap s.heap σ.store s.ipL base code) (hip : s.ipO = base) (hi : Inv2 D W s.heap σ)
    (her : EnvRep ops W s.heap c s.ep ρ) (hw : SWF s.stack) (hfr : tail = true → FrameAt s.stack s.bp fr) :
    ∃ W' sf e', W.le W' ∧ ErrRun2 D W' s (errBase tail s fr) σ σ' cl sf e' :=
  compileExpr_correct2_err L LE f cst c base tail e cst' code ρ hf hcx hcomp hpre n σ cl σ' hev hcs W s fr hc hip hi
    her hw hfr

/-! ### where `Spec.Eval` and the implementation choose differently at points R7RS leaves open
(found while proving stage 2; neither is a defect: both programs are errors in R7RS) -/

open Marwood.Lemmas.CompileCorrect2 in
/-- duplicate parameters: `((lambda (x x) x) 1 2)` is 2 in `Spec.Eval` (the last binding shadows); the compiler
    model resolves `x` to the first entry of the environment map (the first argument; the real VM answers 1).
    Stage 2 requires distinct parameters. -/
theorem duplicate_parameters_differ :
    results 10 [L [L [s k_lambda, L [s ['x'], s ['x']], s ['x']], .num (.fix 1), .num (.fix 2)]]
      = [.ok (.num (.fix 2))] ∧
    slotIdx (argEntries [['x'], ['x']]) ['x'] = some 0 := by
  constructor <;> decide +kernel

/-- mutation of a quoted constant: `Spec.Eval` allocates the datum at every evaluation of the `quote`, so
    `(define (f) '(1 2)) (set-car! (f) 9) (f)` is `(1 2)`; the implementation shares the compile-time constant
    and answers `(9 2)`. -/
theorem quoted_constant_mutation_spec :
    results 12 [L [s k_define, L [s ['f']], L [s k_quote, L [.num (.fix 1), .num (.fix 2)]]],
                L [s ['s','e','t','-','c','a','r','!'], L [s ['f']], .num (.fix 9)],
                L [s ['f']]]
      = [.ok .void, .ok .void, .ok (L [.num (.fix 1), .num (.fix 2)])] := by decide +kernel

/-! ## T01.3 STAGE 3 (partial): rest parameters, internal definitions, the `apply` re-dispatch

`Lemmas/CompileCorrect3*.lean`: a second development over the same machine, compiler model, representation data
(`RepData2`), world and code layout as stage 2 — stage 2 and its theorems are untouched; `F2 ⊆ F3`
(`stage3_contains_stage2`). The induction is again on the fuel of the SPECIFICATION.

What is new in the relations. `VR3`: stage-1 values, closures of ANY formals and leading definitions (`ClosOK3`),
and heap pairs whose components are `VR3` values (the list VARARG builds may contain closures). `Inv3`: a related
variable location may still hold the machine's `Undefined` marker (an internal definition that has not been
evaluated); `EnvRep3 … us`: every name outside `us` denotes an INITIALISED slot (`InitM`). `Ext3` = `Ext2` + heap
pairs and initialised slots are kept.

Fragment `F3 G fuel c ns us tail e` = `F2` + `(lambda (x … . r) b …)`, `(lambda r b …)`, and bodies
`(define y₁ e₁) … (define yₖ eₖ) b₁ … bₘ` (m ≥ 1; all parameters and defined names distinct). `us` is the set of
bound names that may not be READ yet: in `eᵢ` and everything nested in it (lambda bodies included: a `lambda`
may only capture readable names) the names `yᵢ … yₖ` do not occur. So internal definitions are covered in their
`let*`-like use; (mutual) recursion through internal `define` is NOT (the closure would capture a name before its
definition has been evaluated — sound in most programs, but not decidable by a rule this simple: with
"initialisers that are lambda expressions may mention later names" `(define (g) z) (define y (g)) (define z 1)`
reads `z` uninitialised). Why the restriction is needed: the machine leaves the slot `Undefined` and reads it
without complaint, `Spec.Eval` reads `#<undefined>`; both print `#<undefined>`, but a global assigned that
value becomes UNBOUND in the VM (`internal_define_read_before_init_differs`; R7RS: "it is an error").

ASSUMED: `Laws3 D` = the heap laws of stage 2 (CLOSURE, ENTER, `envPut`, globals, observation of values) with
`Ext3`, plus: ENTER leaves the slots of internal definitions `Undefined`; `heap.put` (VARARG) returns a pointer
through which the same value is observed, and a fresh pair cell; stage-1 values are neither closures nor the
re-dispatching builtins `apply eval force map for-each` (so these are outside the main theorem); `call` — the
behaviour of the FIRST-ORDER builtins. All of `Laws3` is PROVED for the toy heap of
`Lemmas/CompileCorrect3Toy.lean` (`laws3_toy`; allocation by `put`, CLOSURE/ENTER as in run.rs, the only builtin is
`apply`, so `call` is vacuous), and
every hypothesis of the main theorem is discharged there for `((lambda (a . r) r) 1 2 3)`
(`demo_stage3_rest_runs`: VARARG collects `(2 3)`, ENTER, the body, RET; `acc` shows the list `(2 3)`) and for
`((lambda (x) (define y (if x 1 2)) y) #t)` (`demo_stage3_define_runs`); the hypotheses of the `apply` theorem
(`ListLaws`: `listLaws3_toy`) for the whole compiled expression `(apply (lambda (a b) b) 1 '(2))`
(`demo_stage3_apply_runs`: operands by the main theorem, the load of the global `apply`, the re-dispatch, ENTER, body,
RET; `acc` shows `2`). On the concrete heap model `Laws3` has
NOT been proved (open: the `put` laws and `Ext3.pairs/init` for the free-list allocator). -/

open Marwood.Lemmas.CompileCorrect Marwood.Lemmas.CompileCorrect2 Marwood.Lemmas.CompileCorrect3 in
/-- **T01.3 stage 3, partial.** The statement of stage 2 for the fragment `F3`: code compiled for `e ∈ F3`, a heap
    that represents `σ` (`Inv3`), an environment that represents `ρ` with every readable name initialised
    (`EnvRep3 … us`); if `Spec.Eval` evaluates `e` to `w`, `σ'`, the machine runs — `VARARG` collecting the rest
    arguments into a fresh list, `ENTER` creating the slots of the internal definitions, each `define` storing into
    its slot — to a state that represents `(w, σ')` in a world `W' ⊇ W` (`Run3`), or, after a tail call of a
    closure, to the state the `RET` of the current activation would have left (`Ret3`). -/
theorem compile_correct_stage3_partial {H : Type} {ops : HeapOps H} {D : RepData2 ops} (L : Laws3 D)
    (f : Nat) (cst : CState) (c : Ctx) (base : Nat) (tail : Bool) (e : Datum) (cst' : CState) (code : List BC)
    (ρ : Env) (us : Text → Prop) (hf : F3 D.setG f c (bound ρ) us tail e) (hcx : CtxOK c)
    (hcomp : compileExpr f cst c base tail e = .ok (cst', code)) (hpre : cst'.lambdas <+: D.final)
    (n : Nat) (σ : Spec.Eval.St) (w : Val) (σ' : Spec.Eval.St) (hev : (evalN n).eval e ρ σ = .ok w σ')
    (W : World) (s : Vm.St H) (fr : Frame) (hc : CodeAt2 D c.envmap s.heap σ.store s.ipL base code)
    (hip : s.ipO = base) (hi : Inv3 D W s.heap σ) (her : EnvRep3 ops W s.heap c s.ep ρ us) (hw : SWF s.stack)
    (hfr : tail = true → FrameAt s.stack s.bp fr) :
    ∃ W' s', W.le W' ∧ Out3 D W' s code.length σ σ' w tail fr s' :=
  compileExpr_correct3 L f cst c base tail e cst' code ρ us hf hcx hcomp hpre n σ w σ' hev W s fr hc hip hi her hw hfr

open Marwood.Lemmas.CompileCorrect Marwood.Lemmas.CompileCorrect2 Marwood.Lemmas.CompileCorrect3 in
/-- `F3 ⊇ F2`: every stage-2 expression is a stage-3 expression (no unreadable names). -/
theorem stage3_contains_stage2 {G : Text → Prop} {f : Nat} {c : Ctx} {ns : Text → Prop} {t : Bool} {e : Datum}
    (h : F2 G f c ns t e) : F3 G f c ns (fun _ => False) t e := F2.toF3 h

open Marwood.Lemmas.CompileCorrect Marwood.Lemmas.CompileCorrect2 Marwood.Lemmas.CompileCorrect3 in
/-- **REST PARAMETERS: the call of a closure `(lambda (x … . r) body …)` / `(lambda r body …)`.** From the state
    `CALL`/`TCALL` leaves (`ws.length` operands, their number, `%ep`, the return address; `ip` at the closure's
    lambda, whose prologue is `VARARG; ENTER`): if the specification's `apply` — which binds `r` to a fresh list of
    the arguments beyond the fixed ones — returns, the machine runs VARARG (the three cases of run.rs: too few
    arguments cannot occur here; exactly one extra operand is wrapped in place; otherwise the extra operands are
    popped, consed onto `()` last to first, and the frame is rewritten to `ps.length + 1` operands), ENTER, the
    body, RET, and ends in the caller with the operands popped, `%ep`/`%bp` restored and a representation of the
    result in `acc`. (`closure_call_stage3_partial` is the same for every closure of stage 3.) -/
theorem closure_call_stage3_rest_partial {H : Type} {ops : HeapOps H} {D : RepData2 ops} (L : Laws3 D) (n : Nat)
    (ps : List Text) (r : Text) (body : List Datum) (ρc : Env) (ws : List Val) (σ : Spec.Eval.St) (w : Val)
    (σ' : Spec.Eval.St) (hap : (evalN n).apply (.closure ps (some r) body ρc) ws σ = .ok w σ')
    (W : World) (s : Vm.St H) (lam cenv : Nat) (vs : List VCell) (st0 : Stack) (epc lc oc : Nat)
    (hcal : ops.callee s.heap s.acc = .closure lam cenv) (hclos : ClosOK3 D W s.heap lam cenv ps (some r) body ρc)
    (hi : Inv3 D W s.heap σ) (hvs : All2 (VR3 D W s.heap σ.store) vs ws) (hipL : s.ipL = lam) (hipO : s.ipO = 0)
    (hst : LiveEq (callFrame st0 vs epc lc oc) s.stack) (hw0 : SWF st0) (hw : SWF s.stack) :
    ∃ W' s', W.le W' ∧ Steps ops s s' ∧ s'.ipL = lc ∧ s'.ipO = oc ∧ s'.ep = epc ∧ s'.bp = s.bp ∧
      LiveEq st0 s'.stack ∧ SWF s'.stack ∧ VR3 D W' s'.heap σ'.store s'.acc w ∧ Inv3 D W' s'.heap σ' ∧
      Ext3 D s.heap σ.store s'.heap σ'.store :=
  closureCall_correct3 L n ps (some r) body ρc ws σ w σ' hap W s lam cenv vs st0 epc lc oc hcal hclos hi hvs hipL hipO
    hst hw0 hw

open Marwood.Lemmas.CompileCorrect Marwood.Lemmas.CompileCorrect2 Marwood.Lemmas.CompileCorrect3 in
/-- the call of any stage-3 closure (fixed arity or rest parameter, with or without internal definitions) -/
theorem closure_call_stage3_partial {H : Type} {ops : HeapOps H} {D : RepData2 ops} (L : Laws3 D) (n : Nat) :
    CallOK3 D n := closureCall_correct3 L n

open Marwood.Lemmas.CompileCorrect Marwood.Lemmas.CompileCorrect2 Marwood.Lemmas.CompileCorrect3 in
/-- the VARARG instruction alone: the frame rewrite and the list it builds (`Lemmas/CompileCorrect3VarArg.lean`) -/
theorem vararg_frame_stage3_partial {H : Type} {ops : HeapOps H} {D : RepData2 ops} (L : Laws3 D) {W : World}
    {s : Vm.St H} {S : Array Cell} {req : Nat} {vs : List VCell} {ws : List Val} {st0 : Stack} {epc lc oc : Nat}
    {lv : Val} (hl : ops.isLambda s.heap s.ipL = true) (h0 : ops.fetch s.heap s.ipL s.ipO = some (.opcode .varArg))
    (hinfo : ops.lambdaInfo s.heap s.ipL = some ⟨req + 1⟩) (hsrx : D.SRx s.heap S)
    (hvs : All2 (VR3 D W s.heap S) vs ws) (hreq : req ≤ vs.length) (hlist : ListIn S lv (ws.drop req))
    (hst : LiveEq (callFrame st0 vs epc lc oc) s.stack) (hw0 : SWF st0) (hw : SWF s.stack) :
    ∃ h' lst st', Vm.step ops s = .ok ({ s with heap := h', stack := st', ipO := s.ipO + 1 }, false) ∧
      LiveEq (callFrame st0 (vs.take req ++ [.ptr lst]) epc lc oc) st' ∧ SWF st' ∧
      VR3 D W h' S (.ptr lst) lv ∧ Step3 D s.heap S h' :=
  varArg_ok L hl h0 hinfo hsrx hvs hreq hlist hst hw0 hw

open Marwood.Lemmas.CompileCorrect Marwood.Lemmas.CompileCorrect2 Marwood.Lemmas.CompileCorrect3 in
/-- **INTERNAL DEFINITIONS: a body `(define y₁ e₁) … (define yₖ eₖ) b₁ … bₘ`.** In the activation ENTER created
    (the slots of `ints = [y₁ … yₖ]` exist and are related to the variables `Spec.Eval`'s `evalBody` allocated; the
    names `us ⊇ ints` are not readable yet) the machine runs the compiled body: each `eᵢ`, then
    `MOV %acc <slot yᵢ>; MOV-IMMEDIATE void %acc` — after which `yᵢ` is readable —, then the expressions, the last
    one in tail position; `Spec.Eval` evaluates the definitions in order in the body's scope (`evalBodyForms`). -/
theorem body_stage3_defines_partial {H : Type} {ops : HeapOps H} {D : RepData2 ops} (L : Laws3 D) (n : Nat)
    (body : List Datum) (f : Nat) (cst : CState) (c : Ctx) (base : Nat) (bodyD : Datum) (cst' : CState)
    (code : List BC) (ρ : Env) (us : Text → Prop) (ints : List Text)
    (hfb : F3B D.setG f c (bound ρ) us ints bodyD) (hcx : CtxOK c)
    (hcomp : compileBody f cst c base bodyD = .ok (cst', code)) (hpre : cst'.lambdas <+: D.final)
    (hpl : properList bodyD = some body)
    (σ : Spec.Eval.St) (w : Val) (σ' : Spec.Eval.St)
    (hev : Spec.Eval.evalBodyForms (evalN n) ρ true body σ = .ok w σ')
    (W : World) (s : Vm.St H) (fr : Frame) (hc : CodeAt2 D c.envmap s.heap σ.store s.ipL base code)
    (hip : s.ipO = base) (hi : Inv3 D W s.heap σ) (her : EnvRep3 ops W s.heap c s.ep ρ us) (hw : SWF s.stack)
    (hfr : FrameAt s.stack s.bp fr) :
    ∃ W' s', W.le W' ∧ Out3 D W' s code.length σ σ' w true fr s' :=
  body3_ok L (both3_ok L n).1.nontail (both3_ok L n).1 body f cst c base bodyD cst' code ρ us ints true hfb hcx hcomp
    hpre hpl (fun _ => rfl) σ w σ' hev W s fr hc hip hi her hw hfr

open Marwood.Lemmas.CompileCorrect Marwood.Lemmas.CompileCorrect2 Marwood.Lemmas.CompileCorrect3 in
/-- **`apply` RE-DISPATCH: `(apply f a₁ … aₖ lst)` at its `CALL`/`TCALL`.** The operands `f, a₁, …, aₖ, lst` and
    their number are on the stack (`f` a heap pointer, as every closure CLOSURE creates is), `acc` holds the
    `apply` builtin. If the specification's `apply` returns — `lst` is a proper list and `f` applied to `a₁ … aₖ`
    followed by its elements returns `w` — and the list is shorter than the guard of the MODEL's element loop
    (100000 iterations, there to keep `Machine.lean` total on cyclic lists; the Rust loop has no bound), then one
    step later the same instruction runs again with `f` in `acc` and the operands `a₁ … aₖ, e₁ … eₘ` on the stack,
    and the run ends as that call ends (`DispOut`: behind the instruction with the operands popped and a
    representation of `w` in `acc`; or, for `TCALL` of a closure, in the caller of the current activation). `f`
    may be a closure of stage 3 (any formals: the interplay with VARARG is covered) or a first-order builtin.
    ASSUMED besides `Laws3`: `ListLaws` (a stage-1 representation of `()` / of a pair derefs to `Nil` / to a pair
    cell whose components represent car and cdr). Not integrated into the fragment of the main theorem: the
    guard is a bound on every list the program applies, which is a property of the run. -/
theorem apply_redispatch_stage3_partial {H : Type} {ops : HeapOps H} {D : RepData2 ops} (L : Laws3 D)
    (LL : ListLaws D) {n : Nat} {tail : Bool} {em : List (Text × Source)} {W : World} {s : Vm.St H} {fr : Frame}
    {stk0 : Stack} {σ σ' : Spec.Eval.St} {g lastv w : Val} {pg : Nat} {vl : VCell} {mid : List VCell}
    {mws : List Val} {id : Nat}
    (hc : CodeAt2 D em s.heap σ.store s.ipL s.ipO [BC.op (if tail = true then .tcallAcc else .callAcc)])
    (hcal : ops.callee s.heap s.acc = .builtin id) (hkind : ops.builtinKind s.heap id = .apply)
    (hg : VR3 D W s.heap σ.store (.ptr pg) g) (hmid : All2 (VR3 D W s.heap σ.store) mid mws)
    (hlast : VR3 D W s.heap σ.store vl lastv) (hi : Inv3 D W s.heap σ)
    (hst : LiveEq ((pushAll stk0 (.ptr pg :: mid ++ [vl])).push (.argc (mid.length + 2))) s.stack)
    (hw0 : SWF stk0) (hw : SWF s.stack) (hfrm : tail = true → FrameAt stk0 s.bp fr)
    (hap : (evalN (n + 1)).apply (.prim .apply) (g :: mws ++ [lastv]) σ = .ok w σ')
    (hbound : ∀ xs, Spec.Eval.listOfVal (σ.store.size + 1) σ.store lastv = some xs → xs.length + 1 ≤ 100000) :
    ∃ W' s', W.le W' ∧ DispOut D W' s stk0 σ σ' w tail fr s' :=
  apply_redispatch3 L LL hc hcal hkind hg hmid hlast hi hst hw0 hw hfrm hap hbound

open Marwood.Lemmas.CompileCorrect2 Marwood.Lemmas.CompileCorrect3 Marwood.Lemmas.CompileCorrect3.Toy in
/-- **`Laws3` is satisfiable**: every field is a theorem for the toy heap of `Lemmas/CompileCorrect3Toy.lean`. -/
theorem laws3_toy (final : List LambdaM) : Laws3 (tD3 final) := laws3 final

open Marwood.Lemmas.CompileCorrect2 Marwood.Lemmas.CompileCorrect3 Marwood.Lemmas.CompileCorrect3.Toy in
/-- **Non-vacuity, rest parameter**: `((lambda (a . r) r) 1 2 3)` — the run exists, and `acc` shows a heap pair with
    car `2` whose cdr is a pair with car `3` and cdr `()`. -/
theorem demo_stage3_rest_runs :
    ∃ W' s', Run3 demoDR W' demoStateR 19 demoSt demoStR' (.pair 2) s' ∧
      ∃ pa pd pa' pd', tDeref s'.heap s'.acc = .pair pa pd ∧ tDeref s'.heap (.ptr pa) = .opaque "n2" ∧
        tDeref s'.heap (.ptr pd) = .pair pa' pd' ∧ tDeref s'.heap (.ptr pa') = .opaque "n3" ∧
        tDeref s'.heap (.ptr pd') = .nil := demo_vararg_acc

open Marwood.Lemmas.CompileCorrect2 Marwood.Lemmas.CompileCorrect3 Marwood.Lemmas.CompileCorrect3.Toy in
/-- **Non-vacuity, internal definition**: `((lambda (x) (define y (if x 1 2)) y) #t)` evaluates to `1`. -/
theorem demo_stage3_define_runs :
    ∃ W' s', Run3 demoDD W' demoStateD 11 demoSt demoStD' (.int 1) s' ∧ tDeref s'.heap s'.acc = .opaque "n1" :=
  demo_define_acc

/-- the excluded case is a real difference: an internally defined variable read before its definition has been
    evaluated holds `#<undefined>` in `Spec.Eval`; assigned to a global the value stays there (third result
    `#<undefined>`), while marwood's global becomes UNBOUND (`Undefined` is its unbound marker): the real VM
    answers `ok void`, `ok void`, `err unbound` (`harness/target/release/eval run`, 2026-09-26). R7RS: it is an
    error to refer to the variable before its initialisation. -/
theorem internal_define_read_before_init_differs :
    results 20 [L [s k_define, s ['g','g'], .num (.fix 0)],
                L [L [s k_lambda, L [], L [s k_define, s ['y'], s ['z']], L [s k_define, s ['z'], .num (.fix 1)],
                      L [s k_setBang, s ['g','g'], s ['y']]]],
                s ['g','g']]
      = [.ok .void, .ok .void, .ok .undefined] := by decide +kernel

/-- why "initialisers that are lambda expressions may mention later names" is not a sound exclusion rule:
    `(define (g) z) (define y (g)) (define z 1)` — every initialiser is a lambda expression or mentions only
    earlier names, yet `z` is read before its definition has been evaluated (`Spec.Eval`: `y` is `#<undefined>`; the
    real VM prints the same). Stage 3 therefore forbids a `lambda` to capture a name that is not readable yet. -/
theorem lambda_initialiser_rule_unsound :
    results 20 [L [L [s k_lambda, L [], L [s k_define, L [s ['g']], s ['z']], L [s k_define, s ['y'], L [s ['g']]],
                      L [s k_define, s ['z'], .num (.fix 1)], s ['y']]]]
      = [.ok .undefined] := by decide +kernel

open Marwood.Lemmas.CompileCorrect Marwood.Lemmas.CompileCorrect2 Marwood.Lemmas.CompileCorrect3 in
/-- **Rest parameters, ERROR case (arity).** A closure `(lambda (x₁ … xₖ . r) …)` called with fewer than `k`
    arguments: `Spec.Eval`'s `apply` fails with class `arity`; the machine, in the state `CALL`/`TCALL` left, fails at
    its next instruction — `VARARG`, first case of run.rs — with `InvalidNumArgs`, before anything is allocated.
    (The other error cases of stage 3 are `compile_correct_stage3_error_partial` / `closure_call_stage3_error_partial` in Lemmas/CompileCorrect3Props.lean.) -/
theorem closure_call_stage3_rest_arity_error_partial {H : Type} {ops : HeapOps H} {D : RepData2 ops} (L : Laws3 D)
    {n : Nat} {ps : List Text} {r : Text} {body : List Datum} {ρc : Env} {ws : List Val} {σ : Spec.Eval.St}
    {W : World} {s : Vm.St H} {lam cenv : Nat} {vs : List VCell} {st0 : Stack} {epc lc oc : Nat}
    (hclos : ClosOK3 D W s.heap lam cenv ps (some r) body ρc) (hi : Inv3 D W s.heap σ)
    (hvs : All2 (VR3 D W s.heap σ.store) vs ws) (hipL : s.ipL = lam) (hipO : s.ipO = 0)
    (hst : LiveEq (callFrame st0 vs epc lc oc) s.stack) (hw0 : SWF st0) (hfew : ws.length < ps.length) :
    (∃ σ', (evalN (n + 1)).apply (.closure ps (some r) body ρc) ws σ = .err .arity σ') ∧
    Vm.step ops s = .err .invalidNumArgs :=
  closure_call_rest_arity L hclos hi hvs hipL hipO hst hw0 hfew

open Marwood.Lemmas.CompileCorrect2 Marwood.Lemmas.CompileCorrect3 Marwood.Lemmas.CompileCorrect3.Toy in
/-- `ListLaws` is satisfiable: a theorem on the toy heap -/
theorem listLaws3_toy (g : Array VCell) (final : List LambdaM) : ListLaws (tD3g g final) := listLaws3 g final

open Marwood.Lemmas.CompileCorrect Marwood.Lemmas.CompileCorrect2 Marwood.Lemmas.CompileCorrect3
  Marwood.Lemmas.CompileCorrect3.Toy in
/-- **Non-vacuity, `apply`**: the code the compiler model emits for `(apply (lambda (a b) b) 1 '(2))` runs on the toy
    heap from the initial state: the operands (stage-3 main theorem), `PUSHIMM argc 3`, the load of the global
    `apply` (state `sC`: the `apply` builtin is in `acc`), the re-dispatch (`apply_redispatch_stage3_partial`), the
    call of the closure with operands `1 2`; `acc` ends up showing `2`, the stack as before. -/
theorem demo_stage3_apply_runs :
    ∃ W' sC s', Steps tops demoStateA sC ∧ tops.callee sC.heap sC.acc = .builtin 0 ∧
      CallRun3 demoDA W' sC demoStateA.stack demoStA1 demoStA' (.int 2) s' ∧
      Run3 demoDA W' demoStateA 19 demoStA demoStA' (.int 2) s' ∧ tDeref s'.heap s'.acc = .opaque "n2" :=
  demo_apply_runs

end Marwood.Proofs.C01
