import Marwood.Lemmas.Symbol
import Marwood.Lemmas.HeapWFOps
import Marwood.Lemmas.MachineSym
import Marwood.Lemmas.GoodDemo
import Marwood.Proofs.C13
/-!
# C18 — symbols are interned: same name iff `eq?`, across collections and conversions

Property theorems only. Models: `Marwood.Heap` (heap.rs: symbol table, `put`/`maybe_put`, the collector),
`Marwood.Symbol` (builtin/symbol.rs), `unescapeGo` of `Marwood.Parse` (parse_string).
The invariant `Interned` ("the table maps a spelling to `i` iff cell `i` is allocated and holds that
spelling") is part of `WFHeap`; that it is established by `Heap::new` and preserved by `put`, `maybe_put`,
`alloc`, `free`, `sweep`, `grow` and `run_gc` is proved in `Lemmas/HeapWF*.lean` (C03, T03.3) and cited here.

* T18.1  `interned_ptr_eq_iff`, `interned_eqv_iff`, `production_interns`, `two_productions_eq_iff`,
         `maybePut_production_interns`, `collection_keeps_symbol`
* T18.3  `symbol_string_roundtrip`
* T18.4  full statement false (see below): `string_symbol_roundtrip_encoder_partial`,
         `string_symbol_roundtrip_plain_partial`, negations `peculiar_identifier_not_fixed`,
         `escaped_literal_not_fixed`
* the pinned `string->symbol` (before commit b17ac76): `pinned_backslash_not_inverse`,
  `pinned_backslash_unreadable`, `pinned_two_spellings_one_name`
* T18.1/T18.2 **about executions of the concrete machine** (`machine ext force` of Vm/ConcreteHeap.lean: `run_one`
  over the heap with its real free list and symbol table, `run_gc` = the C03 collector): `symbols_interned_of_goodI`,
  `symbols_interned_in_every_reachable_state`, `symbol_addresses_interned_in_every_reachable_state`,
  `symbol_production_interns_machine`, and for the concrete allocator `put_symbol_interns_concrete`,
  `maybePut_symbol_interns_concrete`
-/
namespace Marwood.Proofs.C18
open Marwood Marwood.Heap
open Marwood.Lemmas.HeapWFOps

/-! ## T18.1 — one cell per spelling -/

/-- **T18.1** in a heap satisfying `Interned`, two allocated symbol cells are the same cell exactly
when they hold the same spelling -/
theorem interned_ptr_eq_iff (h : Heap) (hi : Interned h) {p q : Nat} {n m : Text}
    (hp : h.AllocSym p n) (hq : h.AllocSym q m) : p = q ↔ n = m := by
  constructor
  · intro e
    subst e
    have := hp.1.symm.trans hq.1
    simpa using this
  · intro e
    subst e
    have h1 := (hi n p).mpr hp
    have h2 := (hi n q).mpr hq
    rw [h1] at h2
    simpa using h2

/-- **T18.1** `eq?` (`Vm::eqv` on the two pointers) answers "same spelling", and under `Interned`
that is the same as "same pointer" -/
theorem interned_eqv_iff (h : Heap) (hi : Interned h) {p q : Nat} {n m : Text}
    (hp : h.AllocSym p n) (hq : h.AllocSym q m) :
    h.eqvSym p q = some (decide (n = m)) ∧ (h.eqvSym p q = some true ↔ p = q) := by
  have key := interned_ptr_eq_iff h hi hp hq
  unfold Heap.eqvSym
  by_cases e : p = q
  · have hn : n = m := key.mp e
    simp [e, hn]
  · have hn : ¬ n = m := fun x => e (key.mpr x)
    simp [e, hp.1, hq.1, hn]

/-- every production of a symbol value ends in `Heap::put` (the reader's datum through `put_cell`, a
macro template and `eval` likewise, `string->symbol` through `maybe_put` of its result): in a
well-formed heap it returns a pointer to an allocated cell holding the spelling, keeps the heap
well-formed (in particular `Interned`), and every symbol that was allocated stays where it was -/
theorem production_interns (h h' : Heap) (n : Text) (v : VCell) (wf : WFHeap true h)
    (hb : Heap.grownSize h.chunk h.cells.size ≤ 2 ^ 63) (hput : h.put (.symbol n) = .ok (h', v)) :
    WFHeap true h' ∧ (∃ p, v = .ptr p ∧ h'.AllocSym p n) ∧
      (∀ q m, h.AllocSym q m → h'.AllocSym q m) := by
  obtain ⟨wf', hf⟩ := put_wf true h h' _ v wf (by intro y hy; cases hy) hb hput
  rcases hf with ⟨q, hq, _, _⟩ | pf
  · cases hq
  · obtain ⟨p, hv, hnf, hc⟩ := pf.result
    refine ⟨wf', ⟨p, hv, hc, hnf⟩, ?_⟩
    intro q m hqm
    obtain ⟨a, b⟩ := pf.keep q hqm.2
    exact ⟨by rw [b]; exact hqm.1, a⟩

theorem putNew_symbol_not_unboxed (h h' : Heap) (n : Text)
    (hput : h.maybePut (.symbol n) = .ok (h', .symbol n)) : False := by
  simp only [Heap.maybePut, Heap.putNew] at hput
  split at hput
  · cases hput
  · cases ha : h.alloc with
    | error e => simp [ha, bind, Except.bind] at hput
    | ok r =>
      obtain ⟨h1, p⟩ := r
      simp only [ha, bind, Except.bind] at hput
      cases hw : h1.write p (.symbol n) with
      | error e => simp [hw] at hput
      | ok h2 => simp [hw, pure, Except.pure] at hput

/-- the same for `maybe_put` (the result of a builtin such as `string->symbol`) -/
theorem maybePut_production_interns (h h' : Heap) (n : Text) (v : VCell) (wf : WFHeap true h)
    (hb : Heap.grownSize h.chunk h.cells.size ≤ 2 ^ 63) (hput : h.maybePut (.symbol n) = .ok (h', v)) :
    WFHeap true h' ∧ (∃ p, v = .ptr p ∧ h'.AllocSym p n) ∧
      (∀ q m, h.AllocSym q m → h'.AllocSym q m) := by
  obtain ⟨wf', hf⟩ := maybePut_wf true h h' _ v wf (by intro y hy; cases hy) hb hput
  rcases hf with ⟨hq, _⟩ | pf
  · -- `maybe_put` never returns a symbol unboxed: `putNew` answers with a pointer
    exfalso
    subst hq
    exact putNew_symbol_not_unboxed h h' n hput
  · obtain ⟨p, hv, hnf, hc⟩ := pf.result
    refine ⟨wf', ⟨p, hv, hc, hnf⟩, ?_⟩
    intro q m hqm
    obtain ⟨a, b⟩ := pf.keep q hqm.2
    exact ⟨by rw [b]; exact hqm.1, a⟩

/-- **T18.1/T18.2** a symbol `n` is alive at `p`; anything may have happened since it was produced as
long as the heap is well-formed now; a second production of spelling `m` returns `p` exactly when
`m = n` — whatever the routes of the two productions were -/
theorem two_productions_eq_iff (h h' : Heap) (n m : Text) (p : Nat) (v : VCell) (wf : WFHeap true h)
    (hp : h.AllocSym p n) (hb : Heap.grownSize h.chunk h.cells.size ≤ 2 ^ 63)
    (hput : h.put (.symbol m) = .ok (h', v)) :
    ∃ q, v = .ptr q ∧ (q = p ↔ m = n) ∧ h'.eqvSym q p = some (decide (m = n)) := by
  obtain ⟨wf', ⟨q, hv, hq⟩, keep⟩ := production_interns h h' m v wf hb hput
  have hp' := keep p n hp
  exact ⟨q, hv, interned_ptr_eq_iff h' wf'.interned hq hp', (interned_eqv_iff h' wf'.interned hq hp').1⟩

/-- **T18.2, collections** a collection (`run_gc`, forced or not, growing or not) keeps the heap
well-formed, and a symbol cell reachable from the machine roots stays allocated at its address with its
spelling — so `two_productions_eq_iff` applies after any number of collections between the two
productions (cites `runGc_wf`, `runGc_spec` of C03) -/
theorem collection_keeps_symbol (force : Bool) (h h' : Heap) (r : Roots) (p : Nat) (n : Text)
    (wf : WFHeap true h) (hr : RootsOk h (r.refs true)) (hb : h'.cells.size ≤ 2 ^ 63)
    (hrun : Heap.runGc true force h r = .ok (.collected h'))
    (hreach : Marwood.Lemmas.GcSafety.Reachable true h (r.refs true) p) (hp : h.AllocSym p n) :
    WFHeap true h' ∧ h'.AllocSym p n := by
  have wf' := Marwood.Lemmas.HeapWF.runGc_wf true force h r h' wf hr hb hrun
  have gs := Marwood.Lemmas.GcSafety.runGc_spec true force h r h' wf.sizes wf.no_used
    wf.shape hrun
  refine ⟨wf', ?_, Or.inl (gs.gc_reach p hreach)⟩
  rw [gs.cells_reach p hreach]
  exact hp.1

/-! ## T18.3 -/

/-- **T18.3** `(symbol->string (string->symbol s))` is `s`, for every string `s` (every scalar value in
every position, the empty string included) -/
theorem symbol_string_roundtrip (s : Text) : symbolToString (stringToSymbol s) = .ok s :=
  symbolToString_stringToSymbol s

/-! ## T18.4

Full statement (**false**): `∀ y, reencode y = .ok y`, i.e. `(string->symbol (symbol->string y))` is `y`
for every symbol `y`. It fails for spellings the reader accepts but `string->symbol` would not build:
peculiar identifiers (`+`, `...`, `1+`: the first character is not an initial identifier character, so
the encoder escapes it) and literals containing an escape (`a\x41;b` is re-encoded as `aAb`).
Proved: it holds for every spelling `string->symbol` can build, and for every plain identifier;
the negation is proved at both kinds of witness. -/

/-- **T18.4 (partial: spellings the encoder builds)** -/
theorem string_symbol_roundtrip_encoder_partial (y : Text) (hy : ∃ s, y = stringToSymbol s) :
    reencode y = .ok y := by
  obtain ⟨s, rfl⟩ := hy
  unfold reencode
  rw [symbolToString_stringToSymbol]

/-- **T18.4 (partial: plain identifiers, a decidable class of reader spellings)** -/
theorem string_symbol_roundtrip_plain_partial (y : Text) (hy : plainIdent y = true) :
    reencode y = .ok y := by
  obtain ⟨h1, h2⟩ := plainIdent_fixed y hy
  unfold reencode
  rw [h1]
  simp only
  rw [h2]

theorem hexOf_plus : hexOf '+' = ['2', 'b'] := by
  unfold hexOf
  rw [natDigits_ge (by decide) (by decide), natDigits_lt (by decide)]
  decide

theorem encode_plus : stringToSymbol ['+'] = "\\x2b;".toList := by
  have h : encodeSymChar false true '+' = symEscape '+' := by
    unfold encodeSymChar
    have a : isInitialIdentifier '+' = false := by decide
    have b : ('+' : Char) ≠ '\\' := by decide
    simp [a, b]
  simp only [stringToSymbol, stringToSymbolP, encodeSymTail, h, symEscape, hexOf_plus]
  decide

/-- negation of the full T18.4 at `+` -/
theorem peculiar_identifier_not_fixed :
    reencode ['+'] = .ok "\\x2b;".toList ∧ reencode ['+'] ≠ .ok ['+'] := by
  have h1 : symbolToString ['+'] = .ok ['+'] := by decide
  have h2 : reencode ['+'] = .ok "\\x2b;".toList := by
    unfold reencode
    rw [h1]
    simp only [encode_plus]
  refine ⟨h2, ?_⟩
  rw [h2]
  decide

/-- negation of the full T18.4 at the literal `a\x41;b` (whose name is `aAb`) -/
theorem escaped_literal_not_fixed :
    symbolToString "a\\x41;b".toList = .ok "aAb".toList ∧
      reencode "a\\x41;b".toList = .ok "aAb".toList ∧ "aAb".toList ≠ "a\\x41;b".toList := by
  have h1 : symbolToString "a\\x41;b".toList = .ok "aAb".toList := by decide
  refine ⟨h1, ?_, by decide⟩
  unfold reencode
  rw [h1]
  have h2 := (plainIdent_fixed "aAb".toList (by decide)).2
  simp only [h2]

/-! ## the pinned encoder (kept as proved counterexamples; repaired by commit b17ac76) -/

/-- before the repair `"a\\b"` (a, backslash, b) came back as a, backspace -/
theorem pinned_backslash_not_inverse :
    symbolToString (stringToSymbolP true ['a', '\\', 'b']) = .ok ['a', Char.ofNat 8] := by decide

/-- before the repair the symbol built from the one-character string `"\\"` had no readable name -/
theorem pinned_backslash_unreadable :
    symbolToString (stringToSymbolP true ['\\']) = .error .incomplete := by decide

/-- before the repair the strings `"A"` and `"\\x41;"` gave two spellings with one name -/
theorem pinned_two_spellings_one_name :
    stringToSymbolP true ['A'] ≠ stringToSymbolP true "\\x41;".toList ∧
      symbolToString (stringToSymbolP true ['A']) = symbolToString (stringToSymbolP true "\\x41;".toList) := by
  constructor <;> decide

/-! ## non-vacuity -/

example : symbolToString (stringToSymbol "a\\b c".toList) = .ok "a\\b c".toList :=
  symbol_string_roundtrip _

example : plainIdent "list->vector".toList = true := by decide

def okOr {α} [Inhabited α] : Except String α → α
  | .ok a => a
  | .error _ => default

def hA : Heap := okOr (Heap.new 8)
def hB : Heap := (okOr (hA.put (.symbol ['a']))).1
def hC : Heap := (okOr (hB.put (.symbol ['b']))).1

/-- the hypotheses of `two_productions_eq_iff` are satisfiable: a heap built through the API with the
symbol `a` alive at address 0; producing `b` gives another address, producing `a` again gives 0 -/
example : WFHeap true hB ∧ hB.AllocSym 0 ['a'] ∧
    hB.put (.symbol ['b']) = .ok (hC, .ptr 1) ∧ hB.put (.symbol ['a']) = .ok (hB, .ptr 0) := by
  have h0 : Heap.new 8 = .ok hA := rfl
  have wf0 := Marwood.Lemmas.HeapWFOps.new_wf true 8 _ (by decide) (by decide) h0
  have h1 : hA.put (.symbol ['a']) = .ok (hB, .ptr 0) := rfl
  obtain ⟨wf1, ⟨p, hv, hp⟩, _⟩ := production_interns _ _ _ _ wf0 (by decide) h1
  cases hv
  exact ⟨wf1, hp, rfl, rfl⟩

/-! ## T18.1 / T18.2 as theorems about executions of the concrete machine

`machine ext force` is `run_one` over the concrete heap (`CHeap`: cells, 2-bit map, free list, symbol table,
global slots) with `run_gc` = the C03 collector model through the erasure. `Reaches` allows any number of
instructions and a collection at **any** boundary. `GoodI` of the initial state is propagated by
`goodI_reaches` (one lemma per opcode + `good_gc`); it contains `WFHeap`, hence `Interned`.
Hypotheses, as in T03.5 / T13.3: `ExtLaws` / `ExtGood` (the unmodelled builtins, `eval`'s compiler and VPUSH respect
the simulation and the heap invariant — this is where "`string->symbol` and friends end in `maybe_put`" lives: a
builtin that stored a second cell for a name would break `HG`), `SizeBounded`, `StackDiscAlong`. -/

section machine
open Marwood.Vm.Concrete Marwood.Lemmas.Sim Marwood.Lemmas.Good Marwood.Lemmas.MachineSym
open Marwood.Vm (St)

/-- **T18.1 on a machine state satisfying the invariant.** Two addresses the machine can get hold of (`Sees`:
a collector root, or referred to by an allocated cell) whose cells hold symbols are the same address exactly
when the names are equal, and `eq?` (`Vm::eqv` on the two pointers) answers "names equal". -/
theorem symbols_interned_of_goodI {s : St CHeap} (g : GoodI s) {p q : Nat} {n m : Text}
    (hp : Sees s p) (hq : Sees s q) (cp : SymCell s.heap p n) (cq : SymCell s.heap q m) :
    (p = q ↔ n = m) ∧ (toHeap s.heap).eqvSym p q = some (decide (n = m)) := by
  have ap := sees_sym_alloc g hp cp
  have aq := sees_sym_alloc g hq cq
  exact ⟨interned_ptr_eq_iff _ g.hg.wf.interned ap aq, (interned_eqv_iff _ g.hg.wf.interned ap aq).1⟩

/-- **T18.1/T18.2 for every reachable state, on addresses.** -/
theorem symbol_addresses_interned_in_every_reachable_state {ext : ExtOps} (force : Bool) (el : ExtLaws ext)
    (eg : ExtGood ext) {s0 : St CHeap} (g0 : GoodI s0) (sb : SizeBounded (machine ext force) s0)
    (sdl : StackDiscAlong (machine ext force) s0) {s : St CHeap} (hr : Reaches (machine ext force) s0 s)
    {p q : Nat} {n m : Text} (hp : Sees s p) (hq : Sees s q) (cp : SymCell s.heap p n) (cq : SymCell s.heap q m) :
    (p = q ↔ n = m) ∧ (toHeap s.heap).eqvSym p q = some (decide (n = m)) :=
  symbols_interned_of_goodI (goodI_reaches force el eg g0 sb sdl s hr) hp hq cp cq

/-- **T18.1/T18.2, the property's first sentence as a theorem about executions.** Start the concrete machine in
a state satisfying the invariant. In **every** state it reaches — after any number of instructions and of
collections at any boundaries — take two values sitting anywhere a first-class value can sit (`Loc`: `acc`, a
stack cell at or below `sp`, a global slot, a boxed cell, the car or cdr of a pair, a vector element, an environment
slot, a cell of a saved continuation stack). If both are pointers to symbol cells, they are equal as values iff the
names are equal: `eq?` on symbols is name equality, however each was produced and whatever was collected in
between. -/
theorem symbols_interned_in_every_reachable_state {ext : ExtOps} (force : Bool) (el : ExtLaws ext)
    (eg : ExtGood ext) {s0 : St CHeap} (g0 : GoodI s0) (sb : SizeBounded (machine ext force) s0)
    (sdl : StackDiscAlong (machine ext force) s0) {s : St CHeap} (hr : Reaches (machine ext force) s0 s)
    {v w : Vm.VCell} {n m : Text} (lv : Loc s v) (lw : Loc s w) (sv : SymVal s.heap v n) (sw : SymVal s.heap w m) :
    v = w ↔ n = m := by
  obtain ⟨p, rfl, cp⟩ := sv
  obtain ⟨q, rfl, cq⟩ := sw
  have key := (symbol_addresses_interned_in_every_reachable_state force el eg g0 sb sdl hr
    (loc_sees lv) (loc_sees lw) cp cq).1
  constructor
  · intro e; cases e; exact key.mp rfl
  · intro e; rw [key.mpr e]

/-- **production, machine level.** Take any instruction executed from a reachable state (CONS and VARARG call
`put`, a builtin's result goes through `maybe_put`, `eval` and the generic builtins are the parameters `ext`).
Every allocated symbol cell of the successor — in particular every cell the instruction created — is *the*
cell of its name: the symbol table maps the name to it and no other allocated cell holds the name. -/
theorem symbol_production_interns_machine {ext : ExtOps} (force : Bool) (el : ExtLaws ext)
    (eg : ExtGood ext) {s0 : St CHeap} (g0 : GoodI s0) (sb : SizeBounded (machine ext force) s0)
    (sdl : StackDiscAlong (machine ext force) s0) {s s' : St CHeap} (hr : Reaches (machine ext force) s0 s)
    (hs : (machine ext force).step s = .next s' ∨ (machine ext force).step s = .halt s')
    {p : Nat} {n : Text} (hc : SymCell s'.heap p n) (hn : (toHeap s'.heap).NonFree p) :
    symLookup s'.heap n = some p ∧ ∀ q, SymCell s'.heap q n → (toHeap s'.heap).NonFree q → q = p := by
  have hr' : Reaches (machine ext force) s0 s' := by
    rcases hs with e | e
    · exact .next hr e
    · exact .halt hr e
  have g := goodI_reaches force el eg g0 sb sdl s' hr'
  have ap : (toHeap s'.heap).AllocSym p n := ⟨symCell_iff.mp hc, hn⟩
  refine ⟨(g.hg.wf.interned n p).mpr ap, ?_⟩
  intro q hq hnq
  exact (interned_ptr_eq_iff _ g.hg.wf.interned ⟨symCell_iff.mp hq, hnq⟩ ap).mpr rfl

/-- **production, the concrete allocator** (`Heap::put` over the real free list): producing a symbol value
named `n` on a well-formed heap returns a pointer to an allocated cell holding `n` to which the table maps `n`;
every allocated symbol stays where it was; and the cell is either the one that held `n` already — then the heap
is unchanged — or no allocated cell held `n`. -/
theorem put_symbol_interns_concrete {h : CHeap} (wf : WFHeap true (toHeap h)) (sm : Small h) {v : Vm.VCell}
    {n : Text} (hs : symOf v = some n) : Produced h (putV h v).1 (putV h v).2 n :=
  putV_symbol_interns wf sm hs

/-- the same for `Heap::maybe_put` (the tail of every builtin call: `string->symbol`, `car` of a quoted list, …) -/
theorem maybePut_symbol_interns_concrete {h : CHeap} (wf : WFHeap true (toHeap h)) (sm : Small h) {v : Vm.VCell}
    {n : Text} (hs : symOf v = some n) : Produced h (maybePutV h v).1 (maybePutV h v).2 n :=
  maybePutV_symbol_interns wf sm hs

/-! ### non-vacuity -/

open Marwood.Lemmas.Good.Demo Marwood.Proofs.C13 in
/-- the hypotheses of the machine-level theorems are jointly satisfiable (the program `HALT` of
Lemmas/GoodDemo.lean, the parameter set `failingExt` of C13) -/
example : GoodI (sHalt 0) ∧ SizeBounded (machine failingExt false) (sHalt 0) ∧
    StackDiscAlong (machine failingExt false) (sHalt 0) ∧ ExtLaws failingExt ∧ ExtGood failingExt ∧
    Reaches (machine failingExt false) (sHalt 0) (sHalt 1) :=
  ⟨sHalt_goodI 0, sHalt_sizeBounded _, sHalt_discAlong _, failingExt_laws, failingExt_good,
   .halt (.refl _) (sHalt_step0 _ _)⟩

end machine

end Marwood.Proofs.C18
