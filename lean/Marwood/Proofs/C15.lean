import Marwood.Lemmas.StoreStr
import Marwood.Lemmas.StoreUtf8
import Marwood.Lemmas.StoreSigma
/-!
# C15 — string and character procedures index by character over all of Unicode

Property theorems only. Model: `Marwood.Store.StringOps` / `CharOps` (string.rs, char.rs after the
`fix:` commits 3a9d75e 9789244 7523142 6d88db4 4bf1665): strings are `List Char`, every index is
turned into a UTF-8 *byte offset* (a prefix sum of `Char.utf8Size`) and strings are cut and patched
at byte offsets, where an offset that is not a character boundary is a panic. Specification: the
plain `List Char` operation at character positions (`cs[k]`, `cs.set k c`, `drop/take`,
`take ++ replicate ++ drop`), `Marwood.Spec.chainHolds` for the n-ary predicates.

The contents theorems hold for every string over all of Unicode (every `Char`, any mix of 1–4 byte
encodings); none of them can panic. The store theorems add identity and frame (`OnlyStr`).
Case mapping is a parameter `T : CaseTable`.

The last section ties the `List Char` model to the bytes a Rust `String` holds (`Utf8.encodeText`,
RFC 3629): the model's code-point comparison is the bytewise comparison of the encodings
(`utf8_order`), its byte offsets are lengths of encoded prefixes, its slices and patches are slices
and patches of the bytes, and it panics exactly where `str::is_char_boundary` fails.
-/
namespace Marwood.Proofs.C15
open Marwood Marwood.Store Marwood.Store.Outcome

/-! ## contents: the byte-offset arithmetic computes the character-indexed operation -/

/-- `char_indices().nth(k)`: the byte offset of character `k` is the UTF-8 length of the first `k`
    characters -/
theorem nthOffset_eq (cs : Text) (k : Nat) :
    nthOffset cs k 0 = if h : k < cs.length then some (byteLen (cs.take k), cs[k]) else none := by
  simpa using nthOffset_spec cs k 0

theorem stringRef_contents {cs : Text} {k : Nat} (h : k < cs.length) :
    stringRefC cs k = .ok cs[k] := stringRefC_ok h

theorem stringRef_contents_err {cs : Text} {k : Nat} (h : cs.length ≤ k) :
    stringRefC cs k = .err .sindex := stringRefC_err h

/-- `string-set!` changes exactly position `k`, also when the new character has a different UTF-8
    width than the old one; the result is never a panic -/
theorem stringSet_contents {cs : Text} {k : Nat} (c : Char) (h : k < cs.length) :
    stringSetC cs k c = .ok (cs.set k c) := stringSetC_ok c h

theorem stringSet_contents_err {cs : Text} {k : Nat} (c : Char) (h : cs.length ≤ k) :
    stringSetC cs k c = .err .sindex := stringSetC_err c h

/-- `substring`, `string-copy`, `string->list`: characters `start ≤ i < end` -/
theorem substring_contents {cs : Text} {start end_ : Option Nat}
    (hv : ValidRange cs.length start end_) :
    substringC cs start end_ =
      .ok ((cs.drop (start.getD 0)).take (end_.getD cs.length - start.getD 0)) := substringC_ok hv

/-- `start > length`, `end > length` or `end < start` is an error — also for an empty range
    (fix 7523142) -/
theorem substring_contents_err {cs : Text} {st : Nat} (end_ : Option Nat)
    (hbad : ¬ (st ≤ end_.getD cs.length ∧ end_.getD cs.length ≤ cs.length)) :
    ∃ e, substringC cs (some st) end_ = .err e := substringC_err end_ hbad

/-- `string-fill!`: exactly the positions `start ≤ i < end` receive the fill character -/
theorem stringFill_contents {cs : Text} {start end_ : Option Nat} (c : Char)
    (hv : ValidRange cs.length start end_) :
    ∃ r, stringFillC cs c start end_ = .ok r ∧ r.length = cs.length ∧
      ∀ i, r[i]? = if start.getD 0 ≤ i ∧ i < end_.getD cs.length then some c else cs[i]? := by
  refine ⟨_, stringFillC_ok c hv, ?_, fun i => fill_getElem? cs c hv.2.1 hv.2.2 i⟩
  have h1 := hv.2.1
  have h2 := hv.2.2
  simp only [List.length_append, List.length_take, List.length_replicate, List.length_drop]
  omega

theorem stringFill_contents_err {cs : Text} {st : Nat} (c : Char) (end_ : Option Nat)
    (hbad : ¬ (st ≤ end_.getD cs.length ∧ end_.getD cs.length ≤ cs.length)) :
    ∃ e, stringFillC cs c (some st) end_ = .err e := stringFillC_err c end_ hbad

/-! ## the builtins over the store: result, frame, identity -/

theorem stringLength_ok {s : Store} {v : VCell} {id : Nat} {t : Text} (h : IsStr s v id t) :
    stringLength s [v] = .ok (s, .num t.length) := by
  simp only [stringLength, popString_of_isStr h, strGet_of_isStr h, bind_ok]

theorem stringRef_ok {s : Store} {v i : VCell} {id k : Nat} {t : Text}
    (h : IsStr s v id t) (hi : IsIndex s i k) (hk : k < t.length) :
    stringRef s [v, i] = .ok (s, .char t[k]) := by
  simp only [stringRef, popIndex_of_isIndex hi, popString_of_isStr h, strGet_of_isStr h, bind_ok,
    stringRefC_ok hk]

theorem stringRef_err_range {s : Store} {v i : VCell} {id k : Nat} {t : Text}
    (h : IsStr s v id t) (hi : IsIndex s i k) (hk : t.length ≤ k) :
    stringRef s [v, i] = .err .sindex := by
  simp only [stringRef, popIndex_of_isIndex hi, popString_of_isStr h, strGet_of_isStr h, bind_ok,
    stringRefC_err hk, bind_err]

theorem stringRef_err_index {s : Store} {v i : VCell} (hi : NotIndex s i) :
    ∃ e, stringRef s [v, i] = .err e := by
  obtain ⟨e, he⟩ := popIndex_of_notIndex hi
  exact ⟨e, by simp only [stringRef, he, bind_err]⟩

/-- `string-set!`: the addressed string gets exactly position `k` replaced; every other string,
    every pair and every vector is unchanged; every alias of the string sees the change (the
    contents live under the identity `id`) -/
theorem stringSet_ok {s : Store} {v i c : VCell} {id k : Nat} {t : Text} {ch : Char}
    (h : IsStr s v id t) (hi : IsIndex s i k) (hc : s.get c = .ok (.char ch)) (hk : k < t.length) :
    ∃ s', stringSet s [v, i, c] = .ok (s', .void) ∧ OnlyStr s s' id ∧
      s'.strs[id]? = some (t.set k ch) := by
  obtain ⟨s', h1, h2, h3⟩ := strSet_spec (isStr_lt h) (t.set k ch)
  refine ⟨s', ?_, h2, h3⟩
  simp only [stringSet, popChar_of_get hc, popIndex_of_isIndex hi, popString_of_isStr h,
    strGet_of_isStr h, bind_ok, stringSetC_ok ch hk, h1]

theorem stringSet_err_range {s : Store} {v i c : VCell} {id k : Nat} {t : Text} {ch : Char}
    (h : IsStr s v id t) (hi : IsIndex s i k) (hc : s.get c = .ok (.char ch)) (hk : t.length ≤ k) :
    stringSet s [v, i, c] = .err .sindex := by
  simp only [stringSet, popChar_of_get hc, popIndex_of_isIndex hi, popString_of_isStr h,
    strGet_of_isStr h, bind_ok, stringSetC_err ch hk, bind_err]

/-- `(string-ref (string-set! s k c) k)` is `c` -/
theorem stringRef_stringSet {s s' : Store} {v i c r : VCell} {id k : Nat} {t : Text} {ch : Char}
    (h : IsStr s v id t) (hi : IsIndex s i k) (hc : s.get c = .ok (.char ch)) (hk : k < t.length)
    (hset : stringSet s [v, i, c] = .ok (s', r)) :
    stringRef s' [v, i] = .ok (s', .char ch) := by
  obtain ⟨s'', h1, h2, h3⟩ := stringSet_ok h hi hc hk
  rw [h1] at hset
  cases hset
  have hget : ∀ x, s'.get x = s.get x := get_congr h2.cells
  have h' : IsStr s' v id (t.set k ch) := ⟨by rw [hget]; exact h.1, h3⟩
  have hi' : IsIndex s' i k := ⟨by rw [hget]; exact hi.1, hi.2⟩
  have hk' : k < (t.set k ch).length := by simpa using hk
  rw [stringRef_ok h' hi' hk']
  simp

/-- `(string-copy s start end)` / `(substring s start end)`: a new string (new identity) holding
    the characters `start ≤ i < end`; nothing that existed is changed -/
theorem stringCopy_ok {s : Store} {v b e : VCell} {id st en : Nat} {t : Text}
    (h : IsStr s v id t) (hb : IsIndex s b st) (he : IsIndex s e en)
    (h1 : st ≤ en) (h2 : en ≤ t.length) :
    ∃ s' p, stringCopy s [v, b, e] = .ok (s', .ptr p) ∧
      IsStr s' (.ptr p) s.strs.length ((t.drop st).take (en - st)) ∧ Extends s s' := by
  obtain ⟨s', p, r1, r2, r3⟩ := newStrRes_spec s ((t.drop st).take (en - st))
  refine ⟨s', p, ?_, r2, r3⟩
  have hv : ValidRange t.length (some st) (some en) := ⟨fun _ => rfl, h1, h2⟩
  simp only [stringCopy, popRange, popIndex_of_isIndex hb, popIndex_of_isIndex he, bind_ok,
    popString_of_isStr h, strGet_of_isStr h, substringC_ok hv, Option.getD_some, r1]

theorem stringCopy_err {s : Store} {v b e : VCell} {id st en : Nat} {t : Text}
    (h : IsStr s v id t) (hb : IsIndex s b st) (he : IsIndex s e en)
    (hbad : ¬ (st ≤ en ∧ en ≤ t.length)) :
    ∃ err, stringCopy s [v, b, e] = .err err := by
  obtain ⟨x, hx⟩ := substringC_err (cs := t) (st := st) (some en) (by simpa using hbad)
  refine ⟨x, ?_⟩
  simp only [stringCopy, popRange, popIndex_of_isIndex hb, popIndex_of_isIndex he, bind_ok,
    popString_of_isStr h, strGet_of_isStr h, hx, bind_err]

/-- `(string-fill! s c start end)`: only the addressed string changes, exactly at `start ≤ i < end` -/
theorem stringFill_ok {s : Store} {v c b e : VCell} {id st en : Nat} {t : Text} {ch : Char}
    (h : IsStr s v id t) (hc : s.get c = .ok (.char ch)) (hb : IsIndex s b st) (he : IsIndex s e en)
    (h1 : st ≤ en) (h2 : en ≤ t.length) :
    ∃ s' r, stringFill s [v, c, b, e] = .ok (s', .void) ∧ OnlyStr s s' id ∧
      s'.strs[id]? = some r ∧ r.length = t.length ∧
      ∀ i, r[i]? = if st ≤ i ∧ i < en then some ch else t[i]? := by
  have hv : ValidRange t.length (some st) (some en) := ⟨fun _ => rfl, h1, h2⟩
  obtain ⟨r, q1, q2, q3⟩ := stringFill_contents ch hv
  obtain ⟨s', p1, p2, p3⟩ := strSet_spec (isStr_lt h) r
  refine ⟨s', r, ?_, p2, p3, q2, by simpa using q3⟩
  simp only [stringFill, popRange, popIndex_of_isIndex hb, popIndex_of_isIndex he, bind_ok,
    popChar_of_get hc, popString_of_isStr h, strGet_of_isStr h, q1, p1]

theorem stringFill_err {s : Store} {v c b e : VCell} {id st en : Nat} {t : Text} {ch : Char}
    (h : IsStr s v id t) (hc : s.get c = .ok (.char ch)) (hb : IsIndex s b st) (he : IsIndex s e en)
    (hbad : ¬ (st ≤ en ∧ en ≤ t.length)) :
    ∃ err, stringFill s [v, c, b, e] = .err err := by
  obtain ⟨x, hx⟩ := stringFillC_err (cs := t) (st := st) ch (some en) (by simpa using hbad)
  refine ⟨x, ?_⟩
  simp only [stringFill, popRange, popIndex_of_isIndex hb, popIndex_of_isIndex he, bind_ok,
    popChar_of_get hc, popString_of_isStr h, strGet_of_isStr h, hx, bind_err]

theorem makeString_ok {s : Store} {n c : VCell} {k : Nat} {ch : Char} (hn : IsIndex s n k)
    (hc : s.get c = .ok (.char ch)) (hcap : k ≤ strCapacity) :
    ∃ s' p, makeString s [n, c] = .ok (s', .ptr p) ∧
      IsStr s' (.ptr p) s.strs.length (List.replicate k ch) ∧ Extends s s' := by
  obtain ⟨s', p, r1, r2, r3⟩ := newStrRes_spec s (List.replicate k ch)
  refine ⟨s', p, ?_, r2, r3⟩
  have hnot : ¬ (k > strCapacity) := by omega
  simp only [makeString, popChar_of_get hc, bind_ok, makeString.go, popUsize, hn.1,
    toUsize_natCast hn.2, orErr_some, if_neg hnot, r1]

/-- `(string c …)`: a new string of exactly the argument characters, in order -/
theorem string_ok {s : Store} {args : List VCell} {cs : List Char} (h : AllChar s args cs) :
    ∃ s' p, stringB s args = .ok (s', .ptr p) ∧ IsStr s' (.ptr p) s.strs.length cs ∧
      Extends s s' := by
  obtain ⟨s', p, r1, r2, r3⟩ := newStrRes_spec s cs
  refine ⟨s', p, ?_, r2, r3⟩
  simp only [stringB, popChars_of_allChar h.reverse, bind_ok, List.reverse_reverse, r1]

/-- `(string-append s …)`: a new string, the concatenation of the arguments in order -/
theorem stringAppend_ok {s : Store} {args : List VCell} {ts : List Text} (h : AllStr s args ts) :
    ∃ s' p, stringAppend s args = .ok (s', .ptr p) ∧ IsStr s' (.ptr p) s.strs.length ts.flatten ∧
      Extends s s' := by
  obtain ⟨s', p, r1, r2, r3⟩ := newStrRes_spec s ts.flatten
  refine ⟨s', p, ?_, r2, r3⟩
  simp only [stringAppend, popStrings_of_allStr h.reverse, bind_ok, foldl_prepend,
    List.reverse_reverse, List.append_nil, r1]

/-- the n-ary string predicates (`string=? string<? …`, and with `f` = case folding the `-ci`
    variants) are the conjunction, over adjacent arguments, of the code-point lexicographic
    comparison of the `f`-images; all arguments are examined (no short circuit) -/
theorem stringComp_ok {s : Store} {args : List VCell} {ts : List Text} (f : Text → Text)
    (op : CmpOp) (h : AllStr s args ts) (hne : args ≠ []) :
    stringComp f op s args =
      .ok (s, .bool (Spec.chainHolds (fun x y => op.holds (cmpText (f x) (f y))) ts)) := by
  have hr := h.reverse
  generalize hrev : args.reverse = ra at hr
  generalize hrt : ts.reverse = rt at hr
  cases hr with
  | nil => exact absurd (List.reverse_eq_nil_iff.mp hrev) hne
  | cons h1 h2 =>
    rename_i last id tl rest trest
    have hts : ts = trest.reverse ++ [tl] := by
      have := congrArg List.reverse hrt
      simpa using this
    simp only [stringComp, hrev, popString_of_isStr h1, strGet_of_isStr h1, bind_ok,
      popStrings_of_allStr h2, compLoop_eq_chain, Bool.true_and, hts]

/-- the same for characters (`char=? …`; `f` = `char-foldcase` for the `char-ci` variants) -/
theorem charComp_ok {s : Store} {args : List VCell} {cs : List Char} (f : Char → Char)
    (op : CmpOp) (h : AllChar s args cs) (hne : args ≠ []) :
    charComp f op s args =
      .ok (s, .bool (Spec.chainHolds (fun x y => op.holds (compare (f x).val (f y).val)) cs)) := by
  have hr := h.reverse
  generalize hrev : args.reverse = ra at hr
  generalize hrt : cs.reverse = rt at hr
  cases hr with
  | nil => exact absurd (List.reverse_eq_nil_iff.mp hrev) hne
  | cons h1 h2 =>
    rename_i last cl rest crest
    have hcs : cs = crest.reverse ++ [cl] := by
      have := congrArg List.reverse hrt
      simpa using this
    simp only [charComp, hrev, popChar_of_get h1, bind_ok, popChars_of_allChar h2,
      compLoop_eq_chain, Bool.true_and, hcs]

/-- a non-string argument anywhere makes the predicate an error (every argument is type-checked) -/
theorem popString_err {s : Store} {v c : VCell} (hg : s.get v = .ok c) (hc : ∀ id, c ≠ .str id) :
    popString s v = .err .syntax := by
  unfold popString
  simp only [hg, bind_ok]

/-- `list->string` of a proper list of characters: a new string of exactly those characters -/
theorem listToString_ok {s : Store} {v : VCell} {as : List Nat} {cs : List Char} {fuel : Nat}
    (hl : IsList s v as) (hc : CharsAt s as cs) (hfuel : as.length + 1 < fuel) :
    ∃ s' p, listToString fuel s [v] = .ok (s', .ptr p) ∧ IsStr s' (.ptr p) s.strs.length cs ∧
      Extends s s' := by
  obtain ⟨s', p, r1, r2, r3⟩ := newStrRes_spec s cs
  refine ⟨s', p, ?_, r2, r3⟩
  cases hl with
  | nil hg =>
    cases hc
    obtain ⟨f, rfl⟩ : ∃ f, fuel = f + 1 := ⟨fuel - 1, by simp at hfuel; omega⟩
    simp only [listToString, hg, bind_ok, VCell.isNil_nil, Bool.not_true, Bool.and_false,
      Bool.false_eq_true, if_false, collectChars, VCell.isPair, r1]
  | cons hg ht =>
    cases hc with
    | cons hc0 hrest =>
      rename_i a d rest c0 ccs
      simp only [listToString, hg, bind_ok, VCell.isPair_pair, Bool.not_true, Bool.false_and,
        Bool.false_eq_true, if_false,
        collectChars_spec rest fuel a d [] c0 ccs ht.toSpine hc0 hrest (by simp at hfuel; omega),
        List.nil_append, VCell.isNil_nil, r1]

/-- `list->string` of an improper list of characters is an error (fix 3a9d75e) -/
theorem listToString_err {s : Store} {v tail : VCell} {a d : Nat} {rest : List Nat} {c0 : Char}
    {ccs : List Char} {fuel : Nat}
    (hg : s.get v = .ok (.pair a d)) (hl : Spine s (.ptr d) rest tail) (hc0 : s.cells[a]? = some (.char c0))
    (hc : CharsAt s rest ccs) (ht : tail.isNil = false) (hfuel : rest.length + 1 < fuel) :
    listToString fuel s [v] = .err .syntax := by
  simp only [listToString, hg, bind_ok, VCell.isPair_pair, Bool.not_true, Bool.false_and,
    Bool.false_eq_true, if_false, collectChars_spec rest fuel a d [] c0 ccs hl hc0 hc hfuel, ht,
    Bool.not_false, if_true]

/-- `vector->string` of a vector of characters: a new string of exactly those characters -/
theorem vectorToString_ok {s : Store} {v : VCell} {id : Nat} {xs : List VCell} {cs : List Char}
    (hv : IsVec s v id xs) (hc : AllChar s xs cs) :
    ∃ s' p, vectorToString s [v] = .ok (s', .ptr p) ∧ IsStr s' (.ptr p) s.strs.length cs ∧
      Extends s s' := by
  obtain ⟨s', p, r1, r2, r3⟩ := newStrRes_spec s cs
  refine ⟨s', p, ?_, r2, r3⟩
  simp only [vectorToString, popVector_of_isVec hv, vecGet_of_isVec hv, bind_ok,
    slotsToChars_of_allChar hc, r1]

/-- `string->vector`: a new vector whose slots hold the characters of the string -/
theorem stringToVector_ok {s : Store} {v : VCell} {id : Nat} {t : Text} (h : IsStr s v id t) :
    ∃ s' p, stringToVector s [v] = .ok (s', .ptr p) ∧
      IsVec s' (.ptr p) s.vecs.length (t.map VCell.char) ∧ Extends s s' := by
  obtain ⟨s', p, r1, r2, r3⟩ := newVec_finish s (t.map VCell.char)
  refine ⟨s', p, ?_, r2, r3⟩
  simp only [stringToVector, popString_of_isStr h, strGet_of_isStr h, bind_ok, r1]

/-- `string-upcase` / `string-downcase` / `string-foldcase`: a new string, the character-wise image
    under the case table -/
theorem stringCase_ok {s : Store} {v : VCell} {id : Nat} {t : Text} (f : Text → Text)
    (h : IsStr s v id t) :
    ∃ s' p, stringCase f s [v] = .ok (s', .ptr p) ∧ IsStr s' (.ptr p) s.strs.length (f t) ∧
      Extends s s' := by
  obtain ⟨s', p, r1, r2, r3⟩ := newStrRes_spec s (f t)
  refine ⟨s', p, ?_, r2, r3⟩
  simp only [stringCase, popString_of_isStr h, strGet_of_isStr h, bind_ok, r1]

/-! ## scalar values -/

/-- `integer->char` accepts exactly the Unicode scalar values: `0 … 0xD7FF`, `0xE000 … 0x10FFFF` -/
theorem integerToChar_ok {s : Store} {v : VCell} {k : Nat} (hg : s.get v = .ok (.num (k : Int)))
    (h : k.isValidChar) : integerToChar s [v] = .ok (s, .char (Char.ofNatAux k h)) := by
  have hle : k ≤ 4294967295 := by
    rcases h with h | ⟨_, h⟩ <;> omega
  simp only [integerToChar, hg, bind_ok]
  show (if k ≤ 4294967295 then
      (if h : k.isValidChar then Outcome.ok (s, VCell.char (Char.ofNatAux k h)) else .err .syntax)
    else .err .syntax) = _
  rw [if_pos hle, dif_pos h]

/-- surrogates `0xD800 … 0xDFFF`, values above `0x10FFFF` and negative numbers are errors -/
theorem integerToChar_err {s : Store} {v : VCell} {n : Int} (hg : s.get v = .ok (.num n))
    (h : n < 0 ∨ ¬ n.toNat.isValidChar) : integerToChar s [v] = .err .syntax := by
  simp only [integerToChar, hg, bind_ok]
  cases n with
  | ofNat k =>
    have hk : ¬ k.isValidChar := by
      rcases h with h | h
      · exact absurd h (by simp)
      · simpa using h
    show (if k ≤ 4294967295 then
        (if h : k.isValidChar then Outcome.ok (s, VCell.char (Char.ofNatAux k h)) else .err .syntax)
      else .err .syntax) = _
    by_cases hle : k ≤ 4294967295
    · rw [if_pos hle, dif_neg hk]
    · rw [if_neg hle]
  | negSucc k => rfl

theorem charToInteger_ok {s : Store} {v : VCell} {c : Char} (hg : s.get v = .ok (.char c)) :
    charToInteger s [v] = .ok (s, .num c.toNat) := by
  simp only [charToInteger, popChar_of_get hg, bind_ok]

/-- `integer->char` inverts `char->integer` on every character -/
theorem integerToChar_charToInteger (s : Store) (c : Char) :
    integerToChar s [.num c.toNat] = .ok (s, .char c) := by
  have h : c.toNat.isValidChar := c.valid
  rw [integerToChar_ok (k := c.toNat) rfl h]
  rfl

/-- on ASCII the fast path of `char-upcase`/`char-foldcase` agrees with the simple case mapping of
    any table that maps ASCII letters to their ASCII counterparts -/
theorem charUpcase_eq_simple (T : CaseTable) (c : Char)
    (hT : isAscii c = true → T.upper c = [asciiUpper c]) :
    charUpcase T c = Spec.simpleUpper T c := by
  unfold charUpcase Spec.simpleUpper
  by_cases h : isAscii c = true
  · simp [h, hT h]
  · simp only [h, Bool.false_eq_true, if_false]
    cases hU : T.upper c with
    | nil => rfl
    | cons u rest => cases rest <;> rfl

theorem charFoldcase_eq_simple (T : CaseTable) (c : Char)
    (hT : isAscii c = true → T.lower c = [asciiLower c]) :
    charFoldcase T c = Spec.simpleLower T c := by
  unfold charFoldcase Spec.simpleLower
  by_cases h : isAscii c = true
  · simp [h, hT h]
  · simp only [h, Bool.false_eq_true, if_false]
    cases hU : T.lower c with
    | nil => rfl
    | cons u rest => cases rest <;> rfl

/-- on ASCII the fast paths need no assumption on the table at all: `char-upcase` is Lean's own
    (ASCII-only) `Char.toUpper`, `char-downcase`/`char-foldcase` its `Char.toLower` -/
theorem charUpcase_ascii (T : CaseTable) (c : Char) (h : isAscii c = true) :
    charUpcase T c = c.toUpper := by
  simp only [charUpcase, h, if_true, asciiUpper_eq_core]

theorem charFoldcase_ascii (T : CaseTable) (c : Char) (h : isAscii c = true) :
    charFoldcase T c = c.toLower := by
  simp only [charFoldcase, h, if_true, asciiLower_eq_core]

/-! ## the bytes: UTF-8 order preservation, byte offsets, character boundaries

`Utf8.encode` is RFC 3629 (and, byte for byte, Lean's `String.utf8EncodeChar`: `Utf8.encode_eq_core`);
`Utf8.cmpBytes` is the lexicographic comparison of byte strings, i.e. `<[u8] as Ord>::cmp`, which is
how Rust orders `str`. -/

/-- (a) the encoding of a character is injective … -/
theorem utf8_encode_injective {a b : Char} (h : Utf8.encode a = Utf8.encode b) : a = b :=
  Utf8.encode_injective h

/-- … and prefix-free: no encoding is a (proper) prefix of another -/
theorem utf8_encode_prefix_free {a b : Char} (h : Utf8.encode a <+: Utf8.encode b) : a = b :=
  Utf8.encode_prefix_free h

/-- (b) characters are ordered as their encodings are, bytewise -/
theorem utf8_char_order (a b : Char) : a.val < b.val ↔ Utf8.encode a < Utf8.encode b :=
  Utf8.encode_lt_iff a b

/-- (d) `Char.utf8Size`, the summand of every byte offset in the model, is the number of encoded bytes -/
theorem utf8_encode_length (c : Char) : (Utf8.encode c).length = c.utf8Size := Utf8.encode_length c

theorem utf8_byteLen (s : Text) : byteLen s = (Utf8.encodeText s).length :=
  (Utf8.encodeText_length s).symm

/-- the bytes are bytes, and `Utf8.encode` is Lean's own reference encoder `String.utf8EncodeChar`
    (so the RFC 3629 table was not mistranscribed in a way Lean's `String` would notice) -/
theorem utf8_encode_is_core (c : Char) :
    Utf8.encode c = (String.utf8EncodeChar c).map UInt8.toNat ∧ ∀ b ∈ Utf8.encode c, b < 256 :=
  ⟨Utf8.encode_eq_core c, Utf8.encode_byte_lt c⟩

/-- (c) UTF-8 ORDER PRESERVATION: the bytewise comparison of the encodings of two texts is their
    comparison by code points -/
theorem utf8_order (s t : Text) :
    Utf8.cmpBytes (Utf8.encodeText s) (Utf8.encodeText t) = Utf8.cmpPoints s t :=
  Utf8.utf8_order s t

/-- the same for the relations `<`, `=`, `≤` on lists (lexicographic in core Lean; on `List Char` by
    `Char.val`): `string<?`, `string=?`, `string<=?`, and with the arguments exchanged `string>?`,
    `string>=?` -/
theorem utf8_order_rel (s t : Text) :
    (Utf8.encodeText s < Utf8.encodeText t ↔ s < t) ∧
    (Utf8.encodeText s = Utf8.encodeText t ↔ s = t) ∧
    (Utf8.encodeText s ≤ Utf8.encodeText t ↔ s ≤ t) :=
  ⟨Utf8.utf8_lt s t, Utf8.utf8_eq s t, Utf8.utf8_le s t⟩

/-- the same with core Lean's definitions only (no Marwood definition in the statement): for Lean's
    reference encoder `String.utf8EncodeChar` the lexicographic order of the `UInt8` lists is the
    lexicographic order of the character lists, and the encoding of texts is injective -/
theorem utf8_order_core (s t : List Char) :
    (s.flatMap String.utf8EncodeChar < t.flatMap String.utf8EncodeChar ↔ s < t) ∧
    (s.flatMap String.utf8EncodeChar = t.flatMap String.utf8EncodeChar ↔ s = t) :=
  Utf8.utf8_order_core s t

/-- the model's `cmpText` IS Rust's `str::cmp` (bytewise) on the encodings -/
theorem cmpText_bytewise (s t : Text) :
    cmpText s t = Utf8.cmpBytes (Utf8.encodeText s) (Utf8.encodeText t) := by
  rw [Utf8.utf8_order, cmpText_eq_cmpPoints]

/-- each comparison operator of the model decides the corresponding bytewise relation of the
    encodings: `=` equality, `<` `>` strict lexicographic order, `<=` `>=` its reflexive closure -/
theorem cmpOp_bytewise (op : CmpOp) (s t : Text) :
    op.holds (cmpText s t) = true ↔ op.bytesRel (Utf8.encodeText s) (Utf8.encodeText t) := by
  rw [cmpText_bytewise]
  exact CmpOp.holds_cmpBytes op _ _

/-- the n-ary string predicates (`string=? string<? string>? string<=? string>=?`, and the `-ci`
    variants with `f` = case folding) are the conjunction over adjacent arguments of the *bytewise*
    comparison of the UTF-8 encodings of the `f`-images — the comparison `string.rs` performs -/
theorem stringComp_bytewise {s : Store} {args : List VCell} {ts : List Text} (f : Text → Text)
    (op : CmpOp) (h : AllStr s args ts) (hne : args ≠ []) :
    stringComp f op s args =
      .ok (s, .bool (Spec.chainHolds
        (fun x y => decide (op.bytesRel (Utf8.encodeText (f x)) (Utf8.encodeText (f y)))) ts)) := by
  rw [stringComp_ok f op h hne]
  have e : (fun x y => op.holds (cmpText (f x) (f y))) =
      (fun x y => decide (op.bytesRel (Utf8.encodeText (f x)) (Utf8.encodeText (f y)))) := by
    funext x y
    rw [Bool.eq_iff_iff, cmpOp_bytewise, decide_eq_true_iff]
  rw [e]

/-- the byte offset `char_indices().nth(k)` yields is the number of bytes the first `k` characters
    occupy in the encoding -/
theorem nthOffset_eq_encoded (cs : Text) {k : Nat} (h : k < cs.length) :
    nthOffset cs k 0 = some ((Utf8.encodeText (cs.take k)).length, cs[k]) := by
  rw [nthOffset_eq, dif_pos h, Utf8.encodeText_length]

theorem charOffset_eq_encoded (cs : Text) {k : Nat} (h : k < cs.length) :
    charOffset cs k = .ok (Utf8.encodeText (cs.take k)).length := by
  rw [charOffset_ok h, Utf8.encodeText_length]

theorem charOffsetInclusive_eq_encoded (cs : Text) {k : Nat} (h : k < cs.length) :
    charOffsetInclusive cs k = .ok (Utf8.encodeText (cs.take (k + 1))).length := by
  rw [charOffsetInclusive_ok h, Utf8.encodeText_length]

/-- `&s[a..b]` in the model: succeeds exactly when `a ≤ b` and both offsets pass
    `str::is_char_boundary` on the bytes (otherwise the modelled panic), and then returns the text
    whose bytes are bytes `a..b` -/
theorem strSlice_on_bytes (cs : Text) (a b : Nat) :
    ((∃ r, strSlice cs a b = .ok r) ↔
      a ≤ b ∧ Utf8.isCharBoundary (Utf8.encodeText cs) a = true ∧
        Utf8.isCharBoundary (Utf8.encodeText cs) b = true) ∧
    (∀ r, strSlice cs a b = .ok r →
      Utf8.encodeText r = ((Utf8.encodeText cs).drop a).take (b - a)) :=
  ⟨strSlice_ok_iff cs a b, fun _ h => strSlice_bytes h⟩

/-- `s.replace_range(a..b, new)` in the model: the same panic condition, and the resulting bytes are
    the bytes before `a`, the bytes of `new`, the bytes from `b` on -/
theorem replaceRange_on_bytes (cs new : Text) (a b : Nat) :
    ((∃ r, replaceRange cs a b new = .ok r) ↔
      a ≤ b ∧ Utf8.isCharBoundary (Utf8.encodeText cs) a = true ∧
        Utf8.isCharBoundary (Utf8.encodeText cs) b = true) ∧
    (∀ r, replaceRange cs a b new = .ok r →
      Utf8.encodeText r =
        (Utf8.encodeText cs).take a ++ Utf8.encodeText new ++ (Utf8.encodeText cs).drop b) :=
  ⟨replaceRange_ok_iff cs new a b, fun _ h => replaceRange_bytes h⟩


/-! ## Final_Sigma: `string-downcase` is context sensitive, the foldings are not

`string-downcase` is `str::to_lowercase` = `strLowerCtx` (capital sigma becomes `ς` at the end of a
word, `σ` elsewhere; `cased` / `caseIgnorable` of the table decide what a word is);
`string-foldcase` and `string-ci…?` use `strLower` (every character on its own, fix fbafd01). -/

/-- (a) on a string without U+03A3 `str::to_lowercase` is the per-character mapping -/
theorem downcase_ctx_eq_lower_of_no_sigma (T : CaseTable) (cs : Text) (h : capSigma ∉ cs) :
    strLowerCtx T cs = strLower T cs := lowerCtxGo_no_sigma T [] cs h

/-- (b) in general both are concatenations of one piece per source character; the pieces of
    `strLower` are the images `T.lower c`, and those of `str::to_lowercase` are the same except at a
    capital sigma, whose piece is `σ` or `ς` (`CtxPiece`) -/
theorem downcase_ctx_sigma_only (T : CaseTable) (cs : Text) :
    ∃ ps : List (List Char), strLowerCtx T cs = ps.flatten ∧
      strLower T cs = (cs.map T.lower).flatten ∧ All2 (CtxPiece T) cs ps := by
  obtain ⟨ps, h1, h2⟩ := lowerCtxGo_pieces T [] cs
  exact ⟨ps, h1, by simp [strLower, List.flatMap_def], h2⟩

/-- (b') for a table that maps `Σ` to `σ` (as Unicode does): the two results have the same length and
    agree position by position, except that `str::to_lowercase` may have `ς` where the
    per-character mapping has `σ` -/
theorem downcase_ctx_pointwise (T : CaseTable) (hσ : T.lower capSigma = [smallSigma]) (cs : Text) :
    All2 SigmaVariant (strLowerCtx T cs) (strLower T cs) :=
  lowerCtxGo_pointwise T hσ [] cs

theorem downcase_ctx_length (T : CaseTable) (hσ : T.lower capSigma = [smallSigma]) (cs : Text) :
    (strLowerCtx T cs).length = (strLower T cs).length ∧
    ∀ i (h1 : i < (strLowerCtx T cs).length) (h2 : i < (strLower T cs).length),
      SigmaVariant (strLowerCtx T cs)[i] (strLower T cs)[i] :=
  ⟨(downcase_ctx_pointwise T hσ cs).length_eq, (downcase_ctx_pointwise T hσ cs).get⟩

/-- (c) the folding used by `string-foldcase` and `string-ci…?` is context free: the image of a
    string does not depend on what follows or precedes it (what fix fbafd01 established) -/
theorem foldcase_context_free (T : CaseTable) (a b : Text) :
    strLower T (a ++ b) = strLower T a ++ strLower T b := by
  simp only [strLower, List.flatMap_append]

/-- hence strings of the same length whose characters have pairwise the same folding are
    `string-ci=?` -/
theorem string_ci_eq_of_pairwise (T : CaseTable) {a b : Text}
    (h : All2 (fun x y => T.lower x = T.lower y) a b) :
    CmpOp.eq.holds (cmpText (strLower T a) (strLower T b)) = true := by
  rw [strLower_congr T h, cmpText_self]
  rfl

/-- in terms of `char-ci=?` (`charFoldcase`): when the characters involved have one-character
    foldings, pairwise `char-ci=?` strings are `string-ci=?` -/
theorem string_ci_eq_of_char_ci_eq (T : CaseTable) {a b : Text}
    (h11 : ∀ x ∈ a ++ b, T.lower x = [charFoldcase T x])
    (h : All2 (fun x y => charFoldcase T x = charFoldcase T y) a b) :
    CmpOp.eq.holds (cmpText (strLower T a) (strLower T b)) = true := by
  apply string_ci_eq_of_pairwise
  induction h with
  | nil => exact .nil
  | cons h0 _ ih =>
    refine .cons ?_ (ih fun x hx => h11 x ?_)
    · rw [h11 _ (by simp), h11 _ (by simp), h0]
    · rcases List.mem_append.mp hx with m | m <;> simp [m]

/-- the same over the store: `(string-ci=? a b)` is `#t` -/
theorem stringCiEq_ok (T : CaseTable) {s : Store} {va vb : VCell} {ia ib : Nat} {a b : Text}
    (ha : IsStr s va ia a) (hb : IsStr s vb ib b)
    (h11 : ∀ x ∈ a ++ b, T.lower x = [charFoldcase T x])
    (h : All2 (fun x y => charFoldcase T x = charFoldcase T y) a b) :
    stringComp (strLower T) .eq s [va, vb] = .ok (s, .bool true) := by
  rw [stringComp_ok (strLower T) .eq (.cons ha (.cons hb .nil)) (by simp)]
  simp only [Spec.chainHolds, string_ci_eq_of_char_ci_eq T h11 h, Bool.and_self]

/-- a fragment of the Unicode tables: Α/α, Σ/σ/ς are cased letters, `.` and U+0301 are
    Case_Ignorable, everything else is uncased and maps to itself -/
def exCase : CaseTable where
  lower c := if c = 'Α' then ['α'] else if c = 'Σ' then ['σ'] else [c]
  upper c := if c = 'α' then ['Α'] else if c = 'σ' ∨ c = 'ς' then ['Σ'] else [c]
  alphabetic c := c == 'Α' || c == 'α' || c == 'Σ' || c == 'σ' || c == 'ς'
  numeric c := c == '1'
  whitespace c := c == ' '
  isLower c := c == 'α' || c == 'σ' || c == 'ς'
  isUpper c := c == 'Α' || c == 'Σ'
  cased c := c == 'Α' || c == 'α' || c == 'Σ' || c == 'σ' || c == 'ς'
  caseIgnorable c := c == '.' || c == '́'

/-- (d) `str::to_lowercase` is NOT context free: "ΑΣ" ↦ "ας", "Α" ↦ "α", but "ΑΣΑ" ↦ "ασα" -/
theorem final_sigma_context_sensitive :
    ∃ (T : CaseTable) (a b : Text),
      strLowerCtx T (a ++ b) ≠ strLowerCtx T a ++ strLowerCtx T b :=
  ⟨exCase, ['Α', 'Σ'], ['Α'], by decide⟩

/-- … and used as a folding (string.rs before fix fbafd01) it made `string-ci=?` disagree with
    `char-ci=?`: "ΑΣ" and "ασ" are pairwise equal under the per-character folding, and
    `string-ci=?` under `strLower`, but not under `strLowerCtx` -/
theorem final_sigma_breaks_ci :
    All2 (fun x y => exCase.lower x = exCase.lower y) ['Α', 'Σ'] ['α', 'σ'] ∧
    CmpOp.eq.holds (cmpText (strLower exCase ['Α', 'Σ']) (strLower exCase ['α', 'σ'])) = true ∧
    CmpOp.eq.holds (cmpText (strLowerCtx exCase ['Α', 'Σ']) (strLowerCtx exCase ['α', 'σ'])) = false :=
  ⟨.cons (by decide) (.cons (by decide) .nil), by decide, by decide⟩

/-! ## the hypotheses are satisfiable: a concrete store

`ptr 0` is the string `"aλ€🐶"` (1-, 2-, 3- and 4-byte characters), `ptr 1` the empty string,
`ptr 5` the list `(#\a #\λ)`, `ptr 7` the improper list `(#\a . #\λ)`, `ptr 6` the vector `#(#\a #\🐶)`. -/

def exText : Text := ['a', 'λ', '€', '🐶']

def exStore : Store :=
  { cells := [.str 0, .str 1, .char 'a', .char 'λ', .pair 3 8, .pair 2 4, .vec 0, .pair 2 3, .nil],
    vecs := [[.char 'a', .char '🐶']],
    strs := [exText, []] }

theorem ex_str : IsStr exStore (.ptr 0) 0 exText := ⟨rfl, rfl⟩
theorem ex_empty : IsStr exStore (.ptr 1) 1 [] := ⟨rfl, rfl⟩
theorem ex_idx (k : Nat) (h : k < usizeLimit := by decide) : IsIndex exStore (.num k) k := ⟨rfl, h⟩
theorem ex_notIdx : NotIndex exStore (.num (-1)) := ⟨_, rfl, fun k _ h => by cases h⟩
theorem ex_char (c : Char) : exStore.get (.char c) = .ok (.char c) := rfl
theorem ex_list : IsList exStore (.ptr 5) [2, 3] := .cons rfl (.cons rfl (.nil rfl))
theorem ex_chars : CharsAt exStore [2, 3] ['a', 'λ'] := .cons rfl (.cons rfl .nil)

example : nthOffset exText 3 0 = some (6, '🐶') := by decide
example := stringRef_contents (cs := exText) (k := 3) (by decide)
example := stringRef_contents_err (cs := []) (k := 0) (by decide)
-- a 1-byte character replaces a 4-byte one, a 4-byte one replaces a 1-byte one
example := stringSet_contents (cs := exText) (k := 3) 'x' (by decide)
example := stringSet_contents (cs := exText) (k := 0) '🐶' (by decide)
example := stringSet_contents_err (cs := exText) (k := 4) 'x' (by decide)
example := substring_contents (cs := exText) (start := some 1) (end_ := some 3) ⟨fun _ => rfl, by decide, by decide⟩
example := substring_contents (cs := exText) (start := some 4) (end_ := none) ⟨by simp, by decide, by decide⟩
example := substring_contents_err (cs := exText) (st := 5) (some 5) (by decide)
example := substring_contents_err (cs := exText) (st := 3) (some 7) (by decide)
example := stringFill_contents (cs := exText) (start := some 1) (end_ := some 3) 'é' ⟨fun _ => rfl, by decide, by decide⟩
example := stringFill_contents_err (cs := exText) (st := 5) 'x' none (by decide)
example := stringLength_ok ex_str
example := stringRef_ok ex_str (ex_idx 1) (by decide)
example := stringRef_err_range ex_empty (ex_idx 0) (by decide)
example := stringRef_err_index (v := .ptr 0) ex_notIdx
example := stringSet_ok ex_str (ex_idx 2) (ex_char 'z') (by decide)
example := stringSet_err_range ex_empty (ex_idx 0) (ex_char 'z') (by decide)
example := stringRef_stringSet (r := .void)
  (s' := { exStore with strs := [['a', 'λ', 'z', '🐶'], []] }) ex_str (ex_idx 2) (ex_char 'z')
  (by decide) rfl
example := stringCopy_ok ex_str (ex_idx 1) (ex_idx 4) (by decide) (by decide)
example := stringCopy_err ex_str (ex_idx 5) (ex_idx 5) (by decide)
example := stringFill_ok ex_str (ex_char '🐶') (ex_idx 0) (ex_idx 2) (by decide) (by decide)
example := stringFill_err ex_str (ex_char '🐶') (ex_idx 3) (ex_idx 1) (by decide)
example := makeString_ok (ex_idx 3) (ex_char 'λ') (by decide)
example := string_ok (s := exStore) (args := [.char 'a', .ptr 3]) (.cons rfl (.cons rfl .nil))
example := stringAppend_ok (s := exStore) (args := [.ptr 0, .ptr 1, .ptr 0])
  (.cons ex_str (.cons ex_empty (.cons ex_str .nil)))
example := stringComp_ok (s := exStore) (args := [.ptr 1, .ptr 0, .ptr 0]) id .le
  (.cons ex_empty (.cons ex_str (.cons ex_str .nil))) (by simp)
example := charComp_ok (s := exStore) (args := [.char 'a', .ptr 3]) id .lt
  (.cons rfl (.cons rfl .nil)) (by simp)
example := popString_err (s := exStore) (v := .ptr 2) (c := .char 'a') rfl (fun _ h => by cases h)
example := listToString_ok (fuel := 5) ex_list ex_chars (by decide)
example := listToString_err (s := exStore) (v := .ptr 7) (fuel := 5) (rest := []) (ccs := [])
  rfl (.done rfl rfl) rfl .nil rfl (by decide)
example := vectorToString_ok (s := exStore) (v := .ptr 6) ⟨rfl, rfl⟩ (.cons rfl (.cons rfl .nil))
example := stringToVector_ok ex_str
example := stringCase_ok (fun t => t ++ t) ex_str
example := integerToChar_ok (s := exStore) (v := .num 955) (k := 955) rfl (by decide)
example := integerToChar_err (s := exStore) (v := .num 0xD800) rfl (Or.inr (by decide))
example := integerToChar_err (s := exStore) (v := .num 0x110000) rfl (Or.inr (by decide))
example := integerToChar_err (s := exStore) (v := .num (-1)) rfl (Or.inl (by decide))
example := charToInteger_ok (s := exStore) (v := .ptr 3) rfl
example := integerToChar_charToInteger exStore '🐶'
example := charUpcase_ascii ⟨fun _ => [], fun _ => [], fun _ => false, fun _ => false, fun _ => false, fun _ => false, fun _ => false, fun _ => false, fun _ => false⟩ 'q' (by decide)

-- the bytes of "aλ€🐶": 61 | CE BB | E2 82 AC | F0 9F 90 B6
example : Utf8.encodeText exText = [0x61, 0xCE, 0xBB, 0xE2, 0x82, 0xAC, 0xF0, 0x9F, 0x90, 0xB6] := by decide
example : Utf8.cmpBytes (Utf8.encodeText ['€']) (Utf8.encodeText ['🐶']) = .lt := by decide
-- U+FFFD < U+1F436 by code point and bytewise in UTF-8 (EF BF BD < F0 9F 90 B6); in UTF-16 code units the order is the opposite
example := cmpOp_bytewise .lt ['\uFFFD'] ['🐶']
example := nthOffset_eq_encoded exText (k := 3) (by decide)
example : Utf8.isCharBoundary (Utf8.encodeText exText) 3 = true := by decide
example : Utf8.isCharBoundary (Utf8.encodeText exText) 4 = false := by decide
example := stringComp_bytewise (s := exStore) (args := [.ptr 1, .ptr 0, .ptr 0]) id .le
  (.cons ex_empty (.cons ex_str (.cons ex_str .nil))) (by simp)

-- Final_Sigma on the table fragment: word-final, -initial, -medial, alone, doubled, across
-- Case_Ignorable characters, next to uncased ones
example : strLowerCtx exCase ['Α', 'Σ'] = ['α', 'ς'] := by decide
example : strLowerCtx exCase ['Σ', 'Α'] = ['σ', 'α'] := by decide
example : strLowerCtx exCase ['Α', 'Σ', 'Α'] = ['α', 'σ', 'α'] := by decide
example : strLowerCtx exCase ['Σ'] = ['σ'] := by decide
example : strLowerCtx exCase ['Σ', 'Σ'] = ['σ', 'ς'] := by decide
example : strLowerCtx exCase ['Α', '.', 'Σ'] = ['α', '.', 'ς'] := by decide
example : strLowerCtx exCase ['Α', 'Σ', '́', 'Α'] = ['α', 'σ', '́', 'α'] := by decide
example : strLowerCtx exCase ['Α', 'Σ', '.'] = ['α', 'ς', '.'] := by decide
example : strLowerCtx exCase ['1', 'Σ'] = ['1', 'σ'] := by decide
example : strLowerCtx exCase ['Α', 'Σ', ' ', 'Α'] = ['α', 'ς', ' ', 'α'] := by decide
example : strLower exCase ['Α', 'Σ'] = ['α', 'σ'] := by decide
example := downcase_ctx_eq_lower_of_no_sigma exCase ['Α', 'σ', 'ς'] (by decide)
example := downcase_ctx_pointwise exCase rfl ['Α', 'Σ']
example := string_ci_eq_of_char_ci_eq exCase (a := ['Α', 'Σ']) (b := ['α', 'σ'])
  (by decide) (.cons (by decide) (.cons (by decide) .nil))

end Marwood.Proofs.C15
