import Marwood.Lemmas.NumEqv
import Marwood.Lemmas.NumEqvBits
import Marwood.Spec.StoreTree
/-!
# C14 — `eqv?` / `equal?` on numbers (second proof module of C14)

Property theorems only, namespace `Marwood.Proofs.C14` like `Proofs/C14.lean`. A separate file because
the exact/exact pairs rest on C09's `Cmp.eq_spec` (`Lemmas/NumCmp.lean`, which imports single Mathlib
modules), while `Proofs/C14.lean` and everything it imports is core Lean only (its source does not
parse under Mathlib's notation: `to` becomes a keyword). The plugin lists both modules.
-/
namespace Marwood.Proofs.C14
open Marwood Marwood.Store

/-! ## `eqv?` / `equal?` on numbers: exactness, representations, bit patterns (fix 22cce75)

Model: `Marwood.Eqv.eqvNum`, the number arm of `Vm::eqv` (`compare.rs`) over the four representations
of `Number` (`Num`: fixnum, bignum, `Ratio<i32>`, double as its bit pattern); specification:
`Marwood.NumSpec.eqvSpec` (R7RS 6.1). The store model above carries exact integers only
(`VCell.num : Int`); `atom_num_eqv_is_eqvNum` says its leaf test is `eqvNum` on those. The numeric
leaf test in all representations is tied to the Rust code by the stream `eqv-numbers`. -/

section EqvNumbers
open Marwood.Eqv Marwood.NumSpec

/-- the number arm of `Vm::eqv` computes R7RS `eqv?`: for well-formed numbers in all 16 pairs of
    representations it answers #t exactly when both have the same exactness and, if exact, the same
    value in ℚ, if inexact, the same bits. No guard is needed: the `false` that `PartialEq for Number`
    gives a fixnum/bignum outside i32 against a `Ratio<i32>` is right for reduced ratios. -/
theorem eqvNum_iff_spec (a b : Num) (ha : a.WF = true) (hb : b.WF = true) :
    eqvNum a b = true ↔ eqvSpec a b :=
  eqvNum_spec a b ha hb

/-- the driver's oracle is the same function -/
theorem eqvNum_eq_oracle (a b : Num) (ha : a.WF = true) (hb : b.WF = true) :
    eqvNum a b = eqvSpecB a b :=
  eqvNum_eq_specB a b ha hb

/-- numbers that are `eqv?` have the same exactness (every representation, well-formed or not) -/
theorem eqvNum_exactness (a b : Num) (h : eqvNum a b = true) : isExact a = isExact b := by
  cases a <;> cases b <;> first | rfl | (simp [eqvNum] at h)

/-- every number is `eqv?` to itself — a NaN too (same bits); no well-formedness needed -/
theorem eqvNum_refl (a : Num) : eqvNum a a = true := Eqv.eqvNum_refl a

theorem eqvNum_symm (a b : Num) : eqvNum a b = eqvNum b a := Eqv.eqvNum_symm a b

theorem eqvNum_trans (a b c : Num) (ha : a.WF = true) (hb : b.WF = true) (hc : c.WF = true)
    (h1 : eqvNum a b = true) (h2 : eqvNum b c = true) : eqvNum a c = true :=
  Eqv.eqvNum_trans a b c ha hb hc h1 h2

/-- two exact numbers with the same value are `eqv?` whatever representations carry them (fixnum,
    bignum, integer-valued ratio) -/
theorem eqvNum_representation_independent (a b : Num) (ha : a.WF = true) (hb : b.WF = true)
    (ea : isExact a = true) (eb : isExact b = true) (hv : val a = val b) : eqvNum a b = true :=
  (eqvNum_spec a b ha hb).mpr ((eqvSpec_exact a b ea eb).mpr hv)

/-- and conversely exact numbers that are `eqv?` have the same value -/
theorem eqvNum_exact_value (a b : Num) (ha : a.WF = true) (hb : b.WF = true)
    (ea : isExact a = true) (eb : isExact b = true) (h : eqvNum a b = true) : val a = val b :=
  (eqvSpec_exact a b ea eb).mp ((eqvNum_spec a b ha hb).mp h)

/-- two doubles are `eqv?` iff they are the same bit pattern -/
theorem eqvNum_inexact (x y : F64) : eqvNum (.flo x) (.flo y) = true ↔ x = y := by
  cases x; cases y; simp [eqvNum]

/-- R7RS words `eqv?` on inexact numbers as "numerically equal and indistinguishable"; the code compares
    bits. For doubles that are not NaN these agree: the same bits iff `=` holds (the model `Cmp.eq` of `==`
    on two doubles, IEEE equality of the decoded values) and the sign bits are equal — the decoder is
    injective up to the two zeros, which `(/ 1 x)` tells apart. -/
theorem eqvNum_inexact_iff_equal_and_same_sign (x y : F64) (hx : (Num.flo x).WF = true)
    (hy : (Num.flo y).WF = true) (nx : Fl.isNaN x = false) (ny : Fl.isNaN y = false) :
    eqvNum (.flo x) (.flo y) = true ↔
      Cmp.eq (.flo x) (.flo y) = true ∧ Fl.signBit x = Fl.signBit y := by
  have hx' : x.bits < 2 ^ 64 := by simpa [Num.WF] using hx
  have hy' : y.bits < 2 ^ 64 := by simpa [Num.WF] using hy
  have h := Fl.bits_eq_iff x y hx' hy' nx ny
  simp only [eqvNum, Cmp.eq, beq_iff_eq]
  exact h

/-- an exact and an inexact number are never `eqv?` -/
theorem eqvNum_mixed (a b : Num) (h : isExact a ≠ isExact b) : eqvNum a b = false := by
  cases hab : eqvNum a b
  · rfl
  · exact absurd (eqvNum_exactness a b hab) h

/-- `(eqv? 0.0 -0.0)` ⟹ #f -/
theorem eqv_zero_negzero : eqvNum (.flo (Fl.zero false)) (.flo (Fl.zero true)) = false := by decide

/-- `(eqv? 2 2.0)` ⟹ #f (2.0 = 0x4000000000000000), in every exact representation of 2 -/
theorem eqv_exact_inexact :
    eqvNum (.fix 2) (.flo ⟨0x4000000000000000⟩) = false ∧
    eqvNum (.big 2) (.flo ⟨0x4000000000000000⟩) = false ∧
    eqvNum (.rat 2 1) (.flo ⟨0x4000000000000000⟩) = false ∧
    eqvNum (.flo ⟨0x4000000000000000⟩) (.fix 2) = false := ⟨rfl, rfl, rfl, rfl⟩

/-- `(eqv? 1/2 0.5)` ⟹ #f and `(eqv? 2 4/2)` ⟹ #t for a bignum 2 against the ratio 2/1 -/
theorem eqv_half_and_ratio :
    eqvNum (.rat 1 2) (.flo ⟨0x3fe0000000000000⟩) = false ∧ eqvNum (.big 2) (.rat 2 1) = true := by
  decide

/-- before the fix the arm was numeric equality: these are the answers the pinned code gave, and
    they violate the specification (the property was false of the code before 22cce75) -/
theorem eqvNumPinned_violates :
    eqvNumPinned (.fix 2) (.flo ⟨0x4000000000000000⟩) = true ∧
      ¬ eqvSpec (.fix 2) (.flo ⟨0x4000000000000000⟩) := by
  refine ⟨by decide +kernel, ?_⟩
  intro h; exact absurd h.1 (by decide)

/-- the leaf test of the store model (exact integers only) is `eqvNum` on a fixnum or bignum carrier -/
theorem atom_num_eqv_is_eqvNum (a b : Int) :
    Atom.eqv (.num a) (.num b) = eqvNum (.big a) (.big b) ∧
    Atom.eqv (.num a) (.num b) = eqvNum (.fix a) (.fix b) ∧
    Atom.eqv (.num a) (.num b) = eqvNum (.fix a) (.big b) := ⟨rfl, rfl, rfl⟩

/-! ### the lift to `equal?`, `memv`/`member`, `assv`/`assoc` (`NTree`: data with numeric leaves) -/

/-- `equal?` on two numbers is `eqv?` -/
theorem equal_num_leaf (x y : Num) : NTree.equal eqvNum (.num x) (.num y) = eqvNum x y :=
  ntree_equal_num eqvNum x y

/-- `(equal? (list 1 x) (list 1 y))` and `(equal? (vector x) (vector y))` are `(eqv? x y)` -/
theorem equal_num_in_list_and_vector (x y : Num) :
    NTree.equal eqvNum (NTree.list [.num (.fix 1), .num x]) (NTree.list [.num (.fix 1), .num y])
      = eqvNum x y ∧
    NTree.equal eqvNum (.vec [.num x]) (.vec [.num y]) = eqvNum x y :=
  ⟨ntree_equal_list2 eqvNum (.fix 1) x y rfl, ntree_equal_vec1 eqvNum x y⟩

/-- `equal?` on trees with numeric leaves is reflexive (NaN leaves included) -/
theorem equal_num_tree_refl (t : NTree) : NTree.equal eqvNum t t = true :=
  ntree_equal_refl eqvNum Eqv.eqvNum_refl t

/-- `(memv x (list y))`, `(member x (list y))`, `(assv x (list (cons y 1)))`, `(assoc x …)` find
    their entry exactly when `(eqv? x y)` -/
theorem mem_ass_num (x y : Num) :
    memTest eqvNum x y = eqvNum x y ∧
    memTest (fun a b => NTree.equal eqvNum (.num a) (.num b)) x y = eqvNum x y ∧
    assTest eqvNum x y = eqvNum x y ∧
    assTest (fun a b => NTree.equal eqvNum (.num a) (.num b)) x y = eqvNum x y := by
  simp [memTest, assTest, ntree_equal_num]

/-- on well-formed numbers all of these are the specification -/
theorem equal_num_leaf_spec (x y : Num) (hx : x.WF = true) (hy : y.WF = true) :
    NTree.equal eqvNum (.num x) (.num y) = true ↔ eqvSpec x y := by
  rw [equal_num_leaf]; exact eqvNum_spec x y hx hy

/-- the hypotheses are satisfiable and the statement is not vacuous: 2^40 as fixnum and as bignum,
    2 as bignum and as ratio, and a NaN -/
example : eqvNum (.fix 1099511627776) (.big 1099511627776) = true := by decide
example : (Num.rat 2 1).WF = true ∧ (Num.big 2).WF = true ∧ (Num.flo ⟨0x7ff8000000000000⟩).WF = true := by
  decide
example : eqvNum (.flo ⟨0x7ff8000000000000⟩) (.flo ⟨0x7ff8000000000000⟩) = true := by decide
example : eqvNum (.flo ⟨0x7ff8000000000000⟩) (.flo ⟨0x7ff8000000000001⟩) = false := by decide

end EqvNumbers

end Marwood.Proofs.C14
