import Marwood.Lemmas.Depth
import Marwood.Lemmas.DepthGraph
/-!
# C19 — depth is limited by memory, not by the host's native stack

Native stack consumption = recursion depth × frame size; a stack overflow is a runtime event no
model exhibits. What is logic — and what these theorems are about — is the recursion **depth** of
every natively recursive function on the grid's paths as a function of its input
(`Marwood.Depth`, tied to the code by the depth counters of the hook `verif::depth`).

* `closedForm_eq_model` — for each of the 7 instrumented functions and each of the 6 nesting
  directions the model's depth on `nest dir n` equals a closed form, for every `n`.
* T19.b — the loop directions: along cdr (a list of atoms, a list of shallow aggregates, a dotted
  list) the reader, `get_as_cell`, the marker, `equal?` and the printer never hold more than 6
  frames, whatever the length.
* T19.u — every other (function, direction): at least `n` frames at nesting `n`; no finite native
  stack is enough, so the property cannot hold for a scenario whose path contains such a pair
  (these are the known findings; the child processes exhibit the aborts).

* T19.u on heap GRAPHS — `T19_u_closure_chain`, `T19_u_continuation_chain`: the marker modelled on the C03 heap
  model (`markDepthHeap`: `mark` / `mark_vcell` / `mark_lambda` / `mark_continuation`, with the mark bits) holds
  `5·n` frames on a chain of `n` closures (closure → environment → activation environment → closure → …) and
  `3·n + 3` on a chain of `n` continuations, each saved on the stack of the next: both unbounded.

The property itself ("the host process is never aborted") is false on the pinned tree for most of
the grid; there is therefore no `_partial` positive theorem — the T19.u statements are the proved
obstructions, one per (operation, direction).
-/
namespace Marwood.Proofs.C19
open Marwood Marwood.Depth

/-! ### reader closed forms (fuel discharged) -/

theorem parse_car (n : Nat) : parseDepth (nestToks .car n) = some (2 * n + 2) := by
  have h := parseD_car n (parseFuel (carToks n [])) 1 []
    (by simp only [parseFuel, length_carToks]; omega)
  simp only [parseDepth, nestToks, h]; simp; omega

theorem parse_vec (n : Nat) : parseDepth (nestToks .vec n) = some (2 * n + 2) := by
  have h := parseD_vec n (parseFuel (vecToks n [])) 1 []
    (by simp only [parseFuel, length_vecToks]; omega)
  simp only [parseDepth, nestToks, h]; simp; omega

theorem parse_quote (n : Nat) : parseDepth (nestToks .quote n) = some (n + 1) := by
  have h := parseD_quote n (parseFuel (quoteToks n [])) 1 []
    (by simp only [parseFuel, length_quoteToks]; omega)
  simp only [parseDepth, nestToks, h]; simp; omega

theorem parse_cdr (n : Nat) : parseDepth (nestToks .cdr n) = some (if n = 0 then 2 else 3) := by
  have h := parseD_cdr n (parseFuel (.lp :: atoms n [.rp]))
    (by simp only [parseFuel, List.length_cons, length_atoms]; omega)
  simp only [parseDepth, nestToks, h]; simp

theorem parse_cdrPairs (n : Nat) :
    parseDepth (nestToks .cdrPairs n) = some (if n = 0 then 2 else 6) := by
  have h := parseD_cdrPairs n (parseFuel (.lp :: pairsToks n [.rp]))
    (by have := (length_pairsToks n [.rp]).2
        simp only [parseFuel, List.length_cons, List.length_nil] at *; omega)
  simp only [parseDepth, nestToks, h]; simp

theorem parse_cdrDotted (n : Nat) :
    parseDepth (nestToks .cdrDotted n) = some (if n = 0 then 1 else 4) := by
  have h := parseD_cdrDotted n (parseFuel (dottedToks n))
    (by simp only [parseFuel, length_dottedToks]; split <;> omega)
  simp only [parseDepth, nestToks, h]; simp

/-- the model of every instrumented function on every family has the closed form the driver
    answers with — for every `n` -/
theorem closedForm_eq_model (f : Fn) (d : Dir) (n : Nat) :
    modelDepth f d n = some (closedForm f d n) := by
  cases f <;> cases d <;>
    simp only [modelDepth, closedForm, parse_car, parse_cdr, parse_vec, parse_quote,
      putCellDepth, maybePut_car, maybePut_cdr, maybePut_vec, maybePut_quote,
      getAsCellDepth, getVal_car, getVal_cdr, getVal_vec, getVal_quote,
      markDepth, markIn_car, markIn_cdr, markIn_vec, markIn_quote,
      equal_car, equal_cdr, equal_vec, equal_quote,
      display_car, display_cdr, display_vec, display_quote,
      drop_car, drop_cdr, drop_vec, drop_quote,
      parse_cdrPairs, parse_cdrDotted, maybePut_cdrPairs, maybePut_cdrDotted,
      getVal_cdrPairs, getVal_cdrDotted, markIn_cdrPairs, markIn_cdrDotted,
      equal_cdrPairs, equal_cdrDotted, display_cdrPairs, display_cdrDotted,
      drop_cdrPairs, drop_cdrDotted] <;>
    first
      | rfl
      | (congr 1; omega)
      | (by_cases h : n = 0 <;> simp [h] <;> omega)

/-- **T19.b** — the loop directions are bounded: along cdr — a list of atoms, a list of shallow
    aggregates (pairs, small vectors), a dotted list — the reader, `get_as_cell`, the marker,
    `equal?` and the printer hold at most `loopBound = 6` native frames for a list of any length -/
theorem T19_b_cdr (f : Fn) (d : Dir) (n : Nat) (hb : bounded f d = true) :
    ∃ k, modelDepth f d n = some k ∧ k ≤ loopBound := by
  refine ⟨closedForm f d n, closedForm_eq_model f d n, ?_⟩
  cases f <;> cases d <;> simp [bounded] at hb <;> simp only [closedForm, loopBound] <;>
    split <;> omega

/-- **T19.u** — every other (function, direction) needs at least `n` native frames at nesting
    depth `n`: for every stack size there is an input that exhausts it -/
theorem T19_u_unbounded (f : Fn) (d : Dir) (n : Nat) (hb : bounded f d = false) :
    ∃ k, modelDepth f d n = some k ∧ n ≤ k := by
  refine ⟨closedForm f d n, closedForm_eq_model f d n, ?_⟩
  cases f <;> cases d <;> simp [bounded] at hb <;> simp only [closedForm] <;>
    first | omega | (split <;> omega)

/-- the table `bounded` is exactly "the closed form stays below `loopBound` for every `n`" -/
theorem bounded_iff_closedForm_le (f : Fn) (d : Dir) :
    bounded f d = true ↔ ∀ n, closedForm f d n ≤ loopBound := by
  constructor
  · intro hb n
    obtain ⟨k, hk, hle⟩ := T19_b_cdr f d n hb
    rw [closedForm_eq_model] at hk
    cases hk; exact hle
  · intro h
    cases hb : bounded f d with
    | true => rfl
    | false =>
      obtain ⟨k, hk, hle⟩ := T19_u_unbounded f d 7 hb
      rw [closedForm_eq_model] at hk
      cases hk
      have := h 7
      simp only [loopBound] at this
      omega

/-- **T19.u (read, cdr written with dots)** — `(1 . (1 . … ()))` costs three frames per level:
    the cdr direction is a loop only for the list notation -/
theorem T19_u_read_dot (n : Nat) : parseDepth (dotToks n []) = some (3 * n + 2) := by
  have h := parseD_dot n (parseFuel (dotToks n [])) 1 []
    (by simp only [parseFuel, length_dotToks]; simp; omega)
  simp only [parseDepth, h]; simp; omega

/-- **T19.u (read, nested expressions)** — `(+ 1 (+ 1 … 0))` -/
theorem T19_u_read_app (n : Nat) : parseDepth (appToks n []) = some (2 * n + 1) := by
  have h := parseD_app n (parseFuel (appToks n [])) 1 []
    (by simp only [parseFuel, length_appToks]; simp; omega)
  simp only [parseDepth, h]; simp; omega

/-- **T19.u (compile, nested applications)** — macro pass two frames per level, code generation
    three -/
theorem T19_u_compile_app (n : Nat) :
    transformDepth (nestApp n) = 2 * n + 1 ∧ compileExprDepth (nestApp n) = 3 * n + 1 ∧
    compileDepth (nestApp n) = 3 * n + 1 := by
  refine ⟨transform_app n, compileExpr_app n, ?_⟩
  simp only [compileDepth, transform_app, compileExpr_app]; omega

/-- **T19.u (compile, nested lambdas)** — `((lambda () ((lambda () … 0))))` -/
theorem T19_u_compile_lambda (n : Nat) :
    transformDepth (nestLambda n) = 4 * n + 1 ∧ compileExprDepth (nestLambda n) = 6 * n + 1 ∧
    compileDepth (nestLambda n) = 6 * n + 1 := by
  refine ⟨transform_lambda n, compileExpr_lambda n, ?_⟩
  simp only [compileDepth, transform_lambda, compileExpr_lambda]; omega

/-- **T19.u (quote-evaluate, every direction)** — `compile_quote` stores the datum with
    `maybe_put_cell`, which recurses on car *and* cdr: even a flat list of `n` elements needs `n`
    frames, so evaluating a quoted datum is unbounded in all six directions -/
theorem T19_u_quote_evaluate (d : Dir) (n : Nat) : n ≤ maybePutDepth (nest d n) := by
  cases d
  · rw [maybePut_car]; omega
  · rw [maybePut_cdr]; omega
  · rw [maybePut_vec]; omega
  · rw [maybePut_quote]; omega
  · rw [maybePut_cdrPairs]; split <;> omega
  · rw [maybePut_cdrDotted]; omega

/-- **write, cdr direction** — every counted cluster on the path of `(write x)` for a flat list is
    bounded (marker ≤ 2, `get_as_cell` ≤ 4, printer ≤ 2 frames), and yet the scenario aborts at
    10⁵ on a 2 MiB thread: the datum converted for printing is destroyed by drop glue that recurses
    along cdr (`n + 1` frames) -/
theorem T19_b_write_cdr_fails_only_in_drop (n : Nat) :
    markDepth (nest .cdr n) ≤ 2 ∧ getAsCellDepth (nest .cdr n) ≤ 4 ∧
    displayDepth (nest .cdr n) ≤ 2 ∧ dropDepth (nest .cdr n) = n + 1 := by
  refine ⟨?_, ?_, ?_, drop_cdr n⟩
  · simp only [markDepth, markIn_cdr]; split <;> omega
  · simp only [getAsCellDepth, getVal_cdr]; split <;> omega
  · simp only [display_cdr]; split <;> omega

/-- **T19.b, every datum** — the marker's native depth is governed by the car / vector nesting of
    the datum alone, whatever the lengths of its lists: `carNest x + 1 ≤ markDepth x ≤ 2·carNest x + 1`
    (`carNest`: the largest number of car or vector-element steps on a path; cdr steps are free) -/
theorem T19_b_mark_every_datum (x : Datum) :
    carNest x + 1 ≤ markDepth x ∧ markDepth x ≤ 2 * carNest x + 1 := by
  have h := (markIn_carNest x).1
  simp only [markDepth]; omega

/-- **T19.b, every datum, every loop function** — `get_as_cell`, `equal?` and the printer, like
    the marker, are bounded by the car / vector nesting alone -/
theorem T19_b_every_datum (x : Datum) :
    markDepth x ≤ 2 * carNest x + 1 ∧ getAsCellDepth x ≤ 3 * carNest x + 3 ∧
    equalDepth x ≤ 4 * carNest x + 4 ∧ displayDepth x ≤ 2 * carNest x + 2 := by
  refine ⟨(T19_b_mark_every_datum x).2, ?_, (equal_carNest x).1, (display_carNest x).1⟩
  have := (get_carNest x).1
  simp only [getAsCellDepth]; omega

/-- … hence a constant for every list of atoms, of any length (the cdr direction of the grid with
    arbitrary atomic elements) -/
theorem T19_b_flat_lists (xs : List Datum) (h : ∀ x ∈ xs, carNest x = 0) :
    markDepth (Datum.ofList xs) ≤ 3 ∧ getAsCellDepth (Datum.ofList xs) ≤ 6 ∧
    equalDepth (Datum.ofList xs) ≤ 8 ∧ displayDepth (Datum.ofList xs) ≤ 4 := by
  have hc := carNest_flat xs h
  have := T19_b_every_datum (Datum.ofList xs)
  omega

/-- **T19.b, lists of shallow aggregates and dotted lists of any length** — a list (proper, or
    dotted with tail `t`) whose elements are car-nested at most `k` deep holds at most a number of
    frames that depends on `k` alone in the marker, `get_as_cell`, `equal?` (two separately built
    copies) and the printer: the cdr spine is a loop whatever the elements and whatever ends it.
    `k = 1`: association lists, lists of flat lists, lists of flat vectors. -/
theorem T19_b_shallow_lists (xs : List Datum) (t : Datum) (k : Nat)
    (h : ∀ x ∈ xs, carNest x ≤ k) (ht : carNest t ≤ k + 1) :
    markDepth (Datum.ofListTail xs t) ≤ 2 * k + 3 ∧
    getAsCellDepth (Datum.ofListTail xs t) ≤ 3 * k + 6 ∧
    equalDepth (Datum.ofListTail xs t) ≤ 4 * k + 8 ∧
    displayDepth (Datum.ofListTail xs t) ≤ 2 * k + 4 := by
  have hc := carNest_ofListTail xs t k h ht
  have := T19_b_every_datum (Datum.ofListTail xs t)
  omega

/-- **T19.b (cdr-of-pairs)** — the grid's list of `n` fresh aggregates `(1 . 2)`, `#(1 2)`: every
    counted cluster on the paths of read / build / gc / equal? / write holds a constant number of
    frames for every `n` (in particular `equal?` on two separately built copies: 5, not `2 n`),
    while drop glue and `maybe_put_cell` need `n` -/
theorem T19_b_cdr_of_pairs (n : Nat) :
    parseDepth (nestToks .cdrPairs n) = some (if n = 0 then 2 else 6) ∧
    getAsCellDepth (nest .cdrPairs n) ≤ 6 ∧ markDepth (nest .cdrPairs n) ≤ 3 ∧
    equalDepth (nest .cdrPairs n) ≤ 5 ∧ displayDepth (nest .cdrPairs n) ≤ 3 ∧
    n ≤ dropDepth (nest .cdrPairs n) ∧ n ≤ maybePutDepth (nest .cdrPairs n) := by
  refine ⟨parse_cdrPairs n, ?_, ?_, ?_, ?_, ?_, ?_⟩
  · simp only [getAsCellDepth, getVal_cdrPairs]; split <;> omega
  · simp only [markDepth, markIn_cdrPairs]; split <;> omega
  · simp only [equal_cdrPairs]; split <;> omega
  · simp only [display_cdrPairs]; split <;> omega
  · simp only [drop_cdrPairs]; split <;> omega
  · simp only [maybePut_cdrPairs]; split <;> omega

/-- **T19.b (cdr-dotted)** — `(1 … 1 . 2)` with `n` ones: the reader (through
    `parse_improper_list_tail`), `get_as_cell` (improper-tail arm), the marker, `equal?` and the
    printer hold at most 4 frames for every `n`; drop glue and `maybe_put_cell` need `n` -/
theorem T19_b_cdr_dotted (n : Nat) :
    parseDepth (nestToks .cdrDotted n) = some (if n = 0 then 1 else 4) ∧
    getAsCellDepth (nest .cdrDotted n) ≤ 4 ∧ markDepth (nest .cdrDotted n) ≤ 2 ∧
    equalDepth (nest .cdrDotted n) ≤ 3 ∧ displayDepth (nest .cdrDotted n) ≤ 2 ∧
    n ≤ dropDepth (nest .cdrDotted n) ∧ n ≤ maybePutDepth (nest .cdrDotted n) := by
  refine ⟨parse_cdrDotted n, ?_, ?_, ?_, ?_, ?_, ?_⟩
  · simp only [getAsCellDepth, getVal_cdrDotted]; split <;> omega
  · simp only [markDepth, markIn_cdrDotted]; split <;> omega
  · simp only [equal_cdrDotted]; split <;> omega
  · simp only [display_cdrDotted]; split <;> omega
  · simp only [drop_cdrDotted]; omega
  · simp only [maybePut_cdrDotted]; omega

/-- **T19.u, every list** — destroying or storing *any* list of `n` elements (not only the
    families) needs at least `n` native frames: drop glue and `maybe_put_cell` recurse along cdr -/
theorem T19_u_drop_put_every_list (x : Datum) :
    (Datum.listElems x).length ≤ dropDepth x ∧ (Datum.listElems x).length ≤ maybePutDepth x :=
  ⟨length_le_dropDepth x, length_le_maybePutDepth x⟩

/-! ### the marker on closure chains and continuation chains

`Marwood.Depth.markDepthHeap` models the marker on the heap graph itself (cells of `Heap/Cell.lean`, mark bits
included) with the recursion structure of `heap.rs`: `mark` loops along `Pair` cdr and `Ptr` and recurses for a
pair's car, a closure's code and environment, an `EnvironmentPointer`; environment slots, vector elements, bytecode
cells and saved stack cells go through `mark_vcell` (one more frame each); `mark_lambda` and `mark_continuation` are
frames of their own. `closureChain n` / `contChain n` are built through `Heap.put` (`Lemmas/DepthGraph.lean` proves
what the `put`s leave in the heap). -/

/-- **T19.u (closure chain)** — a chain of `n` closures as left by `(define (wrap acc) (lambda () acc))` applied `n`
    times (closure → its environment → `LexicalEnvPtr` → the activation environment of `wrap` → `Ptr` → the previous
    closure): marking the outermost closure holds exactly `5·n` native frames (`mark`, `mark`, `mark_vcell`, `mark`,
    `mark_vcell` per level) — unbounded in `n`. -/
theorem T19_u_closure_chain (n : Nat) :
    markDepthHeap (closureChain (n + 1)) [closureRoot (n + 1)] = 5 * (n + 1) ∧
    ∀ k, 5 * k ≤ markDepthHeap (closureChain k) [closureRoot k] := by
  refine ⟨markDepth_closureChain n, fun k => ?_⟩
  cases k with
  | zero => omega
  | succ k => rw [markDepth_closureChain k]; omega

/-- **T19.u (continuation chain)** — `n` continuations, each captured while the previous one was on the stack (the
    saved stack of `k_{i+1}` holds a `Ptr` to `k_i`): marking the newest holds exactly `3·n + 3` native frames (`mark`,
    `mark_continuation`, `mark_vcell` per level; the `+ 3` is the code object of `ip.0` reached from the oldest
    continuation) — unbounded in `n`. -/
theorem T19_u_continuation_chain (n : Nat) :
    markDepthHeap (contChain (n + 1)) [contRoot (n + 1)] = 3 * (n + 1) + 3 ∧
    ∀ k, 3 * k ≤ markDepthHeap (contChain k) [contRoot k] := by
  refine ⟨markDepth_contChain n, fun k => ?_⟩
  cases k with
  | zero => omega
  | succ k => rw [markDepth_contChain k]; omega

/-- the chains are what the `put`s were meant to build: level `j` of the closure chain occupies addresses
    `3j+2 … 3j+4`, the continuation of level `j` address `j+2` -/
theorem chain_cells (n : Nat) : ClosureCells (closureChain n) n ∧ ContCells (contChain n) n :=
  ⟨closureChain_cells n, contChain_cells n⟩

-- instances of the closed forms
example : markDepthHeap (closureChain 2) [closureRoot 2] = 10 := (T19_u_closure_chain 1).1
example : markDepthHeap (contChain 2) [contRoot 2] = 9 := (T19_u_continuation_chain 1).1

/-! ### the property at the level the model can state it

A scenario can complete on *every* finite native stack only if the native depth of every function
on its path is bounded independently of the nesting depth. `C19_depth` is that statement for the
whole table; it is **false** on the pinned tree. The proved part is `C19_depth_partial` (the
excluded inputs are the explicit decidable hypothesis `bounded f d = true`), the negation is proved
for every excluded pair (`C19_depth_fails`) and at a concrete witness
(`C19_depth_false`: the reader on car-nested lists). -/

/-- the native depth of `f` along direction `d` does not grow with the nesting depth -/
def BoundedDepth (f : Fn) (d : Dir) : Prop := ∃ K, ∀ n k, modelDepth f d n = some k → k ≤ K

/-- the full statement: every instrumented function is bounded in every direction -/
def C19_depth : Prop := ∀ f d, BoundedDepth f d

theorem C19_depth_partial (f : Fn) (d : Dir) (h : bounded f d = true) : BoundedDepth f d := by
  refine ⟨loopBound, fun n k hk => ?_⟩
  obtain ⟨k', hk', hle⟩ := T19_b_cdr f d n h
  rw [hk] at hk'; cases hk'; exact hle

theorem C19_depth_fails (f : Fn) (d : Dir) (h : bounded f d = false) : ¬ BoundedDepth f d := by
  rintro ⟨K, hK⟩
  obtain ⟨k, hk, hle⟩ := T19_u_unbounded f d (K + 1) h
  have := hK (K + 1) k hk
  omega

theorem C19_depth_false : ¬ C19_depth := fun h => C19_depth_fails .parse .car rfl (h .parse .car)

/-! ### the hypotheses are satisfiable / the statements are not vacuous -/

example : bounded .mark .cdr = true ∧ bounded .mark .car = false := ⟨rfl, rfl⟩
example : modelDepth .parse .car 3 = some 8 := closedForm_eq_model .parse .car 3
example : modelDepth .parse .cdr 5 = some 3 := closedForm_eq_model .parse .cdr 5
example : modelDepth .mark .vec 2 = some 5 := by decide
example : modelDepth .fmt .quote 3 = some 4 := by decide
example : parseDepth (dotToks 2 []) = some 8 := T19_u_read_dot 2
example : compileDepth (nestLambda 1) = 7 := by decide
example : carNest (nest .cdr 7) = 1 ∧ carNest (nest .car 7) = 7 := by decide
example : modelDepth .equal .cdrPairs 9 = some 5 := closedForm_eq_model .equal .cdrPairs 9
example : modelDepth .parse .cdrDotted 9 = some 4 := closedForm_eq_model .parse .cdrDotted 9
example : bounded .equal .cdrPairs = true ∧ bounded .put .cdrDotted = false := ⟨rfl, rfl⟩
-- the hypotheses of `T19_b_shallow_lists` hold for an association list with a dotted end
example : carNest (Datum.ofListTail [.pair one two, .pair two one] one) ≤ 2 := by decide
-- an error ends the parse at the depth reached so far: `(()` is incomplete
example : parseD 10 1 [.lp, .lp, .rp] = some (4, none) := by simp [parseD, listD]
-- `( . 1)`: a dot before any datum
example : parseD 10 1 [.lp, .dot, .atom, .rp] = some (3, none) := by simp [parseD, listD, tailD]

end Marwood.Proofs.C19
