import Marwood.Lemmas.TotalOps
import Marwood.Lemmas.TotalListP
import Marwood.Lemmas.TotalLength
import Marwood.Lemmas.TotalPrelude
import Marwood.Lemmas.EqualTotal
import Marwood.Lemmas.StackWFNoPanic
import Marwood.Lemmas.NoPanicMain
import Marwood.Lemmas.EnvInvDemo
import Marwood.Lemmas.PrepareEnvDemo
import Marwood.Proofs.C07
import Marwood.Proofs.C11
import Marwood.Proofs.C20
import Marwood.Gen.Builtins
import Marwood.Num.Arith
import Marwood.Num.Cmp
/-!
# C06 — Total API: every input yields Ok or Err, never a panic, abort or hang

Property theorems only. Models: `Marwood.Lex`/`Marwood.Parse`/`Marwood.Highlight` (text entry points),
`Marwood.Store` (list, vector, string, character and comparison builtins; `Marwood.Total` for the
repaired `list?` and the rendering of errors), `Marwood.Vm.Eval` (the evaluation epilogues).
`Outcome.NoPanic o` is `∀ m, o ≠ .panic m`; well-formedness of the store (`Store.WF`: every reference
points inside the heap) and validity of the arguments are what the VM guarantees about the values a
builtin is handed.
-/
namespace Marwood.Proofs.C06
open Marwood Marwood.Store Marwood.Store.Outcome

/-! ### T06.1 — text entry points (re-exported from C11 and C20) -/

/-- the scanner's answer type has no panic and its fuel is never exhausted: for every text `scan`
    answers with tokens or with one of its own errors -/
theorem scan_total (cs : Text) : ∃ r, scanFrom 0 cs = some r ∧ scan cs = r :=
  Marwood.Proofs.C11.scan_total cs

/-- the parser needs no fuel: its loop terminates on every token list -/
theorem parse_terminates (fo : FloatOps) (text : Text) (ts : List Token) :
    parseF fo text (parseFuel ts) ts = some (parseTokens fo text ts) :=
  Marwood.Proofs.C11.parse_total fo text ts

/-- neither slicing step of the highlighter can panic, whatever the text and the cursor -/
theorem highlight_never_panics (cs : Text) (i : Nat) : highlight cs i ≠ none :=
  Marwood.Proofs.C20.highlight_no_panic cs i

/-! ### T06.2 — no builtin of the Store model panics (one lemma per builtin)

For every well-formed store `s` and every list `args` of valid values — of any length and any kinds:
the arity and type errors are part of the statement — the outcome is `ok`, `err` or (for the fuel
indexed loops) `diverge`, never `panic`. -/

variable {s : Store} {args : List VCell}

theorem car_noPanic {s : Store} (hs : s.WF) {args : List VCell} (ha : ∀ v ∈ args, VCell.Valid s v) :
    Outcome.NoPanic (car s args) := by
  unfold car
  split
  · rename_i x
    obtain ⟨c, hc, _⟩ := get_valid hs (ha x (by simp))
    simp only [hc, bind_ok]
    split <;> simp
  · simp

theorem vectorRef_noPanic {s : Store} (hs : s.WF) {args : List VCell} (ha : ∀ v ∈ args, VCell.Valid s v) :
    Outcome.NoPanic (vectorRef s args) := by
  unfold vectorRef
  split
  · rename_i v i
    refine noPanic_bind (popIndex_noPanic hs (ha i (by simp))) (fun idx _ => ?_)
    rcases popVector_spec hs (ha v (by simp)) with ⟨id, hid, hlt⟩ | ⟨e, he⟩
    · simp only [hid, bind_ok, vecGet_ok hlt]
      split
      · unfold finish; simp only [bind_ok]; split <;> simp
      · simp
    · simp [he]
  · simp

theorem cdr_noPanic (hs : s.WF) (ha : ∀ v ∈ args, VCell.Valid s v) : Outcome.NoPanic (cdr s args) := by
  unfold cdr
  split
  · rename_i x
    obtain ⟨c, hc, _⟩ := get_valid hs (ha x (by simp))
    simp only [hc, bind_ok]
    split <;> simp
  · simp

/-- `cons` touches no existing cell: it cannot panic on any store whatsoever -/
theorem cons_noPanic (s : Store) (args : List VCell) : Outcome.NoPanic (cons s args) := by
  refine finish_noPanic ?_
  unfold consRaw
  split
  · simp only
    refine noPanic_bind (asPtr_noPanic _) (fun dp _ => ?_)
    refine noPanic_bind (asPtr_noPanic _) (fun ap _ => ?_)
    simp
  · simp

theorem setCar_noPanic (hs : s.WF) (ha : ∀ v ∈ args, VCell.Valid s v) : Outcome.NoPanic (setCar s args) := by
  unfold setCar
  split
  · rename_i p obj
    obtain ⟨hs', hle, hov, a, hoa⟩ := put_wf hs (ha obj (by simp))
    simp only
    have hp := (ha p (by simp)).mono hle
    obtain ⟨c, hc, hcv⟩ := get_valid hs' hp
    simp only [hc, bind_ok]
    split
    · rename_i x d
      rw [hoa]; simp only [VCell.asPtr_ptr, bind_ok]
      cases p with
      | ptr q =>
        simp only [VCell.asPtr_ptr, bind_ok]
        have hq : q < (s.put obj).1.cells.length := hp
        have hv : VCell.Valid (s.put obj).1 (.pair a d) := by
          have h1 : VCell.Valid (s.put obj).1 (.ptr a) := hoa ▸ hov
          exact ⟨h1, hcv.2⟩
        obtain ⟨s2, h2, _⟩ := setCell_wf hs' hq hv
        simp [h2]
      | _ => simp [VCell.asPtr]
    · simp
  · simp

theorem setCdr_noPanic (hs : s.WF) (ha : ∀ v ∈ args, VCell.Valid s v) : Outcome.NoPanic (setCdr s args) := by
  unfold setCdr
  split
  · rename_i p obj
    obtain ⟨hs', hle, hov, a, hoa⟩ := put_wf hs (ha obj (by simp))
    simp only
    have hp := (ha p (by simp)).mono hle
    obtain ⟨c, hc, hcv⟩ := get_valid hs' hp
    simp only [hc, bind_ok]
    split
    · rename_i x d
      rw [hoa]; simp only [VCell.asPtr_ptr, bind_ok]
      cases p with
      | ptr q =>
        simp only [VCell.asPtr_ptr, bind_ok]
        have hq : q < (s.put obj).1.cells.length := hp
        have hv : VCell.Valid (s.put obj).1 (.pair x a) := by
          have h1 : VCell.Valid (s.put obj).1 (.ptr a) := hoa ▸ hov
          exact ⟨hcv.1, h1⟩
        obtain ⟨s2, h2, _⟩ := setCell_wf hs' hq hv
        simp [h2]
      | _ => simp [VCell.asPtr]
    · simp
  · simp

theorem list_noPanic (s : Store) (args : List VCell) : Outcome.NoPanic (list s args) := by
  unfold list
  simp only
  refine noPanic_bind (asPtr_noPanic _) (fun np _ => ?_)
  refine noPanic_bind (listLoop_noPanic _ _ _) (fun r _ => ?_)
  simp

theorem listTail_noPanic (hs : s.WF) (ha : ∀ v ∈ args, VCell.Valid s v) : Outcome.NoPanic (listTail s args) := by
  unfold listTail
  split
  · rename_i l i
    refine noPanic_bind (popIndex_noPanic hs (ha i (by simp))) (fun idx _ => ?_)
    obtain ⟨c, hc, _⟩ := get_valid hs (ha l (by simp))
    simp only [hc, bind_ok]
    split
    · simp
    · refine noPanic_bind (getListTail_noPanic hs idx l (ha l (by simp))).1 (fun t _ => by simp)
  · simp

theorem listRef_noPanic (hs : s.WF) (ha : ∀ v ∈ args, VCell.Valid s v) : Outcome.NoPanic (listRef s args) := by
  unfold listRef
  split
  · rename_i l i
    refine noPanic_bind (popIndex_noPanic hs (ha i (by simp))) (fun idx _ => ?_)
    obtain ⟨c, hc, _⟩ := get_valid hs (ha l (by simp))
    simp only [hc, bind_ok]
    split
    · simp
    · refine noPanic_bind (getListTail_noPanic hs idx l (ha l (by simp))).1 (fun t ht => ?_)
      obtain ⟨c2, hc2, _⟩ := get_valid hs ((getListTail_noPanic hs idx l (ha l (by simp))).2 t ht)
      simp only [hc2, bind_ok]
      split <;> simp
  · simp

theorem isListTH_noPanic (fuel : Nat) (hs : s.WF) (ha : ∀ v ∈ args, VCell.Valid s v) :
    Outcome.NoPanic (isListTH fuel s args) := by
  unfold isListTH
  split
  · rename_i x
    obtain ⟨c, hc, hcv⟩ := get_valid hs (ha x (by simp))
    simp only [hc, bind_ok]
    refine noPanic_bind (isListTHLoop_noPanic hs fuel c c false hcv hcv) (fun b _ => by simp)
  · simp

theorem isList_noPanic (fuel : Nat) (hs : s.WF) (ha : ∀ v ∈ args, VCell.Valid s v) :
    Outcome.NoPanic (isList fuel s args) := by
  unfold isList
  split
  · rename_i x
    obtain ⟨c, hc, hcv⟩ := get_valid hs (ha x (by simp))
    simp only [hc, bind_ok]
    refine noPanic_bind (isListLoop_noPanic hs fuel c hcv) (fun b _ => by simp)
  · simp

theorem reverse_noPanic (fuel : Nat) (hs : s.WF) (ha : ∀ v ∈ args, VCell.Valid s v) :
    Outcome.NoPanic (reverse fuel s args) := by
  unfold reverse
  split
  · rename_i x
    obtain ⟨c, hc, hcv⟩ := get_valid hs (ha x (by simp))
    simp only [hc, bind_ok]
    split
    · split <;> simp
    · obtain ⟨hs', hle, hpv, _⟩ := put_wf hs (v := .nil) trivial
      exact reverseLoop_noPanic fuel _ c _ hs' (hcv.mono hle) hpv
  · simp



/-- `vector` only allocates -/
theorem vector_noPanic (s : Store) (args : List VCell) : Outcome.NoPanic (vector s args) :=
  finish_noPanic (by simp)

/-- `make-vector`: the only panic is `vec!`'s capacity overflow, far above the property's bound on
    requested sizes (10^6) -/
theorem makeVector_noPanic (hs : s.WF) (ha : ∀ v ∈ args, VCell.Valid s v)
    (hsize : ∀ n k, args.head? = some n → s.get n = .ok (.num k) → k ≤ 1000000) :
    Outcome.NoPanic (makeVector s args) := by
  have go : ∀ n fill, args.head? = some n → VCell.Valid s n → Outcome.NoPanic (makeVector.go s n fill) := by
    intro n fill hn hv
    obtain ⟨c, hc, hcv⟩ := get_valid hs hv
    unfold makeVector.go
    simp only [hc, bind_ok]
    split
    · rename_i k
      have hk := hsize n k hn hc
      unfold orErr
      split
      · rename_i len hlen
        simp only [bind_ok]
        have : len ≤ 1000000 := by
          cases k with
          | ofNat m =>
            simp only [toUsize] at hlen
            split at hlen
            · cases hlen
              have hm : (len : Int) ≤ 1000000 := hk
              omega
            · cases hlen
          | negSucc m => simp [toUsize] at hlen
        have h2 : ¬ len > vecCapacity := by unfold vecCapacity; omega
        simp only [h2, if_false]
        exact finish_noPanic (by simp)
      · simp
    · simp
  unfold makeVector
  split
  · exact go _ _ rfl (ha _ (by simp))
  · exact go _ _ rfl (ha _ (by simp))
  · simp

theorem vectorLength_noPanic (hs : s.WF) (ha : ∀ v ∈ args, VCell.Valid s v) :
    Outcome.NoPanic (vectorLength s args) := by
  unfold vectorLength
  split
  · rename_i v
    rcases popVector_spec hs (ha v (by simp)) with ⟨id, hid, hlt⟩ | ⟨e, he⟩
    · simp [hid, vecGet_ok hlt]
    · simp [he]
  · simp

theorem vectorSet_noPanic (hs : s.WF) (ha : ∀ v ∈ args, VCell.Valid s v) :
    Outcome.NoPanic (vectorSet s args) := by
  unfold vectorSet
  split
  · rename_i v i x
    refine noPanic_bind (popIndex_noPanic hs (ha i (by simp))) (fun idx _ => ?_)
    rcases popVector_spec hs (ha v (by simp)) with ⟨id, hid, hlt⟩ | ⟨e, he⟩
    · simp only [hid, bind_ok, vecGet_ok hlt]
      split
      · simp
      · have hx : ∀ y ∈ (s.vecs[id]).set idx x, VCell.Valid s y := by
          intro y hy
          rcases List.mem_or_eq_of_mem_set hy with hy | rfl
          · exact vec_slots_valid hs hlt y hy
          · exact ha _ (by simp)
        obtain ⟨s', h', _⟩ := vecSet_wf hs hlt hx
        simp [h']
    · simp [he]
  · simp

theorem vectorFill_noPanic (hs : s.WF) (ha : ∀ v ∈ args, VCell.Valid s v) :
    Outcome.NoPanic (vectorFill s args) := by
  unfold vectorFill
  split
  · rename_i v x
    rcases popVector_spec hs (ha v (by simp)) with ⟨id, hid, hlt⟩ | ⟨e, he⟩
    · simp only [hid, bind_ok, vecGet_ok hlt]
      have hx : ∀ y ∈ List.replicate (s.vecs[id]).length x, VCell.Valid s y := by
        intro y hy
        rw [(List.mem_replicate.mp hy).2]; exact ha _ (by simp)
      obtain ⟨s', h', _⟩ := vecSet_wf hs hlt hx
      simp [h']
    · simp [he]
  · simp

theorem vectorToList_noPanic (hs : s.WF) (ha : ∀ v ∈ args, VCell.Valid s v) :
    Outcome.NoPanic (vectorToList s args) := by
  unfold vectorToList
  split
  · rename_i v
    rcases popVector_spec hs (ha v (by simp)) with ⟨id, hid, hlt⟩ | ⟨e, he⟩
    · simp only [hid, bind_ok, vecGet_ok hlt]
      exact vecToListLoop_noPanic _ _ _
    · simp [he]
  · simp

theorem listToVector_noPanic (fuel : Nat) (hs : s.WF) (ha : ∀ v ∈ args, VCell.Valid s v) :
    Outcome.NoPanic (listToVector fuel s args) := by
  unfold listToVector
  split
  · rename_i x
    obtain ⟨c, hc, hcv⟩ := get_valid hs (ha x (by simp))
    simp only [hc, bind_ok]
    split
    · split
      · exact finish_noPanic (by simp)
      · simp
    · refine noPanic_bind (collectCars_noPanic hs fuel c [] hcv) (fun r _ => ?_)
      obtain ⟨xs, last⟩ := r
      simp only
      split
      · simp
      · exact finish_noPanic (by simp)
  · simp

theorem vectorCopy_noPanic (hs : s.WF) (ha : ∀ v ∈ args, VCell.Valid s v) :
    Outcome.NoPanic (vectorCopy s args) := by
  have hdone : ∀ xs a b, Outcome.NoPanic (vectorCopy.done s xs a b) := fun xs a b =>
    finish_noPanic (by simp)
  have hchk : ∀ xs a b, Outcome.NoPanic (vectorCopy.chk2 s xs a b) := by
    intro xs a b
    unfold vectorCopy.chk2
    split
    · split
      · simp
      · split
        · split
          · simp
          · exact hdone _ _ _
        · exact hdone _ _ _
    · exact hdone _ _ _
  have hgo : ∀ v a b, VCell.Valid s v → Outcome.NoPanic (vectorCopy.go s v a b) := by
    intro v a b hv
    unfold vectorCopy.go
    rcases popVector_spec hs hv with ⟨id, hid, hlt⟩ | ⟨e, he⟩
    · simp only [hid, bind_ok, vecGet_ok hlt]
      split
      · split
        · simp
        · exact hchk _ _ _
      · exact hchk _ _ _
    · simp [he]
  unfold vectorCopy
  split
  · exact hgo _ _ _ (ha _ (by simp))
  · rename_i v st
    refine noPanic_bind (popIndex_noPanic hs (ha st (by simp))) (fun b _ => ?_)
    exact hgo _ _ _ (ha _ (by simp))
  · rename_i v st en
    refine noPanic_bind (popIndex_noPanic hs (ha en (by simp))) (fun e _ => ?_)
    refine noPanic_bind (popIndex_noPanic hs (ha st (by simp))) (fun b _ => ?_)
    exact hgo _ _ _ (ha _ (by simp))
  · simp

theorem vectorCopyBang_noPanic (hs : s.WF) (ha : ∀ v ∈ args, VCell.Valid s v) :
    Outcome.NoPanic (vectorCopyBang s args) := by
  have hgo : ∀ to at_ from_ a b, VCell.Valid s to → VCell.Valid s at_ → VCell.Valid s from_ →
      Outcome.NoPanic (vectorCopyBang.go s to at_ from_ a b) := by
    intro to at_ from_ a b hto hat hfrom
    unfold vectorCopyBang.go
    rcases popVector_spec hs hfrom with ⟨fid, hfid, hflt⟩ | ⟨e, he⟩
    · simp only [hfid, bind_ok]
      refine noPanic_bind (popIndex_noPanic hs hat) (fun at' _ => ?_)
      rcases popVector_spec hs hto with ⟨tid, htid, htlt⟩ | ⟨e, he⟩
      · simp only [htid, bind_ok, vecGet_ok hflt, vecGet_ok htlt]
        split
        · simp
        · rename_i h1
          split
          · simp
          · rename_i h2
            split
            · simp
            · rename_i h3
              split
              · simp
              · rename_i h4
                have hst : a.getD 0 ≤ b.getD (s.vecs[fid]).length := by
                  cases a <;> cases b <;> simp_all [optExceeds, optInverted] <;> omega
                rw [usub_noPanic_of_le hst, usub_noPanic_of_le (Nat.le_of_not_gt h1)]
                simp only [bind_ok]
                split
                · simp
                · have hx : ∀ y ∈ putRange s.vecs[tid] at'
                      (List.take (b.getD (s.vecs[fid]).length - a.getD 0) (List.drop (a.getD 0) s.vecs[fid])),
                      VCell.Valid s y := by
                    intro y hy
                    rcases mem_putRange _ _ _ _ hy with h | h
                    · exact vec_slots_valid hs htlt y h
                    · exact vec_slots_valid hs hflt y (List.mem_of_mem_drop (List.mem_of_mem_take h))
                  obtain ⟨s', h', _⟩ := vecSet_wf hs htlt hx
                  simp [h']
      · simp [he]
    · simp [he]
  unfold vectorCopyBang
  split
  · exact hgo _ _ _ _ _ (ha _ (by simp)) (ha _ (by simp)) (ha _ (by simp))
  · rename_i to at_ from_ st
    refine noPanic_bind (popIndex_noPanic hs (ha st (by simp))) (fun b _ => ?_)
    exact hgo _ _ _ _ _ (ha _ (by simp)) (ha _ (by simp)) (ha _ (by simp))
  · rename_i to at_ from_ st en
    refine noPanic_bind (popIndex_noPanic hs (ha en (by simp))) (fun e _ => ?_)
    refine noPanic_bind (popIndex_noPanic hs (ha st (by simp))) (fun b _ => ?_)
    exact hgo _ _ _ _ _ (ha _ (by simp)) (ha _ (by simp)) (ha _ (by simp))
  · simp



theorem stringLength_noPanic (hs : s.WF) (ha : ∀ v ∈ args, VCell.Valid s v) :
    Outcome.NoPanic (stringLength s args) := by
  unfold stringLength
  split
  · rename_i v
    rcases popString_spec hs (ha v (by simp)) with ⟨id, hid, hlt⟩ | ⟨e, he⟩
    · simp [hid, strGet_ok hlt]
    · simp [he]
  · simp

theorem stringCase_noPanic (f : Text → Text) (hs : s.WF) (ha : ∀ v ∈ args, VCell.Valid s v) :
    Outcome.NoPanic (stringCase f s args) := by
  unfold stringCase
  split
  · rename_i v
    rcases popString_spec hs (ha v (by simp)) with ⟨id, hid, hlt⟩ | ⟨e, he⟩
    · simp only [hid, bind_ok, strGet_ok hlt]; exact newStrRes_noPanic _ _
    · simp [he]
  · simp

theorem stringRef_noPanic (hs : s.WF) (ha : ∀ v ∈ args, VCell.Valid s v) :
    Outcome.NoPanic (stringRef s args) := by
  unfold stringRef
  split
  · rename_i v i
    refine noPanic_bind (popIndex_noPanic hs (ha i (by simp))) (fun idx _ => ?_)
    rcases popString_spec hs (ha v (by simp)) with ⟨id, hid, hlt⟩ | ⟨e, he⟩
    · simp only [hid, bind_ok, strGet_ok hlt]
      refine noPanic_bind (stringRefC_noPanic _ _) (fun c _ => by simp)
    · simp [he]
  · simp

theorem stringSet_noPanic (hs : s.WF) (ha : ∀ v ∈ args, VCell.Valid s v) :
    Outcome.NoPanic (stringSet s args) := by
  unfold stringSet
  split
  · rename_i v i c
    refine noPanic_bind (popChar_noPanic hs (ha c (by simp))) (fun ch _ => ?_)
    refine noPanic_bind (popIndex_noPanic hs (ha i (by simp))) (fun idx _ => ?_)
    rcases popString_spec hs (ha v (by simp)) with ⟨id, hid, hlt⟩ | ⟨e, he⟩
    · simp only [hid, bind_ok, strGet_ok hlt]
      refine noPanic_bind (stringSetC_noPanic _ _ _) (fun t' _ => ?_)
      obtain ⟨s', h', _⟩ := strSet_wf hs t' hlt
      simp [h']
    · simp [he]
  · simp

theorem stringFill_noPanic (hs : s.WF) (ha : ∀ v ∈ args, VCell.Valid s v) :
    Outcome.NoPanic (stringFill s args) := by
  unfold stringFill
  split
  · rename_i v c range
    have hr := popRange_noPanic hs (r := range) (fun x hx => ha x (by simp [hx]))
    refine noPanic_bind hr.1 (fun ab hab => ?_)
    obtain ⟨a, b⟩ := ab
    simp only
    refine noPanic_bind (popChar_noPanic hs (ha c (by simp))) (fun ch _ => ?_)
    rcases popString_spec hs (ha v (by simp)) with ⟨id, hid, hlt⟩ | ⟨e, he⟩
    · simp only [hid, bind_ok, strGet_ok hlt]
      refine noPanic_bind (stringFillC_noPanic _ _ _ _ (hr.2 a b hab)) (fun t' _ => ?_)
      obtain ⟨s', h', _⟩ := strSet_wf hs t' hlt
      simp [h']
    · simp [he]
  · simp

theorem stringCopy_noPanic (hs : s.WF) (ha : ∀ v ∈ args, VCell.Valid s v) :
    Outcome.NoPanic (stringCopy s args) := by
  unfold stringCopy
  split
  · rename_i v range
    have hr := popRange_noPanic hs (r := range) (fun x hx => ha x (by simp [hx]))
    refine noPanic_bind hr.1 (fun ab hab => ?_)
    obtain ⟨a, b⟩ := ab
    simp only
    rcases popString_spec hs (ha v (by simp)) with ⟨id, hid, hlt⟩ | ⟨e, he⟩
    · simp only [hid, bind_ok, strGet_ok hlt]
      refine noPanic_bind (substringC_noPanic _ _ _ (hr.2 a b hab)) (fun sub _ => ?_)
      exact newStrRes_noPanic _ _
    · simp [he]
  · simp


theorem stringToList_noPanic (hs : s.WF) (ha : ∀ v ∈ args, VCell.Valid s v) :
    Outcome.NoPanic (stringToList s args) := by
  unfold stringToList
  split
  · rename_i v range
    have hr := popRange_noPanic hs (r := range) (fun x hx => ha x (by simp [hx]))
    refine noPanic_bind hr.1 (fun ab hab => ?_)
    obtain ⟨a, b⟩ := ab
    simp only
    rcases popString_spec hs (ha v (by simp)) with ⟨id, hid, hlt⟩ | ⟨e, he⟩
    · simp only [hid, bind_ok, strGet_ok hlt]
      refine noPanic_bind (substringC_noPanic _ _ _ (hr.2 a b hab)) (fun sub _ => ?_)
      exact charListLoop_noPanic _ _ _
    · simp [he]
  · simp

theorem stringToVector_noPanic (hs : s.WF) (ha : ∀ v ∈ args, VCell.Valid s v) :
    Outcome.NoPanic (stringToVector s args) := by
  unfold stringToVector
  split
  · rename_i v
    rcases popString_spec hs (ha v (by simp)) with ⟨id, hid, hlt⟩ | ⟨e, he⟩
    · simp only [hid, bind_ok, strGet_ok hlt]; exact finish_noPanic (by simp)
    · simp [he]
  · simp


theorem vectorToString_noPanic (hs : s.WF) (ha : ∀ v ∈ args, VCell.Valid s v) :
    Outcome.NoPanic (vectorToString s args) := by
  unfold vectorToString
  split
  · rename_i v
    rcases popVector_spec hs (ha v (by simp)) with ⟨id, hid, hlt⟩ | ⟨e, he⟩
    · simp only [hid, bind_ok, vecGet_ok hlt]
      refine noPanic_bind (slotsToChars_noPanic hs _ (vec_slots_valid hs hlt)) (fun cs _ => ?_)
      exact newStrRes_noPanic _ _
    · simp [he]
  · simp


theorem listToString_noPanic (fuel : Nat) (hs : s.WF) (ha : ∀ v ∈ args, VCell.Valid s v) :
    Outcome.NoPanic (listToString fuel s args) := by
  unfold listToString
  split
  · rename_i x
    obtain ⟨c, hc, hcv⟩ := get_valid hs (ha x (by simp))
    simp only [hc, bind_ok]
    split
    · simp
    · refine noPanic_bind (collectChars_noPanic hs fuel c [] hcv) (fun r _ => ?_)
      obtain ⟨cs, last⟩ := r
      simp only
      split
      · simp
      · exact newStrRes_noPanic _ _
  · simp

/-- `make-string`: the only panic is the capacity overflow of the up-front reservation, far above
    the property's bound on requested sizes (10^6) -/
theorem makeString_noPanic (hs : s.WF) (ha : ∀ v ∈ args, VCell.Valid s v)
    (hsize : ∀ n k, args.head? = some n → Store.popUsize s n = .ok k → k ≤ 1000000) :
    Outcome.NoPanic (makeString s args) := by
  have go : ∀ n c, args.head? = some n → VCell.Valid s n → Outcome.NoPanic (makeString.go s n c) := by
    intro n c hn hv
    unfold makeString.go
    refine noPanic_bind (popUsize_noPanic hs hv) (fun size hsz => ?_)
    have := hsize n size hn hsz
    have h2 : ¬ size > strCapacity := by unfold strCapacity; omega
    simp only [h2, if_false]
    exact newStrRes_noPanic _ _
  unfold makeString
  split
  · exact go _ _ rfl (ha _ (by simp))
  · rename_i k c
    refine noPanic_bind (popChar_noPanic hs (ha c (by simp))) (fun ch _ => ?_)
    exact go _ _ rfl (ha _ (by simp))
  · simp

theorem string_noPanic (hs : s.WF) (ha : ∀ v ∈ args, VCell.Valid s v) : Outcome.NoPanic (stringB s args) := by
  unfold stringB
  refine noPanic_bind (popChars_noPanic hs _ (fun v hv => ha v (List.mem_reverse.mp hv))) (fun cs _ => ?_)
  exact newStrRes_noPanic _ _

theorem stringAppend_noPanic (hs : s.WF) (ha : ∀ v ∈ args, VCell.Valid s v) :
    Outcome.NoPanic (stringAppend s args) := by
  unfold stringAppend
  refine noPanic_bind (popStrings_noPanic hs _ (fun v hv => ha v (List.mem_reverse.mp hv))) (fun ts _ => ?_)
  exact newStrRes_noPanic _ _

theorem stringComp_noPanic (f : Text → Text) (op : CmpOp) (hs : s.WF) (ha : ∀ v ∈ args, VCell.Valid s v) :
    Outcome.NoPanic (stringComp f op s args) := by
  unfold stringComp
  have hrev : ∀ v ∈ args.reverse, VCell.Valid s v := fun v hv => ha v (List.mem_reverse.mp hv)
  split
  · simp
  · rename_i last rest heq
    rw [heq] at hrev
    refine noPanic_bind (popStr_noPanic hs (hrev last (by simp))) (fun y _ => ?_)
    refine noPanic_bind (popStrings_noPanic hs rest (fun v hv => hrev v (by simp [hv]))) (fun xs _ => by simp)

theorem charComp_noPanic (f : Char → Char) (op : CmpOp) (hs : s.WF) (ha : ∀ v ∈ args, VCell.Valid s v) :
    Outcome.NoPanic (charComp f op s args) := by
  unfold charComp
  have hrev : ∀ v ∈ args.reverse, VCell.Valid s v := fun v hv => ha v (List.mem_reverse.mp hv)
  split
  · simp
  · rename_i last rest heq
    rw [heq] at hrev
    refine noPanic_bind (popChar_noPanic hs (hrev last (by simp))) (fun y _ => ?_)
    refine noPanic_bind (popChars_noPanic hs rest (fun v hv => hrev v (by simp [hv]))) (fun xs _ => by simp)

theorem integerToChar_noPanic (hs : s.WF) (ha : ∀ v ∈ args, VCell.Valid s v) :
    Outcome.NoPanic (integerToChar s args) := by
  unfold integerToChar
  split
  · rename_i v
    obtain ⟨c, hc, _⟩ := get_valid hs (ha v (by simp))
    simp only [hc, bind_ok]
    split
    · split
      · split
        · split <;> simp
        · simp
      · simp
    · simp
  · simp

theorem charToInteger_noPanic (hs : s.WF) (ha : ∀ v ∈ args, VCell.Valid s v) :
    Outcome.NoPanic (charToInteger s args) := by
  unfold charToInteger
  split
  · rename_i v
    refine noPanic_bind (popChar_noPanic hs (ha v (by simp))) (fun c _ => by simp)
  · simp

theorem charPred_noPanic (p : Char → Bool) (hs : s.WF) (ha : ∀ v ∈ args, VCell.Valid s v) :
    Outcome.NoPanic (charPred p s args) := by
  unfold charPred
  split
  · rename_i v
    refine noPanic_bind (popChar_noPanic hs (ha v (by simp))) (fun c _ => by simp)
  · simp

theorem charMap_noPanic (f : Char → Char) (hs : s.WF) (ha : ∀ v ∈ args, VCell.Valid s v) :
    Outcome.NoPanic (charMap f s args) := by
  unfold charMap
  split
  · rename_i v
    refine noPanic_bind (popChar_noPanic hs (ha v (by simp))) (fun c _ => by simp)
  · simp

theorem eqvB_noPanic (hs : s.WF) (ha : ∀ v ∈ args, VCell.Valid s v) : Outcome.NoPanic (eqvB s args) := by
  unfold eqvB
  split
  · rename_i a b
    refine noPanic_bind (eqv_noPanic hs (ha b (by simp)) (ha a (by simp))) (fun r _ => by simp)
  · simp

/-- `equal?` (after the repair dfd9e81) never panics (in particular `compare_vector`'s `unwrap` is
    unreachable: the lengths were compared first); it terminates on circular structure as well, see
    `equal_total` / `equal_circular_terminates` (the pinned one did not: `equal_circular_diverges`) -/
theorem equalB_noPanic (fuel : Nat) (hs : s.WF) (ha : ∀ v ∈ args, VCell.Valid s v) :
    Outcome.NoPanic (equalB fuel s args) := by
  unfold equalB
  split
  · rename_i a b
    refine noPanic_bind (equal_noPanic hs fuel (ha b (by simp)) (ha a (by simp))) (fun r _ => by simp)
  · simp

theorem isNullB_noPanic (hs : s.WF) (ha : ∀ v ∈ args, VCell.Valid s v) : Outcome.NoPanic (isNullB s args) := by
  unfold isNullB
  split
  · rename_i x
    obtain ⟨c, hc, _⟩ := get_valid hs (ha x (by simp))
    simp [hc]
  · simp

theorem isPairB_noPanic (hs : s.WF) (ha : ∀ v ∈ args, VCell.Valid s v) : Outcome.NoPanic (isPairB s args) := by
  unfold isPairB
  split
  · rename_i x
    obtain ⟨c, hc, _⟩ := get_valid hs (ha x (by simp))
    simp [hc]
  · simp

/-! ### T06.2 (continued) — `append` and the Scheme-defined library procedures

`append` (list.rs: `clone_list` + relinking with `setCell`) and the prelude's `length`,
`memq memv member assq assv assoc`, `map`, `for-each` (`Store/Prelude.lean`). The lemmas behind them
(`Lemmas/TotalPrelude.lean`) carry the well-formedness of the store through every allocation and every
`set-cdr!`-like relink, so the results are stated twice: never a panic, and the store handed back is
well formed again (`Post s (s', v)`: `s'.WF`, `s'` at least as large as `s`, `v` valid in `s'`) — the
hypothesis `Store.WF` of all T06.2 lemmas is preserved by these procedures. -/

theorem append_noPanic (fuel : Nat) (hs : s.WF) (ha : ∀ v ∈ args, VCell.Valid s v) :
    Outcome.NoPanic (append fuel s args) := (append_sat fuel hs ha).1

theorem append_wf (fuel : Nat) (hs : s.WF) (ha : ∀ v ∈ args, VCell.Valid s v) {s' : Store} {v : VCell}
    (h : append fuel s args = .ok (s', v)) : s'.WF ∧ Store.Le s s' ∧ VCell.Valid s' v :=
  (append_sat fuel hs ha).2 _ h

theorem cons_wf (hs : s.WF) {a d : VCell} (ha : VCell.Valid s a) (hd : VCell.Valid s d) {s' : Store} {v : VCell}
    (h : cons s [a, d] = .ok (s', v)) : s'.WF ∧ Store.Le s s' ∧ VCell.Valid s' v :=
  (cons_sat hs ha hd).2 _ h

theorem list_wf (hs : s.WF) (ha : ∀ v ∈ args, VCell.Valid s v) {s' : Store} {v : VCell}
    (h : list s args = .ok (s', v)) : s'.WF ∧ Store.Le s s' ∧ VCell.Valid s' v :=
  (list_sat hs ha).2 _ h

theorem length_noPanic (fuel : Nat) (hs : s.WF) {l : VCell} (hl : VCell.Valid s l) :
    Outcome.NoPanic (Store.length fuel s l) := (length_sat hs fuel l hl).1

theorem memq_noPanic (fuel : Nat) (hs : s.WF) {obj l : VCell} (ho : VCell.Valid s obj) (hl : VCell.Valid s l) :
    Outcome.NoPanic (memq fuel s obj l) :=
  (mem_sat hs (fun _ _ ha hb => eqTest_noPanic hs ha hb) fuel obj l ho hl).1

theorem memv_noPanic (fuel : Nat) (hs : s.WF) {obj l : VCell} (ho : VCell.Valid s obj) (hl : VCell.Valid s l) :
    Outcome.NoPanic (memv fuel s obj l) :=
  (mem_sat hs (fun _ _ ha hb => eqTest_noPanic hs ha hb) fuel obj l ho hl).1

theorem member_noPanic (fuel : Nat) (hs : s.WF) {obj l : VCell} (ho : VCell.Valid s obj) (hl : VCell.Valid s l) :
    Outcome.NoPanic (member fuel s obj l) :=
  (mem_sat hs (fun _ _ ha hb => equalTest_noPanic fuel hs ha hb) fuel obj l ho hl).1

theorem assq_noPanic (fuel : Nat) (hs : s.WF) {obj l : VCell} (ho : VCell.Valid s obj) (hl : VCell.Valid s l) :
    Outcome.NoPanic (assq fuel s obj l) :=
  (ass_sat hs (fun _ _ ha hb => eqTest_noPanic hs ha hb) fuel obj l ho hl).1

theorem assv_noPanic (fuel : Nat) (hs : s.WF) {obj l : VCell} (ho : VCell.Valid s obj) (hl : VCell.Valid s l) :
    Outcome.NoPanic (assv fuel s obj l) :=
  (ass_sat hs (fun _ _ ha hb => eqTest_noPanic hs ha hb) fuel obj l ho hl).1

theorem assoc_noPanic (fuel : Nat) (hs : s.WF) {obj l : VCell} (ho : VCell.Valid s obj) (hl : VCell.Valid s l) :
    Outcome.NoPanic (assoc fuel s obj l) :=
  (ass_sat hs (fun _ _ ha hb => equalTest_noPanic fuel hs ha hb) fuel obj l ho hl).1

/-- `map` with any callee that obeys `CalleeLaw` (on every well-formed store and valid arguments the
    callee does not panic and hands back a well-formed store and a valid value) -/
theorem map_noPanic {g : Callee} (hg : CalleeLaw g) (fuel : Nat) (hs : s.WF) (ha : ∀ v ∈ args, VCell.Valid s v) :
    Outcome.NoPanic (map g fuel s args) := (map_sat hg fuel hs ha).1

theorem map_wf {g : Callee} (hg : CalleeLaw g) (fuel : Nat) (hs : s.WF) (ha : ∀ v ∈ args, VCell.Valid s v)
    {s' : Store} {v : VCell} (h : map g fuel s args = .ok (s', v)) :
    s'.WF ∧ Store.Le s s' ∧ VCell.Valid s' v := (map_sat hg fuel hs ha).2 _ h

theorem forEach_noPanic {g : Callee} (hg : CalleeLaw g) (fuel : Nat) (hs : s.WF) (ha : ∀ v ∈ args, VCell.Valid s v) :
    Outcome.NoPanic (forEach g fuel s args) := (forEach_sat hg fuel hs ha).1

theorem forEach_wf {g : Callee} (hg : CalleeLaw g) (fuel : Nat) (hs : s.WF) (ha : ∀ v ∈ args, VCell.Valid s v)
    {s' : Store} {v : VCell} (h : forEach g fuel s args = .ok (s', v)) :
    s'.WF ∧ Store.Le s s' ∧ VCell.Valid s' v := (forEach_sat hg fuel hs ha).2 _ h

/-- the law is satisfiable: `car`, `cdr`, `cons`, `list` obey it, and so does `append` and — closing the
    loop — `map g` / `for-each g` for every lawful `g` -/
theorem calleeLaw_instances : CalleeLaw car ∧ CalleeLaw cdr ∧ CalleeLaw cons ∧ CalleeLaw list ∧
    (∀ fuel, CalleeLaw (append fuel)) ∧
    (∀ g fuel, CalleeLaw g → CalleeLaw (map g fuel)) ∧ (∀ g fuel, CalleeLaw g → CalleeLaw (forEach g fuel)) :=
  ⟨calleeLaw_car, calleeLaw_cdr, calleeLaw_cons, calleeLaw_list,
   fun fuel _ _ hs ha => append_sat fuel hs ha,
   fun _ fuel hg _ _ hs ha => map_sat hg fuel hs ha, fun _ fuel hg _ _ hs ha => forEach_sat hg fuel hs ha⟩

/-! ### T06.2 (numbers) — the Scheme-level numeric procedures of the Num model

`+ - *`, the comparisons, `min max`, the one-argument procedures, `expt`, `/` and
`quotient remainder modulo` on every list of numbers (any length, any representations). The models
of `/`, `quotient`, `Rem` and `modulo` have division-by-zero panic branches; the theorems show that
the zero test of the Scheme-level wrapper keeps every argument list away from them. -/

section Numbers
open Marwood.Arith

/-- a numeric outcome that is not a panic -/
def NumNoPanic {α : Type} (o : Arith.Outcome α) : Prop := ∀ m, o ≠ .panic m

theorem scmPlus_noPanic (args : List Num) : NumNoPanic (scmPlus args) := by
  intro m h; simp [scmPlus] at h
theorem scmTimes_noPanic (args : List Num) : NumNoPanic (scmTimes args) := by
  intro m h; simp [scmTimes] at h
theorem scmMinus_noPanic (args : List Num) : NumNoPanic (scmMinus args) := by
  intro m h; unfold scmMinus at h; split at h <;> cases h

theorem scmUnary_noPanic (op : Num → Option Num) (args : List Num) :
    ∀ r, scmUnary op args = some r → NumNoPanic r := by
  intro r hr m hm
  unfold scmUnary at hr
  split at hr
  · simp only [Option.map_eq_some_iff] at hr; obtain ⟨a, _, rfl⟩ := hr; cases hm
  · cases hr; cases hm

theorem scmExpt_noPanic (args : List Num) : ∀ r, scmExpt args = some r → NumNoPanic r := by
  intro r hr m hm
  unfold scmExpt at hr
  split at hr
  · split at hr
    · cases hr
    · split at hr
      · cases hr; cases hm
      · split at hr
        · cases hr; cases hm
        · simp only [Option.map_eq_some_iff] at hr; obtain ⟨a, _, rfl⟩ := hr; cases hm
  · cases hr; cases hm

theorem scmCmp_noPanic (args : List Num) :
    NumNoPanic (Cmp.scmEq args) ∧ NumNoPanic (Cmp.scmLt args) ∧ NumNoPanic (Cmp.scmGt args) ∧
    NumNoPanic (Cmp.scmLe args) ∧ NumNoPanic (Cmp.scmGe args) := by
  refine ⟨?_, ?_, ?_, ?_, ?_⟩ <;> intro m h <;>
    simp only [Cmp.scmEq, Cmp.scmLt, Cmp.scmGt, Cmp.scmLe, Cmp.scmGe, Cmp.numComp] at h <;>
    split at h <;> cases h

theorem scmPred_noPanic (p : Num → Bool) (args : List Num) : NumNoPanic (Cmp.scmPred p args) := by
  intro m h; unfold Cmp.scmPred at h; split at h <;> cases h

theorem scmMinMax_noPanic (args : List Num) : NumNoPanic (Cmp.scmMin args) ∧ NumNoPanic (Cmp.scmMax args) := by
  constructor <;> intro m h
  · unfold Cmp.scmMin at h; split at h <;> cases h
  · unfold Cmp.scmMax at h; split at h <;> cases h

/-- `/`: the zero test of the wrapper is what keeps `Ratio::new` away from a zero denominator -/
theorem scmDivide_noPanic (args : List Num) : NumNoPanic (scmDivide args) := by
  have hdiv : ∀ x y, isZero y = false → NumNoPanic (div x y) := by
    intro x y hz m h
    unfold div at h
    split at h <;> try (cases h)
    all_goals (try (split at h <;> cases h))
    -- the integer / integer arm
    split at h
    · rename_i l r hl hr
      unfold ratioOfI32 at h
      split at h
      · rename_i hr0
        cases y <;> simp [asI32, chk32] at hr
        all_goals (obtain ⟨_, rfl⟩ := hr)
        all_goals (simp_all [isZero])
      · simp only at h
        split at h
        · cases h
        · split at h <;> cases h
    · cases h
  intro m h
  unfold scmDivide at h
  split at h
  · split at h
    · cases h
    · rename_i hz; exact hdiv _ _ (by simpa using hz) m h
  · split at h
    · cases h
    · rename_i hz; exact hdiv _ _ (by simpa using hz) m h
  · cases h

/-- `Number::quotient` cannot reach one of its division-by-zero panics once the divisor passed the
    wrapper's `is_zero` test — for every pair of representations -/
theorem quotient_noPanic {x y : Num} (hz : isZero y = false) (m : String) : quotient x y ≠ some (.panic m) := by
  intro h
  cases x <;> cases y <;> simp only [quotient] at h <;> simp only [isZero] at hz <;>
    (repeat' split at h) <;> simp_all

theorem rem_noPanic {x y : Num} (hz : isZero y = false) (m : String) : rem x y ≠ some (.panic m) := by
  intro h
  cases x <;> cases y <;> simp only [rem] at h <;> simp only [isZero] at hz <;>
    (repeat' split at h) <;> simp_all

theorem modulo_noPanic {x y : Num} (hz : isZero y = false) (m : String) : modulo x y ≠ some (.panic m) := by
  intro h
  unfold modulo at h
  split at h
  · split at h <;> cases h
  · exact rem_noPanic hz m h

/-- the wrapper shared by `quotient`, `remainder`, `modulo` (`pop_integer` twice, zero test, the
    operation): no argument list reaches a panic of an operation that is safe for a non-zero divisor -/
theorem scmIntOp_noPanic {op : Num → Num → Option (Arith.Outcome (Option Num))}
    (hop : ∀ x y, isZero y = false → ∀ m, op x y ≠ some (.panic m)) (args : List Num) :
    ∀ r, scmIntOp op args = some r → NumNoPanic r := by
  intro r hr m hm
  subst hm
  unfold scmIntOp at hr
  split at hr
  · rename_i x y
    split at hr
    · cases hr
    · split at hr
      · cases hr
      · split at hr
        · cases hr
        · rename_i hz
          split at hr <;> try (cases hr)
          rename_i hs
          exact hop x y (by simpa using hz) _ hs
  · cases hr

theorem scmQuotient_noPanic (args : List Num) : ∀ r, scmQuotient args = some r → NumNoPanic r :=
  scmIntOp_noPanic (fun _ _ hz m => quotient_noPanic hz m) args
theorem scmRemainder_noPanic (args : List Num) : ∀ r, scmRemainder args = some r → NumNoPanic r :=
  scmIntOp_noPanic (fun _ _ hz m => rem_noPanic hz m) args
theorem scmModulo_noPanic (args : List Num) : ∀ r, scmModulo args = some r → NumNoPanic r :=
  scmIntOp_noPanic (fun _ _ hz m => modulo_noPanic hz m) args

/-- the zero test is what does it: without it the operation panics (`(quotient 1 0)` at the level of
    `Number::quotient`) -/
theorem quotient_by_zero_panics : quotient (.fix 1) (.fix 0) = some (.panic "BigInt division by zero") := by
  decide

end Numbers

/-! ### T06.3 — termination -/

/-- `get_list_tail` is bounded by its index argument, not by the list: it cannot loop, on any store
    (well formed or not, circular or not) -/
theorem getListTail_terminates (s : Store) : ∀ (k : Nat) (rest : VCell), getListTail s rest k ≠ .diverge
  | 0, rest => by simp [getListTail]
  | k+1, rest => by
    unfold getListTail
    cases hg : s.get rest with
    | ok node =>
      simp only [bind_ok]
      split
      · simp
      · cases hc : node.asCdr with
        | ok d => simp only [bind_ok]; exact getListTail_terminates s k d
        | err e => simp
        | panic m => simp
        | diverge => cases node <;> simp [VCell.asCdr] at hc
    | err e => simp
    | panic m => simp
    | diverge =>
      cases rest <;> simp [Store.get] at hg
      rename_i a; unfold ofOption at hg; split at hg <;> cases hg

/-- the circular witness: cell 1 is the pair `(1 . <itself>)`, cell 2 a second pair of the same
    shape, cell 3 the two-element cycle `(1 2 1 2 …)` through cell 4 -/
def circ : Store :=
  { cells := [.num 1, .pair 0 1, .pair 0 2, .pair 0 4, .pair 0 3], vecs := [], strs := [] }

theorem circ_wf : circ.WF := by
  constructor
  · intro c hc
    simp only [circ, List.mem_cons, List.mem_nil_iff, or_false] at hc
    rcases hc with rfl | rfl | rfl | rfl | rfl <;> simp [VCell.Valid, circ]
  · intro xs hxs; simp [circ] at hxs

/-- the repaired `list?` answers `#f` on the one-element and on the two-element cycle … -/
theorem isListTH_circular_self : isListTH 3 circ [.ptr 1] = .ok (circ, .bool false) := rfl
theorem isListTH_circular_two : isListTH 5 circ [.ptr 3] = .ok (circ, .bool false) := rfl

/-- … where the pinned loop (still the C14 model `isList`) never returns, whatever the fuel -/
theorem isList_pinned_diverges (fuel : Nat) : isList fuel circ [.ptr 1] = .diverge := by
  have h : ∀ f, isListLoop f circ (.pair 0 1) = .diverge := by
    intro f
    induction f with
    | zero => rfl
    | succ f ih =>
      unfold isListLoop
      simp only [VCell.isPair_pair, Bool.not_true, Bool.false_eq_true, if_false, VCell.asCdr_pair, bind_ok]
      have : circ.get (.ptr 1) = .ok (.pair 0 1) := rfl
      simp only [this, bind_ok]
      exact ih
  have hg : circ.get (.ptr 1) = .ok (.pair 0 1) := rfl
  simp [isList, hg, h]

/-- `C06-circular-length` (fixed): the PINNED definition of the prelude's `length`
    (`Store.Pinned.length`, the text before the repair) recurses without bound on a circular list — no
    fuel suffices -/
theorem length_circular_diverges (fuel : Nat) : Pinned.length fuel circ (.ptr 1) = .diverge := by
  induction fuel with
  | zero => rfl
  | succ f ih =>
    unfold Pinned.length
    have h1 : nullP circ (.ptr 1) = .ok false := rfl
    have h2 : cdrV circ (.ptr 1) = .ok (.ptr 1) := rfl
    simp only [h1, h2, bind_ok, Bool.false_eq_true, if_false, ih, bind_diverge]

/-- … where the repaired `length` (two cursors, `Store.length`) answers the `expected pair` error on
    the one-element and on the two-element cycle: one call of `length`, one resp. two calls of `count` -/
theorem length_circular_self : length 2 circ (.ptr 1) = .err .pair := rfl
theorem length_circular_two : length 3 circ (.ptr 3) = .err .pair := rfl

/-- **T06.3, `length` after the repair: termination on EVERY store.** For every well-formed store — of
    any size, circular or not — and every valid argument, `|cells| + 2` units of fuel (one for the call
    of `length`, one per call of its local `count`, which advances two pairs) are enough: the answer is
    an exact integer when the cdr chain of the argument reaches `()` (`ProperList`) and the
    `expected pair` error when it does not — an improper list, a non-list or a circular list; never
    `diverge`, never `panic`. Floyd / pigeonhole: `Lemmas/TotalLength.lean` on top of the chain lemmas of
    `Lemmas/TotalListP.lean`. -/
theorem length_total (hs : s.WF) {x : VCell} (hx : VCell.Valid s x) {fuel : Nat}
    (hf : s.cells.length + 2 ≤ fuel) :
    (ProperList s x ∧ ∃ n : Nat, length fuel s x = .ok (.num n)) ∨
    (¬ ProperList s x ∧ length fuel s x = .err .pair) :=
  Marwood.Store.length_total hs hx hf

/-- in particular: never out of fuel -/
theorem length_never_diverges (hs : s.WF) {x : VCell} (hx : VCell.Valid s x) {fuel : Nat}
    (hf : s.cells.length + 2 ≤ fuel) : length fuel s x ≠ .diverge := by
  rcases Marwood.Store.length_total hs hx hf with ⟨_, n, h⟩ | ⟨_, h⟩ <;> rw [h] <;> simp

/-- `C06-circular-equal` (fixed by dfd9e81): the PINNED `equal?` (`Store.Pinned.equal`, `compare.rs` before
    the repair) on two circular lists of the same shape never returns — no fuel suffices -/
theorem equal_circular_diverges (fuel : Nat) : Pinned.equal fuel circ (.ptr 1) (.ptr 2) = .diverge := by
  have hP : ∀ f, Pinned.comparePair f circ (.pair 0 1) (.pair 0 2) = .diverge := by
    intro f
    induction f with
    | zero => rfl
    | succ f ih =>
      unfold Pinned.comparePair
      simp only [VCell.isPair_pair, Bool.not_true, Bool.or_self, Bool.false_eq_true, if_false,
        VCell.asCar_pair, VCell.asCdr_pair, bind_ok]
      cases f with
      | zero => rfl
      | succ f' =>
        have he : Pinned.equal (f' + 1) circ (.ptr 0) (.ptr 0) = .ok true := rfl
        have g1 : circ.get (.ptr 1) = .ok (.pair 0 1) := rfl
        have g2 : circ.get (.ptr 2) = .ok (.pair 0 2) := rfl
        simp only [he, bind_ok, Bool.not_true, Bool.false_eq_true, if_false, g1, g2]
        exact ih
  cases fuel with
  | zero => rfl
  | succ f =>
    have he : eqv circ (.ptr 1) (.ptr 2) = .ok false := rfl
    have g1 : derefArg circ (.ptr 1) = .ok (.pair 0 1) := rfl
    have g2 : derefArg circ (.ptr 2) = .ok (.pair 0 2) := rfl
    simp only [Pinned.equal, he, bind_ok, Bool.false_eq_true, if_false, g1, g2, hP]

/-- … where the repaired `equal?` answers on the same witnesses: the two one-element cycles `(1 1 1 …)` at
    cells 1 and 2 are equal (two levels: the second time round the loop meets the locations `(1, 2)`
    again), and so are the one-element cycle and the two-element cycle `(1 1 1 …)` through cells 3, 4
    (R7RS 6.1: the unfoldings are the same infinite list) -/
theorem equal_circular_terminates :
    equalB 3 circ [.ptr 2, .ptr 1] = .ok (circ, .bool true) ∧
    equalB 4 circ [.ptr 3, .ptr 1] = .ok (circ, .bool true) ∧
    equalB 4 circ [.ptr 4, .ptr 3] = .ok (circ, .bool true) := ⟨rfl, rfl, rfl⟩

/-- car-circular pairs (cells 2, 3: `#0=(#0# . ())`), self-containing vectors (cells 4, 5: `#0=#(#0# 2)`)
    and two lists that differ behind a cycle-free prefix (cells 7, 8: `(2)` against `(#0=(#0#))`) -/
def circ2 : Store :=
  { cells := [.num 1, .nil, .pair 2 1, .pair 3 1, .vec 0, .vec 1, .num 2, .pair 6 1, .pair 2 1],
    vecs := [[.ptr 4, .num 2], [.ptr 5, .num 2]], strs := [] }

theorem equal_circular_terminates_car_vec :
    equalB 4 circ2 [.ptr 3, .ptr 2] = .ok (circ2, .bool true) ∧
    equalB 4 circ2 [.ptr 5, .ptr 4] = .ok (circ2, .bool true) ∧
    equalB 4 circ2 [.ptr 8, .ptr 7] = .ok (circ2, .bool false) := ⟨rfl, rfl, rfl⟩

/-- **T06.3, `equal?` after `dfd9e81`: termination on EVERY store.** For every store of the shape of a real
    heap (`Store.Shaped`: no heap cell is itself a reference, a vector slot holds a value) — of any size,
    circular or not — and any two values, `equalFuel s = |cells|² · (maxVecLen + 5) + 1` levels of the three
    mutually recursive loops are never exhausted: every level either records a pair of heap locations that
    was not in the set before (there are `|cells|²`) or is one of at most `maxVecLen + 5` levels between
    two records (`Lemmas/EqualTotal.lean`). The driver passes `max (fuelOf s) (equalFuel s)`. -/
theorem equal_total (hsh : s.Shaped) {l r : VCell} (hl : l.isValue = true) (hr : r.isValue = true) {fuel : Nat}
    (hf : equalFuel s ≤ fuel) : equal fuel s l r ≠ .diverge :=
  Marwood.Store.equal_total hsh hl hr hf

/-- the builtin on any argument list of values: never out of fuel; on a well-formed store (so: no panic
    either, `equalB_noPanic`) it therefore answers a value or an error — T06.3 and T06.2 together -/
theorem equalB_terminates (hsh : s.Shaped) (hs : s.WF) (hv : ∀ v ∈ args, v.isValue = true)
    (ha : ∀ v ∈ args, VCell.Valid s v) {fuel : Nat} (hf : equalFuel s ≤ fuel) :
    (∃ r, equalB fuel s args = .ok r) ∨ (∃ e, equalB fuel s args = .err e) := by
  have hp := equalB_noPanic fuel hs ha
  have hd : equalB fuel s args ≠ .diverge := by
    unfold equalB
    split
    · rename_i a b
      exact bind_ne_diverge (Marwood.Store.equal_total hsh (hv b (by simp)) (hv a (by simp)) hf) (fun _ _ => by simp)
    · simp
  cases h : equalB fuel s args with
  | ok r => exact .inl ⟨r, rfl⟩
  | err e => exact .inr ⟨e, rfl⟩
  | panic m => exact absurd h (hp m)
  | diverge => exact absurd h hd

/-- the hypotheses are satisfiable on the circular witnesses -/
theorem circ_shaped : circ.Shaped ∧ circ2.Shaped := by
  refine ⟨⟨?_, ?_⟩, ⟨?_, ?_⟩⟩
  · intro c hc
    simp only [circ, List.mem_cons, List.mem_nil_iff, or_false] at hc
    rcases hc with rfl | rfl | rfl | rfl | rfl <;> rfl
  · intro xs hxs; simp [circ] at hxs
  · intro c hc
    simp only [circ2, List.mem_cons, List.mem_nil_iff, or_false] at hc
    rcases hc with rfl | rfl | rfl | rfl | rfl | rfl | rfl | rfl | rfl <;> rfl
  · intro xs hxs x hx
    simp only [circ2, List.mem_cons, List.mem_nil_iff, or_false] at hxs
    rcases hxs with rfl | rfl <;> simp only [List.mem_cons, List.mem_nil_iff, or_false] at hx <;>
      rcases hx with rfl | rfl <;> rfl

example : equal (equalFuel circ) circ (.ptr 1) (.ptr 2) ≠ .diverge :=
  equal_total circ_shaped.1 rfl rfl (Nat.le_refl _)

/-- **T06.3, `list?` after `3d7bbb6`: termination on EVERY store.** For every well-formed store — of any
    size, circular or not — and every valid argument, `2·|cells| + 2` iterations of the repaired loop
    are enough: the builtin answers a boolean (no `diverge`, no `panic`, no `err`), leaves the store
    alone, and the boolean is `#t` exactly when the cdr chain of the argument reaches `()`
    (`ProperList`, an inductive predicate: a circular chain is not a proper list).
    Floyd / pigeonhole: `Lemmas/TotalListP.lean`. -/
theorem isListTH_total (hs : s.WF) {x : VCell} (hx : VCell.Valid s x) {fuel : Nat}
    (hf : 2 * s.cells.length + 2 ≤ fuel) :
    ∃ b, isListTH fuel s [x] = .ok (s, .bool b) ∧ (b = true ↔ ProperList s x) :=
  Marwood.Store.isListTH_total hs hx hf

/-- every argument list (any arity): a boolean or the arity error -/
theorem isListTH_terminates (hs : s.WF) (ha : ∀ v ∈ args, VCell.Valid s v) {fuel : Nat}
    (hf : 2 * s.cells.length + 2 ≤ fuel) :
    (∃ b, isListTH fuel s args = .ok (s, .bool b)) ∨ isListTH fuel s args = .err .arity :=
  Marwood.Store.isListTH_terminates hs ha hf

/-- no hypothesis on the store at all (wild references included: those panic, they do not hang) -/
theorem isListTH_never_diverges (s : Store) (args : List VCell) {fuel : Nat}
    (hf : 2 * s.cells.length + 2 ≤ fuel) : isListTH fuel s args ≠ .diverge :=
  Marwood.Store.isListTH_never_diverges s args hf

/-- the bound is met by the witnesses: the circular store has 5 cells, fuel 12 -/
example : ∃ b, isListTH 12 circ [.ptr 3] = .ok (circ, .bool b) ∧ (b = true ↔ ProperList circ (.ptr 3)) :=
  isListTH_total circ_wf (by simp [VCell.Valid, circ]) (by simp [circ])

/-- … and the two-element cycle is not a proper list -/
theorem circ_not_properList : ¬ ProperList circ (.ptr 3) := by
  obtain ⟨b, hb, hiff⟩ := isListTH_total (fuel := 12) circ_wf (x := .ptr 3) (by simp [VCell.Valid, circ]) (by simp [circ])
  have : isListTH 12 circ [.ptr 3] = .ok (circ, .bool false) := rfl
  rw [this] at hb
  cases b with
  | false => intro h; exact absurd (hiff.mpr h) (by simp)
  | true => simp at hb

/-! ### T06.4 — every error renders -/

/-- `Display` of every `Error` variant produces text; the two index errors subtract with
    `saturating_sub` (after 9789244) -/
theorem render_never_panics (e : ErrorV) : ∃ t, render e = .ok t := by
  cases e <;> exact ⟨_, rfl⟩

/-- the pinned format (`.1 - 1`) panicked for an index error on an empty vector or string -/
theorem renderPinned_panics : renderPinned (.invalidVectorIndex 0 0) = .panic "error.rs: len - 1" ∧
    renderPinned (.invalidStringIndex 0 0) = .panic "error.rs: len - 1" := ⟨rfl, rfl⟩


/-! ### T06.5 — the VM accepts further input after an error (re-exported from C07) -/

/-- after any failed evaluation the machine is quiescent: registers and stack are those of an idle
    VM, so the next evaluation starts from the register state a fresh VM starts from
    (`hg`: the collector touches only the heap, as in C07) -/
theorem failed_eval_quiescent {H : Type} (ops : Vm.HeapOps H) (gc : Vm.St H → Vm.St H)
    (count : Option Nat) (fuel : Nat) (s : Vm.St H) (f : Vm.Fault) (s' : Vm.St H)
    (h : Vm.runEval ops gc count fuel s = .failed f s') (hg : Vm.GcRegs gc) :
    Marwood.Proofs.C07.Quiescent s' :=
  (Marwood.Proofs.C07.failed_eval_resets ops gc count fuel s f s' h hg).1

/-! ### T06.6 — `step` (`run_one`) does not panic in a WF machine state

`Lemmas/StackWFNoPanic.lean`. `WFS` is the frame-chain invariant of C04/C05/C07 (preserved by `step`,
`Vm.step_preserves`); `PanicLaws` lists what the stack invariant cannot see (heap-object facts, and
that the heap-side operations — closure / activation construction, vector push, the generic builtins,
`eval`'s compiler — do not panic). Excluded for every WF state: all checked subtractions (`bp - n` of
RET, `sp - 4` of ENTER, `bp - it`, `saved_sp - it - 1`, `bp - frame_argc` of TCALL, `ip.1 -= 1` of
`apply` / `eval` / `call/cc`, `args.len() - 1` of VARARG), the slice of `to_continuation` and the
`%ip is not a procedure` expectations. Two sites remain, `Vm.Residual`:
`restore_continuation`'s `split_at_mut` (a continuation longer than the current stack — excluded in
the real VM by the temporal fact that the stack only grows, which `WFS` does not record) and the
model's fuel guard in `apply`'s list walk (a cyclic argument list; the Rust loop would hang). -/

theorem step_panic_sites {H : Type} {ops : Vm.HeapOps H} {cl : Vm.CodeLaws ops} (pl : Vm.PanicLaws cl)
    {s : Vm.St H} {K : List Vm.FDesc} (hw : Vm.WFS cl s K) (m : String) (h : Vm.step ops s = .panic m) :
    m = "restore_continuation: split_at_mut out of range" ∨ m = "apply: list longer than fuel (cyclic list)" :=
  Vm.step_pin pl hw m h

/-- with the two residual sites excluded for the state at hand, no panic at all -/
theorem step_never_panics {H : Type} {ops : Vm.HeapOps H} {cl : Vm.CodeLaws ops} (pl : Vm.PanicLaws cl)
    {s : Vm.St H} {K : List Vm.FDesc} (hw : Vm.WFS cl s K)
    (hres : ∀ m, Vm.Residual m → Vm.step ops s ≠ .panic m) : ∀ m, Vm.step ops s ≠ .panic m :=
  fun m h => Vm.step_noPanic pl hw hres m h

/-- the laws are satisfiable (the toy instance of C04/C05/C07), and along a run from a WF start every
    state is covered -/
example (k : Nat) (s' : Vm.St Unit) (h : Vm.Toy.runK k (Vm.prepare Vm.Toy.idle 1) = some s') (m : String)
    (hp : Vm.step Vm.Toy.ops s' = .panic m) : Vm.Residual m :=
  Vm.Toy.runK_pin k _ s' [] Vm.Toy.wf_start1 h m hp

/-! ### the population: the regenerated table -/

set_option maxRecDepth 8192 in
/-- `Gen.builtins` (regenerated from `vm/builtin/*.rs` on every run) lists 142 procedures and every
    arity window is non-empty; a change of the registry makes this theorem fail to elaborate -/
theorem builtins_table_size : Marwood.Gen.builtins.length = 142 := by decide

set_option maxRecDepth 8192 in
theorem builtins_table_windows :
    (Marwood.Gen.builtins.all fun e => match e.2.2 with | some mx => decide (e.2.1 ≤ mx) | none => true) = true := by
  decide

set_option maxRecDepth 8192 in
/-- the arity windows the models above pattern-match on are the regenerated ones -/
theorem builtins_table_windows_modelled :
    Marwood.Gen.builtins.lookup "vector-copy!" = some (3, some 5) ∧
    Marwood.Gen.builtins.lookup "vector-copy" = some (1, some 3) ∧
    Marwood.Gen.builtins.lookup "make-vector" = some (1, some 2) ∧
    Marwood.Gen.builtins.lookup "make-string" = some (1, some 2) ∧
    Marwood.Gen.builtins.lookup "string-fill!" = some (2, some 4) ∧
    Marwood.Gen.builtins.lookup "string-copy" = some (1, some 3) ∧
    Marwood.Gen.builtins.lookup "string->list" = some (1, some 3) ∧
    Marwood.Gen.builtins.lookup "list?" = some (1, some 1) ∧
    Marwood.Gen.builtins.lookup "equal?" = some (2, some 2) ∧
    Marwood.Gen.builtins.lookup "append" = some (0, none) := by
  decide

/-! ### the hypotheses are satisfiable -/

/-- the circular witness store is well formed and its pointers are valid arguments: the no-panic
    lemmas apply to it (`equal?` and `list?` on circular structure do not panic — they diverge or
    answer) -/
example : Outcome.NoPanic (equalB 1000 circ [.ptr 2, .ptr 1]) :=
  equalB_noPanic 1000 circ_wf (by intro v hv; simp at hv; rcases hv with rfl | rfl <;> simp [VCell.Valid, circ])

example : Outcome.NoPanic (isListTH 1000 circ [.ptr 3]) :=
  isListTH_noPanic 1000 circ_wf (by intro v hv; simp at hv; subst hv; simp [VCell.Valid, circ])

/-- the empty store is well formed; immediates are always valid -/
example : Store.empty.WF := ⟨by intro c hc; simp [Store.empty] at hc, by intro xs hx; simp [Store.empty] at hx⟩
example : Outcome.NoPanic (vectorRef Store.empty [.num 3, .bool true]) :=
  vectorRef_noPanic ⟨by intro c hc; simp [Store.empty] at hc, by intro xs hx; simp [Store.empty] at hx⟩
    (by intro v hv; simp at hv; rcases hv with rfl | rfl <;> trivial)

/-- the size hypothesis of `makeVector_noPanic` holds for the property's largest request -/
example : Outcome.NoPanic (makeVector Store.empty [.num 1000000]) :=
  makeVector_noPanic ⟨by intro c hc; simp [Store.empty] at hc, by intro xs hx; simp [Store.empty] at hx⟩
    (by intro v hv; simp at hv; subst hv; trivial)
    (by intro n k hn hg; simp at hn; subst hn; simp [Store.get] at hg; omega)

/-! ### T06.6 on the concrete machine

`Lemmas/ConcreteLaws*.lean` (imported through `Proofs/C07.lean`): over the concrete heap `CodeLaws` is the
theorem `concreteLaws ext ecl` (hypotheses: `CInv` of the heap — every lambda cell passes the bytecode
verifier — and `ExtCodeLaws ext`), and in a `CalleeOk` state the guarded machine's `step` is the concrete
machine's (`step_gops`). `PanicLaws` stays a hypothesis: its heap-object fields (`vararg_info`, the
slot-index `expect`s of CLOSURE's / ENTER's environment construction, the unmodelled builtins) are not
consequences of `CInv`; `isLambda_code` is (`concrete_isLambda_code`). -/

theorem concrete_isLambda_code (ext : Vm.Concrete.ExtOps) (ecl : Vm.Concrete.ExtCodeLaws ext)
    {h : Vm.Concrete.CHeap} {l : Nat} {bc : List Vm.VCell}
    (hc : (Vm.Concrete.concreteLaws ext ecl).code h l = some bc) :
    (Vm.Concrete.gops ext).isLambda h l = true := by
  obtain ⟨lam, h1, _⟩ := Vm.Concrete.codeC_some hc
  show (Vm.Concrete.lambdaAt h l).isSome = true
  rw [Vm.Concrete.lambdaAt_iff.mpr h1]; rfl

/-- one instruction **of the concrete machine** from a WF-stack, `CalleeOk` state panics at most at the two
    residual sites -/
theorem step_panic_sites_concrete (ext : Vm.Concrete.ExtOps) (ecl : Vm.Concrete.ExtCodeLaws ext)
    (pl : Vm.PanicLaws (Vm.Concrete.concreteLaws ext ecl)) {s : Vm.St Vm.Concrete.CHeap} {K : List Vm.FDesc}
    (hok : Vm.Concrete.CalleeOk s) (hw : Vm.WFS (Vm.Concrete.concreteLaws ext ecl) s K) (m : String)
    (h : Vm.step (Vm.Concrete.concreteOps ext) s = .panic m) :
    m = "restore_continuation: split_at_mut out of range" ∨ m = "apply: list longer than fuel (cyclic list)" := by
  rw [← Vm.Concrete.step_gops ext hok] at h
  exact Vm.step_pin pl hw m h

/-! ### T06.6 closed for the modelled part of the VM: `run_one` never panics on reachable states

`Lemmas/NoPanic*.lean`. `step_panic_sites_concrete` above needs `CalleeOk s` and `PanicLaws` and leaves two sites.
Since then `CalleeOk` is a theorem (`PInv`), and here the rest is discharged **for the concrete machine**
`machine ext force` (`run_one` over `concreteOps ext`, `run_gc` = `cgc force`):

* `PanicLaws`' facts about modelled operations are theorems at the arguments the instruction hands the operation
  (`Vm.PanicFacts`, `panicFacts_concrete`): `%ip` designates a lambda; VARARG's `args.len() - 1`
  (`concrete_vararg_info`, from the new heap clause `HeapNP`: a lambda whose code contains VARARG has a formal);
  CLOSURE's environment construction (`concrete_makeClosure_np`: no `IofArgument` source — `CInvG.noIofArg` — so
  `load_arg` is never evaluated; `IofEnvironment(k)` within the current environment); ENTER's
  (`concrete_makeActivation_np`: `argc - arg` from `HeapNP`, `bp - (argc - arg)` from WF-stack, one closure-environment
  slot per environment-map entry). VPUSH, the generic builtins and `eval`'s compiler are the parameter
  `ExtNoPanic ext` (T06.2's subject), with `ExtGood`'s premises.
* the residual site `restore_continuation: split_at_mut out of range` is **excluded**: `ContFits` (every
  continuation cell's stack copy is no longer than the current stack) is an invariant — `call/cc` copies
  `stack[0..=sp]`, nothing else creates a continuation, the stack never shrinks (`step_len_mono`), the collector
  touches neither, `Stack::clear` and the error reset keep the capacity (`npinv_step`, `npinv_gc`, `npinv_onDone`,
  `npinv_onError`).
* the residual site `apply: list longer than fuel` is the MODEL's guard (100000), not a panic site of `run_one`;
  it is the one exception in the statements, and `apply_guard_only_on_long_lists` characterises it.

What remains a hypothesis about states: `EnvSlots s'` — the two slot-index `expect`s of `LexicalEnvironment::get/put`
in CLOSURE / ENTER at the instruction under `ip` (the current environment has a slot for every `IofEnvironment` index
of the lambda being closed over; the closure environment has one per environment-map entry). It relates `ep` and
closure environments to code objects through the frame chain, which neither WF-stack nor the heap invariants
record; the stream `safe-side-conditions` evaluates it on every real state (`np-env-slots`). -/

section NoPanicMachine
open Marwood.Vm Marwood.Vm.Concrete Marwood.Lemmas.Sim Marwood.Lemmas.Good

/-- `PanicLaws.vararg_info` for the concrete heap: a theorem from `HeapNP` -/
theorem concrete_vararg_info (ext : ExtOps) {h : CHeap} (hn : HeapNP h) {l : Nat} {lam : CLambda}
    (hl : lambdaAt h l = some lam) {o : Nat} (ho : lam.bc[o]? = some (.opcode .varArg)) :
    ∃ info, (concreteOps ext).lambdaInfo h l = some info ∧ 1 ≤ info.argc := by
  refine ⟨⟨lam.args.length⟩, ?_, (hn.cell (lambdaAt_iff.mp hl)).vararg (List.mem_of_getElem? ho)⟩
  show (lambdaAt h l).map (fun lam => (⟨lam.args.length⟩ : LambdaInfo)) = _
  rw [hl]; rfl

/-- `PanicLaws.makeClosure_np` for the concrete heap, at the arguments CLOSURE uses -/
theorem concrete_makeClosure_np {h : CHeap} {lam ep bp : Nat} {st : Stack}
    (hno : ∀ l, lambdaAt h lam = some l → ∀ x ∈ l.envmap, ∀ a, x.2 ≠ Source.iofArg a)
    (hk : ∀ l ss, lambdaAt h lam = some l → envAt h ep = some ss → ∀ x ∈ l.envmap, ∀ k,
      x.2 = Source.iofEnv k → k < ss.length) :
    ∀ m, makeClosure h lam ep bp st ≠ .panic m :=
  fun m hp => makeClosure_np hno hk m hp

/-- `PanicLaws.makeActivation_np` for the concrete heap, at the arguments ENTER uses -/
theorem concrete_makeActivation_np {h : CHeap} {lam env bp : Nat} {st : Stack}
    (hlen : ∀ l ss, lambdaAt h lam = some l → envAt h env = some ss → l.envmap.length ≤ ss.length)
    (harg : ∀ l, lambdaAt h lam = some l → ∀ x ∈ l.envmap, ∀ a, x.2 = Source.arg a → a ≤ l.args.length)
    (hb : ∀ l, lambdaAt h lam = some l → l.args.length ≤ bp) :
    ∀ m, makeActivation h lam env bp st ≠ .panic m :=
  fun m hp => makeActivation_np hlen harg hb m hp

/-- **`ContFits` is an invariant of `run_one`** (with the lambda clause): `call/cc` copies at most the current
    capacity, nothing else creates a continuation object, the capacity never decreases -/
theorem contFits_step (ext : ExtOps) (en : ExtNoPanic ext) {s s' : St CHeap} {b : Bool}
    (hs : step (concreteOps ext) s = .ok (s', b)) (i : NPInv s) : NPInv s' := npinv_step en hs i

/-- **T06.6, closed: `step` never panics on a state reachable from a good initial state of the concrete machine** —
    except at the model's own fuel guard in `apply`. Hypotheses: the laws of the unmodelled parts (`ExtLaws`,
    `ExtGood`, `ExtProc`, `ExtCodeLawsV` through `VmOkP`, `ExtNoPanic`), the bundled invariant and the two further
    clauses of the INITIAL state, the physical size bound, and the slot clause of the state examined. -/
theorem step_never_panics_machine (ext : ExtOps) (ecl : ExtCodeLawsV ext) (force : Bool) (el : ExtLaws ext)
    (eg : ExtGood ext) (ep : ExtProc ext) (en : ExtNoPanic ext) {s0 : St CHeap} (h0 : VmOkP ext ecl s0)
    (n0 : NPInv s0) (sb : SizeBounded (machine ext force) s0) {s : St CHeap}
    (hr : Reaches (machine ext force) s0 s) (es : EnvSlots s) (m : String)
    (hp : step (concreteOps ext) s = .panic m) : m = "apply: list longer than fuel (cyclic list)" :=
  step_never_panics_reachable force el eg ep en ⟨h0, n0⟩ sb hr es m hp

/-- **the guard of `apply` fires only on a list of 100000 or more pairs, or a cyclic one**: if `step` panics in
    such a state, the cdr chain from the stack cell under `apply`'s argument count runs through at least 100000 pair
    cells of the heap (`LongChain`); a proper list with fewer elements (`EndsWithin`) never trips it
    (`pushList_ends_np`) -/
theorem apply_guard_only_on_long_lists (ext : ExtOps) (ecl : ExtCodeLawsV ext) (force : Bool) (el : ExtLaws ext)
    (eg : ExtGood ext) (ep : ExtProc ext) (en : ExtNoPanic ext) {s0 : St CHeap} (h0 : VmOkP ext ecl s0)
    (n0 : NPInv s0) (sb : SizeBounded (machine ext force) s0) {s : St CHeap}
    (hr : Reaches (machine ext force) s0 s) (es : EnvSlots s) (m : String)
    (hp : step (concreteOps ext) s = .panic m) :
    LongChain s.heap 100000 (deref s.heap (s.stack.cellAt (s.stack.sp - 1))) := by
  obtain ⟨h1, h2⟩ := vmOkNP_reaches force el eg ep en ⟨h0, n0⟩ sb s hr
  exact (step_apply_guard_long en h1 h2 es m hp).2

/-- a long chain and a list that ends earlier exclude each other -/
theorem longChain_not_endsWithin {h : CHeap} : ∀ {k : Nat} {v : Vm.VCell}, LongChain h k v → ¬ EndsWithin h k v := by
  intro k v hl
  induction hl with
  | zero v => intro he; cases he
  | pair car cdr _ ih => intro he; cases he with | pair _ _ hc => exact ih hc

/-- **`run_count` never ends in a panic**: any budget, any number of instructions -/
theorem run_never_panics_machine (ext : ExtOps) (ecl : ExtCodeLawsV ext) (force : Bool) (el : ExtLaws ext)
    (eg : ExtGood ext) (ep : ExtProc ext) (en : ExtNoPanic ext) {s0 : St CHeap} (h0 : VmOkP ext ecl s0)
    (n0 : NPInv s0) (sb : SizeBounded (machine ext force) s0) (esl : EnvSlotsAlong (machine ext force) s0)
    (count : Option Nat) (fuel c : Nat) {m : String} {sf : St CHeap}
    (hr : runLoop (machine ext force) count fuel c s0 = .error (.panic m) sf) :
    m = "apply: list longer than fuel (cyclic list)" :=
  runLoop_never_panics_machine force el eg ep en ⟨h0, n0⟩ sb esl count fuel c hr

/-- **one evaluation (`run_count` with its epilogues) never fails with a panic** -/
theorem eval_never_panics_machine (ext : ExtOps) (ecl : ExtCodeLawsV ext) (force : Bool) (el : ExtLaws ext)
    (eg : ExtGood ext) (ep : ExtProc ext) (en : ExtNoPanic ext) {s0 : St CHeap} (h0 : VmOkP ext ecl s0)
    (n0 : NPInv s0) (sb : SizeBounded (machine ext force) s0) (esl : EnvSlotsAlong (machine ext force) s0)
    (count : Option Nat) (fuel : Nat) {m : String} {s1 : St CHeap}
    (hr : runEval (concreteOps ext) (cgc force) count fuel s0 = .failed (.panic m) s1) :
    m = "apply: list longer than fuel (cyclic list)" :=
  runEval_never_panics_machine force el eg ep en ⟨h0, n0⟩ sb esl count fuel hr

/-- the faults of a history of evaluations (`runHistory` of C07 returns the final state only) -/
def histFaults (ext : ExtOps) (force : Bool) : List C07.Job → St CHeap → List Fault
  | [], _ => []
  | j :: js, s =>
    match runEval (concreteOps ext) (cgc force) none j.fuel (prepare s j.entry) with
    | .value s' => histFaults ext force js s'
    | .failed f s' => f :: histFaults ext force js s'
    | .paused s' => histFaults ext force js s'
    | .fuel => histFaults ext force js s

/-- every job of the history starts — `ip` pointed at its entry lambda — in a state satisfying the bundled invariant
    of C03/C04/C07/C13 (as in `failed_eval_equivalent_later_closed`: re-establishing `VmOkP` after `prepare_eval` is
    the compiler's law), within the size bound, the slot clause along its run. The two clauses `NPInv` are NOT asked
    again: they are carried from the first job to every later one. -/
def HistGood (ext : ExtOps) (ecl : ExtCodeLawsV ext) (force : Bool) : List C07.Job → St CHeap → Prop
  | [], _ => True
  | j :: js, s =>
    (VmOkP ext ecl (prepare s j.entry) ∧ SizeBounded (machine ext force) (prepare s j.entry) ∧
      EnvSlotsAlong (machine ext force) (prepare s j.entry)) ∧
    match runEval (concreteOps ext) (cgc force) none j.fuel (prepare s j.entry) with
    | .value s' => HistGood ext ecl force js s'
    | .failed _ s' => HistGood ext ecl force js s'
    | .paused s' => HistGood ext ecl force js s'
    | .fuel => HistGood ext ecl force js s

/-- **no history of evaluations makes the modelled VM panic**: any interleaving of succeeding and failing
    evaluations; continuation objects captured in one evaluation and kept (in a global, a closure) fit the stack of
    every later evaluation because `Stack::clear` and the error reset keep the capacity -/
theorem history_never_panics_machine (ext : ExtOps) (ecl : ExtCodeLawsV ext) (force : Bool) (el : ExtLaws ext)
    (eg : ExtGood ext) (ep : ExtProc ext) (en : ExtNoPanic ext) :
    ∀ (js : List C07.Job) (s : St CHeap), NPInv s → HistGood ext ecl force js s →
      ∀ f ∈ histFaults ext force js s, ∀ m, f = Fault.panic m → m = "apply: list longer than fuel (cyclic list)" := by
  intro js
  induction js with
  | nil => intro s _ _ f hf; cases hf
  | cons j js ih =>
    intro s n0 hg f hf m hm
    obtain ⟨⟨hv, sb, esl⟩, hrest⟩ := hg
    have n1 : NPInv (prepare s j.entry) := npinv_prepare_entry n0 j.entry
    obtain ⟨k1, k2, k3⟩ := npinv_runEval force en n1 none j.fuel
    simp only [histFaults] at hf
    cases hr : runEval (concreteOps ext) (cgc force) none j.fuel (prepare s j.entry) with
    | value s' =>
      rw [hr] at hf hrest
      exact ih s' (k1 s' hr) hrest f hf m hm
    | failed f' s' =>
      rw [hr] at hf hrest
      rcases List.mem_cons.mp hf with e | hf'
      · subst e; subst hm
        exact runEval_never_panics_machine force el eg ep en ⟨hv, n1⟩ sb esl none j.fuel hr
      · exact ih s' (k2 f' s' hr) hrest f hf' m hm
    | paused s' =>
      rw [hr] at hf hrest
      exact ih s' (k3 s' hr) hrest f hf m hm
    | fuel =>
      rw [hr] at hf hrest
      exact ih s n0 hrest f hf m hm

/-! #### non-vacuity -/

/-- the law of the unmodelled parts is satisfiable (the always-failing parameter set of C13) -/
theorem failingExt_noPanic : ExtNoPanic C13.failingExt where
  builtinEval_np := fun _ _ _ _ _ => pin_err _
  compileEval_np := fun _ _ _ _ => pin_err _
  vectorPush_np := fun _ _ _ _ _ _ => pin_err _
  builtinEval_cont := fun _ h => (by cases h)
  compileEval_cont := fun _ h => (by cases h)
  vectorPush_cont := fun _ h => (by cases h)
  builtinEval_lam := fun h => (by cases h)
  compileEval_lam := fun h => (by cases h)
  vectorPush_lam := fun h => (by cases h)

open Marwood.Lemmas.Good.Demo in
/-- every hypothesis of `run_never_panics_machine` holds of the demo machine: its run does not panic -/
example (count : Option Nat) (fuel c : Nat) (m : String) (sf : St CHeap) :
    runLoop (machine C13.failingExt false) count fuel c (sHalt 0) ≠ .error (.panic m) sf := by
  intro hr
  have := run_never_panics_machine C13.failingExt C13.failingExt_codeLawsV false C13.failingExt_laws
    C13.failingExt_good C13.failingExt_proc failingExt_noPanic (sHalt_vmOkP _ _) (sHalt_npinv 0)
    (sHalt_sizeBounded _) (sHalt_envSlotsAlong _) count fuel c hr
  subst this
  -- the demo program is `HALT`: it has no `apply`
  obtain ⟨hreach, hst⟩ := (runLoop_ends (ext := C13.failingExt) false count fuel c (sHalt 0)).1 _ _ hr
  rcases sHalt_reaches _ hreach with h | h <;> subst h <;> cases hst

open Marwood.Lemmas.Good.Demo in
example : NPInv (sHalt 0) ∧ EnvSlots (sHalt 0) ∧ ExtNoPanic C13.failingExt :=
  ⟨sHalt_npinv 0, sHalt_envSlots 0 (.inl rfl), failingExt_noPanic⟩

end NoPanicMachine

/-! ### T06.6 without `EnvSlots`: the slot clause is an invariant

`Lemmas/EnvTaint*.lean`, `Lemmas/EnvFit*.lean`, `Lemmas/EnvInvStep.lean`, `Lemmas/EnvInvMain.lean`; executable form
`Vm/EnvInvCheck.lean: stateEnvB` (evaluated on every real state by the stream `safe-side-conditions`, clauses `env-*`).

`EnvInv s = TInv s ∧ FInv s`:

* `FInv` ("fit") — every closure cell's environment has a slot for every entry of its lambda's environment map; every
  adjacent `EnvironmentPointer(e), InstructionPointer(l, _)` pair of the live stack and of every continuation object's
  stack copy fits (`e` covers `l`'s map), so does the `(ep, ip.0)` a continuation object saved, and the current
  `(ep, ip.0)` outside a procedure prologue (in a prologue `acc` still holds the callee whose code runs); where a code
  object has `MOVIMM <Ptr(p)> %acc; CLOSURE`, the `IofEnvironment` indices of the lambda in cell `p` are below the length
  of that code object's own map.
* `TInv` ("no value leads to a capturing lambda") — needed because the verifier does not know what `acc` holds at a
  CLOSURE or a bare-lambda CALL: verified bytecode could store the pointer `MOVIMM` loaded in a global and close over
  it, or call it bare, in a foreign environment (the model and `run_one` alike would then index out of the
  environment). Compiled code never does: a pointer to a lambda with a non-empty environment map occurs only as the
  immediate of `MOVIMM … %acc; CLOSURE` and, between those two instructions, in `acc`. That is the second invariant
  (same traversal as "no value leads to entry code": stack, globals, environment slots, vectors, pairs, continuation
  copies, immediates), with its own law for the unmodelled operations.

Both are preserved by all 16 opcodes (apply / call/cc / eval re-dispatch, continuation invocation, both TCALL variants,
VARARG included), by the collector (it moves nothing), by the epilogues and by `prepare_eval` — under `ExtEnvInv ext` /
`CompEnvInv comp`, the law of the parameters of the model — and imply `EnvSlots` in every state satisfying the bundled
invariant (`envSlots_of_envInv`). The four theorems below are the T06.6 theorems without `EnvSlots` / `EnvSlotsAlong`. -/

section NoPanicMachineClosed
open Marwood.Vm Marwood.Vm.Concrete Marwood.Lemmas.Sim Marwood.Lemmas.Good

/-- **the slot clause follows from the invariant** -/
theorem envSlots_of_envInv (ext : ExtOps) (ecl : ExtCodeLawsV ext) {s : St CHeap} (h : VmOkNP ext ecl s)
    (e : EnvInv s) : EnvSlots s := Marwood.Lemmas.Good.envSlots_of_envInv h.1 e

/-- **`EnvInv` is preserved by `run_one`** (all 16 opcodes of `step (concreteOps ext)`) -/
theorem envInv_step (ext : ExtOps) (ecl : ExtCodeLawsV ext) (eg : ExtGood ext) (ee : ExtEnvInv ext)
    {s s' : St CHeap} {b : Bool} (h : VmOkP ext ecl s) (e : EnvInv s) (hs : step (concreteOps ext) s = .ok (s', b))
    (sm' : Small s'.heap) : EnvInv s' := Marwood.Lemmas.Good.envInv_step eg ee h e hs sm'

/-- **… by the collector** -/
theorem envInv_gc (ext : ExtOps) (ecl : ExtCodeLawsV ext) (force : Bool) {s : St CHeap} (h : VmOkP ext ecl s)
    (e : EnvInv s) : EnvInv (cgc force s) := Marwood.Lemmas.Good.envInv_gc force h e

/-- **… by the success epilogue** -/
theorem envInv_onDone {s : St CHeap} (e : EnvInv s) : EnvInv (onDone s) := Marwood.Lemmas.Good.envInv_onDone e

/-- **… by the error epilogue** -/
theorem envInv_onError {s : St CHeap} (g : HG s.heap) (e : EnvInv s) : EnvInv (onError s) :=
  Marwood.Lemmas.Good.envInv_onError g e

/-- **… by `prepare_eval`**, under the compiler's law -/
theorem envInv_prepare {comp : CHeap → Vm.VCell → Vm.Outcome (CHeap × Vm.VCell)} (ce : CompEnvInv comp) {s s' : St CHeap}
    {d : Vm.VCell} (g : HG s.heap) (g' : HG s'.heap) (e : EnvInv s) (hacc : s.acc = .undefined)
    (hst : ∀ c ∈ s.stack.cells, c = Vm.VCell.undefined) (hd : addrFree d = true)
    (hp : prepareEval comp s d = .ok s') : EnvInv s' :=
  Marwood.Lemmas.Good.envInv_prepare ce g g' e hacc hst hd hp

/-- **T06.6, closed, no hypothesis about the state examined: `step` never panics on a state reachable from a good
    initial state of the concrete machine** — except at the model's own fuel guard in `apply`. Hypotheses: the laws of
    the unmodelled parts (`ExtLaws`, `ExtGood`, `ExtProc`, `ExtCodeLawsV` through `VmOkP`, `ExtNoPanic`, `ExtEnvInv`), the
    invariants of the INITIAL state (`VmOkP`, `NPInv`, `EnvInv`), and the physical size bound. -/
theorem step_never_panics_machine_closed (ext : ExtOps) (ecl : ExtCodeLawsV ext) (force : Bool) (el : ExtLaws ext)
    (eg : ExtGood ext) (ep : ExtProc ext) (en : ExtNoPanic ext) (ee : ExtEnvInv ext) {s0 : St CHeap}
    (h0 : VmOkP ext ecl s0) (n0 : NPInv s0) (e0 : EnvInv s0) (sb : SizeBounded (machine ext force) s0) {s : St CHeap}
    (hr : Reaches (machine ext force) s0 s) (m : String)
    (hp : step (concreteOps ext) s = .panic m) : m = "apply: list longer than fuel (cyclic list)" :=
  step_never_panics_reachable_closed force el eg ep en ee ⟨h0, n0⟩ e0 sb hr m hp

/-- **`run_count` never ends in a panic**: any budget, any number of instructions -/
theorem run_never_panics_machine_closed (ext : ExtOps) (ecl : ExtCodeLawsV ext) (force : Bool) (el : ExtLaws ext)
    (eg : ExtGood ext) (ep : ExtProc ext) (en : ExtNoPanic ext) (ee : ExtEnvInv ext) {s0 : St CHeap}
    (h0 : VmOkP ext ecl s0) (n0 : NPInv s0) (e0 : EnvInv s0) (sb : SizeBounded (machine ext force) s0)
    (count : Option Nat) (fuel c : Nat) {m : String} {sf : St CHeap}
    (hr : runLoop (machine ext force) count fuel c s0 = .error (.panic m) sf) :
    m = "apply: list longer than fuel (cyclic list)" :=
  runLoop_never_panics_machine_closed force el eg ep en ee ⟨h0, n0⟩ e0 sb count fuel c hr

/-- **one evaluation (`run_count` with its epilogues) never fails with a panic** -/
theorem eval_never_panics_machine_closed (ext : ExtOps) (ecl : ExtCodeLawsV ext) (force : Bool) (el : ExtLaws ext)
    (eg : ExtGood ext) (ep : ExtProc ext) (en : ExtNoPanic ext) (ee : ExtEnvInv ext) {s0 : St CHeap}
    (h0 : VmOkP ext ecl s0) (n0 : NPInv s0) (e0 : EnvInv s0) (sb : SizeBounded (machine ext force) s0)
    (count : Option Nat) (fuel : Nat) {m : String} {s1 : St CHeap}
    (hr : runEval (concreteOps ext) (cgc force) count fuel s0 = .failed (.panic m) s1) :
    m = "apply: list longer than fuel (cyclic list)" :=
  runEval_never_panics_machine_closed force el eg ep en ee ⟨h0, n0⟩ e0 sb count fuel hr

/-- every job of the history starts — `ip` pointed at its entry lambda — in a state satisfying the bundled invariant
    and `EnvInv` (re-establishing both after `prepare_eval` is the compiler's law: `envInv_prepare`), within the size
    bound. Nothing is asked along the runs. -/
def HistGoodE (ext : ExtOps) (ecl : ExtCodeLawsV ext) (force : Bool) : List C07.Job → St CHeap → Prop
  | [], _ => True
  | j :: js, s =>
    (VmOkP ext ecl (prepare s j.entry) ∧ SizeBounded (machine ext force) (prepare s j.entry) ∧
      EnvInv (prepare s j.entry)) ∧
    match runEval (concreteOps ext) (cgc force) none j.fuel (prepare s j.entry) with
    | .value s' => HistGoodE ext ecl force js s'
    | .failed _ s' => HistGoodE ext ecl force js s'
    | .paused s' => HistGoodE ext ecl force js s'
    | .fuel => HistGoodE ext ecl force js s

/-- `HistGoodE` implies the hypothesis of `history_never_panics_machine`: the slot clause along every job's run is a
    theorem (`NPInv` is carried from job to job) -/
theorem histGood_of_histGoodE (ext : ExtOps) (ecl : ExtCodeLawsV ext) (force : Bool) (el : ExtLaws ext)
    (eg : ExtGood ext) (ep : ExtProc ext) (en : ExtNoPanic ext) (ee : ExtEnvInv ext) :
    ∀ (js : List C07.Job) (s : St CHeap), NPInv s → HistGoodE ext ecl force js s → HistGood ext ecl force js s := by
  intro js
  induction js with
  | nil => intro s _ _; trivial
  | cons j js ih =>
    intro s n0 hg
    obtain ⟨⟨hv, sb, e0⟩, hrest⟩ := hg
    have n1 : NPInv (prepare s j.entry) := npinv_prepare_entry n0 j.entry
    obtain ⟨k1, k2, k3⟩ := npinv_runEval force en n1 none j.fuel
    refine ⟨⟨hv, sb, envSlotsAlong_of_envInv force el eg ep en ee ⟨hv, n1⟩ e0 sb⟩, ?_⟩
    cases hr : runEval (concreteOps ext) (cgc force) none j.fuel (prepare s j.entry) with
    | value s' => rw [hr] at hrest; exact ih s' (k1 s' hr) hrest
    | failed f' s' => rw [hr] at hrest; exact ih s' (k2 f' s' hr) hrest
    | paused s' => rw [hr] at hrest; exact ih s' (k3 s' hr) hrest
    | fuel => rw [hr] at hrest; exact ih s n0 hrest

/-- **no history of evaluations makes the modelled VM panic** — without `EnvSlotsAlong` -/
theorem history_never_panics_machine_closed (ext : ExtOps) (ecl : ExtCodeLawsV ext) (force : Bool) (el : ExtLaws ext)
    (eg : ExtGood ext) (ep : ExtProc ext) (en : ExtNoPanic ext) (ee : ExtEnvInv ext) :
    ∀ (js : List C07.Job) (s : St CHeap), NPInv s → HistGoodE ext ecl force js s →
      ∀ f ∈ histFaults ext force js s, ∀ m, f = Fault.panic m → m = "apply: list longer than fuel (cyclic list)" :=
  fun js s n0 hg => history_never_panics_machine ext ecl force el eg ep en js s n0
    (histGood_of_histGoodE ext ecl force el eg ep en ee js s n0 hg)

/-! #### non-vacuity -/

/-- the law of the unmodelled parts is satisfiable (the always-failing parameter set of C13) -/
theorem failingExt_envInv : ExtEnvInv C13.failingExt where
  taint := ⟨fun _ _ _ _ _ _ _ _ h => (by cases h), fun _ _ _ _ _ _ _ h => (by cases h),
    fun _ _ _ _ _ _ _ _ h => (by cases h)⟩
  fit := ⟨fun _ _ _ _ _ _ _ _ _ _ h => (by cases h), fun _ _ _ _ _ _ _ _ _ h => (by cases h),
    fun _ _ _ _ _ _ _ _ _ _ h => (by cases h)⟩

open Marwood.Lemmas.Good.Demo in
/-- every hypothesis of `run_never_panics_machine_closed` holds of the demo machine -/
example (count : Option Nat) (fuel c : Nat) (m : String) (sf : St CHeap)
    (hr : runLoop (machine C13.failingExt false) count fuel c (sHalt 0) = .error (.panic m) sf) :
    m = "apply: list longer than fuel (cyclic list)" :=
  run_never_panics_machine_closed C13.failingExt C13.failingExt_codeLawsV false C13.failingExt_laws
    C13.failingExt_good C13.failingExt_proc failingExt_noPanic failingExt_envInv (sHalt_vmOkP _ _) (sHalt_npinv 0)
    (sHalt_envInv 0 (.inl rfl)) (sHalt_sizeBounded _) count fuel c hr

end NoPanicMachineClosed

/-- the list-builtin demo state (entry code, a top-level lambda, pairs, globals) satisfies the invariant too -/
example : Marwood.Lemmas.Good.EnvInv Marwood.Lemmas.Good.LDemo.sDemo := Marwood.Lemmas.Good.LDemo.sDemo_envInv

/-! ### T06.6 for whole sessions, from the invariants of the INITIAL state only (wave 12)

`history_never_panics_machine_closed` asks `VmOkP`, `EnvInv` and `SizeBounded` of every state in which a job starts
(`HistGoodE`): `prepare_eval` — compiler and loader — is outside `runHistory`. With the loader relation `Installs` /
`InstallsGarbage` (Lemmas/PrepareDefs.lean; checked against every real `prepare_eval` of the stream `prepare-installs`
by the executable checker `installsB`, proved sound) these are consequences:

* `prepare_vmOkP_idle`, `prepare_npinv` (wave 11) — the bundled invariant and `NPInv`;
* **`prepare_envInv`** (Lemmas/PrepareEnv.lean) — `EnvInv`. The clauses `EnvInv` states of a code object — no MOVIMM /
  PUSHIMM immediate points to a capturing lambda except at `MOVIMM _ %acc; CLOSURE`; the lambda loaded at such a site
  indexes this object's map; no PUSHIMM immediate is an `InstructionPointer` — are THEOREMS about the compiler model's
  output (Lemmas/CompileEnvmap*.lean: `compileTop_envCode`, by induction on the fuel over the six mutual compiler
  functions) transported through the loading relation (`LoadedLam`, `ImmLoaded`: Lemmas/PrepareEnvCode.lean
  `LoadedQ.codeOkH`); the entry lambda and the top-level lambda capture nothing.

`HistInstalls` (Lemmas/PrepareHistory.lean) is the history relation with `prepare_eval` as a step of its own (accepted
form: `Installs`, then `runEval`; rejected form: `InstallsGarbage`, then the collection of the `Err` arm). -/

section FromInitial
open Marwood.Vm Marwood.Vm.Concrete Marwood.Lemmas.Sim Marwood.Lemmas.Good

/-- **`prepare_eval` re-establishes the slot invariant** (re-export of `Lemmas/PrepareEnv.lean`) -/
theorem prepare_envInv {e : Datum} {fuel : Nat} {s s' : St CHeap} {entry : Nat} (i : IdleOk s) (ev : EnvInv s)
    (ha : neE s.heap s.acc = true) (st : Installs e fuel s s' entry) (sm : Small s'.heap) :
    EnvInv (prepare s' entry) := Marwood.Lemmas.Good.prepare_envInv i ev ha st sm

/-- **T06.6 for whole sessions: no history of `eval` calls — each with its `prepare_eval` — makes the modelled VM
    panic**, except through `apply`'s list-length guard. Hypotheses: of the INITIAL state the idle invariant `IdleOk`
    (heap-simulation invariant, verified code, "no value leads to entry code", empty stack), `NPInv`, `EnvInv`, and
    `acc` not pointing to a capturing lambda (`acc = Undefined` in a fresh VM); the relation `HistInstalls` (what the
    stream `prepare-installs` checks of every real `prepare_eval`); the laws of the unmodelled builtins (all theorems for
    `listExtWith`: `history_never_panics_from_initial_listExt`); the physical size bounds `RecSized` (every heap has at
    most `2^62` cells). No hypothesis about any later state. -/
theorem history_never_panics_from_initial (ext : ExtOps) (ecl : ExtCodeLawsV ext) (force : Bool) (el : ExtLaws ext)
    (eg : ExtGood ext) (ep : ExtProc ext) (en : ExtNoPanic ext) (ee : ExtEnvInv ext) {s0 sf : St CHeap}
    {recs : List EvRec} (hist : HistInstalls ext force s0 recs sf) (i0 : IdleOk s0) (n0 : NPInv s0) (e0 : EnvInv s0)
    (a0 : neE s0.heap s0.acc = true) (sz : ∀ rc ∈ recs, RecSized ext force rc) :
    ∀ f ∈ recFaults recs, ∀ m, f = Fault.panic m → m = "apply: list longer than fuel (cyclic list)" :=
  history_never_panics_installs_closed ecl force el eg ep en ee hist i0 n0 e0 a0 sz

/-! #### non-vacuity -/

open Marwood.Lemmas.Good.Demo in
/-- `prepare_envInv` on a concrete `prepare_eval`: the form `#t` on the demo machine (`Demo.demo_installs`, through the
    executable checker and `installsB_sound`) -/
example : EnvInv (prepare sT 2) :=
  prepare_envInv sHalt_idleOk (sHalt_envInv 0 (.inl rfl)) rfl demo_installs demo_small

open Marwood.Lemmas.Good.Demo Marwood.Proofs.C13 in
/-- every hypothesis of `history_never_panics_from_initial` holds of a history on the demo machine in which
    `prepare_eval` allocated: the loader steps of `Demo.demo_installs` (two code objects) taken as what a rejected form
    left behind, then the collection of the `Err` arm -/
example : ∀ f ∈ recFaults [EvRec.rejected sT], ∀ m, f = Fault.panic m →
    m = "apply: list longer than fuel (cyclic list)" :=
  history_never_panics_from_initial failingExt failingExt_codeLawsV false failingExt_laws failingExt_good
    failingExt_proc failingExt_noPanic failingExt_envInv
    (HistInstalls.rejected demo_garbage (.nil _)) sHalt_idleOk (sHalt_npinv 0) (sHalt_envInv 0 (.inl rfl)) rfl
    (by
      intro rc hrc
      have : rc = .rejected sT := by simpa using hrc
      subst this
      exact ⟨demo_small, by unfold Small; decide +kernel⟩)

end FromInitial

end Marwood.Proofs.C06
