import Marwood.Lemmas.PrintCanon
import Marwood.Lemmas.PrintStore
import Marwood.Lemmas.MachineDatum
import Marwood.Lemmas.GoodDemo
/-!
# C10 — written data reads back as the same data

Property theorems only. Models: `Marwood.Print` (cell.rs `Display`, char.rs `write_escaped_char`),
`Marwood.Lex`, `Marwood.Parse`, `Marwood.Num.Text` (number printer/reader), `Marwood.Print.Store`
(put_cell / get_as_cell). Float *text* is abstract: `FloatText fo` (C16: reading a printed finite double
gives it back; it contains `.` or `e` and no `/`) and `FloatLex fo` (a printed finite double is an
optional `-`, a digit, then digits / `.` / `e`) are hypotheses about Rust's float formatting, checked on
every double the correspondence uses.

* T10.1  `write_read_write` (`Readable d`: every boolean, character, string; numbers of every
  representation, doubles finite; symbols that the reader reads back from their own spelling — `SymTok`;
  pairs, proper and improper lists, vectors, quote forms, nested arbitrarily), by structural induction
  (`Lemmas/PrintRoundtrip.lean: readsAll`) from the atom lemmas restated below;
  `write_read_write_fragment_partial`: the same under a *decidable* hypothesis (plain identifiers as
  symbols), and `readable_of_fragment`;
* T10.2  `heap_roundtrip`, `heap_roundtrip_unboxed`, `eval_quote_id`, and the composition
  `text_heap_result_text`, `source_text_trip` (the text `(quote <written>)`);
* T10.2 on the **concrete heap** (`Vm/ConcreteHeap.lean`: real free list, growth, symbol interning):
  `put_then_read_cell_concrete`, `heap_roundtrip_concrete`, `heap_read_unique_concrete` (atoms and pairs — lists, dotted
  lists, nested; vectors not covered);
* atoms: `string_escape_inverse`, `string_token_self_delimiting`, `char_spelling_inverse`,
  `char_token_self_delimiting`, `exact_number_token`, `plain_identifier_token`;
* the class of symbols excluded by `Readable` is real: `prefix_symbol_not_readable` (known finding).
-/
namespace Marwood.Proofs.C10
open Marwood Marwood.Proofs.C16

/-! ## T10.1 -/

/-- **T10.1** for every readable datum `d`: reading the text produced by `write` succeeds, consumes
the whole text, and yields a datum `d'` that is `d` in structure, characters, strings and symbols, with
numbers equal in value and exactness; writing `d'` yields the same text again. -/
theorem write_read_write (fo : FloatOps) (ht : FloatText fo) (hl : FloatLex fo) (d : Datum)
    (hr : Readable fo d) :
    ∃ d', parseText fo (write fo d) = .ok (d', none) ∧ SameDatum d' d ∧ write fo d' = write fo d :=
  ⟨canon d, parseText_write fo ht hl d hr, canon_same d, write_canon fo d⟩

/-- the datum the reader returns is `d` with every number in the representation the reader chooses
(small bignums become fixnums, `n/1` becomes `n`); display mode prints it like `d` too -/
theorem read_result (fo : FloatOps) (ht : FloatText fo) (hl : FloatLex fo) (d : Datum) (hr : Readable fo d) :
    parseText fo (write fo d) = .ok (canon d, none) ∧ display fo (canon d) = display fo d :=
  ⟨parseText_write fo ht hl d hr, (print_canon fo false d).1⟩

/-- a decidable fragment of `Readable`: symbols of plain identifier shape (`list->vector`, `λ`, `a.b`)
or number-initial symbol tokens (`1+`, `-a`, `->x`, `12ab`) -/
def inFragment : Datum → Bool
  | .bool _ => true
  | .char _ => true
  | .str _ => true
  | .nil => true
  | .num (.flo f) => decide (f.bits < 2^64) && f.isFinite
  | .num n => n.WF
  | .sym s => identShape s || numSymShape s
  | .pair a d => inFragment a && inFragment d
  | .vec e => inFragment e && properSpine e
  | _ => false

theorem readable_of_fragment (fo : FloatOps) : ∀ d : Datum, inFragment d = true → Readable fo d := by
  intro d
  induction d with
  | num n =>
    intro h
    cases n with
    | flo f =>
      simp only [inFragment, Bool.and_eq_true, decide_eq_true_eq] at h
      exact ⟨by simp [Num.WF, h.1], fun g e => by cases e; exact h.2⟩
    | fix m => exact ⟨h, fun g e => by cases e⟩
    | big m => exact ⟨h, fun g e => by cases e⟩
    | rat m k => exact ⟨h, fun g e => by cases e⟩
  | sym s =>
    intro h
    simp only [inFragment, Bool.or_eq_true] at h
    rcases h with h | h
    · exact identShape_symTok fo h
    · exact numSymShape_symTok fo h
  | pair a d iha ihd =>
    intro h
    simp only [inFragment, Bool.and_eq_true] at h
    exact ⟨iha h.1, ihd h.2⟩
  | vec e ih =>
    intro h
    simp only [inFragment, Bool.and_eq_true] at h
    exact ⟨ih h.1, h.2⟩
  | bool _ => intro _; trivial
  | char _ => intro _; trivial
  | str _ => intro _; trivial
  | nil => intro _; trivial
  | _ => intro h; cases h

/-- **T10.1 under a decidable hypothesis** (symbols restricted to plain identifiers) -/
theorem write_read_write_fragment_partial (fo : FloatOps) (ht : FloatText fo) (hl : FloatLex fo) (d : Datum)
    (hd : inFragment d = true) :
    ∃ d', parseText fo (write fo d) = .ok (d', none) ∧ SameDatum d' d ∧ write fo d' = write fo d :=
  write_read_write fo ht hl d (readable_of_fragment fo d hd)

/-! ## T10.2 — datum → heap → datum -/

/-- **T10.2** allocating a datum in any store and reading the result back gives the datum (every
datum that has a heap form: no procedure, macro or continuation inside); the store is only extended,
so whatever was allocated before — interned symbols in particular — is untouched -/
theorem heap_roundtrip (st : PStore.Store) (d : Datum) (h : PStore.Plain d = true) :
    ∃ st' p, PStore.putCell st d = .ok (st', p) ∧ PStore.Ext st st' ∧
      PStore.getPtr st' (PStore.bound d + 1) p = .ok d := by
  obtain ⟨st', p, c, hput, hext, hc, _, hg⟩ := (PStore.putOk_all d h).1 st
  refine ⟨st', p, hput, hext, ?_⟩
  rw [PStore.getPtr]
  simp only [hc]
  exact hg

/-- `maybe_put_cell` (vector elements, builtin results) likewise -/
theorem heap_roundtrip_unboxed (st : PStore.Store) (d : Datum) (h : PStore.Plain d = true) :
    ∃ st' v, PStore.maybePutCell st d = .ok (st', v) ∧ PStore.Ext st st' ∧
      PStore.getVal st' (PStore.bound d + 2) v = .ok d :=
  (PStore.putOk_all d h).2.1 st

/-- **T10.2** quoting a datum and evaluating it returns the datum unchanged (model of the
two-instruction program the compiler emits for `(quote d)`: allocate, move to the accumulator, read the
result back) -/
theorem eval_quote_id (d : Datum) (h : PStore.Plain d = true) : PStore.evalQuote d = .ok d :=
  PStore.evalQuote_id d h

theorem proper_canon : ∀ e : Datum, properSpine e = true → PStore.proper (canon e) = true := by
  intro e
  induction e with
  | nil => intro _; rfl
  | pair a d _ ih => intro h; simp only [properSpine] at h; simp only [canon, PStore.proper]; exact ih h
  | _ => intro h; cases h

theorem plain_canon_of_readable (fo : FloatOps) : ∀ d : Datum, Readable fo d → PStore.Plain (canon d) = true := by
  intro d
  induction d with
  | pair a d iha ihd =>
    intro h
    simp only [canon, PStore.Plain, Bool.and_eq_true]
    exact ⟨iha h.1, ihd h.2⟩
  | vec e ih =>
    intro h
    simp only [canon, PStore.Plain, Bool.and_eq_true]
    exact ⟨ih h.1, proper_canon e h.2⟩
  | bool _ => intro _; rfl
  | char _ => intro _; rfl
  | str _ => intro _; rfl
  | sym _ => intro _; rfl
  | num _ => intro _; rfl
  | nil => intro _; rfl
  | _ => intro h; exact h.elim

/-- **the whole trip** text → datum (reader) → heap → result → text: the datum read from the written
form survives quoting and evaluation unchanged and is written as the same text -/
theorem text_heap_result_text (fo : FloatOps) (ht : FloatText fo) (hl : FloatLex fo) (d : Datum)
    (hr : Readable fo d) :
    ∃ d', parseText fo (write fo d) = .ok (d', none) ∧ PStore.evalQuote d' = .ok d' ∧
      write fo d' = write fo d ∧ SameDatum d' d :=
  ⟨canon d, parseText_write fo ht hl d hr, PStore.evalQuote_id _ (plain_canon_of_readable fo d hr),
    write_canon fo d, canon_same d⟩

/-- **the trip as source text**: the text `(quote <written form of d>)` reads as the quote form around a
datum `d'` which evaluates (allocate, move to the accumulator, read back) to itself and is written as
the text we started from -/
theorem source_text_trip (fo : FloatOps) (ht : FloatText fo) (hl : FloatLex fo) (d : Datum)
    (hr : Readable fo d) :
    ∃ d', parseText fo ('(' :: (quoteName ++ (' ' :: (write fo d ++ [')'])))) =
        .ok (.pair (.sym quoteName) (.pair d' .nil), none) ∧
      PStore.evalQuote d' = .ok d' ∧ write fo d' = write fo d ∧ SameDatum d' d :=
  ⟨canon d, parseText_quote_write fo ht hl d hr,
    PStore.evalQuote_id _ (plain_canon_of_readable fo d hr), write_canon fo d, canon_same d⟩

/-! ## the atom lemmas T10.1 is built from -/

/-- `parse_string` inverts the printer's string escaping, for every text (every scalar value) -/
theorem string_escape_inverse (s : Text) : unescapeGo .norm (escapeStr s) = .ok s :=
  unescapeGo_escapeStr s

/-- a written string is one `String` token whatever follows it, and the parser cuts exactly the
escaped body out of it -/
theorem string_token_self_delimiting (s rest : Text) :
    ScansAs (writeString s) .string rest ∧ stringInner (writeString s) = .ok (escapeStr s) :=
  ⟨scansAs_string s rest, stringInner_writeString s⟩

/-- `parse_char` inverts `write_escaped_char`, for every scalar value -/
theorem char_spelling_inverse (c : Char) : parseCharSpan (writeEscapedChar c) = .ok (.char c) :=
  parseCharSpan_writeEscapedChar c

/-- a written character is one `Char` token when followed by the end of the text, a space or `)` -/
theorem char_token_self_delimiting (c : Char) (rest : Text) (h : Delim rest) :
    ScansAs (writeEscapedChar c) .char rest := scansAs_char c rest h

/-- a printed exact number (any representation) is one `Number` token before a delimiter and reads back
as the number of the same value in the reader's representation (through C16 `exact_roundtrip`) -/
theorem exact_number_token (fo : FloatOps) (n : Num) (hwf : n.WF = true) (hex : isExact n = true)
    (rest : Text) (h : Delim rest) :
    ScansAs (printNumber fo n) .number rest ∧ parseNumber fo 10 (printNumber fo n) = .ok (normalize n) := by
  have := (exact_roundtrip fo n hwf hex 10 (.inr (.inr (.inl rfl)))).1
  rw [numberToString10] at this
  refine ⟨?_, this⟩
  cases n with
  | flo f => cases hex
  | fix m => exact scansAs_numberShape (intDigits10_shape m) rest h
  | big m => exact scansAs_numberShape (intDigits10_shape m) rest h
  | rat m d =>
    simp only [Num.WF, Bool.and_eq_true, decide_eq_true_eq] at hwf
    exact scansAs_numberShape (ratDigits10_shape m d hwf.1.1.1) rest h

/-- a number-initial token with a non-number character (`1+`, `->x`, `1e--7`; not the sign of an exponent:
`1e-7` is a number since fix c1c04ca, see `numSymFlag`) is one `Symbol` token before a delimiter -/
theorem number_initial_symbol_token (s rest : Text) (hs : numSymShape s = true) (h : Delim rest) :
    ScansAs s .symbol rest := scansAs_numSym hs rest h

/-- a plain identifier is one `Symbol` token before a delimiter -/
theorem plain_identifier_token (s rest : Text) (hs : identShape s = true) (h : Delim rest) :
    ScansAs s .symbol rest := scansAs_ident hs rest h

/-! ## what `Readable` excludes is real

The property speaks of "symbols that the reader can produce". Behind a radix prefix the reader produces
symbols whose spelling is a decimal number: `#b12` is the symbol `12`. `write` prints the bare spelling,
which reads back as a number. Such symbols are not `SymTok` (they do not read back from their own
spelling) — known finding C10-prefix-symbol-reads-as-number. -/

def noFloats : FloatOps where
  parseF64 _ _ := none
  bigRatToF64 _ _ := ⟨0⟩
  toExact _ := none
  toInexact _ := ⟨0⟩
  fmtExp _ := []
  fmtFix1 _ := []
  fmtShort _ := []
  fmtRadix _ _ := []

theorem prefix_symbol_not_readable :
    parseText noFloats "#b12".toList = .ok (.sym "12".toList, none) ∧
    parseText noFloats (write noFloats (.sym "12".toList)) = .ok (.num (.fix 12), none) ∧
    ¬ SameDatum (.num (.fix 12)) (.sym "12".toList) := by
  refine ⟨by decide, by decide, ?_⟩
  intro h
  cases h

/-! ## non-vacuity -/

/-- a toy float text satisfying both hypotheses: a double prints as `0.` followed by the decimal digits
of its bit pattern -/
def toyFloats : FloatOps where
  parseF64 _ s := match s with
    | '0' :: '.' :: ds => (parseNat 10 ds).map fun b => ⟨b⟩
    | _ => none
  bigRatToF64 _ _ := ⟨0⟩
  toExact _ := none
  toInexact _ := ⟨0⟩
  fmtExp f := '0' :: '.' :: natDigits 10 f.bits
  fmtFix1 f := '0' :: '.' :: natDigits 10 f.bits
  fmtShort f := '0' :: '.' :: natDigits 10 f.bits
  fmtRadix _ _ := []

theorem toy_print (f : F64) : printNumber toyFloats (.flo f) = '0' :: '.' :: natDigits 10 f.bits := by
  show (if f.gt1e10 then _ else if f.isInteger then _ else _) = _
  split
  · rfl
  · split <;> rfl

theorem toy_floatText : FloatText toyFloats where
  parse_print f _ := by
    rw [toy_print]
    show (parseNat 10 (natDigits 10 f.bits)).map (fun b => (⟨b⟩ : F64)) = some f
    rw [parseNat_natDigits (by omega) (by omega)]
    rfl
  has_mark f _ := by rw [toy_print]; exact .inl (by simp)
  no_slash f _ := by
    rw [toy_print]
    intro c hc
    rcases List.mem_cons.mp hc with rfl | hc
    · decide
    rcases List.mem_cons.mp hc with rfl | hc
    · decide
    · obtain ⟨d, hd, rfl⟩ := natDigits_chars (by omega) _ c hc
      exact (digitChar_plain d (by omega)).2.2.2.1

theorem toy_floatLex : FloatLex toyFloats where
  shape f _ := by
    rw [toy_print]
    refine ⟨'0', '.' :: natDigits 10 f.bits, rfl, by decide, ?_⟩
    intro x hx
    rcases List.mem_cons.mp hx with rfl | hx
    · decide
    · exact natDigits10_subsequent _ x hx

/-- `(quote (a "b\n" #\space -7 1/2 . #(1.5 ())))` with a small bignum inside -/
def sample : Datum :=
  .pair (.sym "quote".toList) (.pair
    (.pair (.sym "a".toList) (.pair (.str "b\n".toList) (.pair (.char ' ') (.pair (.num (.big (-7)))
      (.pair (.num (.rat 1 2)) (.vec (.pair (.num (.flo ⟨0x3FF8000000000000⟩)) (.pair .nil .nil))))))))
    .nil)

example : inFragment sample = true := by decide

example : inFragment (.pair (.sym "->x".toList) (.pair (.sym "1+".toList) (.sym "-".toList))) = false := by decide
example : inFragment (.pair (.sym "->x".toList) (.pair (.sym "1+".toList) (.sym "λ.b".toList))) = true := by decide

/-- since fix c1c04ca the sign of an exponent continues a number token: `1e-7` left the fragment (it reads as a
number), the near misses and the old members stay -/
example : numSymShape "1e-7".toList = false ∧ numSymShape "-2.5E+3".toList = false ∧
    numSymShape "1e--7".toList = true ∧ numSymShape "1ee-7".toList = true ∧ numSymShape "1/2e-3".toList = true ∧
    numSymShape "1+".toList = true ∧ numSymShape "->x".toList = true ∧ numSymShape "+e-1".toList = true := by decide

example : ∃ d', parseText toyFloats (write toyFloats sample) = .ok (d', none) ∧ SameDatum d' sample ∧
    write toyFloats d' = write toyFloats sample :=
  write_read_write_fragment_partial toyFloats toy_floatText toy_floatLex sample (by decide)

/-- the reader's datum differs from the written one in representation only: `-7` as a bignum comes back
as a fixnum -/
example : canon sample ≠ sample := by decide

example : PStore.Plain sample = true := by decide

example : PStore.evalQuote sample = .ok sample := eval_quote_id sample (by decide)

/-- peculiar identifiers are readable symbols too (the general class `SymTok`, here `...`) -/
example : Readable noFloats (.sym "...".toList) := by
  intro rest hd
  left
  refine ⟨'.', ['.', '.'], rfl, ?_⟩
  have h1 : isOpenChar '.' = false := by decide
  have h2 : isCloseChar '.' = false := by decide
  simp only [scanPiece, h1, h2, Bool.false_eq_true, if_false]
  simp only [show ('.' : Char) ≠ '\'' by decide, show ('.' : Char) ≠ '`' by decide,
    show ('.' : Char) ≠ ',' by decide, show ('.' : Char) ≠ '#' by decide, beq_iff_eq, if_false, if_true]
  have h3 : isSubsequentNumber '.' = true := by decide
  simp only [scanDot, List.cons_append, h3, if_true]
  have h4 : dotNumberTail true false false ('.' :: '.' :: rest) = (['.', '.'], rest, true) := by
    have : spanWhile isSubsequentIdentifier (['.'] ++ rest) = (['.'], rest) :=
      spanWhile_delim isSubsequentIdentifier (by decide) (by decide) ['.'] rest (by decide) hd
    simp only [List.singleton_append] at this
    rw [dotNumberTail]
    have e : (('.' : Char) == '.') = true := by decide
    simp only [e, if_true, dotSymbolTail, this]
  simp only [List.nil_append, h4, if_true]
  rfl

/-! ## T10.2 on the concrete heap

`heap_roundtrip` above is about an abstract store with fresh allocation. The same conversion on the concrete heap
`CHeap` (cells + 2-bit map + free list + symbol table; `putV` = `Heap::put` with interning; the allocator takes
the head of the free list or grows). A concrete cell keeps scalar payloads (as an `opaque` tag whose first
character is the kind), so the round trip is exact; the coding of number payloads as text is the parameter
`NumCode` (any coding with a left inverse; inhabited: `unaryNumCode`). -/

section concrete
open Marwood.Vm.Concrete Marwood.Lemmas.Sim Marwood.Lemmas.Good Marwood.Lemmas.MachineDatum
open Marwood.Heap (WFHeap)

/-- **T10.2, one cell, real allocator.** `Heap::put` of any non-pointer value `v` on a well-formed concrete heap
returns a pointer to an allocated cell holding exactly `v` (payload included) — whether the cell came off the
free list, from growth, or is the interned cell of a symbol — and every allocated cell keeps its content. -/
theorem put_then_read_cell_concrete {h : CHeap} (wf : WFHeap true (toHeap h)) {v : Vm.VCell}
    (hnp : isPtr v = false) :
    ∃ p, (putV h v).2 = .ptr p ∧ deref (putV h v).1 (putV h v).2 = v ∧ p ∉ (putV h v).1.free ∧
      Keeps h (putV h v).1 := by
  obtain ⟨p, hq, hc, hf, hk⟩ := putV_cell wf hnp
  refine ⟨p, hq, ?_, hf, hk⟩
  rw [hq]
  simp only [deref, getAt, hc]
  rfl

/-- **T10.2 on the concrete heap.** For every datum built from atoms (booleans, characters, numbers of every
representation, strings, symbols, nil, void, undefined) and pairs — proper and dotted lists, nested arbitrarily —
`putDatum` (`put_cell`: car, cdr, then the pair, each through `Heap::put`) on a well-formed heap returns an address
that reads back (`Rep`: `get_as_cell` as a relation) as the datum; every previously allocated cell keeps its
content (so data stored earlier, interned symbols included, still read as before: `Rep.keeps`); the heap stays
well-formed. `Small` is the physical size bound on the final heap. -/
theorem heap_roundtrip_concrete (nc : NumCode) (d : Datum) {h h' : CHeap} {p : Nat}
    (wf : WFHeap true (toHeap h)) (hp : putDatum nc h d = some (h', p)) (sm : Small h') :
    Rep nc h' p d ∧ Keeps h h' ∧ WFHeap true (toHeap h') ∧
      (∀ q x, Rep nc h q x → Rep nc h' q x) := by
  have r := putDatum_rep nc d wf hp sm
  exact ⟨r.rep, r.keeps, r.wf, fun _ _ rq => rq.keeps r.keeps⟩

/-- reading is a function: what `putDatum` returns reads as the datum **and as nothing else** -/
theorem heap_read_unique_concrete (nc : NumCode) (d d' : Datum) {h h' : CHeap} {p : Nat}
    (wf : WFHeap true (toHeap h)) (hp : putDatum nc h d = some (h', p)) (sm : Small h')
    (r' : Rep nc h' p d') : d' = d :=
  (putDatum_rep nc d wf hp sm).rep.unique r' |>.symm

/-- `putDatum` succeeds exactly on data that have a heap form here; e.g. a dotted pair of a symbol and a string on
the demo heap of Lemmas/GoodDemo.lean (cells 1 and 2 come off the free list, then the pair cell 3) -/
example (nc : NumCode) : ∃ h', putDatum nc Demo.hHalt (.pair (.sym ['a']) (.str ['b'])) = some (h', 3) :=
  ⟨_, rfl⟩

/-- the hypotheses are satisfiable: the demo heap is well-formed, `NumCode` is inhabited -/
example : WFHeap true (toHeap Demo.hHalt) ∧ Nonempty NumCode := ⟨Demo.hHalt_hg.wf, ⟨unaryNumCode⟩⟩

end concrete

end Marwood.Proofs.C10
